(* C19 - proofs about the label index machine (Conc/Index.v): invariants over all
   interleavings of the lock sections, for any number of threads. *)
From Verif Require Import Conc.Index.
From Coq Require Import List Arith Bool Lia.
Import ListNotations.

Section IndexProofs.
  Variable K : Type.
  Variable K_eq_dec : forall a b : K, {a = b} + {a <> b}.

  Notation tbl := (tbl K).
  Notation state := (state K).
  Notation assoc := (assoc K K_eq_dec).
  Notation append_key := (append_key K).
  Notation get_key := (get_key K K_eq_dec).
  Notation step := (step K K_eq_dec).
  Notation run := (run K K_eq_dec).
  Notation init := (init K).
  Notation wf_tbl := (wf_tbl K K_eq_dec).
  Notation reachable := (reachable K K_eq_dec).
  Notation appender_ok := (appender_ok K).

  (* ---- tables ---- *)

  Lemma assoc_in : forall m s p, assoc m s = Some p -> In (s, p) m.
  Proof.
    induction m as [|[k q] r IH]; simpl; intros s p H; try discriminate.
    destruct (K_eq_dec k s) as [->|NE].
    - inversion H; subst; auto.
    - right; auto.
  Qed.

  Lemma wf_iff : forall b, wf_tbl b ->
    forall s p, assoc (lmap K b) s = Some p <-> nth_error (labels K b) p = Some s.
  Proof.
    intros b [ND [A B]] s p; split; intros H.
    - apply A. apply assoc_in; auto.
    - apply B; auto.
  Qed.

  Lemma wf_empty : wf_tbl (empty_tbl K).
  Proof.
    repeat split; simpl.
    - constructor.
    - intros k p [].
    - intros [|p] k H; discriminate.
  Qed.

  Lemma nth_error_app_mono : forall (A : Type) (l e : list A) p x,
    nth_error l p = Some x -> nth_error (l ++ e) p = Some x.
  Proof.
    intros A l e p x H. rewrite nth_error_app1; auto.
    apply nth_error_Some. congruence.
  Qed.

  Lemma wf_not_in : forall b s, wf_tbl b -> assoc (lmap K b) s = None -> ~ In s (labels K b).
  Proof.
    intros b s [ND [A B]] N I. apply In_nth_error in I. destruct I as [p P].
    apply B in P. congruence.
  Qed.

  Lemma NoDup_snoc : forall (l : list K) s, NoDup l -> ~ In s l -> NoDup (l ++ [s]).
  Proof.
    induction l as [|k r IH]; simpl; intros s N NI.
    - constructor; [auto | constructor].
    - inversion N; subst. constructor.
      + intros I. apply in_app_or in I. destruct I as [I | [I | []]]; auto.
      + apply IH; auto.
  Qed.

  Lemma wf_append : forall b s, wf_tbl b -> assoc (lmap K b) s = None ->
    wf_tbl (fst (append_key b s)).
  Proof.
    intros b s W N. pose proof (wf_not_in b s W N) as NI.
    destruct W as [ND [A B]]. unfold append_key; simpl. repeat split; simpl.
    - apply NoDup_snoc; auto.
    - intros k p [E | I].
      + inversion E; subst. rewrite nth_error_app2 by lia. rewrite Nat.sub_diag. reflexivity.
      + apply nth_error_app_mono. auto.
    - intros p k H.
      destruct (Nat.lt_ge_cases p (length (labels K b))) as [LT | GE].
      + rewrite nth_error_app1 in H by auto.
        destruct (K_eq_dec s k) as [->|NE].
        * apply B in H. congruence.
        * apply B; auto.
      + rewrite nth_error_app2 in H by auto.
        destruct (p - length (labels K b)) as [|d] eqn:D; simpl in H.
        * inversion H; subst. destruct (K_eq_dec k k); try congruence. f_equal. lia.
        * destruct d; discriminate.
  Qed.

  Lemma get_key_spec : forall b s b' p, wf_tbl b -> get_key b s = (b', p) ->
    wf_tbl b' /\ nth_error (labels K b') p = Some s /\
    (exists ext, labels K b' = labels K b ++ ext) /\
    (In s (labels K b) -> b' = b).
  Proof.
    intros b s b' p W H. unfold get_key in H.
    destruct (assoc (lmap K b) s) as [q|] eqn:A.
    - inversion H; subst. split; [auto|]. split; [apply (wf_iff _ W); auto|]. split; [|auto].
      exists []. rewrite app_nil_r; auto.
    - pose proof (wf_append b s W A) as W'. unfold append_key in *. inversion H; subst; simpl in *.
      split; [exact W'|]. split; [|split].
      + rewrite nth_error_app2 by lia. rewrite Nat.sub_diag. reflexivity.
      + eexists; reflexivity.
      + intros I. exfalso. exact (wf_not_in b s W A I).
  Qed.

  Lemma seq_keys_wf : forall ss b b' ps, wf_tbl b -> seq_keys K K_eq_dec b ss = (b', ps) -> wf_tbl b'.
  Proof.
    induction ss as [|s r IH]; simpl; intros b b' ps W H.
    - inversion H; subst; auto.
    - destruct (get_key b s) as [b1 p] eqn:G. destruct (seq_keys K K_eq_dec b1 r) as [b2 qs] eqn:S.
      inversion H; subst. eapply IH; [|eauto]. eapply get_key_spec; eauto.
  Qed.

  (* ---- appender_ok ---- *)

  Lemma appender_ok_app : forall p L e, appender_ok p L = true -> appender_ok p (L ++ e) = true.
  Proof.
    induction L as [|[s q] r IH]; simpl; intros e H; try discriminate.
    destruct (Nat.eqb q p); auto. destruct (Nat.ltb q p); auto.
  Qed.

  Lemma appender_ok_new : forall p s L, (forall k q, In (k, q) L -> q < p) ->
    appender_ok p (L ++ [(s, p)]) = true.
  Proof.
    induction L as [|[k q] r IH]; simpl; intros H.
    - rewrite Nat.eqb_refl. reflexivity.
    - assert (q < p) as LT by (eapply H; left; reflexivity).
      destruct (Nat.eqb_spec q p); auto.
      destruct (Nat.ltb_spec q p); try lia. apply IH. intros; eapply H; right; eauto.
  Qed.

  (* ---- the invariant ---- *)

  Record Inv (b0 : tbl) (st : state) : Prop := {
    inv_wf : wf_tbl (tb K st);
    inv_ext : exists ext, labels K (tb K st) = labels K b0 ++ ext;
    inv_log : forall t s p, In (s, p) (logs K st t) -> nth_error (labels K (tb K st)) p = Some s;
    inv_app : forall p, length (labels K b0) <= p < length (labels K (tb K st)) ->
                exists t, appender_ok p (logs K st t) = true
  }.

  Lemma inv_init : forall b0, wf_tbl b0 -> Inv b0 (init b0).
  Proof.
    intros b0 W. constructor; simpl; auto.
    - exists []. rewrite app_nil_r; auto.
    - intros t s p [].
    - intros p H. lia.
  Qed.

  Lemma upd_same : forall A (f : nat -> A) t a, upd f t a t = a.
  Proof. intros. unfold upd. rewrite Nat.eqb_refl. reflexivity. Qed.

  Lemma upd_other : forall A (f : nat -> A) t a u, u <> t -> upd f t a u = f u.
  Proof. intros. unfold upd. destruct (Nat.eqb_spec u t); congruence. Qed.

  (* returning an index that is already in the table *)
  Lemma inv_ret_found : forall b0 st t s p, Inv b0 st -> assoc (lmap K (tb K st)) s = Some p ->
    Inv b0 (ret K st (tb K st) t s p).
  Proof.
    intros b0 st t s p [W E L A] F. constructor; simpl; auto.
    - intros u k q I. destruct (Nat.eq_dec u t) as [->|NE].
      + rewrite upd_same in I. apply in_app_or in I. destruct I as [I | [I | []]]; eauto.
        inversion I; subst. apply (wf_iff _ W); auto.
      + rewrite upd_other in I by auto. eauto.
    - intros q H. destruct (A q H) as [u U]. exists u.
      destruct (Nat.eq_dec u t) as [->|NE].
      + rewrite upd_same. apply appender_ok_app; auto.
      + rewrite upd_other by auto. auto.
  Qed.

  (* appending a string that is not in the table *)
  Lemma inv_ret_append : forall b0 st t s, Inv b0 st -> assoc (lmap K (tb K st)) s = None ->
    Inv b0 (ret K st (fst (append_key (tb K st) s)) t s (snd (append_key (tb K st) s))).
  Proof.
    intros b0 st t s [W [ext E] L A] F.
    assert (LT : forall u k q, In (k, q) (logs K st u) -> q < length (labels K (tb K st))).
    { intros u k q I. apply L in I. apply nth_error_Some. congruence. }
    constructor; simpl.
    - apply wf_append; auto.
    - exists (ext ++ [s]). rewrite E, app_assoc. reflexivity.
    - intros u k q I. destruct (Nat.eq_dec u t) as [->|NE].
      + rewrite upd_same in I. apply in_app_or in I. destruct I as [I | [I | []]].
        * apply nth_error_app_mono. eauto.
        * inversion I; subst. rewrite nth_error_app2 by lia. rewrite Nat.sub_diag. reflexivity.
      + rewrite upd_other in I by auto. apply nth_error_app_mono. eauto.
    - intros q H. rewrite app_length in H. simpl in H.
      destruct (Nat.eq_dec q (length (labels K (tb K st)))) as [->|NE].
      + exists t. rewrite upd_same. apply appender_ok_new. intros k q I. eapply LT; eauto.
      + destruct (A q) as [u U]; [lia|]. exists u.
        destruct (Nat.eq_dec u t) as [->|NE'].
        * rewrite upd_same. apply appender_ok_app; auto.
        * rewrite upd_other by auto. auto.
  Qed.

  Lemma inv_step : forall b0 st l st', Inv b0 st -> step true st l = Some st' -> Inv b0 st'.
  Proof.
    intros b0 st l st' I H. destruct l as [t s | t]; simpl in H.
    - destruct (pcs K st t); try discriminate.
      destruct (assoc (lmap K (tb K st)) s) as [p|] eqn:F; inversion H; subst; clear H.
      + apply inv_ret_found; auto.
      + destruct I; constructor; auto.
    - destruct (pcs K st t) as [|s]; try discriminate.
      destruct (assoc (lmap K (tb K st)) s) as [p|] eqn:F.
      + inversion H; subst. apply inv_ret_found; auto.
      + pose proof (inv_ret_append b0 st t s I F) as R.
        unfold append_key in *. simpl in *. inversion H; subst. exact R.
  Qed.

  Lemma inv_run : forall ls b0 st st', Inv b0 st -> run true st ls = Some st' -> Inv b0 st'.
  Proof.
    induction ls as [|l r IH]; simpl; intros b0 st st' I H.
    - inversion H; subst; auto.
    - destruct (step true st l) as [st1|] eqn:S; try discriminate.
      eapply IH; [|eauto]. eapply inv_step; eauto.
  Qed.

  Lemma inv_reachable : forall b0 st, wf_tbl b0 -> reachable true b0 st -> Inv b0 st.
  Proof. intros b0 st W [ls R]. eapply inv_run; [apply inv_init; auto | eauto]. Qed.

  (* ---- growth: holds for both variants, from any state ---- *)

  Lemma step_grows : forall rc st l st', step rc st l = Some st' ->
    exists ext, labels K (tb K st') = labels K (tb K st) ++ ext.
  Proof.
    intros rc st l st' H. destruct l as [t s | t]; simpl in H.
    - destruct (pcs K st t); try discriminate.
      destruct (assoc (lmap K (tb K st)) s); inversion H; subst; simpl; exists []; rewrite app_nil_r; auto.
    - destruct (pcs K st t) as [|s]; try discriminate.
      destruct (if rc then assoc (lmap K (tb K st)) s else None).
      + inversion H; subst; simpl. exists []; rewrite app_nil_r; auto.
      + unfold append_key in H. inversion H; subst; simpl. eexists; reflexivity.
  Qed.

  Lemma run_grows : forall rc ls st st', run rc st ls = Some st' ->
    exists ext, labels K (tb K st') = labels K (tb K st) ++ ext.
  Proof.
    induction ls as [|l r IH]; simpl; intros st st' H.
    - inversion H; subst. exists []; rewrite app_nil_r; auto.
    - destruct (step rc st l) as [st1|] eqn:S; try discriminate.
      destruct (step_grows _ _ _ _ S) as [e1 E1]. destruct (IH _ _ H) as [e2 E2].
      exists (e1 ++ e2). rewrite E2, E1, app_assoc. reflexivity.
  Qed.

  Lemma run_app : forall rc l1 l2 st, run rc st (l1 ++ l2) =
    match run rc st l1 with Some st1 => run rc st1 l2 | None => None end.
  Proof.
    induction l1 as [|l r IH]; simpl; intros; auto.
    destruct (step rc st l); auto.
  Qed.

  Lemma step_logs_grow : forall rc st l st' t, step rc st l = Some st' ->
    exists e, logs K st' t = logs K st t ++ e.
  Proof.
    intros rc st l st' t H.
    assert (R : forall b u s p, exists e, logs K (ret K st b u s p) t = logs K st t ++ e).
    { intros b u s p. simpl. destruct (Nat.eq_dec t u) as [->|NE].
      - rewrite upd_same. eexists; reflexivity.
      - rewrite upd_other by auto. exists []. rewrite app_nil_r; auto. }
    destruct l as [u s | u]; simpl in H.
    - destruct (pcs K st u); try discriminate.
      destruct (assoc (lmap K (tb K st)) s); inversion H; subst; auto.
      simpl. exists []; rewrite app_nil_r; auto.
    - destruct (pcs K st u) as [|s]; try discriminate.
      destruct (if rc then assoc (lmap K (tb K st)) s else None).
      + inversion H; subst; auto.
      + unfold append_key in H. inversion H; subst; auto.
  Qed.

  Lemma run_logs_grow : forall rc ls st st' t, run rc st ls = Some st' ->
    exists e, logs K st' t = logs K st t ++ e.
  Proof.
    induction ls as [|l r IH]; simpl; intros st st' t H.
    - inversion H; subst. exists []; rewrite app_nil_r; auto.
    - destruct (step rc st l) as [st1|] eqn:S; try discriminate.
      destruct (step_logs_grow _ _ _ _ t S) as [e1 E1]. destruct (IH _ _ t H) as [e2 E2].
      exists (e1 ++ e2). rewrite E2, E1, app_assoc. reflexivity.
  Qed.

  (* ---- main theorems ---- *)

  (* index_bijective: in every reachable state (every interleaving, any number
     of threads, any call sequence) *)
  Theorem index_bijective : forall b0 st, wf_tbl b0 -> reachable true b0 st ->
    (* the table has no duplicates and labelMap is exactly its inverse *)
    NoDup (labels K (tb K st)) /\
    (forall s p, assoc (lmap K (tb K st)) s = Some p <-> index_to_string K (tb K st) p = Some s) /\
    (* IndexToString (getKey s) = s for every index handed out so far, to any thread *)
    (forall t s p, In (s, p) (logs K st t) -> index_to_string K (tb K st) p = Some s) /\
    (* same string <-> same index, across all threads *)
    (forall t s p t' s' p', In (s, p) (logs K st t) -> In (s', p') (logs K st t') -> (s = s' <-> p = p')) /\
    (* the table only grew by appending *)
    (exists ext, labels K (tb K st) = labels K b0 ++ ext).
  Proof.
    intros b0 st W R. pose proof (inv_reachable b0 st W R) as [Wf E L A].
    split; [apply Wf|]. split; [apply wf_iff; auto|]. split; [exact L|]. split; auto.
    intros t s p t' s' p' I I'. apply L in I. apply L in I'. split; intros; subst.
    - destruct Wf as [ND _]. eapply (proj1 (NoDup_nth_error _) ND); try congruence.
      apply nth_error_Some. congruence.
    - congruence.
  Qed.

  (* indices handed out never change: whatever happens later (any further
     interleaving), an index keeps denoting the same string, and every result
     already returned stays in the log *)
  Theorem index_stable : forall rc st ls st' p s,
    run rc st ls = Some st' ->
    index_to_string K (tb K st) p = Some s -> index_to_string K (tb K st') p = Some s.
  Proof.
    intros rc st ls st' p s R H. destruct (run_grows _ _ _ _ R) as [e E].
    unfold index_to_string in *. rewrite E. apply nth_error_app_mono; auto.
  Qed.

  Theorem index_results_stable : forall b0 ls1 ls2 st1 st2 t s p, wf_tbl b0 ->
    run true (init b0) ls1 = Some st1 -> run true st1 ls2 = Some st2 ->
    In (s, p) (logs K st1 t) ->
    In (s, p) (logs K st2 t) /\ index_to_string K (tb K st2) p = Some s /\
    (forall t' p', In (s, p') (logs K st2 t') -> p' = p).
  Proof.
    intros b0 ls1 ls2 st1 st2 t s p W R1 R2 I.
    assert (I2 : In (s, p) (logs K st2 t)).
    { destruct (run_logs_grow _ _ _ _ t R2) as [e E]. rewrite E. apply in_or_app; auto. }
    assert (RR : reachable true b0 st2).
    { exists (ls1 ++ ls2). rewrite run_app, R1. auto. }
    destruct (index_bijective b0 st2 W RR) as [_ [_ [L [B _]]]].
    split; auto. split; eauto.
    intros t' p' I'. symmetry. apply (proj1 (B _ _ _ _ _ _ I2 I')). reflexivity.
  Qed.

  (* a call that runs alone (section A then section B, or A only when found)
     is get_key: the machine refines the sequential function *)
  Theorem index_call_alone : forall b0 st t s b' p, Inv b0 st -> pcs K st t = Idle ->
    get_key (tb K st) s = (b', p) ->
    exists ls st', run true st ls = Some st' /\ tb K st' = b' /\
      logs K st' t = logs K st t ++ [(s, p)] /\ pcs K st' t = Idle.
  Proof.
    intros b0 st t s b' p I P G. unfold get_key in G.
    destruct (assoc (lmap K (tb K st)) s) as [q|] eqn:A.
    - inversion G; subst. exists [CallA t s]. eexists. simpl. rewrite P, A. split; [reflexivity|].
      simpl. rewrite !upd_same. auto.
    - exists [CallA t s; SecB t]. eexists. simpl. rewrite P, A. simpl. rewrite upd_same, A.
      unfold append_key in *. inversion G; subst. split; [reflexivity|]. simpl.
      rewrite !upd_same. auto.
  Qed.

  (* ---- the executable history check accepts every history of the machine ---- *)

  Notation keyb := (keyb K K_eq_dec).
  Notation memb := (memb K K_eq_dec).
  Notation nodupb := (nodupb K K_eq_dec).
  Notation prefixb := (prefixb K K_eq_dec).
  Notation entry_ok := (entry_ok K K_eq_dec).
  Notation check_history := (check_history K K_eq_dec).

  Lemma keyb_refl : forall k, keyb k k = true.
  Proof. intros; unfold keyb. destruct (K_eq_dec k k); congruence. Qed.

  Lemma keyb_true : forall a b, keyb a b = true <-> a = b.
  Proof. intros; unfold keyb. destruct (K_eq_dec a b); split; congruence. Qed.

  Lemma memb_In : forall s l, memb s l = true <-> In s l.
  Proof.
    induction l as [|k r IH]; simpl.
    - split; [discriminate | tauto].
    - rewrite orb_true_iff, keyb_true, IH. tauto.
  Qed.

  Lemma nodupb_NoDup : forall l, nodupb l = true <-> NoDup l.
  Proof.
    induction l as [|k r IH]; simpl.
    - split; auto. constructor.
    - rewrite andb_true_iff, negb_true_iff, IH. split.
      + intros [M N]. constructor; auto. intros I. apply memb_In in I. congruence.
      + intros N. inversion N; subst. split; auto. destruct (memb k r) eqn:M; auto.
        apply memb_In in M. contradiction.
  Qed.

  Lemma prefixb_app : forall a e, prefixb a (a ++ e) = true.
  Proof. induction a as [|x a IH]; simpl; intros; auto. rewrite keyb_refl. simpl. apply IH. Qed.

  Lemma prefixb_true : forall a b, prefixb a b = true -> exists e, b = a ++ e.
  Proof.
    induction a as [|x a IH]; simpl; intros b H.
    - exists b; auto.
    - destruct b as [|y b]; try discriminate. apply andb_true_iff in H. destruct H as [E P].
      apply keyb_true in E. subst. destruct (IH _ P) as [e ->]. exists e; auto.
  Qed.

  Lemma entry_ok_true : forall final s p, entry_ok final (s, p) = true <-> nth_error final p = Some s.
  Proof.
    intros. unfold entry_ok. simpl. destruct (nth_error final p) as [k|].
    - rewrite keyb_true. split; congruence.
    - split; discriminate.
  Qed.

  Theorem index_history_accepted : forall b0 st n, wf_tbl b0 -> reachable true b0 st ->
    (forall t, n <= t -> logs K st t = []) ->
    check_history (labels K b0) (map (logs K st) (seq 0 n)) (labels K (tb K st)) (lmap K (tb K st)) = true.
  Proof.
    intros b0 st n W R Hn. pose proof (inv_reachable b0 st W R) as [Wf [ext E] L A].
    unfold check_history. repeat (apply andb_true_iff; split).
    - apply nodupb_NoDup. apply Wf.
    - rewrite E. apply prefixb_app.
    - apply forallb_forall. intros Lg I. apply in_map_iff in I. destruct I as [t [<- _]].
      apply forallb_forall. intros [s p] I. apply entry_ok_true. eauto.
    - apply forallb_forall. intros p I. apply in_seq in I.
      destruct (A p) as [t T]; [lia|]. apply existsb_exists. exists (logs K st t). split; auto.
      apply in_map. apply in_seq. split; [lia|]. simpl.
      destruct (Nat.lt_ge_cases t n) as [LT|GE]; auto. rewrite (Hn t GE) in T. discriminate.
    - apply forallb_forall. intros [k p] I. apply entry_ok_true. destruct Wf as [_ [F _]]. auto.
    - apply forallb_forall. intros k I. apply In_nth_error in I. destruct I as [p P].
      destruct Wf as [_ [_ B]]. rewrite (B _ _ P). reflexivity.
  Qed.

  (* and what acceptance means: an accepted history satisfies the statement of
     index_bijective on the observed results (soundness of the check) *)
  Theorem check_history_sound : forall il ls final fm, check_history il ls final fm = true ->
    NoDup final /\ (exists e, final = il ++ e) /\
    (forall L s p, In L ls -> In (s, p) L -> nth_error final p = Some s) /\
    (forall L s p L' s' p', In L ls -> In (s, p) L -> In L' ls -> In (s', p') L' -> (s = s' <-> p = p')) /\
    (forall p, length il <= p < length final -> exists L, In L ls /\ appender_ok p L = true).
  Proof.
    intros il ls final fm H. unfold check_history in H.
    repeat (apply andb_true_iff in H; destruct H as [H ?]).
    apply nodupb_NoDup in H. apply prefixb_true in H3.
    assert (EN : forall L s p, In L ls -> In (s, p) L -> nth_error final p = Some s).
    { intros L s p IL I. rewrite forallb_forall in H2. specialize (H2 _ IL).
      rewrite forallb_forall in H2. apply entry_ok_true. auto. }
    split; auto. split; auto. split; auto. split.
    - intros L s p L' s' p' IL I IL' I'. pose proof (EN _ _ _ IL I). pose proof (EN _ _ _ IL' I').
      split; intros; subst; try congruence.
      eapply (proj1 (NoDup_nth_error _) H); try congruence. apply nth_error_Some. congruence.
    - intros p P. rewrite forallb_forall in H1. specialize (H1 p).
      rewrite existsb_exists in H1. apply H1. apply in_seq. lia.
  Qed.

  (* ---- the re-check is necessary ---- *)

  (* without the re-check: two threads miss the same new string in section A,
     then both append it. *)
  Definition dup_schedule (s : K) : list (label K) := [CallA 0 s; CallA 1 s; SecB 0; SecB 1].

  Theorem index_recheck_necessary : forall s : K,
    exists st, reachable false (empty_tbl K) st /\
      ~ NoDup (labels K (tb K st)) /\
      (* and the two callers were handed different indices for the same string *)
      In (s, 0) (logs K st 0) /\ In (s, 1) (logs K st 1) /\
      (* while the index handed to thread 0 ... still reads s, the map no longer knows it *)
      assoc (lmap K (tb K st)) s = Some 1.
  Proof.
    intros s.
    destruct (run false (init (empty_tbl K)) (dup_schedule s)) as [st|] eqn:R.
    2:{ exfalso. revert R. unfold dup_schedule, run, step, init, empty_tbl, append_key, ret; simpl.
        unfold upd; simpl. discriminate. }
    exists st. split; [exists (dup_schedule s); exact R|].
    revert R. unfold dup_schedule, run, step, init, empty_tbl, append_key, ret; simpl.
    unfold upd; simpl. intros R. inversion R; subst; clear R; simpl.
    split.
    - intros N. inversion N; subst. apply H1. left; reflexivity.
    - split; [left; reflexivity|]. split; [left; reflexivity|].
      destruct (K_eq_dec s s); congruence.
  Qed.

  (* the same schedule with the re-check is harmless *)
  Example index_recheck_effective : forall s : K,
    exists st, run true (init (empty_tbl K)) (dup_schedule s) = Some st /\
      labels K (tb K st) = [s] /\ logs K st 0 = [(s, 0)] /\ logs K st 1 = [(s, 0)].
  Proof.
    intros s. eexists. unfold dup_schedule, run, step, init, empty_tbl, append_key, ret; simpl.
    unfold upd; simpl. destruct (K_eq_dec s s); try congruence. simpl. split; [reflexivity|]. simpl. auto.
  Qed.

End IndexProofs.
