(* C19 - proofs about the par.Cache.Do machine (Conc/Once.v). *)
From Verif Require Import Conc.Once.
From Coq Require Import List Arith Bool Lia.
Import ListNotations.

Section OnceProofs.
  Variable K : Type.
  Variable K_eq_dec : forall a b : K, {a = b} + {a <> b}.

  Notation state := (state K).
  Notation pc := (pc K).
  Notation step := (step K K_eq_dec).
  Notation run := (run K K_eq_dec).
  Notation init := (init K).
  Notation reachable := (reachable K K_eq_dec).
  Notation entry_of := (entry_of K).
  Notation execs_of := (execs_of K K_eq_dec).
  Notation set_pc := (set_pc K).
  Notation set_ent := (set_ent K K_eq_dec).
  Notation key_of := (key_of K).
  Notation keyb := (keyb K K_eq_dec).

  Definition E (st : state) (k : K) : list nat := execs_of k (execs K st).

  (* the key whose mutex the thread holds *)
  Definition crit (p : pc) : option K :=
    match p with
    | PDone2 _ k | PRunF _ k | PStoreRes _ k _ | PStoreDone _ k | PUnlock _ k => Some k
    | _ => None
    end.

  Record Inv (st : state) : Prop := {
    i_none : forall k, ents K st k = None ->
               E st k = [] /\ forall t, key_of (pcs K st t) = Some k -> pcs K st t = PLoadOrStore K k;
    i_lock : forall k t, crit (pcs K st t) = Some k <-> e_lock (entry_of st k) = Some t;
    i_done : forall k, e_done (entry_of st k) = true ->
               exists tok, E st k = [tok] /\ e_res (entry_of st k) = Some tok;
    i_undone : forall k, e_done (entry_of st k) = false ->
               E st k = [] \/ exists t, (exists r, pcs K st t = PStoreRes K k r) \/ pcs K st t = PStoreDone K k;
    i_runf : forall t k, pcs K st t = PRunF K k -> e_done (entry_of st k) = false;
    i_sres : forall t k r, pcs K st t = PStoreRes K k r -> e_done (entry_of st k) = false /\ E st k = [r];
    i_sdone : forall t k, pcs K st t = PStoreDone K k ->
               e_done (entry_of st k) = false /\ exists tok, E st k = [tok] /\ e_res (entry_of st k) = Some tok;
    i_unl : forall t k, pcs K st t = PUnlock K k -> e_done (entry_of st k) = true;
    i_ret : forall t k, pcs K st t = PRet K k -> e_done (entry_of st k) = true;
    i_rets : forall t k r, In (t, k, r) (rets K st) ->
               e_done (entry_of st k) = true /\ r = e_res (entry_of st k)
  }.

  Lemma inv_init : Inv init.
  Proof.
    constructor; unfold E, entry_of; simpl; intros; try discriminate; auto.
    - split; auto. intros; discriminate.
    - split; discriminate.
    - contradiction.
  Qed.

  Lemma entry_of_set_pc : forall st t p k, entry_of (set_pc st t p) k = entry_of st k.
  Proof. reflexivity. Qed.

  Lemma entry_of_set_ent : forall st k e t p k',
    entry_of (set_ent st k e t p) k' = if K_eq_dec k' k then e else entry_of st k'.
  Proof. intros. unfold entry_of, set_ent, updk; simpl. destruct (K_eq_dec k' k); auto. Qed.

  Lemma ents_set_ent : forall st k e t p k',
    ents K (set_ent st k e t p) k' = if K_eq_dec k' k then Some e else ents K st k'.
  Proof. intros. unfold set_ent, updk; simpl. destruct (K_eq_dec k' k); auto. Qed.

  Lemma pcs_set_pc : forall st t p u, pcs K (set_pc st t p) u = if Nat.eqb u t then p else pcs K st u.
  Proof. reflexivity. Qed.

  Lemma pcs_set_ent : forall st k e t p u, pcs K (set_ent st k e t p) u = if Nat.eqb u t then p else pcs K st u.
  Proof. reflexivity. Qed.

  Lemma E_set_pc : forall st t p k, E (set_pc st t p) k = E st k.
  Proof. reflexivity. Qed.

  Lemma E_set_ent : forall st k e t p k', E (set_ent st k e t p) k' = E st k'.
  Proof. reflexivity. Qed.

  Ltac rw :=
    repeat rewrite ?entry_of_set_pc, ?entry_of_set_ent, ?pcs_set_pc, ?pcs_set_ent,
                   ?E_set_pc, ?E_set_ent, ?ents_set_ent in *.

  Ltac brk :=
    unfold updn in *;
    repeat match goal with
    | H : context [Nat.eqb ?a ?b] |- _ => destruct (Nat.eqb_spec a b); subst
    | |- context [Nat.eqb ?a ?b] => destruct (Nat.eqb_spec a b); subst
    | H : context [K_eq_dec ?a ?b] |- _ => destruct (K_eq_dec a b); subst
    | |- context [K_eq_dec ?a ?b] => destruct (K_eq_dec a b); subst
    end.

  (* a thread that holds no mutex is not the holder of any entry *)
  Lemma not_holder : forall st t k, Inv st -> crit (pcs K st t) = None -> e_lock (entry_of st k) <> Some t.
  Proof. intros st t k I C H. apply (i_lock st I) in H. congruence. Qed.

  (* Generic frame lemma: thread t moves to p' without changing which mutex it
     holds; entries, executions unchanged; the map may gain (default) entries;
     the return log may gain a correct entry. *)
  Lemma inv_move : forall st st' t p',
    Inv st ->
    (forall u, pcs K st' u = if Nat.eqb u t then p' else pcs K st u) ->
    (forall k, entry_of st' k = entry_of st k) ->
    (forall k, E st' k = E st k) ->
    (forall k, ents K st' k = None -> ents K st k = None) ->
    (forall x, In x (rets K st') -> In x (rets K st) \/
        exists k, x = (t, k, e_res (entry_of st k)) /\ e_done (entry_of st k) = true) ->
    crit p' = crit (pcs K st t) ->
    (forall k r, pcs K st t <> PStoreRes K k r) -> (forall k, pcs K st t <> PStoreDone K k) ->
    (forall k, key_of p' = Some k -> ents K st' k = None -> p' = PLoadOrStore K k) ->
    (forall k, p' = PRunF K k -> e_done (entry_of st k) = false) ->
    (forall k, p' = PUnlock K k -> e_done (entry_of st k) = true) ->
    (forall k, p' = PRet K k -> e_done (entry_of st k) = true) ->
    (forall k r, p' <> PStoreRes K k r) -> (forall k, p' <> PStoreDone K k) ->
    Inv st'.
  Proof.
    intros st st' t p' I HP HE HX HM HRT C O1 O2 HN HF HU HR N1 N2.
    constructor; intros; rewrite ?HP, ?HE, ?HX in *.
    - destruct (i_none st I k (HM _ H)) as [A B]. split; auto. intros u. rewrite HP. brk; auto.
    - brk.
      + rewrite C. apply (i_lock st I).
      + apply (i_lock st I).
    - apply (i_done st I); auto.
    - destruct (i_undone st I k H) as [A | [u U]]; auto. right. exists u. rewrite HP. brk; auto.
      destruct U as [[r U] | U]; [apply O1 in U | apply O2 in U]; contradiction.
    - brk; [auto|]. eapply (i_runf st I); eauto.
    - brk; [exfalso; eapply N1; reflexivity|]. eapply (i_sres st I); eauto.
    - brk; [exfalso; eapply N2; reflexivity|]. eapply (i_sdone st I); eauto.
    - brk; [auto|]. eapply (i_unl st I); eauto.
    - brk; [auto|]. eapply (i_ret st I); eauto.
    - destruct (HRT _ H) as [A | [k' [A D]]].
      + apply (i_rets st I t0); auto.
      + inversion A; subst. auto.
  Qed.

  Lemma excl : forall st t u k, Inv st -> crit (pcs K st t) = Some k -> crit (pcs K st u) = Some k -> u = t.
  Proof.
    intros st t u k I A B. apply (i_lock st I) in A. apply (i_lock st I) in B. congruence.
  Qed.

  (* e.mu.Lock() *)
  Lemma inv_lock : forall st t k, Inv st -> pcs K st t = PLock K k -> e_lock (entry_of st k) = None ->
    Inv (set_ent st k {| e_done := e_done (entry_of st k); e_lock := Some t; e_res := e_res (entry_of st k) |} t (PDone2 K k)).
  Proof.
    intros st t k I P L. constructor; intros; rw.
    - brk; try discriminate. destruct (i_none st I k0 H) as [A B]. split; auto.
      intros u. rw. brk; simpl; try congruence. auto.
    - brk; simpl.
      + split; auto.
      + split; [congruence|]. intros C. exfalso. apply (i_lock st I) in C. rewrite P in C. discriminate.
      + split; [|congruence]. intros C. apply (i_lock st I) in C. congruence.
      + apply (i_lock st I).
    - brk; simpl in *; apply (i_done st I); auto.
    - assert (D : e_done (entry_of st k0) = false) by (brk; auto).
      destruct (i_undone st I k0 D) as [A | [u U]]; auto. right. exists u. rw. brk; auto;
      destruct U as [[r U] | U]; congruence.
    - brk; try discriminate; simpl; eapply (i_runf st I); eauto.
    - brk; try discriminate; simpl; eapply (i_sres st I); eauto.
    - brk; try discriminate; simpl; eapply (i_sdone st I); eauto.
    - brk; try discriminate; simpl; eapply (i_unl st I); eauto.
    - brk; try discriminate; simpl; eapply (i_ret st I); eauto.
    - brk; simpl; eapply (i_rets st I); eauto.
  Qed.

  (* e.result = <value returned by f> *)
  Lemma inv_store_res : forall st t k r, Inv st -> pcs K st t = PStoreRes K k r ->
    Inv (set_ent st k {| e_done := e_done (entry_of st k); e_lock := e_lock (entry_of st k); e_res := Some r |} t (PStoreDone K k)).
  Proof.
    intros st t k r I P. destruct (i_sres st I t k r P) as [D EK].
    constructor; intros; rw.
    - brk; try discriminate. destruct (i_none st I k0 H) as [A B]. split; auto.
      intros u. rw. brk; simpl; try congruence. auto.
    - brk; simpl; try apply (i_lock st I).
      + rewrite <- (i_lock st I k t). rewrite P. simpl. tauto.
      + rewrite <- (i_lock st I k0 t). rewrite P. simpl. split; congruence.
    - brk; simpl in *; [congruence|]. apply (i_done st I); auto.
    - brk; simpl in *.
      + right. exists t. rw. unfold updn. rewrite Nat.eqb_refl. auto.
      + destruct (i_undone st I k0 H) as [A | [u U]]; auto. right. exists u. rw. brk; auto.
        destruct U as [[r' U] | U]; congruence.
    - brk; try discriminate; simpl; eapply (i_runf st I); eauto.
    - brk; try discriminate; simpl; eapply (i_sres st I); eauto.
    - brk; simpl.
      + inversion H; subst. split; auto. exists r. auto.
      + inversion H; subst. congruence.
      + destruct (i_sdone st I t0 k H) as [A [tok [B C]]]. split; auto. exists r. split; auto.
      + eapply (i_sdone st I); eauto.
    - brk; try discriminate; simpl; eapply (i_unl st I); eauto.
    - brk; try discriminate; simpl; eapply (i_ret st I); eauto.
    - brk; simpl.
      + destruct (i_rets st I _ _ _ H). congruence.
      + eapply (i_rets st I); eauto.
  Qed.

  (* e.done.Store(true) *)
  Lemma inv_store_done : forall st t k, Inv st -> pcs K st t = PStoreDone K k ->
    Inv (set_ent st k {| e_done := true; e_lock := e_lock (entry_of st k); e_res := e_res (entry_of st k) |} t (PUnlock K k)).
  Proof.
    intros st t k I P. destruct (i_sdone st I t k P) as [D [tok [EK R]]].
    assert (X : forall u, u <> t -> crit (pcs K st u) = Some k -> False).
    { intros u NE C. apply NE. eapply excl; eauto. rewrite P. reflexivity. }
    constructor; intros; rw.
    - brk; try discriminate. destruct (i_none st I k0 H) as [A B]. split; auto.
      intros u. rw. brk; simpl; try congruence. auto.
    - brk; simpl; try apply (i_lock st I).
      + rewrite <- (i_lock st I k t). rewrite P. simpl. tauto.
      + rewrite <- (i_lock st I k0 t). rewrite P. simpl. split; congruence.
    - brk; simpl in *; [eauto|]. apply (i_done st I); auto.
    - brk; simpl in *; [discriminate|].
      destruct (i_undone st I k0 H) as [A | [u U]]; auto. right. exists u. rw. brk; auto.
      destruct U as [[r' U] | U]; congruence.
    - brk; try discriminate; simpl; try (eapply (i_runf st I); eauto).
      exfalso. apply (X t0); auto. rewrite H. reflexivity.
    - brk; try discriminate; simpl; try (eapply (i_sres st I); eauto).
      exfalso. apply (X t0); auto. rewrite H. reflexivity.
    - brk; try discriminate; simpl; try (eapply (i_sdone st I); eauto).
      exfalso. apply (X t0); auto. rewrite H. reflexivity.
    - brk; simpl; auto; try (inversion H; subst; congruence). eapply (i_unl st I); eauto.
    - brk; try discriminate; simpl; auto. eapply (i_ret st I); eauto.
    - brk; simpl.
      + destruct (i_rets st I _ _ _ H). congruence.
      + eapply (i_rets st I); eauto.
  Qed.

  (* e.mu.Unlock() *)
  Lemma inv_unlock : forall st t k, Inv st -> pcs K st t = PUnlock K k ->
    Inv (set_ent st k {| e_done := e_done (entry_of st k); e_lock := None; e_res := e_res (entry_of st k) |} t (PRet K k)).
  Proof.
    intros st t k I P. pose proof (i_unl st I t k P) as D.
    assert (X : forall u, u <> t -> crit (pcs K st u) = Some k -> False).
    { intros u NE C. apply NE. eapply excl; eauto. rewrite P. reflexivity. }
    constructor; intros; rw.
    - brk; try discriminate. destruct (i_none st I k0 H) as [A B]. split; auto.
      intros u. rw. brk; simpl; try congruence. auto.
    - brk; simpl; try apply (i_lock st I).
      + split; discriminate.
      + split; [discriminate|]. intros C. apply (i_lock st I) in C. rewrite P in C. simpl in C. congruence.
      + split; [|discriminate]. intros C. exfalso. eapply X; eauto.
    - brk; simpl in *; apply (i_done st I); auto.
    - assert (D' : e_done (entry_of st k0) = false) by (brk; auto).
      destruct (i_undone st I k0 D') as [A | [u U]]; auto. right. exists u. rw. brk; auto;
      destruct U as [[r U] | U]; congruence.
    - brk; try discriminate; simpl; eapply (i_runf st I); eauto.
    - brk; try discriminate; simpl; eapply (i_sres st I); eauto.
    - brk; try discriminate; simpl; eapply (i_sdone st I); eauto.
    - brk; try discriminate; simpl; eapply (i_unl st I); eauto.
    - brk; simpl; try (inversion H; subst; auto; congruence); eapply (i_ret st I); eauto.
    - brk; simpl; eapply (i_rets st I); eauto.
  Qed.

  Lemma E_cons : forall st k t k' ents' pcs' rets',
    E {| ents := ents'; pcs := pcs'; execs := (k, t) :: execs K st; rets := rets' |} k' =
    if K_eq_dec k k' then t :: E st k' else E st k'.
  Proof.
    intros. unfold E, Once.execs_of, Once.keyb; simpl. destruct (K_eq_dec k k'); auto.
  Qed.

  (* f runs *)
  Lemma inv_runf : forall st t k, Inv st -> pcs K st t = PRunF K k ->
    Inv {| ents := ents K st; pcs := updn (pcs K st) t (PStoreRes K k t);
           execs := (k, t) :: execs K st; rets := rets K st |}.
  Proof.
    intros st t k I P. pose proof (i_runf st I t k P) as D.
    assert (X : forall u, u <> t -> crit (pcs K st u) = Some k -> False).
    { intros u NE C. apply NE. eapply excl; eauto. rewrite P. reflexivity. }
    assert (EK : E st k = []).
    { destruct (i_undone st I k D) as [A | [u U]]; auto. exfalso.
      destruct (Nat.eq_dec u t) as [->|NE].
      - destruct U as [[r U] | U]; congruence.
      - apply (X u NE). destruct U as [[r U] | U]; rewrite U; reflexivity. }
    assert (EO : forall k', entry_of {| ents := ents K st; pcs := updn (pcs K st) t (PStoreRes K k t);
           execs := (k, t) :: execs K st; rets := rets K st |} k' = entry_of st k') by reflexivity.
    constructor; intros; rewrite ?E_cons, ?EO in *; simpl in *.
    - destruct (i_none st I k0 H) as [A B]. brk.
      + specialize (B t). rewrite P in B. simpl in B. specialize (B eq_refl). discriminate.
      + split; auto. intros u. brk; simpl; try congruence. auto.
    - brk; simpl; try apply (i_lock st I).
      rewrite <- (i_lock st I k0 t). rewrite P. simpl. tauto.
    - brk; [congruence|]. apply (i_done st I); auto.
    - brk.
      + right. exists t. rewrite Nat.eqb_refl. eauto.
      + destruct (i_undone st I k0 H) as [A | [u U]]; auto. right. exists u. brk; auto.
        destruct U as [[r' U] | U]; congruence.
    - brk; try discriminate. eapply (i_runf st I); eauto.
    - brk; try (inversion H; subst; try congruence; rewrite EK; auto; fail).
      + exfalso. apply (X t0); auto. rewrite H. reflexivity.
      + eapply (i_sres st I); eauto.
    - brk; try discriminate.
      + exfalso. apply (X t0); auto. rewrite H. reflexivity.
      + eapply (i_sdone st I); eauto.
    - brk; try discriminate. eapply (i_unl st I); eauto.
    - brk; try discriminate. eapply (i_ret st I); eauto.
    - eapply (i_rets st I); eauto.
  Qed.

  Ltac mv st t p I P :=
    eapply (inv_move st _ t p); [exact I | intros; reflexivity | ..];
    try (intros; reflexivity); try (rewrite P; reflexivity); try (rewrite P; discriminate);
    try discriminate; simpl; auto.

  Lemma inv_step : forall st l st', Inv st -> step true st l = Some st' -> Inv st'.
  Proof.
    intros st l st' I H. destruct l as [t k | t]; simpl in H.
    - (* Call *)
      destruct (pcs K st t) eqn:P; try discriminate.
      destruct (ents K st k) eqn:EN; inversion H; subst; clear H.
      + mv st t (PDone1 K k) I P. intros k0 A B. inversion A; subst. congruence.
      + mv st t (PLoadOrStore K k) I P. intros k0 A B. inversion A; subst. reflexivity.
    - destruct (pcs K st t) eqn:P; try discriminate.
      + (* LoadOrStore *)
        destruct (ents K st k) eqn:EN; inversion H; subst; clear H.
        * mv st t (PDone1 K k) I P. intros k0 A B. inversion A; subst. congruence.
        * mv st t (PDone1 K k) I P.
          -- intros k0. rewrite entry_of_set_ent. destruct (K_eq_dec k0 k) as [->|]; auto.
             unfold entry_of. rewrite EN. reflexivity.
          -- intros k0. unfold updk. destruct (K_eq_dec k0 k); [discriminate | auto].
          -- intros k0 A. inversion A; subst. unfold updk. destruct (K_eq_dec k0 k0); congruence.
      + (* done.Load() #1 *)
        assert (EX : ents K st k <> None).
        { intros N. destruct (i_none st I k N) as [_ B]. specialize (B t). rewrite P in B.
          specialize (B eq_refl). discriminate. }
        destruct (e_done (entry_of st k)) eqn:D; inversion H; subst; clear H.
        * mv st t (PRet K k) I P.
          -- intros k0 A B. inversion A; subst. contradiction.
          -- intros k0 A. inversion A; subst; auto.
        * mv st t (PLock K k) I P. intros k0 A B. inversion A; subst. contradiction.
      + (* mu.Lock() *)
        destruct (e_lock (entry_of st k)) eqn:L; try discriminate. inversion H; subst; clear H.
        apply inv_lock; auto.
      + (* done.Load() #2 *)
        assert (EX : ents K st k <> None).
        { intros N. destruct (i_none st I k N) as [_ B]. specialize (B t). rewrite P in B.
          specialize (B eq_refl). discriminate. }
        destruct (e_done (entry_of st k)) eqn:D; inversion H; subst; clear H.
        * mv st t (PUnlock K k) I P.
          -- intros k0 A B. inversion A; subst. contradiction.
          -- intros k0 A. inversion A; subst; auto.
        * mv st t (PRunF K k) I P.
          -- intros k0 A B. inversion A; subst. contradiction.
          -- intros k0 A. inversion A; subst; auto.
      + (* f() *)
        inversion H; subst; clear H. apply inv_runf; auto.
      + inversion H; subst; clear H. apply inv_store_res; auto.
      + inversion H; subst; clear H. apply inv_store_done; auto.
      + inversion H; subst; clear H. apply inv_unlock; auto.
      + (* return e.result *)
        inversion H; subst; clear H.
        mv st t (@Idle K) I P.
        intros x [<- | IN]; auto. right. exists k. split; auto. eapply (i_ret st I); eauto.
  Qed.

  Lemma inv_run : forall ls st st', Inv st -> run true st ls = Some st' -> Inv st'.
  Proof.
    induction ls as [|l r IH]; simpl; intros st st' I H.
    - inversion H; subst; auto.
    - destruct (step true st l) as [st1|] eqn:S; try discriminate.
      eapply IH; [|eauto]. eapply inv_step; eauto.
  Qed.

  Lemma inv_reachable : forall st, reachable true st -> Inv st.
  Proof. intros st [ls R]. eapply inv_run; [apply inv_init | eauto]. Qed.

  Lemma E_le1 : forall st k, Inv st -> length (E st k) <= 1.
  Proof.
    intros st k I. destruct (e_done (entry_of st k)) eqn:D.
    - destruct (i_done st I k D) as [tok [A _]]. rewrite A. simpl. lia.
    - destruct (i_undone st I k D) as [A | [u [[r U] | U]]].
      + rewrite A. simpl. lia.
      + destruct (i_sres st I u k r U) as [_ A]. rewrite A. simpl. lia.
      + destruct (i_sdone st I u k U) as [_ [tok [A _]]]. rewrite A. simpl. lia.
  Qed.

  Lemma ret_once : forall st t k r, Inv st -> In (t, k, r) (rets K st) ->
    exists tok, r = Some tok /\ E st k = [tok].
  Proof.
    intros st t k r I H. destruct (i_rets st I t k r H) as [D R].
    destruct (i_done st I k D) as [tok [A B]]. exists tok. split; congruence.
  Qed.

  (* do_once: under every interleaving of any number of callers of any keys:
     f runs at most once per key; a caller that has returned got the result of
     the one run (so f ran exactly once); all callers of a key get the same result *)
  Theorem do_once : forall st, reachable true st ->
    (forall k, length (E st k) <= 1) /\
    (forall t k r, In (t, k, r) (rets K st) -> exists tok, r = Some tok /\ E st k = [tok]) /\
    (forall t k r t' r', In (t, k, r) (rets K st) -> In (t', k, r') (rets K st) -> r = r').
  Proof.
    intros st R. pose proof (inv_reachable st R) as I. split; [|split].
    - intros k. apply E_le1; auto.
    - intros. eapply ret_once; eauto.
    - intros t k r t' r' A B. destruct (ret_once _ _ _ _ I A) as [x [-> X]].
      destruct (ret_once _ _ _ _ I B) as [y [-> Y]]. congruence.
  Qed.

  (* the executable history check accepts every history of the machine *)
  Lemma execs_of_in : forall k tok ex, In (k, tok) ex -> In tok (execs_of k ex).
  Proof.
    intros k tok ex H. unfold Once.execs_of. apply in_map_iff. exists (k, tok). split; auto.
    apply filter_In. split; auto. simpl. unfold Once.keyb. destruct (K_eq_dec k k); congruence.
  Qed.

  Theorem once_history_accepted : forall st, reachable true st ->
    check_once K K_eq_dec (execs K st) (returns_of K st) = true.
  Proof.
    intros st R. pose proof (inv_reachable st R) as I. unfold check_once.
    apply andb_true_iff; split; apply forallb_forall.
    - intros [k tok] H. simpl. pose proof (execs_of_in _ _ _ H) as IN.
      pose proof (E_le1 st k I) as LE. unfold E in LE.
      destruct (execs_of k (execs K st)) as [|a [|b r]]; simpl in *; auto; try contradiction; lia.
    - intros [k r] H. unfold returns_of in H. apply in_map_iff in H.
      destruct H as [[[t k'] r'] [EQ IN]]. simpl in EQ. inversion EQ; subst.
      destruct (ret_once _ _ _ _ I IN) as [tok [-> X]]. simpl. unfold E in X. rewrite X.
      apply Nat.eqb_refl.
  Qed.

  (* ---- progress: no deadlock, and every call is finite ---- *)

  Definition rank (p : pc) : nat :=
    match p with
    | Idle => 0 | PRet _ _ => 1 | PUnlock _ _ => 2 | PStoreDone _ _ => 3 | PStoreRes _ _ _ => 4
    | PRunF _ _ => 5 | PDone2 _ _ => 6 | PLock _ _ => 7 | PDone1 _ _ => 8 | PLoadOrStore _ _ => 9
    end.

  Lemma step_rank : forall ul st t st', step ul st (Step t) = Some st' ->
    rank (pcs K st' t) < rank (pcs K st t) /\ forall u, u <> t -> pcs K st' u = pcs K st u.
  Proof.
    intros ul st t st' H. simpl in H.
    assert (O : forall (f : nat -> pc) p u, u <> t -> updn f t p u = f u).
    { intros f p u NE. unfold updn. destruct (Nat.eqb_spec u t); congruence. }
    destruct (pcs K st t) eqn:P; try discriminate;
      repeat match type of H with
             | context [match ?x with _ => _ end] => destruct x
             | context [if ?x then _ else _] => destruct x
             end; try discriminate; inversion H; subst; clear H; simpl;
      unfold updn at 1; rewrite Nat.eqb_refl; simpl; split; auto; lia.
  Qed.

  Theorem do_progress : forall st t, reachable true st -> pcs K st t <> Idle ->
    exists u st', pcs K st u <> Idle /\ step true st (Step u) = Some st'.
  Proof.
    intros st t R NI. pose proof (inv_reachable st R) as I.
    assert (G : forall u, pcs K st u <> Idle -> (forall k, pcs K st u <> PLock K k) ->
                exists st', step true st (Step u) = Some st').
    { intros u A B. unfold Once.step. destruct (pcs K st u) eqn:P; try congruence; cbv iota beta.
      - destruct (ents K st k); eexists; reflexivity.
      - destruct (e_done (entry_of st k)); eexists; reflexivity.
      - destruct (e_done (entry_of st k)); eexists; reflexivity.
      - eexists; reflexivity.
      - eexists; reflexivity.
      - eexists; reflexivity.
      - eexists; reflexivity.
      - eexists; reflexivity. }
    destruct (pcs K st t) eqn:P; try congruence;
      try (destruct (G t) as [st' S]; [congruence | intros; congruence | exists t, st'; split; [congruence | exact S]]).
    (* PLock: either the mutex is free, or its holder can move *)
    destruct (e_lock (entry_of st k)) as [u|] eqn:L.
    - apply (i_lock st I) in L.
      destruct (G u) as [st' S].
      + intros C. rewrite C in L. discriminate.
      + intros k0 C. rewrite C in L. discriminate.
      + exists u, st'. split; auto. intros C. rewrite C in L. discriminate.
    - exists t. unfold Once.step. rewrite P. cbv iota beta. rewrite L.
      eexists; split; [congruence | reflexivity].
  Qed.

  Definition measure (st : state) (n : nat) : nat := list_sum (map (fun t => rank (pcs K st t)) (seq 0 n)).

  Lemma list_sum_decr : forall (f g : nat -> nat) n t, t < n -> g t < f t ->
    (forall u, u <> t -> g u = f u) ->
    list_sum (map g (seq 0 n)) < list_sum (map f (seq 0 n)).
  Proof.
    intros f g n t LT D O.
    assert (G : forall m s, (s <= t < s + m -> list_sum (map g (seq s m)) < list_sum (map f (seq s m))) /\
                            (~ (s <= t < s + m) -> list_sum (map g (seq s m)) = list_sum (map f (seq s m)))).
    { induction m as [|m IH]; intros s; simpl; split; intros H; try lia.
      - destruct (Nat.eq_dec s t) as [->|NE].
        + destruct (IH (S t)) as [_ B]. rewrite B by lia. lia.
        + destruct (IH (S s)) as [A _]. rewrite (O s NE). specialize (A ltac:(lia)). lia.
      - destruct (IH (S s)) as [_ B]. rewrite B by lia. rewrite O by lia. reflexivity. }
    apply (G n 0). lia.
  Qed.

  (* every caller returns: from any reachable state in which the threads >= n
     are idle there is a continuation, without new calls, after which every
     thread has returned (is idle again) *)
  Theorem do_all_return : forall n st, reachable true st ->
    (forall t, n <= t -> pcs K st t = Idle) ->
    exists ls st', run true st ls = Some st' /\ (forall t, pcs K st' t = Idle) /\
                   (forall l, In l ls -> exists u, l = Step u).
  Proof.
    intros n st. remember (measure st n) as m eqn:M. revert st M.
    induction m as [m IH] using lt_wf_ind. intros st M R HN.
    destruct (forallb (fun t => match pcs K st t with Idle => true | _ => false end) (seq 0 n)) eqn:A.
    - exists [], st. simpl. split; auto. split; [|intros l []].
      intros t. destruct (Nat.lt_ge_cases t n) as [LT|GE]; auto.
      rewrite forallb_forall in A. specialize (A t). rewrite in_seq in A. specialize (A ltac:(lia)).
      destruct (pcs K st t); auto; discriminate.
    - assert (EX : exists t, pcs K st t <> Idle).
      { destruct (forallb_forall (fun t => match pcs K st t with Idle => true | _ => false end) (seq 0 n)) as [_ B].
        destruct (List.existsb (fun t => match pcs K st t with Idle => false | _ => true end) (seq 0 n)) eqn:X.
        - apply existsb_exists in X. destruct X as [t [_ T]]. exists t. intros C. rewrite C in T. discriminate.
        - rewrite B in A; [discriminate|]. intros t IN.
          destruct (pcs K st t) eqn:P; auto;
            (assert (Y : List.existsb (fun t => match pcs K st t with Idle => false | _ => true end) (seq 0 n) = true)
              by (apply existsb_exists; exists t; rewrite P; auto); congruence). }
      destruct EX as [t T]. destruct (do_progress st t R T) as [u [st1 [U S]]].
      assert (UN : u < n). { destruct (Nat.lt_ge_cases u n); auto. rewrite HN in U by auto. congruence. }
      destruct (step_rank _ _ _ _ S) as [RK OT].
      assert (R1 : reachable true st1).
      { destruct R as [ls0 R0]. exists (ls0 ++ [Step u]).
        assert (RA : forall l1 l2 s, run true s (l1 ++ l2) =
                  match run true s l1 with Some s1 => run true s1 l2 | None => None end).
        { induction l1 as [|x l1 IH1]; simpl; intros; auto. destruct (step true s x); auto. }
        rewrite RA, R0. cbn [Once.run]. rewrite S. reflexivity. }
      destruct (IH (measure st1 n)) with (st := st1) as [ls [st' [RN [AI ST]]]]; auto.
      + subst m. unfold measure. apply list_sum_decr with (t := u); auto.
        intros v NE. rewrite OT; auto.
      + intros v GE. rewrite OT by lia. auto.
      + exists (Step u :: ls), st'. cbn [Once.run]. rewrite S. split; auto. split; auto.
        intros l [<- | IN]; eauto.
  Qed.

  (* ---- callers of different keys do not interfere ---- *)

  Definition label_key (st : state) (l : label K) : option K :=
    match l with Call _ k => Some k | Step t => key_of (pcs K st t) end.

  Theorem do_keys_independent : forall ul st l st' k k', step ul st l = Some st' ->
    label_key st l = Some k -> k' <> k ->
    ents K st' k' = ents K st k' /\ E st' k' = E st k' /\
    (forall t r, In (t, k', r) (rets K st') <-> In (t, k', r) (rets K st)).
  Proof.
    intros ul st l st' k k' H LK NE.
    assert (UK : forall (A : Type) (f : K -> A) a, updk K K_eq_dec f k a k' = f k').
    { intros. unfold updk. destruct (K_eq_dec k' k); congruence. }
    destruct l as [t k0 | t]; simpl in H, LK.
    - inversion LK; subst. destruct (pcs K st t); try discriminate.
      destruct (ents K st k); inversion H; subst; simpl; repeat split; auto.
    - destruct (pcs K st t) eqn:P; try discriminate; simpl in LK; inversion LK; subst;
        repeat match type of H with
               | context [match ?x with _ => _ end] => destruct x
               | context [if ?x then _ else _] => destruct x
               end; try discriminate; inversion H; subst; clear H; simpl;
        rewrite ?UK; repeat split; auto; try tauto.
      + unfold E, Once.execs_of; simpl. unfold Once.keyb at 1. destruct (K_eq_dec k k'); congruence.
      + intros [X | X]; auto. inversion X; subst. congruence.
  Qed.

End OnceProofs.

(* ---- the per-entry mutex is necessary: without it two callers both run f and
   return different results (K := nat, by computation) ---- *)
Definition nolock_schedule : list (label nat) :=
  [Call 0 7; Call 1 7; Step 0; Step 1; Step 0; Step 1; Step 0; Step 1; Step 0; Step 1;
   Step 0; Step 1; Step 0; Step 0; Step 0; Step 0; Step 1; Step 1; Step 1; Step 1].

Theorem once_lock_necessary :
  exists st, reachable nat Nat.eq_dec false st /\
    length (E nat Nat.eq_dec st 7) = 2 /\
    In (0, 7, Some 0) (rets nat st) /\ In (1, 7, Some 1) (rets nat st).
Proof.
  destruct (run nat Nat.eq_dec false (init nat) nolock_schedule) as [st|] eqn:R; [|vm_compute in R; discriminate].
  exists st. split; [exists nolock_schedule; exact R|].
  vm_compute in R. inversion R; subst; clear R. vm_compute. auto.
Qed.

(* the same schedule is not even enabled with the mutex (thread 1 blocks in Lock),
   and the fair continuation runs f once *)
Example once_lock_effective :
  run nat Nat.eq_dec true (init nat) nolock_schedule = None /\
  exists st, run nat Nat.eq_dec true (init nat)
      [Call 0 7; Call 1 7; Step 0; Step 1; Step 0; Step 1; Step 0; Step 0; Step 0; Step 0; Step 0; Step 0; Step 0;
       Step 1; Step 1; Step 1; Step 1] = Some st /\
    E nat Nat.eq_dec st 7 = [0] /\ returns_of nat st = [(7, Some 0); (7, Some 0)].
Proof.
  split; [vm_compute; reflexivity|].
  eexists. split; [vm_compute; reflexivity|]. vm_compute. auto.
Qed.
