(* C19 - internal/par/work.go  Cache.Do  as a state machine, one atomic step per
   shared-memory operation:

     func (c *Cache[K, V]) Do(key K, f func() V) V {
       entryIface, ok := c.m.Load(key)                                 -- Call t k   (pc: Idle -> ...)
       if !ok { entryIface, _ = c.m.LoadOrStore(key, new(cacheEntry)) } -- PLoadOrStore
       e := entryIface as cacheEntry pointer
       if !e.done.Load() {                                              -- PDone1
         e.mu.Lock()                                                    -- PLock   (enabled only when the mutex is free)
         if !e.done.Load() {                                            -- PDone2
           e.result = f()                                               -- PRunF (f runs), PStoreRes (assignment)
           e.done.Store(true)                                           -- PStoreDone
         }
         e.mu.Unlock()                                                  -- PUnlock
       }
       return e.result                                                  -- PRet
     }

   sync.Map guarantees one entry per key (Load / LoadOrStore are atomic), so the
   entry of a key is identified with the key: [ents k = None] means "not in the map".
   The result of the n-th execution of f is modelled by a token: the id of the
   thread that ran it (the harness lets f return a unique token as well).
   [use_lock = false] is the variant without the per-entry mutex.  No proofs here. *)
From Coq Require Import List Arith Bool.
Import ListNotations.

Section Once.
  Variable K : Type.
  Variable K_eq_dec : forall a b : K, {a = b} + {a <> b}.

  Record entry := { e_done : bool; e_lock : option nat; e_res : option nat }.

  Definition fresh : entry := {| e_done := false; e_lock := None; e_res := None |}.

  Inductive pc :=
  | Idle
  | PLoadOrStore (k : K)
  | PDone1 (k : K)
  | PLock (k : K)
  | PDone2 (k : K)
  | PRunF (k : K)
  | PStoreRes (k : K) (r : nat)
  | PStoreDone (k : K)
  | PUnlock (k : K)
  | PRet (k : K).

  Record state := {
    ents : K -> option entry;          (* c.m *)
    pcs : nat -> pc;
    execs : list (K * nat);            (* executions of f, newest first: key, token *)
    rets : list (nat * K * option nat) (* returned results, newest first: thread, key, e.result *)
  }.

  Definition updn {A} (f : nat -> A) (t : nat) (a : A) : nat -> A :=
    fun u => if Nat.eqb u t then a else f u.

  Definition updk {A} (f : K -> A) (k : K) (a : A) : K -> A :=
    fun k' => if K_eq_dec k' k then a else f k'.

  Definition entry_of (st : state) (k : K) : entry :=
    match ents st k with Some e => e | None => fresh end.

  Definition set_pc (st : state) (t : nat) (p : pc) : state :=
    {| ents := ents st; pcs := updn (pcs st) t p; execs := execs st; rets := rets st |}.

  Definition set_ent (st : state) (k : K) (e : entry) (t : nat) (p : pc) : state :=
    {| ents := updk (ents st) k (Some e); pcs := updn (pcs st) t p; execs := execs st; rets := rets st |}.

  Inductive label := Call (t : nat) (k : K) | Step (t : nat).

  Definition step (use_lock : bool) (st : state) (l : label) : option state :=
    match l with
    | Call t k =>
      match pcs st t with
      | Idle => match ents st k with
                | Some _ => Some (set_pc st t (PDone1 k))
                | None => Some (set_pc st t (PLoadOrStore k))
                end
      | _ => None
      end
    | Step t =>
      match pcs st t with
      | Idle => None
      | PLoadOrStore k =>
        match ents st k with
        | Some _ => Some (set_pc st t (PDone1 k))
        | None => Some (set_ent st k fresh t (PDone1 k))
        end
      | PDone1 k =>
        if e_done (entry_of st k) then Some (set_pc st t (PRet k)) else Some (set_pc st t (PLock k))
      | PLock k =>
        if use_lock then
          match e_lock (entry_of st k) with
          | None => let e := entry_of st k in
                    Some (set_ent st k {| e_done := e_done e; e_lock := Some t; e_res := e_res e |} t (PDone2 k))
          | Some _ => None      (* blocked *)
          end
        else Some (set_pc st t (PDone2 k))
      | PDone2 k =>
        if e_done (entry_of st k) then Some (set_pc st t (PUnlock k)) else Some (set_pc st t (PRunF k))
      | PRunF k =>
        Some {| ents := ents st; pcs := updn (pcs st) t (PStoreRes k t);
                execs := (k, t) :: execs st; rets := rets st |}
      | PStoreRes k r =>
        let e := entry_of st k in
        Some (set_ent st k {| e_done := e_done e; e_lock := e_lock e; e_res := Some r |} t (PStoreDone k))
      | PStoreDone k =>
        let e := entry_of st k in
        Some (set_ent st k {| e_done := true; e_lock := e_lock e; e_res := e_res e |} t (PUnlock k))
      | PUnlock k =>
        if use_lock then
          let e := entry_of st k in
          Some (set_ent st k {| e_done := e_done e; e_lock := None; e_res := e_res e |} t (PRet k))
        else Some (set_pc st t (PRet k))
      | PRet k =>
        Some {| ents := ents st; pcs := updn (pcs st) t Idle; execs := execs st;
                rets := (t, k, e_res (entry_of st k)) :: rets st |}
      end
    end.

  Fixpoint run (use_lock : bool) (st : state) (ls : list label) : option state :=
    match ls with
    | [] => Some st
    | l :: r => match step use_lock st l with Some st' => run use_lock st' r | None => None end
    end.

  Definition init : state :=
    {| ents := fun _ => None; pcs := fun _ => Idle; execs := []; rets := [] |}.

  Definition reachable (use_lock : bool) (st : state) : Prop := exists ls, run use_lock init ls = Some st.

  (* the key a thread is working on *)
  Definition key_of (p : pc) : option K :=
    match p with
    | Idle => None
    | PLoadOrStore k | PDone1 k | PLock k | PDone2 k | PRunF k | PStoreRes k _ | PStoreDone k | PUnlock k | PRet k => Some k
    end.

  (* ---- executable check of an observed history ----
     execs: (key, token) for every execution of f; returns: (key, token) for every
     return of Do.  Accepted iff every key was executed at most once and every
     return carries the token of the single execution of its key. *)
  Definition keyb (a b : K) : bool := if K_eq_dec a b then true else false.

  Definition execs_of (k : K) (execs : list (K * nat)) : list nat :=
    map snd (filter (fun e => keyb (fst e) k) execs).

  Definition check_once (execs : list (K * nat)) (returns : list (K * option nat)) : bool :=
    forallb (fun e => match execs_of (fst e) execs with [_] => true | _ => false end) execs
    && forallb (fun r => match execs_of (fst r) execs, snd r with
                         | [tok], Some x => Nat.eqb tok x
                         | _, _ => false end) returns.

  Definition returns_of (st : state) : list (K * option nat) :=
    map (fun x => (snd (fst x), snd x)) (rets st).

End Once.

Arguments Idle {K}.
Arguments Call {K}.
Arguments Step {K}.
