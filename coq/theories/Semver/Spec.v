(* Semantic Versioning 2.0.0 precedence (semver.org, item 11), as a
   specification independent of the string-level code. *)
From Verif Require Import Base.Order Semver.Model.
From Coq Require Import List NArith Bool.
Import ListNotations.
Open Scope N_scope.

Inductive ident := INum (n : N) | IAlpha (s : str).

Record sv := mkSv { sv_major : N; sv_minor : N; sv_patch : N; sv_pre : list ident }.

(* 11.4.1-3: numeric identifiers numerically, alphanumeric ones in ASCII
   order, numeric below alphanumeric *)
Definition ident_cmp (a b : ident) : comparison :=
  match a, b with
  | INum x, INum y => x ?= y
  | INum _, IAlpha _ => Lt
  | IAlpha _, INum _ => Gt
  | IAlpha s, IAlpha t => str_compare s t
  end.

(* 11.3 / 11.4: a version without pre-release is higher; 11.4.4: a larger set
   of fields is higher when all preceding ones are equal *)
Definition pre_cmp (x y : list ident) : comparison :=
  match x, y with
  | [], [] => Eq
  | [], _ => Gt
  | _, [] => Lt
  | _, _ => list_cmp ident_cmp x y
  end.

Definition spec_cmp (a b : sv) : comparison :=
  match sv_major a ?= sv_major b with
  | Eq => match sv_minor a ?= sv_minor b with
          | Eq => match sv_patch a ?= sv_patch b with
                  | Eq => pre_cmp (sv_pre a) (sv_pre b)
                  | c => c end
          | c => c end
  | c => c
  end.

(* --- abstraction from parsed strings --------------------------------- *)
Fixpoint digits_val_acc (acc : N) (s : str) : N :=
  match s with [] => acc | c :: r => digits_val_acc (acc * 10 + (c - 48)) r end.
Definition digits_val : str -> N := digits_val_acc 0.

Fixpoint split_dots (cur : str) (s : str) : list str :=
  match s with
  | [] => [rev cur]
  | c :: r => if c =? 46 then rev cur :: split_dots [] r else split_dots (c :: cur) r
  end.

Definition ident_of (s : str) : ident := if is_num s then INum (digits_val s) else IAlpha s.

Definition pre_idents (pre : str) : list ident :=
  match pre with [] => [] | _ :: r => map ident_of (split_dots [] r) end.

Definition abs (p : parsed) : sv :=
  mkSv (digits_val (p_major p)) (digits_val (p_minor p)) (digits_val (p_patch p))
       (pre_idents (p_prerelease p)).
