(* Proofs about the semver model: it refines SemVer 2.0 precedence and is a
   total preorder on all strings. *)
From Verif Require Import Base.Order Semver.Model Semver.Spec.
From Coq Require Import List NArith Bool Lia Arith.
Import ListNotations.
Open Scope N_scope.

(* ---------- strings -------------------------------------------------- *)
Lemma str_compare_list_cmp x y : str_compare x y = list_cmp N.compare x y.
Proof.
  revert y; induction x as [|a x IH]; destruct y as [|b y]; simpl; auto.
  rewrite IH. reflexivity.
Qed.

Lemma str_compare_total : total_cmp str_compare.
Proof.
  pose proof (list_cmp_total N.compare N_compare_total) as H.
  constructor.
  - intros x y. rewrite str_compare_list_cmp. apply (tc_eq _ H).
  - intros x y. rewrite !str_compare_list_cmp. apply (tc_opp _ H).
  - intros x y z. rewrite !str_compare_list_cmp. apply (tc_trans _ H).
Qed.

Lemma str_eqb_eq x y : str_eqb x y = true <-> x = y.
Proof.
  unfold str_eqb. rewrite <- (tc_eq _ str_compare_total).
  destruct (str_compare x y); split; congruence.
Qed.

Lemma str_eqb_refl x : str_eqb x x = true.
Proof. apply str_eqb_eq. reflexivity. Qed.

Lemma str_eqb_neq x y : str_eqb x y = false <-> x <> y.
Proof.
  rewrite <- str_eqb_eq. destruct (str_eqb x y); split; congruence.
Qed.

(* ---------- decimal digit strings ------------------------------------ *)
Definition pow10 (n : nat) : N := 10 ^ N.of_nat n.

Lemma pow10_S n : pow10 (S n) = 10 * pow10 n.
Proof. unfold pow10. rewrite Nat2N.inj_succ, N.pow_succ_r'. reflexivity. Qed.

Lemma pow10_pos n : 0 < pow10 n.
Proof. unfold pow10. apply N.neq_0_lt_0, N.pow_nonzero. discriminate. Qed.

Lemma pow10_mono a b : (a <= b)%nat -> pow10 a <= pow10 b.
Proof. intros. unfold pow10. apply N.pow_le_mono_r; lia. Qed.

Lemma digits_val_acc_spec s : forall acc,
  digits_val_acc acc s = acc * pow10 (length s) + digits_val s.
Proof.
  unfold digits_val. induction s as [|c r IH]; intros acc; cbn [digits_val_acc length].
  - unfold pow10; simpl. lia.
  - rewrite IH. rewrite (IH (0 * 10 + (c - 48))). rewrite pow10_S. lia.
Qed.

Lemma digits_val_cons c r : digits_val (c :: r) = (c - 48) * pow10 (length r) + digits_val r.
Proof.
  unfold digits_val at 1. cbn [digits_val_acc]. rewrite digits_val_acc_spec. lia.
Qed.

Lemma is_digit_range c : is_digit c = true -> 48 <= c <= 57.
Proof. unfold is_digit. rewrite andb_true_iff, !N.leb_le. tauto. Qed.

Lemma digits_val_bound s : all_digits s = true -> digits_val s < pow10 (length s).
Proof.
  induction s as [|c r IH]; simpl; intros H.
  - unfold pow10; simpl; unfold digits_val; simpl. lia.
  - apply andb_true_iff in H as [Hc Hr]. apply is_digit_range in Hc.
    specialize (IH Hr). rewrite digits_val_cons, pow10_S. nia.
Qed.

Lemma same_len_compare x : forall y,
  all_digits x = true -> all_digits y = true -> length x = length y ->
  str_compare x y = (digits_val x ?= digits_val y).
Proof.
  induction x as [|a x IH]; destruct y as [|b y]; simpl; intros Hx Hy Hl; try discriminate.
  - reflexivity.
  - apply andb_true_iff in Hx as [Ha Hx]. apply andb_true_iff in Hy as [Hb Hy].
    injection Hl as Hl.
    rewrite !digits_val_cons. rewrite <- Hl.
    pose proof (digits_val_bound x Hx) as Bx. pose proof (digits_val_bound y Hy) as By.
    rewrite <- Hl in By.
    apply is_digit_range in Ha. apply is_digit_range in Hb.
    destruct (N.compare_spec a b) as [E|E|E].
    + subst b. rewrite (IH y Hx Hy Hl).
      destruct (digits_val x ?= digits_val y) eqn:E2; symmetry.
      * apply N.compare_eq_iff in E2. apply N.compare_eq_iff. rewrite E2. reflexivity.
      * apply N.compare_lt_iff in E2. apply N.compare_lt_iff. apply N.add_lt_mono_l. exact E2.
      * apply N.compare_gt_iff in E2. apply N.compare_gt_iff. apply N.add_lt_mono_l. exact E2.
    + symmetry. apply N.compare_lt_iff.
      remember (a - 48) as da. remember (b - 48) as db. remember (pow10 (length x)) as p.
      assert (Hab : da + 1 <= db) by lia.
      apply (N.mul_le_mono_r _ _ p) in Hab. rewrite N.mul_add_distr_r in Hab. lia.
    + symmetry. apply N.compare_gt_iff.
      remember (a - 48) as da. remember (b - 48) as db. remember (pow10 (length x)) as p.
      assert (Hab : db + 1 <= da) by lia.
      apply (N.mul_le_mono_r _ _ p) in Hab. rewrite N.mul_add_distr_r in Hab. lia.
Qed.

(* a canonical decimal numeral: digits only, non-empty, no leading zero unless "0" *)
Definition wf_num (t : str) : Prop :=
  all_digits t = true /\ t <> [] /\ (forall r, t = 48 :: r -> r = []).

Lemma wf_num_lower c r : wf_num (c :: r) -> r <> [] -> pow10 (length r) <= digits_val (c :: r).
Proof.
  intros (Hd & _ & Hz) Hr. simpl in Hd. apply andb_true_iff in Hd as [Hc _].
  apply is_digit_range in Hc. rewrite digits_val_cons.
  assert (c <> 48) by (intros ->; apply Hr, (Hz r); reflexivity).
  nia.
Qed.

Lemma compare_int_lt_len x y :
  wf_num x -> wf_num y -> (length x < length y)%nat -> digits_val x < digits_val y.
Proof.
  intros Hx Hy Hl.
  destruct Hx as (Dx & Nx & _). pose proof (digits_val_bound x Dx) as Bx.
  destruct y as [|c r]; [simpl in Hl; lia|].
  assert (r <> []) by (destruct r; [destruct x; [congruence | simpl in Hl; lia] | discriminate]).
  pose proof (wf_num_lower c r Hy H) as L.
  simpl in Hl. assert (pow10 (length x) <= pow10 (length r)) by (apply pow10_mono; lia).
  lia.
Qed.

Lemma compare_int_spec x y :
  wf_num x -> wf_num y -> compare_int x y = (digits_val x ?= digits_val y).
Proof.
  intros Hx Hy. unfold compare_int.
  destruct (Nat.compare (length x) (length y)) eqn:E.
  - apply Nat.compare_eq_iff in E. apply same_len_compare; auto; [apply Hx | apply Hy].
  - apply Nat.compare_lt_iff in E. symmetry. apply N.compare_lt_iff.
    apply compare_int_lt_len; auto.
  - apply Nat.compare_gt_iff in E. symmetry. apply N.compare_gt_iff.
    apply compare_int_lt_len; auto.
Qed.

(* ---------- parseInt -------------------------------------------------- *)
Lemma span_digits_spec v : forall t rest,
  span_digits v = (t, rest) ->
  v = t ++ rest /\ all_digits t = true /\ (match rest with c :: _ => is_digit c = false | [] => True end).
Proof.
  induction v as [|c r IH]; simpl; intros t rest H.
  - injection H as <- <-. auto.
  - destruct (is_digit c) eqn:Ec.
    + destruct (span_digits r) as [a b] eqn:Er. injection H as <- <-.
      destruct (IH a b eq_refl) as (-> & Ha & Hb). simpl. rewrite Ec. auto.
    + injection H as <- <-. simpl. rewrite Ec. auto.
Qed.

Lemma parse_int_spec v t rest :
  parse_int v = Some (t, rest) -> v = t ++ rest /\ wf_num t.
Proof.
  unfold parse_int. destruct v as [|c r]; [discriminate|].
  destruct (is_digit c) eqn:Ec; [|discriminate].
  destruct (span_digits (c :: r)) as [a b] eqn:Es.
  pose proof (span_digits_spec _ _ _ Es) as (Hv & Hd & _).
  destruct ((c =? 48) && negb (Nat.eqb (length a) 1)) eqn:Ez; [discriminate|].
  intros [= <- <-]. split; [exact Hv|]. split; [exact Hd|].
  simpl in Es. rewrite Ec in Es. destruct (span_digits r) as [a' b']. injection Es as <- <-.
  split; [discriminate|]. intros r0 [= -> <-].
  simpl in Ez. destruct a'; [reflexivity|]. simpl in Ez. discriminate.
Qed.

(* ---------- pre-release identifiers ----------------------------------- *)
Fixpoint join (ids : list str) : str :=
  match ids with
  | [] => []
  | i :: r => match r with [] => i | _ => i ++ 46 :: join r end
  end.

Definition no_dot (i : str) : Prop := forallb is_ident_char i = true.

Definition wf_id (i : str) : Prop :=
  i <> [] /\ no_dot i /\ is_bad_num i = false.

Definition wf_pre (pre : str) : Prop :=
  exists ids, ids <> [] /\ pre = 45 :: join ids /\ Forall wf_id ids.

Lemma join_cons i r : r <> [] -> join (i :: r) = i ++ 46 :: join r.
Proof. destruct r; [congruence | reflexivity]. Qed.

Lemma forallb_rev {A} (f : A -> bool) l : forallb f (rev l) = forallb f l.
Proof.
  induction l as [|a l IH]; simpl; auto.
  rewrite forallb_app, IH. simpl. rewrite andb_true_r, andb_comm. reflexivity.
Qed.

Lemma seg_ok_wf cur :
  forallb is_ident_char cur = true ->
  negb match cur with [] => true | _ :: _ => false end && negb (true && is_bad_num (rev cur)) = true ->
  wf_id (rev cur).
Proof.
  intros Hcur. rewrite andb_true_iff, !negb_true_iff. cbn [andb]. intros [E1 E2].
  repeat split; auto.
  - intros E. apply (f_equal (@rev N)) in E. rewrite rev_involutive in E. simpl in E.
    subst cur. discriminate.
  - unfold no_dot. rewrite forallb_rev. exact Hcur.
Qed.

Lemma scan_idents_spec stop v : forall cur acc pre rest,
  forallb is_ident_char cur = true ->
  scan_idents stop true v cur acc = Some (pre, rest) ->
  exists body ids, pre = rev acc ++ body /\ v = body ++ rest /\ ids <> [] /\
                   rev cur ++ body = join ids /\ Forall wf_id ids.
Proof.
  induction v as [|c r IH]; intros cur acc pre rest Hcur; cbn [scan_idents];
    pose proof (seg_ok_wf cur Hcur) as Hseg;
    set (seg_ok := negb match cur with [] => true | _ :: _ => false end && negb (true && is_bad_num (rev cur))) in *.
  - destruct seg_ok eqn:Eok; [|discriminate]. intros [= <- <-].
    exists [], [rev cur]. rewrite !app_nil_r. repeat split; auto; try discriminate.
  - destruct (stop && (c =? 43)) eqn:Es.
    { destruct seg_ok eqn:Eok; [|discriminate]. intros [= <- <-].
      exists [], [rev cur]. rewrite !app_nil_r. repeat split; auto; try discriminate. }
    destruct (negb (is_ident_char c) && negb (c =? 46)) eqn:Ebad; [discriminate|].
    destruct (c =? 46) eqn:Edot.
    + destruct seg_ok eqn:Eok; [|discriminate]. intros Hr.
      apply IH in Hr; [|reflexivity]. destruct Hr as (body & ids & Hp & Hv & Hne & Hj & Hw).
      apply N.eqb_eq in Edot. subst c.
      exists (46 :: body), (rev cur :: ids). simpl in Hp, Hj. repeat split.
      * rewrite Hp. simpl. rewrite <- app_assoc. reflexivity.
      * rewrite Hv. reflexivity.
      * discriminate.
      * rewrite join_cons by exact Hne. rewrite Hj. reflexivity.
      * constructor; auto.
    + intros Hr. apply IH in Hr.
      2:{ simpl. rewrite Hcur, andb_true_r. simpl in Ebad.
          rewrite andb_true_r in Ebad. apply negb_false_iff in Ebad. exact Ebad. }
      destruct Hr as (body & ids & Hp & Hv & Hne & Hj & Hw).
      exists (c :: body), ids. simpl in Hp, Hj. repeat split; auto.
      * rewrite Hp. rewrite <- app_assoc. reflexivity.
      * rewrite Hv. reflexivity.
      * rewrite <- Hj. rewrite <- app_assoc. reflexivity.
Qed.

Lemma parse_prerelease_spec v pre rest :
  parse_prerelease v = Some (pre, rest) -> v = pre ++ rest /\ wf_pre pre.
Proof.
  unfold parse_prerelease. destruct v as [|c r]; [discriminate|].
  destruct (c =? 45) eqn:Ec; [|discriminate]. apply N.eqb_eq in Ec. subst c.
  intros H. apply scan_idents_spec in H; [|reflexivity].
  destruct H as (body & ids & Hp & Hv & Hne & Hj & Hw). simpl in Hp, Hj.
  split; [subst; reflexivity|]. exists ids. subst. auto.
Qed.

(* ---------- comparePrerelease ------------------------------------------ *)
Lemma ident_char_not_dot c : is_ident_char c = true -> (c =? 46) = false.
Proof.
  unfold is_ident_char, is_digit. intros H. apply N.eqb_neq. intros ->. vm_compute in H. discriminate.
Qed.

Lemma next_ident_app i rest :
  no_dot i -> next_ident (i ++ 46 :: rest) = (i, 46 :: rest).
Proof.
  unfold no_dot. induction i as [|c r IH]; simpl; intros H; auto.
  apply andb_true_iff in H as [Hc Hr]. rewrite (ident_char_not_dot c Hc), (IH Hr). reflexivity.
Qed.

Lemma next_ident_all i : no_dot i -> next_ident i = (i, []).
Proof.
  unfold no_dot. induction i as [|c r IH]; simpl; intros H; auto.
  apply andb_true_iff in H as [Hc Hr]. rewrite (ident_char_not_dot c Hc), (IH Hr). reflexivity.
Qed.

Lemma split_dots_app i : forall cur rest,
  no_dot i -> split_dots cur (i ++ rest) = split_dots (rev i ++ cur) rest.
Proof.
  unfold no_dot. induction i as [|c r IH]; simpl; intros cur rest H; auto.
  apply andb_true_iff in H as [Hc Hr]. rewrite (ident_char_not_dot c Hc), (IH _ _ Hr).
  rewrite <- app_assoc. reflexivity.
Qed.

Lemma split_dots_join ids :
  ids <> [] -> Forall wf_id ids -> split_dots [] (join ids) = ids.
Proof.
  induction ids as [|i r IH]; [congruence|]. intros _ Hw. inversion Hw as [|? ? Hi Hr]; subst.
  destruct Hi as (_ & Hnd & _).
  destruct r as [|j r'].
  - simpl. rewrite <- (app_nil_r i) at 1. rewrite split_dots_app by exact Hnd.
    simpl. rewrite app_nil_r, rev_involutive. reflexivity.
  - rewrite join_cons by discriminate. rewrite split_dots_app by exact Hnd.
    simpl. rewrite app_nil_r, rev_involutive. f_equal. apply IH; [discriminate | exact Hr].
Qed.

Lemma ident_cmp_total : total_cmp ident_cmp.
Proof.
  constructor.
  - intros [x|s] [y|t]; simpl; split; try congruence.
    + intros E. apply N.compare_eq_iff in E. congruence.
    + intros [= ->]. apply N.compare_refl.
    + intros E. apply (tc_eq _ str_compare_total) in E. congruence.
    + intros [= ->]. apply (tc_refl _ str_compare_total).
  - intros [x|s] [y|t]; simpl; auto.
    + apply N.compare_antisym.
    + apply (tc_opp _ str_compare_total).
  - intros [x|s] [y|t] [z|u]; simpl; try congruence.
    + apply (tc_trans _ N_compare_total).
    + apply (tc_trans _ str_compare_total).
Qed.

Lemma wf_id_num i : wf_id i -> is_num i = true -> wf_num i.
Proof.
  intros (Hne & _ & Hb) Hn. unfold is_num in Hn. repeat split; auto.
  intros r ->. unfold is_bad_num in Hb. rewrite Hn in Hb. simpl in Hb.
  destruct r; auto. simpl in Hb. discriminate.
Qed.

Lemma compare_int_eq x y : compare_int x y = Eq -> x = y.
Proof.
  unfold compare_int. destruct (Nat.compare (length x) (length y)); try discriminate.
  apply (tc_eq _ str_compare_total).
Qed.

(* the decision taken by comparePrerelease on two different identifiers *)
Definition ident_decision (dx dy : str) : comparison :=
  let ix := is_num dx in
  let iy := is_num dy in
  if negb (Bool.eqb ix iy) then (if ix then Lt else Gt)
  else if ix then
         match Nat.compare (length dx) (length dy) with
         | Eq => str_compare dx dy
         | c => c
         end
       else str_compare dx dy.

Lemma ident_decision_spec dx dy :
  wf_id dx -> wf_id dy -> ident_decision dx dy = ident_cmp (ident_of dx) (ident_of dy).
Proof.
  intros Hx Hy. unfold ident_decision, ident_of.
  destruct (is_num dx) eqn:Ex; destruct (is_num dy) eqn:Ey; simpl; auto.
  apply (compare_int_spec dx dy); apply wf_id_num; auto.
Qed.

Lemma ident_decision_neq dx dy :
  wf_id dx -> wf_id dy -> dx <> dy -> ident_decision dx dy <> Eq.
Proof.
  intros Hx Hy Hne. unfold ident_decision.
  destruct (is_num dx) eqn:Ex; destruct (is_num dy) eqn:Ey; simpl; try discriminate.
  - intros E. apply Hne. apply compare_int_eq. exact E.
  - intros E. apply Hne. apply (tc_eq _ str_compare_total). exact E.
Qed.

Lemma compare_pre_loop_spec xs : forall ys fuel a b,
  xs <> [] -> ys <> [] -> Forall wf_id xs -> Forall wf_id ys -> xs <> ys ->
  (length (join xs) < fuel)%nat ->
  compare_pre_loop fuel (a :: join xs) (b :: join ys) =
  list_cmp ident_cmp (map ident_of xs) (map ident_of ys).
Proof.
  induction xs as [|i xr IH]; [congruence|].
  intros ys fuel a b _ Hys Hwx Hwy Hne Hfuel.
  destruct ys as [|j yr]; [congruence|].
  inversion Hwx as [|? ? Hi Hxr]; subst. inversion Hwy as [|? ? Hj Hyr]; subst.
  destruct fuel as [|fuel]; [lia|]. cbn [compare_pre_loop].
  assert (Ni : next_ident (join (i :: xr)) = (i, match xr with [] => [] | _ => 46 :: join xr end)).
  { destruct xr; [apply next_ident_all, Hi | rewrite join_cons by discriminate; apply next_ident_app, Hi]. }
  assert (Nj : next_ident (join (j :: yr)) = (j, match yr with [] => [] | _ => 46 :: join yr end)).
  { destruct yr; [apply next_ident_all, Hj | rewrite join_cons by discriminate; apply next_ident_app, Hj]. }
  rewrite Ni, Nj. cbn [map list_cmp].
  destruct (str_eqb i j) eqn:Eij; cbn [negb].
  - apply str_eqb_eq in Eij. subst j.
    rewrite (tc_refl _ ident_cmp_total).
    assert (Li : (0 < length i)%nat) by (destruct Hi as (Hine & _); destruct i; [congruence | simpl; lia]).
    destruct xr as [|i2 xr']; destruct yr as [|j2 yr'].
    + congruence.
    + destruct fuel; [simpl in Hfuel; lia|]. reflexivity.
    + destruct fuel; [rewrite join_cons in Hfuel by discriminate; rewrite app_length in Hfuel; simpl in Hfuel; lia|]. reflexivity.
    + apply IH; try discriminate; auto.
      * congruence.
      * rewrite join_cons in Hfuel by discriminate. rewrite app_length in Hfuel. cbn [length] in Hfuel. lia.
  - apply str_eqb_neq in Eij. fold (ident_decision i j).
    rewrite (ident_decision_spec i j Hi Hj).
    pose proof (ident_decision_neq i j Hi Hj Eij) as Hd.
    rewrite (ident_decision_spec i j Hi Hj) in Hd.
    destruct (ident_cmp (ident_of i) (ident_of j)); congruence.
Qed.

Lemma join_nonempty ids : ids <> [] -> Forall wf_id ids -> join ids <> [].
Proof.
  destruct ids as [|i r]; [congruence|]. intros _ H. inversion H as [|? ? (Hne & _) _]; subst.
  destruct r; simpl; [exact Hne|]. destruct i; [congruence | discriminate].
Qed.

Lemma join_inj xs : forall ys,
  xs <> [] -> ys <> [] -> Forall wf_id xs -> Forall wf_id ys -> join xs = join ys -> xs = ys.
Proof.
  intros ys Hx Hy Wx Wy E.
  rewrite <- (split_dots_join xs Hx Wx), <- (split_dots_join ys Hy Wy), E. reflexivity.
Qed.

Definition pre_ok (pre : str) : Prop := pre = [] \/ wf_pre pre.

Lemma pre_idents_wf ids :
  ids <> [] -> Forall wf_id ids -> pre_idents (45 :: join ids) = map ident_of ids.
Proof. intros H W. unfold pre_idents. rewrite split_dots_join; auto. Qed.

Lemma compare_prerelease_spec x y :
  pre_ok x -> pre_ok y -> compare_prerelease x y = pre_cmp (pre_idents x) (pre_idents y).
Proof.
  intros Hx Hy. unfold compare_prerelease.
  destruct (str_eqb x y) eqn:E.
  - apply str_eqb_eq in E. subst y.
    assert (T : total_cmp (list_cmp ident_cmp)) by apply list_cmp_total, ident_cmp_total.
    unfold pre_cmp. destruct (pre_idents x); auto. symmetry. apply (tc_refl _ T).
  - apply str_eqb_neq in E.
    destruct Hx as [->|(xs & Nx & -> & Wx)]; destruct Hy as [->|(ys & Ny & -> & Wy)].
    + congruence.
    + rewrite pre_idents_wf by auto. simpl. destruct ys; [congruence | reflexivity].
    + rewrite pre_idents_wf by auto. simpl. destruct xs; [congruence | reflexivity].
    + rewrite !pre_idents_wf by auto.
      assert (xs <> ys) by congruence.
      rewrite compare_pre_loop_spec by (auto; simpl; lia).
      destruct xs; [congruence|]. destruct ys; [congruence|]. reflexivity.
Qed.

(* ---------- parse ------------------------------------------------------ *)
Definition wf_parsed (p : parsed) : Prop :=
  wf_num (p_major p) /\ wf_num (p_minor p) /\ wf_num (p_patch p) /\ pre_ok (p_prerelease p).

Lemma wf_num_zero : wf_num zero.
Proof. repeat split; try discriminate. intros r [= <-]. reflexivity. Qed.

Lemma parse_wf v p : parse v = Some p -> wf_parsed p.
Proof.
  unfold parse. destruct v as [|c0 v1]; [discriminate|].
  destruct (negb (c0 =? 118)); [discriminate|].
  destruct (parse_int v1) as [[major v2]|] eqn:E1; [|discriminate].
  apply parse_int_spec in E1 as [_ W1].
  destruct v2 as [|c2 v3].
  { intros [= <-]. repeat split; simpl; auto using wf_num_zero; try apply W1; try apply wf_num_zero. left; reflexivity. }
  destruct (negb (c2 =? 46)); [discriminate|].
  destruct (parse_int v3) as [[minor v4]|] eqn:E2; [|discriminate].
  apply parse_int_spec in E2 as [_ W2].
  destruct v4 as [|c4 v5].
  { intros [= <-]. unfold wf_parsed; simpl. repeat split; try apply W1; try apply W2; try apply wf_num_zero. left; reflexivity. }
  destruct (negb (c4 =? 46)); [discriminate|].
  destruct (parse_int v5) as [[patch v6]|] eqn:E3; [|discriminate].
  apply parse_int_spec in E3 as [_ W3].
  destruct (if starts 45 v6 then parse_prerelease v6 else Some ([], v6)) as [[pre v7]|] eqn:E4; [|discriminate].
  assert (Hpre : pre_ok pre).
  { destruct (starts 45 v6).
    - apply parse_prerelease_spec in E4 as [_ W]. right; exact W.
    - injection E4 as <- <-. left; reflexivity. }
  destruct (if starts 43 v7 then parse_build v7 else Some ([], v7)) as [[b v8]|]; [|discriminate].
  destruct v8; [|discriminate].
  intros [= <-]. unfold wf_parsed; simpl. repeat split; try apply W1; try apply W2; try apply W3. exact Hpre.
Qed.

(* ---------- main theorems ---------------------------------------------- *)
Theorem compare_refines_spec v w pv pw :
  parse v = Some pv -> parse w = Some pw -> compare v w = spec_cmp (abs pv) (abs pw).
Proof.
  intros Hv Hw. unfold compare. rewrite Hv, Hw.
  apply parse_wf in Hv as (V1 & V2 & V3 & V4). apply parse_wf in Hw as (W1 & W2 & W3 & W4).
  unfold spec_cmp, abs; simpl.
  rewrite (compare_int_spec _ _ V1 W1), (compare_int_spec _ _ V2 W2), (compare_int_spec _ _ V3 W3).
  rewrite (compare_prerelease_spec _ _ V4 W4). reflexivity.
Qed.

(* the specification order is a total order on abstract versions *)
Lemma pre_cmp_total : total_cmp pre_cmp.
Proof.
  pose proof (list_cmp_total ident_cmp ident_cmp_total) as T.
  constructor.
  - intros [|a x] [|b y]; split; try (simpl; congruence).
    + intros E. apply (tc_eq _ T (a :: x) (b :: y)). exact E.
    + intros ->. apply (tc_refl _ T (b :: y)).
  - intros [|a x] [|b y]; try reflexivity. apply (tc_opp _ T (a :: x) (b :: y)).
  - intros [|a x] [|b y] [|d z]; try (simpl; congruence). apply (tc_trans _ T (a :: x) (b :: y) (d :: z)).
Qed.

Definition sv_tuple (a : sv) : N * (N * (N * list ident)) :=
  (sv_major a, (sv_minor a, (sv_patch a, sv_pre a))).

Lemma spec_cmp_lex a b :
  spec_cmp a b = lex N.compare (lex N.compare (lex N.compare pre_cmp)) (sv_tuple a) (sv_tuple b).
Proof. reflexivity. Qed.

Theorem spec_cmp_total : total_cmp spec_cmp.
Proof.
  pose proof (lex_total _ _ N_compare_total (lex_total _ _ N_compare_total
               (lex_total _ _ N_compare_total pre_cmp_total))) as T.
  constructor.
  - intros a b. rewrite spec_cmp_lex, (tc_eq _ T). unfold sv_tuple. destruct a, b; simpl.
    split; [intros [= -> -> -> ->]; reflexivity | intros [= -> -> -> ->]; reflexivity].
  - intros a b. rewrite !spec_cmp_lex. apply (tc_opp _ T).
  - intros a b c. rewrite !spec_cmp_lex. apply (tc_trans _ T).
Qed.

(* Compare, on ALL strings: invalid versions form the bottom class. *)
Definition key (v : str) : option sv := option_map abs (parse v).

Definition key_cmp (a b : option sv) : comparison :=
  match a, b with
  | None, None => Eq
  | None, Some _ => Lt
  | Some _, None => Gt
  | Some x, Some y => spec_cmp x y
  end.

Lemma key_cmp_total : total_cmp key_cmp.
Proof.
  pose proof spec_cmp_total as T. constructor.
  - intros [x|] [y|]; simpl; split; try congruence.
    + intros E. apply (tc_eq _ T) in E. congruence.
    + intros [= ->]. apply (tc_refl _ T).
  - intros [x|] [y|]; simpl; auto. apply (tc_opp _ T).
  - intros [x|] [y|] [z|]; simpl; try congruence. apply (tc_trans _ T).
Qed.

Theorem compare_is_key_cmp v w : compare v w = key_cmp (key v) (key w).
Proof.
  unfold key. destruct (parse v) as [pv|] eqn:Ev; destruct (parse w) as [pw|] eqn:Ew; simpl.
  - apply compare_refines_spec; assumption.
  - unfold compare. rewrite Ev, Ew. reflexivity.
  - unfold compare. rewrite Ev, Ew. reflexivity.
  - unfold compare. rewrite Ev, Ew. reflexivity.
Qed.

Theorem compare_total_preorder : total_pre compare.
Proof.
  pose proof (total_pre_of_map key_cmp key key_cmp_total) as T.
  constructor.
  - intros x. rewrite compare_is_key_cmp. apply (tp_refl _ T).
  - intros x y. rewrite !compare_is_key_cmp. apply (tp_opp _ T).
  - intros x y z. rewrite !compare_is_key_cmp. apply (tp_trans _ T).
  - intros x y z. rewrite !compare_is_key_cmp. apply (tp_eq_l _ T).
Qed.

Theorem invalid_lowest v w : is_valid v = false -> is_valid w = true -> compare v w = Lt.
Proof.
  unfold is_valid, compare. destruct (parse v); [discriminate|]. destruct (parse w); [reflexivity | discriminate].
Qed.

Theorem invalid_all_equal v w : is_valid v = false -> is_valid w = false -> compare v w = Eq.
Proof.
  unfold is_valid, compare. destruct (parse v); [discriminate|]. destruct (parse w); [discriminate | reflexivity].
Qed.

(* build metadata does not take part in the comparison *)
Theorem build_ignored v w pv pw :
  parse v = Some pv -> parse w = Some pw ->
  p_major pv = p_major pw -> p_minor pv = p_minor pw -> p_patch pv = p_patch pw ->
  p_prerelease pv = p_prerelease pw ->
  compare v w = Eq.
Proof.
  intros Hv Hw E1 E2 E3 E4. rewrite (compare_refines_spec v w pv pw Hv Hw).
  apply (tc_eq _ spec_cmp_total). unfold abs. rewrite E1, E2, E3, E4. reflexivity.
Qed.

(* pre-release versions are below the release *)
Theorem prerelease_below_release v w pv pw :
  parse v = Some pv -> parse w = Some pw ->
  p_major pv = p_major pw -> p_minor pv = p_minor pw -> p_patch pv = p_patch pw ->
  p_prerelease pv <> [] -> p_prerelease pw = [] ->
  compare v w = Lt.
Proof.
  intros Hv Hw E1 E2 E3 N4 E4. rewrite (compare_refines_spec v w pv pw Hv Hw).
  unfold spec_cmp, abs; simpl. rewrite E1, E2, E3, E4, !N.compare_refl. simpl.
  apply parse_wf in Hv as (_ & _ & _ & [E|(ids & Nx & E & W)]); [congruence|].
  rewrite E, pre_idents_wf by auto. destruct ids; [congruence | reflexivity].
Qed.
