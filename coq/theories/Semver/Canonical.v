(* Canonical versions: on canonical semantic versions (what module.Version carries) Compare
   is antisymmetric AS STRINGS - "two semantic versions compare equal only if their canonical
   formattings are identical strings" - so together with "none" (bottom) and "" (top) the
   comparison closure that mvs.buildList derives from Versions.Max is a total order: the
   hypotheses of the MVS theorems (MVS/Proofs.v) are met by the real version order. *)
From Verif Require Import Base.Order Semver.Model Semver.Spec Semver.Proofs.
From Coq Require Import List NArith Bool Lia Arith.
Import ListNotations.
Open Scope N_scope.

Lemma scan_idents_prefix stop chk v : forall cur acc pre rest,
  scan_idents stop chk v cur acc = Some (pre, rest) -> exists body, pre = rev acc ++ body /\ v = body ++ rest.
Proof.
  induction v as [|c r IH]; intros cur acc pre rest; cbn [scan_idents].
  - destruct (_ && _); [|discriminate]. intros [= <- <-]. exists []. rewrite app_nil_r. auto.
  - destruct (stop && (c =? 43)).
    { destruct (_ && _); [|discriminate]. intros [= <- <-]. exists []. rewrite app_nil_r. auto. }
    destruct (negb (is_ident_char c) && negb (c =? 46)); [discriminate|].
    destruct (c =? 46).
    + destruct (_ && _); [|discriminate]. intros H. apply IH in H as (body & -> & ->).
      exists (c :: body). simpl. rewrite <- app_assoc. auto.
    + intros H. apply IH in H as (body & -> & ->). exists (c :: body). simpl. rewrite <- app_assoc. auto.
Qed.

Lemma parse_build_nonempty v b rest : parse_build v = Some (b, rest) -> b <> [] /\ v = b ++ rest.
Proof.
  unfold parse_build. destruct v as [|c r]; [discriminate|]. destruct (c =? 43) eqn:E; [|discriminate].
  apply N.eqb_eq in E. subst c. intros H. apply scan_idents_prefix in H as (body & -> & ->). simpl. split; [discriminate | reflexivity].
Qed.

Definition null_b (l : str) : bool := match l with [] => true | _ => false end.

Definition is_canon (v : str) : bool :=
  match parse v with
  | Some p => null_b (p_build p) && null_b (p_short p)
  | None => false
  end.

(* a canonical version is spelled exactly v MAJOR . MINOR . PATCH PRERELEASE *)
Lemma parse_reconstruct v p :
  parse v = Some p -> p_build p = [] -> p_short p = [] ->
  v = 118 :: p_major p ++ 46 :: p_minor p ++ 46 :: p_patch p ++ p_prerelease p.
Proof.
  unfold parse. destruct v as [|c0 v1]; [discriminate|].
  destruct (c0 =? 118) eqn:E0; simpl; [|discriminate]. apply N.eqb_eq in E0. subst c0.
  destruct (parse_int v1) as [[major v2]|] eqn:E1; [|discriminate].
  apply parse_int_spec in E1 as [-> _].
  destruct v2 as [|c2 v3]; [intros [= <-]; simpl; discriminate|].
  destruct (c2 =? 46) eqn:E2; simpl; [|discriminate]. apply N.eqb_eq in E2. subst c2.
  destruct (parse_int v3) as [[minor v4]|] eqn:E3; [|discriminate].
  apply parse_int_spec in E3 as [-> _].
  destruct v4 as [|c4 v5]; [intros [= <-]; simpl; discriminate|].
  destruct (c4 =? 46) eqn:E4; simpl; [|discriminate]. apply N.eqb_eq in E4. subst c4.
  destruct (parse_int v5) as [[patch v6]|] eqn:E5; [|discriminate].
  apply parse_int_spec in E5 as [-> _].
  destruct (if starts 45 v6 then parse_prerelease v6 else Some ([], v6)) as [[pre v7]|] eqn:E6; [|discriminate].
  assert (H6 : v6 = pre ++ v7).
  { destruct (starts 45 v6).
    - apply parse_prerelease_spec in E6 as [-> _]. reflexivity.
    - injection E6 as <- <-. reflexivity. }
  destruct (if starts 43 v7 then parse_build v7 else Some ([], v7)) as [[b v8]|] eqn:E7; [|discriminate].
  destruct v8; [|discriminate]. intros [= <-]. simpl. intros Hb _. subst b.
  assert (H7 : v7 = []).
  { destruct (starts 43 v7).
    - destruct (parse_build_nonempty _ _ _ E7) as [N _]. congruence.
    - injection E7 as E. exact E. }
  subst v6 v7. rewrite app_nil_r. reflexivity.
Qed.

(* numerals and identifiers are determined by what they denote *)
Lemma digits_val_inj x y : wf_num x -> wf_num y -> digits_val x = digits_val y -> x = y.
Proof.
  intros Hx Hy E. apply compare_int_eq. rewrite (compare_int_spec x y Hx Hy), E. apply N.compare_refl.
Qed.

Lemma ident_of_inj i j : wf_id i -> wf_id j -> ident_of i = ident_of j -> i = j.
Proof.
  intros Hi Hj. unfold ident_of. destruct (is_num i) eqn:Ei; destruct (is_num j) eqn:Ej; intros [= E]; auto.
  apply digits_val_inj; auto using wf_id_num.
Qed.

Lemma map_ident_of_inj xs : forall ys,
  Forall wf_id xs -> Forall wf_id ys -> map ident_of xs = map ident_of ys -> xs = ys.
Proof.
  induction xs as [|x xs IH]; destruct ys as [|y ys]; simpl; intros Hx Hy E; try discriminate; auto.
  inversion Hx; inversion Hy; subst. injection E as E1 E2. f_equal; auto using ident_of_inj.
Qed.

Lemma pre_idents_inj x y : pre_ok x -> pre_ok y -> pre_idents x = pre_idents y -> x = y.
Proof.
  intros [->|(xs & Nx & -> & Wx)] [->|(ys & Ny & -> & Wy)]; auto.
  - rewrite pre_idents_wf by auto. simpl. destruct ys; [congruence | discriminate].
  - rewrite pre_idents_wf by auto. simpl. destruct xs; [congruence | discriminate].
  - rewrite !pre_idents_wf by auto. intros E. apply map_ident_of_inj in E; auto. subst. reflexivity.
Qed.

Theorem compare_eq_canonical v w :
  is_canon v = true -> is_canon w = true -> compare v w = Eq -> v = w.
Proof.
  unfold is_canon. destruct (parse v) as [pv|] eqn:Ev; [|discriminate]. destruct (parse w) as [pw|] eqn:Ew; [|discriminate].
  intros Hv Hw. apply andb_true_iff in Hv as [Bv Sv]. apply andb_true_iff in Hw as [Bw Sw].
  assert (Bv' : p_build pv = []) by (destruct (p_build pv); [auto|discriminate]).
  assert (Sv' : p_short pv = []) by (destruct (p_short pv); [auto|discriminate]).
  assert (Bw' : p_build pw = []) by (destruct (p_build pw); [auto|discriminate]).
  assert (Sw' : p_short pw = []) by (destruct (p_short pw); [auto|discriminate]).
  rewrite (compare_refines_spec v w pv pw Ev Ew). intros E. apply (tc_eq _ spec_cmp_total) in E.
  pose proof (parse_wf v pv Ev) as (V1 & V2 & V3 & V4). pose proof (parse_wf w pw Ew) as (W1 & W2 & W3 & W4).
  unfold abs in E. injection E as E1 E2 E3 E4.
  rewrite (parse_reconstruct v pv Ev Bv' Sv'), (parse_reconstruct w pw Ew Bw' Sw').
  rewrite (digits_val_inj _ _ V1 W1 E1), (digits_val_inj _ _ V2 W2 E2), (digits_val_inj _ _ V3 W3 E3),
          (pre_idents_inj _ _ V4 W4 E4). reflexivity.
Qed.

(* ---- the order buildList uses, on the versions a requirement graph can carry --------- *)
Definition okv (s : str) : bool := str_eqb s s_none || str_eqb s [] || is_canon s.

Lemma canon_not_special s : is_canon s = true -> str_eqb s s_none = false /\ str_eqb s [] = false.
Proof.
  intros H. split; apply str_eqb_neq; intros ->; vm_compute in H; discriminate.
Qed.

Lemma compare_opp v w : compare v w = CompOpp (compare w v).
Proof. apply (tp_opp _ compare_total_preorder). Qed.

Lemma mvs_cmp_canon a b : is_canon a = true -> is_canon b = true -> mvs_cmp a b = compare a b.
Proof.
  intros Ha Hb. destruct (canon_not_special a Ha) as [A1 A2]. destruct (canon_not_special b Hb) as [B1 B2].
  unfold mvs_cmp, vmax. rewrite A1, A2, B1, B2. simpl.
  rewrite (compare_opp b a). destruct (compare a b) eqn:E; simpl.
  - apply compare_eq_canonical in E; auto. subst b. rewrite str_eqb_refl. reflexivity.
  - assert (N : str_eqb b a = false).
    { apply str_eqb_neq. intros ->. rewrite (tp_refl _ compare_total_preorder) in E. discriminate. }
    rewrite N. reflexivity.
  - rewrite str_eqb_refl. simpl.
    assert (N : str_eqb a b = false).
    { apply str_eqb_neq. intros ->. rewrite (tp_refl _ compare_total_preorder) in E. discriminate. }
    rewrite N. reflexivity.
Qed.

Lemma mvs_cmp_none_l b : okv b = true -> mvs_cmp s_none b = (if str_eqb b s_none then Eq else Lt).
Proof.
  intros Hb. unfold mvs_cmp, vmax. rewrite str_eqb_refl. simpl.
  destruct (str_eqb b s_none) eqn:E.
  - apply str_eqb_eq in E. subst b. reflexivity.
  - reflexivity.
Qed.

(* the three classes of versions, in ascending order *)
Definition vclass (s : str) : nat :=
  if str_eqb s s_none then 0 else if str_eqb s [] then 2 else 1.

Lemma mvs_cmp_by_class a b :
  okv a = true -> okv b = true ->
  mvs_cmp a b = match Nat.compare (vclass a) (vclass b) with
                | Eq => if Nat.eqb (vclass a) 1 then compare a b else Eq
                | c => c
                end.
Proof.
  unfold okv, vclass. intros Ha Hb.
  destruct (str_eqb a s_none) eqn:A1.
  { apply str_eqb_eq in A1. subst a. rewrite (mvs_cmp_none_l b Hb). destruct (str_eqb b s_none); [reflexivity|].
    destruct (str_eqb b []); reflexivity. }
  destruct (str_eqb a []) eqn:A2.
  { apply str_eqb_eq in A2. subst a. destruct (str_eqb b s_none) eqn:B1.
    - apply str_eqb_eq in B1. subst b. reflexivity.
    - destruct (str_eqb b []) eqn:B2.
      + apply str_eqb_eq in B2. subst b. reflexivity.
      + assert (N2 : str_eqb [] b = false) by (apply str_eqb_neq; intros X; apply str_eqb_neq in B2; congruence).
        unfold mvs_cmp, vmax. cbn [orb]. change (str_eqb [] s_none) with false. change (str_eqb [] []) with true.
        rewrite ?B1, ?B2. cbn [orb negb]. rewrite ?N2. reflexivity. }
  simpl in Ha. destruct (str_eqb b s_none) eqn:B1.
  { apply str_eqb_eq in B1. subst b. unfold mvs_cmp, vmax. rewrite A1, A2, str_eqb_refl. simpl.
    rewrite ?str_eqb_refl. simpl. rewrite ?A1. reflexivity. }
  destruct (str_eqb b []) eqn:B2.
  { apply str_eqb_eq in B2. subst b. unfold mvs_cmp, vmax. rewrite A1, A2. simpl. rewrite ?A2.
    assert (N2 : str_eqb [] a = false) by (apply str_eqb_neq; intros X; apply str_eqb_neq in A2; congruence).
    rewrite ?N2. reflexivity. }
  simpl in Hb. simpl. apply mvs_cmp_canon; assumption.
Qed.

(* the versions of a requirement graph as a type *)
Definition ver : Type := { s : str | okv s = true }.
Definition ver_str (v : ver) : str := proj1_sig v.
Definition ver_cmp (a b : ver) : comparison := mvs_cmp (ver_str a) (ver_str b).

Lemma ver_eq (a b : ver) : ver_str a = ver_str b -> a = b.
Proof.
  destruct a as [x Hx], b as [y Hy]. simpl. intros ->. f_equal.
  apply Eqdep_dec.UIP_dec. apply bool_dec.
Qed.

Lemma okv_none : okv s_none = true.
Proof. reflexivity. Qed.

Definition ver_none : ver := exist _ s_none okv_none.

Lemma ver_cmp_by_class (a b : ver) :
  ver_cmp a b = match Nat.compare (vclass (ver_str a)) (vclass (ver_str b)) with
                | Eq => if Nat.eqb (vclass (ver_str a)) 1 then compare (ver_str a) (ver_str b) else Eq
                | c => c
                end.
Proof. unfold ver_cmp. apply mvs_cmp_by_class; [apply (proj2_sig a) | apply (proj2_sig b)]. Qed.

Theorem ver_cmp_total : total_cmp ver_cmp.
Proof.
  assert (Cl : forall a : ver, (vclass (ver_str a) = 0 \/ vclass (ver_str a) = 1 \/ vclass (ver_str a) = 2)%nat).
  { intros a. unfold vclass. destruct (str_eqb _ s_none); auto. destruct (str_eqb _ []); auto. }
  assert (C1 : forall a : ver, vclass (ver_str a) = 1%nat -> is_canon (ver_str a) = true).
  { intros [s Hs]. simpl. unfold vclass, okv in *. destruct (str_eqb s s_none); [discriminate|].
    destruct (str_eqb s []); [discriminate|]. simpl in Hs. auto. }
  assert (C0 : forall a : ver, vclass (ver_str a) = 0%nat -> ver_str a = s_none).
  { intros [s Hs]. simpl. unfold vclass. destruct (str_eqb s s_none) eqn:E; [apply str_eqb_eq in E; auto|].
    destruct (str_eqb s []); discriminate. }
  assert (C2 : forall a : ver, vclass (ver_str a) = 2%nat -> ver_str a = []).
  { intros [s Hs]. simpl. unfold vclass. destruct (str_eqb s s_none) eqn:E; [discriminate|].
    destruct (str_eqb s []) eqn:E2; [apply str_eqb_eq in E2; auto | discriminate]. }
  constructor.
  - intros a b. rewrite ver_cmp_by_class. split.
    + intros H. apply ver_eq.
      destruct (Nat.compare_spec (vclass (ver_str a)) (vclass (ver_str b))) as [E|E|E]; try discriminate.
      destruct (Cl a) as [Ka|[Ka|Ka]]; rewrite Ka in *; simpl in H.
      * rewrite (C0 a Ka), (C0 b (eq_sym E)). reflexivity.
      * apply compare_eq_canonical; auto.
      * rewrite (C2 a Ka), (C2 b (eq_sym E)). reflexivity.
    + intros ->. rewrite Nat.compare_refl. destruct (Nat.eqb _ 1); auto. apply (tp_refl _ compare_total_preorder).
  - intros a b. rewrite !ver_cmp_by_class.
    rewrite (Nat.compare_antisym (vclass (ver_str a))).
    destruct (Nat.compare_spec (vclass (ver_str a)) (vclass (ver_str b))) as [E|E|E]; simpl; auto.
    rewrite E. destruct (Nat.eqb _ 1); auto. apply compare_opp.
  - intros a b c. rewrite !ver_cmp_by_class.
    destruct (Nat.compare_spec (vclass (ver_str a)) (vclass (ver_str b))) as [E1|E1|E1]; try discriminate;
    destruct (Nat.compare_spec (vclass (ver_str b)) (vclass (ver_str c))) as [E2|E2|E2]; try discriminate; intros H1 H2.
    + rewrite E1, E2, Nat.compare_refl in *. rewrite <- E2 in *. destruct (Nat.eqb _ 1); try discriminate.
      apply (tp_trans _ compare_total_preorder _ _ _ H1 H2).
    + assert (L : (vclass (ver_str a) < vclass (ver_str c))%nat) by lia.
      apply Nat.compare_lt_iff in L. rewrite L. reflexivity.
    + assert (L : (vclass (ver_str a) < vclass (ver_str c))%nat) by lia.
      apply Nat.compare_lt_iff in L. rewrite L. reflexivity.
    + assert (L : (vclass (ver_str a) < vclass (ver_str c))%nat) by lia.
      apply Nat.compare_lt_iff in L. rewrite L. reflexivity.
Qed.

Theorem ver_none_bottom : forall v : ver, ver_cmp ver_none v <> Gt.
Proof.
  intros v. unfold ver_cmp. change (ver_str ver_none) with s_none.
  pose proof (mvs_cmp_none_l (ver_str v) (proj2_sig v)) as E. rewrite E. destruct (str_eqb _ _); discriminate.
Qed.

Definition ver_eq_dec (a b : ver) : {a = b} + {a <> b}.
Proof.
  destruct (list_eq_dec N.eq_dec (ver_str a) (ver_str b)) as [E|N].
  - left. apply ver_eq. exact E.
  - right. intros ->. apply N. reflexivity.
Defined.
