(* Model of /repo/internal/mod/semver/semver.go and mod/module/versions.go (Max).
   Strings are byte lists ([list N]).  The functions follow the Go code
   function by function; Go slices [v[:i]], [v[i:]] become (prefix, rest) pairs. *)
From Coq Require Export List NArith Bool.
Export ListNotations.
Open Scope N_scope.

Definition str := list N.

Definition is_digit (c : N) : bool := (48 <=? c) && (c <=? 57).
Definition is_ident_char (c : N) : bool :=
  ((65 <=? c) && (c <=? 90)) || ((97 <=? c) && (c <=? 122)) || is_digit c || (c =? 45).

Fixpoint span_digits (v : str) : str * str :=
  match v with
  | c :: r => if is_digit c then let (a, b) := span_digits r in (c :: a, b) else ([], v)
  | [] => ([], [])
  end.

Fixpoint all_digits (v : str) : bool :=
  match v with [] => true | c :: r => is_digit c && all_digits r end.

(* parseInt *)
Definition parse_int (v : str) : option (str * str) :=
  match v with
  | [] => None
  | c :: _ =>
    if is_digit c then
      let (t, rest) := span_digits v in
      if (c =? 48) && negb (Nat.eqb (length t) 1) then None else Some (t, rest)
    else None
  end.

(* isBadNum: all digits, length > 1, leading zero *)
Definition is_bad_num (v : str) : bool :=
  all_digits v && Nat.ltb 1 (length v) && match v with c :: _ => c =? 48 | [] => false end.

(* isNum *)
Definition is_num (v : str) : bool := all_digits v.

(* Common loop of parsePrerelease / parseBuild: scan identifiers separated by
   '.', starting after the introducer.  [cur] is the identifier being scanned,
   reversed.  [stop_plus]: stop at '+' (prerelease only); [check_num]: reject
   numeric identifiers with leading zeros (prerelease only).  Returns the
   consumed text and the rest. *)
Fixpoint scan_idents (stop_plus check_num : bool) (v : str) (cur : str) (acc : str)
  : option (str * str) :=
  let seg_ok := negb (match cur with [] => true | _ => false end)
                && negb (check_num && is_bad_num (rev cur)) in
  match v with
  | [] => if seg_ok then Some (rev acc, []) else None
  | c :: r =>
    if stop_plus && (c =? 43) then (if seg_ok then Some (rev acc, v) else None)
    else if negb (is_ident_char c) && negb (c =? 46) then None
    else if c =? 46 then
      (if seg_ok then scan_idents stop_plus check_num r [] (c :: acc) else None)
    else scan_idents stop_plus check_num r (c :: cur) (c :: acc)
  end.

Definition parse_prerelease (v : str) : option (str * str) :=
  match v with
  | c :: r => if c =? 45 then scan_idents true true r [] [45] else None
  | [] => None
  end.

Definition parse_build (v : str) : option (str * str) :=
  match v with
  | c :: r => if c =? 43 then scan_idents false false r [] [43] else None
  | [] => None
  end.

Record parsed := mkParsed {
  p_major : str; p_minor : str; p_patch : str; p_short : str;
  p_prerelease : str; p_build : str }.

Definition zero : str := [48].
Definition dot : N := 46.

Definition starts (c : N) (v : str) : bool :=
  match v with x :: _ => x =? c | [] => false end.

Definition parse (v : str) : option parsed :=
  match v with
  | [] => None
  | c0 :: v1 =>
    if negb (c0 =? 118) then None else
    match parse_int v1 with
    | None => None
    | Some (major, v2) =>
      match v2 with
      | [] => Some (mkParsed major zero zero [46;48;46;48] [] [])
      | c2 :: v3 =>
        if negb (c2 =? 46) then None else
        match parse_int v3 with
        | None => None
        | Some (minor, v4) =>
          match v4 with
          | [] => Some (mkParsed major minor zero [46;48] [] [])
          | c4 :: v5 =>
            if negb (c4 =? 46) then None else
            match parse_int v5 with
            | None => None
            | Some (patch, v6) =>
              match (if starts 45 v6 then parse_prerelease v6 else Some ([], v6)) with
              | None => None
              | Some (pre, v7) =>
                match (if starts 43 v7 then parse_build v7 else Some ([], v7)) with
                | None => None
                | Some (b, v8) =>
                  match v8 with
                  | [] => Some (mkParsed major minor patch [] pre b)
                  | _ :: _ => None
                  end
                end
              end
            end
          end
        end
      end
    end
  end.

Definition is_valid (v : str) : bool := match parse v with Some _ => true | None => false end.

(* cmp.Compare on strings: bytewise lexicographic. *)
Fixpoint str_compare (x y : str) : comparison :=
  match x, y with
  | [], [] => Eq
  | [], _ => Lt
  | _, [] => Gt
  | a :: x', b :: y' => match a ?= b with Eq => str_compare x' y' | c => c end
  end.

Definition str_eqb (x y : str) : bool := match str_compare x y with Eq => true | _ => false end.

Definition compare_int (x y : str) : comparison :=
  match Nat.compare (length x) (length y) with
  | Eq => str_compare x y
  | c => c
  end.

(* nextIdent *)
Fixpoint next_ident (x : str) : str * str :=
  match x with
  | [] => ([], [])
  | c :: r => if c =? 46 then ([], x) else let (a, b) := next_ident r in (c :: a, b)
  end.

(* The loop of comparePrerelease; fuel = length of x suffices since every
   iteration removes at least one byte. *)
Fixpoint compare_pre_loop (fuel : nat) (x y : str) : comparison :=
  match fuel with
  | O => Eq (* unreachable: see compare_pre_fuel *)
  | S fuel' =>
    match x, y with
    | [], _ => Lt        (* after the loop: x == "" -> -1 *)
    | _, [] => Gt
    | _ :: x1, _ :: y1 =>
      let (dx, x2) := next_ident x1 in
      let (dy, y2) := next_ident y1 in
      if negb (str_eqb dx dy) then
        let ix := is_num dx in
        let iy := is_num dy in
        if negb (Bool.eqb ix iy) then (if ix then Lt else Gt)
        else if ix then
          match Nat.compare (length dx) (length dy) with
          | Eq => str_compare dx dy
          | c => c
          end
        else str_compare dx dy
      else compare_pre_loop fuel' x2 y2
    end
  end.

Definition compare_prerelease (x y : str) : comparison :=
  if str_eqb x y then Eq
  else match x, y with
       | [], _ => Gt
       | _, [] => Lt
       | _, _ => compare_pre_loop (S (length x)) x y
       end.

Definition compare (v w : str) : comparison :=
  match parse v, parse w with
  | None, None => Eq
  | None, Some _ => Lt
  | Some _, None => Gt
  | Some pv, Some pw =>
    match compare_int (p_major pv) (p_major pw) with
    | Eq => match compare_int (p_minor pv) (p_minor pw) with
            | Eq => match compare_int (p_patch pv) (p_patch pw) with
                    | Eq => compare_prerelease (p_prerelease pv) (p_prerelease pw)
                    | c => c end
            | c => c end
    | c => c
    end
  end.

(* Canonical: fills in .MINOR.PATCH, drops build metadata *)
Definition canonical (v : str) : str :=
  match parse v with
  | None => []
  | Some p =>
    match p_build p with
    | _ :: _ => firstn (length v - length (p_build p)) v
    | [] => match p_short p with _ :: _ => v ++ p_short p | [] => v end
    end
  end.

Definition major (v : str) : str :=
  match parse v with
  | None => []
  | Some p => firstn (1 + length (p_major p)) v
  end.

(* module.Versions.Max: "none" is the bottom, "" the top. *)
Definition s_none : str := [110;111;110;101].
Definition vmax (v1 v2 : str) : str :=
  if str_eqb v1 s_none || str_eqb v2 [] then v2
  else if str_eqb v2 s_none || str_eqb v1 [] then v1
  else match compare v1 v2 with Gt => v1 | _ => v2 end.

(* The cmp closure of mvs.buildList, derived from Max. *)
Definition mvs_cmp (v1 v2 : str) : comparison :=
  if negb (str_eqb (vmax v1 v2) v1) then Lt
  else if negb (str_eqb (vmax v2 v1) v2) then Gt
  else Eq.
