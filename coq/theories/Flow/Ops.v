(* Effect of each controller operation of Flow/Model.v on the observable
   projections of the state (task state, depTasks, view), used by Flow/Proofs.v. *)
From Verif Require Import Flow.Model Flow.CycleProofs.
From Coq Require Import List Bool Arith PeanoNat Lia.
Import ListNotations.

(* ---------------------------------------------------------------- lists *)

Lemma NoDup_app_intro : forall (l1 l2 : list nat),
  NoDup l1 -> NoDup l2 -> (forall x, In x l1 -> ~ In x l2) -> NoDup (l1 ++ l2).
Proof.
  induction l1 as [|a l1 IH]; intros l2 H1 H2 Hd; simpl; auto.
  inversion H1; subst. constructor.
  - rewrite in_app_iff. intros [H | H]; auto. apply (Hd a); simpl; auto.
  - apply IH; auto. intros x Hx. apply Hd. simpl; auto.
Qed.

Lemma NoDup_snoc : forall (l : list nat) x, NoDup l -> ~ In x l -> NoDup (l ++ [x]).
Proof.
  intros. apply NoDup_app_intro; auto.
  - constructor; auto. constructor.
  - intros y Hy [<- | []]. auto.
Qed.

Lemma existsb_false_forall : forall (A : Type) (f : A -> bool) l,
  existsb f l = false <-> forall x, In x l -> f x = false.
Proof.
  intros A f l. induction l as [|a l IH]; simpl.
  - split; auto. intros _ x [].
  - rewrite orb_false_iff, IH. split.
    + intros [Ha Hl] x [<- | Hx]; auto.
    + intros H. split; auto.
Qed.

Lemma forallb_ext' : forall (A : Type) (f g : A -> bool) l,
  (forall x, f x = g x) -> forallb f l = forallb g l.
Proof. intros A f g l H. induction l; simpl; auto. rewrite H, IHl. auto. Qed.

(* ---------------------------------------------------------------- tab / freeze *)

Lemma tab_eq : forall n f x, tab n f x = f x.
Proof.
  intros n f x. unfold tab. destruct (Nat.ltb x n) eqn:E; auto.
  apply Nat.ltb_lt in E.
  rewrite (nth_indep _ info0 (f 0)) by (rewrite map_length, seq_length; auto).
  rewrite map_nth. rewrite seq_nth by auto. reflexivity.
Qed.

Lemma info_freeze : forall n s x, info (freeze n s) x = info s x.
Proof. intros. unfold freeze. cbn [info]. apply tab_eq. Qed.

(* ---------------------------------------------------------------- projections *)

Definition St (s : cstate) (x : nat) : tstate := ti_state (info s x).
Definition Dp (s : cstate) (x : nat) : list nat := ti_deps (info s x).
Definition Vw (s : cstate) (x : nat) : nat := ti_view (info s x).

Definition waitingb (st : tstate) := match st with Waiting => true | _ => false end.
Definition readyb (st : tstate) := match st with Ready => true | _ => false end.
Definition runningb (st : tstate) := match st with Running => true | _ => false end.
Definition doneb (st : tstate) := match st with Terminated _ => true | _ => false end.
Definition le_readyb (st : tstate) := match st with Waiting | Ready => true | _ => false end.

Lemma is_waiting_St : forall s x, is_waiting (info s x) = waitingb (St s x). Proof. reflexivity. Qed.
Lemma is_ready_St : forall s x, is_ready_st (info s x) = readyb (St s x). Proof. reflexivity. Qed.
Lemma is_running_St : forall s x, is_running (info s x) = runningb (St s x). Proof. reflexivity. Qed.
Lemma is_done_St : forall s x, is_done (info s x) = doneb (St s x). Proof. reflexivity. Qed.
Lemma le_ready_St : forall s x, le_ready (info s x) = le_readyb (St s x). Proof. reflexivity. Qed.

Lemma task_ready_St : forall s x,
  task_ready s x = forallb (fun d => doneb (St s d)) (Dp s x).
Proof. reflexivity. Qed.

Lemma St_freeze : forall n s x, St (freeze n s) x = St s x.
Proof. intros. unfold St. rewrite info_freeze. auto. Qed.
Lemma Dp_freeze : forall n s x, Dp (freeze n s) x = Dp s x.
Proof. intros. unfold Dp. rewrite info_freeze. auto. Qed.
Lemma Vw_freeze : forall n s x, Vw (freeze n s) x = Vw s x.
Proof. intros. unfold Vw. rewrite info_freeze. auto. Qed.

(* ---------------------------------------------------------------- update_value *)

Lemma update_value_eq : forall s, vseq s = cseq s -> update_value s = (false, s).
Proof. intros s H. unfold update_value. rewrite H, Nat.eqb_refl. auto. Qed.

Lemma update_value_neq : forall s, vseq s <> cseq s ->
  update_value s = (true, mkState (known s) (info s) (results s) (cseq s) (cseq s) (views s) (stop s)).
Proof.
  intros s H. unfold update_value. destruct (Nat.eqb (vseq s) (cseq s)) eqn:E; auto.
  apply Nat.eqb_eq in E. contradiction.
Qed.

(* ---------------------------------------------------------------- update_task_value *)

Section UTV.
  Variable s : cstate.
  Variable t : nat.
  Hypothesis Hseq : vseq s = cseq s.

  Let s' := update_task_value s t.

  Lemma utv_cases :
    s' = s \/
    s' = mkState (known s)
                 (upd (info s) t (mkInfo (ti_state (info s t)) (ti_deps (info s t)) (ti_cseq (info s t))
                                         (Some (required s t)) (vseq s)))
                 (results s) (cseq s) (vseq s) (views s) (stop s).
  Proof.
    unfold s', update_task_value.
    destruct (match ti_vseq (info s t) with Some q => Nat.eqb q (required s t) | None => false end); auto.
    right. rewrite (update_value_eq s Hseq). simpl.
    destruct (Nat.ltb (vseq s) (required s t)); reflexivity.
  Qed.

  Lemma utv_known : known s' = known s.
  Proof. destruct utv_cases as [-> | ->]; auto. Qed.
  Lemma utv_results : results s' = results s.
  Proof. destruct utv_cases as [-> | ->]; auto. Qed.
  Lemma utv_stop : stop s' = stop s.
  Proof. destruct utv_cases as [-> | ->]; auto. Qed.
  Lemma utv_views : views s' = views s.
  Proof. destruct utv_cases as [-> | ->]; auto. Qed.
  Lemma utv_cseq : cseq s' = cseq s.
  Proof. destruct utv_cases as [-> | ->]; auto. Qed.
  Lemma utv_vseq : vseq s' = vseq s.
  Proof. destruct utv_cases as [-> | ->]; auto. Qed.

  Lemma utv_St : forall x, St s' x = St s x.
  Proof.
    intros x. destruct utv_cases as [-> | ->]; auto.
    unfold St, upd. cbn [info]. destruct (Nat.eqb x t) eqn:E; auto.
    apply Nat.eqb_eq in E. subst. auto.
  Qed.

  Lemma utv_Dp : forall x, Dp s' x = Dp s x.
  Proof.
    intros x. destruct utv_cases as [-> | ->]; auto.
    unfold Dp, upd. cbn [info]. destruct (Nat.eqb x t) eqn:E; auto.
    apply Nat.eqb_eq in E. subst. auto.
  Qed.

  Lemma utv_Vw_other : forall x, x <> t -> Vw s' x = Vw s x.
  Proof.
    intros x Hx. destruct utv_cases as [-> | ->]; auto.
    unfold Vw, upd. cbn [info]. destruct (Nat.eqb x t) eqn:E; auto.
    apply Nat.eqb_eq in E. contradiction.
  Qed.

  Lemma utv_Vw_self : Vw s' t = Vw s t \/ Vw s' t = vseq s.
  Proof.
    destruct utv_cases as [-> | ->]; auto.
    right. unfold Vw, upd. cbn [info]. rewrite Nat.eqb_refl. auto.
  Qed.
End UTV.

(* ---------------------------------------------------------------- mark_ready *)

Lemma mr_St : forall s x,
  St (mark_ready s) x =
  if mem x (known s) && waitingb (St s x) && task_ready s x then Ready else St s x.
Proof.
  intros. unfold St, mark_ready. cbn [info]. rewrite is_waiting_St. unfold St.
  destruct (mem x (known s) && waitingb (ti_state (info s x)) && task_ready s x); auto.
Qed.

Lemma mr_Dp : forall s x, Dp (mark_ready s) x = Dp s x.
Proof.
  intros. unfold Dp, mark_ready. cbn [info].
  destruct (mem x (known s) && is_waiting (info s x) && task_ready s x); auto.
Qed.

Lemma mr_Vw : forall s x, Vw (mark_ready s) x = Vw s x.
Proof.
  intros. unfold Vw, mark_ready. cbn [info].
  destruct (mem x (known s) && is_waiting (info s x) && task_ready s x); auto.
Qed.

Lemma mr_doneb : forall s x, doneb (St (mark_ready s) x) = doneb (St s x).
Proof.
  intros. rewrite mr_St.
  destruct (mem x (known s) && waitingb (St s x) && task_ready s x) eqn:E; auto.
  apply andb_prop in E. destruct E as [E _]. apply andb_prop in E. destruct E as [_ E].
  destruct (St s x); simpl in *; congruence.
Qed.

Lemma mr_task_ready : forall s x, task_ready (mark_ready s) x = task_ready s x.
Proof.
  intros. rewrite !task_ready_St. rewrite mr_Dp.
  apply forallb_ext'. intros d. apply mr_doneb.
Qed.

(* ---------------------------------------------------------------- init_tasks *)

Lemma appear_spec : forall w res kn x,
  In x (appear w res kn) <-> x < length w /\ ~ In x kn /\ act res (trig w x) = true.
Proof.
  intros. unfold appear. rewrite filter_In, in_seq, andb_true_iff, negb_true_iff, mem_false.
  split; intros H; intuition lia.
Qed.

Lemma appear_nodup : forall w res kn, NoDup (appear w res kn).
Proof. intros. unfold appear. apply NoDup_filter. apply seq_NoDup. Qed.

Section InitTasks.
  Variable w : workflow.
  Variable s : cstate.
  Let nw := appear w (results s) (known s).
  Let s' := init_tasks w s.

  Lemma it_known : known s' = known s ++ nw. Proof. reflexivity. Qed.
  Lemma it_results : results s' = results s. Proof. reflexivity. Qed.
  Lemma it_views : views s' = views s. Proof. reflexivity. Qed.
  Lemma it_cseq : cseq s' = cseq s. Proof. reflexivity. Qed.
  Lemma it_vseq : vseq s' = vseq s. Proof. reflexivity. Qed.

  Lemma it_St : forall x, St s' x = if mem x nw then Waiting else St s x.
  Proof.
    intros x. unfold St, s', init_tasks. cbn [info]. fold nw.
    destruct (mem x nw); auto.
    destruct (mem x (known s) && le_ready (info s x)); auto.
  Qed.

  Lemma it_Dp : forall x,
    Dp s' x = if mem x nw || (mem x (known s) && le_readyb (St s x))
              then kdeps w (results s) x else Dp s x.
  Proof.
    intros x. unfold Dp, s', init_tasks. cbn [info]. fold nw. rewrite le_ready_St.
    destruct (mem x nw); auto.
    destruct (mem x (known s) && le_readyb (St s x)); auto.
  Qed.

  Lemma it_Vw : forall x,
    Vw s' x = if mem x nw || (mem x (known s) && le_readyb (St s x))
              then vseq s else Vw s x.
  Proof.
    intros x. unfold Vw, s', init_tasks. cbn [info]. fold nw. rewrite le_ready_St.
    destruct (mem x nw); auto.
    destruct (mem x (known s) && le_readyb (St s x)); auto.
  Qed.

  Lemma it_stop :
    stop s' = match check_cycle (fun t => Dp s' t) (known s') with
              | Some false => stop s
              | _ => match stop s with Some r => Some r | None => Some StopCycle end
              end.
  Proof. reflexivity. Qed.
End InitTasks.

(* ---------------------------------------------------------------- dispatch *)

Section Dispatch.
  Variable s : cstate.
  Variable t : nat.
  Hypothesis Hseq : vseq s = cseq s.
  Let s1 := mkState (known s) (upd (info s) t (set_state (info s t) Running))
                    (results s) (cseq s) (vseq s) (views s) (stop s).
  Let s' := dispatch s t.

  Lemma d_s1_seq : vseq s1 = cseq s1. Proof. exact Hseq. Qed.

  Lemma d_known : known s' = known s.
  Proof. unfold s', dispatch. cbn [known]. fold s1. rewrite (utv_known s1 t d_s1_seq). auto. Qed.
  Lemma d_results : results s' = results s.
  Proof. unfold s', dispatch. cbn [results]. fold s1. rewrite (utv_results s1 t d_s1_seq). auto. Qed.
  Lemma d_stop : stop s' = stop s.
  Proof. unfold s', dispatch. cbn [stop]. fold s1. rewrite (utv_stop s1 t d_s1_seq). auto. Qed.
  Lemma d_cseq : cseq s' = cseq s.
  Proof. unfold s', dispatch. cbn [cseq]. fold s1. rewrite (utv_cseq s1 t d_s1_seq). auto. Qed.
  Lemma d_vseq : vseq s' = vseq s.
  Proof. unfold s', dispatch. cbn [vseq]. fold s1. rewrite (utv_vseq s1 t d_s1_seq). auto. Qed.

  Lemma d_St : forall x, St s' x = if Nat.eqb x t then Running else St s x.
  Proof.
    intros x. unfold s', dispatch. fold s1. unfold St at 1. cbn [info].
    change (ti_state (info (update_task_value s1 t) x)) with (St (update_task_value s1 t) x).
    rewrite (utv_St s1 t d_s1_seq). unfold St, s1, upd. cbn [info].
    destruct (Nat.eqb x t); auto.
  Qed.

  Lemma d_Dp : forall x, Dp s' x = Dp s x.
  Proof.
    intros x. unfold s', dispatch. fold s1. unfold Dp at 1. cbn [info].
    change (ti_deps (info (update_task_value s1 t) x)) with (Dp (update_task_value s1 t) x).
    rewrite (utv_Dp s1 t d_s1_seq). unfold Dp, s1, upd. cbn [info].
    destruct (Nat.eqb x t) eqn:E; auto. apply Nat.eqb_eq in E. subst. auto.
  Qed.

  Lemma d_Vw_other : forall x, x <> t -> Vw s' x = Vw s x.
  Proof.
    intros x Hx. unfold s', dispatch. fold s1. unfold Vw at 1. cbn [info].
    change (ti_view (info (update_task_value s1 t) x)) with (Vw (update_task_value s1 t) x).
    rewrite (utv_Vw_other s1 t d_s1_seq) by auto. unfold Vw, s1, upd. cbn [info].
    destruct (Nat.eqb x t) eqn:E; auto. apply Nat.eqb_eq in E. contradiction.
  Qed.

  Lemma d_Vw_self : Vw s' t = Vw s t \/ Vw s' t = vseq s.
  Proof.
    unfold s', dispatch. fold s1. unfold Vw at 1 3. cbn [info].
    change (ti_view (info (update_task_value s1 t) t)) with (Vw (update_task_value s1 t) t).
    destruct (utv_Vw_self s1 t d_s1_seq) as [H | H]; rewrite H.
    - left. unfold Vw, s1, upd. cbn [info]. rewrite Nat.eqb_refl. auto.
    - right. auto.
  Qed.

  Lemma d_views : views s' = (t, firstn (Vw s' t) (results s)) :: views s.
  Proof.
    unfold s', dispatch. fold s1. cbn [views]. rewrite (utv_views s1 t d_s1_seq).
    unfold view_of. rewrite (utv_results s1 t d_s1_seq). reflexivity.
  Qed.
End Dispatch.

(* ---------------------------------------------------------------- complete_fail *)

Lemma cf_St : forall s t x, St (complete_fail s t) x = if Nat.eqb x t then Terminated false else St s x.
Proof. intros. unfold St, complete_fail, upd. cbn [info]. destruct (Nat.eqb x t); auto. Qed.
Lemma cf_Dp : forall s t x, Dp (complete_fail s t) x = Dp s x.
Proof.
  intros. unfold Dp, complete_fail, upd. cbn [info]. destruct (Nat.eqb x t) eqn:E; auto.
  apply Nat.eqb_eq in E. subst. auto.
Qed.
Lemma cf_Vw : forall s t x, Vw (complete_fail s t) x = Vw s x.
Proof.
  intros. unfold Vw, complete_fail, upd. cbn [info]. destruct (Nat.eqb x t) eqn:E; auto.
  apply Nat.eqb_eq in E. subst. auto.
Qed.

(* ---------------------------------------------------------------- complete_ok *)

Section CompleteOk.
  Variable w : workflow.
  Variable s : cstate.
  Variable t : nat.
  Hypothesis Hseq : vseq s = cseq s.

  Let s1 := mkState (known s) (upd (info s) t (set_state (info s t) (Terminated true)))
                    (results s) (cseq s) (vseq s) (views s) (stop s).
  Let s2 := update_task_results s1 t.
  Let s3 := mkState (known s2) (info s2) (results s2) (cseq s2) (cseq s2) (views s2) (stop s2).
  Let s4 := init_tasks w s3.
  Let s5 := update_task_value s4 t.
  Let s' := complete_ok w s t.

  (* the tasks that come into existence with t's result *)
  Definition co_new : list nat := appear w (results s ++ [t]) (known s).

  Lemma co_unfold : s' = mark_ready s5.
  Proof.
    unfold s', complete_ok. fold s1. fold s2.
    rewrite update_value_neq.
    - reflexivity.
    - unfold s2, update_task_results, s1. cbn [vseq cseq]. rewrite Hseq. lia.
  Qed.

  Lemma co_s4_seq : vseq s4 = cseq s4. Proof. reflexivity. Qed.

  Lemma co_St1 : forall x, St s1 x = if Nat.eqb x t then Terminated true else St s x.
  Proof. intros. unfold St, s1, upd. cbn [info]. destruct (Nat.eqb x t); auto. Qed.

  Lemma co_St3 : forall x, St s3 x = if Nat.eqb x t then Terminated true else St s x.
  Proof.
    intros x. rewrite <- co_St1. unfold St, s3, s2, update_task_results, upd. cbn [info].
    destruct (Nat.eqb x t) eqn:E; auto. apply Nat.eqb_eq in E. subst. auto.
  Qed.

  Lemma co_Dp3 : forall x, Dp s3 x = Dp s x.
  Proof.
    intros x. unfold Dp, s3, s2, update_task_results, s1, upd. cbn [info].
    destruct (Nat.eqb_spec x t) as [-> | Hne]; auto.
    cbn [ti_deps]. rewrite Nat.eqb_refl. reflexivity.
  Qed.

  Lemma co_Vw3 : forall x, Vw s3 x = Vw s x.
  Proof.
    intros x. unfold Vw, s3, s2, update_task_results, s1, upd. cbn [info].
    destruct (Nat.eqb_spec x t) as [-> | Hne]; auto.
    cbn [ti_view]. rewrite Nat.eqb_refl. reflexivity.
  Qed.

  Lemma co_known3 : known s3 = known s. Proof. reflexivity. Qed.
  Lemma co_results3 : results s3 = results s ++ [t]. Proof. reflexivity. Qed.
  Lemma co_vseq3 : vseq s3 = S (cseq s). Proof. reflexivity. Qed.

  Lemma co_known : known s' = known s ++ co_new.
  Proof. rewrite co_unfold. cbn [mark_ready known]. unfold s5. rewrite (utv_known s4 t co_s4_seq). reflexivity. Qed.
  Lemma co_results : results s' = results s ++ [t].
  Proof. rewrite co_unfold. cbn [mark_ready results]. unfold s5. rewrite (utv_results s4 t co_s4_seq). reflexivity. Qed.
  Lemma co_views : views s' = views s.
  Proof. rewrite co_unfold. cbn [mark_ready views]. unfold s5. rewrite (utv_views s4 t co_s4_seq). reflexivity. Qed.
  Lemma co_cseq : cseq s' = S (cseq s).
  Proof. rewrite co_unfold. cbn [mark_ready cseq]. unfold s5. rewrite (utv_cseq s4 t co_s4_seq). reflexivity. Qed.
  Lemma co_vseq : vseq s' = S (cseq s).
  Proof. rewrite co_unfold. cbn [mark_ready vseq]. unfold s5. rewrite (utv_vseq s4 t co_s4_seq). reflexivity. Qed.

  (* state of the tasks just before markReady *)
  Definition co_base (x : nat) : tstate :=
    if mem x co_new then Waiting else if Nat.eqb x t then Terminated true else St s x.

  Lemma co_St5 : forall x, St s5 x = co_base x.
  Proof.
    intros x. unfold s5. rewrite (utv_St s4 t co_s4_seq). unfold s4. rewrite it_St.
    rewrite co_St3. reflexivity.
  Qed.

  Definition co_refreshed (x : nat) : bool :=
    mem x co_new || (mem x (known s) && negb (Nat.eqb x t) && le_readyb (St s x)).

  Lemma co_refreshed_eq : forall x,
    mem x (appear w (results s3) (known s3)) || (mem x (known s3) && le_readyb (St s3 x)) = co_refreshed x.
  Proof.
    intros x. unfold co_refreshed. rewrite co_St3, co_known3, co_results3. fold co_new.
    destruct (Nat.eqb x t); simpl; rewrite ?andb_false_r, ?andb_true_r; auto.
  Qed.

  Lemma co_Dp5 : forall x,
    Dp s5 x = if co_refreshed x then kdeps w (results s ++ [t]) x else Dp s x.
  Proof.
    intros x. unfold s5. rewrite (utv_Dp s4 t co_s4_seq). unfold s4. rewrite it_Dp.
    rewrite co_refreshed_eq, co_Dp3. reflexivity.
  Qed.

  Lemma co_Dp : forall x,
    Dp s' x = if co_refreshed x then kdeps w (results s ++ [t]) x else Dp s x.
  Proof. intros x. rewrite co_unfold, mr_Dp. apply co_Dp5. Qed.

  Lemma co_St : forall x,
    St s' x = if mem x (known s ++ co_new) && waitingb (co_base x) && task_ready s5 x
              then Ready else co_base x.
  Proof.
    intros x. rewrite co_unfold, mr_St. rewrite co_St5.
    unfold s5 at 1. rewrite (utv_known s4 t co_s4_seq). reflexivity.
  Qed.

  Lemma co_task_ready : forall x, task_ready s' x = task_ready s5 x.
  Proof. intros. rewrite co_unfold. apply mr_task_ready. Qed.

  Lemma co_task_ready5 : forall x,
    task_ready s5 x = forallb (fun d => doneb (co_base d)) (Dp s' x).
  Proof.
    intros x. rewrite task_ready_St. rewrite co_unfold, mr_Dp.
    apply forallb_ext'. intros d. rewrite co_St5. auto.
  Qed.

  Lemma co_Vw : forall x, x <> t -> Vw s' x = if co_refreshed x then S (cseq s) else Vw s x.
  Proof.
    intros x Hx. rewrite co_unfold, mr_Vw. unfold s5. rewrite (utv_Vw_other s4 t co_s4_seq) by auto.
    unfold s4. rewrite it_Vw. rewrite co_refreshed_eq, co_Vw3, co_vseq3. reflexivity.
  Qed.

  Lemma co_stop :
    stop s' = match check_cycle (fun x => Dp s4 x) (known s ++ co_new) with
              | Some false => stop s
              | _ => match stop s with Some r => Some r | None => Some StopCycle end
              end.
  Proof.
    rewrite co_unfold. cbn [mark_ready stop]. unfold s5. rewrite (utv_stop s4 t co_s4_seq).
    unfold s4. rewrite it_stop. reflexivity.
  Qed.

  Lemma co_info_other : forall x,
    ~ In x (known s ++ co_new) -> x <> t -> info s' x = info s x.
  Proof.
    intros x Hx Hne. rewrite co_unfold. unfold mark_ready. cbn [info].
    assert (Hk5 : known s5 = known s ++ co_new).
    { unfold s5. rewrite (utv_known s4 t co_s4_seq). reflexivity. }
    rewrite Hk5. apply mem_false in Hx. rewrite Hx. cbn [andb].
    assert (E4 : info s4 x = info s x).
    { unfold s4, init_tasks. cbn [info]. rewrite co_known3, co_results3. fold co_new.
      apply mem_false in Hx. rewrite in_app_iff in Hx.
      assert (H1 : mem x co_new = false) by (apply mem_false; tauto).
      assert (H2 : mem x (known s) = false) by (apply mem_false; tauto).
      rewrite H1, H2. cbn [andb].
      unfold s3, s2, update_task_results, s1, upd. cbn [info].
      destruct (Nat.eqb_spec x t); [contradiction|]. reflexivity. }
    unfold s5. destruct (utv_cases s4 t co_s4_seq) as [E | E]; rewrite E; auto.
    unfold upd. cbn [info]. destruct (Nat.eqb_spec x t); [contradiction|]. exact E4.
  Qed.

  Lemma co_Dp4 : forall x, Dp s4 x = Dp s' x.
  Proof.
    intros x. rewrite co_unfold, mr_Dp. unfold s5. rewrite (utv_Dp s4 t co_s4_seq). auto.
  Qed.
End CompleteOk.
