(* Proofs about the dependency-discovery model (Flow/Discover.v). *)
From Coq Require Import List Bool Arith PeanoNat Lia.
Import ListNotations.
From Verif Require Import Flow.Model Flow.CycleProofs Flow.Discover.

(* ------------------------------------------------------------------ *)
(* declarative reading of the discovery: which tasks a reference leads to *)

Inductive Reach (cfg : config) (res : list nat) : fpath -> nat -> Prop :=
| R_task : forall r d, task_at cfg res r = Some d -> Reach cfg res r d
| R_via : forall r r' d,
    task_at cfg res r = None ->
    In r' (snd (next cfg res r)) ->
    Reach cfg res r' d ->
    Reach cfg res r d.

(* task t refers to task d in the configuration with results res *)
Definition Refers (cfg : config) (res : list nat) (t d : nat) : Prop :=
  d <> t /\
  exists e r, In e cfg /\ active res e = true /\ is_task_id t e = true /\
              In r (item_refs (e_item e)) /\ Reach cfg res r d.

Lemma reach_sound : forall fuel cfg res vis r d,
  In d (reach fuel cfg res vis r) -> Reach cfg res r d.
Proof.
  induction fuel as [|f IH]; intros cfg res vis r d H; cbn [reach] in H.
  - contradiction.
  - destruct (task_at cfg res r) as [d'|] eqn:E.
    + destruct H as [->|[]]. now apply R_task.
    + destruct (memp (fst (next cfg res r)) vis); [contradiction|].
      apply in_flat_map in H. destruct H as [r' [Hin Hd]].
      eapply R_via; eauto.
Qed.

Theorem discover_sound : forall fuel cfg res t d,
  In d (discover fuel cfg res t) -> Refers cfg res t d.
Proof.
  intros fuel cfg res t d H. unfold discover in H.
  destruct (find _ cfg) as [e|] eqn:E; [|contradiction].
  apply find_some in E. destruct E as [Hin Hb].
  apply andb_true_iff in Hb. destruct Hb as [Ha Ht].
  apply filter_In in H. destruct H as [H Hne].
  apply negb_true_iff, Nat.eqb_neq in Hne.
  apply in_flat_map in H. destruct H as [r [Hr Hd]].
  split; [exact Hne|].
  exists e, r. repeat split; auto. eapply reach_sound; eauto.
Qed.

(* a task never depends on itself (addDep) *)
Theorem discover_irrefl : forall fuel cfg res t, ~ In t (discover fuel cfg res t).
Proof.
  intros fuel cfg res t H. apply discover_sound in H. destruct H as [H _]. now apply H.
Qed.

(* a task that does not exist (yet) has no dependencies *)
Theorem discover_absent : forall fuel cfg res t,
  ~ In t (tasks_at cfg res) -> discover fuel cfg res t = [].
Proof.
  intros fuel cfg res t H. unfold discover.
  destruct (find _ cfg) as [e|] eqn:E; [|reflexivity].
  exfalso. apply H. apply find_some in E. destruct E as [Hin Hb].
  apply andb_true_iff in Hb. destruct Hb as [Ha Ht].
  unfold tasks_at. apply in_flat_map. exists e. split; [exact Hin|].
  rewrite Ha. unfold is_task_id in Ht. unfold task_id.
  destruct (e_item e); [|discriminate].
  apply Nat.eqb_eq in Ht. subst. now left.
Qed.

(* the implementation's discovery never finds more than the Spec asks for *)
Lemma reach_incl_spec : forall fuel cfg res vis r d,
  In d (reach fuel cfg res vis r) -> In d (reach_spec fuel cfg res vis r).
Proof.
  induction fuel as [|f IH]; intros cfg res vis r d H; cbn [reach reach_spec] in *.
  - contradiction.
  - destruct (task_at cfg res r); [exact H|].
    destruct (memp (fst (next cfg res r)) vis); [contradiction|].
    apply in_or_app. right.
    apply in_flat_map in H. destruct H as [r' [Hin Hd]].
    apply in_flat_map. exists r'. split; auto.
Qed.

Theorem discover_incl_spec : forall fuel cfg res t d,
  In d (discover fuel cfg res t) -> In d (discover_spec fuel cfg res t).
Proof.
  intros fuel cfg res t d H. unfold discover, discover_spec in *.
  destruct (find _ cfg) as [e|]; [|contradiction].
  apply filter_In in H. destruct H as [H Hne].
  apply filter_In. split; [|exact Hne].
  apply in_flat_map in H. destruct H as [r [Hr Hd]].
  apply in_flat_map. exists r. split; [exact Hr|]. now apply reach_incl_spec.
Qed.

(* ------------------------------------------------------------------ *)
(* first_idx / activations along a run *)

Lemma find_seq_some : forall (p : nat -> bool) n a j,
  find p (seq a n) = Some j ->
  a <= j < a + n /\ p j = true /\ forall i, a <= i < j -> p i = false.
Proof.
  induction n as [|n IH]; intros a j H; cbn in H.
  - discriminate.
  - destruct (p a) eqn:E.
    + inversion H; subst. repeat split; try lia; auto.
    + apply IH in H. destruct H as [Hr [Hp Hm]]. repeat split; try lia; auto.
      intros i Hi. destruct (Nat.eq_dec i a) as [->|Hne]; [exact E|]. apply Hm. lia.
Qed.

Lemma find_seq_none : forall (p : nat -> bool) n a,
  find p (seq a n) = None -> forall i, a <= i < a + n -> p i = false.
Proof.
  induction n as [|n IH]; intros a H i Hi; cbn in H.
  - lia.
  - destruct (p a) eqn:E; [discriminate|].
    destruct (Nat.eq_dec i a) as [->|Hne]; [exact E|]. apply (IH (S a)); auto. lia.
Qed.

Lemma nodup_nth_firstn : forall (cs : list nat) k j,
  NoDup cs -> k < length cs -> (In (nth k cs 0) (firstn j cs) <-> k < j).
Proof.
  induction cs as [|a cs IH]; intros k j Hnd Hk; cbn in Hk.
  - lia.
  - inversion Hnd as [|x l Hnin Hnd']; subst.
    destruct j as [|j]; cbn [firstn].
    + split; [intros []|lia].
    + destruct k as [|k]; cbn [nth].
      * split; [lia|]. intros _. now left.
      * split.
        -- intros [Heq|Hin].
           ++ exfalso. apply Hnin. rewrite Heq. apply nth_In. lia.
           ++ apply IH in Hin; auto; lia.
        -- intros Hlt. right. apply IH; auto; lia.
Qed.

Lemma act_of_idx_spec : forall cs j0 j,
  NoDup cs -> j0 <= length cs ->
  (act (firstn j cs) (act_of_idx cs j0) = true <-> j0 <= j).
Proof.
  intros cs j0 j Hnd Hj0. destruct j0 as [|k]; cbn [act_of_idx act].
  - split; [lia|reflexivity].
  - rewrite mem_In. rewrite nodup_nth_firstn by (auto; lia). lia.
Qed.

Lemma first_idx_act : forall f cs j,
  NoDup cs -> j <= length cs ->
  ((exists j0, first_idx f cs = Some j0 /\ act (firstn j cs) (act_of_idx cs j0) = true)
   <-> exists i, i <= j /\ f (firstn i cs) = true).
Proof.
  intros f cs j Hnd Hj. unfold first_idx. split.
  - intros [j0 [Hf Ha]]. apply find_seq_some in Hf. destruct Hf as [Hr [Hp _]].
    apply act_of_idx_spec in Ha; auto; try lia. exists j0. split; auto.
  - intros [i [Hi Hfi]].
    destruct (find (fun j1 => f (firstn j1 cs)) (seq 0 (S (length cs)))) as [j0|] eqn:E.
    + exists j0. split; [reflexivity|].
      pose proof (find_seq_some _ _ _ _ E) as [Hr [Hp Hm]].
      apply act_of_idx_spec; auto; try lia.
      destruct (le_lt_dec j0 i) as [Hle|Hlt]; [lia|].
      rewrite (Hm i) in Hfi by lia. discriminate.
    + pose proof (find_seq_none _ _ _ E i) as Hn. cbn beta in Hn.
      rewrite Hn in Hfi by lia. discriminate.
Qed.

Lemma nth_error_map_seq : forall (A : Type) (f : nat -> A) n t,
  t < n -> nth_error (map f (seq 0 n)) t = Some (f t).
Proof.
  intros A f n t H. apply map_nth_error.
  rewrite (nth_error_nth' _ 0) by (rewrite seq_length; exact H).
  rewrite seq_nth by exact H. reflexivity.
Qed.

Lemma wf_of_run_length : forall cfg cs, length (wf_of_run cfg cs) = ntasks cfg.
Proof. intros. unfold wf_of_run. now rewrite map_length, seq_length. Qed.

Lemma deps_wf_of_run : forall cfg cs t,
  t < ntasks cfg -> deps (wf_of_run cfg cs) t = run_deps cfg cs t.
Proof.
  intros cfg cs t H. unfold deps, wf_of_run. now rewrite nth_error_map_seq.
Qed.

Lemma trig_wf_of_run : forall cfg cs t,
  t < ntasks cfg -> trig (wf_of_run cfg cs) t = run_trig cfg cs t.
Proof.
  intros cfg cs t H. unfold trig, wf_of_run. now rewrite nth_error_map_seq.
Qed.

(* The dependency sets the controller model computes from the workflow of a run are
   exactly the ACCUMULATED discoveries (addDep never removes) over the configurations
   the run went through. *)
Theorem kdeps_wf_of_run : forall cfg cs j t d,
  NoDup cs -> j <= length cs -> t < ntasks cfg ->
  (In d (kdeps (wf_of_run cfg cs) (firstn j cs) t) <->
   d <> t /\ d < ntasks cfg /\
   exists i, i <= j /\ In d (discover (dfuel cfg) cfg (firstn i cs) t)).
Proof.
  intros cfg cs j t d Hnd Hj Ht. unfold kdeps. rewrite deps_wf_of_run by exact Ht.
  rewrite in_map_iff. split.
  - intros [[d' a] [Hfst Hin]]. cbn in Hfst. subst d'.
    apply filter_In in Hin. destruct Hin as [Hin Hb]. cbn [fst snd] in Hb.
    apply andb_true_iff in Hb. destruct Hb as [Hact Hne].
    apply negb_true_iff, Nat.eqb_neq in Hne.
    unfold run_deps in Hin. apply in_flat_map in Hin. destruct Hin as [d' [Hseq Hin]].
    apply in_seq in Hseq.
    destruct (first_idx _ cs) as [j0|] eqn:E; [|contradiction].
    destruct Hin as [Heq|[]]. inversion Heq; subst d' a.
    split; [exact Hne|]. split; [lia|].
    assert (Hex : exists i, i <= j /\
              mem d (discover (dfuel cfg) cfg (firstn i cs) t) = true).
    { apply (first_idx_act (fun res => mem d (discover (dfuel cfg) cfg res t))); auto.
      exists j0. split; auto. }
    destruct Hex as [i [Hi Hm]]. exists i. split; auto. now apply mem_In.
  - intros [Hne [Hd [i [Hi Hin]]]].
    assert (Hex : exists j0,
              first_idx (fun res => mem d (discover (dfuel cfg) cfg res t)) cs = Some j0 /\
              act (firstn j cs) (act_of_idx cs j0) = true).
    { apply first_idx_act; auto. exists i. split; auto. now apply mem_In. }
    destruct Hex as [j0 [Hf Ha]].
    exists (d, act_of_idx cs j0). split; [reflexivity|].
    apply filter_In. split.
    + unfold run_deps. apply in_flat_map. exists d. split.
      * apply in_seq. lia.
      * rewrite Hf. now left.
    + cbn [fst snd]. rewrite Ha. cbn. apply negb_true_iff, Nat.eqb_neq. exact Hne.
Qed.

(* a task exists for the controller model exactly from the first configuration of the
   run that contains it *)
Theorem trig_wf_of_run_active : forall cfg cs j t,
  NoDup cs -> j <= length cs -> t < ntasks cfg ->
  (In t cs -> exists i, i <= length cs /\ In t (tasks_at cfg (firstn i cs))) ->
  (act (firstn j cs) (trig (wf_of_run cfg cs) t) = true <->
   exists i, i <= j /\ In t (tasks_at cfg (firstn i cs))).
Proof.
  intros cfg cs j t Hnd Hj Ht Hex. rewrite trig_wf_of_run by exact Ht.
  unfold run_trig.
  pose proof (first_idx_act (fun res => mem t (tasks_at cfg res)) cs j Hnd Hj) as HF.
  destruct (first_idx (fun res => mem t (tasks_at cfg res)) cs) as [j0|] eqn:E.
  - split.
    + intros Ha. destruct (proj1 HF) as [i [Hi Hm]].
      { exists j0. split; auto. }
      exists i. split; auto. now apply mem_In.
    + intros [i [Hi Hin]]. destruct (proj2 HF) as [j1 [Hj1 Ha]].
      { exists i. split; auto. now apply mem_In. }
      inversion Hj1; subst. exact Ha.
  - split.
    + intros Ha. cbn [act] in Ha. apply mem_In in Ha.
      assert (Hin : In t cs).
      { rewrite <- (firstn_skipn j cs). apply in_or_app. now left. }
      destruct (Hex Hin) as [i [Hi Hti]].
      unfold first_idx in E.
      pose proof (find_seq_none _ _ _ E i) as Hn. cbn beta in Hn.
      apply mem_In in Hti. rewrite Hn in Hti by lia. discriminate.
    + intros [i [Hi Hin]]. destruct (proj2 HF) as [j1 [Hj1 _]].
      { exists i. split; auto. now apply mem_In. }
      discriminate.
Qed.

(* ------------------------------------------------------------------ *)
(* non-vacuity and the refuted Spec clause *)

(* root: { t0: task; g0: { t1: task {d: t0.out} }; t2: task {e: g0} } *)
Definition encl_cfg : config :=
  [ mkEntry [0; 100] None (ITask 0 []);
    mkEntry [0; 200; 101] None (ITask 1 [[0; 100; 1]]);
    mkEntry [0; 102] None (ITask 2 [[0; 200]]) ].

Definition encl_tr : list label :=
  [Dispatch 0; Complete 0 true; Dispatch 1; Dispatch 2; Complete 2 true].

(* The Spec reading ("a reference to a struct that contains task 1 refers to task 1") is
   refuted by the faithful discovery: task 2 only depends on what the BODY of task 1
   refers to, and the controller lets task 2 run and complete while task 1 is running. *)
Theorem enclosing_reference_refuted :
  In 1 (discover_spec (dfuel encl_cfg) encl_cfg [] 2) /\
  discover (dfuel encl_cfg) encl_cfg [] 2 = [0] /\
  option_map (fun s => (ti_state (info s 1), ti_state (info s 2)))
             (run (wf_of_run encl_cfg (completions encl_tr)) encl_tr)
  = Some (Running, Terminated true).
Proof.
  split; [vm_compute; auto|]. split; vm_compute; reflexivity.
Qed.

(* root: { t0: task (spawns t1, t2 into mid0); mid0: {t1: task; t2: task {d: t5.out}};
           t5: task; t3: task {e: mid0}; t4: task {d: mid0.t1.out}; a1: mid0.t2.out;
           t6: task {d: a1}; t7: task {for k, x in mid0 {(k): x.out}} }  (harness --probe) *)
Definition dyn_cfg : config :=
  [ mkEntry [0; 1] None (ITask 0 []);
    mkEntry [0; 2; 3] (Some 0) (ITask 1 []);
    mkEntry [0; 2; 4] (Some 0) (ITask 2 [[0; 5; 11]]);
    mkEntry [0; 5] None (ITask 5 []);
    mkEntry [0; 6] None (ITask 3 [[0; 2]]);
    mkEntry [0; 7] None (ITask 4 [[0; 2; 3; 11]]);
    mkEntry [0; 8] None (IRef [[0; 2; 4; 11]]);
    mkEntry [0; 9] None (ITask 6 [[0; 8]]);
    mkEntry [0; 10] None (ITask 7 [[0; 2]; [0; 2; 3; 11]; [0; 2; 4; 11]]) ].

(* discovery is NOT monotone in the results (a reference into a task that does not exist
   yet is reported on the enclosing struct and leads to the spawning task; once the task
   exists it leads there): the accumulation by addDep matters, wf_of_run keeps it *)
Example ex_discover_dynamic :
  discover (dfuel dyn_cfg) dyn_cfg [] 4 = [0; 0] /\
  discover (dfuel dyn_cfg) dyn_cfg [0] 4 = [1] /\
  tasks_at dyn_cfg [] = [0; 5; 3; 4; 6; 7] /\
  tasks_at dyn_cfg [0] = [0; 1; 2; 5; 3; 4; 6; 7] /\
  kdeps (wf_of_run dyn_cfg [5; 0]) [5; 0] 4 = [0; 1] /\
  kdeps (wf_of_run dyn_cfg [5; 0]) [5; 0] 7 = [0; 1; 2; 5] /\
  kdeps (wf_of_run dyn_cfg [5; 0]) [5; 0] 3 = [0; 5].
Proof. repeat split; vm_compute; reflexivity. Qed.

(* ------------------------------------------------------------------ *)
(* the controller theorems, read at the level of configurations *)
From Verif Require Import Flow.Spec Flow.Proofs.

Lemma discovered_in_run_deps : forall cfg cs t d i,
  i <= length cs -> d < ntasks cfg ->
  In d (discover (dfuel cfg) cfg (firstn i cs) t) ->
  exists a, In (d, a) (run_deps cfg cs t).
Proof.
  intros cfg cs t d i Hi Hd Hin. unfold run_deps.
  destruct (first_idx (fun res => mem d (discover (dfuel cfg) cfg res t)) cs) as [j0|] eqn:E.
  - exists (act_of_idx cs j0). apply in_flat_map. exists d. split.
    + apply in_seq. lia.
    + rewrite E. now left.
  - exfalso. unfold first_idx in E.
    pose proof (find_seq_none _ _ _ E i) as Hn. cbn beta in Hn.
    apply mem_In in Hin. rewrite Hn in Hin by lia. discriminate.
Qed.

(* A task is started only after every task that the dependency discovery finds for it in
   ANY configuration of the run (before or after dynamic tasks appeared) has completed
   successfully - for every schedule; [cs] is the completion order of the run. *)
Theorem cfg_start_after_discovered : forall cfg cs,
  wf_closed (wf_of_run cfg cs) ->
  forall tr1 t tr2 s, t < ntasks cfg ->
  run (wf_of_run cfg cs) (tr1 ++ Dispatch t :: tr2) = Some s ->
  forall d i, i <= length cs -> d < ntasks cfg ->
    In d (discover (dfuel cfg) cfg (firstn i cs) t) ->
    In (Complete d true) tr1.
Proof.
  intros cfg cs Hc tr1 t tr2 s Ht Hrun d i Hi Hd Hin.
  destruct (start_after_deps _ Hc tr1 t tr2 s Hrun) as [s1 [s2 [_ [_ [_ [_ Hall]]]]]].
  destruct (discovered_in_run_deps cfg cs t d i Hi Hd Hin) as [a Ha].
  apply (Hall d a).
  - rewrite deps_wf_of_run by exact Ht. exact Ha.
  - intros ->. now apply discover_irrefl in Hin.
Qed.
