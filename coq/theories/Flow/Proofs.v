(* Theorems about every execution of the controller model (any completion order
   and outcome chosen by the environment). *)
From Verif Require Import Flow.Model Flow.CycleProofs Flow.Spec Flow.Ops Flow.Invariant.
From Coq Require Import List Bool Arith PeanoNat Lia Permutation.
Import ListNotations.

(* ---------------------------------------------------------------- steps *)

Lemma step_stopped : forall w s l r, stop s = Some r -> step w s l = None.
Proof. intros w s l r H. unfold step. rewrite H. reflexivity. Qed.

Lemma step_dispatch_inv : forall w s t s',
  step w s (Dispatch t) = Some s' ->
  stop s = None /\ In t (known s) /\ St s t = Ready /\ s' = freeze (length w) (dispatch s t).
Proof.
  intros w s t s' H. unfold step in H. destruct (stop s); [discriminate|].
  destruct (mem t (known s) && is_ready_st (info s t)) eqn:E; [|discriminate].
  apply andb_prop in E. destruct E as [E1 E2]. apply mem_In in E1.
  rewrite is_ready_St in E2. inversion H. repeat split; auto.
  destruct (St s t); try discriminate; auto.
Qed.

Lemma step_complete_inv : forall w s t ok s',
  step w s (Complete t ok) = Some s' ->
  stop s = None /\ any_ready s = false /\ In t (known s) /\ St s t = Running /\
  s' = freeze (length w) (if ok then complete_ok w s t else complete_fail s t).
Proof.
  intros w s t ok s' H. unfold step in H. destruct (stop s); [discriminate|].
  destruct (negb (any_ready s) && mem t (known s) && is_running (info s t)) eqn:E; [|discriminate].
  apply andb_prop in E. destruct E as [E E3]. apply andb_prop in E. destruct E as [E1 E2].
  apply mem_In in E2. apply negb_true_iff in E1. rewrite is_running_St in E3.
  inversion H. repeat split; auto. destruct (St s t); try discriminate; auto.
Qed.

Lemma step_cancel_inv : forall w s s',
  step w s Cancel = Some s' ->
  stop s = None /\ any_ready s = false /\ any_running s = true /\
  s' = mkState (known s) (info s) (results s) (cseq s) (vseq s) (views s) (Some StopCancelled).
Proof.
  intros w s s' H. unfold step in H. destruct (stop s); [discriminate|].
  destruct (negb (any_ready s) && any_running s) eqn:E; [|discriminate].
  apply andb_prop in E. destruct E as [E1 E2]. apply negb_true_iff in E1.
  inversion H. auto.
Qed.

Theorem step_inv : forall w s l s', Inv w s -> step w s l = Some s' -> Inv w s'.
Proof.
  intros w s l s' I H. destruct l as [t | t ok |].
  - apply step_dispatch_inv in H. destruct H as [_ [Ht [HR ->]]].
    apply inv_freeze. apply inv_dispatch; auto.
  - apply step_complete_inv in H. destruct H as [Hs [Hnr [Ht [HR ->]]]].
    apply inv_freeze. destruct ok.
    + apply inv_complete_ok; auto.
    + apply inv_complete_fail; auto.
  - apply step_cancel_inv in H. destruct H as [Hs [_ [_ ->]]]. apply inv_cancel; auto.
Qed.

(* ---------------------------------------------------------------- runs *)

Lemma run_from_app : forall w l1 l2 s,
  run_from w s (l1 ++ l2) =
  match run_from w s l1 with Some s' => run_from w s' l2 | None => None end.
Proof.
  intros w l1. induction l1 as [|l r IH]; intros l2 s; simpl; auto.
  destruct (step w s l); auto.
Qed.

Lemma run_snoc : forall w tr l s,
  run w (tr ++ [l]) = Some s <-> exists s0, run w tr = Some s0 /\ step w s0 l = Some s.
Proof.
  intros w tr l s. unfold run. rewrite run_from_app. split.
  - destruct (run_from w (init w) tr) as [s0|]; [|discriminate]. simpl.
    destruct (step w s0 l) eqn:E; [|discriminate]. intros [= <-]. eauto.
  - intros [s0 [-> H]]. simpl. rewrite H. auto.
Qed.

Lemma run_prefix : forall w tr1 tr2 s,
  run w (tr1 ++ tr2) = Some s -> exists s1, run w tr1 = Some s1 /\ run_from w s1 tr2 = Some s.
Proof.
  intros w tr1 tr2 s. unfold run. rewrite run_from_app.
  destruct (run_from w (init w) tr1) as [s1|]; [|discriminate]. eauto.
Qed.

(* induction principle over executions *)
Lemma run_ind : forall w (P : list label -> cstate -> Prop),
  P [] (init w) ->
  (forall tr s l s', run w tr = Some s -> P tr s -> step w s l = Some s' -> P (tr ++ [l]) s') ->
  forall tr s, run w tr = Some s -> P tr s.
Proof.
  intros w P H0 HS tr. induction tr as [|l tr IH] using rev_ind; intros s H.
  - unfold run in H. simpl in H. inversion H. subst. auto.
  - apply run_snoc in H. destruct H as [s0 [H1 H2]]. eapply HS; eauto.
Qed.

Theorem run_inv : forall w tr s, run w tr = Some s -> Inv w s.
Proof.
  intros w. apply (run_ind w (fun _ s => Inv w s)).
  - apply inv_init.
  - intros tr s l s' _ I H. eapply step_inv; eauto.
Qed.

(* ---------------------------------------------------------------- effect of a step on task states *)

Lemma step_St_dispatch : forall w s t s', Inv w s -> step w s (Dispatch t) = Some s' ->
  forall x, St s' x = if Nat.eqb x t then Running else St s x.
Proof.
  intros w s t s' I H x. apply step_dispatch_inv in H. destruct H as [_ [_ [_ ->]]].
  rewrite St_freeze. apply d_St. apply (i_vseq w s I).
Qed.

Lemma step_St_fail : forall w s t s', step w s (Complete t false) = Some s' ->
  forall x, St s' x = if Nat.eqb x t then Terminated false else St s x.
Proof.
  intros w s t s' H x. apply step_complete_inv in H. destruct H as [_ [_ [_ [_ ->]]]].
  rewrite St_freeze. apply cf_St.
Qed.

(* after a successful completion: t is Terminated, every other task keeps its
   state except that Waiting tasks may have become Ready (new tasks are Waiting or Ready) *)
Lemma step_St_ok : forall w s t s', Inv w s -> step w s (Complete t true) = Some s' ->
  St s' t = Terminated true /\
  forall x, x <> t -> St s' x = St s x \/ (St s x = Waiting /\ St s' x = Ready).
Proof.
  intros w s t s' I H. apply step_complete_inv in H. destruct H as [Hs [Hnr [Ht [HR ->]]]].
  split.
  - rewrite St_freeze.
    destruct (cok_St_cases w s t I t) as [E | [_ [E _]]].
    + rewrite E. apply cok_B_t; auto.
    + rewrite (cok_B_t w s t Ht) in E. discriminate.
  - intros x Hne. rewrite St_freeze.
    assert (HB : co_base w s t x = St s x).
    { destruct (in_dec Nat.eq_dec x (co_new w s t)) as [Hn | Hn].
      - rewrite (cok_B_new w s t x Hn).
        apply (cok_N w s t) in Hn. destruct Hn as [_ [Hn _]].
        rewrite (St_unknown w s x I Hn). auto.
      - apply cok_B_old; auto. }
    destruct (cok_St_cases w s t I x) as [E | [E1 [E2 _]]].
    + left. congruence.
    + right. split; congruence.
Qed.

(* ---------------------------------------------------------------- counting events *)

Lemma label_eqb_eq : forall a b, label_eqb a b = true <-> a = b.
Proof.
  intros [x | x o |] [y | y p |]; simpl; split; intros H; try discriminate; auto.
  - apply Nat.eqb_eq in H. subst; auto.
  - inversion H. apply Nat.eqb_refl.
  - apply andb_prop in H. destruct H as [H1 H2]. apply Nat.eqb_eq in H1. apply eqb_prop in H2. subst; auto.
  - inversion H. rewrite Nat.eqb_refl, eqb_reflx. auto.
Qed.

Lemma count_snoc : forall l tr l',
  count l (tr ++ [l']) = count l tr + (if label_eqb l l' then 1 else 0).
Proof.
  intros. unfold count. rewrite filter_app, app_length. simpl.
  destruct (label_eqb l l'); simpl; lia.
Qed.

Lemma count_pos_In : forall l tr, 1 <= count l tr <-> In l tr.
Proof.
  intros l tr. unfold count. induction tr as [|a r IH]; simpl.
  - split; [lia | intros []].
  - destruct (label_eqb l a) eqn:E; simpl.
    + apply label_eqb_eq in E. subst. split; auto. lia.
    + rewrite IH. split; auto. intros [-> | H]; auto.
      rewrite (proj2 (label_eqb_eq l l) eq_refl) in E. discriminate.
Qed.

Lemma count_app : forall l tr1 tr2, count l (tr1 ++ tr2) = count l tr1 + count l tr2.
Proof. intros. unfold count. rewrite filter_app, app_length. auto. Qed.

(* successful completions, in order *)
Definition okc (tr : list label) : list nat :=
  flat_map (fun l => match l with Complete x true => [x] | _ => [] end) tr.

Lemma okc_app : forall a b, okc (a ++ b) = okc a ++ okc b.
Proof. intros. unfold okc. apply flat_map_app. Qed.

Lemma okc_In : forall tr x, In x (okc tr) <-> In (Complete x true) tr.
Proof.
  intros tr x. unfold okc. rewrite in_flat_map. split.
  - intros [l [Hl Hx]]. destruct l as [y | y [|] |]; simpl in Hx; try contradiction.
    destruct Hx as [<- | []]. auto.
  - intros H. exists (Complete x true). split; auto. simpl; auto.
Qed.

(* ---------------------------------------------------------------- the initial state *)

Lemma init_le_ready : forall w x, le_readyb (St (init w) x) = true.
Proof.
  intros w x. unfold init. rewrite St_freeze, mr_St, init_St0.
  destruct (mem x (known (init_tasks w empty_state)) && waitingb Waiting &&
            task_ready (init_tasks w empty_state) x); auto.
Qed.

Lemma init_results : forall w, results (init w) = [].
Proof. reflexivity. Qed.

Lemma init_views : forall w, views (init w) = [].
Proof. reflexivity. Qed.

(* ---------------------------------------------------------------- results and stop after a step *)

Lemma step_results : forall w s l s', Inv w s -> step w s l = Some s' ->
  results s' = results s ++ match l with Complete x true => [x] | _ => [] end.
Proof.
  intros w s l s' I H. pose proof (i_vseq w s I) as Hseq. destruct l as [t | t [|] |].
  - apply step_dispatch_inv in H. destruct H as [_ [_ [_ ->]]].
    cbn [freeze results]. rewrite (d_results s t Hseq). rewrite app_nil_r. auto.
  - apply step_complete_inv in H. destruct H as [_ [_ [_ [_ ->]]]].
    cbn [freeze results]. apply (co_results w s t Hseq).
  - apply step_complete_inv in H. destruct H as [_ [_ [_ [_ ->]]]].
    cbn [freeze results complete_fail]. rewrite app_nil_r. auto.
  - apply step_cancel_inv in H. destruct H as [_ [_ [_ ->]]]. cbn [results]. rewrite app_nil_r. auto.
Qed.

Lemma step_stop : forall w s l s', Inv w s -> step w s l = Some s' ->
  stop s' = match l with
            | Dispatch _ => None
            | Complete _ false => Some StopFailed
            | Cancel => Some StopCancelled
            | Complete _ true =>
              match check_cycle (Dp s') (known s') with Some false => None | _ => Some StopCycle end
            end.
Proof.
  intros w s l s' I H. pose proof (i_vseq w s I) as Hseq. destruct l as [t | t [|] |].
  - apply step_dispatch_inv in H. destruct H as [Hs [_ [_ ->]]].
    cbn [freeze stop]. rewrite (d_stop s t Hseq). auto.
  - apply step_complete_inv in H. destruct H as [Hs [_ [_ [_ ->]]]].
    cbn [freeze stop known]. rewrite (co_stop w s t Hseq), Hs.
    rewrite (co_known w s t Hseq).
    erewrite check_cycle_ext; [reflexivity|].
    intros x. cbv beta. rewrite Dp_freeze. apply (co_Dp4 w s t Hseq).
  - apply step_complete_inv in H. destruct H as [_ [_ [_ [_ ->]]]]. reflexivity.
  - apply step_cancel_inv in H. destruct H as [_ [_ [_ ->]]]. reflexivity.
Qed.

(* ---------------------------------------------------------------- trace invariant *)

Record TInv (tr : list label) (s : cstate) : Prop := {
  t_res : results s = okc tr;
  t_disp : forall x, count (Dispatch x) tr = if le_readyb (St s x) then 0 else 1;
  t_comp : forall x, count (Complete x true) tr + count (Complete x false) tr =
                     if doneb (St s x) then 1 else 0 }.

Theorem run_tinv : forall w tr s, run w tr = Some s -> TInv tr s.
Proof.
  intros w. apply (run_ind w TInv).
  - constructor.
    + reflexivity.
    + intros x. rewrite init_le_ready. reflexivity.
    + intros x. pose proof (init_le_ready w x) as H. destruct (St (init w) x); simpl in *; auto; discriminate.
  - intros tr s l s' Hrun T H. pose proof (run_inv w tr s Hrun) as I.
    constructor.
    + rewrite (step_results w s l s' I H), okc_app, (t_res tr s T). f_equal.
      destruct l as [t | t [|] |]; reflexivity.
    + intros x. rewrite count_snoc, (t_disp tr s T x).
      destruct l as [t | t [|] |]; cbn [label_eqb].
      * rewrite (step_St_dispatch w s t s' I H x). pose proof H as H'.
        apply step_dispatch_inv in H'. destruct H' as [_ [_ [HR _]]].
        destruct (Nat.eqb_spec x t) as [-> | _]; [rewrite HR; reflexivity | lia].
      * destruct (step_St_ok w s t s' I H) as [Ht Ho]. pose proof H as H'.
        apply step_complete_inv in H'. destruct H' as [_ [_ [_ [HR _]]]].
        destruct (Nat.eq_dec x t) as [-> | Hne]; [rewrite Ht, HR; reflexivity|].
        destruct (Ho x Hne) as [E | [E1 E2]]; [rewrite E; lia | rewrite E1, E2; reflexivity].
      * rewrite (step_St_fail w s t s' H x). pose proof H as H'.
        apply step_complete_inv in H'. destruct H' as [_ [_ [_ [HR _]]]].
        destruct (Nat.eqb_spec x t) as [-> | _]; [rewrite HR; reflexivity | lia].
      * apply step_cancel_inv in H. destruct H as [_ [_ [_ ->]]]. unfold St. cbn [info]. lia.
    + intros x. rewrite !count_snoc.
      pose proof (t_comp tr s T x) as C.
      destruct l as [t | t [|] |]; cbn [label_eqb].
      * rewrite (step_St_dispatch w s t s' I H x). pose proof H as H'.
        apply step_dispatch_inv in H'. destruct H' as [_ [_ [HR _]]].
        destruct (Nat.eqb_spec x t) as [-> | _]; [rewrite HR in C; simpl in *; lia | lia].
      * destruct (step_St_ok w s t s' I H) as [Ht Ho]. pose proof H as H'.
        apply step_complete_inv in H'. destruct H' as [_ [_ [_ [HR _]]]].
        destruct (Nat.eq_dec x t) as [-> | Hne].
        -- rewrite Ht, Nat.eqb_refl. rewrite HR in C. simpl in *. lia.
        -- destruct (Nat.eqb_spec x t); [contradiction|]. simpl.
           destruct (Ho x Hne) as [E | [E1 E2]]; [rewrite E; lia | rewrite E1 in C; rewrite E2; simpl in *; lia].
      * rewrite (step_St_fail w s t s' H x). pose proof H as H'.
        apply step_complete_inv in H'. destruct H' as [_ [_ [_ [HR _]]]].
        destruct (Nat.eqb_spec x t) as [-> | _]; simpl.
        -- rewrite HR in C. simpl in *. lia.
        -- lia.
      * apply step_cancel_inv in H. destruct H as [_ [_ [_ ->]]]. unfold St in *. cbn [info]. lia.
Qed.

(* ---------------------------------------------------------------- at_most_once *)

Theorem at_most_once : forall w tr s, run w tr = Some s ->
  forall x, count (Dispatch x) tr <= 1 /\
            count (Complete x true) tr + count (Complete x false) tr <= 1.
Proof.
  intros w tr s H x. pose proof (run_tinv w tr s H) as T. split.
  - rewrite (t_disp tr s T x). destruct (le_readyb (St s x)); lia.
  - rewrite (t_comp tr s T x). destruct (doneb (St s x)); lia.
Qed.

(* a completion is preceded by the dispatch of the same task *)
Theorem complete_after_dispatch : forall w tr1 x ok tr2 s,
  run w (tr1 ++ Complete x ok :: tr2) = Some s -> In (Dispatch x) tr1.
Proof.
  intros w tr1 x ok tr2 s H.
  apply run_prefix in H. destruct H as [s1 [H1 H2]]. simpl in H2.
  destruct (step w s1 (Complete x ok)) as [s2|] eqn:E; [|discriminate].
  apply step_complete_inv in E. destruct E as [_ [_ [_ [HR _]]]].
  pose proof (run_tinv w tr1 s1 H1) as T. pose proof (t_disp tr1 s1 T x) as D.
  rewrite HR in D. simpl in D. apply count_pos_In. lia.
Qed.

(* ---------------------------------------------------------------- start_after_deps *)

(* When a task is Ready (or further), every reference it makes - late ones
   included - is visible and every task it refers to has completed successfully. *)
Lemma started_deps_done : forall w s t, wf_closed w -> Inv w s ->
  In t (known s) -> St s t = Ready ->
  forall d a, In (d, a) (deps w t) -> d <> t -> In d (results s).
Proof.
  intros w s t C I Ht HR.
  assert (Hfresh : Dp s t = kdeps w (results s) t).
  { apply (i_fresh w s I t Ht). rewrite HR. reflexivity. }
  assert (Hdone : forall d, In d (kdeps w (results s) t) -> In d (results s)).
  { intros d Hd. apply (i_started w s I t d); [rewrite HR; reflexivity | rewrite Hfresh; auto]. }
  assert (G : forall a, grounded w t a -> act (results s) a = true).
  { intros a Ha. induction Ha as [| p a Hne Hin _ IH]; [reflexivity|].
    simpl. apply mem_In. apply Hdone. apply kdeps_In. exists a. auto. }
  intros d a Hin Hne. apply Hdone. apply kdeps_In. exists a. repeat split; auto.
  apply G. apply (C t d a Hin).
Qed.

Lemma dispatch_view : forall w s t s', Inv w s -> step w s (Dispatch t) = Some s' ->
  views s' = (t, results s) :: views s /\ view_of s' t = results s.
Proof.
  intros w s t s' I H. pose proof (i_vseq w s I) as Hseq.
  apply step_dispatch_inv in H. destruct H as [_ [Ht [HR ->]]].
  assert (HV : Vw (dispatch s t) t = length (results s)).
  { rewrite <- (i_cseq w s I), <- Hseq.
    destruct (d_Vw_self s t Hseq) as [E | E]; rewrite E; auto.
    apply (i_view w s I t Ht). rewrite HR. reflexivity. }
  split.
  - cbn [freeze views]. rewrite (d_views s t Hseq), HV, firstn_all. reflexivity.
  - unfold view_of. rewrite info_freeze. cbn [freeze results]. rewrite (d_results s t Hseq).
    change (ti_view (info (dispatch s t) t)) with (Vw (dispatch s t) t).
    rewrite HV. apply firstn_all.
Qed.

(* In every execution, when task t is started every task it refers to has
   completed successfully earlier in the trace, and all those results are part of
   the configuration t sees (t.v was looked up in a c.inst that contains them). *)
Theorem start_after_deps : forall w, wf_closed w ->
  forall tr1 t tr2 s, run w (tr1 ++ Dispatch t :: tr2) = Some s ->
  exists s1 s2, run w tr1 = Some s1 /\ step w s1 (Dispatch t) = Some s2 /\
    views s2 = (t, results s1) :: views s1 /\ view_of s2 t = results s1 /\
    forall d a, In (d, a) (deps w t) -> d <> t ->
      In (Complete d true) tr1 /\ In d (view_of s2 t).
Proof.
  intros w C tr1 t tr2 s H.
  apply run_prefix in H. destruct H as [s1 [H1 H2]]. simpl in H2.
  destruct (step w s1 (Dispatch t)) as [s2|] eqn:E; [|discriminate].
  pose proof (run_inv w tr1 s1 H1) as I.
  destruct (dispatch_view w s1 t s2 I E) as [V1 V2].
  exists s1, s2. repeat split; auto.
  - pose proof E as E'. apply step_dispatch_inv in E'. destruct E' as [_ [Ht [HR _]]].
    apply okc_In. rewrite <- (t_res tr1 s1 (run_tinv w tr1 s1 H1)).
    eapply started_deps_done; eauto.
  - rewrite V2. pose proof E as E'. apply step_dispatch_inv in E'. destruct E' as [_ [Ht [HR _]]].
    eapply started_deps_done; eauto.
Qed.

(* the dependency sets tools/flow reports (Task.Dependencies) are exactly the
   visible ground-truth references, for every task that has not started *)
Theorem deps_are_ground_truth : forall w tr s, run w tr = Some s ->
  forall x, In x (known s) -> le_readyb (St s x) = true ->
  forall d, In d (Dp s x) <-> exists a, In (d, a) (deps w x) /\ d <> x /\ act (results s) a = true.
Proof.
  intros w tr s H x Hx Hle d. rewrite (i_fresh w s (run_inv w tr s H) x Hx Hle). apply kdeps_In.
Qed.

(* ---------------------------------------------------------------- failure_blocks_dependants *)

(* nothing at all happens after a failure or a cancellation: runLoop has returned *)
Theorem nothing_after_failure : forall w tr1 l tr2 s,
  run w (tr1 ++ l :: tr2) = Some s -> is_fail_or_cancel l = true -> tr2 = [].
Proof.
  intros w tr1 l tr2 s H Hl.
  apply run_prefix in H. destruct H as [s1 [H1 H2]]. simpl in H2.
  destruct (step w s1 l) as [s2|] eqn:E; [|discriminate].
  pose proof (step_stop w s1 l s2 (run_inv w tr1 s1 H1) E) as Hs.
  destruct tr2 as [|l2 r]; auto. simpl in H2.
  rewrite (step_stopped w s2 l2 (match l with Cancel => StopCancelled | _ => StopFailed end)) in H2.
  - discriminate.
  - rewrite Hs. destruct l as [| ? [|] |]; simpl in Hl; try discriminate; reflexivity.
Qed.

Lemma full_deps_In : forall w x d, In d (full_deps w x) <-> exists a, In (d, a) (deps w x) /\ d <> x.
Proof.
  intros. unfold full_deps. rewrite in_map_iff. split.
  - intros [[d' a] [E H]]. simpl in E. subst d'. apply filter_In in H. destruct H as [H1 H2].
    simpl in H2. apply negb_true_iff, Nat.eqb_neq in H2. eauto.
  - intros [a [H1 H2]]. exists (d, a). split; auto. apply filter_In. split; auto.
    simpl. apply negb_true_iff, Nat.eqb_neq. auto.
Qed.

(* a task that (transitively) depends on a failed task is never started, neither
   before nor after the failure *)
Theorem failure_blocks_dependants : forall w, wf_closed w ->
  forall tr s d x, run w tr = Some s -> In (Complete d false) tr ->
  depends_on w x d -> ~ In (Dispatch x) tr.
Proof.
  intros w C tr s d x H Hf Hdep. unfold depends_on in Hdep.
  induction Hdep as [x y Hy | x z y Hz _ IH]; intros HD.
  - apply in_split in HD. destruct HD as [tr1 [tr2 ->]].
    destruct (start_after_deps w C tr1 x tr2 s H) as [s1 [s2 [_ [_ [_ [_ Hd]]]]]].
    apply full_deps_In in Hy. destruct Hy as [a [Ha Hne]].
    destruct (Hd y a Ha Hne) as [Hc _].
    assert (Hc' : In (Complete y true) (tr1 ++ Dispatch x :: tr2)) by (apply in_app_iff; auto).
    destruct (at_most_once w _ s H y) as [_ Hm].
    apply count_pos_In in Hc'. apply count_pos_In in Hf. lia.
  - apply IH; auto. apply in_split in HD. destruct HD as [tr1 [tr2 ->]].
    destruct (start_after_deps w C tr1 x tr2 s H) as [s1 [s2 [_ [_ [_ [_ Hd]]]]]].
    apply full_deps_In in Hz. destruct Hz as [a [Ha Hne]].
    destruct (Hd z a Ha Hne) as [Hc _].
    apply in_split in Hc. destruct Hc as [u1 [u2 ->]].
    rewrite <- app_assoc in H. simpl in H.
    apply in_app_iff. left. apply in_app_iff. left.
    eapply complete_after_dispatch; eauto.
Qed.

(* ---------------------------------------------------------------- no_deadlock *)

(* a walk x -> l1 -> l2 -> ... along dependency edges *)
Fixpoint walk (dp : nat -> list nat) (x : nat) (l : list nat) : Prop :=
  match l with
  | [] => True
  | y :: r => In y (dp x) /\ walk dp y r
  end.

Lemma walk_app_path : forall dp l1 x y l2, walk dp x (l1 ++ y :: l2) -> path dp x y /\ walk dp y l2.
Proof.
  intros dp l1. induction l1 as [|a l1 IH]; intros x y l2 H; simpl in H.
  - destruct H as [H1 H2]. split; auto. apply path1; auto.
  - destruct H as [H1 H2]. destruct (IH a y l2 H2) as [P W]. split; auto.
    eapply pathS; eauto.
Qed.

Lemma dup_split : forall l : list nat, ~ NoDup l ->
  exists z a b c, l = a ++ z :: b ++ z :: c.
Proof.
  induction l as [|x r IH]; intros H.
  - exfalso. apply H. constructor.
  - destruct (in_dec Nat.eq_dec x r) as [Hin | Hin].
    + apply in_split in Hin. destruct Hin as [b [c ->]]. exists x, [], b, c. reflexivity.
    + assert (Hr : ~ NoDup r) by (intros Hr; apply H; constructor; auto).
      destruct (IH Hr) as [z [a [b [c ->]]]]. exists z, (x :: a), b, c. reflexivity.
Qed.

(* In a finite graph, a non-empty set of nodes each of which has a successor
   inside the set contains a cycle. *)
Lemma succ_closed_cycle : forall dp (S : nat -> Prop) ts,
  (forall x, S x -> In x ts) ->
  (forall x, S x -> exists y, In y (dp x) /\ S y) ->
  (exists x, S x) -> has_cycle dp ts.
Proof.
  intros dp S ts Hin Hsucc [x0 Hx0].
  assert (W : forall n x, S x -> exists l, length l = n /\ walk dp x l /\ Forall S l).
  { induction n as [|n IH]; intros x Hx.
    - exists []. simpl. auto.
    - destruct (Hsucc x Hx) as [y [Hy Sy]]. destruct (IH y Sy) as [l [L [Wl Fl]]].
      exists (y :: l). simpl. repeat split; auto. }
  destruct (W (length ts) x0 Hx0) as [l [L [Wl Fl]]].
  assert (ND : ~ NoDup (x0 :: l)).
  { intros ND. assert (Hincl : incl (x0 :: l) ts).
    { intros z [<- | Hz]; auto. apply Hin. rewrite Forall_forall in Fl. auto. }
    pose proof (NoDup_incl_length ND Hincl) as Hlen. simpl in Hlen. lia. }
  destruct (dup_split _ ND) as [z [a [b [c E]]]].
  assert (Sz : S z).
  { destruct a as [|a0 a]; simpl in E; inversion E; subst; auto.
    rewrite Forall_forall in Fl. apply Fl. apply in_app_iff. right. left. auto. }
  exists z. split; [apply Hin; auto|].
  destruct a as [|a0 a]; simpl in E; inversion E; subst.
  - apply (walk_app_path dp b z z c) in Wl. tauto.
  - apply (walk_app_path dp a a0 z (b ++ z :: c)) in Wl. destruct Wl as [_ Wl].
    apply (walk_app_path dp b z z c) in Wl. tauto.
Qed.

Lemma existsb_true_ex : forall (f : nat -> bool) l, existsb f l = true -> exists x, In x l /\ f x = true.
Proof. intros f l H. apply existsb_exists in H. exact H. Qed.

(* The "deadlock" branch of runLoop is unreachable: whenever no task is Ready or
   Running (and no error has been recorded), no task is Waiting either.  Holds
   for every workflow, cyclic ones included: a cycle is reported by checkCycle
   before anything can wait on it. *)
Theorem no_deadlock : forall w, wf_known w ->
  forall tr s, run w tr = Some s -> stop s = None ->
  any_ready s = false -> any_running s = false -> any_waiting s = false.
Proof.
  intros w K tr s H Hs Hr Hn.
  pose proof (run_inv w tr s H) as I.
  destruct (any_waiting s) eqn:Hw; auto. exfalso.
  apply existsb_true_ex in Hw. destruct Hw as [x0 [Hx0 Wx0]]. rewrite is_waiting_St in Wx0.
  apply (i_acyc w s I K Hs).
  apply (succ_closed_cycle (Dp s) (fun x => In x (known s) /\ waitingb (St s x) = true) (known s)).
  - intros x [Hx _]. auto.
  - intros x [Hx Wx].
    pose proof (i_wait w s I Hs x Hx Wx) as R. rewrite task_ready_St in R.
    assert (E : exists d, In d (Dp s x) /\ doneb (St s d) = false).
    { clear - R. induction (Dp s x) as [|d r IH]; simpl in R; [discriminate|].
      destruct (doneb (St s d)) eqn:E.
      - simpl in R. destruct (IH R) as [d' [H1 H2]]. exists d'. split; auto. right; auto.
      - exists d. split; auto. left; auto. }
    destruct E as [d [Hd Nd]]. exists d. split; auto.
    assert (Hdk : In d (known s)) by (apply (Dp_closed w s K I x Hx d Hd)).
    split; auto.
    unfold any_ready in Hr. rewrite existsb_false_forall in Hr. specialize (Hr d Hdk).
    unfold any_running in Hn. rewrite existsb_false_forall in Hn. specialize (Hn d Hdk).
    rewrite is_ready_St in Hr. rewrite is_running_St in Hn.
    destruct (St s d); simpl in *; try discriminate; auto.
  - exists x0. auto.
Qed.

Corollary never_deadlock_outcome : forall w, wf_known w ->
  forall tr s, run w tr = Some s -> outcome_of s <> OutDeadlock.
Proof.
  intros w K tr s H. unfold outcome_of.
  destruct (stop s) as [[| |]|] eqn:Hs; try discriminate.
  destruct (any_ready s) eqn:Hr; simpl; [discriminate|].
  destruct (any_running s) eqn:Hn; simpl; [discriminate|].
  rewrite (no_deadlock w K tr s H Hs Hr Hn). discriminate.
Qed.

(* a dependency cycle is reported instead: if the tasks that exist initially
   form a cycle, nothing is ever started and Run ends with the cycle error *)
Theorem cycle_reported_initially : forall w, wf_known w ->
  has_cycle (Dp (init w)) (known (init w)) ->
  stop (init w) = Some StopCycle /\ forall tr s, run w tr = Some s -> tr = [].
Proof.
  intros w K Hc.
  assert (Hs : stop (init w) = Some StopCycle).
  { destruct (stop (init w)) as [r|] eqn:E.
    - unfold init in E. cbn [freeze mark_ready stop] in E. rewrite it_stop in E.
      destruct (check_cycle _ _) as [[|]|]; simpl in E; inversion E; auto.
    - exfalso. apply (i_acyc w (init w) (inv_init w) K E). exact Hc. }
  split; auto. intros tr s H. destruct tr as [|l r]; auto.
  unfold run in H. simpl in H. rewrite (step_stopped w (init w) l StopCycle Hs) in H. discriminate.
Qed.

(* ---------------------------------------------------------------- liveness *)

Lemma Dp_path_full : forall w s, Inv w s -> forall x y, path (Dp s) x y -> path (full_deps w) x y.
Proof.
  intros w s I x y H. induction H as [x y Hy | x z y Hz _ IH].
  - apply path1. destruct (i_sub w s I x y Hy) as [a [H1 [H2 _]]]. apply full_deps_In. eauto.
  - eapply pathS; eauto. destruct (i_sub w s I x z Hz) as [a [H1 [H2 _]]]. apply full_deps_In. eauto.
Qed.

Lemma known_all_tasks : forall w s x, Inv w s -> In x (known s) -> In x (all_tasks w).
Proof.
  intros w s x I Hx. apply (i_known w s I) in Hx. unfold all_tasks. apply in_seq. lia.
Qed.

(* in an acyclic workflow checkCycle never reports an error *)
Lemma acyclic_check_false : forall w s, wf_known w -> acyclic w -> Inv w s ->
  check_cycle (Dp s) (known s) = Some false.
Proof.
  intros w s K A I. apply check_cycle_false_iff.
  - apply (Dp_closed w s K I).
  - intros [t [Ht Hp]]. apply A. exists t. split.
    + apply (known_all_tasks w s t I Ht).
    + apply (Dp_path_full w s I). auto.
Qed.

Lemma init_stop : forall w,
  stop (init w) = match check_cycle (Dp (init w)) (known (init w)) with
                  | Some false => None | _ => Some StopCycle end.
Proof.
  intros w. unfold init at 1. cbn [freeze mark_ready stop]. rewrite it_stop.
  cbn [empty_state stop].
  erewrite check_cycle_ext; [reflexivity|].
  intros x. cbv beta. unfold init. rewrite Dp_freeze, mr_Dp. reflexivity.
Qed.

Theorem acyclic_never_stops : forall w, wf_known w -> acyclic w ->
  forall tr s, run w tr = Some s -> all_ok tr -> stop s = None.
Proof.
  intros w K A. apply (run_ind w (fun tr s => all_ok tr -> stop s = None)).
  - intros _. rewrite init_stop. rewrite (acyclic_check_false w (init w) K A (inv_init w)). auto.
  - intros tr s l s' Hrun IH H Hok.
    pose proof (run_inv w tr s Hrun) as I.
    rewrite (step_stop w s l s' I H).
    assert (Hl : is_fail_or_cancel l = false) by (apply Hok; apply in_app_iff; right; left; auto).
    destruct l as [t | t [|] |]; simpl in Hl; try discriminate; auto.
    rewrite (acyclic_check_false w s' K A (step_inv w s _ s' I H)). auto.
Qed.

Lemma sum_change : forall (f g : nat -> nat) l t, NoDup l -> In t l ->
  (forall x, x <> t -> g x = f x) -> f t = S (g t) ->
  list_sum (map f l) = S (list_sum (map g l)).
Proof.
  intros f g l t. induction l as [|a l IH]; intros ND Hin Hext Ht; [destruct Hin|].
  inversion ND; subst. simpl. destruct Hin as [-> | Hin].
  - rewrite Ht. simpl. f_equal. f_equal. f_equal.
    apply map_ext_in. intros x Hx. symmetry. apply Hext. intros ->. auto.
  - rewrite (IH H2 Hin Hext Ht). rewrite (Hext a) by (intros ->; auto). lia.
Qed.

Lemma sum_const : forall (f : nat -> nat) c l, (forall x, In x l -> f x = c) ->
  list_sum (map f l) = c * length l.
Proof.
  intros f c l. induction l as [|a l IH]; intros H; simpl; [lia|].
  rewrite H by (left; auto). rewrite IH by (intros; apply H; right; auto). lia.
Qed.

Lemma measure_init : forall w, measure w (init w) = 2 * length w.
Proof.
  intros w. unfold measure. rewrite (sum_const _ 2).
  - unfold all_tasks. rewrite seq_length. auto.
  - intros x _. pose proof (init_le_ready w x) as H. unfold St in H.
    destruct (ti_state (info (init w) x)); simpl in *; auto; discriminate.
Qed.

(* every Dispatch and every successful completion lowers the measure by exactly one *)
Lemma measure_step : forall w s l s', Inv w s -> step w s l = Some s' ->
  is_fail_or_cancel l = false -> measure w s = S (measure w s').
Proof.
  intros w s l s' I H Hl. unfold measure.
  destruct l as [t | t [|] |]; simpl in Hl; try discriminate.
  - pose proof H as H'. apply step_dispatch_inv in H'. destruct H' as [_ [Ht [HR _]]].
    apply (sum_change _ _ _ t).
    + apply seq_NoDup.
    + apply (known_all_tasks w s t I Ht).
    + intros x Hne. change (weight (St s' x) = weight (St s x)).
      rewrite (step_St_dispatch w s t s' I H x). destruct (Nat.eqb_spec x t); [contradiction|auto].
    + change (weight (St s t) = S (weight (St s' t))).
      rewrite (step_St_dispatch w s t s' I H t), Nat.eqb_refl, HR. reflexivity.
  - pose proof H as H'. apply step_complete_inv in H'. destruct H' as [_ [_ [Ht [HR _]]]].
    destruct (step_St_ok w s t s' I H) as [E Ho].
    apply (sum_change _ _ _ t).
    + apply seq_NoDup.
    + apply (known_all_tasks w s t I Ht).
    + intros x Hne. change (weight (St s' x) = weight (St s x)).
      destruct (Ho x Hne) as [E1 | [E1 E2]]; [rewrite E1; auto | rewrite E1, E2; auto].
    + change (weight (St s t) = S (weight (St s' t))). rewrite E, HR. reflexivity.
Qed.

Theorem measure_accounting : forall w tr s, run w tr = Some s -> all_ok tr ->
  length tr + measure w s = 2 * length w.
Proof.
  intros w. apply (run_ind w (fun tr s => all_ok tr -> length tr + measure w s = 2 * length w)).
  - intros _. rewrite measure_init. simpl. lia.
  - intros tr s l s' Hrun IH H Hok.
    assert (Hl : is_fail_or_cancel l = false) by (apply Hok; apply in_app_iff; right; left; auto).
    assert (Hok' : all_ok tr) by (intros l0 Hl0; apply Hok; apply in_app_iff; auto).
    rewrite app_length. simpl.
    rewrite (measure_step w s l s' (run_inv w tr s Hrun) H Hl) in IH. specialize (IH Hok'). lia.
Qed.

Lemma all_known_when_done : forall w s, wf_trig w -> Inv w s ->
  (forall x, In x (known s) -> St s x = Terminated true) ->
  forall x, x < length w -> In x (known s).
Proof.
  intros w s T I Hall x. induction x as [x IH] using lt_wf_ind. intros Hx.
  apply (i_known w s I). split; auto.
  destruct (trig w x) as [p|] eqn:E; [|reflexivity].
  simpl. apply mem_In. apply (i_res w s I).
  assert (Hp : p < x) by (apply (T x p E)).
  assert (Hk : In p (known s)) by (apply IH; lia). split; auto.
Qed.

(* A reachable state of a failure-free run is never stuck: either a Ready task
   can be dispatched, or a Running task can complete, or every task of the
   workflow has been dispatched exactly once and has completed successfully. *)
Theorem progress : forall w, wf_known w -> wf_trig w ->
  forall tr s, run w tr = Some s -> stop s = None ->
  (exists x, step w s (Dispatch x) <> None) \/
  (exists x, step w s (Complete x true) <> None) \/
  (measure w s = 0 /\
   forall x, x < length w ->
     In x (results s) /\ count (Dispatch x) tr = 1 /\ count (Complete x true) tr = 1).
Proof.
  intros w K T tr s H Hs.
  pose proof (run_inv w tr s H) as I. pose proof (run_tinv w tr s H) as TI.
  destruct (any_ready s) eqn:Hr.
  { left. apply existsb_true_ex in Hr. destruct Hr as [x [Hx Rx]]. exists x.
    unfold step. rewrite Hs. apply mem_In in Hx. rewrite Hx, Rx. discriminate. }
  destruct (any_running s) eqn:Hn.
  { right. left. apply existsb_true_ex in Hn. destruct Hn as [x [Hx Rx]]. exists x.
    unfold step. rewrite Hs, Hr. apply mem_In in Hx. rewrite Hx, Rx. discriminate. }
  right. right.
  pose proof (no_deadlock w K tr s H Hs Hr Hn) as Hw.
  assert (Hall : forall x, In x (known s) -> St s x = Terminated true).
  { intros x Hx.
    unfold any_ready in Hr. rewrite existsb_false_forall in Hr. specialize (Hr x Hx).
    unfold any_running in Hn. rewrite existsb_false_forall in Hn. specialize (Hn x Hx).
    unfold any_waiting in Hw. rewrite existsb_false_forall in Hw. specialize (Hw x Hx).
    rewrite is_ready_St in Hr. rewrite is_running_St in Hn. rewrite is_waiting_St in Hw.
    destruct (St s x) as [| | |[|]] eqn:E; simpl in *; try discriminate; auto.
    rewrite (i_failed w s I x E) in Hs. discriminate. }
  pose proof (all_known_when_done w s T I Hall) as Hk.
  split.
  - unfold measure. rewrite (sum_const _ 0); [lia|].
    intros x Hx. unfold all_tasks in Hx. apply in_seq in Hx.
    change (weight (St s x) = 0). rewrite (Hall x) by (apply Hk; lia). reflexivity.
  - intros x Hx. pose proof (Hall x (Hk x Hx)) as E.
    assert (Hres : In x (results s)) by (apply (i_res w s I); split; auto).
    split; auto. split.
    + rewrite (t_disp tr s TI x), E. reflexivity.
    + destruct (at_most_once w tr s H x) as [_ Hm].
      rewrite (t_res tr s TI) in Hres. apply okc_In, count_pos_In in Hres. lia.
Qed.

(* all_run_when_acyclic_ok: in an acyclic workflow, when no task fails and the
   context is not cancelled, under ANY completion order: no error is ever
   recorded, the state is never stuck before every task has run, and the measure
   [2 * not started + running] decreases by one with every event, so every
   execution reaches the state where all tasks have run after exactly
   2 * (number of tasks) events. *)
Theorem all_run_when_acyclic_ok : forall w, wf_known w -> wf_trig w -> acyclic w ->
  forall tr s, run w tr = Some s -> all_ok tr ->
  stop s = None /\
  length tr + measure w s = 2 * length w /\
  ((exists x, step w s (Dispatch x) <> None) \/
   (exists x, step w s (Complete x true) <> None) \/
   (length tr = 2 * length w /\
    forall x, x < length w ->
      In x (results s) /\ count (Dispatch x) tr = 1 /\ count (Complete x true) tr = 1)).
Proof.
  intros w K T A tr s H Hok.
  pose proof (acyclic_never_stops w K A tr s H Hok) as Hs.
  pose proof (measure_accounting w tr s H Hok) as Hm.
  split; auto. split; auto.
  destruct (progress w K T tr s H Hs) as [P | [P | [P1 P2]]]; auto.
  right. right. split; auto. lia.
Qed.

(* ---------------------------------------------------------------- final_config_order_free *)

Theorem results_are_ok_completions : forall w tr s, run w tr = Some s ->
  results s = okc tr /\ NoDup (results s).
Proof.
  intros w tr s H. split.
  - apply (t_res tr s (run_tinv w tr s H)).
  - apply (i_res_nodup w s (run_inv w tr s H)).
Qed.

Lemma fold_left_perm : forall (C : Type) (merge : C -> nat -> C),
  (forall c a b, merge (merge c a) b = merge (merge c b) a) ->
  forall l1 l2, Permutation l1 l2 -> forall c, fold_left merge l1 c = fold_left merge l2 c.
Proof.
  intros C merge Hc l1 l2 P. induction P; intros c; simpl; auto.
  - rewrite Hc. reflexivity.
  - rewrite IHP1. apply IHP2.
Qed.

(* The configuration is the initial one merged with the results in arrival order.
   Two executions in which the same tasks completed successfully merge the same
   multiset of results; hence, for any merge operation for which the order of two
   results does not matter (unification: C01), the same final configuration. *)
Theorem final_config_order_free : forall w tr1 tr2 s1 s2,
  run w tr1 = Some s1 -> run w tr2 = Some s2 ->
  (forall x, In (Complete x true) tr1 <-> In (Complete x true) tr2) ->
  Permutation (results s1) (results s2) /\
  forall (C : Type) (merge : C -> nat -> C) (c0 : C),
    (forall c a b, merge (merge c a) b = merge (merge c b) a) ->
    fold_left merge (results s1) c0 = fold_left merge (results s2) c0.
Proof.
  intros w tr1 tr2 s1 s2 H1 H2 Hsame.
  destruct (results_are_ok_completions w tr1 s1 H1) as [E1 N1].
  destruct (results_are_ok_completions w tr2 s2 H2) as [E2 N2].
  assert (P : Permutation (results s1) (results s2)).
  { apply NoDup_Permutation; auto. intros x. rewrite E1, E2, !okc_In. apply Hsame. }
  split; auto. intros C merge c0 Hc. apply fold_left_perm; auto.
Qed.

(* complete failure-free executions of an acyclic workflow: all tasks' results,
   whatever the completion order *)
Theorem final_config_complete_runs : forall w, wf_known w -> wf_trig w -> acyclic w ->
  forall tr1 tr2 s1 s2,
  run w tr1 = Some s1 -> run w tr2 = Some s2 -> all_ok tr1 -> all_ok tr2 ->
  outcome_of s1 = OutOk -> outcome_of s2 = OutOk ->
  Permutation (results s1) (all_tasks w) /\ Permutation (results s1) (results s2).
Proof.
  intros w K T A tr1 tr2 s1 s2 H1 H2 O1 O2 F1 F2.
  assert (G : forall tr s, run w tr = Some s -> all_ok tr -> outcome_of s = OutOk ->
              Permutation (results s) (all_tasks w)).
  { intros tr s H Hok F.
    pose proof (acyclic_never_stops w K A tr s H Hok) as Hs.
    unfold outcome_of in F. rewrite Hs in F.
    destruct (any_ready s) eqn:Hr; simpl in F; [discriminate|].
    destruct (any_running s) eqn:Hn; simpl in F; [discriminate|].
    destruct (progress w K T tr s H Hs) as [[x P] | [[x P] | [_ P]]].
    - exfalso. apply P. unfold step. rewrite Hs.
      destruct (mem x (known s) && is_ready_st (info s x)) eqn:E; auto.
      apply andb_prop in E. destruct E as [E1 E2]. apply mem_In in E1.
      rewrite is_ready_St, (any_ready_false s Hr x E1) in E2. discriminate.
    - exfalso. apply P. unfold step. rewrite Hs, Hr. simpl.
      destruct (mem x (known s) && is_running (info s x)) eqn:E; auto.
      apply andb_prop in E. destruct E as [E1 E2]. apply mem_In in E1.
      unfold any_running in Hn. rewrite existsb_false_forall in Hn. rewrite (Hn x E1) in E2. discriminate.
    - apply NoDup_Permutation.
      + apply (i_res_nodup w s (run_inv w tr s H)).
      + apply seq_NoDup.
      + intros x. unfold all_tasks. rewrite in_seq. split.
        * intros Hx. apply (i_res w s (run_inv w tr s H)) in Hx. destruct Hx as [Hx _].
          apply (i_known w s (run_inv w tr s H)) in Hx. lia.
        * intros Hx. apply P. lia. }
  split.
  - apply (G tr1 s1 H1 O1 F1).
  - eapply Permutation_trans; [apply (G tr1 s1 H1 O1 F1)|]. apply Permutation_sym. apply (G tr2 s2 H2 O2 F2).
Qed.

(* ---------------------------------------------------------------- executable side conditions *)

Lemma opt_eqb_eq : forall a b, opt_eqb a b = true -> a = b.
Proof.
  intros [x|] [y|]; simpl; intros H; try discriminate; auto.
  apply Nat.eqb_eq in H. subst; auto.
Qed.

Lemma deps_nil_out : forall w t, length w <= t -> deps w t = [].
Proof.
  intros w t H. unfold deps. destruct (nth_error w t) eqn:E; auto.
  apply nth_error_None in H. congruence.
Qed.

Lemma trig_none_out : forall w t, length w <= t -> trig w t = None.
Proof.
  intros w t H. unfold trig. destruct (nth_error w t) eqn:E; auto.
  apply nth_error_None in H. congruence.
Qed.

Lemma wf_known_b_sound : forall w, wf_known_b w = true -> wf_known w.
Proof.
  intros w H t d a Hin. unfold wf_known_b in H. rewrite forallb_forall in H.
  destruct (Nat.lt_ge_cases t (length w)) as [Ht | Ht].
  - assert (Hs : In t (all_tasks w)) by (unfold all_tasks; apply in_seq; lia).
    specialize (H t Hs). rewrite forallb_forall in H. specialize (H (d, a) Hin). simpl in H.
    apply andb_prop in H. destruct H as [H1 H2]. apply Nat.ltb_lt in H1. split; auto.
    apply orb_prop in H2. destruct H2 as [H2 | H2]; apply opt_eqb_eq in H2; auto.
  - rewrite (deps_nil_out w t Ht) in Hin. destruct Hin.
Qed.

Lemma wf_trig_b_sound : forall w, wf_trig_b w = true -> wf_trig w.
Proof.
  intros w H t p E. unfold wf_trig_b in H. rewrite forallb_forall in H.
  destruct (Nat.lt_ge_cases t (length w)) as [Ht | Ht].
  - assert (Hs : In t (all_tasks w)) by (unfold all_tasks; apply in_seq; lia).
    specialize (H t Hs). rewrite E in H. apply Nat.ltb_lt in H. auto.
  - rewrite (trig_none_out w t Ht) in E. discriminate.
Qed.

Lemma grounded_b_sound : forall w t f a, grounded_b w t f a = true -> grounded w t a.
Proof.
  intros w t f. induction f as [|f IH]; intros [p|] H; simpl in H; try discriminate; try constructor.
  apply andb_prop in H. destruct H as [H1 H2]. apply negb_true_iff, Nat.eqb_neq in H1.
  apply existsb_exists in H2. destruct H2 as [[d a] [Hin H2]]. simpl in H2.
  apply andb_prop in H2. destruct H2 as [H2 H3]. apply Nat.eqb_eq in H2. subst d.
  eapply g_some; eauto.
Qed.

Lemma wf_closed_b_sound : forall w, wf_closed_b w = true -> wf_closed w.
Proof.
  intros w H t d a Hin. unfold wf_closed_b in H. rewrite forallb_forall in H.
  destruct (Nat.lt_ge_cases t (length w)) as [Ht | Ht].
  - assert (Hs : In t (all_tasks w)) by (unfold all_tasks; apply in_seq; lia).
    specialize (H t Hs). rewrite forallb_forall in H. specialize (H (d, a) Hin). simpl in H.
    eapply grounded_b_sound; eauto.
  - rewrite (deps_nil_out w t Ht) in Hin. destruct Hin.
Qed.

Lemma acyclic_b_sound : forall w, wf_known w -> acyclic_b w = true -> acyclic w.
Proof.
  intros w K H. unfold acyclic_b in H. unfold acyclic.
  apply (check_cycle_false_iff (full_deps w) (all_tasks w)).
  - intros x Hx d Hd. apply full_deps_In in Hd. destruct Hd as [a [Ha _]].
    destruct (K x d a Ha) as [Hlt _]. unfold all_tasks. apply in_seq. lia.
  - destruct (check_cycle (full_deps w) (all_tasks w)) as [[|]|]; try discriminate; auto.
Qed.
