(* What C18 demands of the controller, in terms of the ground-truth workflow:
   side conditions on workflows (the domain in which the model mirrors what
   tools/flow's dependency analysis produces) and trace-level notions. *)
From Verif Require Import Flow.Model Flow.CycleProofs.
From Coq Require Import List Bool Arith PeanoNat.
Import ListNotations.

(* Every referenced task is a task of the workflow, and a reference to a late
   task becomes visible exactly when that task comes into existence (tools/flow
   can only record a dependency on a Task that exists). *)
Definition wf_known (w : workflow) : Prop :=
  forall t d a, In (d, a) (deps w t) -> d < length w /\ (trig w d = None \/ trig w d = a).

(* A late task is spawned by a task with a smaller index (no task spawns itself,
   directly or indirectly): every task can come into existence. *)
Definition wf_trig (w : workflow) : Prop :=
  forall t p, trig w t = Some p -> p < t.

(* The task whose completion makes a reference of t visible is itself a task t
   depends on, through a reference that is visible earlier (for instance: t
   iterates over a group of tasks generated from p's output, so it refers to p). *)
Inductive grounded (w : workflow) (t : nat) : option nat -> Prop :=
| g_none : grounded w t None
| g_some : forall p a, p <> t -> In (p, a) (deps w t) -> grounded w t a -> grounded w t (Some p).

Definition wf_closed (w : workflow) : Prop :=
  forall t d a, In (d, a) (deps w t) -> grounded w t a.

(* the full (ground-truth) dependency graph, late references included *)
Definition full_deps (w : workflow) (t : nat) : list nat :=
  map fst (filter (fun e => negb (Nat.eqb (fst e) t)) (deps w t)).

Definition all_tasks (w : workflow) : list nat := seq 0 (length w).

Definition acyclic (w : workflow) : Prop := ~ has_cycle (full_deps w) (all_tasks w).

(* t (transitively) depends on d *)
Definition depends_on (w : workflow) (t d : nat) : Prop := path (full_deps w) t d.

(* ---- executable versions (used by Examples and by the correspondence check
        to count how many generated workflows satisfy the hypotheses) ---- *)

Definition opt_eqb (a b : option nat) : bool :=
  match a, b with
  | None, None => true
  | Some x, Some y => Nat.eqb x y
  | _, _ => false
  end.

Definition wf_known_b (w : workflow) : bool :=
  forallb (fun t =>
    forallb (fun e => Nat.ltb (fst e) (length w) &&
                      (opt_eqb (trig w (fst e)) None || opt_eqb (trig w (fst e)) (snd e)))
            (deps w t))
    (all_tasks w).

Definition wf_trig_b (w : workflow) : bool :=
  forallb (fun t => match trig w t with None => true | Some p => Nat.ltb p t end) (all_tasks w).

Fixpoint grounded_b (w : workflow) (t : nat) (fuel : nat) (a : option nat) : bool :=
  match a with
  | None => true
  | Some p =>
    match fuel with
    | O => false
    | S f => negb (Nat.eqb p t) &&
             existsb (fun e => Nat.eqb (fst e) p && grounded_b w t f (snd e)) (deps w t)
    end
  end.

Definition wf_closed_b (w : workflow) : bool :=
  forallb (fun t => forallb (fun e => grounded_b w t (length w) (snd e)) (deps w t)) (all_tasks w).

Definition acyclic_b (w : workflow) : bool :=
  match check_cycle (full_deps w) (all_tasks w) with Some false => true | _ => false end.

(* ---- traces ---- *)

Definition is_fail_or_cancel (l : label) : bool :=
  match l with Complete _ false => true | Cancel => true | _ => false end.

(* no task fails and the context is not cancelled *)
Definition all_ok (tr : list label) : Prop := forall l, In l tr -> is_fail_or_cancel l = false.

Definition label_eqb (a b : label) : bool :=
  match a, b with
  | Dispatch x, Dispatch y => Nat.eqb x y
  | Complete x o, Complete y p => Nat.eqb x y && Bool.eqb o p
  | Cancel, Cancel => true
  | _, _ => false
  end.

Definition count (l : label) (tr : list label) : nat := length (filter (label_eqb l) tr).

(* weight of a task in the termination measure: not started 2, running 1, done 0 *)
Definition weight (st : tstate) : nat :=
  match st with Waiting | Ready => 2 | Running => 1 | Terminated _ => 0 end.

Definition measure (w : workflow) (s : cstate) : nat :=
  list_sum (map (fun t => weight (ti_state (info s t))) (all_tasks w)).
