(* Model of /repo/tools/flow: the controller state machine of run.go (runLoop,
   markReady, updateValue, updateTaskValue, updateTaskResults), the task
   discovery / dependency bookkeeping of tasks.go (initTasks, getTask, addDep) as
   far as the run loop depends on it, and the cycle checker of cycle.go.

   A workflow is given by its GROUND-TRUTH dependency structure (what the
   reference analysis of tasks.go + internal/core/dep is expected to compute):

     - task i is the i-th element of the list;
     - [t_trig = Some p]: the task is "late": it only exists in the configuration
       once task p has completed successfully and filled its value (a
       comprehension over p's output generates it); [None]: it exists initially;
     - [t_deps]: pairs (d, a): the task refers to task d; the reference is
       visible to the dependency analysis from the start (a = None) or only once
       task a has completed successfully (a = Some p: it is made through a field
       generated from p's output, e.g. a reference to a late task).

   The environment chooses which Running task completes next and with which
   outcome, and may cancel the context; everything else is the controller's
   deterministic reaction.  One labelled step per event:

     Dispatch t      runLoop: case Ready: t.state = Running; updateTaskValue(t); go run
     Complete t ok   runLoop: case t := <-c.taskCh  (ok = (t.err == nil))
     Cancel          runLoop: case <-c.context.Done()

   Not modelled (see design/C18.md): Service tasks / deferred tasks / ForkRunLoop,
   InferTasks, IgnoreConcrete, tasks that disappear from the configuration
   ([!t.v.Exists()]), tasks that complete without calling Fill, errors returned by
   UpdateFunc. *)
From Coq Require Import List Bool Arith PeanoNat.
Import ListNotations.

(* ------------------------------------------------------------------ *)
(* cycle.go                                                            *)

Definition mem (x : nat) (l : list nat) : bool := existsb (Nat.eqb x) l.

Section Cycle.
  (* depTasks of a task (by index) *)
  Variable dp : nat -> list nat.

  (* cycleChecker.isCyclic(t), called with visited[t] = false (both call sites
     guarantee it).  [st] is cc.stack, which holds exactly the tasks with
     visited[i] = true.  Result: Some true = "return true" (a cycle error was
     added: no task is a Service here), Some false = "return false" (stack and
     visited restored), None = out of fuel.

       cc.visited[i] = true; cc.stack = append(cc.stack, t)
       for _, d := range t.depTasks {
           if !cc.visited[d.index] && cc.isCyclic(d) { return true }
           else if cc.visited[d.index] { cc.addCycleError(t); return true }
       }
       cc.stack = cc.stack[:len(cc.stack)-1]; cc.visited[i] = false; return false

     After a recursive call that returned false, visited[d.index] is false
     again, so the [else if] is not taken. *)
  Fixpoint is_cyclic (fuel : nat) (st : list nat) (t : nat) : option bool :=
    match fuel with
    | O => None
    | S f =>
      let st' := t :: st in
      (fix scan (ds : list nat) : option bool :=
         match ds with
         | [] => Some false
         | d :: r =>
           if mem d st' then Some true
           else match is_cyclic f st' d with
                | Some true => Some true
                | Some false => scan r
                | None => None
                end
         end) (dp t)
    end.

  (* checkCycle: slices.ContainsFunc(a, cc.isCyclic); err != nil iff some call returned true *)
  Fixpoint check_cycle_from (fuel : nat) (ts : list nat) : option bool :=
    match ts with
    | [] => Some false
    | t :: r =>
      match is_cyclic fuel [] t with
      | Some true => Some true
      | Some false => check_cycle_from fuel r
      | None => None
      end
    end.
End Cycle.

(* the fuel the controller model uses: one more than the number of tasks *)
Definition check_cycle (dp : nat -> list nat) (ts : list nat) : option bool :=
  check_cycle_from dp (S (length ts)) ts.

(* ------------------------------------------------------------------ *)
(* workflows                                                           *)

Record task := mkTask {
  t_deps : list (nat * option nat);
  t_trig : option nat }.

Definition workflow := list task.

Definition deps (w : workflow) (i : nat) : list (nat * option nat) :=
  match nth_error w i with Some t => t_deps t | None => [] end.

Definition trig (w : workflow) (i : nat) : option nat :=
  match nth_error w i with Some t => t_trig t | None => None end.

(* ------------------------------------------------------------------ *)
(* controller state                                                    *)

(* flow.State; Terminated carries (t.err == nil) *)
Inductive tstate := Waiting | Ready | Running | Terminated (ok : bool).

Inductive stop_reason :=
| StopFailed      (* a task returned an error: addErr; return *)
| StopCancelled   (* <-c.context.Done(): return *)
| StopCycle.      (* checkCycle reported an error: c.errs != nil ends the loop *)

Record tinfo := mkInfo {
  ti_state : tstate;
  ti_deps : list nat;      (* t.depTasks *)
  ti_cseq : nat;           (* t.conjunctSeq *)
  ti_vseq : option nat;    (* t.valueSeq; None is the initial -1 *)
  ti_view : nat }.         (* number of results folded into the c.inst that t.v was looked up in *)

Record cstate := mkState {
  known : list nat;                 (* c.tasks, in discovery order *)
  info : nat -> tinfo;
  results : list nat;               (* tasks whose result conjunct was appended to c.conjuncts, in arrival order *)
  cseq : nat;                       (* c.conjunctSeq *)
  vseq : nat;                       (* c.valueSeqNum = number of results folded into c.inst *)
  views : list (nat * list nat);    (* log: (t, results contained in t.v) at each dispatch, latest first *)
  stop : option stop_reason }.

Definition info0 : tinfo := mkInfo Waiting [] 0 None 0.

Definition upd (f : nat -> tinfo) (t : nat) (v : tinfo) : nat -> tinfo :=
  fun x => if Nat.eqb x t then v else f x.

Definition set_state (i : tinfo) (st : tstate) : tinfo :=
  mkInfo st (ti_deps i) (ti_cseq i) (ti_vseq i) (ti_view i).

Definition is_waiting (i : tinfo) := match ti_state i with Waiting => true | _ => false end.
Definition is_ready_st (i : tinfo) := match ti_state i with Ready => true | _ => false end.
Definition is_running (i : tinfo) := match ti_state i with Running => true | _ => false end.
(* Task.done(): t.state > Running *)
Definition is_done (i : tinfo) := match ti_state i with Terminated _ => true | _ => false end.
(* t.state <= Ready *)
Definition le_ready (i : tinfo) := match ti_state i with Waiting | Ready => true | _ => false end.

(* [tab n f] is extensionally [f] (lemma [tab_eq]); it memoises the first n values
   so that the executable model does not build ever deeper closures.  Purely an
   evaluation device: it has no counterpart in the Go code. *)
Definition tab (n : nat) (f : nat -> tinfo) : nat -> tinfo :=
  let l := map f (seq 0 n) in
  fun x => if Nat.ltb x n then nth x l info0 else f x.

Definition freeze (n : nat) (s : cstate) : cstate :=
  mkState (known s) (tab n (info s)) (results s) (cseq s) (vseq s) (views s) (stop s).

(* a reference is visible to the dependency analysis *)
Definition act (res : list nat) (a : option nat) : bool :=
  match a with None => true | Some p => mem p res end.

(* The tasks that markTaskDependencies finds for t in a configuration that
   contains the results [res] (addDep ignores dep == t).  The set grows with
   [res], so "accumulate with addDep" and "recompute" coincide. *)
Definition kdeps (w : workflow) (res : list nat) (t : nat) : list nat :=
  map fst (filter (fun e => act res (snd e) && negb (Nat.eqb (fst e) t)) (deps w t)).

(* Task.isReady() *)
Definition task_ready (s : cstate) (t : nat) : bool :=
  forallb (fun d => is_done (info s d)) (ti_deps (info s t)).

Definition any_ready (s : cstate) : bool := existsb (fun t => is_ready_st (info s t)) (known s).
Definition any_running (s : cstate) : bool := existsb (fun t => is_running (info s t)) (known s).
Definition any_waiting (s : cstate) : bool := existsb (fun t => is_waiting (info s t)) (known s).

(* markReady: for x in c.tasks: if x.state == Waiting && x.isReady() { x.state = Ready } *)
Definition mark_ready (s : cstate) : cstate :=
  mkState (known s)
          (fun x => if mem x (known s) && is_waiting (info s x) && task_ready s x
                    then set_state (info s x) Ready else info s x)
          (results s) (cseq s) (vseq s) (views s) (stop s).

(* updateValue: recompute c.inst from all conjuncts unless it is up to date *)
Definition update_value (s : cstate) : bool * cstate :=
  if Nat.eqb (vseq s) (cseq s) then (false, s)
  else (true, mkState (known s) (info s) (results s) (cseq s) (cseq s) (views s) (stop s)).

(* updateTaskValue(t) *)
Definition required (s : cstate) (t : nat) : nat :=
  fold_left (fun r d => Nat.max r (ti_cseq (info s d))) (ti_deps (info s t)) (ti_cseq (info s t)).

Definition update_task_value (s : cstate) (t : nat) : cstate :=
  let req := required s t in
  let fresh := match ti_vseq (info s t) with Some q => Nat.eqb q req | None => false end in
  if fresh then s
  else
    let s1 := if Nat.ltb (vseq s) req then snd (update_value s) else s in
    mkState (known s1)
            (upd (info s1) t (mkInfo (ti_state (info s1 t)) (ti_deps (info s1 t)) (ti_cseq (info s1 t)) (Some req) (vseq s1)))
            (results s1) (cseq s1) (vseq s1) (views s1) (stop s1).

(* updateTaskResults (the task called Fill): append the conjunct, bump the sequence numbers *)
Definition update_task_results (s : cstate) (t : nat) : cstate :=
  let n := S (cseq s) in
  mkState (known s)
          (upd (info s) t (mkInfo (ti_state (info s t)) (ti_deps (info s t)) n (ti_vseq (info s t)) (ti_view (info s t))))
          (results s ++ [t]) n (vseq s) (views s) (stop s).

(* tasks that exist in the configuration but have no Task yet (findRootTasks/getTask) *)
Definition appear (w : workflow) (res : list nat) (kn : list nat) : list nat :=
  filter (fun i => negb (mem i kn) && act res (trig w i)) (seq 0 (length w)).

(* initTasks: create Tasks for new task nodes (state Waiting, valueSeq -1, t.v = the
   node in the current c.inst); getTask refreshes t.v of the tasks with
   state <= Ready; markTaskDependencies(t, t.vertex()) then finds the dependencies
   visible in t.v: current ones for those tasks, nothing new for a Running or
   Terminated task (its t.v is a node of an older c.inst, which c.nodes no longer
   maps to tasks), so their depTasks stay as they are; checkCycle. *)
Definition init_tasks (w : workflow) (s : cstate) : cstate :=
  let nw := appear w (results s) (known s) in
  let kn := known s ++ nw in
  let inf := fun x =>
    if mem x nw then mkInfo Waiting (kdeps w (results s) x) 0 None (vseq s)
    else if mem x (known s) && le_ready (info s x)
         then mkInfo (ti_state (info s x)) (kdeps w (results s) x) (ti_cseq (info s x)) (ti_vseq (info s x)) (vseq s)
         else info s x in
  let st := match check_cycle (fun t => ti_deps (inf t)) kn with
            | Some false => stop s
            | _ => match stop s with Some r => Some r | None => Some StopCycle end
            end in
  mkState kn inf (results s) (cseq s) (vseq s) (views s) st.

(* New (initTasks(true)) followed by the start of runLoop (markReady(nil)) *)
Definition empty_state : cstate := mkState [] (fun _ => info0) [] 0 0 [] None.
Definition init (w : workflow) : cstate :=
  freeze (length w) (mark_ready (init_tasks w empty_state)).

(* ------------------------------------------------------------------ *)
(* steps                                                               *)

Inductive label :=
| Dispatch (t : nat)
| Complete (t : nat) (ok : bool)
| Cancel.

(* what t.v contains: the results folded into the c.inst it was looked up in *)
Definition view_of (s : cstate) (t : nat) : list nat := firstn (ti_view (info s t)) (results s).

Definition dispatch (s : cstate) (t : nat) : cstate :=
  let s1 := mkState (known s) (upd (info s) t (set_state (info s t) Running))
                    (results s) (cseq s) (vseq s) (views s) (stop s) in
  let s2 := update_task_value s1 t in
  mkState (known s2) (info s2) (results s2) (cseq s2) (vseq s2) ((t, view_of s2 t) :: views s2) (stop s2).

Definition complete_fail (s : cstate) (t : nat) : cstate :=
  mkState (known s) (upd (info s) t (set_state (info s t) (Terminated false)))
          (results s) (cseq s) (vseq s) (views s) (Some StopFailed).

Definition complete_ok (w : workflow) (s : cstate) (t : nat) : cstate :=
  let s1 := mkState (known s) (upd (info s) t (set_state (info s t) (Terminated true)))
                    (results s) (cseq s) (vseq s) (views s) (stop s) in
  let s2 := update_task_results s1 t in
  let (b, s3) := update_value s2 in
  let s4 := if b then init_tasks w s3 else s3 in
  let s5 := update_task_value s4 t in
  mark_ready s5.

(* The run loop dispatches every Ready task before it waits for a completion
   (the order among the Ready tasks is index order in Go; it is not observable
   because each task starts on its own goroutine, so the model allows any). *)
Definition step (w : workflow) (s : cstate) (l : label) : option cstate :=
  match stop s with
  | Some _ => None
  | None =>
    match l with
    | Dispatch t =>
      if mem t (known s) && is_ready_st (info s t)
      then Some (freeze (length w) (dispatch s t)) else None
    | Complete t ok =>
      if negb (any_ready s) && mem t (known s) && is_running (info s t)
      then Some (freeze (length w) (if ok then complete_ok w s t else complete_fail s t)) else None
    | Cancel =>
      if negb (any_ready s) && any_running s
      then Some (mkState (known s) (info s) (results s) (cseq s) (vseq s) (views s) (Some StopCancelled))
      else None
    end
  end.

Fixpoint run_from (w : workflow) (s : cstate) (ls : list label) : option cstate :=
  match ls with
  | [] => Some s
  | l :: r => match step w s l with Some s' => run_from w s' r | None => None end
  end.

Definition run (w : workflow) (ls : list label) : option cstate := run_from w (init w) ls.

(* how Run ends, as far as the harness can observe it *)
Inductive outcome := OutOk | OutFailed | OutCancelled | OutCycle | OutDeadlock | OutUnfinished.

Definition outcome_of (s : cstate) : outcome :=
  match stop s with
  | Some StopFailed => OutFailed
  | Some StopCancelled => OutCancelled
  | Some StopCycle => OutCycle
  | None =>
    if any_ready s || any_running s then OutUnfinished
    else if any_waiting s then OutDeadlock      (* the "deadlock" addErr branch of runLoop *)
    else OutOk
  end.
