(* Non-vacuity: the hypotheses of the C18 theorems are met by concrete workflows
   and executions, and the side condition of start_after_deps is necessary. *)
From Verif Require Import Flow.Model Flow.CycleProofs Flow.Spec Flow.Ops Flow.Invariant Flow.Proofs.
From Coq Require Import List Bool Arith PeanoNat.
Import ListNotations.

(* 0 <- {1, 2} ; 1 spawns the late task 4 (which refers to 0); 3 waits for 2 and
   for the whole group spawned by 1 (hence for 1, and for 4 once it exists) *)
Definition ex_w : workflow :=
  [ mkTask [] None;
    mkTask [(0, None)] None;
    mkTask [(0, None)] None;
    mkTask [(1, None); (2, None); (4, Some 1); (0, Some 1)] None;
    mkTask [(0, None)] (Some 1) ].

Example ex_w_wf : wf_known ex_w /\ wf_trig ex_w /\ wf_closed ex_w /\ acyclic ex_w.
Proof.
  assert (K : wf_known ex_w) by (apply wf_known_b_sound; vm_compute; reflexivity).
  split; [exact K|]. split; [|split].
  - apply wf_trig_b_sound; vm_compute; reflexivity.
  - apply wf_closed_b_sound; vm_compute; reflexivity.
  - apply acyclic_b_sound; auto.
Qed.

Definition ex_tr1 : list label :=
  [Dispatch 0; Complete 0 true; Dispatch 1; Dispatch 2; Complete 1 true; Dispatch 4;
   Complete 2 true; Complete 4 true; Dispatch 3; Complete 3 true].

Definition ex_tr2 : list label :=
  [Dispatch 0; Complete 0 true; Dispatch 2; Dispatch 1; Complete 2 true; Complete 1 true;
   Dispatch 4; Complete 4 true; Dispatch 3; Complete 3 true].

Definition summary (w : workflow) (tr : list label) : option (outcome * list nat) :=
  match run w tr with Some s => Some (outcome_of s, results s) | None => None end.

(* two different completion orders, both accepted, both run every task once *)
Example ex_run1 : summary ex_w ex_tr1 = Some (OutOk, [0; 1; 2; 4; 3]).
Proof. vm_compute. reflexivity. Qed.

Example ex_run2 : summary ex_w ex_tr2 = Some (OutOk, [0; 2; 1; 4; 3]).
Proof. vm_compute. reflexivity. Qed.

(* the late task exists only after its trigger completed, and the task waiting
   for the group then depends on it *)
Example ex_late_appears :
  match run ex_w [Dispatch 0; Complete 0 true; Dispatch 1; Dispatch 2] with
  | Some s => (known s, Dp s 3) | None => ([], []) end = ([0; 1; 2; 3], [1; 2]) /\
  match run ex_w [Dispatch 0; Complete 0 true; Dispatch 1; Dispatch 2; Complete 1 true] with
  | Some s => (known s, Dp s 3) | None => ([], []) end = ([0; 1; 2; 3; 4], [1; 2; 4; 0]).
Proof. split; vm_compute; reflexivity. Qed.

(* starting a task whose dependencies have not all completed is not an execution *)
Example ex_reject_early_start :
  summary ex_w [Dispatch 0; Complete 0 true; Dispatch 1; Dispatch 2; Complete 1 true; Dispatch 4; Dispatch 3] = None.
Proof. vm_compute. reflexivity. Qed.

(* nor is completing a task while a Ready task has not been dispatched, or running a task twice *)
Example ex_reject_twice :
  summary ex_w [Dispatch 0; Complete 0 true; Dispatch 1; Dispatch 2; Dispatch 1] = None /\
  summary ex_w [Dispatch 0; Complete 0 true; Dispatch 1; Complete 1 true] = None.
Proof. split; vm_compute; reflexivity. Qed.

(* a failure ends the run; nothing can follow *)
Example ex_failure :
  summary ex_w [Dispatch 0; Complete 0 true; Dispatch 1; Dispatch 2; Complete 1 false] = Some (OutFailed, [0]) /\
  summary ex_w [Dispatch 0; Complete 0 true; Dispatch 1; Dispatch 2; Complete 1 false; Complete 2 true] = None.
Proof. split; vm_compute; reflexivity. Qed.

Example ex_cancel :
  summary ex_w [Dispatch 0; Complete 0 true; Dispatch 1; Dispatch 2; Cancel] = Some (OutCancelled, [0]).
Proof. vm_compute. reflexivity. Qed.

(* a cycle among the initial tasks is reported before anything runs *)
Definition ex_cyc : workflow := [ mkTask [(1, None)] None; mkTask [(2, None)] None; mkTask [(0, None)] None ].

Example ex_cycle_reported : summary ex_cyc [] = Some (OutCycle, []) /\ summary ex_cyc [Dispatch 0] = None.
Proof. split; vm_compute; reflexivity. Qed.

Example ex_cyc_has_cycle : has_cycle (full_deps ex_cyc) (all_tasks ex_cyc).
Proof.
  exists 0. split; [vm_compute; auto|].
  apply (pathS _ 0 1 0); [vm_compute; auto|].
  apply (pathS _ 1 2 0); [vm_compute; auto|].
  apply path1. vm_compute; auto.
Qed.

(* a cycle that only closes once a late task exists is reported when it appears:
   0 spawns 2; 1 waits for the group spawned by 0; 2 refers to 1 *)
Definition ex_latecyc : workflow :=
  [ mkTask [] None; mkTask [(0, None); (2, Some 0)] None; mkTask [(1, None)] (Some 0) ].

Example ex_late_cycle_reported :
  summary ex_latecyc [Dispatch 0] = Some (OutUnfinished, []) /\
  summary ex_latecyc [Dispatch 0; Complete 0 true] = Some (OutCycle, [0]).
Proof. split; vm_compute; reflexivity. Qed.

(* the cycle checker itself *)
Example ex_check_cycle :
  check_cycle (fun i => nth i [[1; 2]; [2]; []] []) [0; 1; 2] = Some false /\
  check_cycle (fun i => nth i [[1; 2]; [2]; [0]] []) [0; 1; 2] = Some true /\
  check_cycle (fun i => nth i [[0]] []) [0] = Some true.
Proof. repeat split; vm_compute; reflexivity. Qed.

(* wf_closed is necessary for start_after_deps: a task that waits for a group it
   spawns itself starts before the members of that group exist *)
Definition ex_selfgroup : workflow := [ mkTask [(1, Some 0)] None; mkTask [] (Some 0) ].

Example start_after_deps_needs_closed :
  wf_known ex_selfgroup /\ wf_closed_b ex_selfgroup = false /\
  summary ex_selfgroup [Dispatch 0] = Some (OutUnfinished, []) /\
  In (1, Some 0) (deps ex_selfgroup 0).
Proof.
  split; [apply wf_known_b_sound; vm_compute; reflexivity|].
  split; [vm_compute; reflexivity|]. split; [vm_compute; reflexivity|]. vm_compute; auto.
Qed.

(* the theorems apply to the example: instantiate them *)
Example ex_start_after_deps :
  forall tr1 tr2 s, run ex_w (tr1 ++ Dispatch 3 :: tr2) = Some s ->
  In (Complete 1 true) tr1 /\ In (Complete 2 true) tr1 /\ In (Complete 4 true) tr1.
Proof.
  intros tr1 tr2 s H.
  destruct ex_w_wf as [_ [_ [C _]]].
  destruct (start_after_deps ex_w C tr1 3 tr2 s H) as [s1 [s2 [_ [_ [_ [_ Hd]]]]]].
  repeat split.
  - apply (Hd 1 None); [vm_compute; auto | discriminate].
  - apply (Hd 2 None); [vm_compute; auto | discriminate].
  - apply (Hd 4 (Some 1)); [vm_compute; auto | discriminate].
Qed.
