(* The invariant of the controller model: holds in the initial state and is
   preserved by every step, for every workflow (no side conditions except where
   stated). *)
From Verif Require Import Flow.Model Flow.CycleProofs Flow.Spec Flow.Ops.
From Coq Require Import List Bool Arith PeanoNat Lia.
Import ListNotations.

Lemma act_mono : forall res t a, act res a = true -> act (res ++ [t]) a = true.
Proof.
  intros res t [p|]; simpl; auto. rewrite !mem_In, in_app_iff. auto.
Qed.

Lemma kdeps_In : forall w res x d,
  In d (kdeps w res x) <-> exists a, In (d, a) (deps w x) /\ d <> x /\ act res a = true.
Proof.
  intros. unfold kdeps. rewrite in_map_iff. split.
  - intros [[d' a] [E H]]. simpl in E. subst d'. apply filter_In in H. destruct H as [H1 H2].
    simpl in H2. apply andb_prop in H2. destruct H2 as [H2 H3].
    exists a. repeat split; auto. apply negb_true_iff, Nat.eqb_neq in H3. auto.
  - intros [a [H1 [H2 H3]]]. exists (d, a). split; auto. apply filter_In. split; auto.
    simpl. rewrite H3. simpl. apply negb_true_iff, Nat.eqb_neq. auto.
Qed.

Lemma path_ext : forall dp dp', (forall x, dp x = dp' x) ->
  forall x y, path dp x y -> path dp' x y.
Proof.
  intros dp dp' E x y H. induction H.
  - apply path1. rewrite <- E. auto.
  - eapply pathS; eauto. rewrite <- E. auto.
Qed.

Lemma has_cycle_ext : forall dp dp' ts, (forall x, dp x = dp' x) ->
  has_cycle dp ts -> has_cycle dp' ts.
Proof. intros dp dp' ts E [t [Ht Hp]]. exists t. split; auto. eapply path_ext; eauto. Qed.

Lemma is_cyclic_ext : forall dp dp', (forall x, dp x = dp' x) ->
  forall f st t, is_cyclic dp f st t = is_cyclic dp' f st t.
Proof.
  intros dp dp' E. induction f as [|f IH]; intros st t; auto.
  cbn [is_cyclic]. rewrite <- E. generalize (dp t) as ds.
  induction ds as [|d r IHr]; auto.
  destruct (mem d (t :: st)); auto. rewrite IH.
  destruct (is_cyclic dp' f (t :: st) d) as [[|]|]; auto.
Qed.

Lemma check_cycle_ext : forall dp dp' ts, (forall x, dp x = dp' x) ->
  check_cycle dp ts = check_cycle dp' ts.
Proof.
  intros dp dp' ts E. unfold check_cycle. generalize (S (length ts)) as f. intros f.
  induction ts as [|t r IH]; auto. cbn [check_cycle_from].
  rewrite (is_cyclic_ext dp dp' E). destruct (is_cyclic dp' f [] t) as [[|]|]; auto.
Qed.

Record Inv (w : workflow) (s : cstate) : Prop := {
  i_nodup : NoDup (known s);
  i_known : forall x, In x (known s) <-> x < length w /\ act (results s) (trig w x) = true;
  i_unknown : forall x, ~ In x (known s) -> info s x = info0;
  i_res_nodup : NoDup (results s);
  i_res : forall x, In x (results s) <-> In x (known s) /\ St s x = Terminated true;
  i_cseq : cseq s = length (results s);
  i_vseq : vseq s = cseq s;
  i_failed : forall x, St s x = Terminated false -> stop s = Some StopFailed;
  i_fresh : forall x, In x (known s) -> le_readyb (St s x) = true -> Dp s x = kdeps w (results s) x;
  i_sub : forall x d, In d (Dp s x) ->
          exists a, In (d, a) (deps w x) /\ d <> x /\ act (results s) a = true;
  i_started : forall x d, waitingb (St s x) = false -> In d (Dp s x) -> In d (results s);
  i_view : forall x, In x (known s) -> le_readyb (St s x) = true -> Vw s x = vseq s;
  i_wait : stop s = None -> forall x, In x (known s) -> waitingb (St s x) = true -> task_ready s x = false;
  i_acyc : wf_known w -> stop s = None -> ~ has_cycle (Dp s) (known s) }.

Lemma St_unknown : forall w s x, Inv w s -> ~ In x (known s) -> St s x = Waiting.
Proof. intros w s x I H. unfold St. rewrite (i_unknown w s I x H). reflexivity. Qed.

Lemma Dp_unknown : forall w s x, Inv w s -> ~ In x (known s) -> Dp s x = [].
Proof. intros w s x I H. unfold Dp. rewrite (i_unknown w s I x H). reflexivity. Qed.

(* depTasks only contains existing tasks *)
Lemma Dp_closed : forall w s, wf_known w -> Inv w s -> closed (Dp s) (known s).
Proof.
  intros w s K I x Hx d Hd.
  destruct (i_sub w s I x d Hd) as [a [H1 [H2 H3]]].
  destruct (K x d a H1) as [Hlt Htr].
  apply (i_known w s I). split; auto.
  destruct Htr as [-> | ->]; auto.
Qed.

(* ---------------------------------------------------------------- initial state *)

Lemma init_St0 : forall w x, St (init_tasks w empty_state) x = Waiting.
Proof.
  intros. rewrite it_St. destruct (mem x (appear w (results empty_state) (known empty_state))); auto.
Qed.

Lemma init_task_ready_false_or : forall w x,
  task_ready (init_tasks w empty_state) x = true -> Dp (init_tasks w empty_state) x = [].
Proof.
  intros w x H. rewrite task_ready_St in H.
  destruct (Dp (init_tasks w empty_state) x) as [|d r]; auto.
  simpl in H. rewrite init_St0 in H. discriminate.
Qed.

Lemma inv_init : forall w, Inv w (init w).
Proof.
  intros w. unfold init.
  set (s4 := init_tasks w empty_state).
  assert (Hk : known s4 = appear w [] []) by reflexivity.
  assert (HSt : forall x, St (freeze (length w) (mark_ready s4)) x = Waiting \/
                          St (freeze (length w) (mark_ready s4)) x = Ready).
  { intros x. rewrite St_freeze, mr_St. unfold s4. rewrite init_St0.
    destruct (mem x (known (init_tasks w empty_state)) && waitingb Waiting &&
              task_ready (init_tasks w empty_state) x); auto. }
  assert (HDp : forall x, Dp (freeze (length w) (mark_ready s4)) x =
                          if mem x (appear w [] []) then kdeps w [] x else []).
  { intros x. rewrite Dp_freeze, mr_Dp. unfold s4. rewrite it_Dp. simpl.
    rewrite orb_false_r. reflexivity. }
  constructor.
  - cbn [freeze mark_ready known]. rewrite Hk. apply appear_nodup.
  - intros x. cbn [freeze mark_ready known results]. rewrite Hk. rewrite appear_spec.
    simpl. intuition.
  - intros x Hx. cbn [freeze mark_ready known] in Hx. rewrite info_freeze.
    unfold mark_ready. cbn [info]. apply mem_false in Hx. rewrite Hx. simpl.
    unfold s4, init_tasks. cbn [info]. rewrite Hk in Hx.
    change (appear w (results empty_state) (known empty_state)) with (appear w [] []).
    rewrite Hx. reflexivity.
  - constructor.
  - intros x. cbn [freeze mark_ready results]. simpl. split; [intros []|].
    intros [_ H]. destruct (HSt x) as [E | E]; rewrite E in H; discriminate.
  - reflexivity.
  - reflexivity.
  - intros x H. destruct (HSt x) as [E | E]; rewrite E in H; discriminate.
  - intros x Hx _. rewrite HDp. cbn [freeze mark_ready known results] in *. rewrite Hk in Hx.
    apply mem_In in Hx. rewrite Hx. reflexivity.
  - intros x d Hd. rewrite HDp in Hd. cbn [freeze mark_ready results].
    destruct (mem x (appear w [] [])); [|destruct Hd].
    apply kdeps_In in Hd. exact Hd.
  - intros x d Hw Hd. exfalso.
    (* a task that is Ready initially has no dependencies *)
    rewrite St_freeze, mr_St in Hw. rewrite Dp_freeze, mr_Dp in Hd.
    fold s4 in Hw. unfold s4 in Hw at 2. rewrite init_St0 in Hw.
    destruct (mem x (known s4) && waitingb Waiting && task_ready s4 x) eqn:E.
    + apply andb_prop in E. destruct E as [_ E]. apply init_task_ready_false_or in E.
      fold s4 in E. rewrite E in Hd. destruct Hd.
    + unfold s4 in Hw. rewrite init_St0 in Hw. simpl in Hw. discriminate.
  - intros x Hx _. rewrite Vw_freeze, mr_Vw. unfold s4. rewrite it_Vw.
    destruct (mem x (appear w (results empty_state) (known empty_state)) ||
              mem x (known empty_state) && le_readyb (St empty_state x)); reflexivity.
  - intros _ x Hx Hw. cbn [freeze mark_ready known] in Hx.
    assert (E : task_ready (freeze (length w) (mark_ready s4)) x = task_ready s4 x).
    { rewrite <- (mr_task_ready s4 x). rewrite !task_ready_St. rewrite Dp_freeze.
      apply forallb_ext'. intros d. rewrite St_freeze. auto. }
    rewrite E. rewrite St_freeze, mr_St in Hw. apply mem_In in Hx. rewrite Hx in Hw.
    unfold s4 in Hw at 1 3. rewrite init_St0 in Hw. simpl in Hw. fold s4 in Hw.
    destruct (task_ready s4 x); auto.
  - intros K Hs.
    cbn [freeze mark_ready stop] in Hs. unfold s4 in Hs. rewrite it_stop in Hs. fold s4 in Hs.
    cbn [freeze mark_ready known].
    destruct (check_cycle (fun t => Dp s4 t) (known s4)) as [[|]|] eqn:E; try discriminate.
    intros Hc. apply (has_cycle_ext _ (fun t => Dp s4 t)) in Hc.
    + revert Hc. apply (check_cycle_false_iff (fun t => Dp s4 t) (known s4)); auto.
      intros x Hx d Hd. unfold s4 in Hd. rewrite it_Dp in Hd. simpl in Hd.
      rewrite orb_false_r in Hd. rewrite Hk in Hx. apply mem_In in Hx. rewrite Hx in Hd.
      apply kdeps_In in Hd. destruct Hd as [a [H1 [H2 H3]]].
      destruct (K x d a H1) as [Hlt Htr]. rewrite Hk. apply appear_spec.
      split; auto. split; [intros []|].
      destruct Htr as [-> | ->]; auto.
    + intros x. rewrite Dp_freeze, mr_Dp. reflexivity.
Qed.

(* ---------------------------------------------------------------- frozen states *)

Lemma task_ready_freeze : forall n s x, task_ready (freeze n s) x = task_ready s x.
Proof.
  intros. rewrite !task_ready_St, Dp_freeze. apply forallb_ext'. intros d. rewrite St_freeze. auto.
Qed.

Lemma inv_freeze : forall w n s, Inv w s -> Inv w (freeze n s).
Proof.
  intros w n s I. constructor; cbn [freeze known results cseq vseq stop].
  - apply (i_nodup w s I).
  - apply (i_known w s I).
  - intros x Hx. rewrite info_freeze. apply (i_unknown w s I x Hx).
  - apply (i_res_nodup w s I).
  - intros x. rewrite St_freeze. apply (i_res w s I).
  - apply (i_cseq w s I).
  - apply (i_vseq w s I).
  - intros x. rewrite St_freeze. apply (i_failed w s I).
  - intros x. rewrite St_freeze, Dp_freeze. apply (i_fresh w s I).
  - intros x d. rewrite Dp_freeze. apply (i_sub w s I).
  - intros x d. rewrite St_freeze, Dp_freeze. apply (i_started w s I).
  - intros x. rewrite St_freeze, Vw_freeze. apply (i_view w s I).
  - intros Hs x. rewrite St_freeze, task_ready_freeze. apply (i_wait w s I Hs).
  - intros K Hs Hc. apply (i_acyc w s I K Hs).
    eapply has_cycle_ext; [|exact Hc]. intros x. apply Dp_freeze.
Qed.

(* ---------------------------------------------------------------- step conditions *)

Lemma any_ready_false : forall s, any_ready s = false ->
  forall x, In x (known s) -> readyb (St s x) = false.
Proof.
  intros s H x Hx. unfold any_ready in H.
  rewrite existsb_false_forall in H. apply (H x Hx).
Qed.

(* ---------------------------------------------------------------- dispatch *)

Lemma inv_dispatch : forall w s t,
  Inv w s -> In t (known s) -> St s t = Ready -> Inv w (dispatch s t).
Proof.
  intros w s t I Ht HR.
  pose proof (i_vseq w s I) as Hseq.
  assert (HSt := d_St s t Hseq). assert (HDp := d_Dp s t Hseq).
  assert (Hdone : forall d, doneb (St (dispatch s t) d) = doneb (St s d)).
  { intros d. rewrite HSt. destruct (Nat.eqb_spec d t) as [-> | _]; auto. rewrite HR. auto. }
  constructor; rewrite ?(d_known s t Hseq), ?(d_results s t Hseq), ?(d_stop s t Hseq),
                       ?(d_cseq s t Hseq), ?(d_vseq s t Hseq).
  - apply (i_nodup w s I).
  - apply (i_known w s I).
  - intros x Hx.
    assert (x <> t) by (intros ->; auto).
    unfold dispatch. cbn [info].
    set (s1 := mkState (known s) (upd (info s) t (set_state (info s t) Running))
                       (results s) (cseq s) (vseq s) (views s) (stop s)).
    destruct (utv_cases s1 t Hseq) as [E | E]; rewrite E; unfold s1, upd; cbn [info];
      (destruct (Nat.eqb_spec x t); [contradiction|]); apply (i_unknown w s I x Hx).
  - apply (i_res_nodup w s I).
  - intros x. rewrite HSt. destruct (Nat.eqb_spec x t) as [-> | _].
    + rewrite (i_res w s I). rewrite HR. split; intros [_ H]; discriminate.
    + apply (i_res w s I).
  - apply (i_cseq w s I).
  - exact Hseq.
  - intros x. rewrite HSt. destruct (Nat.eqb_spec x t) as [-> | _]; [discriminate|].
    apply (i_failed w s I).
  - intros x Hx. rewrite HSt, HDp. destruct (Nat.eqb_spec x t) as [-> | _]; [discriminate|].
    apply (i_fresh w s I x Hx).
  - intros x d. rewrite HDp. apply (i_sub w s I).
  - intros x d. rewrite HSt, HDp. destruct (Nat.eqb_spec x t) as [-> | _].
    + intros _. apply (i_started w s I). rewrite HR. reflexivity.
    + apply (i_started w s I).
  - intros x Hx. rewrite HSt. destruct (Nat.eqb_spec x t) as [-> | Hne]; [discriminate|].
    rewrite (d_Vw_other s t Hseq) by auto. apply (i_view w s I x Hx).
  - intros Hs x Hx. rewrite HSt. destruct (Nat.eqb_spec x t) as [-> | _]; [discriminate|].
    intros Hw. rewrite task_ready_St, HDp.
    rewrite (forallb_ext' _ _ (fun d => doneb (St s d))) by apply Hdone.
    rewrite <- task_ready_St. apply (i_wait w s I Hs x Hx Hw).
  - intros K Hs Hc. apply (i_acyc w s I K Hs).
    eapply has_cycle_ext; [|exact Hc]. intros x. apply HDp.
Qed.

(* ---------------------------------------------------------------- complete_fail / cancel *)

Lemma inv_complete_fail : forall w s t,
  Inv w s -> stop s = None -> In t (known s) -> St s t = Running -> Inv w (complete_fail s t).
Proof.
  intros w s t I Hs Ht HR.
  constructor; cbn [complete_fail known results cseq vseq stop].
  - apply (i_nodup w s I).
  - apply (i_known w s I).
  - intros x Hx. unfold complete_fail, upd. cbn [info].
    destruct (Nat.eqb_spec x t) as [-> | _]; [contradiction|].
    apply (i_unknown w s I x Hx).
  - apply (i_res_nodup w s I).
  - intros x. rewrite cf_St. destruct (Nat.eqb_spec x t) as [-> | _].
    + rewrite (i_res w s I). rewrite HR. split; intros [_ H]; discriminate.
    + apply (i_res w s I).
  - apply (i_cseq w s I).
  - apply (i_vseq w s I).
  - auto.
  - intros x Hx. rewrite cf_St, cf_Dp. destruct (Nat.eqb_spec x t) as [-> | _]; [discriminate|].
    apply (i_fresh w s I x Hx).
  - intros x d. rewrite cf_Dp. apply (i_sub w s I).
  - intros x d. rewrite cf_St, cf_Dp. destruct (Nat.eqb_spec x t) as [-> | _].
    + intros _. apply (i_started w s I). rewrite HR. reflexivity.
    + apply (i_started w s I).
  - intros x Hx. rewrite cf_St, cf_Vw. destruct (Nat.eqb_spec x t) as [-> | _]; [discriminate|].
    apply (i_view w s I x Hx).
  - discriminate.
  - discriminate.
Qed.

Lemma inv_cancel : forall w s,
  Inv w s -> stop s = None ->
  Inv w (mkState (known s) (info s) (results s) (cseq s) (vseq s) (views s) (Some StopCancelled)).
Proof.
  intros w s I Hs.
  constructor; cbn [known results cseq vseq stop];
    try (first [apply (i_nodup w s I) | apply (i_known w s I) | apply (i_unknown w s I)
               | apply (i_res_nodup w s I) | apply (i_res w s I) | apply (i_cseq w s I)
               | apply (i_vseq w s I) | apply (i_fresh w s I) | apply (i_sub w s I)
               | apply (i_started w s I) | apply (i_view w s I) | discriminate]).
  intros x H. change (St s x = Terminated false) in H.
  rewrite (i_failed w s I x H) in Hs. discriminate.
Qed.

(* ---------------------------------------------------------------- complete_ok *)

Section InvCompleteOk.
  Variable w : workflow.
  Variable s : cstate.
  Variable t : nat.
  Hypothesis I : Inv w s.
  Hypothesis Hs : stop s = None.
  Hypothesis Hnr : any_ready s = false.
  Hypothesis Ht : In t (known s).
  Hypothesis HR : St s t = Running.

  Let Hseq := i_vseq w s I.
  Let N := co_new w s t.
  Let B := co_base w s t.
  Let s' := complete_ok w s t.

  Lemma cok_N : forall x, In x N <-> x < length w /\ ~ In x (known s) /\ act (results s ++ [t]) (trig w x) = true.
  Proof. intros x. apply appear_spec. Qed.

  Lemma cok_t_notin_N : ~ In t N.
  Proof. intros H. apply cok_N in H. tauto. Qed.

  Lemma cok_known_notin_N : forall x, In x (known s) -> mem x N = false.
  Proof. intros x Hx. apply mem_false. intros H. apply cok_N in H. tauto. Qed.

  Lemma cok_not_ready : forall x, St s x <> Ready.
  Proof.
    intros x H. destruct (in_dec Nat.eq_dec x (known s)) as [Hx | Hx].
    - pose proof (any_ready_false s Hnr x Hx) as R. rewrite H in R. discriminate.
    - rewrite (St_unknown w s x I Hx) in H. discriminate.
  Qed.

  Lemma cok_B_new : forall x, In x N -> B x = Waiting.
  Proof. intros x Hx. unfold B, co_base. fold N. apply mem_In in Hx. rewrite Hx. auto. Qed.

  Lemma cok_B_t : B t = Terminated true.
  Proof.
    unfold B, co_base. fold N. rewrite (cok_known_notin_N t Ht). rewrite Nat.eqb_refl. auto.
  Qed.

  Lemma cok_B_old : forall x, ~ In x N -> x <> t -> B x = St s x.
  Proof.
    intros x Hx Hne. unfold B, co_base. fold N. apply mem_false in Hx. rewrite Hx.
    destruct (Nat.eqb_spec x t); [contradiction|]. auto.
  Qed.

  Lemma cok_B_not_ready : forall x, B x <> Ready.
  Proof.
    intros x. destruct (in_dec Nat.eq_dec x N) as [Hx | Hx].
    - rewrite (cok_B_new x Hx). discriminate.
    - destruct (Nat.eq_dec x t) as [-> | Hne].
      + rewrite cok_B_t. discriminate.
      + rewrite (cok_B_old x Hx Hne). apply cok_not_ready.
  Qed.

  (* a task that is done just before markReady is in the new result list *)
  Lemma cok_B_done : forall d, doneb (B d) = true -> In d (results s ++ [t]).
  Proof.
    intros d Hd. rewrite in_app_iff.
    destruct (in_dec Nat.eq_dec d N) as [Hx | Hx].
    - rewrite (cok_B_new d Hx) in Hd. discriminate.
    - destruct (Nat.eq_dec d t) as [-> | Hne]; [right; left; auto|].
      rewrite (cok_B_old d Hx Hne) in Hd. left.
      destruct (St s d) as [| | |[|]] eqn:E; try discriminate.
      + apply (i_res w s I). split; auto.
        destruct (in_dec Nat.eq_dec d (known s)) as [Hk | Hk]; auto.
        rewrite (St_unknown w s d I Hk) in E. discriminate.
      + rewrite (i_failed w s I d E) in Hs. discriminate.
  Qed.

  Lemma cok_St : forall x,
    St s' x = if mem x (known s ++ N) && waitingb (B x) && task_ready s' x then Ready else B x.
  Proof.
    intros x. unfold s'. rewrite (co_St w s t Hseq). rewrite (co_task_ready w s t Hseq). reflexivity.
  Qed.

  Lemma cok_St_cases : forall x, (St s' x = B x) \/ (St s' x = Ready /\ B x = Waiting /\ task_ready s' x = true /\ In x (known s ++ N)).
  Proof.
    intros x. rewrite cok_St.
    destruct (mem x (known s ++ N) && waitingb (B x) && task_ready s' x) eqn:E; auto.
    right. apply andb_prop in E. destruct E as [E E3]. apply andb_prop in E. destruct E as [E1 E2].
    apply mem_In in E1. destruct (B x); try discriminate. auto.
  Qed.

  Lemma cok_task_ready : forall x,
    task_ready s' x = forallb (fun d => doneb (B d)) (Dp s' x).
  Proof.
    intros x. unfold s'. rewrite (co_task_ready w s t Hseq). apply (co_task_ready5 w s t Hseq).
  Qed.

  Lemma cok_refreshed : forall x, In x (known s ++ N) -> le_readyb (St s' x) = true ->
    co_refreshed w s t x = true /\ x <> t.
  Proof.
    intros x Hx Hle.
    assert (HB : le_readyb (B x) = true).
    { destruct (cok_St_cases x) as [E | [_ [E _]]]; rewrite E in *; auto. }
    unfold co_refreshed. fold N.
    destruct (in_dec Nat.eq_dec x N) as [Hn | Hn].
    - apply mem_In in Hn. rewrite Hn. split; auto. intros ->. apply mem_In in Hn.
      apply cok_t_notin_N; auto.
    - destruct (Nat.eq_dec x t) as [-> | Hne].
      + rewrite cok_B_t in HB. discriminate.
      + rewrite (cok_B_old x Hn Hne) in HB. split; auto.
        apply in_app_iff in Hx. destruct Hx as [Hx | Hx]; [|contradiction].
        apply mem_In in Hx. rewrite Hx. destruct (Nat.eqb_spec x t); [contradiction|].
        rewrite HB. apply orb_true_r.
  Qed.

  Lemma cok_not_refreshed : forall x, le_readyb (B x) = false -> co_refreshed w s t x = false.
  Proof.
    intros x HB. unfold co_refreshed. fold N.
    destruct (in_dec Nat.eq_dec x N) as [Hn | Hn].
    - rewrite (cok_B_new x Hn) in HB. discriminate.
    - apply mem_false in Hn. rewrite Hn. simpl.
      destruct (Nat.eqb_spec x t) as [-> | Hne]; [rewrite andb_false_r; auto|].
      apply mem_false in Hn. rewrite (cok_B_old x Hn Hne) in HB. rewrite HB. apply andb_false_r.
  Qed.

  Lemma inv_complete_ok : Inv w s'.
  Proof.
    assert (Hk : known s' = known s ++ N) by apply (co_known w s t Hseq).
    assert (Hr : results s' = results s ++ [t]) by apply (co_results w s t Hseq).
    assert (HDp : forall x, Dp s' x = if co_refreshed w s t x then kdeps w (results s ++ [t]) x else Dp s x)
      by apply (co_Dp w s t Hseq).
    assert (Ht_res : ~ In t (results s)).
    { intros H. apply (i_res w s I) in H. destruct H as [_ H]. rewrite HR in H. discriminate. }
    assert (Hsub : forall x d, In d (Dp s' x) ->
              exists a, In (d, a) (deps w x) /\ d <> x /\ act (results s ++ [t]) a = true).
    { intros x d Hd. rewrite HDp in Hd. destruct (co_refreshed w s t x).
      - apply kdeps_In in Hd. exact Hd.
      - destruct (i_sub w s I x d Hd) as [a [H1 [H2 H3]]]. exists a. repeat split; auto.
        apply act_mono; auto. }
    constructor; rewrite ?Hk, ?Hr.
    - (* NoDup known *)
      apply NoDup_app_intro.
      + apply (i_nodup w s I).
      + apply appear_nodup.
      + intros x Hx Hn. apply cok_N in Hn. tauto.
    - (* known iff *)
      intros x. rewrite in_app_iff. split.
      + intros [Hx | Hx].
        * apply (i_known w s I) in Hx. destruct Hx. split; auto. apply act_mono; auto.
        * apply cok_N in Hx. tauto.
      + intros [H1 H2]. destruct (in_dec Nat.eq_dec x (known s)); auto.
        right. apply cok_N. auto.
    - (* unknown *)
      intros x Hx. unfold s'. rewrite (co_info_other w s t Hseq x Hx).
      + apply (i_unknown w s I). intros H. apply Hx. apply in_app_iff. auto.
      + intros ->. apply Hx. apply in_app_iff. auto.
    - apply NoDup_snoc; auto. apply (i_res_nodup w s I).
    - (* results iff *)
      intros x. rewrite !in_app_iff. split.
      + intros [Hx | [<- | []]].
        * apply (i_res w s I) in Hx. destruct Hx as [Hx1 Hx2]. split; auto.
          assert (x <> t) by (intros ->; rewrite HR in Hx2; discriminate).
          destruct (cok_St_cases x) as [E | [_ [E _]]].
          -- rewrite E. rewrite cok_B_old; auto. intros Hn. apply cok_N in Hn. tauto.
          -- rewrite cok_B_old in E; auto; [congruence|]. intros Hn. apply cok_N in Hn. tauto.
        * split; auto. destruct (cok_St_cases t) as [E | [_ [E _]]].
          -- rewrite E. apply cok_B_t.
          -- rewrite cok_B_t in E. discriminate.
      + intros [Hx HT]. destruct (cok_St_cases x) as [E | [E _]]; [|congruence].
        rewrite E in HT. destruct (in_dec Nat.eq_dec x N) as [Hn | Hn].
        * rewrite (cok_B_new x Hn) in HT. discriminate.
        * destruct (Nat.eq_dec x t) as [-> | Hne]; [right; left; auto|].
          rewrite (cok_B_old x Hn Hne) in HT. left. apply (i_res w s I). split; auto.
          destruct Hx; auto. contradiction.
    - unfold s'. rewrite (co_cseq w s t Hseq). rewrite app_length. simpl.
      rewrite (i_cseq w s I). lia.
    - unfold s'. rewrite (co_cseq w s t Hseq), (co_vseq w s t Hseq). reflexivity.
    - (* failed *)
      intros x HT. exfalso. destruct (cok_St_cases x) as [E | [E _]]; [|congruence].
      rewrite E in HT. destruct (in_dec Nat.eq_dec x N) as [Hn | Hn].
      + rewrite (cok_B_new x Hn) in HT. discriminate.
      + destruct (Nat.eq_dec x t) as [-> | Hne]; [rewrite cok_B_t in HT; discriminate|].
        rewrite (cok_B_old x Hn Hne) in HT. rewrite (i_failed w s I x HT) in Hs. discriminate.
    - (* fresh *)
      intros x Hx Hle. destruct (cok_refreshed x Hx Hle) as [E _]. rewrite HDp, E. reflexivity.
    - exact Hsub.
    - (* started *)
      intros x d Hw Hd.
      destruct (cok_St_cases x) as [E | [E1 [E2 [E3 E4]]]].
      + rewrite E in Hw.
        assert (Hnr' : co_refreshed w s t x = false).
        { apply cok_not_refreshed. destruct (B x) eqn:EB; auto; try discriminate.
          exfalso. apply (cok_B_not_ready x). auto. }
        rewrite HDp, Hnr' in Hd. apply in_app_iff. left.
        apply (i_started w s I x d); auto.
        destruct (in_dec Nat.eq_dec x N) as [Hn | Hn].
        * rewrite (cok_B_new x Hn) in Hw. discriminate.
        * destruct (Nat.eq_dec x t) as [-> | Hne]; [rewrite HR; auto|].
          rewrite (cok_B_old x Hn Hne) in Hw. auto.
      + rewrite cok_task_ready in E3. rewrite forallb_forall in E3.
        apply cok_B_done. apply E3. auto.
    - (* view *)
      intros x Hx Hle. destruct (cok_refreshed x Hx Hle) as [E Hne].
      unfold s'. rewrite (co_Vw w s t Hseq x Hne), E. rewrite (co_vseq w s t Hseq). reflexivity.
    - (* wait *)
      intros _ x Hx Hw. rewrite cok_St in Hw.
      apply mem_In in Hx. rewrite Hx in Hw. simpl in Hw.
      destruct (waitingb (B x)) eqn:EB; simpl in Hw.
      + destruct (task_ready s' x); auto.
      + rewrite EB in Hw. discriminate.
    - (* acyclic *)
      intros K Hst.
      unfold s' in Hst. rewrite (co_stop w s t Hseq) in Hst. fold N in Hst.
      set (s4 := init_tasks w
            (mkState (known (update_task_results (mkState (known s) (upd (info s) t (set_state (info s t) (Terminated true))) (results s) (cseq s) (vseq s) (views s) (stop s)) t))
                     (info (update_task_results (mkState (known s) (upd (info s) t (set_state (info s t) (Terminated true))) (results s) (cseq s) (vseq s) (views s) (stop s)) t))
                     (results (update_task_results (mkState (known s) (upd (info s) t (set_state (info s t) (Terminated true))) (results s) (cseq s) (vseq s) (views s) (stop s)) t))
                     (cseq (update_task_results (mkState (known s) (upd (info s) t (set_state (info s t) (Terminated true))) (results s) (cseq s) (vseq s) (views s) (stop s)) t))
                     (cseq (update_task_results (mkState (known s) (upd (info s) t (set_state (info s t) (Terminated true))) (results s) (cseq s) (vseq s) (views s) (stop s)) t))
                     (views (update_task_results (mkState (known s) (upd (info s) t (set_state (info s t) (Terminated true))) (results s) (cseq s) (vseq s) (views s) (stop s)) t))
                     (stop (update_task_results (mkState (known s) (upd (info s) t (set_state (info s t) (Terminated true))) (results s) (cseq s) (vseq s) (views s) (stop s)) t)))) in *.
      rewrite (check_cycle_ext (fun x => Dp s4 x) (Dp s')) in Hst
        by (intros x; unfold s4, s'; apply (co_Dp4 w s t Hseq)).
      destruct (check_cycle (Dp s') (known s ++ N)) as [[|]|] eqn:E;
        try (rewrite Hs in Hst; discriminate).
      apply (check_cycle_false_iff (Dp s') (known s ++ N)); auto.
      intros x Hx d Hd. destruct (Hsub x d Hd) as [a [H1 [H2 H3]]].
      destruct (K x d a H1) as [Hlt Htr].
      destruct (in_dec Nat.eq_dec d (known s)) as [Hdk | Hdk]; [apply in_app_iff; auto|].
      apply in_app_iff. right. apply cok_N. repeat split; auto.
      destruct Htr as [-> | ->]; auto.
  Qed.
End InvCompleteOk.
