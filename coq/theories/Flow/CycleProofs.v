(* Correctness of the model of cycle.go: checkCycle reports an error iff the
   dependency graph has a cycle, and the fuel used by the controller model is
   always sufficient. *)
From Verif Require Import Flow.Model.
From Coq Require Import List Bool Arith PeanoNat Lia.
Import ListNotations.

Lemma mem_In : forall x l, mem x l = true <-> In x l.
Proof.
  intros x l. unfold mem. rewrite existsb_exists. split.
  - intros [y [Hy E]]. apply Nat.eqb_eq in E. subst. exact Hy.
  - intros H. exists x. split; auto. apply Nat.eqb_refl.
Qed.

Lemma mem_false : forall x l, mem x l = false <-> ~ In x l.
Proof.
  intros x l. rewrite <- mem_In. destruct (mem x l); split; intros; congruence.
Qed.

Section Cycle.
  Variable dp : nat -> list nat.

  (* a non-empty walk along dependency edges *)
  Inductive path : nat -> nat -> Prop :=
  | path1 : forall x y, In y (dp x) -> path x y
  | pathS : forall x z y, In z (dp x) -> path z y -> path x y.

  Lemma path_trans : forall x y z, path x y -> path y z -> path x z.
  Proof.
    intros x y z H. induction H; intros H2.
    - eapply pathS; eauto.
    - eapply pathS; eauto.
  Qed.

  Lemma path_inv : forall x y, path x y -> exists d, In d (dp x) /\ (d = y \/ path d y).
  Proof. intros x y H. inversion H; subst; eauto. Qed.

  Definition has_cycle (ts : list nat) : Prop := exists t, In t ts /\ path t t.

  (* the tasks of ts only depend on tasks of ts *)
  Definition closed (ts : list nat) : Prop := forall x, In x ts -> incl (dp x) ts.

  Lemma path_closed : forall ts, closed ts -> forall x y, path x y -> In x ts -> In y ts.
  Proof.
    intros ts Hc x y H. induction H; intros Hx.
    - apply (Hc x Hx); auto.
    - apply IHpath. apply (Hc x Hx); auto.
  Qed.

  (* isCyclic returns true only if a dependency path from t leads back onto the
     stack (t included) or into a cycle *)
  Lemma is_cyclic_sound : forall f st t,
    is_cyclic dp f st t = Some true ->
    exists y, path t y /\ (In y (t :: st) \/ path y y).
  Proof.
    induction f as [|f IH]; intros st t H; [discriminate|].
    cbn [is_cyclic] in H.
    assert (G : forall ds, incl ds (dp t) ->
      (fix scan (ds : list nat) : option bool :=
         match ds with
         | [] => Some false
         | d :: r =>
           if mem d (t :: st) then Some true
           else match is_cyclic dp f (t :: st) d with
                | Some true => Some true
                | Some false => scan r
                | None => None
                end
         end) ds = Some true ->
      exists y, path t y /\ (In y (t :: st) \/ path y y)).
    { induction ds as [|d r IHr]; intros Hin Hs; [discriminate|].
      assert (Hd : In d (dp t)) by (apply Hin; left; auto).
      assert (Hr : incl r (dp t)) by (intros z Hz; apply Hin; right; auto).
      destruct (mem d (t :: st)) eqn:Em.
      - apply mem_In in Em. exists d. split; [apply path1; auto | left; auto].
      - destruct (is_cyclic dp f (t :: st) d) as [[|]|] eqn:Ec; try discriminate.
        + destruct (IH _ _ Ec) as [y [Hp [Hy | Hy]]].
          * destruct Hy as [Hy | Hy].
            -- subst y. exists d. split; [apply path1; auto | right; auto].
            -- exists y. split; [eapply pathS; eauto | left; auto].
          * exists y. split; [eapply pathS; eauto | right; auto].
        + apply IHr; auto. }
    apply (G (dp t)); auto. apply incl_refl.
  Qed.

  (* isCyclic returns false only if no dependency path from t leads back onto the
     stack or into a cycle *)
  Lemma is_cyclic_complete : forall f st t,
    is_cyclic dp f st t = Some false ->
    forall y, path t y -> ~ In y (t :: st) /\ ~ path y y.
  Proof.
    induction f as [|f IH]; intros st t H; [discriminate|].
    cbn [is_cyclic] in H.
    assert (G : forall ds,
      (fix scan (ds : list nat) : option bool :=
         match ds with
         | [] => Some false
         | d :: r =>
           if mem d (t :: st) then Some true
           else match is_cyclic dp f (t :: st) d with
                | Some true => Some true
                | Some false => scan r
                | None => None
                end
         end) ds = Some false ->
      forall d, In d ds -> ~ In d (t :: st) /\ is_cyclic dp f (t :: st) d = Some false).
    { induction ds as [|d r IHr]; intros Hs d' Hd'; [destruct Hd'|].
      destruct (mem d (t :: st)) eqn:Em; [discriminate|].
      destruct (is_cyclic dp f (t :: st) d) as [[|]|] eqn:Ec; try discriminate.
      destruct Hd' as [-> | Hd'].
      - split; auto. apply mem_false; auto.
      - apply IHr; auto. }
    specialize (G _ H).
    intros y Hp. apply path_inv in Hp. destruct Hp as [d [Hd Hy]].
    destruct (G d Hd) as [Hnd Hcd].
    pose proof (IH _ _ Hcd) as Hall.
    destruct Hy as [-> | Hy].
    - split; auto. intros Hc. destruct (Hall y Hc) as [Hn _]. apply Hn. left; auto.
    - destruct (Hall y Hy) as [Hn1 Hn2]. split; auto.
      intros Hi. apply Hn1. right; auto.
  Qed.

  (* the recursion depth is bounded by the number of tasks not on the stack *)
  Lemma is_cyclic_fuel : forall ts, closed ts -> forall f st t,
    NoDup (t :: st) -> incl (t :: st) ts -> length ts <= f + length st ->
    is_cyclic dp f st t <> None.
  Proof.
    intros ts Hc. induction f as [|f IH]; intros st t Hnd Hin Hlen.
    - exfalso. pose proof (NoDup_incl_length Hnd Hin) as L. simpl in L, Hlen. lia.
    - cbn [is_cyclic].
      assert (G : forall ds, incl ds ts ->
        (fix scan (ds : list nat) : option bool :=
           match ds with
           | [] => Some false
           | d :: r =>
             if mem d (t :: st) then Some true
             else match is_cyclic dp f (t :: st) d with
                  | Some true => Some true
                  | Some false => scan r
                  | None => None
                  end
           end) ds <> None).
      { induction ds as [|d r IHr]; intros Hds; [discriminate|].
        destruct (mem d (t :: st)) eqn:Em; [discriminate|].
        apply mem_false in Em.
        assert (Hne : is_cyclic dp f (t :: st) d <> None).
        { apply IH.
          - constructor; auto.
          - intros z [<- | Hz]; [apply Hds; left; auto | apply Hin; auto].
          - simpl. simpl in Hlen. lia. }
        destruct (is_cyclic dp f (t :: st) d) as [[|]|]; try congruence.
        apply IHr. intros z Hz. apply Hds. right; auto. }
      apply G. apply Hc. apply Hin. left; auto.
  Qed.

  Lemma check_cycle_from_true : forall f ts,
    check_cycle_from dp f ts = Some true ->
    exists t, In t ts /\ is_cyclic dp f [] t = Some true.
  Proof.
    induction ts as [|t r IH]; intros H; [discriminate|].
    cbn [check_cycle_from] in H.
    destruct (is_cyclic dp f [] t) as [[|]|] eqn:E; try discriminate.
    - exists t. split; [left|]; auto.
    - destruct (IH H) as [u [Hu Eu]]. exists u. split; [right|]; auto.
  Qed.

  Lemma check_cycle_from_false : forall f ts,
    check_cycle_from dp f ts = Some false ->
    forall t, In t ts -> is_cyclic dp f [] t = Some false.
  Proof.
    induction ts as [|t r IH]; intros H u Hu; [destruct Hu|].
    cbn [check_cycle_from] in H.
    destruct (is_cyclic dp f [] t) as [[|]|] eqn:E; try discriminate.
    destruct Hu as [<- | Hu]; auto.
  Qed.

  Lemma check_cycle_from_none : forall f ts,
    check_cycle_from dp f ts = None ->
    exists t, In t ts /\ is_cyclic dp f [] t = None.
  Proof.
    induction ts as [|t r IH]; intros H; [discriminate|].
    cbn [check_cycle_from] in H.
    destruct (is_cyclic dp f [] t) as [[|]|] eqn:E; try discriminate.
    - destruct (IH H) as [u [Hu Eu]]. exists u. split; [right|]; auto.
    - exists t. split; [left|]; auto.
  Qed.

  (* fuel sufficiency: with one unit of fuel per task (the controller model uses
     one more) the checker always returns an answer *)
  Theorem check_cycle_fuel_sufficient : forall ts f,
    closed ts -> length ts <= f -> check_cycle_from dp f ts <> None.
  Proof.
    intros ts f Hc Hf H. apply check_cycle_from_none in H. destruct H as [t [Ht E]].
    revert E. apply (is_cyclic_fuel ts Hc).
    - constructor; [intros []| constructor].
    - intros z [<- | []]. auto.
    - simpl. lia.
  Qed.

  Theorem check_cycle_true_iff : forall ts, closed ts ->
    (check_cycle dp ts = Some true <-> has_cycle ts).
  Proof.
    intros ts Hc. unfold check_cycle. split.
    - intros H. apply check_cycle_from_true in H. destruct H as [t [Ht E]].
      apply is_cyclic_sound in E. destruct E as [y [Hp [[<- | []] | Hy]]].
      + exists t. split; auto.
      + exists y. split; auto. apply (path_closed ts Hc t y Hp Ht).
    - intros [t [Ht Hp]].
      destruct (check_cycle_from dp (S (length ts)) ts) as [[|]|] eqn:E; auto.
      + exfalso. pose proof (check_cycle_from_false _ _ E t Ht) as E2.
        destruct (is_cyclic_complete _ _ _ E2 t Hp) as [_ Hn]. auto.
      + exfalso. revert E. apply check_cycle_fuel_sufficient; auto.
  Qed.

  Theorem check_cycle_false_iff : forall ts, closed ts ->
    (check_cycle dp ts = Some false <-> ~ has_cycle ts).
  Proof.
    intros ts Hc. pose proof (check_cycle_true_iff ts Hc) as T.
    assert (N : check_cycle dp ts <> None).
    { unfold check_cycle. apply check_cycle_fuel_sufficient; auto. }
    destruct (check_cycle dp ts) as [[|]|]; split; intros H; try congruence.
    - exfalso. apply H. apply T. auto.
    - intros H2. apply T in H2. discriminate.
  Qed.

  (* the form named in DESIGN.md: an error is reported iff there is a cycle *)
  Theorem check_cycle_correct : forall ts, closed ts ->
    (check_cycle dp ts = Some true /\ has_cycle ts) \/
    (check_cycle dp ts = Some false /\ ~ has_cycle ts).
  Proof.
    intros ts Hc.
    assert (N : check_cycle dp ts <> None).
    { unfold check_cycle. apply check_cycle_fuel_sufficient; auto. }
    destruct (check_cycle dp ts) as [[|]|] eqn:E; try congruence.
    - left. split; auto. apply (check_cycle_true_iff ts Hc). auto.
    - right. split; auto. apply (check_cycle_false_iff ts Hc). auto.
  Qed.
End Cycle.
