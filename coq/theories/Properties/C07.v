(* C07 - Printing an evaluated value as CUE and evaluating it again gives the same value.
   Value-level printing of CoreCUE normal forms, the option profiles, the predeclared-range
   rewriting of bounds.go.  Only statements, closed by [exact], and Print Assumptions. *)
From Verif Require Import Core.Syntax Core.Eval Print.Model Print.ScalProofs Print.Proofs Print.ProjProofs Print.Examples Print.Impl Print.ImplProofs Core.Disj Print.DisjModel Print.DisjProofs.
From Coq Require Import List ZArith NArith.
Import ListNotations.

(* evaluating the printed normal form gives the value the normal form denotes: every well-formed
   normal form, label universe, probe atoms, and any fuel above its depth *)
Theorem C07_eval_print : forall labs atoms fuel r,
  wfb r = true -> (depth r < fuel)%nat ->
  evalNode labs atoms fuel [mkConj false [print_nf r]] = denote labs atoms r.
Proof. exact eval_print. Qed.
Print Assumptions C07_eval_print.

(* the same for EVERY fuel, against the reading of r with the evaluator's fuel discipline *)
Theorem C07_eval_print_every_fuel : forall labs atoms fuel r,
  wfb r = true -> evalNode labs atoms fuel [mkConj false [print_nf r]] = denoteF labs atoms fuel r.
Proof. exact eval_print_F. Qed.
Print Assumptions C07_eval_print_every_fuel.

(* the normal form computed from the flattened conjuncts denotes their value ... *)
Theorem C07_normalize_sound : forall labs atoms fuel fl,
  nf_ok (normalize fuel fl) = true ->
  denoteF labs atoms fuel (normalize fuel fl) = evalFlat labs atoms fuel fl.
Proof. exact normalize_sound_F. Qed.
Print Assumptions C07_normalize_sound.

(* ... and is well formed (unique labels, pattern constraints absorbed, scalars not in error) *)
Theorem C07_normalize_wf : forall fuel fl, nf_ok (normalize fuel fl) = true -> wfb (normalize fuel fl) = true.
Proof. exact normalize_wf. Qed.
Print Assumptions C07_normalize_wf.

(* THE property for the model: print the evaluated value, evaluate the text again - the same
   result tree (fields, presence, kinds, acceptance, pinned atoms, closedness at every node) *)
Theorem C07_print_roundtrip : forall labs atoms fuel cs,
  nf_ok (normalize_conjs fuel cs) = true ->
  evalNode labs atoms fuel [mkConj false [print_nf (normalize_conjs fuel cs)]] = evalNode labs atoms fuel cs.
Proof. exact print_roundtrip. Qed.
Print Assumptions C07_print_roundtrip.

(* what a profile shows denotes the projection of the value (Final/Concrete: regular and required
   fields with regular labels, recursively, nothing else; All: everything) *)
Theorem C07_project_sound : forall labs atoms p r r',
  wfb r = true -> project p r = Some r' ->
  wfb r' = true /\ denote labs atoms r' = project_res_p labs p (denote labs atoms r).
Proof. exact project_sound. Qed.
Print Assumptions C07_project_sound.

(* ... and is preserved by projection, then print, then evaluation *)
Theorem C07_project_print_sound : forall labs atoms p r r' fuel,
  wfb r = true -> project p r = Some r' -> (depth r' < fuel)%nat ->
  evalNode labs atoms fuel [mkConj false [print_nf r']] = project_res_p labs p (denote labs atoms r).
Proof. exact project_print_sound. Qed.
Print Assumptions C07_project_print_sound.

Theorem C07_project_concrete_refuses : forall r,
  project PConcrete r = None <-> nf_concrete (project_value r) = false.
Proof. exact project_concrete_none. Qed.
Print Assumptions C07_project_concrete_refuses.

(* a scalar that is not in error is equivalent to its canonical shape (its atom when concrete) *)
Theorem C07_canon_scal_equiv : forall cs, scalar_bottom cs = false -> sc_equiv (canon_scal cs) cs.
Proof. exact canon_scal_equiv. Qed.
Print Assumptions C07_canon_scal_equiv.

(* bounds.go + MatchBuiltinRange: the predeclared-range form admits exactly what the conjuncts admit *)
Theorem C07_range_rewrite_sound : forall a cs, psat_all a (range_rewrite cs) = sat_all a cs.
Proof. exact range_rewrite_sound. Qed.
Print Assumptions C07_range_rewrite_sound.

(* ---- implementation layer of the definition-mode profiles (expr.go mergeValues + export.Def at
   the root of the printed value) ---- *)
(* it agrees with the specification on conjunct lists of plain struct literals ... *)
Theorem C07_impl_def_plain_sound : forall labs atoms fuel es cs,
  es <> [] -> forallb plain_lit es = true ->
  evalNode labs atoms fuel (mkConj false [impl_def_root es] :: cs) = evalNode labs atoms fuel (mkConj false es :: cs).
Proof. exact impl_def_plain_sound. Qed.
Print Assumptions C07_impl_def_plain_sound.

(* ... and is refuted on a close()d value that receives a further conjunct (known finding F10:
   close({a: 1, b?: int}) & {a: int} is printed as close({...}) & close({a: int})) ... *)
Theorem C07_impl_def_refuted_close :
  exists cs, evalNode w_labs w_atoms 10 (impl_def cs) <> evalNode w_labs w_atoms 10 cs.
Proof. exact impl_def_refuted_close. Qed.
Print Assumptions C07_impl_def_refuted_close.

(* ... and on a recursively closed value that receives a further conjunct (known finding F11:
   everything is wrapped in _#def) *)
Theorem C07_impl_def_refuted_def :
  exists cs, evalNode w_labs w_atoms 10 (impl_def cs) <> evalNode w_labs w_atoms 10 cs.
Proof. exact impl_def_refuted_def. Qed.
Print Assumptions C07_impl_def_refuted_def.

Example C07_w_close_observable :
  (match evalNode w_labs w_atoms 10 w_close with RStruct fs o => nth 1 (map fst fs) PAbsent = POptional /\ nth 1 o false = true | _ => False end) /\
  (match evalNode w_labs w_atoms 10 (impl_def w_close) with RStruct fs o => nth 1 o true = false | _ => False end).
Proof. exact w_close_observable. Qed.
Print Assumptions C07_w_close_observable.

(* ---- disjunctions with defaults (Print/DisjModel.v: exporter.value, case *adt.Disjunction,
   adt.Default under TakeDefaults) over the order-free semantics of Core/Disj.v ------------------- *)
(* eval (print v) = v for an evaluated disjunction with default marks *)
Theorem C07_eval_print_sdisj :
  forall labs atoms f d, sd_wf d = true ->
    pair_of labs atoms (S f) [] [print_sdisj d] = sd_denote atoms d.
Proof. exact eval_print_sdisj. Qed.
Print Assumptions C07_eval_print_sdisj.

(* the round trip: evaluate a conjunction of scalars and disjunctions, print the evaluated
   disjunction with its marks, evaluate the text: the same value/default pair *)
Theorem C07_print_marked_roundtrip :
  forall labs atoms f plain ds,
    forallb pure_scalar plain = true -> forallb pure_disj ds = true ->
    pair_of labs atoms (S f) [] [print_marked labs atoms (S f) plain ds] = pair_of labs atoms (S f) plain ds.
Proof. exact print_marked_roundtrip. Qed.
Print Assumptions C07_print_marked_roundtrip.

(* value-mode profiles (TakeDefaults): the printed text resolves to what the original resolves to *)
Theorem C07_print_final_resolve :
  forall labs atoms f plain ds,
    forallb pure_scalar plain = true -> forallb pure_disj ds = true ->
    resolve (pair_of labs atoms (S f) [] [print_final labs atoms (S f) plain ds]) =
    resolve (pair_of labs atoms (S f) plain ds).
Proof. exact print_final_resolve. Qed.
Print Assumptions C07_print_final_resolve.

(* ... and its values are exactly the defaults of the original (all values when there is none) *)
Theorem C07_print_final_values :
  forall labs atoms f plain ds,
    forallb pure_scalar plain = true -> forallb pure_disj ds = true ->
    let p := pair_of labs atoms (S f) plain ds in
    values (pair_of labs atoms (S f) [] [print_final labs atoms (S f) plain ds]) =
    match defaults p with [] => values p | dv => dv end.
Proof. exact print_final_values. Qed.
Print Assumptions C07_print_final_values.

(* adt.Default alone: no marks left, the values are the former defaults, same resolution *)
Theorem C07_take_defaults_resolve :
  forall atoms d, resolve (sd_denote atoms (take_defaults d)) = resolve (sd_denote atoms d).
Proof. exact take_defaults_resolve. Qed.
Print Assumptions C07_take_defaults_resolve.

Example C07_ex_disj_normal_form :
  map fst (normalize_sdisj [] dx_atoms 5 dx_plain dx_ds) = [true; false; true; false] /\
  map fst (print_final [] dx_atoms 5 dx_plain dx_ds) = [false; false] /\
  length (values (pair_of [] dx_atoms 5 [] [print_final [] dx_atoms 5 dx_plain dx_ds])) = 2%nat /\
  resolve (pair_of [] dx_atoms 5 dx_plain dx_ds) = Ambiguous.
Proof. exact dx_normal_form. Qed.
Print Assumptions C07_ex_disj_normal_form.

(* non-vacuity *)
Example C07_ex_roundtrip :
  evalNode ex_labs ex_atoms 10 [mkConj false [print_nf ex_nf]] = evalNode ex_labs ex_atoms 10 ex_cs.
Proof. exact ex_roundtrip. Qed.
Print Assumptions C07_ex_roundtrip.

Example C07_ex_nf_ok : nf_ok ex_nf = true /\ wfb ex_nf = true /\ depth ex_nf = 2%nat.
Proof. exact ex_nf_ok. Qed.
Print Assumptions C07_ex_nf_ok.

Example C07_ex_range_uint : range_rewrite [SKind KInt; SGt 1; SLt 5] = [PUint; PC (SGt 1); PC (SLt 5)].
Proof. exact ex_range_uint. Qed.
Print Assumptions C07_ex_range_uint.
