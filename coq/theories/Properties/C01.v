(* C01 - Evaluation result is independent of declaration and conjunct order.
   Stated for CoreCUE (Core/Syntax.v): [evalNode labs atoms fuel cs] is the value of
   a node whose conjunct groups are cs, reported over the label universe [labs] and
   the probe atoms [atoms]; all laws hold for every universe and every fuel, as
   EQUALITIES of result trees (fields, field kinds, closedness, scalar constraints,
   error status at every path).  Only statements, [exact], Print Assumptions. *)
From Verif Require Import Core.Syntax Core.Eval Core.Laws Core.Congr.
From Coq Require Import List Permutation.
Import ListNotations.

(* the value depends only on the SET of conjunct groups, each taken as a set of operands *)
Theorem C01_eval_set_of_conjuncts : forall labs atoms fuel cs cs',
  ceqs cs cs' -> evalNode labs atoms fuel cs = evalNode labs atoms fuel cs'.
Proof. exact evalNode_ceqs. Qed.
Print Assumptions C01_eval_set_of_conjuncts.

(* order of the declarations of a field / of the files of a package *)
Theorem C01_eval_perm : forall labs atoms fuel cs cs',
  Permutation cs cs' -> evalNode labs atoms fuel cs = evalNode labs atoms fuel cs'.
Proof. exact eval_perm. Qed.
Print Assumptions C01_eval_perm.

(* repeating a conjunct *)
Theorem C01_eval_dup : forall labs atoms fuel c cs,
  evalNode labs atoms fuel (c :: c :: cs) = evalNode labs atoms fuel (c :: cs).
Proof. exact eval_dup. Qed.
Print Assumptions C01_eval_dup.

(* grouping of & *)
Theorem C01_eval_and_flatten : forall labs atoms fuel r a b es cs,
  evalNode labs atoms fuel (mkConj r (EAnd a b :: es) :: cs) =
  evalNode labs atoms fuel (mkConj r (a :: b :: es) :: cs).
Proof. exact eval_and_flatten. Qed.
Print Assumptions C01_eval_and_flatten.

Theorem C01_eval_and_comm : forall labs atoms fuel r a b es cs,
  evalNode labs atoms fuel (mkConj r (EAnd a b :: es) :: cs) =
  evalNode labs atoms fuel (mkConj r (EAnd b a :: es) :: cs).
Proof. exact eval_and_comm. Qed.
Print Assumptions C01_eval_and_comm.

Theorem C01_eval_and_assoc : forall labs atoms fuel r a b c es cs,
  evalNode labs atoms fuel (mkConj r (EAnd (EAnd a b) c :: es) :: cs) =
  evalNode labs atoms fuel (mkConj r (EAnd a (EAnd b c) :: es) :: cs).
Proof. exact eval_and_assoc. Qed.
Print Assumptions C01_eval_and_assoc.

(* v & v   and   v & _ *)
Theorem C01_eval_and_idem : forall labs atoms fuel r a es cs,
  evalNode labs atoms fuel (mkConj r (EAnd a a :: es) :: cs) =
  evalNode labs atoms fuel (mkConj r (a :: es) :: cs).
Proof. exact eval_and_idem. Qed.
Print Assumptions C01_eval_and_idem.

Theorem C01_eval_and_top : forall labs atoms fuel r a es cs,
  evalNode labs atoms fuel (mkConj r (EAnd a ETop :: es) :: cs) =
  evalNode labs atoms fuel (mkConj r (a :: es) :: cs).
Proof. exact eval_and_top. Qed.
Print Assumptions C01_eval_and_top.

Theorem C01_eval_top_decl : forall labs atoms fuel cs,
  evalNode labs atoms fuel (mkConj false [ETop] :: cs) = evalNode labs atoms fuel cs.
Proof. exact eval_top_decl. Qed.
Print Assumptions C01_eval_top_decl.

(* splitting x: a & b into two declarations of x, merging them back *)
Theorem C01_eval_split_and : forall labs atoms fuel a b cs,
  evalNode labs atoms fuel (mkConj false [EAnd a b] :: cs) =
  evalNode labs atoms fuel (mkConj false [a] :: mkConj false [b] :: cs).
Proof. exact eval_split_and. Qed.
Print Assumptions C01_eval_split_and.

Theorem C01_eval_split_decl : forall labs atoms fuel es1 es2 cs,
  evalNode labs atoms fuel (mkConj false (es1 ++ es2) :: cs) =
  evalNode labs atoms fuel (mkConj false es1 :: mkConj false es2 :: cs).
Proof. exact eval_split_decl. Qed.
Print Assumptions C01_eval_split_decl.

(* wrapping a definition reference, close() or a scalar in { } as a sole embedding *)
Theorem C01_eval_sole_embed : forall labs atoms fuel e es cs,
  simple_embed e = true ->
  evalNode labs atoms fuel (mkConj false (EStruct [(HEmbed, e)] :: es) :: cs) =
  evalNode labs atoms fuel (mkConj false (e :: es) :: cs).
Proof. exact eval_sole_embed. Qed.
Print Assumptions C01_eval_sole_embed.

(* order (and repetition) of the declarations of a struct literal *)
Theorem C01_eval_decl_perm : forall labs atoms fuel r ds ds' es cs,
  embed_free ds = true -> embed_free ds' = true -> Laws.seq ds ds' ->
  evalNode labs atoms fuel (mkConj r (EStruct ds :: es) :: cs) =
  evalNode labs atoms fuel (mkConj r (EStruct ds' :: es) :: cs).
Proof. exact eval_decl_perm. Qed.
Print Assumptions C01_eval_decl_perm.

(* the laws apply at any depth: contextual equivalence is preserved by & and by the value
   position of a field *)
Theorem C01_veq_and_congr : forall labs atoms a a' b,
  veq labs atoms a a' -> veq labs atoms (EAnd a b) (EAnd a' b).
Proof. exact veq_and_congr. Qed.
Print Assumptions C01_veq_and_congr.

Theorem C01_veq_field_congr : forall labs atoms v v' ds1 l k ds2,
  veq labs atoms v v' -> embed_free (ds1 ++ (HField l k, v) :: ds2) = true ->
  veq labs atoms (EStruct (ds1 ++ (HField l k, v) :: ds2)) (EStruct (ds1 ++ (HField l k, v') :: ds2)).
Proof. exact veq_field_congr. Qed.
Print Assumptions C01_veq_field_congr.

Theorem C01_veq_trans : forall labs atoms a b c, veq labs atoms a b -> veq labs atoms b c -> veq labs atoms a c.
Proof. exact veq_trans. Qed.
Print Assumptions C01_veq_trans.

Theorem C01_veq_nested_decl_perm : forall labs atoms l k ds ds' pre post,
  embed_free ds = true -> embed_free ds' = true -> Laws.seq ds ds' ->
  embed_free (pre ++ (HField l k, EStruct ds) :: post) = true ->
  veq labs atoms (EStruct (pre ++ (HField l k, EStruct ds) :: post)) (EStruct (pre ++ (HField l k, EStruct ds') :: post)).
Proof. exact veq_nested_decl_perm. Qed.
Print Assumptions C01_veq_nested_decl_perm.

(* non-vacuity: a non-trivial program, evaluated in two rearrangements *)
Definition ex_labs := [LReg 0%N; LReg 1%N; LReg 9%N].
Definition ex_atoms := [AInt 1%Z; AInt 5%Z].
Definition ex_def := ERefDef (EStruct [(HField (LReg 0%N) FOptional, EScalar (SKind KInt))]).
Definition ex_data := EStruct [(HField (LReg 0%N) FRegular, EScalar (SAtom (AInt 1%Z)))].
Example C01_example_nontrivial :
  evalNode ex_labs ex_atoms 5 [mkConj false [ex_def]; mkConj false [ex_data]] =
  evalNode ex_labs ex_atoms 5 [mkConj false [EAnd ex_data ex_def]]
  /\ res_err (evalNode ex_labs ex_atoms 5 [mkConj false [ex_def]; mkConj false [ex_data]]) = false
  /\ res_err (evalNode ex_labs ex_atoms 5
       [mkConj false [ex_def]; mkConj false [EStruct [(HField (LReg 1%N) FRegular, EScalar (SAtom (AInt 1%Z)))]]]) = true.
Proof. vm_compute. repeat split. Qed.
Print Assumptions C01_example_nontrivial.

(* ==== NestCUE (Core/Nest.v): structs whose fields hold disjunctions ==== *)
From Verif Require Import Core.Disj Core.DisjGen Core.Nest Core.NestLaws.

(* the value of a conjunction of terms (literals with disjunction-valued fields, scalars) does not depend
   on the order of the terms: every field's value/default outcome, presence and the error status are EQUAL *)
Theorem C01_nest_term_order : forall labs atoms fuel ts ts',
  Permutation ts ts' -> alt_val labs atoms fuel ts = alt_val labs atoms fuel ts'.
Proof. exact alt_val_perm. Qed.
Print Assumptions C01_nest_term_order.

(* ... nor does the value/default pair of a node depend on the order of its plain terms *)
Theorem C01_nest_plain_perm : forall labs atoms fuel plain plain' ds,
  Permutation plain plain' -> nest_pair labs atoms fuel plain ds = nest_pair labs atoms fuel plain' ds.
Proof. exact nest_plain_perm. Qed.
Print Assumptions C01_nest_plain_perm.

(* splitting a literal into two (and merging two into one): {fs1, fs2} = {fs1} & {fs2} *)
Theorem C01_nest_split_literal : forall labs atoms fuel fs1 fs2 ts,
  alt_val labs atoms fuel (TLit (fs1 ++ fs2) :: ts) = alt_val labs atoms fuel (TLit fs1 :: TLit fs2 :: ts).
Proof. exact alt_val_split_literal. Qed.
Print Assumptions C01_nest_split_literal.

Example C01_nest_example :
  let d12 := [(true, EScalar (SAtom (AInt 1%Z))); (false, EScalar (SAtom (AInt 2%Z)))] in
  let d23 := [(false, EScalar (SAtom (AInt 2%Z))); (false, EScalar (SAtom (AInt 3%Z)))] in
  let a := TLit [(LReg 0%N, mkFval [] [d12])] in
  let b := TLit [(LReg 0%N, mkFval [] [d23]); (LReg 1%N, mkFval [EScalar (SKind KInt)] [])] in
  alt_val [LReg 0%N; LReg 1%N] [AInt 1%Z; AInt 2%Z; AInt 3%Z] 5 [a; b] =
  alt_val [LReg 0%N; LReg 1%N] [AInt 1%Z; AInt 2%Z; AInt 3%Z] 5 [b; a] /\
  aval_err (alt_val [LReg 0%N; LReg 1%N] [AInt 1%Z; AInt 2%Z; AInt 3%Z] 5 [a; b]) = false.
Proof. vm_compute. split; reflexivity. Qed.
Print Assumptions C01_nest_example.
