(* C16 - The module cache never serves a partial download, whatever crashes or races.
   Only statements, closed by [exact], and Print Assumptions. *)
From Verif Require Import Cache.Model Cache.Proofs.
From Coq Require Import List.
Import ListNotations.

(* every world the trace acceptor (the tie to the traced system calls) returns is reachable *)
Theorem C16_accept_sound : forall c ls ws, (forall w, In w ws -> reachable c w) ->
  forall w', In w' (accept c ws ls) -> reachable c w'.
Proof. exact accept_sound. Qed.
Print Assumptions C16_accept_sound.
