(* C16 - The module cache never serves a partial download, whatever crashes or races.
   Only statements, closed by [exact], and Print Assumptions.

   Model: Cache/Model.v (executable [step : cfg -> world -> label -> option world]).
   [reachable c w]: w is reached from the empty cache by ANY sequence of labels:
   [Spawn p k] (a goroutine of process p calls Fetch / FetchFromCache / ModFile - any
   number of processes and goroutines), [Eff i e] (thread i performs its next
   file-system effect or internal event, incl. registry faults - any interleaving),
   [Crash p] (process p is killed - at any point; its flock is released).
   [env_ok c]: the protocol as written (no variant flag) and no local I/O errors. *)
From Verif Require Import Cache.Model Cache.Inv Cache.Safety Cache.Recovery Cache.SingleFlight Cache.Variants Cache.Examples Cache.Proofs.
From Coq Require Import List.
Import ListNotations.

(* The invariant (store: zip/module file present => complete; directory unmarked =>
   complete; per-thread knowledge; flock discipline) holds initially and is preserved
   by every step: it is inductive, hence holds in every reachable world. *)
Theorem C16_inv_init : forall c, Inv c world0.
Proof. exact inv_init. Qed.
Print Assumptions C16_inv_init.

Theorem C16_inv_inductive : forall c w l w', env_ok c -> Inv c w -> step c w l = Some w' -> Inv c w'.
Proof. exact inv_step. Qed.
Print Assumptions C16_inv_inductive.

Theorem C16_inv_reachable : forall c w, env_ok c -> reachable c w -> Inv c w.
Proof. exact inv_reachable. Qed.
Print Assumptions C16_inv_reachable.

(* A directory is never reported available while incomplete: every Fetch/FetchFromCache
   call that has returned success (via the unlocked two-stat test of downloadDir, the
   re-check under the lock, or its own extraction) sees the complete content. *)
Theorem C16_reachable_safe : forall c, env_ok c -> forall w i t,
  reachable c w -> nth_error (threads w) i = Some t -> tpc t = Done ROk -> tkind t <> KModFile ->
  complete c (st w).
Proof. exact reachable_safe. Qed.
Print Assumptions C16_reachable_safe.

(* The TOCTOU window of downloadDir for an arbitrary observer: stat(dir) succeeded in
   w1; after ANY further activity, stat(.partial) fails in w2; then dir is complete in w2. *)
Theorem C16_two_stat_safe : forall c, env_ok c -> forall w1 ls w2,
  reachable c w1 -> dir (st w1) <> None -> run c w1 ls = Some w2 -> marker (st w2) = false ->
  complete c (st w2).
Proof. exact two_stat_safe. Qed.
Print Assumptions C16_two_stat_safe.

Theorem C16_available_complete : forall c, env_ok c -> forall w,
  reachable c w -> dir (st w) <> None -> marker (st w) = false -> complete c (st w).
Proof. exact available_complete. Qed.
Print Assumptions C16_available_complete.

(* once complete, complete in every later world *)
Theorem C16_complete_stable : forall c, env_ok c -> forall w ls w',
  reachable c w -> complete c (st w) -> run c w ls = Some w' -> complete c (st w').
Proof. exact complete_stable. Qed.
Print Assumptions C16_complete_stable.

(* cached zip and module file are absent or complete, in every reachable world *)
Theorem C16_zip_absent_or_complete : forall c, env_ok c -> forall w,
  reachable c w -> zip (st w) = None \/ zip (st w) = Some (zsize c).
Proof. exact zip_absent_or_complete. Qed.
Print Assumptions C16_zip_absent_or_complete.

Theorem C16_modfile_absent_or_complete : forall c, env_ok c -> forall w,
  reachable c w -> modf (st w) = None \/ modf (st w) = Some (msize c).
Proof. exact modfile_absent_or_complete. Qed.
Print Assumptions C16_modfile_absent_or_complete.

Theorem C16_modfile_safe : forall c, env_ok c -> forall w i t,
  reachable c w -> nth_error (threads w) i = Some t -> tpc t = Done ROk -> tkind t = KModFile ->
  modf (st w) = Some (msize c).
Proof. exact modfile_safe. Qed.
Print Assumptions C16_modfile_safe.

(* flock discipline *)
Theorem C16_lock_exclusive : forall c, env_ok c -> forall w i j ti tj, reachable c w ->
  nth_error (threads w) i = Some ti -> nth_error (threads w) j = Some tj ->
  locked_pc (tpc ti) = true -> locked_pc (tpc tj) = true -> i = j.
Proof. exact lock_exclusive. Qed.
Print Assumptions C16_lock_exclusive.

(* Unzip's error path (RemoveAll + remove marker) is dead code without local I/O errors *)
Theorem C16_unzip_error_path_unreachable : forall c, env_ok c -> forall w i t,
  reachable c w -> nth_error (threads w) i = Some t -> tpc t <> E0 /\ tpc t <> E1 /\ tpc t <> F9 RErr.
Proof. exact unzip_error_path_unreachable. Qed.
Print Assumptions C16_unzip_error_path_unreachable.

(* Recovery: after any history (any number of crashes at any points, faults, races)
   that has left no call in progress, a fetch by a fresh process run alone terminates
   within clean_fuel steps of the fuelled clean-run function, returns Ok, and the
   directory is the complete content. *)
Theorem C16_recovery : forall c w p, env_ok c -> reachable c w -> quiescent w ->
  mem_nat p (crashed w) = false -> sfz (ps w p) = SfIdle ->
  exists w0 w' t',
    step c w (Spawn p KFetch) = Some w0 /\
    run_clean c (clean_fuel c (st w0)) w0 (length (threads w)) = Some w' /\
    nth_error (threads w') (length (threads w)) = Some t' /\ tpc t' = Done ROk /\
    complete c (st w') /\ reachable c w'.
Proof. exact recovery. Qed.
Print Assumptions C16_recovery.

(* One download per version and process (par.ErrCache.Do in downloadZip): in every reachable
   world - any number of goroutines, any interleaving, faults, for every configuration - a
   process has created at most one temp file / issued at most one GetZip for the version. *)
Theorem C16_single_flight : forall c w p, reachable c w -> gz (ps w p) <= 1.
Proof. exact single_flight. Qed.
Print Assumptions C16_single_flight.

(* Which orderings the proof relies on: each variant has a reachable state in which a
   call has returned success while the directory is not the complete content. *)
Theorem C16_ordering_necessary_marker_before_mkdir :
  exists ls w, run (base false true false false false) world0 ls = Some w /\ unsafe (base false true false false false) w.
Proof. exact ordering_necessary_marker_before_mkdir. Qed.
Print Assumptions C16_ordering_necessary_marker_before_mkdir.

Theorem C16_ordering_necessary_marker_until_extracted :
  exists ls w, run (base false false true false false) world0 ls = Some w /\ unsafe (base false false true false false) w.
Proof. exact ordering_necessary_marker_until_extracted. Qed.
Print Assumptions C16_ordering_necessary_marker_until_extracted.

Theorem C16_ordering_necessary_recheck_under_lock :
  exists ls w, run (base false false false true false) world0 ls = Some w /\ unsafe (base false false false true false) w.
Proof. exact ordering_necessary_recheck_under_lock. Qed.
Print Assumptions C16_ordering_necessary_recheck_under_lock.

Theorem C16_ordering_necessary_stat_dir_before_marker :
  exists ls w, run (base false false false false true) world0 ls = Some w /\ unsafe (base false false false false true) w.
Proof. exact ordering_necessary_stat_dir_before_marker. Qed.
Print Assumptions C16_ordering_necessary_stat_dir_before_marker.

(* Outside the property's fault model: with a local I/O error during extraction the
   protocol as written reaches an unsafe state (error path removes directory, then marker). *)
Theorem C16_io_error_path_toctou_refuted :
  exists ls w, run (base true false false false false) world0 ls = Some w /\ unsafe (base true false false false false) w.
Proof. exact io_error_path_toctou_refuted. Qed.
Print Assumptions C16_io_error_path_toctou_refuted.

(* the tie: every world the trace acceptor returns is reachable *)
Theorem C16_accept_sound : forall c ls ws, (forall w, In w ws -> reachable c w) ->
  forall w', In w' (accept c ws ls) -> reachable c w'.
Proof. exact accept_sound. Qed.
Print Assumptions C16_accept_sound.

(* non-vacuity *)
Example C16_served_reachable :
  exists w i t, reachable c_ok w /\ nth_error (threads w) i = Some t /\ tpc t = Done ROk /\ tkind t = KFromCache.
Proof. exact served_reachable. Qed.
Print Assumptions C16_served_reachable.

Example C16_crash_mid_state :
  dir (st w_crash_mid) = Some [(0, 0)] /\ marker (st w_crash_mid) = true /\ lock (st w_crash_mid) = None /\
  zip (st w_crash_mid) = Some 1 /\ quiescent w_crash_mid.
Proof. exact crash_mid_state. Qed.
Print Assumptions C16_crash_mid_state.

Example C16_two_stat_window :
  exists ls w2, dir (st w_crash_mid) <> None /\ run c_ok w_crash_mid ls = Some w2 /\ marker (st w2) = false.
Proof. exact two_stat_window. Qed.
Print Assumptions C16_two_stat_window.

Example C16_recovery_applicable :
  reachable c_ok w_crash_mid /\ quiescent w_crash_mid /\ mem_nat 1 (crashed w_crash_mid) = false /\ sfz (ps w_crash_mid 1) = SfIdle.
Proof. exact (conj w_crash_mid_reachable recovery_applicable). Qed.
Print Assumptions C16_recovery_applicable.
