(* C15 - Module archives round-trip and can never write outside their directory.
   This file contains only statements, closed by [exact], and Print Assumptions.
   is_letter / fold_min are the Unicode oracles (unicode.IsLetter, minimum of the
   unicode.SimpleFold orbit); every theorem holds for every instantiation. *)
From Coq Require Import String.
From Coq Require Import List NArith ZArith Bool.
From Verif Require Import Zip.Bytes Zip.BytesProofs Zip.Model Zip.PathProofs Zip.ZipProofs Zip.FsProofs
  Zip.UnzipProofs Zip.CollisionProofs Zip.HostileProofs Zip.ElemProofs Zip.RoundtripProofs Zip.CreateProofs
  Zip.AgreeProofs Zip.Examples.
Import ListNotations.

(* module.CheckFilePath accepts only relative, clean paths whose elements are non-empty,
   not "." or "..", and free of '/', '\', ':' and NUL *)
Theorem C15_checked_path_safe : forall (is_letter : N -> bool) p,
  check_path is_letter p = true ->
  let es := split_slash p in
  p = join_slash es /\ es <> [] /\ Forall good_elem es /\
  is_abs p = false /\ clean p = p /\
  (forall b, In b p -> b <> c_backslash /\ b <> c_colon /\ b <> 0%N).
Proof. exact check_path_safe. Qed.
Print Assumptions C15_checked_path_safe.

(* filepath.Join(dir, name) of a checked name stays beneath dir *)
Theorem C15_join_checked_beneath : forall (is_letter : N -> bool) dir,
  clean_elems true [] dir = dir -> forall name, check_path is_letter name = true ->
  join_path dir name = dir ++ split_slash name /\ split_slash name <> [].
Proof. exact join_path_checked. Qed.
Print Assumptions C15_join_checked_beneath.

(* ... whereas an unchecked name escapes (non-vacuity of the check) *)
Example C15_ex_join_escapes_unchecked :
  join_path [lit "P"; lit "t"] (lit "../sentinel") = [lit "P"; lit "sentinel"].
Proof. exact ex_join_escapes. Qed.
Print Assumptions C15_ex_join_escapes_unchecked.

(* For EVERY archive, file system and clean absolute target: Unzip only adds fresh entries
   (exclusive creation, nothing existing is modified); each is a directory on the path to
   dir, or lies strictly beneath dir and is a directory or a regular file holding at most
   the declared number of bytes of some file entry. *)
Theorem C15_unzip_confined : forall is_letter fold_min dir,
  clean_elems true [] dir = dir ->
  forall fs zs es fs' r,
  Forall uint64_entry es ->
  unzip is_letter fold_min dir fs zs es = (fs', r) ->
  extends (unzip_effect dir es) fs fs'.
Proof. exact unzip_confined. Qed.
Print Assumptions C15_unzip_confined.

(* the copy loop of Unzip, for ANY reader behaviour: at most declared+1 bytes reach the file,
   and without an error at most declared *)
Theorem C15_limited_copy_bounded : forall d delivered rerr w err,
  limited_copy d delivered rerr = (w, err) ->
  (Z.of_nat (length w) <= Z.max 0 (d + 1))%Z /\
  (err = false -> w = delivered /\ rerr = false /\ (Z.of_nat (length w) <= d)%Z).
Proof. exact limited_copy_bounded. Qed.
Print Assumptions C15_limited_copy_bounded.

(* a successful Unzip wrote exactly the declared bytes of every file entry; total <= MaxZipFile *)
Theorem C15_unzip_bytes_bounded : forall is_letter fold_min dir,
  clean_elems true [] dir = dir ->
  forall fs zs es fs',
  Forall uint64_entry es ->
  unzip is_letter fold_min dir fs zs es = (fs', UOk) ->
  (forall e, In e es -> ends_with_slash (e_name e) = false ->
     fs_lookup fs' (dir ++ split_slash (e_name e)) = Some (NFile (e_data e)) /\
     N.of_nat (length (e_data e)) = e_declared e /\ e_crc_ok e = true /\ e_open_ok e = true) /\
  (0 <= declared_sum es <= MaxZipFile)%Z.
Proof. exact unzip_ok_exact. Qed.
Print Assumptions C15_unzip_bytes_bounded.

(* a rejected archive is never extracted *)
Theorem C15_unzip_rejected_untouched : forall is_letter fold_min dir fs zs es,
  checked_err (check_zip is_letter fold_min zs es) = true ->
  unzip is_letter fold_min dir fs zs es = (fs, UErr).
Proof. exact unzip_rejected_untouched. Qed.
Print Assumptions C15_unzip_rejected_untouched.

(* hostile entries: each of the following makes CheckZip (hence Unzip) reject the archive *)
Theorem C15_hostile_absolute_rejected : forall is_letter fold_min zs es e,
  In e es -> is_abs (e_name e) = true -> checked_err (check_zip is_letter fold_min zs es) = true.
Proof. exact hostile_absolute_rejected. Qed.
Print Assumptions C15_hostile_absolute_rejected.

Theorem C15_hostile_dot_element_rejected : forall is_letter fold_min zs es e x,
  In e es -> In x (split_slash (entry_name e)) -> x = s_dot \/ x = s_dotdot \/ x = [] ->
  checked_err (check_zip is_letter fold_min zs es) = true.
Proof. exact hostile_dot_element_rejected. Qed.
Print Assumptions C15_hostile_dot_element_rejected.

Theorem C15_hostile_byte_rejected : forall is_letter fold_min zs es e b,
  In e es -> In b (e_name e) -> b = c_backslash \/ b = c_colon \/ b = 0%N ->
  checked_err (check_zip is_letter fold_min zs es) = true.
Proof. exact hostile_byte_rejected. Qed.
Print Assumptions C15_hostile_byte_rejected.

Theorem C15_hostile_collision_rejected : forall is_letter fold_min zs l1 e1 l2 e2 l3,
  entry_is_dir e1 = false \/ entry_is_dir e2 = false ->
  str_to_fold fold_min (entry_name e1) = str_to_fold fold_min (entry_name e2) ->
  checked_err (check_zip is_letter fold_min zs (l1 ++ e1 :: l2 ++ e2 :: l3)) = true.
Proof. exact hostile_collision_rejected. Qed.
Print Assumptions C15_hostile_collision_rejected.

Theorem C15_accepted_no_collision : forall is_letter fold_min zs l1 e1 l2 e2 l3 q1 x1 q2 x2,
  checked_err (check_zip is_letter fold_min zs (l1 ++ e1 :: l2 ++ e2 :: l3)) = false ->
  In (q1, x1) (cc_targets (entry_name e1) (entry_is_dir e1)) ->
  In (q2, x2) (cc_targets (entry_name e2) (entry_is_dir e2)) ->
  str_to_fold fold_min q1 = str_to_fold fold_min q2 -> q1 = q2 /\ x1 = true /\ x2 = true.
Proof. exact accepted_no_collision. Qed.
Print Assumptions C15_accepted_no_collision.

Theorem C15_hostile_cue_mod_rejected : forall is_letter fold_min zs es e,
  In e es -> cz_cue_mod (entry_name e) = None -> checked_err (check_zip is_letter fold_min zs es) = true.
Proof. exact hostile_cue_mod_rejected. Qed.
Print Assumptions C15_hostile_cue_mod_rejected.

Theorem C15_hostile_local_module_rejected : forall is_letter fold_min zs es e,
  In e es -> entry_name e = s_local_module -> checked_err (check_zip is_letter fold_min zs es) = true.
Proof. exact hostile_local_module_rejected. Qed.
Print Assumptions C15_hostile_local_module_rejected.

Theorem C15_hostile_oversize_rejected : forall is_letter fold_min zs es e,
  In e es -> entry_is_dir e = false ->
  (entry_name e = s_cue_mod_module_cue /\ (MaxCUEMod < to_int64 (e_declared e))%Z) \/
  (entry_name e = s_license /\ (MaxLICENSE < to_int64 (e_declared e))%Z) ->
  checked_err (check_zip is_letter fold_min zs es) = true.
Proof. exact hostile_oversize_rejected. Qed.
Print Assumptions C15_hostile_oversize_rejected.

Theorem C15_hostile_total_size_rejected : forall is_letter fold_min zs es,
  (MaxZipFile < declared_sum es)%Z \/
  (exists e, In e es /\ entry_is_dir e = false /\ (to_int64 (e_declared e) < 0)%Z) ->
  checked_err (check_zip is_letter fold_min zs es) = true.
Proof. exact hostile_total_size_rejected. Qed.
Print Assumptions C15_hostile_total_size_rejected.

Theorem C15_hostile_zip_size_rejected : forall is_letter fold_min zs es,
  (MaxZipFile < zs)%Z -> checked_err (check_zip is_letter fold_min zs es) = true.
Proof. exact hostile_zip_size_rejected. Qed.
Print Assumptions C15_hostile_zip_size_rejected.

Theorem C15_no_module_file_rejected : forall is_letter fold_min zs es,
  (forall e, In e es -> entry_name e <> s_cue_mod_module_cue) ->
  checked_err (check_zip is_letter fold_min zs es) = true.
Proof. exact no_module_file_rejected. Qed.
Print Assumptions C15_no_module_file_rejected.

(* symlink / directory / irregular mode bits of an entry are never consulted: Unzip behaves
   identically, i.e. whatever it creates is a regular file (node NFile) or a MkdirAll directory *)
Theorem C15_unzip_ignores_mode_bits : forall is_letter fold_min g dir fs zs es,
  unzip is_letter fold_min dir fs zs (map (rekind g) es) = unzip is_letter fold_min dir fs zs es.
Proof. exact unzip_ignores_mode_bits. Qed.
Print Assumptions C15_unzip_ignores_mode_bits.

(* in an accepted archive no file entry's path is equal to, or a directory prefix of, another's *)
Theorem C15_accepted_no_clash : forall is_letter fold_min zs es,
  checked_err (check_zip is_letter fold_min zs es) = false -> no_clash es.
Proof. exact accepted_no_clash. Qed.
Print Assumptions C15_accepted_no_clash.

(* every accepted archive with honest headers extracts completely into an empty or missing
   directory; afterwards the regular files beneath it are exactly the file entries *)
Theorem C15_unzip_accepted_honest_ok : forall is_letter fold_min dir,
  clean_elems true [] dir = dir -> dir <> [] ->
  forall fs zs es,
  checked_err (check_zip is_letter fold_min zs es) = false -> Forall honest es ->
  dir_nonempty fs dir = false -> mkdir_all fs dir <> None ->
  exists fs', unzip is_letter fold_min dir fs zs es = (fs', UOk) /\ beneath_inv dir es fs'.
Proof. exact unzip_accepted_honest_ok. Qed.
Print Assumptions C15_unzip_accepted_honest_ok.

(* every archive Create emits passes CheckZip; it holds the valid files of the path-sorted list,
   in that order, with honest headers *)
Theorem C15_create_passes_check : forall is_letter fold_min files es zs,
  create is_letter fold_min files = Some es -> (zs <= MaxZipFile)%Z ->
  checked_err (check_zip is_letter fold_min zs es) = false /\
  es = map created_entry (valid_files is_letter fold_min (sort_files files)) /\
  Forall (fun e => is_file e /\ honest e) es.
Proof. exact create_passes_check. Qed.
Print Assumptions C15_create_passes_check.

(* Create then Unzip reproduces exactly the valid files with identical content *)
Theorem C15_create_unzip_roundtrip : forall is_letter fold_min dir,
  clean_elems true [] dir = dir -> dir <> [] ->
  forall files es fs zs,
  create is_letter fold_min files = Some es -> (zs <= MaxZipFile)%Z ->
  dir_nonempty fs dir = false -> mkdir_all fs dir <> None ->
  exists fs', unzip is_letter fold_min dir fs zs es = (fs', UOk) /\
    (forall f, In f (valid_files is_letter fold_min (sort_files files)) ->
       fs_lookup fs' (dir ++ split_slash (f_name f)) = Some (NFile (f_data f))) /\
    (forall q c, fs_lookup fs' q = Some (NFile c) -> strict_prefix dir q = true ->
       exists f, In f (valid_files is_letter fold_min (sort_files files)) /\
                 q = dir ++ split_slash (f_name f) /\ c = f_data f).
Proof. exact create_unzip_roundtrip. Qed.
Print Assumptions C15_create_unzip_roundtrip.

(* the file-list check and the zip check give every file the same verdict, under the exact
   side condition agree_cond (regular, expressible size, not a directory entry, not omitted by
   checkFiles, not the root file cue.mod, no wrongly-cased cue.mod/module.cue) *)
Theorem C15_checks_agree_when : forall is_letter fold_min files,
  Forall (agree_cond (have_cue_mod files)) files ->
  fst (check_files_verdicts is_letter fold_min files) =
  fst (check_zip_verdicts is_letter fold_min (map entry_of_file files)).
Proof. exact checks_agree_when. Qed.
Print Assumptions C15_checks_agree_when.

Theorem C15_checks_agree_valid_lists : forall is_letter fold_min files zs, (zs <= MaxZipFile)%Z ->
  Forall (agree_cond (have_cue_mod files)) files ->
  c_valid (check_files is_letter fold_min files) =
  c_valid (check_zip is_letter fold_min zs (map entry_of_file files)).
Proof. exact checks_agree_valid_lists. Qed.
Print Assumptions C15_checks_agree_valid_lists.

(* ... and without it the property as worded fails on the faithful model (known finding F7) *)
Theorem C15_checks_agree_refuted_root_file :
  exists files, Forall (fun f => f_kind f = KRegular) files /\
    fst (check_files_verdicts (fun _ => false) (fun r => r) files) = [VValid] /\
    fst (check_zip_verdicts (fun _ => false) (fun r => r) (map entry_of_file files)) = [VInvalid].
Proof. exact checks_agree_refuted_root_file. Qed.
Print Assumptions C15_checks_agree_refuted_root_file.

Theorem C15_checks_agree_refuted_case_variant :
  exists files, Forall (fun f => f_kind f = KRegular) files /\
    fst (check_files_verdicts (fun _ => false) (fun r => r) files) = [VInvalid; VValid] /\
    fst (check_zip_verdicts (fun _ => false) (fun r => r) (map entry_of_file files)) = [VInvalid; VInvalid].
Proof. exact checks_agree_refuted_case_variant. Qed.
Print Assumptions C15_checks_agree_refuted_case_variant.

Example C15_ex_agree_cond_nonvacuous :
  let files := [rf "cue.mod/module.cue"; rf "x.cue"; rf "sub/y.cue"; rf "LICENSE"] in
  Forall (agree_cond (have_cue_mod files)) files /\
  fst (check_files_verdicts (fun _ => false) (fun r => r) files) = [VValid; VValid; VValid; VValid].
Proof. exact agree_cond_nonvacuous. Qed.
Print Assumptions C15_ex_agree_cond_nonvacuous.

(* non-vacuity: a concrete module is created, checked, extracted; hostile names are rejected *)
Example C15_ex_create : create no_letter id_fold ex_files = Some ex_archive.
Proof. exact ex_create. Qed.
Print Assumptions C15_ex_create.

Example C15_ex_hostile_rejected :
  forallb (fun n => checked_err (check_zip no_letter id_fold 100 (hostile n)))
    ["../sentinel"; "/etc/passwd"; "a\b"; "C:x"; "sub/../../x"; "CUE.MOD/module.cue"; "sub/cue.mod/module.cue";
     "cue.mod/local-module.cue"; "Cue.Mod/Module.cue"; "cue.mod/module.cue"; "nul.txt"; "a."; "a//b"; "./a"]%string = true.
Proof. exact ex_hostile_rejected. Qed.
Print Assumptions C15_ex_hostile_rejected.

(* Create writes the valid files in byte order of their paths (sort_files is a sorted permutation) *)
Theorem C15_create_order : forall l, Sorted.Sorted name_le (sort_files l).
Proof. exact sort_files_sorted. Qed.
Print Assumptions C15_create_order.

Theorem C15_create_sort_permutes : forall x l, In x (sort_files l) <-> In x l.
Proof. exact In_sort_files. Qed.
Print Assumptions C15_create_sort_permutes.

(* a cue.mod (in any case) below the root makes CheckZip reject the archive *)
Theorem C15_hostile_nested_cue_mod_rejected : forall is_letter fold_min zs es e pre x suf,
  In e es -> split_slash (entry_name e) = pre ++ x :: suf -> pre <> [] -> ascii_eqfold x s_cue_mod = true ->
  checked_err (check_zip is_letter fold_min zs es) = true.
Proof. exact hostile_nested_cue_mod_rejected. Qed.
Print Assumptions C15_hostile_nested_cue_mod_rejected.
