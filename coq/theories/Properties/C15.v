(* C15 - Module archives round-trip and can never write outside their directory.
   This file contains only statements, closed by [exact], and Print Assumptions.
   is_letter / fold_min are the Unicode oracles (unicode.IsLetter, minimum of the
   unicode.SimpleFold orbit); every theorem holds for every instantiation. *)
From Coq Require Import String.
From Coq Require Import List NArith ZArith Bool.
From Verif Require Import Zip.Bytes Zip.BytesProofs Zip.Model Zip.PathProofs Zip.ZipProofs Zip.FsProofs
  Zip.UnzipProofs Zip.CollisionProofs Zip.HostileProofs Zip.Examples.
Import ListNotations.

(* module.CheckFilePath accepts only relative, clean paths whose elements are non-empty,
   not "." or "..", and free of '/', '\', ':' and NUL *)
Theorem C15_checked_path_safe : forall (is_letter : N -> bool) p,
  check_path is_letter p = true ->
  let es := split_slash p in
  p = join_slash es /\ es <> [] /\ Forall good_elem es /\
  is_abs p = false /\ clean p = p /\
  (forall b, In b p -> b <> c_backslash /\ b <> c_colon /\ b <> 0%N).
Proof. exact check_path_safe. Qed.
Print Assumptions C15_checked_path_safe.

(* filepath.Join(dir, name) of a checked name stays beneath dir *)
Theorem C15_join_checked_beneath : forall (is_letter : N -> bool) dir,
  clean_elems true [] dir = dir -> forall name, check_path is_letter name = true ->
  join_path dir name = dir ++ split_slash name /\ split_slash name <> [].
Proof. exact join_path_checked. Qed.
Print Assumptions C15_join_checked_beneath.

(* ... whereas an unchecked name escapes (non-vacuity of the check) *)
Example C15_ex_join_escapes_unchecked :
  join_path [lit "P"; lit "t"] (lit "../sentinel") = [lit "P"; lit "sentinel"].
Proof. exact ex_join_escapes. Qed.
Print Assumptions C15_ex_join_escapes_unchecked.

(* For EVERY archive, file system and clean absolute target: Unzip only adds fresh entries
   (exclusive creation, nothing existing is modified); each is a directory on the path to
   dir, or lies strictly beneath dir and is a directory or a regular file holding at most
   the declared number of bytes of some file entry. *)
Theorem C15_unzip_confined : forall is_letter fold_min dir,
  clean_elems true [] dir = dir ->
  forall fs zs es fs' r,
  Forall uint64_entry es ->
  unzip is_letter fold_min dir fs zs es = (fs', r) ->
  extends (unzip_effect dir es) fs fs'.
Proof. exact unzip_confined. Qed.
Print Assumptions C15_unzip_confined.

(* the copy loop of Unzip, for ANY reader behaviour: at most declared+1 bytes reach the file,
   and without an error at most declared *)
Theorem C15_limited_copy_bounded : forall d delivered rerr w err,
  limited_copy d delivered rerr = (w, err) ->
  (Z.of_nat (length w) <= Z.max 0 (d + 1))%Z /\
  (err = false -> w = delivered /\ rerr = false /\ (Z.of_nat (length w) <= d)%Z).
Proof. exact limited_copy_bounded. Qed.
Print Assumptions C15_limited_copy_bounded.

(* a successful Unzip wrote exactly the declared bytes of every file entry; total <= MaxZipFile *)
Theorem C15_unzip_bytes_bounded : forall is_letter fold_min dir,
  clean_elems true [] dir = dir ->
  forall fs zs es fs',
  Forall uint64_entry es ->
  unzip is_letter fold_min dir fs zs es = (fs', UOk) ->
  (forall e, In e es -> ends_with_slash (e_name e) = false ->
     fs_lookup fs' (dir ++ split_slash (e_name e)) = Some (NFile (e_data e)) /\
     N.of_nat (length (e_data e)) = e_declared e /\ e_crc_ok e = true /\ e_open_ok e = true) /\
  (0 <= declared_sum es <= MaxZipFile)%Z.
Proof. exact unzip_ok_exact. Qed.
Print Assumptions C15_unzip_bytes_bounded.

(* a rejected archive is never extracted *)
Theorem C15_unzip_rejected_untouched : forall is_letter fold_min dir fs zs es,
  checked_err (check_zip is_letter fold_min zs es) = true ->
  unzip is_letter fold_min dir fs zs es = (fs, UErr).
Proof. exact unzip_rejected_untouched. Qed.
Print Assumptions C15_unzip_rejected_untouched.

(* hostile entries: each of the following makes CheckZip (hence Unzip) reject the archive *)
Theorem C15_hostile_absolute_rejected : forall is_letter fold_min zs es e,
  In e es -> is_abs (e_name e) = true -> checked_err (check_zip is_letter fold_min zs es) = true.
Proof. exact hostile_absolute_rejected. Qed.
Print Assumptions C15_hostile_absolute_rejected.

Theorem C15_hostile_dot_element_rejected : forall is_letter fold_min zs es e x,
  In e es -> In x (split_slash (entry_name e)) -> x = s_dot \/ x = s_dotdot \/ x = [] ->
  checked_err (check_zip is_letter fold_min zs es) = true.
Proof. exact hostile_dot_element_rejected. Qed.
Print Assumptions C15_hostile_dot_element_rejected.

Theorem C15_hostile_byte_rejected : forall is_letter fold_min zs es e b,
  In e es -> In b (e_name e) -> b = c_backslash \/ b = c_colon \/ b = 0%N ->
  checked_err (check_zip is_letter fold_min zs es) = true.
Proof. exact hostile_byte_rejected. Qed.
Print Assumptions C15_hostile_byte_rejected.

Theorem C15_hostile_collision_rejected : forall is_letter fold_min zs l1 e1 l2 e2 l3,
  entry_is_dir e1 = false \/ entry_is_dir e2 = false ->
  str_to_fold fold_min (entry_name e1) = str_to_fold fold_min (entry_name e2) ->
  checked_err (check_zip is_letter fold_min zs (l1 ++ e1 :: l2 ++ e2 :: l3)) = true.
Proof. exact hostile_collision_rejected. Qed.
Print Assumptions C15_hostile_collision_rejected.

Theorem C15_accepted_no_collision : forall is_letter fold_min zs l1 e1 l2 e2 l3 q1 x1 q2 x2,
  checked_err (check_zip is_letter fold_min zs (l1 ++ e1 :: l2 ++ e2 :: l3)) = false ->
  In (q1, x1) (cc_targets (entry_name e1) (entry_is_dir e1)) ->
  In (q2, x2) (cc_targets (entry_name e2) (entry_is_dir e2)) ->
  str_to_fold fold_min q1 = str_to_fold fold_min q2 -> q1 = q2 /\ x1 = true /\ x2 = true.
Proof. exact accepted_no_collision. Qed.
Print Assumptions C15_accepted_no_collision.

Theorem C15_hostile_cue_mod_rejected : forall is_letter fold_min zs es e,
  In e es -> cz_cue_mod (entry_name e) = None -> checked_err (check_zip is_letter fold_min zs es) = true.
Proof. exact hostile_cue_mod_rejected. Qed.
Print Assumptions C15_hostile_cue_mod_rejected.

Theorem C15_hostile_local_module_rejected : forall is_letter fold_min zs es e,
  In e es -> entry_name e = s_local_module -> checked_err (check_zip is_letter fold_min zs es) = true.
Proof. exact hostile_local_module_rejected. Qed.
Print Assumptions C15_hostile_local_module_rejected.

Theorem C15_hostile_oversize_rejected : forall is_letter fold_min zs es e,
  In e es -> entry_is_dir e = false ->
  (entry_name e = s_cue_mod_module_cue /\ (MaxCUEMod < to_int64 (e_declared e))%Z) \/
  (entry_name e = s_license /\ (MaxLICENSE < to_int64 (e_declared e))%Z) ->
  checked_err (check_zip is_letter fold_min zs es) = true.
Proof. exact hostile_oversize_rejected. Qed.
Print Assumptions C15_hostile_oversize_rejected.

Theorem C15_hostile_total_size_rejected : forall is_letter fold_min zs es,
  (MaxZipFile < declared_sum es)%Z \/
  (exists e, In e es /\ entry_is_dir e = false /\ (to_int64 (e_declared e) < 0)%Z) ->
  checked_err (check_zip is_letter fold_min zs es) = true.
Proof. exact hostile_total_size_rejected. Qed.
Print Assumptions C15_hostile_total_size_rejected.

Theorem C15_hostile_zip_size_rejected : forall is_letter fold_min zs es,
  (MaxZipFile < zs)%Z -> checked_err (check_zip is_letter fold_min zs es) = true.
Proof. exact hostile_zip_size_rejected. Qed.
Print Assumptions C15_hostile_zip_size_rejected.

Theorem C15_no_module_file_rejected : forall is_letter fold_min zs es,
  (forall e, In e es -> entry_name e <> s_cue_mod_module_cue) ->
  checked_err (check_zip is_letter fold_min zs es) = true.
Proof. exact no_module_file_rejected. Qed.
Print Assumptions C15_no_module_file_rejected.
