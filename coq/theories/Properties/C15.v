(* C15 - Module archives round-trip and can never write outside their directory.
   This file contains only statements, closed by [exact], and Print Assumptions. *)
From Coq Require Import String.
From Coq Require Import List NArith ZArith Bool.
From Verif Require Import Zip.Bytes Zip.Model Zip.Examples.
Import ListNotations.

Example C15_ex_join_escapes_unchecked :
  join_path [lit "P"; lit "t"] (lit "../sentinel") = [lit "P"; lit "sentinel"].
Proof. exact ex_join_escapes. Qed.
Print Assumptions C15_ex_join_escapes_unchecked.
