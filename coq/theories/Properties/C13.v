(* C13 - JSON Schema translation preserves which instances are valid.
   Only statements, closed by [exact], and Print Assumptions. *)
From Verif Require Import Schema.Json Schema.Sem Schema.Encode Schema.Proofs.
From Coq Require Import List NArith ZArith Bool.
Import ListNotations.

Theorem C13_bool_schema_correct : forall re b j, encode re (SBool b) j = valid re (SBool b) j.
Proof. exact bool_schema_correct. Qed.
Print Assumptions C13_bool_schema_correct.
