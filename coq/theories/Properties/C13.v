(* C13 - JSON Schema translation preserves which instances are valid.
   Only statements, closed by [exact], and Print Assumptions.

   [valid]  : Schema/Sem.v    - JSON Schema 2020-12 validity, from the specification.
   [encode] : Schema/Encode.v - what the CUE produced by encoding/jsonschema accepts
              (schemaState / finalize / constraint* as semantic combinators).
   [in_fragment re s] : the decoder raises none of the deviation classes (DEV constants) on s;
              it is computed by the model and printed for every case of the correspondence.
   The regexp engine [re] is universally quantified. *)
From Verif Require Import Schema.Json Schema.Sem Schema.Encode Schema.Proofs Schema.Steps2 Schema.Main Schema.Refute.
From Verif Require Import Schema.Refs Schema.RefsProofs Schema.RefsMain.
From Coq Require Import List NArith ZArith Bool.
Import ListNotations.

(* the compiler-correctness statement of the encoding strategy, unbounded nesting *)
Theorem C13_encode_correct : forall re s, in_fragment re s -> forall j, encode re s j = valid re s j.
Proof. exact encode_correct. Qed.
Print Assumptions C13_encode_correct.

(* the general form: schemaState(s, types) is exact on every instance whose kind is in `types`,
   its allowedTypes mask over-approximates the kinds of valid instances, stays inside `types`,
   and knownTypes covers what the generated expression accepts (mask threading is sound) *)
Theorem C13_schemaState_correct : forall re s M, r_dev (enc re s M) = [] -> Good re M s (enc re s M).
Proof. exact enc_good. Qed.
Print Assumptions C13_schemaState_correct.

Theorem C13_allowed_types_sound : forall re s, in_fragment re s -> forall j,
  valid re s j = true -> r_A (enc re s mall) (kind_of j) = true.
Proof. exact allowed_types_sound. Qed.
Print Assumptions C13_allowed_types_sound.

(* "constraints are not possible to satisfy" is only reported for schemas without valid instances *)
Theorem C13_unsatisfiable_root_sound : forall re s, in_fragment re s ->
  mempty (r_A (enc re s mall)) = true -> forall j, valid re s j = false.
Proof. exact unsatisfiable_root_sound. Qed.
Print Assumptions C13_unsatisfiable_root_sound.

(* boolean schemas *)
Theorem C13_bool_schema_correct : forall re b j, encode re (SBool b) j = valid re (SBool b) j.
Proof. exact bool_schema_correct. Qed.
Print Assumptions C13_bool_schema_correct.

(* ---- the risky interactions, as corollaries inside the fragment ---- *)
Theorem C13_not_with_type_list : forall re tys s',
  in_fragment re (SObj (a_with_type tys) (p_not s')) ->
  forall j, encode re (SObj (a_with_type tys) (p_not s')) j = existsb (ty_matches j) tys && negb (valid re s' j).
Proof. exact not_with_type_list. Qed.
Print Assumptions C13_not_with_type_list.

Theorem C13_oneOf_overlapping_members : forall re l,
  in_fragment re (SObj A0 (p_oneOf l)) ->
  forall j, encode re (SObj A0 (p_oneOf l)) j = Nat.eqb (count (fun s' => valid re s' j) l) 1.
Proof. exact oneOf_overlapping_members. Qed.
Print Assumptions C13_oneOf_overlapping_members.

Theorem C13_if_then_else_correct : forall re i t e,
  in_fragment re (SObj A0 (p_ite i (Some t) (Some e))) ->
  forall j, encode re (SObj A0 (p_ite i (Some t) (Some e))) j = if valid re i j then valid re t j else valid re e j.
Proof. exact if_then_else_correct. Qed.
Print Assumptions C13_if_then_else_correct.

Theorem C13_additional_vs_pattern_properties : forall re lp lpp s',
  in_fragment re (SObj A0 (p_obj (Some lp) (Some lpp) (Some s'))) ->
  forall m, encode re (SObj A0 (p_obj (Some lp) (Some lpp) (Some s'))) (JObj m) =
    forallb (fun kv => forallb (fun ks => negb (str_eqb (fst kv) (fst ks)) || valid re (snd ks) (snd kv)) lp) m &&
    forallb (fun kv => forallb (fun ps => negb (re (fst ps) (fst kv)) || valid re (snd ps) (snd kv)) lpp) m &&
    forallb (fun kv => negb (negb (has_key (fst kv) lp) && negb (existsb (fun ps => re (fst ps) (fst kv)) lpp))
                       || valid re s' (snd kv)) m.
Proof. exact additional_vs_pattern_properties. Qed.
Print Assumptions C13_additional_vs_pattern_properties.

Theorem C13_allOf_correct_when : forall re l,
  in_fragment re (SObj A0 (p_allOf l)) ->
  forall j, encode re (SObj A0 (p_allOf l)) j = forallb (fun s' => valid re s' j) l.
Proof. exact allOf_correct_when. Qed.
Print Assumptions C13_allOf_correct_when.

(* ---- the pinned tree deviates outside the fragment: one witness per class ---- *)
Theorem C13_encode_correct_needs_fragment : exists re s j, encode re s j <> valid re s j.
Proof. exact encode_correct_needs_fragment. Qed.
Print Assumptions C13_encode_correct_needs_fragment.

(* was the witness of C13-F1 (matchN(len(items), kept)); with the fix it is inside the fragment *)
Theorem C13_allOf_unconstrained_member_correct :
  valid re_a w_allOf (JStr sab) = true /\ encode re_a w_allOf (JStr sab) = true /\
  r_dev (enc re_a w_allOf mall) = [].
Proof. exact allOf_unconstrained_member_correct. Qed.
Print Assumptions C13_allOf_unconstrained_member_correct.

Theorem C13_allOf_false_member_refuted :
  valid re_a w_allOf_false (JNum 2) = false /\ encode re_a w_allOf_false (JNum 2) = true /\
  r_dev (enc re_a w_allOf_false mall) = [DEV_allOf_false].
Proof. exact allOf_false_member_refuted. Qed.
Print Assumptions C13_allOf_false_member_refuted.

Theorem C13_propertyNames_refuted :
  valid re_a w_pnames (JObj [(sb, JNum 2)]) = false /\ encode re_a w_pnames (JObj [(sb, JNum 2)]) = true /\
  r_dev (enc re_a w_pnames mall) = [DEV_propertyNames].
Proof. exact propertyNames_refuted. Qed.
Print Assumptions C13_propertyNames_refuted.

Theorem C13_required_closed_refuted :
  valid re_a w_req (JObj [(sb, JNum 2)]) = false /\ encode re_a w_req (JObj [(sb, JNum 2)]) = true /\
  r_dev (enc re_a w_req mall) = [DEV_required_closed].
Proof. exact required_closed_refuted. Qed.
Print Assumptions C13_required_closed_refuted.

Theorem C13_prefixItems_refuted :
  valid re_a w_prefix (JArr []) = true /\ encode re_a w_prefix (JArr []) = false /\
  r_dev (enc re_a w_prefix mall) = [DEV_prefixItems].
Proof. exact prefixItems_refuted. Qed.
Print Assumptions C13_prefixItems_refuted.

(* was the witness of C13-F6 (empty property name and the exclusion regexp); with the fix it is inside the fragment *)
Theorem C13_empty_name_correct :
  valid re_a w_empty (JObj [([], JNum 2)]) = false /\ encode re_a w_empty (JObj [([], JNum 2)]) = false /\
  r_dev (enc re_a w_empty mall) = [].
Proof. exact empty_name_correct. Qed.
Print Assumptions C13_empty_name_correct.

Theorem C13_error_argument_refuted :
  valid re_a w_ite (JObj [(sa, JNum 2)]) = true /\ encode re_a w_ite (JObj [(sa, JNum 2)]) = false /\
  r_dev (enc re_a w_ite mall) = [DEV_error_argument].
Proof. exact error_argument_refuted. Qed.
Print Assumptions C13_error_argument_refuted.

Theorem C13_oneOf_false_member_refuted :
  valid re_a w_oneOf (JNum 2) = false /\ encode re_a w_oneOf (JNum 2) = true /\
  r_dev (enc re_a w_oneOf mall) = [DEV_oneOf_false; DEV_error_member].
Proof. exact oneOf_false_member_refuted. Qed.
Print Assumptions C13_oneOf_false_member_refuted.

(* was the witness of C13-F10 (type list with integer and number); with the fix it is inside the fragment *)
Theorem C13_integer_and_number_correct :
  valid re_a w_intnum (JNum 3) = true /\ encode re_a w_intnum (JNum 3) = true /\
  r_dev (enc re_a w_intnum mall) = [].
Proof. exact integer_and_number_correct. Qed.
Print Assumptions C13_integer_and_number_correct.

(* ---- non-vacuity ---- *)
Example C13_fragment_examples :
  in_fragment re_a ex_not_type /\ in_fragment re_a ex_oneOf /\ in_fragment re_a ex_ite /\
  in_fragment re_a ex_obj /\ in_fragment re_a ex_allOf /\ in_fragment re_a ex_nested.
Proof. exact fragment_examples. Qed.
Print Assumptions C13_fragment_examples.

Example C13_verdict_examples :
  map (encode re_a ex_not_type) [JStr sa; JNum 2; JNum 3; JNull] = [false; true; true; false] /\
  map (encode re_a ex_oneOf) [JNum 2; JNum 6; JNum 5; JStr sa] = [true; false; true; true] /\
  map (encode re_a ex_ite) [JStr sa; JStr sab; JNum 2] = [false; true; false] /\
  map (encode re_a ex_obj) [JObj [(sa, JNum 2)]; JObj [(sa, JNum 8)]; JObj [(sab, JNum 8)]; JObj [(sb, JNum 8)]; JObj [(sb, JStr sa)]]
    = [false; true; true; false; true] /\
  map (encode re_a ex_nested) [JObj [(sa, JNum 2)]; JObj [(sa, JNum 6)]; JObj [(sb, JStr sab)]; JObj [(sab, JNull)]; JNull]
    = [true; false; true; false; true].
Proof. exact verdict_examples. Qed.
Print Assumptions C13_verdict_examples.

(* ---------- $ref / $defs (Schema/Refs.v): documents with named, acyclic references ---------- *)

(* following the references of a document (the specification's meaning of "$ref") gives the same verdict
   as validity of the inlined, reference-free schema - for every table of definitions and every fuel *)
Theorem C13_ref_semantics : forall re fuel defs s j,
  valid_r re fuel defs s j = valid re (resolve fuel defs s) j.
Proof. exact valid_r_resolve. Qed.
Print Assumptions C13_ref_semantics.

(* the fuel suffices: in a well-formed document (entry i of the table refers to later entries only, no
   dangling names) the inlined schema does not depend on the fuel once it is >= the number of definitions *)
Theorem C13_ref_fuel_suffices : forall defs s, doc_ok defs s = true ->
  forall f, length defs <= f -> resolve f defs s = resolve_doc defs s.
Proof. exact resolve_doc_stable. Qed.
Print Assumptions C13_ref_fuel_suffices.

Theorem C13_ref_fuel_independent : forall defs, ordered defs = true ->
  forall f f' k s, refs_in k (length defs) s = true ->
  length defs - k <= f -> length defs - k <= f' -> resolve f defs s = resolve f' defs s.
Proof. exact resolve_stable. Qed.
Print Assumptions C13_ref_fuel_independent.

Theorem C13_ref_valid_stable : forall re defs s, doc_ok defs s = true ->
  forall f j, length defs <= f -> valid_r re f defs s j = valid re (resolve_doc defs s) j.
Proof. exact valid_r_stable. Qed.
Print Assumptions C13_ref_valid_stable.

(* the main theorem for documents: the CUE produced for a well-formed document whose inlined form raises
   no deviation class accepts exactly the instances that are valid when references are followed *)
Theorem C13_encode_correct_doc : forall re defs s,
  doc_ok defs s = true -> in_fragment re (resolve_doc defs s) ->
  forall f j, length defs <= f -> encode re (resolve_doc defs s) j = valid_r re f defs s j.
Proof. exact encode_correct_doc. Qed.
Print Assumptions C13_encode_correct_doc.

(* non-vacuity: a document with a chain of three definitions inside the fragment, both verdicts *)
Example C13_ref_examples :
  doc_ok ex_defs ex_root = true /\ in_fragment re0 (resolve_doc ex_defs ex_root) /\
  valid_r re0 3 ex_defs ex_root (JStr [120%N]) = true /\
  valid_r re0 3 ex_defs ex_root (JNum 2) = false /\
  encode re0 (resolve_doc ex_defs ex_root) (JStr [120%N]) = true /\
  encode re0 (resolve_doc ex_defs ex_root) (JNum 2) = false.
Proof. exact (conj ex_doc_ok (conj ex_doc_in_fragment ex_doc_verdicts)). Qed.
Print Assumptions C13_ref_examples.

(* the bound is needed: one unit of fuel less cuts the chain and accepts an invalid instance *)
Example C13_ref_fuel_bound_needed :
  valid_r re0 2 ex_defs ex_root (JNum 2) = true /\ valid_r re0 3 ex_defs ex_root (JNum 2) = false.
Proof. exact ex_fuel_too_small. Qed.
Print Assumptions C13_ref_fuel_bound_needed.

(* cyclic tables, backward and dangling references are not well-formed documents *)
Example C13_ref_cyclic_not_wellformed :
  doc_ok [RObj no_assertions (Some 0) no_applic] (RBool true) = false /\
  doc_ok [RBool true; RObj no_assertions (Some 0) no_applic] (RBool true) = false /\
  doc_ok [] (RObj no_assertions (Some 0) no_applic) = false.
Proof. exact ex_cyclic_not_ok. Qed.
Print Assumptions C13_ref_cyclic_not_wellformed.
