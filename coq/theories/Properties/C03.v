(* C03 - Unifying scalars, types and bounds is exact set intersection.

   Spec  : Scalar/Spec.v   ([sat], [sat_all]: the set semantics of the property text)
   Impl  : Scalar/Model.v  ([simplify] = adt.SimplifyBounds, [insert] = insertValueConjunct,
                            [finish] = validateValue, [run] = evaluating c1 & ... & cn,
                            [run_with cs a] = unifying that expression with the atom a)
   This file contains only statements, closed by [exact], and Print Assumptions. *)
From Verif Require Import Base.Order Scalar.Spec Scalar.Model Scalar.DecProofs Scalar.Proofs
     Scalar.Accum Scalar.Theorems Scalar.Examples.
From Coq Require Import List ZArith NArith QArith Permutation.
Import ListNotations.

(* numeric comparison is by exact decimal value: no rounding, for all decimals *)
Theorem C03_numeric_compare_exact : forall x y : dec, dcmp x y = (dval x ?= dval y)%Q.
Proof. exact dcmp_Qcompare. Qed.
Print Assumptions C03_numeric_compare_exact.

(* int and float literals stay distinct kinds (both are numbers) *)
Theorem C03_int_float_distinct : forall re z d,
  sat re (AInt z) (CElem (KAtom (AFloat d))) = false /\
  sat re (AFloat d) (CElem (KAtom (AInt z))) = false /\
  sat re (AInt z) (CElem (KType TFloat)) = false /\
  sat re (AFloat d) (CElem (KType TInt)) = false /\
  sat re (AInt z) (CElem (KType TNumber)) = true /\
  sat re (AFloat d) (CElem (KType TNumber)) = true /\
  (forall cs, run_with re (CElem (KAtom (AFloat d)) :: cs) (AInt z) = RBottom) /\
  (forall cs, run_with re (CElem (KType TFloat) :: cs) (AInt z) = RBottom) /\
  (forall cs, run_with re (CElem (KAtom (AInt z)) :: cs) (AFloat d) = RBottom) /\
  (forall cs, run_with re (CElem (KType TInt) :: cs) (AFloat d) = RBottom).
Proof. exact int_float_distinct. Qed.
Print Assumptions C03_int_float_distinct.

(* SimplifyBounds, for ALL decimals, strings and bytes (no alphabet bound), every
   kind mask k and every atom a of the node's kind: a returned operand is
   equivalent to the pair, bottom means no atom satisfies both.  Side condition
   [bsafe]: no operand is a fractional decimal whose integral part has 35 or
   more digits (see C03_simplify_refuted). *)
Theorem C03_simplify_sound : forall re k x y a,
  has k a = true -> has (bound_kind x) a = true -> has (bound_kind y) a = true ->
  bsafe x = true -> bsafe y = true ->
  match simplify re k x y with
  | SKeepX => satb re a x = satb re a x && satb re a y
  | SKeepY => satb re a y = satb re a x && satb re a y
  | SBottom => satb re a x && satb re a y = false
  | SNone => True
  end.
Proof. exact simplify_sound. Qed.
Print Assumptions C03_simplify_sound.

(* without any side condition: an operand is dropped only if the other implies it *)
Theorem C03_simplify_keep_sound : forall re k x y a,
  has k a = true -> has (bound_kind x) a = true -> has (bound_kind y) a = true ->
  match simplify re k x y with
  | SKeepX => satb re a x = true -> satb re a y = true
  | SKeepY => satb re a y = true -> satb re a x = true
  | _ => True
  end.
Proof. exact simplify_keep_sound. Qed.
Print Assumptions C03_simplify_keep_sound.

(* the side condition is needed: the faithful model refutes the unconditional statement *)
Theorem C03_simplify_refuted : forall re,
  let x := mkbound OGe (fl false 123456789012345678901234567890123455 (-1)) in
  let y := mkbound OLe (AInt 12345678901234567890123456789012348) in
  simplify re IntKind x y = SBottom /\
  satb re f1_atom x && satb re f1_atom y = true.
Proof. exact simplify_refuted. Qed.
Print Assumptions C03_simplify_refuted.

(* BoundValue.validate decides membership in the bound's set *)
Theorem C03_validate_is_sat : forall re x a,
  has (bound_kind x) a = true -> validate re x a = satb re a x.
Proof. exact validate_sat. Qed.
Print Assumptions C03_validate_is_sat.

(* one insertion, any state satisfying the invariant, any conjunct: the admitted
   set shrinks by exactly that conjunct (-> always, <- under the side condition) *)
Theorem C03_insert_exact : forall re safe s v,
  Inv safe s -> vwf v = true -> (safe = true -> vsafe v = true) ->
  Inv safe (insert re s v) /\
  (forall a, Sat re (insert re s v) a -> Sat re s a /\ satv re a v = true) /\
  (safe = true -> forall a, Sat re s a -> satv re a v = true -> Sat re (insert re s v) a).
Proof. exact insert_spec. Qed.
Print Assumptions C03_insert_exact.

(* NO FALSE ACCEPT (unconditional, all conjunctions, all operands): whatever atom
   the evaluator reports satisfies every conjunct ... *)
Theorem C03_accept_sound : forall re cs w, run re cs = RAtom w -> sat_all re w cs = true.
Proof. exact accept_sound. Qed.
Print Assumptions C03_accept_sound.

(* ... and an atom that violates some conjunct never unifies (unconditional) *)
Theorem C03_reject_complete : forall re cs a, sat_all re a cs = false -> run_with re cs a = RBottom.
Proof. exact reject_complete. Qed.
Print Assumptions C03_reject_complete.

(* EXACTNESS: an atom unifies with the conjunction iff it satisfies every
   conjunct, and the result is that atom (up to the spelling of a decimal:
   1.0 / 1.00), under the side condition [all_safe] *)
Theorem C03_accumulate_exact_when : forall re cs a, all_safe cs = true ->
  if sat_all re a cs then exists w, run_with re cs a = RAtom w /\ atom_eqb a w = true
  else run_with re cs a = RBottom.
Proof. exact unify_atom_exact_when. Qed.
Print Assumptions C03_accumulate_exact_when.

(* the same for an atom at any position of the conjunction *)
Theorem C03_accumulate_exact_anywhere_when : forall re cs a, all_safe cs = true -> In (CElem (KAtom a)) cs ->
  if sat_all re a cs then exists w, run re cs = RAtom w /\ atom_eqb a w = true
  else run re cs = RBottom.
Proof. exact accumulate_exact_when. Qed.
Print Assumptions C03_accumulate_exact_anywhere_when.

(* bottom only if no atom satisfies the conjunction, under the side condition *)
Theorem C03_bottom_only_if_unsat_when : forall re cs, all_safe cs = true -> run re cs = RBottom ->
  forall a, sat_all re a cs = false.
Proof. exact bottom_only_if_unsat_when. Qed.
Print Assumptions C03_bottom_only_if_unsat_when.

(* when the evaluator reports an atom it is the only candidate (unconditional) *)
Theorem C03_pinned_atom_correct : forall re cs w, run re cs = RAtom w ->
  forall a, sat_all re a cs = true -> atom_eqb a w = true.
Proof. exact pinned_atom_correct. Qed.
Print Assumptions C03_pinned_atom_correct.

(* the verdict of a conjunction containing an atom does not depend on the order *)
Theorem C03_order_independent_when : forall re cs cs' a, Permutation cs cs' -> all_safe cs = true ->
  In (CElem (KAtom a)) cs -> verdict_equiv (run re cs) (run re cs').
Proof. exact order_independent_when. Qed.
Print Assumptions C03_order_independent_when.

(* REFUTED without the side condition (finding C03-F1): a satisfiable conjunction
   that the faithful model - and the implementation - evaluates to bottom *)
Theorem C03_impl_refuted : forall re,
  sat_all re f1_atom f1_cs = true /\
  run re f1_cs = RBottom /\
  run_with re f1_cs f1_atom = RBottom /\
  all_safe f1_cs = false.
Proof. exact impl_refuted. Qed.
Print Assumptions C03_impl_refuted.

(* observation: for atom-free unsatisfiable conjunctions bottom / not-bottom
   depends on the order (allowed by C03: bottom ONLY IF unsatisfiable) *)
Theorem C03_bottom_order_dependent : forall re,
  Permutation od_cs1 od_cs2 /\
  run re od_cs1 = RBottom /\ run re od_cs2 = RIncomplete /\
  all_safe od_cs1 = true /\
  (forall a, sat_all re a od_cs1 = false).
Proof. exact bottom_order_dependent. Qed.
Print Assumptions C03_bottom_order_dependent.

(* ------------------------------------------------------- non-vacuity ---- *)

Example C03_ex_ge1_le1 : forall re,
  run re [B OGe (AInt 1); B OLe (AInt 1)] = RIncomplete /\
  run_with re [B OGe (AInt 1); B OLe (AInt 1)] (AInt 1) = RAtom (AInt 1) /\
  run_with re [B OGe (AInt 1); B OLe (AInt 1)] (fl false 10 (-1)) = RAtom (fl false 10 (-1)) /\
  run_with re [B OGe (AInt 1); B OLe (AInt 1)] (AInt 2) = RBottom.
Proof. exact ex_ge1_le1. Qed.
Print Assumptions C03_ex_ge1_le1.

Example C03_ex_int_frac : forall re,
  let cs := [T TInt; B OGt (fl false 15 (-1)); B OLt (fl false 25 (-1))] in
  run re cs = RIncomplete /\ run_with re cs (AInt 2) = RAtom (AInt 2) /\
  run_with re cs (fl false 20 (-1)) = RBottom /\ run_with re cs (AInt 3) = RBottom /\
  all_safe cs = true.
Proof. exact ex_int_frac. Qed.
Print Assumptions C03_ex_int_frac.

Example C03_ex_gt1_lt2_int_all_orders : forall re,
  let a := B OGt (AInt 1) in let b := B OLt (AInt 2) in let c := T TInt in
  forallb (fun cs => match run re cs with RBottom => true | _ => false end)
          [[a; b; c]; [a; c; b]; [b; a; c]; [b; c; a]; [c; a; b]; [c; b; a]] = true /\
  run re [a; b] = RIncomplete.
Proof. exact ex_gt1_lt2_int_all_orders. Qed.
Print Assumptions C03_ex_gt1_lt2_int_all_orders.

Example C03_ex_gt1_lt3_int : forall re,
  let cs := [B OGt (AInt 1); B OLt (AInt 3); T TInt] in
  run re cs = RIncomplete /\ run_with re cs (AInt 2) = RAtom (AInt 2) /\
  run_with re cs (AInt 1) = RBottom /\ run_with re cs (AInt 3) = RBottom /\
  run_with re cs (fl false 20 (-1)) = RBottom.
Proof. exact ex_gt1_lt3_int. Qed.
Print Assumptions C03_ex_gt1_lt3_int.

Example C03_ex_ne_null_and_kinds : forall re,
  run_with re [B ONe ANull] (AInt 1) = RAtom (AInt 1) /\
  run_with re [B ONe ANull] ANull = RBottom /\
  run_with re [A (AInt 1)] (fl false 10 (-1)) = RBottom /\
  run_with re [B OLe (fl false 10 (-1))] (AInt 1) = RAtom (AInt 1) /\
  run_with re [CRange RFloat32] (AInt 1) = RAtom (AInt 1) /\
  run_with re [CRange RUint8] (AInt 256) = RBottom /\
  run_with re [CRange RUint8] (fl false 10 (-1)) = RBottom.
Proof. exact ex_ne_null_and_kinds. Qed.
Print Assumptions C03_ex_ne_null_and_kinds.

Example C03_ex_exact_hyps :
  let cs := [T TInt; B OGt (fl false 15 (-1)); B OLt (fl false 25 (-1)); A (AInt 2)] in
  all_safe cs = true /\ In (A (AInt 2)) cs /\ sat_all no_re (AInt 2) cs = true /\
  run no_re cs = RAtom (AInt 2).
Proof. exact ex_exact_hyps. Qed.
Print Assumptions C03_ex_exact_hyps.

Example C03_ex_regexp :
  let re := fun p s => match p, s with [94%N; 97%N], (97%N :: _) => true | _, _ => false end in
  run_with re [B OMatch (AStr [94%N; 97%N])] (AStr [97%N; 98%N]) = RAtom (AStr [97%N; 98%N]) /\
  run_with re [B OMatch (AStr [94%N; 97%N])] (AStr [98%N]) = RBottom /\
  run_with re [B ONMatch (AStr [94%N; 97%N])] (AStr [98%N]) = RAtom (AStr [98%N]) /\
  run_with re [B OMatch (AStr [94%N; 97%N])] (AInt 1) = RBottom.
Proof. exact ex_regexp. Qed.
Print Assumptions C03_ex_regexp.
