(* C03 - Unifying scalars, types and bounds is exact set intersection.
   Only statements, closed by [exact], and Print Assumptions. *)
From Verif Require Import Base.Order Scalar.Spec Scalar.Model Scalar.Proofs.
From Coq Require Import List ZArith NArith.
Import ListNotations.

Theorem C03_int_float_distinct : forall re z d,
  sat re (AInt z) (CElem (KAtom (AFloat d))) = false /\
  sat re (AFloat d) (CElem (KAtom (AInt z))) = false /\
  sat re (AInt z) (CElem (KType TFloat)) = false /\
  sat re (AFloat d) (CElem (KType TInt)) = false /\
  sat re (AInt z) (CElem (KType TNumber)) = true /\
  sat re (AFloat d) (CElem (KType TNumber)) = true.
Proof. exact int_float_distinct. Qed.
Print Assumptions C03_int_float_distinct.
