(* C05 - Field constraints, patterns and closedness admit exactly what the spec allows.
   [admits] (Core/Spec.v) is the declarative reading of the property; [admission] shows
   that the evaluator's result tree is concrete and error free exactly when the conjuncts
   (schemas and the data struct) admit.  Only statements, [exact], Print Assumptions. *)
From Verif Require Import Core.Syntax Core.Eval Core.Laws Core.Spec.
From Coq Require Import List.
Import ListNotations.

Theorem C05_admission : forall labs atoms fuel cs,
  res_ok (evalNode labs atoms fuel cs) = admits_conjs labs atoms fuel cs.
Proof. exact admission_conjs. Qed.
Print Assumptions C05_admission.

(* the verdict does not depend on the order / grouping of the schema conjuncts and the data *)
Theorem C05_admits_order_free : forall labs atoms fuel cs cs',
  ceqs cs cs' -> res_ok (evalNode labs atoms fuel cs) = res_ok (evalNode labs atoms fuel cs').
Proof. exact admits_order_free. Qed.
Print Assumptions C05_admits_order_free.

(* a closed struct never silently gains a disallowed field *)
Theorem C05_closed_never_gains : forall labs atoms fuel cs l,
  In l labs -> presence (flat_all cs) l = PRegular -> allowed (n_closers (flat_all cs)) l = false ->
  n_struct (flat_all cs) = true -> res_ok (evalNode labs atoms fuel cs) = false.
Proof. exact closed_never_gains. Qed.
Print Assumptions C05_closed_never_gains.

(* hidden and definition fields are never restricted; an open struct never rejects *)
Theorem C05_special_always_allowed : forall closers l, is_special l = true -> allowed closers l = true.
Proof. exact special_always_allowed. Qed.
Print Assumptions C05_special_always_allowed.

Theorem C05_open_never_rejects : forall closers l, closers = [] -> allowed closers l = true.
Proof. exact open_never_rejects. Qed.
Print Assumptions C05_open_never_rejects.

(* every required field must be present *)
Theorem C05_required_must_be_present : forall labs atoms fuel cs l,
  In l labs -> presence (flat_all cs) l = PRequired -> n_struct (flat_all cs) = true ->
  res_ok (evalNode labs atoms fuel cs) = false.
Proof. exact required_must_be_present. Qed.
Print Assumptions C05_required_must_be_present.

(* non-vacuity: #A & {a: 1} admits, #A & {b: 1} does not, {#A, b: 1} admits (embedding widens),
   close one level vs definition recursively *)
Definition la := LReg 0%N.  Definition lb := LReg 1%N.
Definition labs := [la; lb; LReg 9%N].
Definition atoms := [AInt 1%Z].
Definition one := EScalar (SAtom (AInt 1%Z)).
Definition defA := ERefDef (EStruct [(HField la FOptional, EScalar (SKind KInt))]).
Definition g (e : expr) := mkConj false [e].
Example C05_example_closedness :
  admits_conjs labs atoms 6 [g defA; g (EStruct [(HField la FRegular, one)])] = true /\
  admits_conjs labs atoms 6 [g defA; g (EStruct [(HField lb FRegular, one)])] = false /\
  admits_conjs labs atoms 6 [g (EStruct [(HEmbed, defA); (HField lb FRegular, one)])] = true /\
  admits_conjs labs atoms 6 [g (EStruct [(HEmbed, defA); (HField lb FRegular, one)]);
                            g (EStruct [(HField (LReg 9%N) FRegular, one)])] = false /\
  (* close() closes one level only: close({a: {}}) & {a: {b: 1}} admits *)
  admits_conjs labs atoms 6 [g (EClose (EStruct [(HField la FRegular, EStruct [])]));
                            g (EStruct [(HField la FRegular, EStruct [(HField lb FRegular, one)])])] = true /\
  (* a definition closes recursively *)
  admits_conjs labs atoms 6 [g (ERefDef (EStruct [(HField la FRegular, EStruct [])]));
                            g (EStruct [(HField la FRegular, EStruct [(HField lb FRegular, one)])])] = false.
Proof. vm_compute. repeat split. Qed.
Print Assumptions C05_example_closedness.

(* ======================================================================================= *)
(* clause by clause (Core/Spec2.v)                                                          *)
From Verif Require Import Core.Spec2.

(* ---- 1. optional constraints on absent fields never make a struct fail ------------------ *)
Theorem C05_optional_absent_admits : forall labs atoms fuel cs l e,
  n_struct (flat_all cs) = true ->
  presence (flat_all cs) l <> PRegular ->
  admits_conjs labs atoms fuel (opt_conj l e :: cs) = admits_conjs labs atoms fuel cs.
Proof. exact optional_absent_admits. Qed.
Print Assumptions C05_optional_absent_admits.

Theorem C05_optional_absent_never_fails : forall labs atoms fuel cs l e,
  n_struct (flat_all cs) = true ->
  presence (flat_all cs) l <> PRegular ->
  res_ok (evalNode labs atoms fuel cs) = true ->
  res_ok (evalNode labs atoms fuel (cs ++ [mkConj false [EStruct [(HField l FOptional, e)]]])) = true.
Proof. exact optional_absent_never_fails. Qed.
Print Assumptions C05_optional_absent_never_fails.

Theorem C05_optional_absent_in_literal : forall labs atoms fuel ds es cs l e,
  embed_free ds = true ->
  presence (flat_all (mkConj false (EStruct ds :: es) :: cs)) l <> PRegular ->
  res_ok (evalNode labs atoms fuel (mkConj false (EStruct ((HField l FOptional, e) :: ds) :: es) :: cs)) =
  res_ok (evalNode labs atoms fuel (mkConj false (EStruct ds :: es) :: cs)).
Proof. exact optional_absent_in_literal. Qed.
Print Assumptions C05_optional_absent_in_literal.

Definition two := EScalar (SAtom (AInt 2%Z)).
Definition int := EScalar (SKind KInt).
(* non-vacuity: #A & {a: 1} stays ok when b?: 2 is added (b absent); the side condition is exact:
   a?: 2 for the PRESENT field a makes it fail *)
Example C05_example_optional_absent :
  let cs := [g defA; g (EStruct [(HField la FRegular, one)])] in
  n_struct (flat_all cs) = true /\ presence (flat_all cs) lb = PAbsent /\ presence (flat_all cs) la = PRegular /\
  res_ok (evalNode labs atoms 6 cs) = true /\
  res_ok (evalNode labs atoms 6 (cs ++ [opt_conj lb two])) = true /\
  res_ok (evalNode labs atoms 6 (cs ++ [opt_conj la two])) = false.
Proof. vm_compute. repeat split. Qed.
Print Assumptions C05_example_optional_absent.

(* ---- 2. the constraints matching a present field are satisfied --------------------------- *)
(* the groups handed to the child at l hold exactly the values declared for l and the values of
   the patterns matching l, of every conjunct *)
Theorem C05_children_values : forall fl l v,
  (exists c, In c (children fl l) /\ In v (c_exprs c)) <->
  (exists p, In p (n_parts fl) /\
     ((exists f, In f (gp_fields p) /\ label_eqb (fst (fst f)) l = true /\ snd f = v) \/
      (exists q, In q (gp_pats p) /\ pat_matches (fst q) l = true /\ snd q = v))).
Proof. exact children_values_spelled. Qed.
Print Assumptions C05_children_values.

Theorem C05_present_field_child : forall labs atoms f cs l,
  n_struct (flat_all cs) = true -> In l labs -> presence (flat_all cs) l = PRegular ->
  res_ok (evalNode labs atoms (S f) cs) = true ->
  field_at labs (evalNode labs atoms (S f) cs) l =
    Some (PRegular, evalNode labs atoms f (children (flat_all cs) l)) /\
  allowed (n_closers (flat_all cs)) l = true /\
  res_ok (evalNode labs atoms f (children (flat_all cs) l)) = true.
Proof. exact present_field_child. Qed.
Print Assumptions C05_present_field_child.

Theorem C05_present_scalar_constraints_hold : forall labs atoms f cs l,
  n_struct (flat_all cs) = true -> In l labs -> presence (flat_all cs) l = PRegular ->
  res_ok (evalNode labs atoms (S (S f)) cs) = true ->
  forall p0 c0, In p0 (n_parts (flat_all cs)) -> In (EScalar c0) (part_values p0 l) ->
  exists a, In a atoms /\
            forall p c, In p (n_parts (flat_all cs)) -> In (EScalar c) (part_values p l) -> ssat a c = true.
Proof. exact present_scalar_constraints_hold. Qed.
Print Assumptions C05_present_scalar_constraints_hold.

(* non-vacuity: {a: 1} & {[a or b]: int} & {a?: >0}: the child at a is the evaluation of the three
   constraints; with the pattern value string instead of int the struct fails *)
Example C05_example_present_field :
  let cs := [g (EStruct [(HField la FRegular, one)]); g (EStruct [(HPattern [0%N; 1%N], int)]);
             g (EStruct [(HField la FOptional, EScalar (SGt 0))])] in
  children (flat_all cs) la = [mkConj false [one; int; EScalar (SGt 0)]] /\
  res_ok (evalNode labs atoms 6 cs) = true /\
  field_at labs (evalNode labs atoms 6 cs) la = Some (PRegular, evalNode labs atoms 5 (children (flat_all cs) la)) /\
  res_ok (evalNode labs atoms 6
     [g (EStruct [(HField la FRegular, one)]); g (EStruct [(HPattern [0%N; 1%N], EScalar (SKind KStr))])]) = false.
Proof. vm_compute. repeat split. Qed.
Print Assumptions C05_example_present_field.

(* ---- 3. definitions close recursively ------------------------------------------------------ *)
Theorem C05_rec_children_rec : forall cs l,
  (forall g, In g cs -> c_rec g = true) -> forall c, In c (children (flat_all cs) l) -> c_rec c = true.
Proof. exact rec_children_rec. Qed.
Print Assumptions C05_rec_children_rec.

(* ... at every depth *)
Theorem C05_rec_descend_rec : forall path cs,
  (forall g, In g cs -> c_rec g = true) -> forall c, In c (descend cs path) -> c_rec c = true.
Proof. exact rec_descend_rec. Qed.
Print Assumptions C05_rec_descend_rec.

Theorem C05_def_child_group : forall cs g ds l,
  In g cs -> In (ERefDef (EStruct ds)) (c_exprs g) -> embed_free ds = true ->
  null (part_values (mkPart true (fields_of ds) (pats_of ds)) l) = false ->
  In (mkConj true (part_values (mkPart true (fields_of ds) (pats_of ds)) l)) (children (flat_all cs) l).
Proof. exact def_child_group. Qed.
Print Assumptions C05_def_child_group.

Theorem C05_rec_group_rejects : forall cs g l,
  In g cs -> c_rec g = true -> existsb own_lit (c_exprs g) = true ->
  allows (all_declared (c_exprs g)) l = false -> is_special l = false ->
  allowed (n_closers (flat_all cs)) l = false.
Proof. exact rec_group_rejects. Qed.
Print Assumptions C05_rec_group_rejects.

Theorem C05_rec_descend_rejects : forall path cs c l,
  (forall g, In g cs -> c_rec g = true) -> In c (descend cs path) ->
  existsb own_lit (c_exprs c) = true -> allows (all_declared (c_exprs c)) l = false -> is_special l = false ->
  allowed (n_closers (flat_all (descend cs path))) l = false.
Proof. exact rec_descend_rejects. Qed.
Print Assumptions C05_rec_descend_rejects.

Theorem C05_def_closes_recursively : forall labs atoms fuel cs g ds gd dds dds2 l1 l2 v,
  In g cs -> In (ERefDef (EStruct ds)) (c_exprs g) -> embed_free ds = true ->
  In gd cs -> In (EStruct dds) (c_exprs gd) -> embed_free dds = true ->
  In (HField l1 FRegular, EStruct dds2) dds -> embed_free dds2 = true -> In (HField l2 FRegular, v) dds2 ->
  existsb own_lit (part_values (mkPart true (fields_of ds) (pats_of ds)) l1) = true ->
  allows (all_declared (part_values (mkPart true (fields_of ds) (pats_of ds)) l1)) l2 = false ->
  is_special l2 = false -> In l1 labs -> In l2 labs ->
  res_ok (evalNode labs atoms fuel cs) = false.
Proof. exact def_closes_recursively. Qed.
Print Assumptions C05_def_closes_recursively.

(* non-vacuity: #D: {a: {c?: int}} & {a: {b: 1}}: the hypotheses hold and it fails; with the declared c it
   is ok; the groups two levels down are still recursively closed *)
Definition lc := LReg 2%N.
Definition labs3 := [la; lb; lc].
Definition dsD := [(HField la FRegular, EStruct [(HField lc FOptional, int)])].
Example C05_example_def_recursive :
  existsb own_lit (part_values (mkPart true (fields_of dsD) (pats_of dsD)) la) = true /\
  allows (all_declared (part_values (mkPart true (fields_of dsD) (pats_of dsD)) la)) lb = false /\
  allows (all_declared (part_values (mkPart true (fields_of dsD) (pats_of dsD)) la)) lc = true /\
  res_ok (evalNode labs3 atoms 6 [g (ERefDef (EStruct dsD));
                                  g (EStruct [(HField la FRegular, EStruct [(HField lb FRegular, one)])])]) = false /\
  res_ok (evalNode labs3 atoms 6 [g (ERefDef (EStruct dsD));
                                  g (EStruct [(HField la FRegular, EStruct [(HField lc FRegular, one)])])]) = true /\
  descend [mkConj true [EStruct [(HField la FRegular, EStruct [(HField lb FRegular, EStruct [])])]]] [la; lb]
    = [mkConj true [EStruct []]] /\
  allowed (n_closers (flat_all (descend
    [mkConj true [EStruct [(HField la FRegular, EStruct [(HField lb FRegular, EStruct [])])]]] [la; lb]))) lc = false.
Proof. vm_compute. repeat split. Qed.
Print Assumptions C05_example_def_recursive.

(* ---- 4. close() closes one level -------------------------------------------------------------- *)
Theorem C05_close_one_level : forall cs l,
  (forall g, In g cs -> c_rec g = false /\ forall e, In e (c_exprs g) -> one_level e = true) ->
  n_closers (flat_all (children (flat_all cs) l)) = [].
Proof. exact close_one_level. Qed.
Print Assumptions C05_close_one_level.

Theorem C05_close_one_level_allows : forall cs l l',
  (forall g, In g cs -> c_rec g = false /\ forall e, In e (c_exprs g) -> one_level e = true) ->
  allowed (n_closers (flat_all (children (flat_all cs) l))) l' = true.
Proof. exact close_one_level_allows. Qed.
Print Assumptions C05_close_one_level_allows.

Theorem C05_close_rejects_undeclared : forall cs g b l,
  In g cs -> In (EClose b) (c_exprs g) -> allows (declared b) l = false -> is_special l = false ->
  allowed (n_closers (flat_all cs)) l = false.
Proof. exact close_rejects_undeclared. Qed.
Print Assumptions C05_close_rejects_undeclared.

(* an open struct (no definition, no close() at its level, not below a definition) has no closer *)
Theorem C05_plain_never_rejects : forall cs l,
  (forall g, In g cs -> c_rec g = false /\ forall e, In e (c_exprs g) -> plain e = true) ->
  allowed (n_closers (flat_all cs)) l = true.
Proof. exact plain_never_rejects. Qed.
Print Assumptions C05_plain_never_rejects.

(* non-vacuity: close({a: {}}) & {a: {b: 1}}: one closer at the top (b rejected there), none below *)
Example C05_example_close_one_level :
  let cs := [g (EClose (EStruct [(HField la FRegular, EStruct [])]));
             g (EStruct [(HField la FRegular, EStruct [(HField lb FRegular, one)])])] in
  forallb (fun c => negb (c_rec c) && forallb one_level (c_exprs c)) cs = true /\
  allowed (n_closers (flat_all cs)) lb = false /\
  n_closers (flat_all (children (flat_all cs) la)) = [] /\
  res_ok (evalNode labs atoms 6 cs) = true /\
  res_ok (evalNode labs atoms 6 [g (EClose (EStruct [(HField la FRegular, EStruct [])]));
                                 g (EStruct [(HField lb FRegular, one)])]) = false.
Proof. vm_compute. repeat split. Qed.
Print Assumptions C05_example_close_one_level.

(* ---- 5. embeddings widen the enclosing struct --------------------------------------------------- *)
Theorem C05_embedding_widens : forall pre ds0 post l,
  embed_free pre = true -> embed_free post = true -> embed_free ds0 = true ->
  allowed (n_closers (flat_all [mkConj false [EStruct (pre ++ (HEmbed, ERefDef (EStruct ds0)) :: post)]])) l =
  is_special l || allows (declared (EStruct ds0)) l ||
  existsb (fun d => allows (decl_declared d) l) (pre ++ post).
Proof. exact embedding_widens. Qed.
Print Assumptions C05_embedding_widens.

Theorem C05_definition_alone_allows : forall ds0 l,
  embed_free ds0 = true ->
  allowed (n_closers (flat_all [mkConj false [ERefDef (EStruct ds0)]])) l =
  is_special l || allows (declared (EStruct ds0)) l.
Proof. exact definition_alone_allows. Qed.
Print Assumptions C05_definition_alone_allows.

Theorem C05_embedding_widens_declared : forall pre ds0 post l k v,
  embed_free pre = true -> embed_free post = true -> embed_free ds0 = true ->
  In (HField l k, v) (pre ++ post) ->
  allowed (n_closers (flat_all [mkConj false [EStruct (pre ++ (HEmbed, ERefDef (EStruct ds0)) :: post)]])) l = true.
Proof. exact embedding_widens_declared. Qed.
Print Assumptions C05_embedding_widens_declared.

Theorem C05_embedding_still_closed : forall pre ds0 post cs l,
  embed_free pre = true -> embed_free post = true -> embed_free ds0 = true ->
  is_special l = false -> allows (declared (EStruct ds0)) l = false ->
  existsb (fun d => allows (decl_declared d) l) (pre ++ post) = false ->
  allowed (n_closers (flat_all (mkConj false [EStruct (pre ++ (HEmbed, ERefDef (EStruct ds0)) :: post)] :: cs))) l = false.
Proof. exact embedding_still_closed. Qed.
Print Assumptions C05_embedding_still_closed.

(* non-vacuity: #A: {a?: int}; {#A, b: 1} allows b, #A alone does not, and label 9 stays rejected *)
Example C05_example_embedding :
  let dsA := [(HField la FOptional, int)] in
  allowed (n_closers (flat_all [g (ERefDef (EStruct dsA))])) lb = false /\
  allowed (n_closers (flat_all [g (EStruct ([] ++ (HEmbed, ERefDef (EStruct dsA)) :: [(HField lb FRegular, one)]))])) lb = true /\
  allowed (n_closers (flat_all [g (EStruct ([] ++ (HEmbed, ERefDef (EStruct dsA)) :: [(HField lb FRegular, one)]))])) (LReg 9%N) = false /\
  allowed (n_closers (flat_all [g (EStruct ([(HField lb FRegular, one)] ++ (HEmbed, ERefDef (EStruct dsA)) :: []))])) lb = true.
Proof. vm_compute. repeat split. Qed.
Print Assumptions C05_example_embedding.

(* ---- 6. an ellipsis opens -------------------------------------------------------------------------- *)
Theorem C05_ellipsis_opens_definition : forall ds x l,
  embed_free ds = true -> In (HEllipsis, x) ds ->
  allowed (n_closers (flat_all [mkConj false [ERefDef (EStruct ds)]])) l = true.
Proof. exact ellipsis_opens_definition. Qed.
Print Assumptions C05_ellipsis_opens_definition.

Theorem C05_ellipsis_opens_close : forall ds x l,
  embed_free ds = true -> In (HEllipsis, x) ds ->
  allowed (n_closers (flat_all [mkConj false [EClose (EStruct ds)]])) l = true.
Proof. exact ellipsis_opens_close. Qed.
Print Assumptions C05_ellipsis_opens_close.

Theorem C05_ellipsis_opens_nested : forall ds x l,
  embed_free ds = true -> In (HEllipsis, x) ds ->
  allowed (n_closers (flat_all [mkConj true [EStruct ds]])) l = true.
Proof. exact ellipsis_opens_nested. Qed.
Print Assumptions C05_ellipsis_opens_nested.

Theorem C05_no_ellipsis_nested_rejects : forall ds l,
  embed_free ds = true -> is_special l = false -> allows (declared (EStruct ds)) l = false ->
  allowed (n_closers (flat_all [mkConj true [EStruct ds]])) l = false.
Proof. exact no_ellipsis_nested_rejects. Qed.
Print Assumptions C05_no_ellipsis_nested_rejects.

(* non-vacuity: #D: {a?: int, ...} & {b: 1} is ok, without the ellipsis it fails; also one level down *)
Example C05_example_ellipsis :
  res_ok (evalNode labs atoms 6 [g (ERefDef (EStruct [(HField la FOptional, int); (HEllipsis, ETop)]));
                                 g (EStruct [(HField lb FRegular, one)])]) = true /\
  res_ok (evalNode labs atoms 6 [g (ERefDef (EStruct [(HField la FOptional, int)]));
                                 g (EStruct [(HField lb FRegular, one)])]) = false /\
  res_ok (evalNode labs atoms 6 [g (ERefDef (EStruct [(HField la FRegular, EStruct [(HEllipsis, ETop)])]));
                                 g (EStruct [(HField la FRegular, EStruct [(HField lb FRegular, one)])])]) = true /\
  allowed (n_closers (flat_all [mkConj true [EStruct [(HField la FOptional, int)]]])) lb = false.
Proof. vm_compute. repeat split. Qed.
Print Assumptions C05_example_ellipsis.

(* ---- 7. monotonicity --------------------------------------------------------------------------------- *)
(* an error never goes away by unifying more: more conjuncts, or more members of an open group *)
Theorem C05_err_monotone_cle : forall labs atoms fuel cs cs',
  (forall c, In c cs -> exists c', In c' cs' /\ c_rec c = c_rec c' /\
     if c_rec c then (forall x, In x (c_exprs c) <-> In x (c_exprs c')) else incl (c_exprs c) (c_exprs c')) ->
  res_err (evalNode labs atoms fuel cs) = true -> res_err (evalNode labs atoms fuel cs') = true.
Proof. exact err_monotone_cle. Qed.
Print Assumptions C05_err_monotone_cle.

Theorem C05_err_monotone : forall labs atoms fuel cs extra,
  res_err (evalNode labs atoms fuel cs) = true -> res_err (evalNode labs atoms fuel (cs ++ extra)) = true.
Proof. exact err_monotone. Qed.
Print Assumptions C05_err_monotone.

Theorem C05_ok_with_more_not_err : forall labs atoms fuel cs extra,
  res_ok (evalNode labs atoms fuel (cs ++ extra)) = true -> res_err (evalNode labs atoms fuel cs) = false.
Proof. exact ok_with_more_not_err. Qed.
Print Assumptions C05_ok_with_more_not_err.

(* the verdict itself is not antitone (a schema alone is not concrete): {a: int} vs {a: int} & {a: 1} *)
Theorem C05_ok_not_antitone_refuted :
  exists labs atoms fuel cs c,
    res_ok (evalNode labs atoms fuel (cs ++ [c])) = true /\ res_ok (evalNode labs atoms fuel cs) = false.
Proof. exact ok_not_antitone_refuted. Qed.
Print Assumptions C05_ok_not_antitone_refuted.

(* non-vacuity: #A & {b: 1} is in error and stays so when {b?: _} / more data is unified in *)
Example C05_example_err_monotone :
  let cs := [g defA; g (EStruct [(HField lb FRegular, one)])] in
  res_err (evalNode labs atoms 6 cs) = true /\
  res_err (evalNode labs atoms 6 (cs ++ [g (EStruct [(HField lb FOptional, ETop); (HEllipsis, ETop)])])) = true /\
  res_ok (evalNode labs atoms 6 ([g defA] ++ [g (EStruct [(HField la FRegular, one)])])) = true /\
  res_err (evalNode labs atoms 6 [g defA]) = false.
Proof. vm_compute. repeat split. Qed.
Print Assumptions C05_example_err_monotone.
