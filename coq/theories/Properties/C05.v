(* C05 - Field constraints, patterns and closedness admit exactly what the spec allows.
   [admits] (Core/Spec.v) is the declarative reading of the property; [admission] shows
   that the evaluator's result tree is concrete and error free exactly when the conjuncts
   (schemas and the data struct) admit.  Only statements, [exact], Print Assumptions. *)
From Verif Require Import Core.Syntax Core.Eval Core.Laws Core.Spec.
From Coq Require Import List.
Import ListNotations.

Theorem C05_admission : forall labs atoms fuel cs,
  res_ok (evalNode labs atoms fuel cs) = admits_conjs labs atoms fuel cs.
Proof. exact admission_conjs. Qed.
Print Assumptions C05_admission.

(* the verdict does not depend on the order / grouping of the schema conjuncts and the data *)
Theorem C05_admits_order_free : forall labs atoms fuel cs cs',
  ceqs cs cs' -> res_ok (evalNode labs atoms fuel cs) = res_ok (evalNode labs atoms fuel cs').
Proof. exact admits_order_free. Qed.
Print Assumptions C05_admits_order_free.

(* a closed struct never silently gains a disallowed field *)
Theorem C05_closed_never_gains : forall labs atoms fuel cs l,
  In l labs -> presence (flat_all cs) l = PRegular -> allowed (n_closers (flat_all cs)) l = false ->
  n_struct (flat_all cs) = true -> res_ok (evalNode labs atoms fuel cs) = false.
Proof. exact closed_never_gains. Qed.
Print Assumptions C05_closed_never_gains.

(* hidden and definition fields are never restricted; an open struct never rejects *)
Theorem C05_special_always_allowed : forall closers l, is_special l = true -> allowed closers l = true.
Proof. exact special_always_allowed. Qed.
Print Assumptions C05_special_always_allowed.

Theorem C05_open_never_rejects : forall closers l, closers = [] -> allowed closers l = true.
Proof. exact open_never_rejects. Qed.
Print Assumptions C05_open_never_rejects.

(* every required field must be present *)
Theorem C05_required_must_be_present : forall labs atoms fuel cs l,
  In l labs -> presence (flat_all cs) l = PRequired -> n_struct (flat_all cs) = true ->
  res_ok (evalNode labs atoms fuel cs) = false.
Proof. exact required_must_be_present. Qed.
Print Assumptions C05_required_must_be_present.

(* non-vacuity: #A & {a: 1} admits, #A & {b: 1} does not, {#A, b: 1} admits (embedding widens),
   close one level vs definition recursively *)
Definition la := LReg 0%N.  Definition lb := LReg 1%N.
Definition labs := [la; lb; LReg 9%N].
Definition atoms := [AInt 1%Z].
Definition one := EScalar (SAtom (AInt 1%Z)).
Definition defA := ERefDef (EStruct [(HField la FOptional, EScalar (SKind KInt))]).
Definition g (e : expr) := mkConj false [e].
Example C05_example_closedness :
  admits_conjs labs atoms 6 [g defA; g (EStruct [(HField la FRegular, one)])] = true /\
  admits_conjs labs atoms 6 [g defA; g (EStruct [(HField lb FRegular, one)])] = false /\
  admits_conjs labs atoms 6 [g (EStruct [(HEmbed, defA); (HField lb FRegular, one)])] = true /\
  admits_conjs labs atoms 6 [g (EStruct [(HEmbed, defA); (HField lb FRegular, one)]);
                            g (EStruct [(HField (LReg 9%N) FRegular, one)])] = false /\
  (* close() closes one level only: close({a: {}}) & {a: {b: 1}} admits *)
  admits_conjs labs atoms 6 [g (EClose (EStruct [(HField la FRegular, EStruct [])]));
                            g (EStruct [(HField la FRegular, EStruct [(HField lb FRegular, one)])])] = true /\
  (* a definition closes recursively *)
  admits_conjs labs atoms 6 [g (ERefDef (EStruct [(HField la FRegular, EStruct [])]));
                            g (EStruct [(HField la FRegular, EStruct [(HField lb FRegular, one)])])] = false.
Proof. vm_compute. repeat split. Qed.
Print Assumptions C05_example_closedness.
