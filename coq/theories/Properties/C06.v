(* C06 - Arithmetic, comparison and numeric builtins are exact.
   This file contains only statements, closed by [exact], and Print Assumptions. *)
From Verif Require Import Base.Order Num.Decimal Num.CmpProofs.
From Coq Require Import List NArith ZArith.
Import ListNotations.

(* strings.Compare / bytes.Compare: a total order on byte strings *)
Theorem C06_bytes_cmp_total_order : total_cmp bytes_cmp.
Proof. exact bytes_cmp_total. Qed.
Print Assumptions C06_bytes_cmp_total_order.
