(* C06 - Arithmetic, comparison and numeric builtins are exact.
   This file contains only statements, closed by [exact], and Print Assumptions.

   Models (implementation-faithful, see the headers of the files):
     Num/Decimal.v  apd decimals at precision 34 as used by adt.numOp (dadd dsub dmul dquo dcmp ...)
     Num/IntDiv.v   intDivOp: div mod quo rem
     Num/NumLit.v   literal.ParseNum + NumInfo.decimal, byte level
   Specification layer:
     Num/DVal.v           dval : dec -> Q, the rational a decimal denotes (p10 e = 10^e in Q)
     Num/IntDivProofs.v   ival : dec -> Z, the integer an int-kinded decimal denotes
     Num/NumLitGrammar.v  the literals of doc/ref/spec.md as a generative grammar (render : lit -> bytes)
     Num/NumLitSpec.v     the value a scanned literal denotes exactly
   (Related statements are grouped into one conjunction each: every Print Assumptions costs
   about 0.6 s whatever the statement.) *)
From Verif Require Import Base.Order Num.Decimal Num.IntDiv Num.Eval Num.NumLit Num.NumLitSpec
     Num.DVal Num.DigitsProofs Num.RoundProofs Num.ArithProofs Num.QuoProofs Num.QuoExactProofs Num.DcmpProofs
     Num.CmpProofs Num.IntDivProofs Num.NumLitProofs Num.NumLitGrammar Num.LitProofs Num.LitValueProofs
     Num.Examples.
From Coq Require Import List NArith ZArith QArith Qabs.
Import ListNotations.
Local Open Scope Q_scope.

(* ------------------------------------------------------------------ *)
(* digits and rounding (apd NumDigits, Rounder.Round half-up)          *)

Theorem C06_digits_characterised : forall n,
  (n < pow10 (digits n))%N /\ (digits n = 1 \/ pow10 (digits n - 1) <= n)%N /\ (1 <= digits n)%N.
Proof. exact digits_spec. Qed.
Print Assumptions C06_digits_characterised.

(* Round to p digits: at most p digits; identity when the coefficient fits *)
Theorem C06_round_digits_and_identity : forall p d,
  ((1 <= p)%N -> (digits (coeff (round p d)) <= p)%N) /\ ((digits (coeff d) <= p)%N -> round p d = d).
Proof. exact (fun p d => conj (round_digits p d) (round_small p d)). Qed.
Print Assumptions C06_round_digits_and_identity.

(* otherwise: within half a unit of the last kept digit, a multiple of that unit, ties away
   from zero - i.e. THE half-up rounding of the value *)
Theorem C06_round_correct : forall p d, (p < digits (coeff d))%N ->
  2 * Qabs (dval (round p d) - dval d) <= ulp p d /\
  (exists k : Z, dval (round p d) == inject_Z k * ulp p d) /\
  (2 * Qabs (dval (round p d) - dval d) == ulp p d -> Qabs (dval d) < Qabs (dval (round p d))).
Proof. exact (fun p d H => conj (round_error p d H) (conj (round_multiple p d H) (round_tie_away p d H))). Qed.
Print Assumptions C06_round_correct.

(* the Inexact condition bit is exactly "the value changed" *)
Theorem C06_round_inexact_flag : forall p d,
  snd (round_flag p d) = false <-> dval (round p d) == dval d.
Proof. exact round_exact_iff. Qed.
Print Assumptions C06_round_inexact_flag.

(* ------------------------------------------------------------------ *)
(* + - * : exact result, then Round at precision 34                    *)

Theorem C06_exact_layer_values : forall x y,
  dval (add_exact x y) == dval x + dval y /\ dval (sub_exact x y) == dval x - dval y /\
  dval (mul_exact x y) == dval x * dval y /\ dval (dneg x) == - dval x.
Proof.
  exact (fun x y => conj (add_exact_val x y) (conj (sub_exact_val x y) (conj (mul_exact_val x y) (dneg_val x)))).
Qed.
Print Assumptions C06_exact_layer_values.

(* add (dadd = round34 o add_exact): correctly rounded to 34 significant digits *)
Theorem C06_add_correctly_rounded : forall x y,
  (34 < digits (coeff (add_exact x y)))%N ->
  let u := ulp 34 (add_exact x y) in
  2 * Qabs (dval (dadd x y) - (dval x + dval y)) <= u /\
  (exists k : Z, dval (dadd x y) == inject_Z k * u) /\
  (2 * Qabs (dval (dadd x y) - (dval x + dval y)) == u -> Qabs (dval x + dval y) < Qabs (dval (dadd x y))).
Proof. exact (rop_correctly_rounded add_exact Qplus add_exact_val). Qed.
Print Assumptions C06_add_correctly_rounded.

Theorem C06_sub_mul_correctly_rounded : forall x y,
  ((34 < digits (coeff (sub_exact x y)))%N ->
   let u := ulp 34 (sub_exact x y) in
   2 * Qabs (dval (dsub x y) - (dval x - dval y)) <= u /\
   (exists k : Z, dval (dsub x y) == inject_Z k * u) /\
   (2 * Qabs (dval (dsub x y) - (dval x - dval y)) == u -> Qabs (dval x - dval y) < Qabs (dval (dsub x y)))) /\
  ((34 < digits (coeff (mul_exact x y)))%N ->
   let u := ulp 34 (mul_exact x y) in
   2 * Qabs (dval (dmul x y) - (dval x * dval y)) <= u /\
   (exists k : Z, dval (dmul x y) == inject_Z k * u) /\
   (2 * Qabs (dval (dmul x y) - (dval x * dval y)) == u -> Qabs (dval x * dval y) < Qabs (dval (dmul x y)))).
Proof.
  exact (fun x y => conj (rop_correctly_rounded sub_exact Qminus sub_exact_val x y)
                         (rop_correctly_rounded mul_exact Qmult mul_exact_val x y)).
Qed.
Print Assumptions C06_sub_mul_correctly_rounded.

(* representation-independent: relative error at most 5 * 10^-34, for all operands *)
Theorem C06_add_sub_mul_relative_error : forall x y,
  2 * Qabs (dval (dadd x y) - (dval x + dval y)) * p10 33 <= Qabs (dval x + dval y) /\
  2 * Qabs (dval (dsub x y) - (dval x - dval y)) * p10 33 <= Qabs (dval x - dval y) /\
  2 * Qabs (dval (dmul x y) - (dval x * dval y)) * p10 33 <= Qabs (dval x * dval y).
Proof.
  exact (fun x y => conj (rop_relative_error add_exact Qplus add_exact_val x y)
                   (conj (rop_relative_error sub_exact Qminus sub_exact_val x y)
                         (rop_relative_error mul_exact Qmult mul_exact_val x y))).
Qed.
Print Assumptions C06_add_sub_mul_relative_error.

(* exact whenever the exact result has at most 34 digits *)
Theorem C06_add_sub_mul_exact_when_fits : forall x y,
  ((digits (coeff (add_exact x y)) <= 34)%N -> dval (dadd x y) == dval x + dval y) /\
  ((digits (coeff (sub_exact x y)) <= 34)%N -> dval (dsub x y) == dval x - dval y) /\
  ((digits (coeff (mul_exact x y)) <= 34)%N -> dval (dmul x y) == dval x * dval y).
Proof.
  exact (fun x y => conj (rop_exact_when_fits add_exact Qplus add_exact_val x y)
                   (conj (rop_exact_when_fits sub_exact Qminus sub_exact_val x y)
                         (rop_exact_when_fits mul_exact Qmult mul_exact_val x y))).
Qed.
Print Assumptions C06_add_sub_mul_exact_when_fits.

(* and exactly then (the Inexact bit of the rounding step) *)
Theorem C06_add_sub_mul_exact_iff : forall x y,
  (snd (round_flag 34 (add_exact x y)) = false <-> dval (dadd x y) == dval x + dval y) /\
  (snd (round_flag 34 (sub_exact x y)) = false <-> dval (dsub x y) == dval x - dval y) /\
  (snd (round_flag 34 (mul_exact x y)) = false <-> dval (dmul x y) == dval x * dval y).
Proof.
  exact (fun x y => conj (rop_exact_iff add_exact Qplus add_exact_val x y)
                   (conj (rop_exact_iff sub_exact Qminus sub_exact_val x y)
                         (rop_exact_iff mul_exact Qmult mul_exact_val x y))).
Qed.
Print Assumptions C06_add_sub_mul_exact_iff.

(* integers below 10^34 in magnitude: exact, and still an integer representation *)
Theorem C06_int_arith_exact_when : forall x y,
  exp x = 0%Z -> exp y = 0%Z ->
  ((Z.abs (sc x + sc y) < 10 ^ 34)%Z -> exp (dadd x y) = 0%Z /\ sc (dadd x y) = (sc x + sc y)%Z) /\
  ((Z.abs (sc x - sc y) < 10 ^ 34)%Z -> exp (dsub x y) = 0%Z /\ sc (dsub x y) = (sc x - sc y)%Z) /\
  ((Z.abs (sc x * sc y) < 10 ^ 34)%Z -> exp (dmul x y) = 0%Z /\ sc (dmul x y) = (sc x * sc y)%Z).
Proof.
  exact (fun x y ex ey => conj (int_add_exact_when x y ex ey)
                         (conj (int_sub_exact_when x y ex ey) (int_mul_exact_when x y ex ey))).
Qed.
Print Assumptions C06_int_arith_exact_when.

(* THE PROPERTY AS WORDED IS FALSE OF THE FAITHFUL MODEL (finding F1):
   two int operands whose int-kinded sum is not their sum (10^36 + 1) *)
Theorem C06_int_add_exact_refuted :
  exists a b r, num_op OpAdd (int_lit a) (int_lit b) = Ok r /\ nk r = KInt /\
                ~ dval (nd r) == dval (nd (int_lit a)) + dval (nd (int_lit b)).
Proof. exact num_op_add_refuted. Qed.
Print Assumptions C06_int_add_exact_refuted.

Theorem C06_int_mul_exact_refuted :
  exists a b r, num_op OpMul (int_lit a) (int_lit b) = Ok r /\ nk r = KInt /\
                ~ dval (nd r) == dval (nd (int_lit a)) * dval (nd (int_lit b)).
Proof. exact num_op_mul_refuted. Qed.
Print Assumptions C06_int_mul_exact_refuted.

(* ------------------------------------------------------------------ *)
(* kinds and errors of numOp                                           *)

Theorem C06_result_kind_and_errors : forall op x y,
  (forall r, num_op op x y = Ok r ->
     nk r = match op with
            | OpQuo => KFloat
            | _ => match nk x, nk y with KInt, KInt => KInt | _, _ => KFloat end
            end) /\
  (num_op op x y = Err <-> (op = OpQuo /\ coeff (nd y) = 0%N)).
Proof. exact (fun op x y => conj (num_op_kind op x y) (num_op_total op x y)). Qed.
Print Assumptions C06_result_kind_and_errors.

(* ------------------------------------------------------------------ *)
(* / : correctly rounded to 34 significant digits                      *)

(* q = x / y: |q*y - x| <= 1/2 * 10^E * |y| where 10^E is at most the unit of the 34th
   significant digit of q *)
Theorem C06_quo_correctly_rounded : forall x y,
  coeff y <> 0%N ->
  exists E : Z,
    2 * Qabs (dval (dquo x y) * dval y - dval x) <= p10 E * Qabs (dval y) /\
    (coeff x <> 0%N -> p10 (E + 33) <= Qabs (dval (dquo x y))) /\
    (coeff x = 0%N -> dval (dquo x y) == 0).
Proof. exact dquo_correctly_rounded. Qed.
Print Assumptions C06_quo_correctly_rounded.

(* no representable quotient is lost: if x / y is a decimal of at most 34 digits, dquo returns it;
   in particular every integer quotient below 10^34 ("never loses integer exactness") *)
Theorem C06_quo_exact_when_representable :
  (forall x y r, coeff x <> 0%N -> coeff y <> 0%N -> (digits (coeff r) <= 34)%N ->
     dval r * dval y == dval x -> dval (dquo x y) == dval r) /\
  (forall x y (n : Z), coeff x <> 0%N -> coeff y <> 0%N -> (Z.abs n < 10 ^ 34)%Z ->
     inject_Z n * dval y == dval x -> dval (dquo x y) == inject_Z n).
Proof. exact (conj dquo_exact_when_representable dquo_integer_exact). Qed.
Print Assumptions C06_quo_exact_when_representable.

Theorem C06_quo_sign_and_reduce : forall x y,
  (coeff x <> 0%N -> coeff y <> 0%N -> neg (dquo x y) = xorb (neg x) (neg y)) /\
  dval (reduce_keeping_floats x) == dval x.
Proof. exact (fun x y => conj (dquo_sign x y) (reduce_keeping_floats_val x)). Qed.
Print Assumptions C06_quo_sign_and_reduce.

(* ------------------------------------------------------------------ *)
(* comparison                                                          *)

(* Decimal.Cmp is the order of the denoted rationals, hence a total preorder on
   representations (a total order on values) *)
Theorem C06_cmp_spec : forall d x, dcmp d x = (dval d ?= dval x).
Proof. exact dcmp_spec. Qed.
Print Assumptions C06_cmp_spec.

Theorem C06_cmp_total_order : total_pre dcmp /\ (forall d x, dcmp d x = Eq <-> dval d == dval x).
Proof. exact (conj dcmp_total_pre dcmp_eq_iff). Qed.
Print Assumptions C06_cmp_total_order.

(* the six operators on two numbers, int or float alike *)
Theorem C06_comparison_operators : forall x y,
  (num_cmp CLt x y = true <-> dval (nd x) < dval (nd y)) /\
  (num_cmp CLe x y = true <-> dval (nd x) <= dval (nd y)) /\
  (num_cmp CEq x y = true <-> dval (nd x) == dval (nd y)) /\
  (num_cmp CNe x y = true <-> ~ dval (nd x) == dval (nd y)) /\
  (num_cmp CGe x y = true <-> dval (nd y) <= dval (nd x)) /\
  (num_cmp CGt x y = true <-> dval (nd y) < dval (nd x)).
Proof. exact num_cmp_spec. Qed.
Print Assumptions C06_comparison_operators.

(* strings.Compare / bytes.Compare: a total order on byte strings; the six operators are the
   six relations of one three-way comparison *)
Theorem C06_bytes_cmp_total_order :
  total_cmp bytes_cmp /\
  forall r,
    cmp_to_bool CNe r = negb (cmp_to_bool CEq r) /\
    cmp_to_bool CGe r = negb (cmp_to_bool CLt r) /\
    cmp_to_bool CLe r = negb (cmp_to_bool CGt r) /\
    cmp_to_bool CLe r = (cmp_to_bool CLt r || cmp_to_bool CEq r)%bool /\
    (cmp_to_bool CLt r = true <-> r = Lt) /\
    (cmp_to_bool CEq r = true <-> r = Eq) /\
    (cmp_to_bool CGt r = true <-> r = Gt).
Proof. exact (conj bytes_cmp_total cmp_ops_consistent). Qed.
Print Assumptions C06_bytes_cmp_total_order.

(* ------------------------------------------------------------------ *)
(* div mod quo rem (ival d = the integer an int-kinded decimal denotes) *)

Theorem C06_div_mod_euclid : forall a b,
  nk a = KInt -> nk b = KInt -> (0 <= exp (nd a))%Z -> (0 <= exp (nd b))%Z -> ival (nd b) <> 0%Z ->
  exists q m, int_div_op FDiv a b = Ok q /\ int_div_op FMod a b = Ok m /\
    nk q = KInt /\ nk m = KInt /\
    ival (nd a) = (ival (nd b) * ival (nd q) + ival (nd m))%Z /\
    (0 <= ival (nd m) < Z.abs (ival (nd b)))%Z.
Proof. exact div_mod_euclid. Qed.
Print Assumptions C06_div_mod_euclid.

Theorem C06_quo_rem_trunc : forall a b,
  nk a = KInt -> nk b = KInt -> (0 <= exp (nd a))%Z -> (0 <= exp (nd b))%Z -> ival (nd b) <> 0%Z ->
  exists q r, int_div_op FQuo a b = Ok q /\ int_div_op FRem a b = Ok r /\
    nk q = KInt /\ nk r = KInt /\
    ival (nd a) = (ival (nd b) * ival (nd q) + ival (nd r))%Z /\
    (Z.abs (ival (nd r)) < Z.abs (ival (nd b)))%Z /\
    (ival (nd r) = 0%Z \/ Z.sgn (ival (nd r)) = Z.sgn (ival (nd a))) /\
    (Z.abs (ival (nd b) * ival (nd q)) <= Z.abs (ival (nd a)))%Z.
Proof. exact quo_rem_trunc. Qed.
Print Assumptions C06_quo_rem_trunc.

(* zero divisor = error; exact at any size: the result IS big.Int's, whatever the magnitudes
   and the representation (an int may carry a positive exponent after F1) *)
Theorem C06_int_div_exact_any_size : forall f a b,
  nk a = KInt -> nk b = KInt -> (0 <= exp (nd a))%Z -> (0 <= exp (nd b))%Z ->
  (ival (nd b) = 0%Z -> int_div_op f a b = Err) /\
  (ival (nd b) <> 0%Z ->
     exists r, int_div_op f a b = Ok r /\ nk r = KInt /\ exp (nd r) = 0%Z /\
               ival (nd r) = big_fn f (ival (nd a)) (ival (nd b))).
Proof. exact int_div_op_spec. Qed.
Print Assumptions C06_int_div_exact_any_size.

(* ival is the denoted integer; the Euclidean pair is unique (so div/mod are the functions of
   the specification); float arguments are rejected *)
Theorem C06_int_div_aux :
  (forall d, (0 <= exp d)%Z -> dval d == inject_Z (ival d)) /\
  (forall x y q m q' m',
     (x = y * q + m -> 0 <= m < Z.abs y -> x = y * q' + m' -> 0 <= m' < Z.abs y -> q = q' /\ m = m')%Z) /\
  (forall f a b, (nk a = KFloat \/ nk b = KFloat) -> int_div_op f a b = Err).
Proof. exact (conj ival_dval (conj euclid_unique int_div_kind_error)). Qed.
Print Assumptions C06_int_div_aux.

(* ------------------------------------------------------------------ *)
(* RoundToIntegralExact (used by multiplier literals and intDivOp)      *)

Theorem C06_to_integral : forall x,
  ((0 <= exp x)%Z ->
     to_integral_flag x = (mkDec (neg x) (coeff x * pow10 (Z.to_N (exp x))) 0, false)) /\
  ((exp x < 0)%Z ->
     let e := pow10 (Z.to_N (- exp x)) in
     let c := coeff x in
     to_integral_flag x =
       (mkDec (neg x) (if (2 * (c mod e) <? e)%N then (c / e)%N else (c / e + 1)%N) 0,
        negb (c mod e =? 0)%N)).
Proof. exact (fun x => conj (to_integral_nonneg_exp x) (to_integral_neg_exp x)). Qed.
Print Assumptions C06_to_integral.

(* ------------------------------------------------------------------ *)
(* literals: every spelling of the grammar (lit_ok l) is read with the value it denotes *)

Theorem C06_literal_decimal_and_based : forall d p,
  (lit_ok (GDec d) = true -> (Z.of_N (digits (chars_value 10 (ds_chars d))) <= 100001)%Z ->
     lit_parse (render (GDec d)) = LNum (mkNum KInt (mkDec false (chars_value 10 (ds_chars d)) 0))) /\
  (lit_ok (GBased p d) = true ->
     lit_parse (render (GBased p d)) =
       LNum (mkNum KInt (mkDec false (chars_value (prefix_base p) (ds_chars d)) 0))).
Proof. exact (fun d p => conj (lit_dec_value d) (lit_based_value p d)). Qed.
Print Assumptions C06_literal_decimal_and_based.

(* float_lit = digits * 10^(exponent - #fraction digits), kind float, while the exponent stays
   inside apd's range *)
Theorem C06_literal_float_value : forall ip fp e,
  lit_ok (GFloat ip fp e) = true ->
  exp_in_range (chars_value 10 (opt_chars ip ++ fp_chars fp)) (expo_value e) (length (fp_chars fp)) ->
  lit_parse (render (GFloat ip fp e)) =
    LNum (mkNum KFloat (mantissa ip (fp_flat fp) (expo_value e))).
Proof. exact lit_float_value. Qed.
Print Assumptions C06_literal_float_value.

(* ... and outside that range the literal is an error, never another value (finding F9, fixed:
   NumInfo.decimal returns the error of apd's UnmarshalText) *)
Theorem C06_literal_float_out_of_range_rejected : forall ip fp e,
  lit_ok (GFloat ip fp e) = true ->
  ~ exp_in_range (chars_value 10 (opt_chars ip ++ fp_chars fp)) (expo_value e) (length (fp_chars fp)) ->
  lit_parse (render (GFloat ip fp e)) = LErr.
Proof. exact lit_float_out_of_range_rejected. Qed.
Print Assumptions C06_literal_float_out_of_range_rejected.

(* si_lit: the product at precision 34, then RoundToIntegralExact (implementation-faithful) *)
Theorem C06_literal_si_value : forall ip fp m,
  lit_ok (GSi ip fp m) = true -> si_no_leading_zero ip fp = true ->
  exp_in_range (chars_value 10 (opt_chars ip ++ opt_chars fp)) 0 (length (opt_chars fp)) ->
  lit_parse (render (GSi ip fp m)) =
    match to_integral_flag (dmul (mantissa ip fp 0) (mkDec false (mult_value m) 0)) with
    | (r, false) => LNum (mkNum KInt r)
    | (_, true) => LErr
    end.
Proof. exact lit_si_value. Qed.
Print Assumptions C06_literal_si_value.

(* ... which is the exact product - or an error exactly when that is not an integer -
   whenever the exact product has at most 34 digits (beyond: finding F5) *)
Theorem C06_mult_literal_exact_when : forall ip fp m,
  lit_ok (GSi ip fp m) = true -> si_no_leading_zero ip fp = true ->
  exp_in_range (chars_value 10 (opt_chars ip ++ opt_chars fp)) 0 (length (opt_chars fp)) ->
  let P := mul_exact (mantissa ip fp 0) (mkDec false (mult_value m) 0) in
  (digits (coeff P) <= 34)%N ->
  match lit_parse (render (GSi ip fp m)) with
  | LNum n => nk n = KInt /\ exp (nd n) = 0%Z /\ dval (nd n) == dval P
  | LErr => ~ exists z : Z, dval P == inject_Z z
  | LNaN _ => False
  end.
Proof. exact mult_literal_exact_when. Qed.
Print Assumptions C06_mult_literal_exact_when.

(* kind int iff not a float_lit; base; every spelling is accepted by the scanner *)
Theorem C06_literal_kind_int_iff : forall l,
  lit_ok l = true ->
  match l with GSi ip fp _ => si_no_leading_zero ip fp = true | _ => True end ->
  exists i, parse_num_noerr (render l) = Some i /\
            i_float i = (match l with GFloat _ _ _ => true | _ => false end) /\
            i_base i = (match l with GBased p _ => prefix_base p | _ => 10%N end).
Proof. exact literal_kind. Qed.
Print Assumptions C06_literal_kind_int_iff.

(* ------------------------------------------------------------------ *)
(* literals: deviations from the specified value (witnesses)           *)

(* F5: 1000000000000000000000000000000000.001K = 10^36 + 1 is read as 10^36 *)
Theorem C06_mult_literal_exact_refuted :
  exists src i n s,
    parse_num src = Some i /\ lit_parse src = LNum n /\ lit_exact i = Some s /\
    nk n = KInt /\ nk s = KInt /\
    dval (nd s) == inject_Z (10 ^ 36 + 1) /\ dval (nd n) == inject_Z (10 ^ 36).
Proof. exact mult_literal_exact_refuted. Qed.
Print Assumptions C06_mult_literal_exact_refuted.

(* 1.3Ki: the specification truncates to 1331, ParseNum rejects *)
Theorem C06_mult_literal_truncation_refuted :
  exists src i,
    lit_parse src = LErr /\ parse_num_noerr src = Some i /\
    lit_exact i = Some (mkNum KInt (mkDec false 1331 0)).
Proof. exact mult_literal_truncation_refuted. Qed.
Print Assumptions C06_mult_literal_truncation_refuted.

(* 1e100001, 1e-400000, 1e2147483648 are rejected (they used to denote 1, 1 and NaN: finding F9,
   fixed); 1e100000 is the largest accepted exponent; no literal leaves a NaN decimal behind *)
Theorem C06_literal_exponent_range_rejected :
  (lit_parse f9_witness = LErr /\ lit_parse f9_witness_neg = LErr /\ lit_parse f9_witness_nan = LErr /\
   lit_parse [49; 101; 49; 48; 48; 48; 48; 48]%N = LNum (mkNum KFloat (mkDec false 1 100000)) /\
   classify f9_witness = LcSame /\ classify f9_witness_nan = LcSame) /\
  (forall src k, lit_parse src <> LNaN k).
Proof. exact (conj literal_exponent_range_rejected lit_parse_never_nan). Qed.
Print Assumptions C06_literal_exponent_range_rejected.

(* ------------------------------------------------------------------ *)
(* non-vacuity: concrete evaluations of the models (all by computation) *)

Example C06_arith_examples :
  (* F1 and a sum that fits *)
  (num_op OpAdd (i_ (10 ^ 36)) (i_ 1) = Ok (mkNum KInt (mkDec false (10 ^ 33) 3)) /\
   num_op OpAdd (i_ (10 ^ 33)) (i_ 1) = Ok (i_ (10 ^ 33 + 1))) /\
  (* a tie at digit 35 goes away from zero; 99..9|5 rolls over *)
  (dadd (mkDec false (10 ^ 34 + 5) 0) (mkDec false 0 0) = mkDec false (10 ^ 33 + 1) 1 /\
   dmul (mkDec false (10 ^ 35 - 5) 0) (mkDec false 1 0) = mkDec false (10 ^ 33) 2) /\
  (* quotients *)
  (num_op OpQuo (i_ 1) (i_ 3) = Ok (f_ 3333333333333333333333333333333333 (-34)) /\
   num_op OpQuo (i_ 2) (i_ 3) = Ok (f_ 6666666666666666666666666666666667 (-34)) /\
   num_op OpQuo (i_ 6) (i_ 2) = Ok (f_ 30 (-1)) /\
   num_op OpQuo (i_ 1) (i_ 0) = Err) /\
  (* comparisons across kinds and representations *)
  (num_cmp CEq (i_ 1) (f_ 1000 (-3)) = true /\ num_cmp CLt (f_ 999 (-3)) (i_ 1) = true /\
   num_cmp CGt (i_ (10 ^ 40)) (f_ 9 39) = true /\ num_cmp CLe (ni_ 1) (f_ 0 5) = true).
Proof.
  exact (conj (conj ex_f1 ex_add_fits) (conj (conj ex_tie ex_rollover)
        (conj (conj ex_third (conj ex_two_thirds (conj ex_six_two ex_div_zero))) ex_cmp))).
Qed.
Print Assumptions C06_arith_examples.

(* int against float beyond the precision of float64, as an operator and as bound validation *)
Example C06_mixed_order_examples :
  num_cmp CGt (i_ 9007199254740993) (f_ 90071992547409920 (-1)) = true /\
  num_cmp CLe (i_ 9007199254740993) (f_ 90071992547409920 (-1)) = false /\
  num_cmp CGt (i_ (2 ^ 63)) (f_ (2 ^ 63 * 10 - 5) (-1)) = true /\
  num_cmp CGt (i_ (10 ^ 34 + 1)) (f_ 10 33) = true /\
  num_cmp CLt (i_ 0) (f_ 1 (-400)) = true /\
  eval true (EBound CGt (ELit (i_ 9007199254740993)) (ELit (f_ 90071992547409920 (-1)))) = Ok (VNum (i_ 9007199254740993)) /\
  eval true (EBound CLt (ELit (i_ 9007199254740993)) (ELit (f_ 90071992547409920 (-1)))) = Err.
Proof. exact ex_mixed_order. Qed.
Print Assumptions C06_mixed_order_examples.

(* the tables of doc/ref/spec.md, and big operands *)
Example C06_int_div_examples :
  (map (fun '(x, y) => (int_div_op FDiv x y, int_div_op FMod x y))
       [(i_ 5, i_ 3); (ni_ 5, i_ 3); (i_ 5, ni_ 3); (ni_ 5, ni_ 3)]
   = [(Ok (i_ 1), Ok (i_ 2)); (Ok (ni_ 2), Ok (i_ 1)); (Ok (ni_ 1), Ok (i_ 2)); (Ok (i_ 2), Ok (i_ 1))] /\
   map (fun '(x, y) => (int_div_op FQuo x y, int_div_op FRem x y))
       [(i_ 5, i_ 3); (ni_ 5, i_ 3); (i_ 5, ni_ 3); (ni_ 5, ni_ 3)]
   = [(Ok (i_ 1), Ok (i_ 2)); (Ok (ni_ 1), Ok (ni_ 2)); (Ok (ni_ 1), Ok (i_ 2)); (Ok (i_ 1), Ok (ni_ 2))]) /\
  (int_div_op FDiv (i_ (10 ^ 40)) (i_ 7) = Ok (i_ (10 ^ 40 / 7)) /\
   int_div_op FDiv (mkNum KInt (mkDec false (10 ^ 33) 3)) (i_ 7) = Ok (i_ (10 ^ 36 / 7))).
Proof. exact (conj (conj ex_divmod ex_quorem) (conj ex_div_big ex_div_rounded)). Qed.
Print Assumptions C06_int_div_examples.

Example C06_literal_examples :
  (* 1.5G  0xBad_Face  072.40  .12345E+5 *)
  (lit_parse [49; 46; 53; 71]%N = LNum (i_ 1500000000) /\
   lit_parse [48; 120; 66; 97; 100; 95; 70; 97; 99; 101]%N = LNum (i_ 195951310) /\
   lit_parse [48; 55; 50; 46; 52; 48]%N = LNum (f_ 7240 (-2)) /\
   lit_parse [46; 49; 50; 51; 52; 53; 69; 43; 53]%N = LNum (f_ 12345 0)) /\
  (* 1__0  0x  1e  01  1A  ""  1<NUL> *)
  map lit_parse [[49; 95; 95; 48]; [48; 120]; [49; 101]; [48; 49]; [49; 65]; []; [49; 0]]%N =
  [LErr; LErr; LErr; LErr; LErr; LErr; LErr] /\
  (* members of the grammar: the hypotheses of the literal theorems are satisfiable *)
  (render g_float = [48; 55; 50; 46; 52; 48]%N /\ lit_ok g_float = true) /\
  (render g_float2 = [49; 95; 48; 46; 53; 101; 45; 51]%N /\ lit_ok g_float2 = true /\
     lit_parse (render g_float2) = LNum (f_ 105 (-4))) /\
  (render g_si = [49; 46; 53; 71]%N /\ lit_ok g_si = true) /\
  (render g_si0 = [48; 75; 105]%N /\ lit_ok g_si0 = true /\ lit_parse (render g_si0) = LNum (i_ 0)) /\
  (render g_hex = [48; 120; 66; 97; 100; 95; 70; 97; 99; 101]%N /\ lit_ok g_hex = true) /\
  (render g_dec = [49; 55; 48; 95; 49; 52; 49]%N /\ lit_ok g_dec = true /\
     lit_parse (render g_dec) = LNum (i_ 170141)).
Proof.
  exact (conj (conj ex_lit_si (conj ex_lit_hex (conj ex_lit_float ex_lit_exp)))
        (conj ex_lit_errors
        (conj ex_g_float (conj ex_g_float2 (conj ex_g_si (conj ex_g_si0 (conj ex_g_hex ex_g_dec))))))).
Qed.
Print Assumptions C06_literal_examples.
