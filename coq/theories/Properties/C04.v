(* C04 - Disjunctions and defaults follow the value/default-pair rules of the spec.
   Stated for the order-free semantics of Core/Disj.v: a conjunction of plain operands
   and flat disjunctions with marks; survivors, effectively marked disjunctions, defaults,
   resolution.  Only statements, [exact], Print Assumptions. *)
From Verif Require Import Core.Syntax Core.Eval Core.Laws Core.Disj Core.DisjLaws.
From Coq Require Import List.
Import ListNotations.

(* the atoms the value accepts: union over the disjuncts, distributed over & *)
Theorem C04_accept_is_union : forall labs atoms fuel plain ds i,
  accepts (pair_of labs atoms fuel plain ds) i =
  existsb (fun t => res_accepts i (tuple_val labs atoms fuel plain t)) (tuples ds).
Proof. exact accept_is_union. Qed.
Print Assumptions C04_accept_is_union.

(* never a silently chosen value: a resolution is the unique default or, without defaults, the unique value *)
Theorem C04_resolve_never_silent : forall p v,
  resolve p = Chosen v -> (defaults p = [v]) \/ (defaults p = [] /\ values p = [v]).
Proof. exact resolve_never_silent. Qed.
Print Assumptions C04_resolve_never_silent.

(* ... and it is the value of a surviving choice of one disjunct per disjunction *)
Theorem C04_chosen_is_survivor : forall labs atoms fuel plain ds v,
  resolve (pair_of labs atoms fuel plain ds) = Chosen v ->
  exists t, is_tuple t ds /\ survives labs atoms fuel plain t = true /\ tuple_val labs atoms fuel plain t = v.
Proof. exact chosen_is_survivor. Qed.
Print Assumptions C04_chosen_is_survivor.

(* a failed disjunct, marked or not, never changes values, defaults or resolution *)
Theorem C04_failed_disjunct_irrelevant : forall labs atoms fuel plain d r m,
  fuel <> 0 ->
  pair_of labs atoms fuel plain ((d ++ [(m, EBot)]) :: r) = pair_of labs atoms fuel plain (d :: r).
Proof. exact failed_disjunct_irrelevant. Qed.
Print Assumptions C04_failed_disjunct_irrelevant.

(* duplicates: a or a, with any marks, resolve to a *)
Theorem C04_duplicate_resolves : forall v f1 f2,
  res_eqb v v = true -> resolve [(v, f1); (v, f2)] = Chosen v.
Proof. exact resolve_single_value. Qed.
Print Assumptions C04_duplicate_resolves.

(* the value of a choice does not depend on the order of the operands *)
Theorem C04_tuple_order_free : forall labs atoms fuel plain plain' t t',
  Laws.seq (plain ++ map snd t) (plain' ++ map snd t') ->
  tuple_val labs atoms fuel plain t = tuple_val labs atoms fuel plain' t'.
Proof. exact tuple_val_perm. Qed.
Print Assumptions C04_tuple_order_free.

(* rows of the spec's table, and the order-free answer on the F2 witness in both orders *)
Definition L := [LReg 0%N].
Definition A := [AInt 1%Z; AInt 2%Z; AInt 3%Z].
Definition i (z : Z) := EScalar (SAtom (AInt z)).
Definition chosen (plain : list expr) (ds : list disj) :=
  match resolve (pair_of L A 5 plain ds) with
  | Chosen (RVal _ _ pin) => Some pin
  | Chosen _ => None
  | Ambiguous => Some []
  | NoValue => None
  end.
Example C04_example_spec_rows :
  chosen [] [[(true, i 1); (false, i 2)]] = Some [true; false; false] /\                     (* marked 1 or 2 gives 1 *)
  chosen [] [[(true, i 1); (false, i 2)]; [(false, i 1); (true, i 2)]] = Some [] /\          (* marks on different values: ambiguous *)
  chosen [] [[(true, i 1); (false, i 2)]; [(false, i 2); (true, i 1)]] = Some [true; false; false] /\
  chosen [] [[(true, i 1); (false, i 2)]; [(false, i 2); (false, i 1)]] = Some [true; false; false] /\
  chosen [i 2] [[(true, i 1); (false, i 2)]] = Some [false; true; false] /\                  (* the marked disjunct is eliminated: 2 *)
  (* F2 witness, both orders: the answer is 3 *)
  chosen [] [[(true, i 1); (false, i 2); (false, i 3)]; [(true, i 3); (false, i 2); (false, i 1)];
             [(false, i 2); (false, i 3)]] = Some [false; false; true] /\
  chosen [] [[(true, i 1); (false, i 2); (false, i 3)]; [(false, i 2); (false, i 3)];
             [(true, i 3); (false, i 2); (false, i 1)]] = Some [false; false; true].
Proof. vm_compute. repeat split. Qed.
Print Assumptions C04_example_spec_rows.
