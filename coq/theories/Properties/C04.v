(* C04 - Disjunctions and defaults follow the value/default-pair rules of the spec.
   Stated for the order-free semantics of Core/Disj.v: a conjunction of plain operands
   and flat disjunctions with marks; survivors, effectively marked disjunctions, defaults,
   resolution.  Only statements, [exact], Print Assumptions. *)
From Verif Require Import Core.Syntax Core.Eval Core.Laws Core.Disj Core.DisjLaws.
From Coq Require Import List.
Import ListNotations.

(* the atoms the value accepts: union over the disjuncts, distributed over & *)
Theorem C04_accept_is_union : forall labs atoms fuel plain ds i,
  accepts (pair_of labs atoms fuel plain ds) i =
  existsb (fun t => res_accepts i (tuple_val labs atoms fuel plain t)) (tuples ds).
Proof. exact accept_is_union. Qed.
Print Assumptions C04_accept_is_union.

(* never a silently chosen value: a resolution is the unique default or, without defaults, the unique value *)
Theorem C04_resolve_never_silent : forall p v,
  resolve p = Chosen v -> (defaults p = [v]) \/ (defaults p = [] /\ values p = [v]).
Proof. exact resolve_never_silent. Qed.
Print Assumptions C04_resolve_never_silent.

(* ... and it is the value of a surviving choice of one disjunct per disjunction *)
Theorem C04_chosen_is_survivor : forall labs atoms fuel plain ds v,
  resolve (pair_of labs atoms fuel plain ds) = Chosen v ->
  exists t, is_tuple t ds /\ survives labs atoms fuel plain t = true /\ tuple_val labs atoms fuel plain t = v.
Proof. exact chosen_is_survivor. Qed.
Print Assumptions C04_chosen_is_survivor.

(* a failed disjunct, marked or not, never changes values, defaults or resolution *)
Theorem C04_failed_disjunct_irrelevant : forall labs atoms fuel plain d r m,
  fuel <> 0 ->
  pair_of labs atoms fuel plain ((d ++ [(m, EBot)]) :: r) = pair_of labs atoms fuel plain (d :: r).
Proof. exact failed_disjunct_irrelevant. Qed.
Print Assumptions C04_failed_disjunct_irrelevant.

(* duplicates: a or a, with any marks, resolve to a *)
Theorem C04_duplicate_resolves : forall v f1 f2,
  res_eqb v v = true -> resolve [(v, f1); (v, f2)] = Chosen v.
Proof. exact resolve_single_value. Qed.
Print Assumptions C04_duplicate_resolves.

(* the value of a choice does not depend on the order of the operands *)
Theorem C04_tuple_order_free : forall labs atoms fuel plain plain' t t',
  Laws.seq (plain ++ map snd t) (plain' ++ map snd t') ->
  tuple_val labs atoms fuel plain t = tuple_val labs atoms fuel plain' t'.
Proof. exact tuple_val_perm. Qed.
Print Assumptions C04_tuple_order_free.

(* rows of the spec's table, and the order-free answer on the F2 witness in both orders *)
Definition L := [LReg 0%N].
Definition A := [AInt 1%Z; AInt 2%Z; AInt 3%Z].
Definition i (z : Z) := EScalar (SAtom (AInt z)).
Definition chosen (plain : list expr) (ds : list disj) :=
  match resolve (pair_of L A 5 plain ds) with
  | Chosen (RVal _ _ pin) => Some pin
  | Chosen _ => None
  | Ambiguous => Some []
  | NoValue => None
  end.
Example C04_example_spec_rows :
  chosen [] [[(true, i 1); (false, i 2)]] = Some [true; false; false] /\                     (* marked 1 or 2 gives 1 *)
  chosen [] [[(true, i 1); (false, i 2)]; [(false, i 1); (true, i 2)]] = Some [] /\          (* marks on different values: ambiguous *)
  chosen [] [[(true, i 1); (false, i 2)]; [(false, i 2); (true, i 1)]] = Some [true; false; false] /\
  chosen [] [[(true, i 1); (false, i 2)]; [(false, i 2); (false, i 1)]] = Some [true; false; false] /\
  chosen [i 2] [[(true, i 1); (false, i 2)]] = Some [false; true; false] /\                  (* the marked disjunct is eliminated: 2 *)
  (* F2 witness, both orders: the answer is 3 *)
  chosen [] [[(true, i 1); (false, i 2); (false, i 3)]; [(true, i 3); (false, i 2); (false, i 1)];
             [(false, i 2); (false, i 3)]] = Some [false; false; true] /\
  chosen [] [[(true, i 1); (false, i 2); (false, i 3)]; [(false, i 2); (false, i 3)];
             [(true, i 3); (false, i 2); (false, i 1)]] = Some [false; false; true].
Proof. vm_compute. repeat split. Qed.
Print Assumptions C04_example_spec_rows.

(* ---- order independence, duplicates, marks (Core/DisjLaws2.v) ------------------------------- *)
From Verif Require Import Core.DisjLaws2.
From Coq Require Import Permutation Bool.

(* the order of the operands of & (the list of disjunctions) never changes the outcome: known
   finding F2 (cue's default depends on the operand order) is a deviation from this semantics,
   not an ambiguity of it *)
Theorem C04_operand_order_independent : forall labs atoms fuel plain ds ds',
  Permutation ds ds' ->
  (forall k, accepts (pair_of labs atoms fuel plain ds) k = accepts (pair_of labs atoms fuel plain ds') k) /\
  resolve (pair_of labs atoms fuel plain ds) = resolve (pair_of labs atoms fuel plain ds').
Proof. exact operand_order_independent. Qed.
Print Assumptions C04_operand_order_independent.

(* ... nor does the order or the repetition of the plain operands: the value/default pair is the same *)
Theorem C04_plain_operands_as_set : forall labs atoms fuel plain plain' ds,
  (forall e, In e plain <-> In e plain') ->
  pair_of labs atoms fuel plain ds = pair_of labs atoms fuel plain' ds.
Proof. exact plain_operands_as_set. Qed.
Print Assumptions C04_plain_operands_as_set.

(* only the SET of disjuncts of every disjunction matters (commutativity and idempotence of |) *)
Theorem C04_disjuncts_as_sets : forall labs atoms fuel plain ds ds',
  Forall2 (fun d d' : disj => forall c, In c d <-> In c d') ds ds' ->
  (forall k, accepts (pair_of labs atoms fuel plain ds) k = accepts (pair_of labs atoms fuel plain ds') k) /\
  resolve (pair_of labs atoms fuel plain ds) = resolve (pair_of labs atoms fuel plain ds').
Proof. exact disjuncts_as_sets. Qed.
Print Assumptions C04_disjuncts_as_sets.

(* the order of the disjuncts of a disjunction, at any operand position *)
Theorem C04_disjunct_order_independent : forall labs atoms fuel plain l1 d d' l2,
  Permutation d d' ->
  (forall k, accepts (pair_of labs atoms fuel plain (l1 ++ d :: l2)) k =
             accepts (pair_of labs atoms fuel plain (l1 ++ d' :: l2)) k) /\
  resolve (pair_of labs atoms fuel plain (l1 ++ d :: l2)) = resolve (pair_of labs atoms fuel plain (l1 ++ d' :: l2)).
Proof. exact disjunct_order_independent. Qed.
Print Assumptions C04_disjunct_order_independent.

(* a duplicate disjunct (same mark, same expression) never changes the outcome *)
Theorem C04_duplicate_disjunct : forall labs atoms fuel plain l1 d c l2,
  In c d ->
  (forall k, accepts (pair_of labs atoms fuel plain (l1 ++ (d ++ [c]) :: l2)) k =
             accepts (pair_of labs atoms fuel plain (l1 ++ d :: l2)) k) /\
  resolve (pair_of labs atoms fuel plain (l1 ++ (d ++ [c]) :: l2)) = resolve (pair_of labs atoms fuel plain (l1 ++ d :: l2)).
Proof. exact duplicate_disjunct. Qed.
Print Assumptions C04_duplicate_disjunct.

(* ... nor does a copy carrying at most the mark of the original (an unmarked copy of a marked disjunct) *)
Theorem C04_weaker_copy_irrelevant : forall labs atoms fuel plain d r m m' e,
  In (m, e) d -> implb m' m = true ->
  (forall k, accepts (pair_of labs atoms fuel plain ((d ++ [(m', e)]) :: r)) k =
             accepts (pair_of labs atoms fuel plain (d :: r)) k) /\
  resolve (pair_of labs atoms fuel plain ((d ++ [(m', e)]) :: r)) = resolve (pair_of labs atoms fuel plain (d :: r)).
Proof. exact weaker_copy_irrelevant. Qed.
Print Assumptions C04_weaker_copy_irrelevant.

(* ... but a MARKED copy of an unmarked disjunct does: 1 | 2 is ambiguous, 1 | 2 | *1 is 1 *)
Theorem C04_marked_copy_refuted : exists labs atoms fuel plain d r e,
  In (false, e) d /\
  resolve (pair_of labs atoms fuel plain ((d ++ [(true, e)]) :: r)) <> resolve (pair_of labs atoms fuel plain (d :: r)).
Proof. exact marked_copy_refuted. Qed.
Print Assumptions C04_marked_copy_refuted.

(* no marks: no defaults, and a value is chosen iff it is the only one *)
Theorem C04_no_marks_no_defaults : forall labs atoms fuel plain ds,
  forallb (fun d => negb (has_marks d)) ds = true ->
  defaults (pair_of labs atoms fuel plain ds) = [] /\
  forall v, resolve (pair_of labs atoms fuel plain ds) = Chosen v <-> values (pair_of labs atoms fuel plain ds) = [v].
Proof. exact no_marks_no_defaults. Qed.
Print Assumptions C04_no_marks_no_defaults.

(* no disjunctions: the value of the plain operands, or no value when that is an error *)
Theorem C04_no_disjunctions : forall labs atoms fuel plain,
  let v := evalNode labs atoms fuel [mkConj false plain] in
  resolve (pair_of labs atoms fuel plain []) = (if res_err v then NoValue else Chosen v) /\
  forall k, accepts (pair_of labs atoms fuel plain []) k = res_accepts k v.
Proof. exact no_disjunctions. Qed.
Print Assumptions C04_no_disjunctions.

(* rule M: a disjunction all of whose disjuncts are marked behaves as the unmarked one, for acceptance
   and for resolution, at any operand position ... *)
Theorem C04_marks_on_every_disjunct : forall labs atoms fuel plain l1 d l2,
  forallb fst d = true ->
  (forall k, accepts (pair_of labs atoms fuel plain (l1 ++ d :: l2)) k =
             accepts (pair_of labs atoms fuel plain (l1 ++ unmark d :: l2)) k) /\
  resolve (pair_of labs atoms fuel plain (l1 ++ d :: l2)) = resolve (pair_of labs atoms fuel plain (l1 ++ unmark d :: l2)).
Proof. exact marks_on_every_disjunct_at. Qed.
Print Assumptions C04_marks_on_every_disjunct.

(* ... and for any number of such disjunctions at once *)
Theorem C04_all_marked_as_unmarked : forall labs atoms fuel plain ds,
  Forall (fun d => forallb fst d = true) ds ->
  (forall k, accepts (pair_of labs atoms fuel plain ds) k = accepts (pair_of labs atoms fuel plain (map unmark ds)) k) /\
  resolve (pair_of labs atoms fuel plain ds) = resolve (pair_of labs atoms fuel plain (map unmark ds)).
Proof. intros labs atoms fuel plain ds. exact (all_marked_as_unmarked labs atoms fuel plain ds []). Qed.
Print Assumptions C04_all_marked_as_unmarked.

(* non-vacuity of the hypotheses above, with non-trivial outcomes *)
Definition D1 : disj := [(true, i 1); (false, i 2); (false, i 3)].
Definition D2 : disj := [(true, i 3); (false, i 2); (false, i 1)].
Definition D3 : disj := [(false, i 2); (false, i 3)].
Example C04_example_order_and_duplicates :
  (* operands permuted (the F2 witness) *)
  Permutation [D1; D2; D3] [D3; D1; D2] /\
  chosen [] [D1; D2; D3] = Some [false; false; true] /\ chosen [] [D3; D1; D2] = Some [false; false; true] /\
  (* disjuncts permuted *)
  Permutation D1 [(false, i 3); (true, i 1); (false, i 2)] /\
  chosen [] [D3; D1] = Some [] /\ chosen [] [D3; [(false, i 3); (true, i 1); (false, i 2)]] = Some [] /\
  chosen [i 1] [D3; D1] = None /\ chosen [i 1] [D1] = Some [true; false; false] /\
  (* an exact duplicate, an unmarked copy of the marked disjunct *)
  In (true, i 1) D1 /\ implb false true = true /\
  chosen [] [D1] = Some [true; false; false] /\
  chosen [] [D1 ++ [(true, i 1)]] = Some [true; false; false] /\
  chosen [] [D1 ++ [(false, i 1)]] = Some [true; false; false] /\
  (* a marked copy of an unmarked disjunct changes the outcome *)
  chosen [] [D3] = Some [] /\ chosen [] [D3 ++ [(true, i 2)]] = Some [false; true; false].
Proof.
  split; [apply Permutation_sym; apply (Permutation_cons_app [D1; D2] [] D3); apply Permutation_refl|].
  split; [vm_compute; reflexivity|]. split; [vm_compute; reflexivity|].
  split; [unfold D1; apply Permutation_sym, (Permutation_cons_app [(true, i 1); (false, i 2)] [] (false, i 3)), Permutation_refl|].
  vm_compute. repeat split; auto.
Qed.
Print Assumptions C04_example_order_and_duplicates.

Example C04_example_marks :
  (* no marks *)
  forallb (fun d => negb (has_marks d)) [D3; [(false, i 3); (false, i 1)]] = true /\
  chosen [] [D3; [(false, i 3); (false, i 1)]] = Some [false; false; true] /\
  chosen [] [D3] = Some [] /\
  (* no disjunctions *)
  chosen [i 2] [] = Some [false; true; false] /\
  resolve (pair_of L A 5 [i 1; i 2] []) = NoValue /\
  (* every disjunct marked *)
  forallb fst [(true, i 1); (true, i 2)] = true /\
  unmark [(true, i 1); (true, i 2)] = [(false, i 1); (false, i 2)] /\
  chosen [] [[(true, i 1); (true, i 2)]] = Some [] /\ chosen [] [[(false, i 1); (false, i 2)]] = Some [] /\
  chosen [i 1] [[(true, i 1); (true, i 2)]] = Some [true; false; false] /\
  chosen [i 1] [[(false, i 1); (false, i 2)]] = Some [true; false; false] /\
  chosen [] [D1; [(true, i 1); (true, i 2)]] = Some [true; false; false] /\
  chosen [] [D1; [(false, i 1); (false, i 2)]] = Some [true; false; false].
Proof. vm_compute. repeat split. Qed.
Print Assumptions C04_example_marks.

(* a single surviving value is chosen whatever the marks (general form of C04_duplicate_resolves) *)
Theorem C04_single_value_chosen : forall p v, values p = [v] -> resolve p = Chosen v.
Proof. exact single_value_chosen. Qed.
Print Assumptions C04_single_value_chosen.

(* failed disjuncts, general form: a disjunct - marked or not - that fails with every choice of the
   other disjunctions changes neither values, nor defaults, nor resolution, nor acceptance *)
Theorem C04_eliminated_disjunct_irrelevant : forall labs atoms fuel plain d c r,
  (forall t, is_tuple t r -> survives labs atoms fuel plain (c :: t) = false) ->
  pair_of labs atoms fuel plain ((d ++ [c]) :: r) = pair_of labs atoms fuel plain (d :: r).
Proof. exact eliminated_disjunct_irrelevant. Qed.
Print Assumptions C04_eliminated_disjunct_irrelevant.

(* marks never change the value of the value/default pair: same accepted atoms, same set of values *)
Theorem C04_marks_never_change_the_value : forall labs atoms fuel plain ds ds',
  Forall2 (fun d d' : disj => map snd d = map snd d') ds ds' ->
  (forall k, accepts (pair_of labs atoms fuel plain ds) k = accepts (pair_of labs atoms fuel plain ds') k) /\
  Permutation (values (pair_of labs atoms fuel plain ds)) (values (pair_of labs atoms fuel plain ds')).
Proof. exact marks_never_change_the_value. Qed.
Print Assumptions C04_marks_never_change_the_value.

(* a plain operand is a one-disjunct disjunction: same value/default pair when unmarked, same outcome when marked *)
Theorem C04_singleton_disjunction_is_operand : forall labs atoms fuel plain e r,
  pair_of labs atoms fuel plain ([(false, e)] :: r) = pair_of labs atoms fuel (plain ++ [e]) r.
Proof. exact singleton_disjunction_is_operand. Qed.
Print Assumptions C04_singleton_disjunction_is_operand.

Theorem C04_marked_singleton_is_operand : forall labs atoms fuel plain e r,
  (forall k, accepts (pair_of labs atoms fuel plain ([(true, e)] :: r)) k = accepts (pair_of labs atoms fuel (plain ++ [e]) r) k) /\
  resolve (pair_of labs atoms fuel plain ([(true, e)] :: r)) = resolve (pair_of labs atoms fuel (plain ++ [e]) r).
Proof. exact marked_singleton_is_operand. Qed.
Print Assumptions C04_marked_singleton_is_operand.

Example C04_example_more :
  (* one surviving value, reached through two choices with different marks *)
  (exists v, values (pair_of L A 5 [] [D1; [(false, i 1)]]) = [v] /\ length (pair_of L A 5 [] [D1; [(true, i 1); (false, i 1)]]) = 2) /\
  (* an eliminated marked disjunct that is not bottom *)
  (forall t, is_tuple t [] -> survives L A 5 [i 2] ((true, i 1) :: t) = false) /\
  chosen [i 2] [[(false, i 2); (false, i 3)] ++ [(true, i 1)]] = Some [false; true; false] /\
  (* same expressions, different marks: same values, different resolution *)
  Forall2 (fun d d' : disj => map snd d = map snd d') [D1] [unmark D1] /\
  chosen [] [D1] = Some [true; false; false] /\ chosen [] [unmark D1] = Some [] /\
  (* an operand written as a one-disjunct disjunction *)
  chosen [] [[(false, i 1)]; D1] = Some [true; false; false] /\ chosen [i 1] [D1] = Some [true; false; false] /\
  chosen [] [[(true, i 3)]; D1] = Some [false; false; true] /\ chosen [i 3] [D1] = Some [false; false; true].
Proof.
  split; [eexists; vm_compute; split; reflexivity|].
  split; [intros t H; inversion H; vm_compute; reflexivity|].
  split; [vm_compute; reflexivity|].
  split; [repeat constructor|].
  vm_compute. repeat split.
Qed.
Print Assumptions C04_example_more.

(* ==== NestCUE (Core/Nest.v): disjunctions as values of struct fields, and disjunctions of such
   structs.  [nest_pair labs atoms fuel plain ds] is the value/default pair of the node
   plain terms & struct-level disjunctions ds; an alternative [AStruct rows] records, per label of
   the universe, whether the field is present and the OUTCOME (resolution, acceptance) of the
   value/default pair of the conjunction of everything given to that field. ==== *)
From Verif Require Import Core.DisjLaws2 Core.DisjGen Core.DisjGenLaws Core.Nest Core.NestLaws.
From Coq Require Import Permutation.

(* value/default pairs propagate through fields: a surviving struct alternative reports at every
   label exactly the Core/Disj.v outcome of ALL the field values its literals give to that label
   (plain operands and disjunctions alike), and none of its present fields is left without a value *)
Theorem C04_nest_struct_alternative_fields : forall labs atoms fuel ts fs,
  alt_val labs atoms fuel ts = AStruct fs ->
  fs = map (fun l => (negb (null (field_vals ts l)),
                      (resolve (pair_of labs atoms fuel (f_plain ts l) (f_disjs ts l)),
                       map (accepts (pair_of labs atoms fuel (f_plain ts l) (f_disjs ts l))) (seq 0 (length atoms))))) labs /\
  (forall l, In l labs -> null (field_vals ts l) = false ->
             resolve (pair_of labs atoms fuel (f_plain ts l) (f_disjs ts l)) <> NoValue).
Proof. exact struct_alternative_fields. Qed.
Print Assumptions C04_nest_struct_alternative_fields.

(* failed disjuncts vanish THROUGH fields: a field whose disjuncts are all eliminated fails the struct *)
Theorem C04_nest_failed_field_fails_struct : forall labs atoms fuel ts l,
  lits ts <> [] -> In l labs -> null (field_vals ts l) = false ->
  resolve (pair_of labs atoms fuel (f_plain ts l) (f_disjs ts l)) = NoValue ->
  alt_val labs atoms fuel ts = AErr.
Proof. exact failed_field_fails_struct. Qed.
Print Assumptions C04_nest_failed_field_fails_struct.

(* ... and such a struct disjunct - like one containing bottom - changes neither values nor default flags *)
Theorem C04_nest_eliminated_disjunct_irrelevant : forall labs atoms fuel plain d r c,
  (forall t, g_is_tuple sdisjunct t r -> nest_tval labs atoms fuel plain (map snd (c :: t)) = AErr) ->
  nest_pair labs atoms fuel plain ((d ++ [c]) :: r) = nest_pair labs atoms fuel plain (d :: r).
Proof. exact nest_eliminated_disjunct_irrelevant. Qed.
Print Assumptions C04_nest_eliminated_disjunct_irrelevant.

Theorem C04_nest_failed_disjunct_irrelevant : forall labs atoms fuel plain d r m c,
  fuel <> 0 -> In TBot c ->
  nest_pair labs atoms fuel plain ((d ++ [(m, c)]) :: r) = nest_pair labs atoms fuel plain (d :: r).
Proof. exact nest_failed_disjunct_irrelevant. Qed.
Print Assumptions C04_nest_failed_disjunct_irrelevant.

(* ambiguity is never silently resolved, one level up *)
Theorem C04_nest_resolve_never_silent : forall (p : list (aval * bool)) v,
  nest_resolve p = GChosen v ->
  gdefaults aval aval_eqb p = [v] \/ (gdefaults aval aval_eqb p = [] /\ gvalues aval aval_eqb p = [v]).
Proof. exact nest_resolve_never_silent. Qed.
Print Assumptions C04_nest_resolve_never_silent.

Theorem C04_nest_chosen_is_survivor : forall labs atoms fuel plain ds v,
  nest_resolve (nest_pair labs atoms fuel plain ds) = GChosen v ->
  exists t, g_is_tuple sdisjunct t ds /\ aval_err (nest_tval labs atoms fuel plain (map snd t)) = false /\
            nest_tval labs atoms fuel plain (map snd t) = v.
Proof. exact nest_chosen_is_survivor. Qed.
Print Assumptions C04_nest_chosen_is_survivor.

Theorem C04_nest_accept_is_union : forall labs atoms fuel plain ds i,
  nest_accepts (nest_pair labs atoms fuel plain ds) i =
  existsb (fun t => aval_acc i (nest_tval labs atoms fuel plain (map snd t))) (gtuples sdisjunct ds).
Proof. exact nest_accept_is_union. Qed.
Print Assumptions C04_nest_accept_is_union.

(* order independence: of the struct-level disjunctions, of the disjuncts of each, of duplicates and weaker copies *)
Theorem C04_nest_operand_order_independent : forall labs atoms fuel plain ds ds',
  Permutation ds ds' ->
  (forall i, nest_accepts (nest_pair labs atoms fuel plain ds) i = nest_accepts (nest_pair labs atoms fuel plain ds') i) /\
  nest_resolve (nest_pair labs atoms fuel plain ds) = nest_resolve (nest_pair labs atoms fuel plain ds').
Proof. exact nest_operand_order_independent. Qed.
Print Assumptions C04_nest_operand_order_independent.

Theorem C04_nest_disjuncts_as_sets : forall labs atoms fuel plain ds ds',
  Forall2 (fun d d' : sdisj => forall c, In c d <-> In c d') ds ds' ->
  (forall i, nest_accepts (nest_pair labs atoms fuel plain ds) i = nest_accepts (nest_pair labs atoms fuel plain ds') i) /\
  nest_resolve (nest_pair labs atoms fuel plain ds) = nest_resolve (nest_pair labs atoms fuel plain ds').
Proof. exact nest_disjuncts_as_sets. Qed.
Print Assumptions C04_nest_disjuncts_as_sets.

Theorem C04_nest_disjunct_order_independent : forall labs atoms fuel plain l1 d d' l2,
  Permutation d d' ->
  (forall i, nest_accepts (nest_pair labs atoms fuel plain (l1 ++ d :: l2)) i =
             nest_accepts (nest_pair labs atoms fuel plain (l1 ++ d' :: l2)) i) /\
  nest_resolve (nest_pair labs atoms fuel plain (l1 ++ d :: l2)) = nest_resolve (nest_pair labs atoms fuel plain (l1 ++ d' :: l2)).
Proof. exact nest_disjunct_order_independent. Qed.
Print Assumptions C04_nest_disjunct_order_independent.

Theorem C04_nest_duplicate_disjunct : forall labs atoms fuel plain l1 d c l2,
  In c d ->
  (forall i, nest_accepts (nest_pair labs atoms fuel plain (l1 ++ (d ++ [c]) :: l2)) i =
             nest_accepts (nest_pair labs atoms fuel plain (l1 ++ d :: l2)) i) /\
  nest_resolve (nest_pair labs atoms fuel plain (l1 ++ (d ++ [c]) :: l2)) = nest_resolve (nest_pair labs atoms fuel plain (l1 ++ d :: l2)).
Proof. exact nest_duplicate_disjunct. Qed.
Print Assumptions C04_nest_duplicate_disjunct.

Theorem C04_nest_weaker_copy_irrelevant : forall labs atoms fuel plain d r m m' e,
  In (m, e) d -> implb m' m = true ->
  (forall i, nest_accepts (nest_pair labs atoms fuel plain ((d ++ [(m', e)]) :: r)) i =
             nest_accepts (nest_pair labs atoms fuel plain (d :: r)) i) /\
  nest_resolve (nest_pair labs atoms fuel plain ((d ++ [(m', e)]) :: r)) = nest_resolve (nest_pair labs atoms fuel plain (d :: r)).
Proof. exact nest_weaker_copy_irrelevant. Qed.
Print Assumptions C04_nest_weaker_copy_irrelevant.

(* non-vacuity: {a: *1 | 2} resolves a to 1; & {a: 2 | 3} leaves a = 2; ({a: 1 | 2} | {a: 3}) & {a: 3} keeps the
   second disjunct only; {a: 1 | 2} | {a: 3} is ambiguous; *{a: 1} | {a: 2} resolves to the marked struct *)
Definition nx_i (z : Z) := EScalar (SAtom (AInt z)).
Definition nx_lit (d : disj) : sterm := TLit [(LReg 0%N, mkFval [] [d])].
Definition nx_one (z : Z) : sterm := TLit [(LReg 0%N, mkFval [nx_i z] [])].
Definition nx_L := [LReg 0%N; LReg 9%N].
Definition nx_A := [AInt 1%Z; AInt 2%Z; AInt 3%Z].
Definition nx_res plain ds := nest_resolve (nest_pair nx_L nx_A 5 plain ds).
Definition nx_field (r : gresolution aval) : option (resolution * list bool) :=
  match r with GChosen (AStruct ((true, o) :: _)) => Some o | _ => None end.

Example C04_nest_example :
  (exists v, nx_field (nx_res [nx_lit [(true, nx_i 1); (false, nx_i 2)]] []) = Some (Chosen v, [true; true; false])) /\
  (exists v, nx_field (nx_res [nx_lit [(true, nx_i 1); (false, nx_i 2)]; nx_lit [(false, nx_i 2); (false, nx_i 3)]] [])
             = Some (Chosen v, [false; true; false])) /\
  nx_field (nx_res [nx_lit [(false, nx_i 1); (false, nx_i 2)]] []) = Some (Ambiguous, [true; true; false]) /\
  nx_res [nx_one 3] [[(false, [nx_lit [(false, nx_i 1); (false, nx_i 2)]]); (false, [nx_one 3])]] = nx_res [nx_one 3] [] /\
  nx_res [] [[(false, [nx_lit [(false, nx_i 1); (false, nx_i 2)]]); (false, [nx_one 3])]] = GAmbiguous /\
  nx_res [] [[(true, [nx_one 1]); (false, [nx_one 2])]] = nx_res [nx_one 1] [] /\
  nx_res [nx_one 3] [[(false, [nx_one 1]); (false, [nx_one 2])]] = GNoValue /\
  alt_val nx_L nx_A 5 [nx_lit [(false, nx_i 1)]; nx_one 2] = AErr.
Proof.
  split; [eexists; vm_compute; reflexivity|].
  split; [eexists; vm_compute; reflexivity|].
  vm_compute. repeat split.
Qed.
Print Assumptions C04_nest_example.
