(* C17 - cue mod tidy reaches a correct fixpoint; module files round-trip.
   Only statements, closed by [exact], and Print Assumptions. *)
From Verif Require Import Base.Order Tidy.Model Tidy.Examples.
From Coq Require Import List NArith.
Import ListNotations.

Example C17_example_fresh_tidy : tidy_model 10 1000 u0 m0 d0 = TOk f0.
Proof. exact w0_tidy. Qed.
Print Assumptions C17_example_fresh_tidy.
