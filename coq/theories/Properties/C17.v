(* C17 - cue mod tidy reaches a correct fixpoint; module files round-trip.
   Only statements, closed by [exact], and Print Assumptions.

   The model (Tidy/Model.v) follows modload.Tidy / CheckTidy branch by branch for the
   published view.  It REFUTES three clauses of the property as worded (idempotence,
   acceptance of tidy's own output, closure under minimal version selection); the
   witnesses below were replayed on the real code (design/C17.md, findings
   F-C17-1..4).  The positive theorems state exactly what does hold. *)
From Verif Require Import Base.Order Tidy.Model Tidy.Sets Tidy.Proofs Tidy.Examples.
From Coq Require Import List NArith.
Import ListNotations.

(* ---- order independence: files, imports, module.cue entries and registry contents
        are SETS; any permutation, repetition or redistribution over files of the same
        facts gives the same tidy result and the same check verdict --------------- *)
Theorem C17_resolve_order_independent : forall fuel ifuel u u' m m' ds ds',
  set_eq (u_mods u) (u_mods u') -> set_eq (u_deps u) (u_deps u') ->
  set_eq (u_pkgs u) (u_pkgs u') -> set_eq (u_imps u) (u_imps u') -> set_eq (u_std u) (u_std u') ->
  m_base m = m_base m' -> m_major m = m_major m' ->
  set_eq (m_dirs m) (m_dirs m') -> set_eq (m_imports m) (m_imports m') ->
  set_eq ds ds' ->
  tidy_model fuel ifuel u m ds = tidy_model fuel ifuel u' m' ds' /\
  check_model ifuel u m ds = check_model ifuel u' m' ds'.
Proof. exact resolve_order_independent. Qed.
Print Assumptions C17_resolve_order_independent.

Theorem C17_permutations_are_set_equal : forall (A : Type) (l l' : list A),
  Permutation.Permutation l l' -> set_eq l l'.
Proof. exact @Permutation_set_eq. Qed.
Print Assumptions C17_permutations_are_set_equal.

(* ---- LoadPackages: exactly the packages transitively imported by the main module -- *)
Theorem C17_load_computes_reachable : forall u mm ifuel rs l,
  load u mm ifuel rs = Some l ->
  (forall k, In k (map fst l) <-> Reach u mm rs k) /\
  (forall k e, In (k, e) l -> e = process u mm rs k).
Proof. exact load_reach. Qed.
Print Assumptions C17_load_computes_reachable.

(* ---- CheckTidy accepts exactly the module files that are tidy: every import of every
        reachable package resolves, the entries are exactly the providers at the
        versions they are loaded from (nothing missing, nothing unused) ------------ *)
Theorem C17_is_tidy_check_accepts : forall u mm ifuel ds l,
  load u mm ifuel (of_file mm ds) = Some l ->
  (check u mm ifuel ds = CAccept <-> IsTidy u mm ds).
Proof. exact is_tidy_check_accepts. Qed.
Print Assumptions C17_is_tidy_check_accepts.

(* ---- an accepted module file is a fixpoint of Tidy ------------------------------ *)
Theorem C17_tidy_fixpoint_of_accepted : forall u mm fuel ifuel ds,
  wf_file mm ds -> check u mm ifuel ds = CAccept -> tidy u mm (S fuel) ifuel ds = TOk ds.
Proof. exact tidy_fixpoint_of_accepted. Qed.
Print Assumptions C17_tidy_fixpoint_of_accepted.

(* ---- resolve_sound, relative to the requirements tidy was working with when it
        stopped (NOT relative to the written file: see the refutations) -------------- *)
Theorem C17_resolve_sound : forall u mm fuel ifuel ds F,
  tidy u mm fuel ifuel ds = TOk F ->
  exists rs,
    (forall k, Reach u mm rs k -> resolves u mm rs k) /\
    (forall n, In n (map fst F) <-> exists k, Reach u mm rs k /\ provides u mm rs k n) /\
    NoDup (map n_mpath (map fst F)) /\
    (forall n, In n (map fst F) ->
               root_selected rs (n_mpath n) = Some (snd n) \/ selected u rs (n_mpath n) = Some (snd n)) /\
    (rs = of_file mm ds \/ settled u rs).
Proof. exact resolve_sound. Qed.
Print Assumptions C17_resolve_sound.

(* the version selected for a module path is the maximum over the (pruned) module graph *)
Theorem C17_selected_is_max : forall u rs mp v,
  selected u rs mp = Some v ->
  In (fst mp, v) (graph_nodes u rs) /\
  forall n, In n (graph_nodes u rs) -> n_mpath n = mp -> ver_le (snd n) v.
Proof. exact selected_is_max. Qed.
Print Assumptions C17_selected_is_max.

Theorem C17_root_selected_is_max : forall rs mp v,
  root_selected rs mp = Some v ->
  In (fst mp, v) (r_roots rs) /\
  forall n, In n (r_roots rs) -> n_mpath n = mp -> ver_le (snd n) v.
Proof. exact root_selected_is_max. Qed.
Print Assumptions C17_root_selected_is_max.

(* updateRoots leaves every root at the version its module graph selects *)
Theorem C17_update_roots_settled : forall u ifuel rs l add rs2,
  update_roots u ifuel rs l add = Some (Some rs2) -> settled u rs2.
Proof. exact update_roots_settled. Qed.
Print Assumptions C17_update_roots_settled.

(* ---- tidy writes a well-formed module file (sorted, one entry per module path, at
        most one default per base path) ------------------------------------------- *)
Theorem C17_tidy_output_wf : forall u mm,
  (forall n, In n (u_mods u) -> fst n <> m_base mm) ->
  forall fuel ifuel ds F, tidy u mm fuel ifuel ds = TOk F -> wf_file mm F.
Proof. exact tidy_output_wf. Qed.
Print Assumptions C17_tidy_output_wf.

(* ---- idempotence and full soundness hold exactly when CheckTidy accepts the output *)
Theorem C17_tidy_idempotent_when_accepted : forall u mm,
  (forall n, In n (u_mods u) -> fst n <> m_base mm) ->
  forall fuel fuel' ifuel ds F,
    tidy u mm fuel ifuel ds = TOk F -> check u mm ifuel F = CAccept ->
    tidy u mm (S fuel') ifuel F = TOk F.
Proof. exact tidy_idempotent_when_accepted. Qed.
Print Assumptions C17_tidy_idempotent_when_accepted.

Theorem C17_tidy_output_is_tidy_when_accepted : forall u mm fuel ifuel ds F,
  tidy u mm fuel ifuel ds = TOk F -> check u mm ifuel F = CAccept -> IsTidy u mm F.
Proof. exact tidy_output_is_tidy_when_accepted. Qed.
Print Assumptions C17_tidy_output_is_tidy_when_accepted.

(* ---- the resolve loop stops within (#registry modules + 1) rounds ------------------ *)
Theorem C17_resolve_fuel_sufficient : forall u mm fuel ifuel ds,
  (length (u_mods u) < fuel)%nat -> tidy u mm fuel ifuel ds <> TFuel.
Proof. exact resolve_fuel_sufficient. Qed.
Print Assumptions C17_resolve_fuel_sufficient.

(* ---- refutations (each witness replayed on modload.Tidy / CheckTidy) -------------- *)
Theorem C17_tidy_idempotent_refuted :
  exists u mm ds F, tidy_model 10 1000 u mm ds = TOk F /\ tidy_model 10 1000 u mm F <> TOk F.
Proof. exact tidy_idempotent_refuted. Qed.
Print Assumptions C17_tidy_idempotent_refuted.

Theorem C17_tidy_idempotent_refuted_default_lost :
  exists u mm ds F, tidy_model 10 1000 u mm ds = TOk F /\ tidy_model 10 1000 u mm F = TErr true false false.
Proof. exact tidy_idempotent_refuted_default_lost. Qed.
Print Assumptions C17_tidy_idempotent_refuted_default_lost.

Theorem C17_tidy_idempotent_refuted_grows :
  exists u mm ds F F', tidy_model 10 1000 u mm ds = TOk F /\ tidy_model 10 1000 u mm F = TOk F' /\ F <> F'.
Proof. exact tidy_idempotent_refuted_grows. Qed.
Print Assumptions C17_tidy_idempotent_refuted_grows.

Theorem C17_check_accepts_output_refuted :
  exists u mm ds F, tidy_model 10 1000 u mm ds = TOk F /\ check_model 1000 u mm F <> CAccept.
Proof. exact check_accepts_output_refuted. Qed.
Print Assumptions C17_check_accepts_output_refuted.

Theorem C17_mvs_closed_refuted :
  exists u mm ds F, tidy_model 10 1000 u mm ds = TOk F /\ check_model 1000 u mm F = CAccept /\ ~ mvs_closed u F.
Proof. exact mvs_closed_refuted. Qed.
Print Assumptions C17_mvs_closed_refuted.

(* ---- non-vacuity ------------------------------------------------------------------ *)
Example C17_example_fresh_tidy :
  tidy_model 10 1000 u0 m0 d0 = TOk f0 /\
  tidy_model 10 1000 u0 m0 f0 = TOk f0 /\ check_model 1000 u0 m0 f0 = CAccept /\
  check_model 1000 u0 m0 d0 = CErr true false false.
Proof. exact (conj w0_tidy (conj (proj1 w0_idempotent) (conj (proj2 w0_idempotent) w0_check_rejects_input))). Qed.
Print Assumptions C17_example_fresh_tidy.

Example C17_example_is_tidy :
  IsTidy (norm_universe u0) (norm_main m0) f0 /\ wf_file (norm_main m0) f0 /\ mvs_closed (norm_universe u0) f0.
Proof. exact (conj w0_is_tidy (conj w0_wf w0_mvs_closed)). Qed.
Print Assumptions C17_example_is_tidy.

Example C17_example_order : tidy_model 10 1000 u0' m0 (d0 ++ d0) = TOk f0.
Proof. exact w0_order. Qed.
Print Assumptions C17_example_order.

Example C17_example_pruned_candidate_upgrades :
  tidy_model 10 1000 u4 m4 [] = TOk [plain ([a], v 0 1); plain ([b], v 0 3); plain ([c], v 0 1)].
Proof. exact w4_tidy. Qed.
Print Assumptions C17_example_pruned_candidate_upgrades.
