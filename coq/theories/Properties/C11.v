(* C11 - YAML output reads back as the same data; JSON fed to the YAML decoder
   means JSON.  Statements only, closed by [exact], and Print Assumptions. *)
From Verif Require Import Yaml.Scalar Yaml.Examples.
From Coq Require Import List NArith Bool.
Import ListNotations.
Open Scope N_scope.

(* F4: the string "\n" is literal-safe for the encoder, is written as "|\n\n" and reads back as "" *)
Theorem C11_literal_refuted_newline : forall tok_number tok_isnumber tok_timestamp,
    block_literal_safe [c_nl] = true /\
    value_style tok_number tok_isnumber tok_timestamp true [c_nl] = Literal /\
    emit_literal 2 [c_nl] = [124; 10; 10] /\
    parse_literal 0 false (emit_literal 2 [c_nl]) = Some [].
Proof. exact literal_refuted_newline. Qed.
Print Assumptions C11_literal_refuted_newline.
