(* C11 - YAML output reads back as the same data; JSON fed to the YAML decoder
   means JSON.  Statements only, closed by [exact], and Print Assumptions.

   Strings are lists of code points.  [choose_style], [emit_*] model the encoder
   of the pinned tree (internal/encoding/yaml/goccy/encode.go + the third-party
   emitter), [parse_*], [read_any] the YAML 1.2 reading of what it writes.  The
   oracles (unicode.IsPrint, token.ToNumber, token.isNumber, token.isTimestamp)
   are universally quantified; the two hypotheses about them are validated on
   every generated case by the harness. *)
From Verif Require Import Yaml.Scalar Yaml.Proofs Yaml.Literal Yaml.Style Yaml.Json Yaml.Examples.
From Coq Require Import List NArith Bool.
Import ListNotations.
Open Scope N_scope.

(* every string written by strconv.Quote (the encoder's double-quoted form) reads back *)
Theorem C11_double_roundtrip : forall is_print : N -> bool,
  (forall c, is_print c = true -> is_break c = false) ->
  forall s, Forall rune32 s -> parse_double (emit_double is_print s) = Some s.
Proof. exact double_roundtrip. Qed.
Print Assumptions C11_double_roundtrip.

(* the literal block written for s reads back as s exactly under literal_ok *)
Theorem C11_literal_roundtrip_when : forall n p root s,
  literal_ok s = true -> (p < n)%nat -> parse_literal p root (emit_literal n s) = Some s.
Proof. exact literal_roundtrip_when. Qed.
Print Assumptions C11_literal_roundtrip_when.

(* what blockLiteralSafe (the encoder's test) does not imply: exactly the two classes of literal_gap *)
Theorem C11_literal_safe_gap : forall s,
  block_literal_safe s = true -> literal_ok s = false -> literal_gap s = true.
Proof. exact literal_safe_gap. Qed.
Print Assumptions C11_literal_safe_gap.

(* F4: the value "\n" is written as "|\n\n" and reads back as "" *)
Theorem C11_literal_refuted_newline :
  block_literal_safe nl1 = true /\
  ex_choose false true nl1 = Literal /\
  ex_doc Literal 2 nl1 val_suffix = [124; 10; 10] /\
  ex_read 0 false false val_suffix (ex_doc Literal 2 nl1 val_suffix) = Some [] /\
  literal_ok nl1 = false /\ literal_gap nl1 = true.
Proof. exact literal_refuted_newline. Qed.
Print Assumptions C11_literal_refuted_newline.

(* "\n a" is written as "|-\n\n   a\n" and reads back as "\na" *)
Theorem C11_literal_refuted_space :
  block_literal_safe nl_sp_a = true /\
  ex_choose false true nl_sp_a = Literal /\
  ex_read 0 false false val_suffix (ex_doc Literal 2 nl_sp_a val_suffix) = Some [10; 97] /\
  literal_ok nl_sp_a = false /\ literal_gap nl_sp_a = true.
Proof. exact literal_refuted_space. Qed.
Print Assumptions C11_literal_refuted_space.

(* a string satisfying plain_ok, followed by the end of the line or by ": ", is scanned as itself *)
Theorem C11_plain_roundtrip_when : forall col0 s tail,
  plain_ok col0 s = true -> stops_scan tail -> parse_plain (s ++ tail) = (s, tail).
Proof. exact plain_roundtrip_when. Qed.
Print Assumptions C11_plain_roundtrip_when.

(* single-quoted forms *)
Theorem C11_single_cue_roundtrip_when : forall s,
  existsb is_break s = false -> parse_single (emit_single_cue s) = Some s.
Proof. exact single_cue_roundtrip_when. Qed.
Print Assumptions C11_single_cue_roundtrip_when.

Theorem C11_single_go_roundtrip_when : forall is_print : N -> bool,
  (forall c, is_print c = true -> is_break c = false) ->
  forall s, forallb (sq_safe is_print) s = true -> parse_single (emit_single_go is_print s) = Some s.
Proof. exact single_go_roundtrip_when. Qed.
Print Assumptions C11_single_go_roundtrip_when.

(* a scalar the encoder leaves plain resolves to a string (not number / bool / null) in the decoder *)
Theorem C11_plain_choice_resolves_str : forall tok_number tok_isnumber tok_timestamp : str -> bool,
  (forall t, tok_number t = true -> tok_isnumber t = true) ->
  forall is_key multi s,
    choose_style tok_number tok_isnumber tok_timestamp is_key multi s = Plain ->
    resolve_plain tok_number s = TStr.
Proof. exact plain_choice_resolves_str. Qed.
Print Assumptions C11_plain_choice_resolves_str.

(* ... and is syntactically a plain scalar, in every position *)
Theorem C11_plain_choice_ok : forall tok_number tok_isnumber tok_timestamp is_key multi col0 s,
  choose_style tok_number tok_isnumber tok_timestamp is_key multi s = Plain ->
  plain_ok col0 s = true.
Proof. exact plain_choice_ok. Qed.
Print Assumptions C11_plain_choice_ok.

(* the style decision as a whole: outside style_gap the document text of the scalar reads back as the string *)
Theorem C11_style_choice_safe_when :
  forall (is_print : N -> bool) (tok_number tok_isnumber tok_timestamp : str -> bool),
  (forall c, is_print c = true -> is_break c = false) ->
  (forall t, tok_number t = true -> tok_isnumber t = true) ->
  forall is_key multi col0 root p n s suffix,
    Forall rune32 s -> (p < n)%nat -> suffix_ok suffix ->
    style_gap is_print col0 (choose_style tok_number tok_isnumber tok_timestamp is_key multi s) s = false ->
    read_any tok_number p root col0 suffix
      (emit_doc is_print (choose_style tok_number tok_isnumber tok_timestamp is_key multi s) n s suffix) = Some s.
Proof. exact style_choice_safe_when. Qed.
Print Assumptions C11_style_choice_safe_when.

(* for literal blocks the gap is exactly literal_gap *)
Theorem C11_literal_choice_gap : forall tok_number tok_isnumber tok_timestamp is_key multi s,
  choose_style tok_number tok_isnumber tok_timestamp is_key multi s = Literal ->
  literal_ok s = false -> literal_gap s = true.
Proof. exact literal_choice_gap. Qed.
Print Assumptions C11_literal_choice_gap.

(* the gap is inhabited: witnesses for each class (oracles as the implementation's libraries answer on them) *)
Theorem C11_dots_quoted :
  ex_choose false false dots = Double /\ ex_choose true false dots = Double /\
  ex_choose true false [46; 46; 46; 97] = Double /\ ex_choose false false [46; 46; 46; 32; 120] = Double /\
  ex_read 0 true true val_suffix (ex_doc Double 2 dots val_suffix) = Some dots /\
  ex_read 0 false true key_suffix (ex_doc Double 2 [46; 46; 46; 97] key_suffix) = Some [46; 46; 46; 97].
Proof. exact dots_quoted. Qed.
Print Assumptions C11_dots_quoted.

Theorem C11_style_choice_refuted_nbsp :
  ex_choose false false hash_nbsp = SingleGo /\
  style_gap ex_print false SingleGo hash_nbsp = true /\
  ex_doc SingleGo 2 hash_nbsp val_suffix = [39; 35; 92; 117; 48; 48; 97; 48; 39; 10] /\
  ex_read 0 false false val_suffix (ex_doc SingleGo 2 hash_nbsp val_suffix) = Some [35; 92; 117; 48; 48; 97; 48].
Proof. exact style_choice_refuted_nbsp. Qed.
Print Assumptions C11_style_choice_refuted_nbsp.

Theorem C11_style_choice_refuted_cr :
  ex_choose false false qm_cr = SingleCue /\
  style_gap ex_print false SingleCue qm_cr = true /\
  ex_read 0 false false val_suffix (ex_doc SingleCue 2 qm_cr val_suffix) = None.
Proof. exact style_choice_refuted_cr. Qed.
Print Assumptions C11_style_choice_refuted_cr.

(* JSON scalars: every JSON escape is a YAML escape with the same meaning; true/false/null resolve alike *)
Theorem C11_json_escapes_same : forall e v, json_simple_escape e = Some v -> simple_escape e = Some v.
Proof. exact json_escapes_same. Qed.
Print Assumptions C11_json_escapes_same.

Theorem C11_json_literals_resolve : forall tok_number,
  resolve_plain tok_number [116; 114; 117; 101] = TBool /\
  resolve_plain tok_number [102; 97; 108; 115; 101] = TBool /\
  resolve_plain tok_number [110; 117; 108; 108] = TNull.
Proof. exact json_literals_resolve. Qed.
Print Assumptions C11_json_literals_resolve.

(* every JSON number text (RFC 8259 grammar) is resolved as a number by the YAML decoder, never as a string *)
Theorem C11_json_number_not_string : forall tok_number s,
  json_number s = true -> is_tstr (resolve_plain tok_number s) = false.
Proof. exact json_number_not_string. Qed.
Print Assumptions C11_json_number_not_string.

Example C11_json_number_example :
  json_number [45; 49; 46; 53; 101; 43; 51] = true /\ json_number [48] = true /\ json_number [48; 49] = false.
Proof. exact json_number_example. Qed.
Print Assumptions C11_json_number_example.

(* non-vacuity *)
Example C11_literal_ok_example :
  literal_ok multi_ex = true /\ ex_choose false true multi_ex = Literal /\
  ex_read 2 false false val_suffix (ex_doc Literal 4 multi_ex val_suffix) = Some multi_ex.
Proof. exact literal_ok_example. Qed.
Print Assumptions C11_literal_ok_example.

Example C11_gap_false_example :
  style_gap ex_print true (ex_choose true false [97; 32; 98]) [97; 32; 98] = false /\
  style_gap ex_print false (ex_choose false false [105; 116; 39; 115]) [105; 116; 39; 115] = false.
Proof. exact gap_false_example. Qed.
Print Assumptions C11_gap_false_example.

Example C11_oracle_hypotheses_inhabited :
  (forall c, ex_print c = true -> is_break c = false) /\ (forall t, ex_no t = true -> ex_no t = true).
Proof. exact oracle_hypotheses_inhabited. Qed.
Print Assumptions C11_oracle_hypotheses_inhabited.

(* ---------------- whole documents (Yaml/Doc.v) ---------------- *)
From Verif Require Import Yaml.Doc Yaml.DocProofs.

(* block structure: for EVERY document (any nesting of sequences and mappings, empty
   collections anywhere, any scalars, any keys) the block parser inverts the token layout
   the encoder's printer produces ("- " entries in column c, nodes in column c + 2, compact
   "- - x" / "- k: v", [] and {} inline) *)
Theorem C11_doc_structure_roundtrip : forall d, parse_toks (emit_toks 0 d) = Some d.
Proof. exact parse_emit_toks. Qed.
Print Assumptions C11_doc_structure_roundtrip.

(* compositionality: in any column, in front of any continuation of an enclosing block,
   the node reads back in place and the continuation is left untouched *)
Theorem C11_doc_structure_embedded : forall d c rest,
  rest_lt c rest -> parse_node (need d) 0 (emit_toks c d ++ rest) = Some (d, rest).
Proof. exact parse_emit_toks_embedded. Qed.
Print Assumptions C11_doc_structure_embedded.

(* an inline string value (after "key: " / "- ") in the style the encoder chooses reads back
   as that string, outside the classes of style_gap *)
Theorem C11_value_string_roundtrip_when :
  forall (is_print : N -> bool) (tok_number tok_isnumber tok_timestamp : str -> bool),
  (forall c, is_print c = true -> is_break c = false) ->
  (forall t, tok_number t = true -> tok_isnumber t = true) ->
  forall multi n s, Forall rune32 s ->
    choose_style tok_number tok_isnumber tok_timestamp false multi s <> Literal ->
    style_gap is_print false (choose_style tok_number tok_isnumber tok_timestamp false multi s) s = false ->
    read_value tok_number (emit is_print (choose_style tok_number tok_isnumber tok_timestamp false multi s) n s) = Some (DStr s).
Proof. exact read_value_string_when. Qed.
Print Assumptions C11_value_string_roundtrip_when.

(* type preservation: whatever the string (also inside style_gap), its text never reads
   back as null / bool / number / bytes / a collection *)
Theorem C11_value_string_type_preserved :
  forall (is_print : N -> bool) (tok_number tok_isnumber tok_timestamp : str -> bool),
  (forall c, is_print c = true -> is_break c = false) ->
  (forall t, tok_number t = true -> tok_isnumber t = true) ->
  forall multi n s d, Forall rune32 s ->
    choose_style tok_number tok_isnumber tok_timestamp false multi s <> Literal ->
    read_value tok_number (emit is_print (choose_style tok_number tok_isnumber tok_timestamp false multi s) n s) = Some d ->
    exists s', d = DStr s'.
Proof. exact read_value_string_type. Qed.
Print Assumptions C11_value_string_type_preserved.

(* non-vacuity: a nested document with compact entries and empty collections *)
Example C11_doc_structure_example :
  emit_toks 0 (DMap [([97], DSeq [DSeq [DInt [49]]; DMap [([98], DSeq [])]]); ([99], DMap [])])
  = [TKey 0 [97]; TDash 2; TDash 4; TVal (DInt [49]); TDash 2; TKey 4 [98]; TVal (DSeq []); TKey 0 [99]; TVal (DMap [])].
Proof. exact doc_structure_example. Qed.
Print Assumptions C11_doc_structure_example.
