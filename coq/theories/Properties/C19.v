(* C19 - Values are immutable: concurrent use gives sequential answers, no data races.
   PARTIAL: these are theorems about the LOGIC of the shared mutable state behind the
   facade - the global label index (internal/core/runtime/index.go getKey /
   IndexToString) and the single-flight cache (internal/par Cache.Do) - for every
   interleaving of their lock-protected sections and any number of threads.
   Absence of data races in the Go memory model is NOT a theorem here (no Gallina
   model exhibits it); it is explored with the race detector by checks/C19.py.
   This file contains only statements, closed by [exact], and Print Assumptions. *)
From Verif Require Import Conc.Index Conc.IndexProofs Conc.Once Conc.OnceProofs Conc.Examples.
From Coq Require Import List Arith Bool.
Import ListNotations.

Section Conc.
  Variable K : Type.                                       (* strings / cache keys *)
  Variable K_eq_dec : forall a b : K, {a = b} + {a <> b}.

  (* ---- label index ---- *)

  (* In every reachable state of the index machine (with the re-check), from any
     well-formed initial table: no duplicates; labelMap is exactly the inverse of
     labels; every index handed to any thread reads back its string; same string
     <-> same index across all threads; the table only grew by appending. *)
  Theorem C19_index_bijective : forall b0 st, wf_tbl K K_eq_dec b0 -> Index.reachable K K_eq_dec true b0 st ->
    NoDup (labels K (tb K st)) /\
    (forall s p, assoc K K_eq_dec (lmap K (tb K st)) s = Some p <-> index_to_string K (tb K st) p = Some s) /\
    (forall t s p, In (s, p) (logs K st t) -> index_to_string K (tb K st) p = Some s) /\
    (forall t s p t' s' p', In (s, p) (logs K st t) -> In (s', p') (logs K st t') -> (s = s' <-> p = p')) /\
    (exists ext, labels K (tb K st) = labels K b0 ++ ext).
  Proof. exact (index_bijective K K_eq_dec). Qed.

  (* indices never change: along any continuation (either variant) an index keeps
     denoting the same string *)
  Theorem C19_index_stable : forall rc st ls st' p s,
    Index.run K K_eq_dec rc st ls = Some st' ->
    index_to_string K (tb K st) p = Some s -> index_to_string K (tb K st') p = Some s.
  Proof. exact (index_stable K K_eq_dec). Qed.

  (* a result returned once stays valid and unique under every continuation *)
  Theorem C19_index_results_stable : forall b0 ls1 ls2 st1 st2 t s p, wf_tbl K K_eq_dec b0 ->
    Index.run K K_eq_dec true (Index.init K b0) ls1 = Some st1 -> Index.run K K_eq_dec true st1 ls2 = Some st2 ->
    In (s, p) (logs K st1 t) ->
    In (s, p) (logs K st2 t) /\ index_to_string K (tb K st2) p = Some s /\
    (forall t' p', In (s, p') (logs K st2 t') -> p' = p).
  Proof. exact (index_results_stable K K_eq_dec). Qed.

  (* the sequential function getKey: what one call does alone, and that the
     machine can do exactly that from any reachable state *)
  Theorem C19_get_key_sequential : forall b s b' p, wf_tbl K K_eq_dec b -> get_key K K_eq_dec b s = (b', p) ->
    wf_tbl K K_eq_dec b' /\ nth_error (labels K b') p = Some s /\
    (exists ext, labels K b' = labels K b ++ ext) /\ (In s (labels K b) -> b' = b).
  Proof. exact (get_key_spec K K_eq_dec). Qed.

  Theorem C19_index_call_alone : forall b0 st t s b' p, IndexProofs.Inv K K_eq_dec b0 st -> Index.pcs K st t = Index.Idle ->
    get_key K K_eq_dec (tb K st) s = (b', p) ->
    exists ls st', Index.run K K_eq_dec true st ls = Some st' /\ tb K st' = b' /\
      logs K st' t = logs K st t ++ [(s, p)] /\ Index.pcs K st' t = Index.Idle.
  Proof. exact (index_call_alone K K_eq_dec). Qed.

  (* tables built by sequential calls from the empty table (the package init) are well formed *)
  Theorem C19_seq_keys_wf : forall ss b' ps, seq_keys K K_eq_dec (empty_tbl K) ss = (b', ps) -> wf_tbl K K_eq_dec b'.
  Proof. exact (fun ss b' ps => seq_keys_wf K K_eq_dec ss (empty_tbl K) b' ps (wf_empty K K_eq_dec)). Qed.

  (* the executable history check used by the correspondence accepts every history
     of the machine, and acceptance implies the statement of index_bijective on
     the observed results *)
  Theorem C19_index_history_accepted : forall b0 st n, wf_tbl K K_eq_dec b0 -> Index.reachable K K_eq_dec true b0 st ->
    (forall t, n <= t -> logs K st t = []) ->
    check_history K K_eq_dec (labels K b0) (map (logs K st) (seq 0 n)) (labels K (tb K st)) (lmap K (tb K st)) = true.
  Proof. exact (index_history_accepted K K_eq_dec). Qed.

  Theorem C19_check_history_sound : forall il ls final fm, check_history K K_eq_dec il ls final fm = true ->
    NoDup final /\ (exists e, final = il ++ e) /\
    (forall L s p, In L ls -> In (s, p) L -> nth_error final p = Some s) /\
    (forall L s p L' s' p', In L ls -> In (s, p) L -> In L' ls -> In (s', p') L' -> (s = s' <-> p = p')) /\
    (forall p, length il <= p < length final -> exists L, In L ls /\ appender_ok K p L = true).
  Proof. exact (check_history_sound K K_eq_dec). Qed.

  (* the re-check in section B is necessary: without it a duplicate entry is
     reachable and two callers get different indices for one string *)
  Theorem C19_index_recheck_necessary : forall s : K,
    exists st, Index.reachable K K_eq_dec false (empty_tbl K) st /\
      ~ NoDup (labels K (tb K st)) /\
      In (s, 0) (logs K st 0) /\ In (s, 1) (logs K st 1) /\
      assoc K K_eq_dec (lmap K (tb K st)) s = Some 1.
  Proof. exact (index_recheck_necessary K K_eq_dec). Qed.

  (* ---- par.Cache.Do ---- *)

  (* for every interleaving of any number of callers of any keys: f runs at most
     once per key; whoever has returned got the result of the one run; all
     callers of a key get the same result *)
  Theorem C19_do_once : forall st, Once.reachable K K_eq_dec true st ->
    (forall k, length (E K K_eq_dec st k) <= 1) /\
    (forall t k r, In (t, k, r) (rets K st) -> exists tok, r = Some tok /\ E K K_eq_dec st k = [tok]) /\
    (forall t k r t' r', In (t, k, r) (rets K st) -> In (t', k, r') (rets K st) -> r = r').
  Proof. exact (do_once K K_eq_dec). Qed.

  (* no deadlock: while some caller is inside Do, some caller inside Do can move *)
  Theorem C19_do_progress : forall st t, Once.reachable K K_eq_dec true st -> Once.pcs K st t <> Once.Idle ->
    exists u st', Once.pcs K st u <> Once.Idle /\ Once.step K K_eq_dec true st (Step u) = Some st'.
  Proof. exact (do_progress K K_eq_dec). Qed.

  (* every caller returns: with finitely many active callers there is a
     continuation without new calls after which every caller has returned *)
  Theorem C19_do_all_return : forall n st, Once.reachable K K_eq_dec true st ->
    (forall t, n <= t -> Once.pcs K st t = Once.Idle) ->
    exists ls st', Once.run K K_eq_dec true st ls = Some st' /\ (forall t, Once.pcs K st' t = Once.Idle) /\
                   (forall l, In l ls -> exists u, l = Step u).
  Proof. exact (do_all_return K K_eq_dec). Qed.

  (* a call takes a bounded number of own steps and does not touch other threads' pcs *)
  Theorem C19_do_call_bounded : forall ul st t st', Once.step K K_eq_dec ul st (Step t) = Some st' ->
    rank K (Once.pcs K st' t) < rank K (Once.pcs K st t) /\ forall u, u <> t -> Once.pcs K st' u = Once.pcs K st u.
  Proof. exact (step_rank K K_eq_dec). Qed.

  (* callers of different keys do not interfere *)
  Theorem C19_do_keys_independent : forall ul st l st' k k', Once.step K K_eq_dec ul st l = Some st' ->
    label_key K st l = Some k -> k' <> k ->
    ents K st' k' = ents K st k' /\ E K K_eq_dec st' k' = E K K_eq_dec st k' /\
    (forall t r, In (t, k', r) (rets K st') <-> In (t, k', r) (rets K st)).
  Proof. exact (do_keys_independent K K_eq_dec). Qed.

  Theorem C19_once_history_accepted : forall st, Once.reachable K K_eq_dec true st ->
    check_once K K_eq_dec (execs K st) (returns_of K st) = true.
  Proof. exact (once_history_accepted K K_eq_dec). Qed.
End Conc.
Print Assumptions C19_index_bijective.
Print Assumptions C19_index_stable.
Print Assumptions C19_index_results_stable.
Print Assumptions C19_get_key_sequential.
Print Assumptions C19_index_call_alone.
Print Assumptions C19_seq_keys_wf.
Print Assumptions C19_index_history_accepted.
Print Assumptions C19_check_history_sound.
Print Assumptions C19_index_recheck_necessary.
Print Assumptions C19_do_once.
Print Assumptions C19_do_progress.
Print Assumptions C19_do_all_return.
Print Assumptions C19_do_call_bounded.
Print Assumptions C19_do_keys_independent.
Print Assumptions C19_once_history_accepted.

(* the per-entry mutex is necessary: without it two callers both run f and return different results *)
Theorem C19_once_lock_necessary :
  exists st, Once.reachable nat Nat.eq_dec false st /\
    length (E nat Nat.eq_dec st 7) = 2 /\
    In (0, 7, Some 0) (rets nat st) /\ In (1, 7, Some 1) (rets nat st).
Proof. exact once_lock_necessary. Qed.
Print Assumptions C19_once_lock_necessary.

(* non-vacuity *)
Example C19_example_index_three_threads :
  exists st, Index.run nat Nat.eq_dec true (Index.init nat tbl_init) sched3 = Some st /\
    Index.reachable nat Nat.eq_dec true tbl_init st /\
    labels nat (tb nat st) = [0; 5; 6] /\
    logs nat st 0 = [(5, 1); (6, 2)] /\ logs nat st 1 = [(5, 1); (0, 0)] /\ logs nat st 2 = [(6, 2); (5, 1)] /\
    check_history nat Nat.eq_dec (labels nat tbl_init) (map (logs nat st) (seq 0 3))
                  (labels nat (tb nat st)) (lmap nat (tb nat st)) = true.
Proof. exact index_three_threads. Qed.
Print Assumptions C19_example_index_three_threads.

Example C19_example_init_table_wf :
  wf_tbl nat Nat.eq_dec tbl_init /\ labels nat tbl_init = [0] /\ lmap nat tbl_init = [(0, 0)].
Proof. exact tbl_init_wf. Qed.
Print Assumptions C19_example_init_table_wf.

Example C19_example_recheck_effective : forall s : nat,
  exists st, Index.run nat Nat.eq_dec true (Index.init nat (empty_tbl nat)) (dup_schedule nat s) = Some st /\
    labels nat (tb nat st) = [s] /\ logs nat st 0 = [(s, 0)] /\ logs nat st 1 = [(s, 0)].
Proof. exact (index_recheck_effective nat Nat.eq_dec). Qed.
Print Assumptions C19_example_recheck_effective.

Example C19_example_check_history_rejects :
  check_history nat Nat.eq_dec [0] [[(5, 1)]; [(5, 2)]] [0; 5; 5] [(5, 2); (0, 0)] = false /\
  check_history nat Nat.eq_dec [0] [[(5, 1)]; [(5, 2)]] [0; 5; 6] [(6, 2); (5, 1); (0, 0)] = false /\
  check_history nat Nat.eq_dec [0] [[(5, 1)]; [(6, 1)]] [0; 5] [(5, 1); (0, 0)] = false /\
  check_history nat Nat.eq_dec [0] [[(6, 2); (5, 1)]] [0; 5; 6] [(6, 2); (5, 1); (0, 0)] = false /\
  check_history nat Nat.eq_dec [0] [[(5, 1); (6, 2)]] [0; 5; 6] [(6, 2); (5, 1); (0, 0)] = true.
Proof. exact check_history_rejects. Qed.
Print Assumptions C19_example_check_history_rejects.

Example C19_example_check_once_rejects :
  check_once nat Nat.eq_dec [(7, 1); (7, 0)] [(7, Some 0)] = false /\
  check_once nat Nat.eq_dec [(7, 0)] [(7, Some 0); (7, Some 1)] = false /\
  check_once nat Nat.eq_dec [(7, 0)] [(7, None)] = false /\
  check_once nat Nat.eq_dec [] [(7, Some 0)] = false /\
  check_once nat Nat.eq_dec [(8, 3); (7, 0)] [(7, Some 0); (8, Some 3); (7, Some 0)] = true.
Proof. exact check_once_rejects. Qed.
Print Assumptions C19_example_check_once_rejects.

Example C19_example_once_lock_effective :
  Once.run nat Nat.eq_dec true (Once.init nat) nolock_schedule = None /\
  exists st, Once.run nat Nat.eq_dec true (Once.init nat)
      [Call 0 7; Call 1 7; Step 0; Step 1; Step 0; Step 1; Step 0; Step 0; Step 0; Step 0; Step 0; Step 0; Step 0;
       Step 1; Step 1; Step 1; Step 1] = Some st /\
    E nat Nat.eq_dec st 7 = [0] /\ returns_of nat st = [(7, Some 0); (7, Some 0)].
Proof. exact once_lock_effective. Qed.
Print Assumptions C19_example_once_lock_effective.
