(* C12 - cue export / cue import are inverse across JSON, YAML, TOML and CUE.
   Statements only, closed by [exact], and Print Assumptions.

   The theorems are about the in-repo part of the TOML leg: the decoder state
   machine of encoding/toml/decode.go over the parser's events (Toml/Decode.v).
   The CLI loop (export / import through the cue binary) is explored directly on
   the implementation by the check; there is no theorem about the CLI. *)
From Verif Require Import Toml.Decode Toml.Proofs Toml.Emit Toml.RoundTrip.
From Coq Require Import List NArith Bool.
Import ListNotations.

(* a table header accepted once is rejected as a duplicate afterwards, in every state *)
Theorem C12_duplicate_table_rejected : forall s p s2,
  step s (ETable p) = Ok s2 -> step s2 (ETable p) = Err EDup.
Proof. exact duplicate_table_rejected. Qed.
Print Assumptions C12_duplicate_table_rejected.

Theorem C12_table_then_array_rejected : forall s p s2,
  step s (ETable p) = Ok s2 -> step s2 (EArrayTable p) = Err ERedeclAsArray.
Proof. exact table_then_array_rejected. Qed.
Print Assumptions C12_table_then_array_rejected.

(* a key assigned once in a table cannot be assigned again, whatever the values are *)
Theorem C12_duplicate_key_rejected : forall s p v v2 s2,
  step s (EKeyValue p v) = Ok s2 -> step s2 (EKeyValue p v2) = Err EDup.
Proof. exact duplicate_key_rejected. Qed.
Print Assumptions C12_duplicate_key_rejected.

(* n+1 headers [[p]] give a list of n+1 tables under p; the current table is the last one *)
Theorem C12_array_table_append : forall p n, p <> [] ->
  run init (repeat (EArrayTable p) (S n)) = Ok (array_state p n).
Proof. exact array_table_append. Qed.
Print Assumptions C12_array_table_append.

(* ... and a key-value that follows lands in that last table *)
Theorem C12_array_table_current : forall p n k l, p <> [] ->
  step (array_state p n) (EKeyValue [k] (VLeaf l)) =
  Ok (mkState (append_field (lp p ++ [n]) (k, OLeaf l) (st_out (array_state p n)))
              [key_of p ++ [SIdx n; SName k]]
              (st_arrays (array_state p n)) (key_of p ++ [SIdx n]) (Some (lp p ++ [n]))).
Proof. exact array_table_current. Qed.
Print Assumptions C12_array_table_current.

(* a.b.c = v,  [a] b.c = v  and  a = { b.c = v }  decode to the same syntax tree (or the same error) *)
Theorem C12_decode_dotted_equiv : forall p q v, p <> [] -> q <> [] ->
  decode [ETable p; EKeyValue q v] = decode [EKeyValue (p ++ q) v] /\
  decode [EKeyValue p (VInline [(q, v)])] = decode [EKeyValue (p ++ q) v].
Proof. exact decode_dotted_equiv. Qed.
Print Assumptions C12_decode_dotted_equiv.

(* a flat document (root scalars, then [tables] of scalars) without repeated keys is read back as written;
   decode (emit d) = d for nested tables and arrays of tables is NOT proved (explored by the check) *)
Theorem C12_decode_emit_flat_partial : forall d, flat_safe d -> decode (emit_flat d) = Ok (tree_flat d).
Proof. exact decode_emit_flat. Qed.
Print Assumptions C12_decode_emit_flat_partial.

Example C12_flat_safe_example :
  flat_safe (mkFlat [(ka, 1%N); (kb, 2%N)] [(kc, [(ka, 3%N)]); (kx, [])]) /\
  decode (emit_flat (mkFlat [(ka, 1%N); (kb, 2%N)] [(kc, [(ka, 3%N)]); (kx, [])])) =
  Ok (OStruct [(ka, OLeaf 1%N); (kb, OLeaf 2%N); (kc, OStruct [(ka, OLeaf 3%N)]); (kx, OStruct [])]).
Proof. exact flat_safe_example. Qed.
Print Assumptions C12_flat_safe_example.

(* decodeExpr looks at the seen keys only below its own rooted key *)
Theorem C12_decode_expr_agree : forall arrays v rk s1 s2,
  agree rk s1 s2 ->
  same_outcome rk s1 s2 (decode_expr arrays rk v s1) (decode_expr arrays rk v s2).
Proof. exact decode_expr_agree. Qed.
Print Assumptions C12_decode_expr_agree.

(* findArrayPrefix hands out the array with the key itself or with a proper prefix of it, at the index
   reported (C12-toml-decoder-panic, fixed: no zeroed or shifted slot any more) *)
Theorem C12_find_array_prefix_sound : forall k arrays seen i a arrays2 seen2,
  find_array_prefix k arrays seen = (FSome i a, arrays2, seen2) ->
  nth_error arrays2 i = Some a /\
  (rkey_eqb (oa_key a) k = true \/ proper_prefix (oa_key a) k = true).
Proof. exact find_array_prefix_sound. Qed.
Print Assumptions C12_find_array_prefix_sound.

(* the former witnesses: [[a.b]] [[a]] [[a]] appends to a (CUE then reports the table/list conflict),
   [[a.b]] [[a]] [[c]] [[a]] x = 1 puts x into the second element of a *)
Theorem C12_sub_array_first_appends :
  decode [EArrayTable [ka; kb]; EArrayTable [ka]; EArrayTable [ka]] =
  Ok (OStruct [(ka, OStruct [(kb, OList [OStruct []])]); (ka, OList [OStruct []; OStruct []])]) /\
  eval 8 (OStruct [(ka, OStruct [(kb, OList [OStruct []])]); (ka, OList [OStruct []; OStruct []])]) = None.
Proof. exact sub_array_first_appends. Qed.
Print Assumptions C12_sub_array_first_appends.

Theorem C12_sub_array_first_keeps_arrays_apart :
  decode [EArrayTable [ka; kb]; EArrayTable [ka]; EArrayTable [kc]; EArrayTable [ka];
          EKeyValue [kx] (VLeaf 1%N)] =
  Ok (OStruct [(ka, OStruct [(kb, OList [OStruct []])]);
               (ka, OList [OStruct []; OStruct [(kx, OLeaf 1%N)]]);
               (kc, OList [OStruct []])]).
Proof. exact sub_array_first_keeps_arrays_apart. Qed.
Print Assumptions C12_sub_array_first_keeps_arrays_apart.

(* ---- decode o emit for ALL documents of the modelled data type (inline layout) ---- *)

(* decodeExpr reads the value of every toml-safe document (no table has a key twice, hereditarily:
   the boolean predicate wf) back as exactly its tree - arrays, inline tables, arrays of tables, to
   any depth (induction on the document tree) - under every rooted key below which nothing has been
   seen and no array of tables is open, and records only keys below that rooted key *)
Theorem C12_decode_expr_to_value : forall d arrays rk seen,
  wf d = true ->
  (forall s, In s seen -> ~ pp rk s) ->
  (forall a, In a arrays -> ~ pp rk (oa_key a)) ->
  exists seen2,
    decode_expr arrays rk (to_value d) seen = Ok (seen2, to_otree d) /\
    (forall s, In s seen2 -> In s seen \/ pp rk s).
Proof. exact decode_expr_to_value. Qed.
Print Assumptions C12_decode_expr_to_value.

(* root key-values are decoded exactly as one inline table: same tree or same error, all inputs *)
Theorem C12_root_kvs_as_inline : forall fs,
  decode (map (fun f => EKeyValue (fst f) (snd f)) fs) =
  match decode_expr [] [] (VInline fs) [] with
  | Ok (_, t) => Ok t
  | Err e => Err e
  end.
Proof. exact root_kvs_as_inline. Qed.
Print Assumptions C12_root_kvs_as_inline.

(* decode (emit d) = Ok d, every toml-safe document, inline layout *)
Theorem C12_decode_emit_inline : forall fs,
  wf (DStruct fs) = true -> decode (emit_inline (DStruct fs)) = Ok (to_otree (DStruct fs)).
Proof. exact decode_emit_inline. Qed.
Print Assumptions C12_decode_emit_inline.

(* ... and CUE evaluates that tree to the document itself (for every fuel: nothing is unified) *)
Theorem C12_eval_to_otree : forall fuel d, wf d = true -> eval fuel (to_otree d) = Some d.
Proof. exact eval_to_otree. Qed.
Print Assumptions C12_eval_to_otree.

Example C12_decode_emit_inline_example :
  let d := [(ka, DLeaf 1%N); (kb, DList [DStruct [(ka, DLeaf 2%N); (kx, DList [])]; DStruct []]);
            (kc, DStruct [(ka, DStruct [(ka, DLeaf 3%N)])])] in
  wf (DStruct d) = true /\
  decode (emit_inline (DStruct d)) = Ok (to_otree (DStruct d)) /\
  eval 0 (to_otree (DStruct d)) = Some (DStruct d).
Proof. exact decode_emit_inline_example. Qed.
Print Assumptions C12_decode_emit_inline_example.

(* the side condition is needed and its failure is an error, not a merge *)
Example C12_decode_emit_inline_dup_rejected :
  wf (DStruct [(ka, DLeaf 1%N); (ka, DLeaf 1%N)]) = false /\
  decode (emit_inline (DStruct [(ka, DLeaf 1%N); (ka, DLeaf 1%N)])) = Err EDup.
Proof. exact decode_emit_inline_dup_rejected. Qed.
Print Assumptions C12_decode_emit_inline_dup_rejected.

(* wf is compositional (closed under adding a field with a fresh key / concatenating lists / projection) *)
Theorem C12_wf_struct_cons : forall k d fs,
  wf (DStruct ((k, d) :: fs)) = negb (existsb (str_eqb k) (map fst fs)) && wf d && wf (DStruct fs).
Proof. exact wf_struct_cons. Qed.
Print Assumptions C12_wf_struct_cons.

Theorem C12_wf_field : forall fs k d, wf (DStruct fs) = true -> In (k, d) fs -> wf d = true.
Proof. exact wf_field. Qed.
Print Assumptions C12_wf_field.

(* ---- whole histories ---- *)

(* a seen key stays seen along every accepted run that has no header above it *)
Theorem C12_run_seen_persist : forall es s s2 k,
  run s es = Ok s2 -> forallb (fun e => negb (purges k e)) es = true ->
  mem_key k (st_seen s) = true -> mem_key k (st_seen s2) = true.
Proof. exact run_seen_persist. Qed.
Print Assumptions C12_run_seen_persist.

(* [p] ... [p] (or [[p]]): whatever comes before, in between (no header properly above p) and after,
   the document is never accepted - a table redefinition is an error, never a silent merge *)
Theorem C12_table_twice_never_accepted : forall es1 p es2 es3 (closing : event),
  (closing = ETable p \/ closing = EArrayTable p) ->
  forallb (fun e => negb (purges (key_of p) e)) es2 = true ->
  forall t, decode (es1 ++ ETable p :: es2 ++ closing :: es3) <> Ok t.
Proof. exact table_twice_never_accepted. Qed.
Print Assumptions C12_table_twice_never_accepted.

Example C12_table_twice_in_two_elements_accepted :
  decode [EArrayTable [ka]; ETable [ka; kb]; EArrayTable [ka]; ETable [ka; kb]] =
  Ok (OStruct [(ka, OList [OStruct [(kb, OStruct [])]; OStruct [(kb, OStruct [])]])]).
Proof. exact table_twice_in_two_elements_accepted. Qed.
Print Assumptions C12_table_twice_in_two_elements_accepted.
