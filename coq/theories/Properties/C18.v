(* C18 - Workflow tasks run once, after everything they depend on, under every
   schedule (tools/flow).  This file contains only statements, closed by [exact],
   and Print Assumptions. *)
From Verif Require Import Flow.Model Flow.CycleProofs.
From Coq Require Import List Bool Arith.
Import ListNotations.

(* cycle.go: checkCycle reports an error iff the dependency graph has a cycle *)
Theorem C18_check_cycle_correct : forall dp ts, closed dp ts ->
  (check_cycle dp ts = Some true /\ has_cycle dp ts) \/
  (check_cycle dp ts = Some false /\ ~ has_cycle dp ts).
Proof. exact check_cycle_correct. Qed.
Print Assumptions C18_check_cycle_correct.

Theorem C18_check_cycle_fuel_sufficient : forall dp ts f,
  closed dp ts -> length ts <= f -> check_cycle_from dp f ts <> None.
Proof. exact check_cycle_fuel_sufficient. Qed.
Print Assumptions C18_check_cycle_fuel_sufficient.
