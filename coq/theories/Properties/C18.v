(* C18 - Workflow tasks run once, after everything they depend on, under every
   schedule (tools/flow).  This file contains only statements, closed by [exact],
   and Print Assumptions.

   [run w tr = Some s]: the label sequence tr (Dispatch t | Complete t ok | Cancel,
   completions and their outcomes chosen by the environment) is an execution of
   the controller model on workflow w, ending in state s.  All theorems quantify
   over ALL executions. *)
From Verif Require Import Flow.Model Flow.CycleProofs Flow.Spec Flow.Ops Flow.Invariant Flow.Proofs Flow.Examples Flow.Discover Flow.DiscoverProofs.
From Coq Require Import List Bool Arith Permutation.
Import ListNotations.

(* A task starts only after every task it refers to (late references included) has
   completed successfully earlier in the execution, and those results are in the
   configuration the task sees: t.v is looked up in a c.inst that contains ALL
   results received so far. *)
Theorem C18_start_after_deps : forall w, wf_closed w ->
  forall tr1 t tr2 s, run w (tr1 ++ Dispatch t :: tr2) = Some s ->
  exists s1 s2, run w tr1 = Some s1 /\ step w s1 (Dispatch t) = Some s2 /\
    views s2 = (t, results s1) :: views s1 /\ view_of s2 t = results s1 /\
    forall d a, In (d, a) (deps w t) -> d <> t ->
      In (Complete d true) tr1 /\ In d (view_of s2 t).
Proof. exact start_after_deps. Qed.
Print Assumptions C18_start_after_deps.

(* Every task is dispatched at most once and completes at most once. *)
Theorem C18_at_most_once : forall w tr s, run w tr = Some s ->
  forall x, count (Dispatch x) tr <= 1 /\
            count (Complete x true) tr + count (Complete x false) tr <= 1.
Proof. exact at_most_once. Qed.
Print Assumptions C18_at_most_once.

Theorem C18_complete_after_dispatch : forall w tr1 x ok tr2 s,
  run w (tr1 ++ Complete x ok :: tr2) = Some s -> In (Dispatch x) tr1.
Proof. exact complete_after_dispatch. Qed.
Print Assumptions C18_complete_after_dispatch.

(* Liveness: in an acyclic workflow with no failure and no cancellation, under any
   completion order, no error is recorded, the measure
   2 * (tasks not started) + (tasks running) drops by one with every event, and a
   state is never stuck before every task has been dispatched exactly once and
   has completed: every maximal execution has exactly 2 * |w| events and runs all
   tasks. *)
Theorem C18_all_run_when_acyclic_ok : forall w, wf_known w -> wf_trig w -> acyclic w ->
  forall tr s, run w tr = Some s -> all_ok tr ->
  stop s = None /\
  length tr + measure w s = 2 * length w /\
  ((exists x, step w s (Dispatch x) <> None) \/
   (exists x, step w s (Complete x true) <> None) \/
   (length tr = 2 * length w /\
    forall x, x < length w ->
      In x (results s) /\ count (Dispatch x) tr = 1 /\ count (Complete x true) tr = 1)).
Proof. exact all_run_when_acyclic_ok. Qed.
Print Assumptions C18_all_run_when_acyclic_ok.

(* the decreasing measure, step by step *)
Theorem C18_measure_decreases : forall w s l s', Inv w s -> step w s l = Some s' ->
  is_fail_or_cancel l = false -> measure w s = S (measure w s').
Proof. exact measure_step. Qed.
Print Assumptions C18_measure_decreases.

(* A failure or a cancellation ends the execution: no event follows. *)
Theorem C18_nothing_after_failure : forall w tr1 l tr2 s,
  run w (tr1 ++ l :: tr2) = Some s -> is_fail_or_cancel l = true -> tr2 = [].
Proof. exact nothing_after_failure. Qed.
Print Assumptions C18_nothing_after_failure.

(* A task that transitively depends on a failed task is never started - neither
   before nor after the failure. *)
Theorem C18_failure_blocks_dependants : forall w, wf_closed w ->
  forall tr s d x, run w tr = Some s -> In (Complete d false) tr ->
  depends_on w x d -> ~ In (Dispatch x) tr.
Proof. exact failure_blocks_dependants. Qed.
Print Assumptions C18_failure_blocks_dependants.

(* No deadlock, for EVERY workflow (cyclic ones included): whenever nothing is
   Ready or Running and no error is recorded, nothing is Waiting; the "deadlock"
   branch of runLoop is unreachable. *)
Theorem C18_no_deadlock : forall w, wf_known w ->
  forall tr s, run w tr = Some s -> stop s = None ->
  any_ready s = false -> any_running s = false -> any_waiting s = false.
Proof. exact no_deadlock. Qed.
Print Assumptions C18_no_deadlock.

Theorem C18_never_deadlock_outcome : forall w, wf_known w ->
  forall tr s, run w tr = Some s -> outcome_of s <> OutDeadlock.
Proof. exact never_deadlock_outcome. Qed.
Print Assumptions C18_never_deadlock_outcome.

(* no_deadlock_acyclic, as named in the plan: an acyclic workflow neither
   deadlocks nor reports an error *)
Theorem C18_no_deadlock_acyclic : forall w, wf_known w -> wf_trig w ->
  forall tr s, run w tr = Some s -> stop s = None ->
  (exists x, step w s (Dispatch x) <> None) \/
  (exists x, step w s (Complete x true) <> None) \/
  (measure w s = 0 /\
   forall x, x < length w ->
     In x (results s) /\ count (Dispatch x) tr = 1 /\ count (Complete x true) tr = 1).
Proof. exact progress. Qed.
Print Assumptions C18_no_deadlock_acyclic.

Theorem C18_acyclic_never_stops : forall w, wf_known w -> acyclic w ->
  forall tr s, run w tr = Some s -> all_ok tr -> stop s = None.
Proof. exact acyclic_never_stops. Qed.
Print Assumptions C18_acyclic_never_stops.

(* A cycle among the tasks that exist initially is reported and nothing runs. *)
Theorem C18_cycle_reported_initially : forall w, wf_known w ->
  has_cycle (Dp (init w)) (known (init w)) ->
  stop (init w) = Some StopCycle /\ forall tr s, run w tr = Some s -> tr = [].
Proof. exact cycle_reported_initially. Qed.
Print Assumptions C18_cycle_reported_initially.

(* cycle.go: checkCycle reports an error iff the dependency graph has a cycle;
   the checker needs no more fuel than there are tasks. *)
Theorem C18_check_cycle_correct : forall dp ts, closed dp ts ->
  (check_cycle dp ts = Some true /\ has_cycle dp ts) \/
  (check_cycle dp ts = Some false /\ ~ has_cycle dp ts).
Proof. exact check_cycle_correct. Qed.
Print Assumptions C18_check_cycle_correct.

Theorem C18_check_cycle_fuel_sufficient : forall dp ts f,
  closed dp ts -> length ts <= f -> check_cycle_from dp f ts <> None.
Proof. exact check_cycle_fuel_sufficient. Qed.
Print Assumptions C18_check_cycle_fuel_sufficient.

(* The results merged into the configuration are exactly the successful
   completions, each once; two executions with the same successful completions
   merge the same multiset, so any order-insensitive merge gives the same final
   configuration. *)
Theorem C18_final_config_order_free : forall w tr1 tr2 s1 s2,
  run w tr1 = Some s1 -> run w tr2 = Some s2 ->
  (forall x, In (Complete x true) tr1 <-> In (Complete x true) tr2) ->
  Permutation (results s1) (results s2) /\
  forall (C : Type) (merge : C -> nat -> C) (c0 : C),
    (forall c a b, merge (merge c a) b = merge (merge c b) a) ->
    fold_left merge (results s1) c0 = fold_left merge (results s2) c0.
Proof. exact final_config_order_free. Qed.
Print Assumptions C18_final_config_order_free.

Theorem C18_final_config_complete_runs : forall w, wf_known w -> wf_trig w -> acyclic w ->
  forall tr1 tr2 s1 s2,
  run w tr1 = Some s1 -> run w tr2 = Some s2 -> all_ok tr1 -> all_ok tr2 ->
  outcome_of s1 = OutOk -> outcome_of s2 = OutOk ->
  Permutation (results s1) (all_tasks w) /\ Permutation (results s1) (results s2).
Proof. exact final_config_complete_runs. Qed.
Print Assumptions C18_final_config_complete_runs.

(* Task.Dependencies() of a task that has not started = the visible ground-truth references *)
Theorem C18_deps_are_ground_truth : forall w tr s, run w tr = Some s ->
  forall x, In x (known s) -> le_readyb (St s x) = true ->
  forall d, In d (Dp s x) <-> exists a, In (d, a) (deps w x) /\ d <> x /\ act (results s) a = true.
Proof. exact deps_are_ground_truth. Qed.
Print Assumptions C18_deps_are_ground_truth.

(* the invariant behind all of the above *)
Theorem C18_invariant : forall w tr s, run w tr = Some s -> Inv w s.
Proof. exact run_inv. Qed.
Print Assumptions C18_invariant.

(* ---- non-vacuity ---- *)
Example C18_ex_hypotheses_met : wf_known ex_w /\ wf_trig ex_w /\ wf_closed ex_w /\ acyclic ex_w.
Proof. exact ex_w_wf. Qed.
Print Assumptions C18_ex_hypotheses_met.

Example C18_ex_two_orders :
  summary ex_w ex_tr1 = Some (OutOk, [0; 1; 2; 4; 3]) /\
  summary ex_w ex_tr2 = Some (OutOk, [0; 2; 1; 4; 3]).
Proof. exact (conj ex_run1 ex_run2). Qed.
Print Assumptions C18_ex_two_orders.

Example C18_ex_cycle_reported :
  summary ex_cyc [] = Some (OutCycle, []) /\ summary ex_cyc [Dispatch 0] = None.
Proof. exact ex_cycle_reported. Qed.
Print Assumptions C18_ex_cycle_reported.

Example C18_ex_late_cycle_reported :
  summary ex_latecyc [Dispatch 0] = Some (OutUnfinished, []) /\
  summary ex_latecyc [Dispatch 0; Complete 0 true] = Some (OutCycle, [0]).
Proof. exact ex_late_cycle_reported. Qed.
Print Assumptions C18_ex_late_cycle_reported.

Example C18_start_after_deps_needs_closed :
  wf_known ex_selfgroup /\ wf_closed_b ex_selfgroup = false /\
  summary ex_selfgroup [Dispatch 0] = Some (OutUnfinished, []) /\
  In (1, Some 0) (deps ex_selfgroup 0).
Proof. exact start_after_deps_needs_closed. Qed.
Print Assumptions C18_start_after_deps_needs_closed.

(* ------------------------------------------------------------------ *)
(* Dependency DISCOVERY (tools/flow/tasks.go markTaskDependencies / findImpliedTask /
   getTask / tagChildren + dep.Visit/Recurse) for task-graph configurations
   (Flow/Discover.v): tasks as struct fields, references into tasks and their
   sub-fields, through non-task fields, to enclosing structs that contain tasks, into
   tasks that only appear after a Fill. *)

(* everything the discovery reports is justified by a chain of references that ends at or
   below an existing task (for every fuel, every configuration, every result set) *)
Theorem C18_discover_sound : forall fuel cfg res t d,
  In d (discover fuel cfg res t) -> Refers cfg res t d.
Proof. exact discover_sound. Qed.
Print Assumptions C18_discover_sound.

Theorem C18_discover_irrefl : forall fuel cfg res t, ~ In t (discover fuel cfg res t).
Proof. exact discover_irrefl. Qed.
Print Assumptions C18_discover_irrefl.

Theorem C18_discover_absent : forall fuel cfg res t,
  ~ In t (tasks_at cfg res) -> discover fuel cfg res t = [].
Proof. exact discover_absent. Qed.
Print Assumptions C18_discover_absent.

(* the implementation never finds MORE than the Spec reading of the property asks for *)
Theorem C18_discover_incl_spec : forall fuel cfg res t d,
  In d (discover fuel cfg res t) -> In d (discover_spec fuel cfg res t).
Proof. exact discover_incl_spec. Qed.
Print Assumptions C18_discover_incl_spec.

(* Along a run with completion order cs, the dependency sets of the controller model on
   the workflow [wf_of_run cfg cs] are exactly the discoveries accumulated (addDep) over
   the configurations the run went through; tasks exist from the first configuration
   that contains them.  Hence every C18 theorem above (they hold for ALL workflows)
   speaks about configurations with dynamically appearing tasks. *)
Theorem C18_kdeps_wf_of_run : forall cfg cs j t d,
  NoDup cs -> j <= length cs -> t < ntasks cfg ->
  (In d (kdeps (wf_of_run cfg cs) (firstn j cs) t) <->
   d <> t /\ d < ntasks cfg /\
   exists i, i <= j /\ In d (discover (dfuel cfg) cfg (firstn i cs) t)).
Proof. exact kdeps_wf_of_run. Qed.
Print Assumptions C18_kdeps_wf_of_run.

Theorem C18_trig_wf_of_run_active : forall cfg cs j t,
  NoDup cs -> j <= length cs -> t < ntasks cfg ->
  (In t cs -> exists i, i <= length cs /\ In t (tasks_at cfg (firstn i cs))) ->
  (act (firstn j cs) (trig (wf_of_run cfg cs) t) = true <->
   exists i, i <= j /\ In t (tasks_at cfg (firstn i cs))).
Proof. exact trig_wf_of_run_active. Qed.
Print Assumptions C18_trig_wf_of_run_active.

Theorem C18_cfg_start_after_discovered : forall cfg cs,
  wf_closed (wf_of_run cfg cs) ->
  forall tr1 t tr2 s, t < ntasks cfg ->
  run (wf_of_run cfg cs) (tr1 ++ Dispatch t :: tr2) = Some s ->
  forall d i, i <= length cs -> d < ntasks cfg ->
    In d (discover (dfuel cfg) cfg (firstn i cs) t) ->
    In (Complete d true) tr1.
Proof. exact cfg_start_after_discovered. Qed.
Print Assumptions C18_cfg_start_after_discovered.

(* Refuted Spec clause: a task that refers to a STRUCT CONTAINING another task does not
   wait for it (see design/C18.md, proposed finding F-C18-1). *)
Theorem C18_enclosing_reference_refuted :
  In 1 (discover_spec (dfuel encl_cfg) encl_cfg [] 2) /\
  discover (dfuel encl_cfg) encl_cfg [] 2 = [0] /\
  option_map (fun s => (ti_state (info s 1), ti_state (info s 2)))
             (run (wf_of_run encl_cfg (completions encl_tr)) encl_tr)
  = Some (Running, Terminated true).
Proof. exact enclosing_reference_refuted. Qed.
Print Assumptions C18_enclosing_reference_refuted.

Example C18_ex_discover_dynamic :
  discover (dfuel dyn_cfg) dyn_cfg [] 4 = [0; 0] /\
  discover (dfuel dyn_cfg) dyn_cfg [0] 4 = [1] /\
  tasks_at dyn_cfg [] = [0; 5; 3; 4; 6; 7] /\
  tasks_at dyn_cfg [0] = [0; 1; 2; 5; 3; 4; 6; 7] /\
  kdeps (wf_of_run dyn_cfg [5; 0]) [5; 0] 4 = [0; 1] /\
  kdeps (wf_of_run dyn_cfg [5; 0]) [5; 0] 7 = [0; 1; 2; 5] /\
  kdeps (wf_of_run dyn_cfg [5; 0]) [5; 0] 3 = [0; 5].
Proof. exact ex_discover_dynamic. Qed.
Print Assumptions C18_ex_discover_dynamic.
