(* C14 - Module version selection is minimal, sufficient, and order/schedule
   independent; version comparison is a total order agreeing with SemVer 2.0.
   This file contains only statements, closed by [exact], and Print Assumptions. *)
From Verif Require Import Base.Order Semver.Model Semver.Spec Semver.Proofs Semver.Canonical MVS.Model MVS.Proofs MVS.Examples.
From Coq Require Import List NArith.
Import ListNotations.

(* semver.Compare on two valid strings is SemVer 2.0 precedence of what they denote *)
Theorem C14_compare_refines_semver : forall v w pv pw,
  parse v = Some pv -> parse w = Some pw -> compare v w = spec_cmp (abs pv) (abs pw).
Proof. exact compare_refines_spec. Qed.
Print Assumptions C14_compare_refines_semver.

(* SemVer precedence is a total order on abstract versions *)
Theorem C14_semver_precedence_total_order : total_cmp spec_cmp.
Proof. exact spec_cmp_total. Qed.
Print Assumptions C14_semver_precedence_total_order.

(* Compare is a total preorder on ALL strings (reflexive, antisymmetric up to Eq,
   transitive, Eq is a congruence) *)
Theorem C14_compare_total_preorder : total_pre compare.
Proof. exact compare_total_preorder. Qed.
Print Assumptions C14_compare_total_preorder.

Theorem C14_invalid_lowest : forall v w, is_valid v = false -> is_valid w = true -> compare v w = Lt.
Proof. exact invalid_lowest. Qed.
Print Assumptions C14_invalid_lowest.

Theorem C14_build_metadata_ignored : forall v w pv pw,
  parse v = Some pv -> parse w = Some pw ->
  p_major pv = p_major pw -> p_minor pv = p_minor pw -> p_patch pv = p_patch pw ->
  p_prerelease pv = p_prerelease pw -> compare v w = Eq.
Proof. exact build_ignored. Qed.
Print Assumptions C14_build_metadata_ignored.

Theorem C14_prerelease_below_release : forall v w pv pw,
  parse v = Some pv -> parse w = Some pw ->
  p_major pv = p_major pw -> p_minor pv = p_minor pw -> p_patch pv = p_patch pw ->
  p_prerelease pv <> [] -> p_prerelease pw = [] -> compare v w = Lt.
Proof. exact prerelease_below_release. Qed.
Print Assumptions C14_prerelease_below_release.

Section MVS.
  Variable P Ver : Type.
  Variable P_eq_dec : forall a b : P, {a = b} + {a <> b}.
  Variable Ver_eq_dec : forall a b : Ver, {a = b} + {a <> b}.
  Variable vcmp : Ver -> Ver -> comparison.
  Variable vnone : Ver.
  Variable reqs : node P Ver -> list (node P Ver).
  Variable targets : list (node P Ver).
  Hypothesis vcmp_total : total_cmp vcmp.
  Hypothesis vnone_bottom : forall v, vcmp vnone v <> Gt.

  Let run := run P Ver P_eq_dec Ver_eq_dec vcmp vnone reqs.
  Let init := init P Ver P_eq_dec Ver_eq_dec vcmp vnone targets.
  Let sel (s : state P Ver) := g_sel P Ver P_eq_dec vnone (st_g P Ver s).
  Let Reach := Reach P Ver Ver_eq_dec vnone reqs targets.
  Let vle := vle Ver vcmp.

  (* under every schedule of runners (any sequence of enabled critical sections)
     Graph.Require never hits either of its panics *)
  Theorem C14_no_panic_any_schedule : forall ls, run init ls <> Panic P Ver.
  Proof. exact (no_panic_any_schedule P Ver P_eq_dec Ver_eq_dec vcmp vnone reqs targets vcmp_total). Qed.

  (* sufficient, minimal, nothing unreachable: once the work set is drained, the
     selected version of a path is >= every reachable requirement on it and is the
     version of some reachable node (or "none") *)
  Theorem C14_selected_sufficient_and_minimal : forall ls s,
    run init ls = Ok P Ver s -> MVS.Proofs.complete P Ver s ->
    (forall n, Reach n -> vle (nver P Ver n) (sel s (npath P Ver n))) /\
    (forall p, sel s p = vnone \/ exists n, Reach n /\ npath P Ver n = p /\ nver P Ver n = sel s p).
  Proof. exact (selected_sufficient_and_minimal P Ver P_eq_dec Ver_eq_dec vcmp vnone reqs targets vcmp_total). Qed.

  (* exactly the maximum *)
  Theorem C14_selected_is_max : forall ls s,
    run init ls = Ok P Ver s -> MVS.Proofs.complete P Ver s ->
    forall p v, (forall n, Reach n -> npath P Ver n = p -> vle (nver P Ver n) v) ->
                (v = vnone \/ exists n, Reach n /\ npath P Ver n = p /\ nver P Ver n = v) ->
                sel s p = v.
  Proof. exact (selected_is_max P Ver P_eq_dec Ver_eq_dec vcmp vnone reqs targets vcmp_total vnone_bottom). Qed.

  (* the result does not depend on how the concurrent traversal is scheduled *)
  Theorem C14_schedule_independent : forall ls1 ls2 s1 s2,
    run init ls1 = Ok P Ver s1 -> MVS.Proofs.complete P Ver s1 ->
    run init ls2 = Ok P Ver s2 -> MVS.Proofs.complete P Ver s2 ->
    forall p, sel s1 p = sel s2 p.
  Proof. exact (schedule_independent P Ver P_eq_dec Ver_eq_dec vcmp vnone reqs targets vcmp_total vnone_bottom). Qed.

  (* ... and equals what the executable model (sequential scheduler) computes *)
  Theorem C14_any_schedule_equals_model : forall fuel sm ls s,
    run_seq P Ver P_eq_dec Ver_eq_dec vcmp vnone reqs fuel init = Some sm ->
    run init ls = Ok P Ver s -> MVS.Proofs.complete P Ver s ->
    forall p, sel s p = sel sm p.
  Proof. exact (any_schedule_equals_model P Ver P_eq_dec Ver_eq_dec vcmp vnone reqs targets vcmp_total vnone_bottom). Qed.
End MVS.
Print Assumptions C14_no_panic_any_schedule.
Print Assumptions C14_selected_sufficient_and_minimal.
Print Assumptions C14_selected_is_max.
Print Assumptions C14_schedule_independent.
Print Assumptions C14_any_schedule_equals_model.

(* canonical versions that compare equal are the same string *)
Theorem C14_compare_eq_canonical : forall v w,
  is_canon v = true -> is_canon w = true -> compare v w = Eq -> v = w.
Proof. exact compare_eq_canonical. Qed.
Print Assumptions C14_compare_eq_canonical.

(* the comparison buildList derives from Versions.Max is a total order on the versions a
   requirement graph carries (canonical versions, "none" as bottom, "" as top) ... *)
Theorem C14_version_order_total : total_cmp ver_cmp.
Proof. exact ver_cmp_total. Qed.
Print Assumptions C14_version_order_total.

(* ... so the MVS theorems hold for the real version order: schedule independence and
   exact maximality for graphs over module paths (strings) and such versions *)
Theorem C14_semver_schedule_independent : forall (reqs : node str ver -> list (node str ver)) targets ls1 ls2 s1 s2,
  run str ver (list_eq_dec N.eq_dec) ver_eq_dec ver_cmp ver_none reqs
      (init str ver (list_eq_dec N.eq_dec) ver_eq_dec ver_cmp ver_none targets) ls1 = Ok str ver s1 ->
  MVS.Proofs.complete str ver s1 ->
  run str ver (list_eq_dec N.eq_dec) ver_eq_dec ver_cmp ver_none reqs
      (init str ver (list_eq_dec N.eq_dec) ver_eq_dec ver_cmp ver_none targets) ls2 = Ok str ver s2 ->
  MVS.Proofs.complete str ver s2 ->
  forall p, g_sel str ver (list_eq_dec N.eq_dec) ver_none (st_g str ver s1) p =
            g_sel str ver (list_eq_dec N.eq_dec) ver_none (st_g str ver s2) p.
Proof.
  exact (fun reqs targets =>
           schedule_independent str ver (list_eq_dec N.eq_dec) ver_eq_dec ver_cmp ver_none reqs targets
                                ver_cmp_total ver_none_bottom).
Qed.
Print Assumptions C14_semver_schedule_independent.

(* non-vacuity: the hypotheses are met by concrete non-trivial instances *)
Example C14_example_semver_org_chain :
  map (fun p => compare (fst p) (snd p))
      [(v_alpha, v_alpha_1); (v_alpha_1, v_alpha_beta); (v_alpha_beta, v_beta); (v_beta, v_beta_2);
       (v_beta_2, v_beta_11); (v_beta_11, v_rc_1); (v_rc_1, v_100)]
  = [Lt; Lt; Lt; Lt; Lt; Lt; Lt]
  /\ compare v_100 v_100_build = Eq
  /\ is_valid v_alpha_beta = true /\ is_valid (s [118;48;49]%N) = false.
Proof. exact semver_org_chain. Qed.
Print Assumptions C14_example_semver_org_chain.

Example C14_example_interleaved_schedule :
  match ex_run with
  | Ok _ _ st => st_todo _ _ st = [] /\ st_running _ _ st = [] /\
                 map (g_sel nat nat PeanoNat.Nat.eq_dec 0%nat (st_g _ _ st)) [0;1;2;3;4]%nat = [9;1;1;3;0]%nat
  | _ => False
  end.
Proof. exact ex_interleaved_schedule_completes. Qed.
Print Assumptions C14_example_interleaved_schedule.
