(* C10 - JSON in and out agrees with the JSON standard (RFC 8259) and round-trips exactly.
   This file contains only statements, closed by [exact], and Print Assumptions.
   Models: Json/Model.v (RFC 8259 reader/printer, Go's string escaper), Json/Cue.v
   (transcriptions of cue/literal Unquote and ParseNum, apd SetString/Neg/'G'),
   Json/Data.v (Spec and Impl data). *)
From Verif Require Import Json.Model Json.Cue Json.Data Json.Utf8Proofs Json.StringProofs Json.NumProofs
  Json.RoundTrip Json.CueStrProofs Json.CueNumProofs Json.FormatProofs Json.DataProofs Json.Reject
  Json.Refine Json.WfProofs Json.CueStrConverse Json.Examples.

(* ------------------------------------------------------------ round trip ---- *)
(* ALL well-formed values: any nesting, repeated and empty member names, every string of
   Unicode scalar values, every number the value type holds *)
Theorem C10_json_parse_print : forall v, wf_value v = true -> json_parse (json_print v) = Some v.
Proof. exact json_parse_print. Qed.
Print Assumptions C10_json_parse_print.

(* the same through the Cue-mode reader, for values without U+FEFF in strings *)
Theorem C10_cue_parse_print : forall v, wf_value v = true -> bom_free v = true ->
  json_parse_gen Cue (json_print v) = Some v.
Proof. exact cue_parse_print. Qed.
Print Assumptions C10_cue_parse_print.

(* inside any document: a printed value followed by a delimiter is read back, with fuel jfuel v *)
Theorem C10_parse_value_print_context : forall m v tail, wf_value v = true ->
  (rej_bom m = true -> bom_free v = true) -> follow_ok tail = true ->
  parse_value m (jfuel v) (json_print v ++ tail) = Some (v, tail).
Proof. exact parse_value_print_context. Qed.
Print Assumptions C10_parse_value_print_context.

Theorem C10_fuel_sufficient : forall v, wf_value v = true -> (jfuel v <= length (json_print v))%nat.
Proof. exact jfuel_le_length. Qed.
Print Assumptions C10_fuel_sufficient.

(* ---------------------------------------------------------------- strings ---- *)
(* Go's escaper (escapeHTML off) is inverted by the JSON string reader *)
Theorem C10_escape_valid_and_inverse : forall cs, forallb is_scalar cs = true ->
  json_unescape (json_escape cs) = Some cs.
Proof. exact escape_valid_and_inverse. Qed.
Print Assumptions C10_escape_valid_and_inverse.

(* the UTF-8 codec both ways *)
Theorem C10_utf8_decode_encode : forall c r, is_scalar c = true -> utf8_decode (utf8_encode c ++ r) = Some (c, r).
Proof. exact decode_encode. Qed.
Print Assumptions C10_utf8_decode_encode.

Theorem C10_utf8_decode_inv : forall s c r, utf8_decode s = Some (c, r) ->
  is_scalar c = true /\ s = utf8_encode c ++ r.
Proof. exact decode_inv. Qed.
Print Assumptions C10_utf8_decode_inv.

(* handing a JSON string literal to literal.Unquote preserves the string, unless it has an
   unpaired surrogate escape (then the strict reader rejects it) *)
Theorem C10_json_string_is_cue_string : forall t v,
  json_unescape_gen Strict t = Some v -> cue_unquote t = UOk (utf8_encode_all v).
Proof. exact json_string_is_cue_string. Qed.
Print Assumptions C10_json_string_is_cue_string.

Theorem C10_strict_refines_std : forall t v, json_unescape_gen Strict t = Some v -> json_unescape t = Some v.
Proof. exact strict_refines_std. Qed.
Print Assumptions C10_strict_refines_std.

(* conversely: among valid JSON string literals Unquote refuses exactly those the strict reader
   refuses (an unpaired surrogate escape) *)
Theorem C10_cue_unquote_rejects_lone : forall t v,
  json_unescape t = Some v -> json_unescape_gen Strict t = None -> cue_unquote t = UErr.
Proof. exact cue_unquote_rejects_lone. Qed.
Print Assumptions C10_cue_unquote_rejects_lone.

(* F6 *)
Theorem C10_lone_surrogate_refuted : exists t, json_unescape t = Some [0xFFFD] /\ cue_unquote t = UErr.
Proof. exact lone_surrogate_refuted. Qed.
Print Assumptions C10_lone_surrogate_refuted.

(* ---------------------------------------------------------------- numbers ---- *)
(* grammar inclusion and the kind rule: no fraction and no exponent <-> int *)
Theorem C10_json_number_is_cue_literal : forall t n, parse_number t = Some (n, []) ->
  exists u buf, t = (if jneg n then [45] else []) ++ u /\
    parse_num u = PNOk 10 (negb (jnum_is_int n)) buf.
Proof. exact json_number_is_cue_literal. Qed.
Print Assumptions C10_json_number_is_cue_literal.

(* the complete description: inside apd's exponent range the same value, exactly (coefficient
   and exponent); outside it the literal is an error *)
Theorem C10_cue_read_json_number : forall t n, parse_number t = Some (n, []) ->
  cue_read_number t = if num_in_range n then Some (jnum_is_int n, cue_dec_of n) else None.
Proof. exact cue_read_json_number. Qed.
Print Assumptions C10_cue_read_json_number.

Theorem C10_json_number_is_cue_number : forall t n,
  parse_number t = Some (n, []) -> num_in_range n = true ->
  cue_read_number t = Some (jnum_is_int n, cue_dec_of n).
Proof. exact json_number_is_cue_number. Qed.
Print Assumptions C10_json_number_is_cue_number.

(* never a silently different value, never NaN: whatever cue reads is the number as written *)
Theorem C10_cue_read_number_exact : forall t n k d,
  parse_number t = Some (n, []) -> cue_read_number t = Some (k, d) ->
  k = jnum_is_int n /\ d = cue_dec_of n.
Proof. exact cue_read_number_exact. Qed.
Print Assumptions C10_cue_read_number_exact.

Theorem C10_json_number_out_of_range_rejected : forall t n,
  parse_number t = Some (n, []) -> num_in_range n = false -> cue_read_number t = None.
Proof. exact json_number_out_of_range_rejected. Qed.
Print Assumptions C10_json_number_out_of_range_rejected.

(* C10-exponent-range-rejected: valid JSON numbers (1e100001, 1e2147483648) are refused *)
Theorem C10_number_exponent_refuted :
  (exists t n, parse_number t = Some (n, []) /\ dexp (jnum_dec n) = 100001%Z /\ cue_read_number t = None) /\
  (exists t n, parse_number t = Some (n, []) /\ cue_read_number t = None /\
               jexp n = Some 2147483648%Z).
Proof. exact number_exponent_refuted. Qed.
Print Assumptions C10_number_exponent_refuted.

Theorem C10_parse_number_print : forall n rest, wf_num n = true -> num_follow_ok rest = true ->
  parse_number (print_num n ++ rest) = Some (n, rest).
Proof. exact parse_number_print. Qed.
Print Assumptions C10_parse_number_print.

(* what Value.MarshalJSON writes for a number is a JSON number denoting exactly that decimal *)
Theorem C10_format_G_is_json_number : forall d,
  parse_number (format_G d) = Some (format_G_num d, []) /\
  wf_num (format_G_num d) = true /\ jnum_dec (format_G_num d) = d.
Proof. exact format_G_is_json_number. Qed.
Print Assumptions C10_format_G_is_json_number.

(* ------------------------------------------------------------------- data ---- *)
Theorem C10_cue_data_spec_when : forall v, wf_value v = true -> dup_keys v = false ->
  nums_in_range v = true -> cue_data v = Some (spec_data v).
Proof. exact cue_data_spec_when. Qed.
Print Assumptions C10_cue_data_spec_when.

(* the Cue-mode reader only ever rejects more: same value whenever it accepts *)
Theorem C10_cue_parse_refines_std : forall s v, json_parse_gen Cue s = Some v -> json_parse s = Some v.
Proof. exact cue_parse_refines_std. Qed.
Print Assumptions C10_cue_parse_refines_std.

(* readers only produce well-formed values: print . parse is a normal form *)
Theorem C10_parse_wf : forall m s v, json_parse_gen m s = Some v -> wf_value v = true.
Proof. exact parse_wf. Qed.
Print Assumptions C10_parse_wf.

Theorem C10_parse_print_parse : forall s v, json_parse s = Some v -> json_parse (json_print v) = Some v.
Proof. exact parse_print_parse. Qed.
Print Assumptions C10_parse_print_parse.

(* document level: Impl = Spec under the exact side condition *)
Theorem C10_cue_decode_is_spec_when : forall s v, json_parse_gen Cue s = Some v ->
  dup_keys v = false -> nums_in_range v = true ->
  cue_decode s = spec_decode s /\ spec_decode s = Some (spec_data v).
Proof. exact cue_decode_is_spec_when. Qed.
Print Assumptions C10_cue_decode_is_spec_when.

(* F12, F10 *)
Theorem C10_dup_keys_refuted :
  (exists d, spec_decode doc_dup_conflict = Some d /\ cue_decode doc_dup_conflict = None) /\
  (exists d1 d2, spec_decode doc_dup_merge = Some d1 /\ cue_decode doc_dup_merge = Some d2 /\ d1 <> d2).
Proof. exact dup_keys_refuted. Qed.
Print Assumptions C10_dup_keys_refuted.

Theorem C10_raw_bom_refuted : exists doc d, spec_decode doc = Some d /\ cue_decode doc = None.
Proof. exact raw_bom_refuted. Qed.
Print Assumptions C10_raw_bom_refuted.

Theorem C10_bom_reprint_refuted :
  exists v, wf_value v = true /\ json_parse (json_print v) = Some v /\ json_parse_gen Cue (json_print v) = None.
Proof. exact bom_reprint_refuted. Qed.
Print Assumptions C10_bom_reprint_refuted.

(* -------------------------------------------------------------- rejection ---- *)
Theorem C10_reject_blank : forall m ws, forallb is_ws ws = true -> json_parse_gen m ws = None.
Proof. exact reject_blank. Qed.
Print Assumptions C10_reject_blank.

Theorem C10_reject_bad_start : forall m ws c rest, forallb is_ws ws = true ->
  is_ws c = false -> value_start c = false -> json_parse_gen m (ws ++ c :: rest) = None.
Proof. exact reject_bad_start. Qed.
Print Assumptions C10_reject_bad_start.

Theorem C10_reject_trailing_garbage : forall m v c rest, wf_value v = true ->
  (rej_bom m = true -> bom_free v = true) ->
  is_ws c = false -> follow_ok (c :: rest) = true ->
  json_parse_gen m (json_print v ++ c :: rest) = None.
Proof. exact reject_trailing_garbage. Qed.
Print Assumptions C10_reject_trailing_garbage.

Theorem C10_reject_leading_zero : forall m d rest, is_digit d = true ->
  json_parse_gen m (48 :: d :: rest) = None /\ json_parse_gen m (45 :: 48 :: d :: rest) = None.
Proof. exact reject_leading_zero. Qed.
Print Assumptions C10_reject_leading_zero.

Theorem C10_reject_point_without_digits : forall m d ds rest, forallb is_digit (d :: ds) = true ->
  no_digit_head rest = true -> json_parse_gen m ((d :: ds) ++ 46 :: rest) = None.
Proof. exact reject_point_without_digits. Qed.
Print Assumptions C10_reject_point_without_digits.

Theorem C10_reject_exponent_without_digits : forall m d ds ee sg rest, forallb is_digit (d :: ds) = true ->
  (ee = 101 \/ ee = 69) -> (sg = [] \/ sg = [43] \/ sg = [45]) ->
  no_digit_head rest = true -> (sg = [] -> match rest with c :: _ => c <> 43 /\ c <> 45 | [] => True end) ->
  json_parse_gen m ((d :: ds) ++ ee :: sg ++ rest) = None.
Proof. exact reject_exponent_without_digits. Qed.
Print Assumptions C10_reject_exponent_without_digits.

(* unterminated strings, bare control characters, a lone backslash, escapes that are not JSON
   (\a \v \x \U \( \' \0 ...), bad \u digits, bytes that are not UTF-8 *)
Theorem C10_reject_bad_string : forall m pre tail, forallb plain pre = true -> bad_string_tail m tail ->
  json_parse_gen m (34 :: pre ++ tail) = None.
Proof. exact reject_bad_string. Qed.
Print Assumptions C10_reject_bad_string.

Theorem C10_reject_trailing_comma_array : forall m v0 l0, Forall (ok_for m) (v0 :: l0) ->
  json_parse_gen m (91 :: json_print v0 ++ print_rest l0 ++ [44; 93]) = None.
Proof. exact reject_trailing_comma_array. Qed.
Print Assumptions C10_reject_trailing_comma_array.

Theorem C10_reject_member_without_name : forall m c rest, is_ws c = false -> c <> 34 -> c <> 125 ->
  json_parse_gen m (123 :: c :: rest) = None.
Proof. exact reject_member_without_name. Qed.
Print Assumptions C10_reject_member_without_name.

Theorem C10_reject_member_without_colon : forall m k c rest, forallb is_scalar k = true ->
  (rej_bom m = true -> ~ In 0xFEFF k) -> is_ws c = false -> c <> 58 ->
  json_parse_gen m (123 :: json_escape k ++ c :: rest) = None.
Proof. exact reject_member_without_colon. Qed.
Print Assumptions C10_reject_member_without_colon.

Theorem C10_cue_rejects_raw_bom : forall pre rest, forallb plain pre = true ->
  json_parse_gen Cue (34 :: pre ++ [0xEF; 0xBB; 0xBF] ++ rest) = None.
Proof. exact cue_rejects_raw_bom. Qed.
Print Assumptions C10_cue_rejects_raw_bom.

Theorem C10_strict_rejects_lone_low : forall m pre u rest r2, rej_lone m = true -> forallb plain pre = true ->
  hex4 rest = Some (u, r2) -> is_low u = true ->
  json_parse_gen m (34 :: pre ++ 92 :: 117 :: rest) = None.
Proof. exact strict_rejects_lone_low. Qed.
Print Assumptions C10_strict_rejects_lone_low.

(* ------------------------------------------------------------ non-vacuity ---- *)
From Coq Require Import String.
Open Scope string_scope.
Example C10_ex_value_roundtrip : wf_value ex_value = true /\ json_parse (json_print ex_value) = Some ex_value.
Proof. exact (conj ex_value_wf ex_value_roundtrip). Qed.
Print Assumptions C10_ex_value_roundtrip.

Example C10_ex_string : json_unescape_gen Strict (b """a\n😀é\""\\\/""") = Some [97; 10; 0x1F600; 233; 34; 92; 47].
Proof. exact ex_string_hyp. Qed.
Print Assumptions C10_ex_string.

Example C10_ex_number :
  exists n, parse_number (b "-12.50E+2") = Some (n, []) /\ num_in_range n = true /\
            jnum_is_int n = false /\ cue_dec_of n = {| dneg := true; dcoeff := 1250; dexp := 0 |}.
Proof. exact ex_number_hyp. Qed.
Print Assumptions C10_ex_number.

Example C10_ex_data : wf_value ex_value2 = true /\ dup_keys ex_value2 = false /\ nums_in_range ex_value2 = true.
Proof. exact ex_data_hyp. Qed.
Print Assumptions C10_ex_data.

Example C10_ex_bad_tail : bad_string_tail Std (b "\x41""") /\ bad_string_tail Std [9; 34] /\ plain 97 = true.
Proof. exact ex_bad_tail. Qed.
Print Assumptions C10_ex_bad_tail.
