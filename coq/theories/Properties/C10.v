(* C10 - JSON in and out agrees with the JSON standard (RFC 8259) and round-trips exactly.
   This file contains only statements, closed by [exact], and Print Assumptions. *)
From Verif Require Import Json.Model Json.Utf8Proofs Json.StringProofs Json.NumProofs Json.RoundTrip.

(* the round trip for ALL well-formed values: any nesting, duplicate and empty keys,
   every string of Unicode scalar values, every number spelling the value type holds *)
Theorem C10_json_parse_print : forall v, wf_value v = true -> json_parse (json_print v) = Some v.
Proof. exact json_parse_print. Qed.
Print Assumptions C10_json_parse_print.

(* Go's escaper (escapeHTML off) is inverted by the JSON string reader *)
Theorem C10_escape_valid_and_inverse : forall cs, forallb is_scalar cs = true ->
  json_unescape (json_escape cs) = Some cs.
Proof. exact escape_valid_and_inverse. Qed.
Print Assumptions C10_escape_valid_and_inverse.
