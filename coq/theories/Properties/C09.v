(* C09 - literals round-trip through quoting; the modelled Unquote is total.
   Only statements, closed by [exact], and Print Assumptions.
   Strings are byte lists; [pr_tbl]/[gr_tbl] are strconv.IsPrint / IsGraphic for
   runes > 0xFF (Go's Unicode tables) and are universally quantified WITHOUT any
   hypothesis; [wrap] = false is literal.Unquote ([unquote_impl]); [wrap] = true
   is the regression layer [unquote_int32] (the int32 accumulator of \U escapes
   that fix unquote-U removed) -- the round-trip theorems hold for both. *)
From Verif Require Import Utf8.Model Utf8.Proofs Lit.Quote Lit.Unquote Lit.Basics Lit.Steps Lit.Loops
  Lit.HashCount Lit.Raw Lit.RoundTrip Lit.NoPanic Lit.Examples Lit.Indent Lit.IndentProofs.
From Coq Require Import List NArith ZArith.
Import ListNotations.

(* ---- UTF-8 codec (Go's unicode/utf8) ---- *)

(* decoding what AppendRune wrote for any scalar value gives it back, with its width *)
Theorem C09_utf8_decode_encode : forall r rest, scalar r ->
  utf8_decode (utf8_encode r ++ rest) = (r, length (utf8_encode r)).
Proof. exact decode_encode. Qed.
Print Assumptions C09_utf8_decode_encode.

(* DecodeRuneInString on ANY byte list: either (RuneError, 1), or the bytes consumed
   are exactly the encoding of the scalar value returned *)
Theorem C09_utf8_decode_spec : forall b t,
  let '(r, w) := utf8_decode (b :: t) in
  (r = rune_error /\ w = 1%nat) \/
  (scalar r /\ firstn w (b :: t) = utf8_encode r /\ length (utf8_encode r) = w /\
   (w <= length (b :: t))%nat /\ (b < 0x80 <-> r < 0x80) /\ (r < 0x80 -> r = b)).
Proof. exact decode_spec. Qed.
Print Assumptions C09_utf8_decode_spec.

(* what string forms lose: nothing iff the text is valid UTF-8 *)
Theorem C09_sanitize_valid : forall s, valid_utf8 s -> sanitize s = s.
Proof. exact sanitize_valid. Qed.
Print Assumptions C09_sanitize_valid.

Theorem C09_sanitize_fixed_valid : forall s, is_bytes s -> sanitize s = s -> valid_utf8 s.
Proof. exact sanitize_fixed_valid. Qed.
Print Assumptions C09_sanitize_fixed_valid.

(* ---- round trip, by family of forms ---- *)

(* single line, no hashes (String, Bytes, Label; ASCII-only; graphic-only) *)
Theorem C09_unquote_quote_single : forall wrap pr_tbl gr_tbl f s,
  public_form f -> is_bytes s ->
  eff_multiline f s = false -> eff_hash pr_tbl gr_tbl f s = 0%nat ->
  unquote wrap (quote pr_tbl gr_tbl f s) = Ok (expected f s).
Proof. exact unquote_quote_single. Qed.
Print Assumptions C09_unquote_quote_single.

(* multi-line with n tabs (WithTabIndent, WithOptionalTabIndent on text with a
   newline), any required number of hashes *)
Theorem C09_unquote_quote_multi : forall wrap pr_tbl gr_tbl f s,
  public_form f -> is_bytes s -> eff_multiline f s = true ->
  unquote wrap (quote pr_tbl gr_tbl f s) = Ok (expected f s).
Proof. exact unquote_quote_multi. Qed.
Print Assumptions C09_unquote_quote_multi.

(* single line with hashes (WithOptionalHashes) *)
Theorem C09_unquote_quote_hash : forall wrap pr_tbl gr_tbl f s,
  public_form f -> is_bytes s ->
  eff_multiline f s = false -> eff_hash pr_tbl gr_tbl f s <> 0%nat ->
  unquote wrap (quote pr_tbl gr_tbl f s) = Ok (expected f s).
Proof. exact unquote_quote_hash. Qed.
Print Assumptions C09_unquote_quote_hash.

(* ---- round trip, every public form, EVERY byte sequence, unconditionally:
   bytes forms return every byte sequence unchanged, string forms every valid
   UTF-8 text unchanged and otherwise exactly [sanitize s] (each undecodable
   byte becomes U+FFFD) ---- *)
Theorem C09_unquote_quote_all : forall wrap pr_tbl gr_tbl f s,
  public_form f -> is_bytes s ->
  unquote wrap (quote pr_tbl gr_tbl f s) = Ok (expected f s).
Proof. exact unquote_quote_all. Qed.
Print Assumptions C09_unquote_quote_all.

Theorem C09_unquote_quote_bytes_forms : forall wrap pr_tbl gr_tbl f s,
  public_form f -> f_exact f = true -> is_bytes s ->
  unquote wrap (quote pr_tbl gr_tbl f s) = Ok s.
Proof. exact unquote_quote_bytes_forms. Qed.
Print Assumptions C09_unquote_quote_bytes_forms.

Theorem C09_unquote_quote_string_forms : forall wrap pr_tbl gr_tbl f s,
  public_form f -> is_bytes s -> valid_utf8 s ->
  unquote wrap (quote pr_tbl gr_tbl f s) = Ok s.
Proof. exact unquote_quote_string_forms. Qed.
Print Assumptions C09_unquote_quote_string_forms.

(* the raw hash form is never chosen for a text starting with two quote characters,
   so what follows the opening quote never reads as a multi-line opening (fix autohash) *)
Theorem C09_hash_form_not_multiline_opening : forall pr_tbl gr_tbl f s, public_form f ->
  eff_multiline f s = false -> eff_hash pr_tbl gr_tbl f s <> 0%nat ->
  look3 (f_quote f) (s ++ f_quote f :: hashes (eff_hash pr_tbl gr_tbl f s)) = false /\
  lead_qq (f_quote f) s = false.
Proof. exact hash_form_not_multiline_opening. Qed.
Print Assumptions C09_hash_form_not_multiline_opening.

(* ---- the hash count is sufficient ---- *)

(* requiredHashCount: three quotes followed by hashCount hashes occur nowhere in the text *)
Theorem C09_required_hash_count_sufficient : forall q s, q <> ch_hash ->
  no_delim q (required_hash_count q s) s.
Proof. exact required_hash_count_sufficient. Qed.
Print Assumptions C09_required_hash_count_sufficient.

(* multi-line: at no rune boundary of the escaped body (in particular at no line
   start) does the closing delimiter begin *)
Theorem C09_multi_body_no_closing : forall pr_tbl gr_tbl f s x t rest,
  public_form f -> is_bytes s -> s = x ++ t ->
  prefixb (triple (f_quote f) ++ hashes (required_hash_count (f_quote f) s))
          (esc pr_tbl gr_tbl f true (required_hash_count (f_quote f) s) t ++ ch_nl :: rest) = false.
Proof. exact multi_body_no_closing. Qed.
Print Assumptions C09_multi_body_no_closing.

(* single line with hashes: the raw body has only valid printable runes and every
   quote / backslash is followed by fewer hashes than the delimiter has *)
Theorem C09_single_line_hash_count_sufficient : forall pr_tbl gr_tbl f s, public_form f ->
  eff_multiline f s = false -> eff_hash pr_tbl gr_tbl f s <> 0%nat ->
  plain (f_quote f) (eff_hash pr_tbl gr_tbl f s)
        (f_quote f :: hashes (eff_hash pr_tbl gr_tbl f s)) s.
Proof. exact single_line_hash_count_sufficient. Qed.
Print Assumptions C09_single_line_hash_count_sufficient.

Theorem C09_plain_occurrence : forall qc nh rest a c b,
  plain qc nh rest (a ++ c :: b) -> c = qc \/ c = ch_bs -> c < 0x80 -> valid_utf8 a ->
  (count_prefix ch_hash (b ++ rest) < nh)%nat.
Proof. exact plain_occurrence. Qed.
Print Assumptions C09_plain_occurrence.

(* ---- totality / no panic of the modelled Unquote, for EVERY input ---- *)

(* fuel (= len(s)+1 iterations) always suffices, for both layers *)
Theorem C09_unquote_fuel_sufficient : forall wrap s, unquote wrap s <> OutOfFuel.
Proof. exact (fun wrap s => proj1 (unquote_total wrap s)). Qed.
Print Assumptions C09_unquote_fuel_sufficient.

(* literal.Unquote never reaches unquoteChar on an empty string,
   buf[:len(buf)-1] on an empty buffer, or panic(unreachable), and never runs
   out of fuel: for EVERY input *)
Theorem C09_unquote_impl_no_panic : forall s, unquote_impl s <> Panic /\ unquote_impl s <> OutOfFuel.
Proof. exact unquote_impl_no_panic. Qed.
Print Assumptions C09_unquote_impl_no_panic.

Theorem C09_unquote_spec_no_panic : forall s, unquote_spec s <> Panic /\ unquote_spec s <> OutOfFuel.
Proof. exact unquote_spec_no_panic. Qed.
Print Assumptions C09_unquote_spec_no_panic.

(* the implementation layer IS the specification layer (uint32 accumulator) *)
Theorem C09_unquote_impl_eq_spec : forall s, unquote_impl s = unquote_spec s.
Proof. exact unquote_impl_eq_spec. Qed.
Print Assumptions C09_unquote_impl_eq_spec.

(* regression layer: what an int32 accumulator would do, and exactly where it
   can differ (a byte U directly followed by a hex digit >= 8) *)
Theorem C09_unquote_int32_no_panic_refuted : exists s, unquote_int32 s = Panic.
Proof. exact unquote_int32_no_panic_refuted. Qed.
Print Assumptions C09_unquote_int32_no_panic_refuted.

Theorem C09_unquote_int32_eq_impl_when : forall s, no_big_U s = true -> unquote_int32 s = unquote_impl s.
Proof. exact unquote_int32_eq_impl_when. Qed.
Print Assumptions C09_unquote_int32_eq_impl_when.

(* Quote's escape loop: fuel = len(s) suffices *)
Theorem C09_quote_fuel_sufficient : forall pr_tbl gr_tbl f ml hc fuel s, (length s <= fuel)%nat ->
  esc_loop pr_tbl gr_tbl f ml hc fuel s = esc pr_tbl gr_tbl f ml hc s.
Proof. exact esc_loop_fuel. Qed.
Print Assumptions C09_quote_fuel_sufficient.

(* ---- non-vacuity ---- *)
Example C09_ex_hash_form : forall pr gr,
  let f := with_optional_hashes string_form in
  let s := [97; 34; 35; 98] in
  eff_multiline f s = false /\ eff_hash pr gr f s = 2%nat /\
  quote pr gr f s = [35; 35; 34; 97; 34; 35; 98; 34; 35; 35] /\
  unquote_impl (quote pr gr f s) = Ok s.
Proof. exact ex_hash_form. Qed.
Print Assumptions C09_ex_hash_form.

Example C09_ex_multi_form : forall pr gr,
  let f := with_tab_indent bytes_form 2 in
  let s := [97; 10; 39; 39; 39; 35; 10; 255] in
  eff_multiline f s = true /\ eff_hash pr gr f s = 2%nat /\
  unquote_impl (quote pr gr f s) = Ok s /\ ~ valid_utf8 s.
Proof. exact ex_multi_form. Qed.
Print Assumptions C09_ex_multi_form.

Example C09_ex_string_lossy : forall pr gr,
  let s := [97; 255; 98] in
  unquote_impl (quote pr gr string_form s) = Ok [97; 0xEF; 0xBF; 0xBD; 98] /\
  expected string_form s = [97; 0xEF; 0xBF; 0xBD; 98] /\
  expected bytes_form s = s.
Proof. exact ex_string_lossy. Qed.
Print Assumptions C09_ex_string_lossy.

Example C09_ex_autohash_lead_quotes : forall pr gr,
  quote pr gr (with_optional_hashes string_form) [34; 34; 120] = [34; 92; 34; 92; 34; 120; 34] /\
  unquote_impl (quote pr gr (with_optional_hashes string_form) [34; 34; 120]) = Ok [34; 34; 120] /\
  quote pr gr (with_optional_hashes string_form) [34; 34; 35] = [34; 92; 34; 92; 34; 35; 34] /\
  quote pr gr (with_optional_hashes string_form) [34; 120] = [35; 34; 34; 120; 34; 35] /\
  unquote_impl [35; 34; 34; 34; 120; 34; 35] = Err EMissingOpeningNewline.
Proof. exact autohash_lead_quotes. Qed.
Print Assumptions C09_ex_autohash_lead_quotes.

Example C09_ex_unquote_big_U_rejected :
  unquote_impl [34; 97; 98; 99; 92; 85; 70; 70; 70; 70; 70; 70; 70; 70; 100; 101; 102; 34] = Err ESyntax /\
  unquote_int32 [34; 97; 98; 99; 92; 85; 70; 70; 70; 70; 70; 70; 70; 70; 100; 101; 102; 34] = Ok [97; 98; 99].
Proof. exact unquote_big_U_rejected. Qed.
Print Assumptions C09_ex_unquote_big_U_rejected.

(* ---- IndentTabs (cue/literal/indent.go): re-indentation of multi-line literals ---- *)

(* IndentTabs(f.Quote(s), n) is, byte for byte, f.WithTabIndent(n).Quote(s): for every
   text, every public form and any tables, whenever Quote wrote a multi-line literal
   indented with at least one tab (strings.ReplaceAll over the escape loop's output:
   line starts are rewritten, empty lines and escape sequences are left alone) *)
Theorem C09_indent_tabs_quote : forall pr_tbl gr_tbl f s n,
  public_form f -> eff_multiline f s = true -> (0 < f_indent f)%nat ->
  indent_tabs (quote pr_tbl gr_tbl f s) n = quote pr_tbl gr_tbl (set_indent f n) s.
Proof. exact indent_tabs_quote. Qed.
Print Assumptions C09_indent_tabs_quote.

(* ... hence re-indentation never changes what the literal means *)
Theorem C09_unquote_indent_tabs_quote : forall pr_tbl gr_tbl wrap f s n,
  public_form f -> is_bytes s -> eff_multiline f s = true -> (0 < f_indent f)%nat ->
  unquote wrap (indent_tabs (quote pr_tbl gr_tbl f s) n) = Ok (expected f s).
Proof. exact unquote_indent_tabs_quote. Qed.
Print Assumptions C09_unquote_indent_tabs_quote.

Theorem C09_indent_tabs_quote_compose : forall pr_tbl gr_tbl f s n m,
  public_form f -> eff_multiline f s = true -> (0 < f_indent f)%nat -> (0 < n)%nat ->
  indent_tabs (indent_tabs (quote pr_tbl gr_tbl f s) n) m = indent_tabs (quote pr_tbl gr_tbl f s) m.
Proof. exact indent_tabs_quote_compose. Qed.
Print Assumptions C09_indent_tabs_quote_compose.

(* the side condition is exact: written with NO indentation the search string is a
   bare newline and ReplaceAll also indents the empty lines, which Quote never does
   (the bytes differ; the value read back is still the text) *)
Theorem C09_indent_tabs_quote_indent0_refuted : exists f s n,
  public_form f /\ eff_multiline f s = true /\ f_indent f = 0%nat /\
  indent_tabs (quote no_tbl no_tbl f s) n <> quote no_tbl no_tbl (set_indent f n) s /\
  unquote_impl (indent_tabs (quote no_tbl no_tbl f s) n) = Ok s.
Proof. exact indent_tabs_quote_indent0_refuted. Qed.
Print Assumptions C09_indent_tabs_quote_indent0_refuted.

(* every input: what is not a multi-line literal, or is already indented so, is returned
   as is; the only partial operation is strings.Repeat with a negative count *)
Theorem C09_indent_tabs_not_multiline : forall s n, pq_ws s = None -> indent_tabs s n = s.
Proof. exact indent_tabs_not_multiline. Qed.
Print Assumptions C09_indent_tabs_not_multiline.

Theorem C09_indent_tabs_same : forall s n, pq_ws s = Some (tabs n) -> indent_tabs s n = s.
Proof. exact indent_tabs_same. Qed.
Print Assumptions C09_indent_tabs_same.

Theorem C09_indent_tabs_go_panics_iff : forall s n, indent_tabs_go s n = Panic <-> (n < 0)%Z.
Proof. exact indent_tabs_go_panics_iff. Qed.
Print Assumptions C09_indent_tabs_go_panics_iff.

Theorem C09_indent_tabs_go_total : forall s n, (0 <= n)%Z ->
  indent_tabs_go s n = Ok (indent_tabs s (Z.to_nat n)).
Proof. exact indent_tabs_go_total. Qed.
Print Assumptions C09_indent_tabs_go_total.

Example C09_ex_indent_tabs_quote :
  let f := with_tab_indent string_form 1 in
  let s := [97; 10; 10; 9; 98] in
  quote no_tbl no_tbl f s = [34;34;34;10; 9;97;10; 10; 9;92;116;98;10; 9;34;34;34] /\
  indent_tabs (quote no_tbl no_tbl f s) 3 = [34;34;34;10; 9;9;9;97;10; 10; 9;9;9;92;116;98;10; 9;9;9;34;34;34] /\
  indent_tabs (quote no_tbl no_tbl f s) 3 = quote no_tbl no_tbl (set_indent f 3) s /\
  unquote_impl (indent_tabs (quote no_tbl no_tbl f s) 3) = Ok s.
Proof. exact ex_indent_tabs_quote. Qed.
Print Assumptions C09_ex_indent_tabs_quote.

Example C09_ex_indent_tabs_other :
  indent_tabs [34; 97; 34] 2 = [34; 97; 34] /\
  indent_tabs [34; 34; 34; 120] 2 = [34; 34; 34; 120] /\
  indent_tabs_go [34; 97; 34] (-1) = Panic /\
  indent_tabs [34;34;34;10; 32;32;32;97;10; 32;32;34;34;34] 1 = [34;34;34;10; 9;32;97;10; 9;34;34;34].
Proof. exact ex_indent_tabs_other. Qed.
Print Assumptions C09_ex_indent_tabs_other.
