(* C20 - cue trim removes only what is implied: the evaluated configuration is unchanged.

   A package is a list of declarations at paths; [final_value labs atoms fuel P] is the
   CoreCUE evaluation of the conjuncts the declarations give to the root, observed over
   the label universe [labs], the probe atoms [atoms] and depth [fuel] (data, kinds,
   errors, closedness - Core/Eval.v).  [removes P K]: K is obtained from P by removing
   declarations one after the other, each one implied ([implied1]) by what REMAINS.
   [absorbed d K] is the executable sufficient condition (scalar entailment, existing
   fields, existing structs; never patterns / references / close / embeddings);
   [accepts_mask] is what the check runs on the set trim.Files removed.
   Only statements, [exact], Print Assumptions. *)
From Verif Require Import Core.Syntax Core.Eval Core.Laws Core.Disj Trim.Model Trim.Proofs Trim.Examples.
From Coq Require Import List Bool Permutation.
Import ListNotations.

(* unifying into a node an expression that the node's conjuncts absorb changes nothing,
   for every universe, probe set and depth *)
Theorem C20_absorb_sound : forall labs atoms fuel cs vs,
  (forall v, In v vs -> absorbs v cs = true) ->
  evalNode labs atoms fuel (mkConj false vs :: cs) = evalNode labs atoms fuel cs.
Proof. exact absorb_sound. Qed.
Print Assumptions C20_absorb_sound.

Theorem C20_absorbed_implied : forall d K, absorbed d K = true -> implied1 K d.
Proof. exact absorbed_implied. Qed.
Print Assumptions C20_absorbed_implied.

(* the property: sequentially implied removals preserve the configuration *)
Theorem C20_removes_preserves : forall P K,
  removes P K -> forall labs atoms fuel, final_value labs atoms fuel K = final_value labs atoms fuel P.
Proof. exact removes_preserves. Qed.
Print Assumptions C20_removes_preserves.

Theorem C20_remove_implied_preserves : forall P m,
  removes P (keepm m P) ->
  forall labs atoms fuel, final_value labs atoms fuel (keepm m P) = final_value labs atoms fuel P.
Proof. exact remove_implied_preserves. Qed.
Print Assumptions C20_remove_implied_preserves.

(* ... at every path: same data, same errors *)
Theorem C20_remove_implied_preserves_at : forall P m,
  removes P (keepm m P) ->
  forall labs atoms fuel path,
    final_value_at labs atoms fuel (keepm m P) path = final_value_at labs atoms fuel P path.
Proof. exact remove_implied_preserves_at. Qed.
Print Assumptions C20_remove_implied_preserves_at.

(* the acceptor run on trim.Files' removed set is sound *)
Theorem C20_accepts_sound : forall K R, accepts K R = true -> removes (K ++ R) K.
Proof. exact accepts_sound. Qed.
Print Assumptions C20_accepts_sound.

Theorem C20_accepts_mask_preserves : forall P m,
  accepts_mask m P = true ->
  forall labs atoms fuel, final_value labs atoms fuel (keepm m P) = final_value labs atoms fuel P.
Proof. exact accepts_mask_preserves. Qed.
Print Assumptions C20_accepts_mask_preserves.

(* the reference trimmer only performs sequentially implied removals, preserves the value,
   is idempotent and leaves nothing that the rest absorbs *)
Theorem C20_trim_model_removes : forall P, removes P (trim_model P).
Proof. exact trim_model_removes. Qed.
Print Assumptions C20_trim_model_removes.

Theorem C20_trim_model_sound : forall P labs atoms fuel,
  final_value labs atoms fuel (trim_model P) = final_value labs atoms fuel P.
Proof. exact trim_model_sound. Qed.
Print Assumptions C20_trim_model_sound.

Theorem C20_trim_model_idempotent : forall P, trim_model (trim_model P) = trim_model P.
Proof. exact trim_model_idempotent. Qed.
Print Assumptions C20_trim_model_idempotent.

Theorem C20_trim_model_complete : forall P Q1 d Q2,
  trim_model P = Q1 ++ d :: Q2 -> absorbed d (Q1 ++ Q2) = false.
Proof. exact trim_model_complete. Qed.
Print Assumptions C20_trim_model_complete.

(* scalar entailment is sound for satisfaction, kinds and pinned atoms *)
Theorem C20_sc_entails_sat : forall c' c a, sc_entails c' c = true -> ssat a c' = true -> ssat a c = true.
Proof. exact sc_entails_sat. Qed.
Print Assumptions C20_sc_entails_sat.

(* refuted variants *)
Theorem C20_mutual_redundancy_unsafe :
  exists d : decl,
    implied1 [d] d /\
    exists labs atoms fuel, final_value labs atoms fuel [] <> final_value labs atoms fuel [d; d].
Proof. exact mutual_redundancy_unsafe. Qed.
Print Assumptions C20_mutual_redundancy_unsafe.

Theorem C20_pattern_root_must_not_win :
  exists (K : pkg) (d : decl),
    absorbs_loose (d_expr d) (conjs K) = true /\
    exists labs atoms fuel, final_value labs atoms fuel (d :: K) <> final_value labs atoms fuel K.
Proof. exact pattern_root_must_not_win. Qed.
Print Assumptions C20_pattern_root_must_not_win.

Theorem C20_struct_marker_not_implied_by_top :
  exists (K : pkg) (d : decl),
    absorbed d K = false /\
    exists labs atoms fuel, final_value labs atoms fuel (d :: K) <> final_value labs atoms fuel K.
Proof. exact struct_marker_not_implied_by_top. Qed.
Print Assumptions C20_struct_marker_not_implied_by_top.

(* with defaults (Core/Disj.v): "implied by a default" is not an implication - the mechanism of
   known finding F11 (x: b: 2, x: b: *1 | int, x: b: *2 | int) *)
Theorem C20_default_is_not_implication :
  exists labs atoms fuel (c : expr) (d1 d2 : disj),
    resolve (pair_of labs atoms fuel [c] [d2]) = resolve (pair_of labs atoms fuel [] [d2]) /\
    resolve (pair_of labs atoms fuel [c] [d1; d2]) <> resolve (pair_of labs atoms fuel [] [d1; d2]).
Proof. exact default_is_not_implication. Qed.
Print Assumptions C20_default_is_not_implication.

(* non-vacuity *)
Example C20_ex_removes : removes P0 (keepm [false; false; true; true; true] P0).
Proof. exact ex_removes. Qed.
Print Assumptions C20_ex_removes.

Example C20_ex_trim_model : trim_model P0 = [mkDecl 0 [] defD; mkDecl 0 [reg la] int1].
Proof. exact ex_trim_model. Qed.
Print Assumptions C20_ex_trim_model.

Example C20_ex_rejects : accepts_mask [false; true; false; false; false] P0 = false.
Proof. exact ex_rejects. Qed.
Print Assumptions C20_ex_rejects.

Example C20_ex_rejected_changes :
  final_value [la; lb] [AInt 1; AInt 2] 5 (keepm [false; true; false; false; false] P0) <>
  final_value [la; lb] [AInt 1; AInt 2] 5 P0.
Proof. exact ex_rejected_changes. Qed.
Print Assumptions C20_ex_rejected_changes.

Example C20_ex_dup_both : accepts_mask [true; true] Pdup = false.
Proof. exact ex_dup_both. Qed.
Print Assumptions C20_ex_dup_both.
