(* C02 - parsing, compiling, evaluating and exporting never crash and are repeatable.
   PARTIAL: theorems about the modelled logic that termination and determinism
   rest on.  Panics, stack and memory exhaustion inside the unmodelled Go code
   (parser, compiler, evaluator, exporter) are not theorems; they are explored by
   the isolated-worker run reported in the evidence as exploration.

   Part 1 (this block): cue/scanner.  [Scan.run]/[Scan.scan1]/[Scan.tokenize] are
   the model of Scanner.Init/Scan/ResumeInterpolation with Go's index and slice
   operations explicit ([Panic]) and loops fuelled ([Fuel]). *)
From Verif Require Import Utf8.Model Robust.Scan Robust.ScanProofs Robust.ScanExamples.
From Verif Require Import Base.Order Robust.Sanitize Robust.SanitizeProofs Robust.Topo Robust.TopoProofs Robust.SanTopoExamples Robust.Combined.
From Coq Require Import ZArith List Bool Sorting.Sorted Sorting.Permutation.
Import ListNotations.
Local Open Scope Z_scope.

(* Init establishes the scanner invariant for every source text. *)
Theorem C02_scan_init_inv : forall (src : list N) (isL isD : Z -> bool),
  wp False (Inv src) (init src).
Proof. exact Inv_init. Qed.
Print Assumptions C02_scan_init_inv.

(* scan_total: from every state satisfying the invariant one Scan call returns
   (no index/slice operation of the Go code is out of range, the fuel
   4*len+8 is not exhausted) and re-establishes the invariant; for every
   unicode oracle and both scanner modes. *)
Theorem C02_scan_total : forall (src : list N) (isL isD : Z -> bool) (comments noins : bool) (s : st),
  Inv src s -> exists r s', scan1 src isL isD comments noins s = Ok (r, s') /\ Inv src s'.
Proof. exact scan_total. Qed.
Print Assumptions C02_scan_total.

Theorem C02_scan_no_panic : forall (src : list N) (isL isD : Z -> bool) (comments noins : bool) (f : nat) (s : st),
  Inv src s -> scan src isL isD comments noins f s <> Panic.
Proof. exact scan_no_panic. Qed.
Print Assumptions C02_scan_no_panic.

Theorem C02_scan_fuel_enough : forall (src : list N) (isL isD : Z -> bool) (comments noins : bool) (f : nat) (s : st),
  Inv src s -> 2 * mu src s + 2 <= Z.of_nat f -> scan src isL isD comments noins f s <> Fuel.
Proof. exact scan_fuel_enough. Qed.
Print Assumptions C02_scan_fuel_enough.

(* scan_progress: every Scan call that does not return EOF strictly decreases
   2*(len - offset) + [insertEOL]; a token other than an inserted comma is not
   empty. *)
Theorem C02_scan_progress : forall (src : list N) (isL isD : Z -> bool) (comments noins : bool) (s : st) (r : res) (s' : st),
  Inv src s -> scan1 src isL isD comments noins s = Ok (r, s') -> r_tok r <> EOF ->
  mu src s' < mu src s /\ (r_elided r = false -> r_start r < off s').
Proof. exact scan_progress. Qed.
Print Assumptions C02_scan_progress.

(* position monotonicity of one call: offsets stay in [0,len] and only grow;
   ErrorCount only grows *)
Theorem C02_scan_offsets : forall (src : list N) (isL isD : Z -> bool) (comments noins : bool) (s : st) (r : res) (s' : st),
  Inv src s -> scan1 src isL isD comments noins s = Ok (r, s') ->
  0 <= off s <= r_start r /\ r_start r <= off s' <= len src /\ errs s <= errs s'.
Proof. exact scan_offsets. Qed.
Print Assumptions C02_scan_offsets.

(* ResumeInterpolation is total whenever an interpolation is open *)
Theorem C02_resume_total : forall (src : list N) (isL isD : Z -> bool) (s : st),
  Inv src s -> qs s <> [] -> wp False (resume_post src s) (resume src s).
Proof. exact resume_total. Qed.
Print Assumptions C02_resume_total.

(* Tokenising a file (Init, then Scan until EOF) never panics, terminates within
   2*len+2 Scan calls - the fuel given to [tokenize] is never exhausted -, ends
   with its only EOF, and the token starts are non-decreasing, within [0,len],
   and strictly increasing except after inserted commas. *)
Theorem C02_tokenize_total : forall (src : list N) (isL isD : Z -> bool) (comments noins : bool),
  wp False (fun l => starts_from src 0 l /\ strict_starts l /\ eof_last l /\
                     Z.of_nat (length l) <= 2 * len src + 2 /\
                     (forall r, In r l -> r_elided r = true -> r_tok r = COMMA))
     (tokenize src isL isD comments noins).
Proof. exact tokenize_total. Qed.
Print Assumptions C02_tokenize_total.

(* No sequence of Scan / ResumeInterpolation calls after Init makes the scanner
   panic or loop; the only failure is the API misuse of resuming with no open
   interpolation (reported apart as RunMisuse). *)
Theorem C02_scan_run_total : forall (src : list N) (isL isD : Z -> bool) (comments noins : bool) (ops : list op),
  run_fine (run src isL isD comments noins ops).
Proof. exact run_total. Qed.
Print Assumptions C02_scan_run_total.

(* non-vacuity *)
Example C02_ex_comment_comma :
  toks [97; 58; 32; 49; 32; 47; 47; 32; 99; 10]%N
  = Some [(IDENT, 0, false); (COLON, 1, false); (INT, 3, false); (COMMA, 5, true);
          (COMMENT, 5, false); (EOF, 10, false)].
Proof. exact ex_comment_comma. Qed.
Print Assumptions C02_ex_comment_comma.

Example C02_ex_token_bound_reached :
  toks [97]%N = Some [(IDENT, 0, false); (COMMA, 1, true); (EOF, 1, false)].
Proof. exact ex_len_plus_two. Qed.
Print Assumptions C02_ex_token_bound_reached.

Example C02_ex_misuse_is_reachable :
  run [97]%N no no true false [OScan; OResume] = RunMisuse [ObsTok (mkRes IDENT 0 false) 1 0 0].
Proof. exact ex_misuse. Qed.
Print Assumptions C02_ex_misuse_is_reachable.

Example C02_ex_partial_ops_do_fail :
  byte_at [97]%N 1 = Panic /\ byte_at [97]%N (-1) = Panic.
Proof. exact ex_byte_at_panics. Qed.
Print Assumptions C02_ex_partial_ops_do_fail.

Example C02_ex_invariant_needed : scan_comment [47; 47]%N (mkSt 47 0 1 false [] 0) = Panic.
Proof. exact ex_inv_needed. Qed.
Print Assumptions C02_ex_invariant_needed.

(* ------------------------------------------------------------------------
   Part 2: cue/errors Sanitize (model Robust/Sanitize.v).  Errors are collected
   in evaluation / map order; the TEXT that is printed goes through
   list.sanitize.  [coherent] = positions the comparator calls equal are ==,
   and errors with equal (position, path, message) are the same value.
   Part 3: internal/core/toposort (model Robust/Topo.v): the field order is a
   function of the node SET and edge SET, not of the Go map iteration order.
   ------------------------------------------------------------------------ *)
Local Close Scope Z_scope.
Local Open Scope nat_scope.

Theorem C02_sanitize_order_independent : forall es es',
  coherent es -> Permutation es es' -> sanitize (CList es) = sanitize (CList es') /\ printed (CList es) = printed (CList es').
Proof. exact sanitize_order_independent. Qed.
Print Assumptions C02_sanitize_order_independent.

Theorem C02_sanitize_keys_order_independent : forall es es',
  pos_coherent es -> Permutation es es' -> map key (sanitize_list es) = map key (sanitize_list es').
Proof. exact sanitize_keys_perm. Qed.
Print Assumptions C02_sanitize_keys_order_independent.

Theorem C02_sanitize_idempotent : forall e, sanitize (sanitize e) = sanitize e.
Proof. exact sanitize_top_idempotent. Qed.
Print Assumptions C02_sanitize_idempotent.

Theorem C02_sanitize_sorted_nodup : forall es, pos_coherent es ->
  StronglySorted key_lt (map key (sanitize_list es)) /\ NoDup (map key (sanitize_list es)).
Proof. exact sanitize_sorted_nodup. Qed.
Print Assumptions C02_sanitize_sorted_nodup.

Theorem C02_sanitize_loses_nothing : forall es x, In x es -> exists y, In y (sanitize_list es) /\ key y = key x.
Proof. exact sanitize_complete. Qed.
Print Assumptions C02_sanitize_loses_nothing.

Theorem C02_sanitize_invents_nothing : forall es x, In x (sanitize_list es) -> In x es.
Proof. exact sanitize_subset. Qed.
Print Assumptions C02_sanitize_invents_nothing.

Theorem C02_sanitize_any_sort : forall es s, coherent es -> Permutation es s ->
  StronglySorted (le_of err_cmp) s -> group_phase s = sanitize_list es.
Proof. exact sanitize_any_sort. Qed.
Print Assumptions C02_sanitize_any_sort.

Theorem C02_sanitize_perm_refuted : exists es es', Permutation es es' /\ rec_coherent es /\
  sanitize_list es <> sanitize_list es' /\ length (sanitize_list es) <> length (sanitize_list es').
Proof. exact sanitize_perm_refuted. Qed.
Print Assumptions C02_sanitize_perm_refuted.

Theorem C02_sanitize_payload_refuted : exists es es', Permutation es es' /\ pos_coherent es /\
  map key (sanitize_list es) = map key (sanitize_list es') /\ sanitize_list es <> sanitize_list es'.
Proof. exact sanitize_payload_refuted. Qed.
Print Assumptions C02_sanitize_payload_refuted.

Theorem C02_field_order_independent_of_map_order : forall nodes nodes' edges edges',
  Permutation nodes nodes' -> (forall e, In e edges <-> In e edges') ->
  topo_sort label_cmp nodes edges = topo_sort label_cmp nodes' edges'.
Proof. exact (topo_sort_perm_invariant label_cmp label_cmp_total). Qed.
Print Assumptions C02_field_order_independent_of_map_order.

Theorem C02_field_order_dag : forall nodes edges,
  ranked edges -> NoDup nodes -> closed nodes edges ->
  exists t, topo_sort label_cmp nodes edges = Some t /\ Permutation nodes t /\
    (forall a b, In (a, b) edges -> idx label_cmp t a < idx label_cmp t b) /\
    (forall t', Permutation nodes t' -> topo_ok edges t' -> list_cmp label_cmp t t' <> Gt).
Proof. exact field_order_dag. Qed.
Print Assumptions C02_field_order_dag.

Theorem C02_merge_orders_respects_each_order : forall os, consistent os ->
  exists t, merge_orders label_cmp os = Some t /\ NoDup t /\
    (forall x, In x t <-> exists o, In o os /\ In x o) /\ forall o, In o os -> subseq o t.
Proof. exact (merge_orders_respects_each_order label_cmp label_cmp_total). Qed.
Print Assumptions C02_merge_orders_respects_each_order.

Theorem C02_merge_orders_function_of_orders : forall os os',
  (forall o, In o os <-> In o os') -> merge_orders label_cmp os = merge_orders label_cmp os'.
Proof. exact (merge_orders_function_of_orders label_cmp label_cmp_total). Qed.
Print Assumptions C02_merge_orders_function_of_orders.

Theorem C02_implicit_orders : forall os, implicit_orders label_cmp os = Some (first_occ label_cmp (concat os)).
Proof. exact (implicit_orders_spec label_cmp label_cmp_total). Qed.
Print Assumptions C02_implicit_orders.

(* non-vacuity of the Sanitize / toposort hypotheses *)
Example C02_ex_sanitize_coherent :
  coherent [E1; E2; E3; E4; E1; E5] /\
  sanitize_list [E1; E2; E3; E4; E1; E5] = [E2; E3; E5; E1; E4] /\
  sanitize_list [E5; E1; E4; E3; E2; E1] = [E2; E3; E5; E1; E4].
Proof. exact sanitize_coherent_example. Qed.
Print Assumptions C02_ex_sanitize_coherent.

Example C02_ex_consistent_orders : consistent [[lb; lc; lf; ld; lg]; [lc; la; le; ld]].
Proof. exact consistent_example. Qed.
Print Assumptions C02_ex_consistent_orders.

Example C02_ex_merge_orders :
  merge_orders label_cmp [[lb; lc; lf; ld; lg]; [lc; la; le; ld]] = Some [lb; lc; la; le; lf; ld; lg].
Proof. exact merge_linked_multiple. Qed.
Print Assumptions C02_ex_merge_orders.

Example C02_ex_inconsistent_not_respected :
  merge_orders label_cmp [[lb; la]; [la; lb]] = Some [la; lb] /\ ~ subseq [lb; la] [la; lb].
Proof. exact inconsistent_not_respected. Qed.
Print Assumptions C02_ex_inconsistent_not_respected.
