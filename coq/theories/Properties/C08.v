(* C08 - placeholder while the proofs are being developed *)
From Verif Require Import Syn.Lex Syn.Expr.
From Coq Require Import List NArith.
Import ListNotations.

Example C08_example_print_parse :
  parse (print1 (EBin MUL (EBin ADD (EAtom (TIdent [97%N])) (EAtom (TIdent [98%N]))) (EAtom (TIdent [99%N]))))
  = Some (EBin MUL (EParen (EBin ADD (EAtom (TIdent [97%N])) (EAtom (TIdent [98%N])))) (EAtom (TIdent [99%N]))).
Proof. vm_compute. reflexivity. Qed.
Print Assumptions C08_example_print_parse.
