(* C08 - cue fmt is idempotent and never changes what a file means (expression
   level; the C07 items about precedence printing and token separation).
   This file contains only statements, closed by [exact], and Print Assumptions. *)
From Verif Require Import Syn.Lex Syn.LexProofs Syn.Expr Syn.Basics Syn.Proofs Syn.Space Syn.Layout Syn.Examples.
From Coq Require Import List NArith Bool.
Import ListNotations.

(* ---- tokens ------------------------------------------------------------- *)

(* a token sequence in which every pair printed without a blank is allowed by the
   separation table scans back to exactly the same tokens *)
Theorem C08_scan_render : forall ts, Forall tok_wf (map snd ts) -> separated ts = true ->
  scan (render ts) = Some (map snd ts).
Proof. exact scan_render. Qed.
Print Assumptions C08_scan_render.

(* F3: `<` followed by unary `-` needs a blank, glued it is the arrow token *)
Theorem C08_lss_sub_needs_sep :
  needs_sep (TOp LSS) (TOp SUB) = true /\
  scan (render [(false, TOp LSS); (false, TOp SUB); (false, TInt [49%N])]) = Some [TOp ARROW; TInt [49%N]] /\
  scan (render [(false, TOp LSS); (true, TOp SUB); (false, TInt [49%N])]) = Some [TOp LSS; TOp SUB; TInt [49%N]].
Proof. exact lss_sub_needs_sep. Qed.
Print Assumptions C08_lss_sub_needs_sep.

Theorem C08_int_period_needs_sep :
  needs_sep (TInt [49%N]) (TP PERIOD) = true /\
  scan (render [(false, TInt [49%N]); (false, TP PERIOD); (false, TIdent [97%N])]) = Some [TFloat [49%N; 46%N]; TIdent [97%N]] /\
  scan (render [(false, TInt [49%N]); (true, TP PERIOD); (false, TIdent [97%N])]) = Some [TInt [49%N]; TP PERIOD; TIdent [97%N]].
Proof. exact int_period_needs_sep. Qed.
Print Assumptions C08_int_period_needs_sep.

Theorem C08_underscore_or_needs_sep :
  needs_sep (TIdent [95%N]) (TOp OR) = true /\
  scan (render [(false, TIdent [95%N]); (false, TOp OR); (false, TIdent [95%N])]) = Some [TBottom].
Proof. exact underscore_or_needs_sep. Qed.
Print Assumptions C08_underscore_or_needs_sep.

(* internal/pretty's unary merge test is exactly the separation table on pairs of
   unary operators; printer.go's mayCombine (with opCombinesWith, since the fix of K1)
   covers every such pair, in particular the seven it used to miss *)
Theorem C08_v2_unary_merges_exact : forall o o', In o unops -> In o' unops ->
  v2_unary_merges o o' = needs_sep (TOp o) (TOp o').
Proof. exact v2_unary_merges_exact. Qed.
Print Assumptions C08_v2_unary_merges_exact.

Theorem C08_v1_may_combine_complete : forall o o', In o unops -> In o' unops ->
  needs_sep (TOp o) (TOp o') = true -> v1_may_combine (TOp o) (TOp o') = true.
Proof. exact v1_may_combine_complete. Qed.
Print Assumptions C08_v1_may_combine_complete.

Theorem C08_v1_formerly_missed_now_separated : forall o o', In (o, o') v1_missed ->
  needs_sep (TOp o) (TOp o') = true /\ v1_may_combine (TOp o) (TOp o') = true.
Proof. exact v1_formerly_missed_now_separated. Qed.
Print Assumptions C08_v1_formerly_missed_now_separated.

(* ---- trees: printer V1 (cue/format/node.go) ------------------------------ *)

(* parse (print e) = e for every parser-shaped tree *)
Theorem C08_parse_print_wf : forall e, wf e -> parse (print1 e) = Some e.
Proof. exact parse_print_wf. Qed.
Print Assumptions C08_parse_print_wf.

(* for EVERY tree of valid operators (any shape, ParenExpr nodes anywhere): the
   printed tokens parse to the tree with exactly the printed parentheses *)
Theorem C08_parse_print1 : forall e, valid e -> parse (print1 e) = Some (canon e 0).
Proof. exact parse_print1. Qed.
Print Assumptions C08_parse_print1.

Theorem C08_unparen_canon : forall e q, unparen (canon e q) = unparen e.
Proof. exact unparen_canon. Qed.
Print Assumptions C08_unparen_canon.

(* parse_print_expr: no parenthesis can be dropped or misplaced *)
Theorem C08_parse_print_expr : forall e, valid e -> noparen e ->
  exists e', parse (print1 e) = Some e' /\ unparen e' = e.
Proof. exact parse_print_expr. Qed.
Print Assumptions C08_parse_print_expr.

(* what the parser returns is parser-shaped *)
Theorem C08_parse_pwf : forall ts e, parse ts = Some e -> pwf e.
Proof. exact parse_pwf. Qed.
Print Assumptions C08_parse_pwf.

(* idempotence: on trees ... *)
Theorem C08_fmt1_print : forall e, valid e -> fmt1 (print1 e) = Some (print1 e).
Proof. exact fmt1_print. Qed.
Print Assumptions C08_fmt1_print.

(* ... and on every token list (any redundant parentheses): one step reaches the normal form *)
Theorem C08_fmt1_idempotent : forall ts ts', fmt1 ts = Some ts' -> fmt1 ts' = Some ts'.
Proof. exact fmt1_idempotent. Qed.
Print Assumptions C08_fmt1_idempotent.

(* the tree is preserved up to the one documented normalisation ((x)) -> (x) *)
Theorem C08_fmt1_preserves_tree : forall ts e, parse ts = Some e ->
  exists ts', fmt1 ts = Some ts' /\ parse ts' = Some (collapse e).
Proof. exact fmt1_preserves_tree. Qed.
Print Assumptions C08_fmt1_preserves_tree.

Theorem C08_unparen_collapse : forall e, unparen (collapse e) = unparen e.
Proof. exact unparen_collapse. Qed.
Print Assumptions C08_unparen_collapse.

Theorem C08_collapse_wf_id : forall e, wf e -> collapse e = e.
Proof. exact collapse_wf_id. Qed.
Print Assumptions C08_collapse_wf_id.

(* ---- printer V2 (internal/pretty, the default) --------------------------- *)

Theorem C08_print2_eq_print1_when : forall e, v2_safe e = true -> print2 e = print1 e.
Proof. exact print2_eq_print1_when. Qed.
Print Assumptions C08_print2_eq_print1_when.

Theorem C08_pwf_v2_safe : forall e, pwf e -> v2_safe e = true.
Proof. exact pwf_v2_safe. Qed.
Print Assumptions C08_pwf_v2_safe.

(* so on every token list (format.Source) both formatters print the same tokens *)
Theorem C08_fmt2_eq_fmt1 : forall ts, fmt2 ts = fmt1 ts.
Proof. exact fmt2_eq_fmt1. Qed.
Print Assumptions C08_fmt2_eq_fmt1.

Theorem C08_fmt2_idempotent : forall ts ts', fmt2 ts = Some ts' -> fmt2 ts' = Some ts'.
Proof. exact fmt2_idempotent. Qed.
Print Assumptions C08_fmt2_idempotent.

Theorem C08_fmt2_preserves_tree : forall ts e, parse ts = Some e ->
  exists ts', fmt2 ts = Some ts' /\ parse ts' = Some (collapse e).
Proof. exact fmt2_preserves_tree. Qed.
Print Assumptions C08_fmt2_preserves_tree.

(* on trees WITHOUT ParenExpr nodes (format.Node on programmatic ASTs) V2 keeps the
   parentheses of a unary operand of a postfix operator (K25, fixed) ... *)
Theorem C08_print2_unary_postfix_parenthesised :
  let e := ESel (EUn SUB ex_a) (TIdent [98%N]) in
  valid e /\ noparen e /\ print2 e = print1 e /\
  parse (print2 e) = Some (ESel (EParen (EUn SUB ex_a)) (TIdent [98%N])).
Proof. exact print2_unary_postfix_parenthesised. Qed.
Print Assumptions C08_print2_unary_postfix_parenthesised.

(* ... but still loses the grouping of a right-nested chain (K26) *)
Theorem C08_print2_chain_refuted :
  let e := EBin OR ex_a (EBin OR (EUn MUL ex_b) ex_c) in
  valid e /\ noparen e /\
  parse (print2 e) = Some (EBin OR (EBin OR ex_a (EUn MUL ex_b)) ex_c) /\
  parse (print1 e) = Some (EBin OR ex_a (EParen (EBin OR (EUn MUL ex_b) ex_c))).
Proof. exact print2_chain_refuted. Qed.
Print Assumptions C08_print2_chain_refuted.

(* ---- blanks --------------------------------------------------------------- *)

(* if every pair the printer does not separate by a blank is allowed by the table,
   the text reads back to the printed tokens whatever the layout engine chooses *)
Theorem C08_sp_scan : forall l, Forall tok_wf (map snd l) -> sep_ok l = true ->
  forall ch, scan (render (resolve ch 0 l)) = Some (map snd l).
Proof. exact sp_scan. Qed.
Print Assumptions C08_sp_scan.

Theorem C08_v1_text_reads_back : forall e, valid e -> Forall tok_wf (print1 e) ->
  sep_ok (sp1 e 0) = true -> forall ch,
  scan (render (resolve ch 0 (sp1 e 0))) = Some (print1 e) /\ parse (print1 e) = Some (canon e 0).
Proof. exact v1_text_reads_back. Qed.
Print Assumptions C08_v1_text_reads_back.

Theorem C08_v2_text_reads_back : forall e, valid e -> v2_safe e = true -> Forall tok_wf (print2 e) ->
  sep_ok (sp2 MDisp e) = true -> forall ch,
  scan (render (resolve ch 0 (sp2 MDisp e))) = Some (print2 e) /\ parse (print2 e) = Some (canon e 0).
Proof. exact v2_text_reads_back. Qed.
Print Assumptions C08_v2_text_reads_back.

(* the blanks the model leaves to the layout engine (around + - * /) are never needed *)
Theorem C08_sp1_layout_never_needed : forall e, valid e -> atoms_wf e -> forall q, lay_ok (sp1 e q).
Proof. exact (fun e V W q => proj1 (sp1_layout_ok e V W q)). Qed.
Print Assumptions C08_sp1_layout_never_needed.

Theorem C08_sp2_layout_never_needed : forall e, valid e -> atoms_wf e -> forall m, lay_ok (sp2 m e).
Proof. exact (fun e V W m => proj1 (sp2_layout_ok e V W m)). Qed.
Print Assumptions C08_sp2_layout_never_needed.

(* hence: whenever the model predicts no hazardous pair, the printed text reads back *)
Theorem C08_v1_reads_back_when_no_hazard : forall e, valid e -> atoms_wf e -> Forall tok_wf (print1 e) ->
  hazards (sp1 e 0) = [] -> forall ch,
  scan (render (resolve ch 0 (sp1 e 0))) = Some (print1 e) /\ parse (print1 e) = Some (canon e 0).
Proof. exact v1_reads_back_when_no_hazard. Qed.
Print Assumptions C08_v1_reads_back_when_no_hazard.

Theorem C08_v2_reads_back_when_no_hazard : forall e, valid e -> atoms_wf e -> v2_safe e = true ->
  Forall tok_wf (print2 e) -> hazards (sp2 MDisp e) = [] -> forall ch,
  scan (render (resolve ch 0 (sp2 MDisp e))) = Some (print2 e) /\ parse (print2 e) = Some (canon e 0).
Proof. exact v2_reads_back_when_no_hazard. Qed.
Print Assumptions C08_v2_reads_back_when_no_hazard.

(* K1 (fixed): formatter V1 keeps the blank of `< -1`;  K2 (fixed): formatter V2 keeps the blank of `1 .a` *)
Theorem C08_v1_separates_lss_sub :
  let e := EUn LSS (EUn SUB one) in
  valid e /\ Forall tok_wf (print1 e) /\
  hazards (sp1 e 0) = [] /\ sep_ok (sp1 e 0) = true /\
  scan (render (resolve (fun _ => false) 0 (sp1 e 0))) = Some (print1 e) /\
  parse (print1 e) = Some e /\
  hazards (sp2 MDisp e) = [] /\
  scan (render (resolve (fun _ => true) 0 (sp2 MDisp e))) = Some (print2 e).
Proof. exact v1_separates_lss_sub. Qed.
Print Assumptions C08_v1_separates_lss_sub.

Theorem C08_v2_separates_int_period :
  let e := ESel one (TIdent [97%N]) in
  valid e /\ Forall tok_wf (print2 e) /\
  hazards (sp2 MDisp e) = [] /\ sep_ok (sp2 MDisp e) = true /\
  scan (render (resolve (fun _ => false) 0 (sp2 MDisp e))) = Some (print2 e) /\
  parse (print2 e) = Some e /\
  hazards (sp1 e 0) = [] /\
  scan (render (resolve (fun _ => true) 0 (sp1 e 0))) = Some (print1 e).
Proof. exact v2_separates_int_period. Qed.
Print Assumptions C08_v2_separates_int_period.

(* ---- non-vacuity ---------------------------------------------------------- *)

Example C08_example_wf_tree : wf ex_tree /\ parse (print1 ex_tree) = Some ex_tree /\ length (print1 ex_tree) = 29.
Proof. exact ex_wf_tree. Qed.
Print Assumptions C08_example_wf_tree.

Example C08_example_redundant_parens :
  parse ex_soup = Some ex_soup_tree /\ fmt1 ex_soup = Some ex_soup_fmt /\ fmt2 ex_soup = Some ex_soup_fmt /\
  fmt1 ex_soup_fmt = Some ex_soup_fmt /\ parse ex_soup_fmt = Some (collapse ex_soup_tree) /\
  collapse ex_soup_tree <> ex_soup_tree /\ length ex_soup = 15 /\ length ex_soup_fmt = 9.
Proof. exact ex_redundant_parens. Qed.
Print Assumptions C08_example_redundant_parens.

Example C08_example_separated :
  Forall tok_wf (map snd ex_sep) /\ separated ex_sep = true /\ scan (render ex_sep) = Some (map snd ex_sep) /\
  sep_ok (sp1 ex_tree 0) = true /\ sep_ok (sp2 MDisp ex_tree) = true /\ Forall tok_wf (print1 ex_tree).
Proof. exact ex_separated. Qed.
Print Assumptions C08_example_separated.
