(* Syn/LexProofs.v - the scanner model reads a separated token sequence back. *)
From Coq Require Import List NArith Bool Lia Arith.
From Verif Require Import Syn.Lex.
Import ListNotations.
Open Scope N_scope.

(* ---- span ---------------------------------------------------------------- *)

Lemma span_spec : forall p l a b, span p l = (a, b) ->
  l = a ++ b /\ forallb p a = true /\ hd_is p b = false.
Proof.
  induction l as [|c l IH]; intros a b H; simpl in H.
  - inversion H; subst. auto.
  - destruct (p c) eqn:E.
    + destruct (span p l) as [a' b'] eqn:S. inversion H; subst.
      destruct (IH _ _ eq_refl) as (H1 & H2 & H3). subst l. simpl. rewrite E, H2. auto.
    + inversion H; subst. simpl. rewrite E. auto.
Qed.

Lemma span_app : forall p a b, forallb p a = true -> hd_is p b = false -> span p (a ++ b) = (a, b).
Proof.
  induction a as [|c a IH]; intros b Ha Hb; simpl in *.
  - destruct b as [|d b]; simpl in *; [reflexivity | rewrite Hb; reflexivity].
  - apply andb_prop in Ha. destruct Ha as [Hc Ha]. rewrite Hc, (IH b Ha Hb). reflexivity.
Qed.

Lemma span_all : forall p l a, span p l = (a, []) -> a = l /\ forallb p l = true.
Proof.
  intros p l a H. destruct (span_spec _ _ _ _ H) as (H1 & H2 & _).
  rewrite app_nil_r in H1. subst. auto.
Qed.

Lemma hd_is_app_nonempty : forall p (a b : list N), a <> [] -> hd_is p (a ++ b) = hd_is p a.
Proof. intros p [|c a] b H; [congruence | reflexivity]. Qed.

Local Opaque span.

(* what may follow: either nothing or a character accepted by follow1 *)
Definition follows (t : tok) (rest : list N) : Prop :=
  match rest with [] => True | c :: _ => follow1 t c = true end.

(* ---- character facts ------------------------------------------------------ *)

Lemma is_num_suffix_letter : forall c, is_num_suffix c = true -> is_letter c = true \/ c = 95.
Proof.
  intros c H. unfold is_num_suffix in H.
  repeat (apply orb_prop in H; destruct H as [H | H]);
    apply N.eqb_eq in H; subst; auto.
Qed.

Lemma not_suffix : forall c, is_letter c = false -> (c =? 95) = false -> is_num_suffix c = false.
Proof.
  intros c H1 H2. destruct (is_num_suffix c) eqn:E; [|reflexivity].
  destruct (is_num_suffix_letter _ E) as [H | H]; [congruence|].
  subst. discriminate.
Qed.

Lemma digit_not_46 : forall c, is_digit c = true -> (c =? 46) = false.
Proof.
  intros c H. unfold is_digit in H. apply andb_prop in H. destruct H as [H _].
  apply N.leb_le in H. apply N.eqb_neq. lia.
Qed.

Lemma digit_lt_256 : forall c, is_digit c = true -> (lit_base <=? c) = false.
Proof.
  intros c H. unfold is_digit in H. apply andb_prop in H. destruct H as [_ H].
  apply N.leb_le in H. apply N.leb_gt. unfold lit_base. lia.
Qed.

Lemma digit_not_letter : forall c, is_digit c = true -> is_letter c = false.
Proof.
  intros c H. unfold is_digit in H. apply andb_prop in H. destruct H as [H1 H2].
  apply N.leb_le in H1, H2. unfold is_letter.
  apply orb_false_intro; apply andb_false_intro1; apply N.leb_gt; lia.
Qed.

(* ---- scan1 on a token followed by an allowed character ------------------ *)

Ltac break_eqb :=
  repeat match goal with
  | |- context [N.eqb ?c ?k] =>
    lazymatch c with
    | N0 => fail | Npos _ => fail
    | _ => destruct (N.eqb c k) eqn:?
    end
  end.

Lemma scan1_op : forall o rest, follows (TOp o) rest ->
  scan1 (spell (TOp o) ++ rest) = Some (TOp o, rest).
Proof.
  intros o rest H. destruct rest as [|c r].
  - destruct o; reflexivity.
  - simpl in H. destruct o; cbn in *; try reflexivity;
      break_eqb; simpl in *; try discriminate; reflexivity.
Qed.

Lemma scan1_punct : forall p rest, follows (TP p) rest ->
  scan1 (spell (TP p) ++ rest) = Some (TP p, rest).
Proof.
  intros p rest H. destruct rest as [|c r].
  - destruct p; reflexivity.
  - simpl in H. destruct p; cbn in *; try reflexivity.
    destruct (is_digit c) eqn:D; simpl in H; [discriminate|].
    unfold next_is. simpl. destruct (c =? 46) eqn:E; simpl in H; [discriminate|]. reflexivity.
Qed.

Lemma scan1_bottom : forall rest, scan1 (spell TBottom ++ rest) = Some (TBottom, rest).
Proof. reflexivity. Qed.

Lemma scan1_lit : forall id rest, scan1 (spell (TLit id) ++ rest) = Some (TLit id, rest).
Proof.
  intros id rest. change (spell (TLit id) ++ rest) with ((lit_base + id) :: rest).
  remember (lit_base + id) as x eqn:Ex.
  assert (G : 256 <= x) by (subst; unfold lit_base; lia).
  assert (D : is_digit x = false).
  { unfold is_digit. apply andb_false_intro2. apply N.leb_gt. lia. }
  assert (L : is_letter x = false).
  { unfold is_letter. apply orb_false_intro; apply andb_false_intro2; apply N.leb_gt; lia. }
  unfold scan1. rewrite D, L.
  replace (x =? 36) with false by (symmetry; apply N.eqb_neq; lia).
  replace (x =? 35) with false by (symmetry; apply N.eqb_neq; lia).
  simpl. replace (lit_base <=? x) with true by (symmetry; apply N.leb_le; unfold lit_base; lia).
  f_equal. f_equal. f_equal. subst x. unfold lit_base. lia.
Qed.

(* numbers *)
Lemma scan_number_shape : forall cs t r, scan_number cs = Some (t, r) ->
  (exists s, t = TInt s) \/ (exists s, t = TFloat s).
Proof.
  intros cs t r H. unfold scan_number in H.
  destruct (span is_digit cs) as [ds r0].
  destruct (lead_zero ds); [discriminate|].
  destruct (next_is 46 r0).
  - destruct (next_is 46 (tl r0)).
    + inversion H; eauto.
    + destruct (span is_digit (tl r0)) as [fs r3]. destruct (bad_after_num r3); inversion H; eauto.
  - destruct (bad_after_num r0); inversion H; eauto.
Qed.

Lemma follows_int_facts : forall s c, follow1 (TInt s) c = true ->
  is_digit c = false /\ is_letter c = false /\ (c =? 95) = false /\ (c =? 46) = false.
Proof.
  intros s c H. simpl in H. apply negb_true_iff in H.
  repeat (apply orb_false_elim in H; destruct H as [H ?]). auto.
Qed.

Lemma scan1_int : forall s rest, tok_wf (TInt s) -> follows (TInt s) rest ->
  scan1 (spell (TInt s) ++ rest) = Some (TInt s, rest).
Proof.
  intros s rest W F. unfold tok_wf in W. cbn [spell] in *.
  destruct s as [|c0 s']; [discriminate|].
  cbn [app]. unfold scan1 in *.
  destruct (is_digit c0) eqn:D0.
  - (* scan_number *)
    unfold scan_number in *.
    destruct (span is_digit (c0 :: s')) as [ds r] eqn:S.
    destruct (lead_zero ds) eqn:LZ; [discriminate|].
    destruct (next_is 46 r) eqn:N1.
    + destruct (next_is 46 (tl r)).
      * inversion W; subst. discriminate.
      * destruct (span is_digit (tl r)) as [fs r3]. destruct (bad_after_num r3); discriminate.
    + destruct (bad_after_num r) eqn:B; [discriminate|]. inversion W; subst.
      destruct (span_all _ _ _ S) as [_ A].
      assert (S' : span is_digit ((c0 :: s') ++ rest) = (c0 :: s', rest)).
      { apply span_app; [exact A|]. destruct rest as [|c r]; [reflexivity|].
        unfold follows in F. simpl. apply follows_int_facts in F.
        tauto. }
      change (c0 :: s' ++ rest) with ((c0 :: s') ++ rest). rewrite S', LZ.
      destruct rest as [|c r]; [reflexivity|].
      unfold follows in F. apply follows_int_facts in F. destruct F as (F1 & F2 & F3 & F4).
      unfold next_is, bad_after_num. simpl. rewrite F4, (not_suffix _ F2 F3). reflexivity.
  - exfalso.
    destruct (is_letter c0 || (c0 =? 36) || (c0 =? 35)).
    { destruct (scan_field_ident (c0 :: s')) as [lit r'].
      match type of W with (if ?b then _ else _) = _ => destruct b end; discriminate. }
    destruct (lit_base <=? c0); [discriminate|].
    destruct (c0 =? 95).
    { destruct (next_is 124 s' && next_is 95 (tl s')); [discriminate|].
      destruct (scan_field_ident s') as [lit r'].
      match type of W with (if ?b then _ else _) = _ => destruct b end; discriminate. }
    repeat match type of W with
           | (if ?b then _ else _) = _ => destruct b; try discriminate
           | (let (_, _) := ?x in _) = _ => destruct x
           end.
Qed.

Lemma follows_float_facts : forall s c, follow1 (TFloat s) c = true ->
  is_digit c = false /\ is_letter c = false /\ (c =? 95) = false /\
  (next_is 46 (rev s) && (c =? 46)) = false.
Proof.
  intros s c H. simpl in H. apply andb_prop in H. destruct H as [H H2].
  apply negb_true_iff in H. apply negb_true_iff in H2.
  repeat (apply orb_false_elim in H; destruct H as [H ?]). auto.
Qed.

Lemma next_is_rev_snoc : forall (fs : list N) d c, next_is c (rev (d ++ 46 :: fs)) = true ->
  forallb is_digit fs = true -> c = 46 -> fs = [].
Proof.
  intros fs d c H A E. subst c. destruct fs as [|f fs] using rev_ind; [reflexivity|].
  exfalso. rewrite forallb_app in A. apply andb_prop in A. destruct A as [_ A]. simpl in A.
  rewrite andb_true_r in A.
  replace (d ++ 46 :: fs ++ [f]) with ((d ++ 46 :: fs) ++ [f]) in H by (rewrite <- app_assoc; reflexivity).
  rewrite rev_app_distr in H. simpl in H. unfold next_is in H. simpl in H.
  apply N.eqb_eq in H. subst f. discriminate.
Qed.

Lemma float_tail : forall (d fs rest : list N) s, s = d ++ 46 :: fs -> forallb is_digit fs = true ->
  follows (TFloat s) rest ->
  next_is 46 (fs ++ rest) = false /\ span is_digit (fs ++ rest) = (fs, rest) /\ bad_after_num rest = false.
Proof.
  intros d fs rest s E A F.
  assert (Hr : hd_is is_digit rest = false /\ bad_after_num rest = false /\
               (fs = [] -> next_is 46 rest = false)).
  { destruct rest as [|c r]; [auto|]. unfold follows in F. apply follows_float_facts in F.
    destruct F as (F1 & F2 & F3 & F4). unfold bad_after_num. simpl.
    rewrite F1, (not_suffix _ F2 F3). repeat split; auto.
    intros ->. unfold next_is. simpl. subst s.
    rewrite rev_app_distr in F4. simpl in F4. unfold next_is in F4. simpl in F4. exact F4. }
  destruct Hr as (H1 & H2 & H3). repeat split; auto.
  - destruct fs as [|f fs]; [simpl; auto|]. simpl in A. apply andb_prop in A. destruct A as [A _].
    unfold next_is. simpl. apply digit_not_46; exact A.
  - apply span_app; auto.
Qed.

Lemma scan1_float : forall s rest, tok_wf (TFloat s) -> follows (TFloat s) rest ->
  scan1 (spell (TFloat s) ++ rest) = Some (TFloat s, rest).
Proof.
  intros s rest W F. unfold tok_wf in W. cbn [spell] in *.
  destruct s as [|c0 s']; [discriminate|].
  cbn [app]. unfold scan1 in *.
  destruct (is_digit c0) eqn:D0.
  - unfold scan_number in *.
    destruct (span is_digit (c0 :: s')) as [ds r] eqn:S.
    destruct (lead_zero ds) eqn:LZ; [discriminate|].
    destruct (span_spec _ _ _ _ S) as (E & A & Hr).
    destruct (next_is 46 r) eqn:N1.
    + destruct (next_is 46 (tl r)) eqn:N2.
      * inversion W.
      * destruct (span is_digit (tl r)) as [fs r3] eqn:S2.
        destruct (bad_after_num r3); [discriminate|]. inversion W; subst r3.
        destruct (span_all _ _ _ S2) as [E2 A2]. subst fs.
        destruct r as [|c1 r1]; [discriminate|]. unfold next_is in N1. simpl in N1.
        apply N.eqb_eq in N1. subst c1. cbn [tl] in *.
        assert (Es : c0 :: s' = ds ++ 46 :: r1) by exact E.
        destruct (float_tail ds r1 rest _ Es A2 F) as (T1 & T2 & T3).
        assert (S' : span is_digit ((c0 :: s') ++ rest) = (ds, 46 :: r1 ++ rest)).
        { rewrite Es, <- app_assoc. apply span_app; [exact A | reflexivity]. }
        change (c0 :: s' ++ rest) with ((c0 :: s') ++ rest). rewrite S', LZ.
        unfold next_is at 1. simpl. rewrite T1, T2, T3.
        reflexivity.
    + destruct (bad_after_num r); [discriminate|]. inversion W.
  - destruct (is_letter c0 || (c0 =? 36) || (c0 =? 35)).
    { exfalso. destruct (scan_field_ident (c0 :: s')) as [lit r'].
      match type of W with (if ?b then _ else _) = _ => destruct b end; discriminate. }
    destruct (lit_base <=? c0); [discriminate|].
    destruct (c0 =? 95).
    { exfalso. destruct (next_is 124 s' && next_is 95 (tl s')); [discriminate|].
      destruct (scan_field_ident s') as [lit r'].
      match type of W with (if ?b then _ else _) = _ => destruct b end; discriminate. }
    destruct (c0 =? 58); [discriminate|].
    destruct (c0 =? 63); [discriminate|].
    destruct (c0 =? 126); [discriminate|].
    destruct (c0 =? 46) eqn:E46.
    + apply N.eqb_eq in E46. subst c0.
      destruct (hd_is is_digit s') eqn:HD.
      * destruct (span is_digit s') as [fs r3] eqn:S2.
        destruct (bad_after_num r3); [discriminate|]. inversion W; subst r3.
        destruct (span_all _ _ _ S2) as [E2 A2]. subst fs.
        assert (Es : 46 :: s' = [] ++ 46 :: s') by reflexivity.
        destruct (float_tail [] s' rest _ Es A2 F) as (T1 & T2 & T3).
        assert (HD' : hd_is is_digit (s' ++ rest) = true).
        { destruct s'; [discriminate | exact HD]. }
        rewrite HD', T2, T3. reflexivity.
      * destruct (next_is 46 s'); [destruct (next_is 46 (tl s'))|]; discriminate.
    + exfalso.
      repeat match type of W with
             | (if ?b then _ else _) = _ => destruct b; try discriminate
             end.
Qed.

(* identifiers *)
Lemma follows_ident_facts : forall s c, follow1 (TIdent s) c = true ->
  is_idc c = false /\ (c =? 35) = false /\
  (is_single s && next_is 95 s && (c =? 124)) = false /\
  (is_single s && next_is 35 s && ((lit_base <=? c) || (c =? 34) || (c =? 39))) = false.
Proof.
  intros s c H. simpl in H.
  apply andb_prop in H. destruct H as [H H3].
  apply andb_prop in H. destruct H as [H H2].
  apply negb_true_iff in H. apply negb_true_iff in H2. apply negb_true_iff in H3.
  apply orb_false_elim in H. tauto.
Qed.

Lemma idc_not_digit_false : forall c, is_idc c = false -> is_digit c = false.
Proof.
  intros c H. unfold is_idc in H.
  repeat (apply orb_false_elim in H; destruct H as [H ?]). assumption.
Qed.

(* scan_field_ident on a complete identifier body followed by a non-identifier character *)
Lemma sfi_app : forall s rest, scan_field_ident s = (s, []) ->
  (forall c r, rest = c :: r -> is_idc c = false /\ (c =? 35) = false) ->
  scan_field_ident (s ++ rest) = (s, rest).
Proof.
  intros s rest H F. destruct s as [|c0 s'].
  - simpl. destruct rest as [|c r]; [reflexivity|].
    destruct (F c r eq_refl) as [F1 F2]. unfold scan_field_ident. rewrite F2.
    apply (span_app is_idc [] (c :: r)); [reflexivity | exact F1].
  - simpl in *. destruct (c0 =? 35) eqn:E.
    + apply N.eqb_eq in E. subst c0. destruct s' as [|d s''].
      * simpl. destruct rest as [|c r]; [reflexivity|].
        destruct (F c r eq_refl) as [F1 F2]. rewrite (idc_not_digit_false _ F1).
        pose proof (span_app is_idc [] (c :: r) eq_refl F1) as SP. simpl in SP. rewrite SP. reflexivity.
      * simpl. destruct (is_digit d); [inversion H|].
        destruct (span is_idc (d :: s'')) as [a b] eqn:S. inversion H; subst.
        destruct (span_all _ _ _ S) as [_ A].
        change (d :: s'' ++ rest) with ((d :: s'') ++ rest).
        rewrite (span_app is_idc (d :: s'') rest A); [reflexivity|].
        destruct rest as [|c r]; [reflexivity|]. destruct (F c r eq_refl) as [F1 _]. exact F1.
    + destruct (span is_idc (c0 :: s')) as [a b] eqn:S. inversion H; subst.
      destruct (span_all _ _ _ S) as [_ A].
      change (c0 :: s' ++ rest) with ((c0 :: s') ++ rest).
      rewrite (span_app is_idc (c0 :: s') rest A); [reflexivity|].
      destruct rest as [|c r]; [reflexivity|]. destruct (F c r eq_refl) as [F1 _]. exact F1.
Qed.

Lemma sfi_prefix : forall cs lit r, scan_field_ident cs = (lit, r) -> cs = lit ++ r.
Proof.
  intros cs lit r H. destruct cs as [|c0 s']; simpl in H.
  - inversion H; reflexivity.
  - destruct (c0 =? 35) eqn:E.
    + apply N.eqb_eq in E. subst c0. destruct s' as [|d s''].
      * inversion H; reflexivity.
      * destruct (is_digit d); [inversion H; reflexivity|].
        destruct (span is_idc (d :: s'')) as [a b] eqn:S. inversion H; subst.
        destruct (span_spec _ _ _ _ S) as [E _]. rewrite E. reflexivity.
    + destruct (span is_idc (c0 :: s')) as [a b] eqn:S. inversion H; subst.
      destruct (span_spec _ _ _ _ S) as [E' _]. exact E'.
Qed.

Lemma scan1_ident : forall s rest, tok_wf (TIdent s) -> follows (TIdent s) rest ->
  scan1 (spell (TIdent s) ++ rest) = Some (TIdent s, rest).
Proof.
  intros s rest W F. unfold tok_wf in W. cbn [spell] in *.
  destruct s as [|c0 s']; [discriminate|].
  assert (FF : forall c r, rest = c :: r -> is_idc c = false /\ (c =? 35) = false).
  { intros c r ->. unfold follows in F. apply follows_ident_facts in F. tauto. }
  cbn [app]. unfold scan1 in *.
  destruct (is_digit c0) eqn:D0.
  { exfalso. destruct (scan_number_shape _ _ _ W) as [[x E] | [x E]]; discriminate. }
  destruct (is_letter c0 || (c0 =? 36) || (c0 =? 35)) eqn:L.
  - destruct (scan_field_ident (c0 :: s')) as [lit r'] eqn:S.
    match type of W with (if ?b then _ else _) = _ => destruct b eqn:C end; [discriminate|].
    inversion W; subst lit r'.
    change (c0 :: s' ++ rest) with ((c0 :: s') ++ rest).
    rewrite (sfi_app _ _ S FF).
    destruct rest as [|c r].
    + rewrite C. reflexivity.
    + unfold follows in F. apply follows_ident_facts in F. destruct F as (F1 & F2 & F3 & F4).
      destruct (is_single (c0 :: s')) eqn:SG; [|reflexivity].
      destruct (c0 =? 35) eqn:E35; [|reflexivity].
      simpl. simpl in F4. unfold next_is in F4. simpl in F4. rewrite E35 in F4. simpl in F4.
      rewrite F2. apply orb_false_elim in F4. destruct F4 as [F4 F5].
      apply orb_false_elim in F4. destruct F4 as [F4 F6].
      rewrite F4, F5, F6. reflexivity.
  - destruct (lit_base <=? c0); [discriminate|].
    destruct (c0 =? 95) eqn:E95.
    + apply N.eqb_eq in E95. subst c0.
      destruct (next_is 124 s' && next_is 95 (tl s')) eqn:B; [discriminate|].
      destruct (scan_field_ident s') as [lit r'] eqn:S.
      match type of W with (if ?b then _ else _) = _ => destruct b eqn:C end; [discriminate|].
      inversion W; subst lit r'.
      rewrite (sfi_app _ _ S FF).
      (* the bottom test *)
      assert (B' : next_is 124 (s' ++ rest) && next_is 95 (tl (s' ++ rest)) = false).
      { destruct s' as [|d s''].
        - destruct rest as [|c r]; [reflexivity|]. unfold follows in F.
          apply follows_ident_facts in F. destruct F as (_ & _ & F3 & _).
          simpl in F3. unfold next_is in *. simpl in *. rewrite F3. reflexivity.
        - destruct (next_is 124 (d :: s'')) eqn:N1; [|unfold next_is in *; simpl in *; rewrite N1; reflexivity].
          exfalso. unfold next_is in N1. simpl in N1. apply N.eqb_eq in N1. subst d.
          simpl in S. inversion S. }
      rewrite B'.
      destruct rest as [|c r].
      * rewrite C. reflexivity.
      * unfold follows in F. apply follows_ident_facts in F. destruct F as (F1 & F2 & F3 & F4).
        unfold next_is at 2. simpl. rewrite F2, andb_false_r. reflexivity.
    + exfalso.
      repeat match type of W with
             | (if ?b then _ else _) = _ => destruct b; try discriminate
             | (let (_, _) := ?x in _) = _ => destruct x
             end.
Qed.

Theorem scan1_spell : forall t rest, tok_wf t -> follows t rest ->
  scan1 (spell t ++ rest) = Some (t, rest).
Proof.
  intros [s|s|s|id| |o|p] rest W F.
  - apply scan1_ident; assumption.
  - apply scan1_int; assumption.
  - apply scan1_float; assumption.
  - apply scan1_lit.
  - apply scan1_bottom.
  - apply scan1_op; assumption.
  - apply scan1_punct; assumption.
Qed.

(* ---- the token sequence --------------------------------------------------- *)

Lemma follow1_blank : forall t, follow1 t 32 = true.
Proof.
  intros [s|s|s|id| |o|p]; try reflexivity.
  - simpl. rewrite !andb_false_r. reflexivity.
  - simpl. rewrite andb_false_r. reflexivity.
  - destruct o; reflexivity.
  - destruct p; reflexivity.
Qed.

Lemma wf_spell : forall t, tok_wf t -> exists c r, spell t = c :: r /\ is_blank c = false.
Proof.
  intros t W. unfold tok_wf in W. destruct (spell t) as [|c r] eqn:E; [discriminate|].
  exists c, r. split; [reflexivity|].
  destruct (is_blank c) eqn:B; [|reflexivity].
  unfold is_blank in B. apply N.eqb_eq in B. subst c. discriminate.
Qed.

Lemma skip_blanks_nonblank : forall c r, is_blank c = false -> skip_blanks (c :: r) = c :: r.
Proof. intros c r H. simpl. rewrite H. reflexivity. Qed.

Lemma render_follows : forall prev ts, Forall tok_wf (map snd ts) ->
  separated_from prev ts = true -> follows prev (render ts).
Proof.
  intros prev [|[b t] r] W S; [exact I|].
  simpl in S. apply andb_prop in S. destruct S as [S _].
  inversion W as [|? ? Wt _]; subst. destruct (wf_spell _ Wt) as (c & r' & E & _).
  simpl. destruct b.
  - simpl. apply follow1_blank.
  - simpl in S. unfold needs_sep in S. rewrite E in S. rewrite E. simpl.
    apply negb_true_iff in S. apply negb_false_iff in S. exact S.
Qed.

Lemma separated_tail : forall b t r, separated ((b, t) :: r) = true -> separated r = true.
Proof.
  intros b t [|[b' t'] r] H; [reflexivity|].
  simpl in *. apply andb_prop in H. tauto.
Qed.

Lemma scan_fuel_render : forall ts fuel, Forall tok_wf (map snd ts) ->
  separated ts = true -> (length (render ts) < fuel)%nat ->
  scan_fuel fuel (render ts) = Some (map snd ts).
Proof.
  induction ts as [|[b t] r IH]; intros fuel W S L.
  - destruct fuel; [inversion L|]. reflexivity.
  - inversion W as [|? ? Wt Wr]; subst.
    destruct (wf_spell _ Wt) as (c & r' & E & NB).
    destruct fuel as [|n]; [inversion L|].
    assert (SK : skip_blanks (render ((b, t) :: r)) = spell t ++ render r).
    { simpl. destruct b; simpl; rewrite E; simpl; rewrite NB; reflexivity. }
    cbn [scan_fuel]. rewrite SK.
    destruct (spell t ++ render r) as [|c' rr] eqn:EQ; [rewrite E in EQ; discriminate|].
    rewrite <- EQ.
    rewrite (scan1_spell t (render r) Wt (render_follows t r Wr S)).
    rewrite (IH n Wr (separated_tail _ _ _ S)).
    + reflexivity.
    + simpl in L. destruct b; simpl in L; rewrite app_length, E in L; simpl in L; lia.
Qed.

Theorem scan_render : forall ts, Forall tok_wf (map snd ts) -> separated ts = true ->
  scan (render ts) = Some (map snd ts).
Proof.
  intros ts W S. unfold scan. apply scan_fuel_render; [exact W | exact S | lia].
Qed.

Local Transparent span.

(* ---- the hazardous pairs -------------------------------------------------- *)

(* `<` followed by unary `-` needs a blank: glued, the scanner reads the arrow token *)
Theorem lss_sub_needs_sep :
  needs_sep (TOp LSS) (TOp SUB) = true /\
  scan (render [(false, TOp LSS); (false, TOp SUB); (false, TInt [49])]) = Some [TOp ARROW; TInt [49]] /\
  scan (render [(false, TOp LSS); (true, TOp SUB); (false, TInt [49])]) = Some [TOp LSS; TOp SUB; TInt [49]].
Proof. repeat split; reflexivity. Qed.

(* an INT followed by the selector period needs a blank: glued it is a float *)
Theorem int_period_needs_sep :
  needs_sep (TInt [49]) (TP PERIOD) = true /\
  scan (render [(false, TInt [49]); (false, TP PERIOD); (false, TIdent [97])]) = Some [TFloat [49; 46]; TIdent [97]] /\
  scan (render [(false, TInt [49]); (true, TP PERIOD); (false, TIdent [97])]) = Some [TInt [49]; TP PERIOD; TIdent [97]].
Proof. repeat split; reflexivity. Qed.

(* `_ | _` glued is the bottom token *)
Theorem underscore_or_needs_sep :
  needs_sep (TIdent [95]) (TOp OR) = true /\
  scan (render [(false, TIdent [95]); (false, TOp OR); (false, TIdent [95])]) = Some [TBottom].
Proof. split; reflexivity. Qed.

(* internal/pretty unaryOpMergesWithOperand is exactly the separation table on
   pairs of unary operators ... *)
Definition unops : list op := [EQL; ADD; SUB; NOT; MUL; LSS; LEQ; GEQ; GTR; NEQ; MAT; NMAT].

Theorem v2_unary_merges_exact : forall o o', In o unops -> In o' unops ->
  v2_unary_merges o o' = needs_sep (TOp o) (TOp o').
Proof.
  intros o o' H H'. simpl in H, H'.
  repeat (destruct H as [<- | H]; [repeat (destruct H' as [<- | H']; [reflexivity|]); contradiction|]).
  contradiction.
Qed.

(* ... and since the fix (opCombinesWith) printer.go mayCombine covers every pair of
   unary operators that needs a blank (it also separates `+ +` and `- -`, which do not) *)
Theorem v1_may_combine_complete : forall o o', In o unops -> In o' unops ->
  needs_sep (TOp o) (TOp o') = true -> v1_may_combine (TOp o) (TOp o') = true.
Proof.
  intros o o' H H'. simpl in H, H'.
  repeat (destruct H as [<- | H];
          [repeat (destruct H' as [<- | H']; [vm_compute; intros A; try discriminate A; reflexivity|]);
           contradiction|]).
  contradiction.
Qed.

(* the seven pairs the printer used to glue (finding K1, fixed) *)
Definition v1_missed : list (op * op) :=
  [(NOT, EQL); (LSS, EQL); (GTR, EQL); (LSS, SUB); (NOT, MAT); (LSS, MAT); (GTR, MAT)].

Theorem v1_formerly_missed_now_separated : forall o o', In (o, o') v1_missed ->
  needs_sep (TOp o) (TOp o') = true /\ v1_may_combine (TOp o) (TOp o') = true.
Proof.
  intros o o' H. simpl in H.
  repeat (destruct H as [H | H]; [inversion H; subst; split; reflexivity|]). contradiction.
Qed.

(* mayCombine covers the INT / period pair, the pretty printer has no such case *)
Theorem v1_covers_int_period : forall s, v1_may_combine (TInt s) (TP PERIOD) = true.
Proof. reflexivity. Qed.
