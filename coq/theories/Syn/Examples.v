(* Syn/Examples.v - concrete instances showing the hypotheses of the C08 theorems are met *)
From Coq Require Import List NArith Bool Arith Lia.
From Verif Require Import Syn.Lex Syn.LexProofs Syn.Expr Syn.Basics Syn.Proofs Syn.Space.
Import ListNotations.

Definition id (c : N) := EAtom (TIdent [c]).
Definition num (c : N) := EAtom (TInt [c]).

(* f(a + b*c, -x)[0].y | (p & q) == !(z < 1.5)  -- with explicit parentheses where the parser puts them *)
Definition ex_tree : expr :=
  EBin OR
    (ESel (EIdx (ECall (id 102) [EBin ADD (id 97) (EBin MUL (id 98) (id 99)); EUn SUB (id 120)]) (num 48)) (TIdent [121%N]))
    (EBin EQL (EParen (EBin AND (id 112) (id 113)))
              (EUn NOT (EParen (EBin LSS (id 122) (EAtom (TFloat [49; 46; 53]%N)))))).

Lemma ex_wf_tree : wf ex_tree /\ parse (print1 ex_tree) = Some ex_tree /\ length (print1 ex_tree) = 29.
Proof.
  split; [|split; vm_compute; reflexivity].
  unfold wf. simpl. unfold unary_prec, highest_prec. repeat split; auto; try lia; try discriminate.
Qed.

(* (((a+b))) * (c) . d  ( ((e)) , ) *)
Definition ex_soup : list tok :=
  [TP LPAREN; TP LPAREN; TP LPAREN; TIdent [97%N]; TOp ADD; TIdent [98%N]; TP RPAREN; TP RPAREN; TP RPAREN;
   TOp MUL; TP LPAREN; TP LPAREN; TIdent [99%N]; TP RPAREN; TP RPAREN].
Definition ex_soup_tree : expr :=
  EBin MUL (EParen (EParen (EParen (EBin ADD (id 97) (id 98))))) (EParen (EParen (id 99))).
Definition ex_soup_fmt : list tok :=
  [TP LPAREN; TIdent [97%N]; TOp ADD; TIdent [98%N]; TP RPAREN; TOp MUL; TP LPAREN; TIdent [99%N]; TP RPAREN] ++ [] .

Lemma ex_redundant_parens :
  parse ex_soup = Some ex_soup_tree /\ fmt1 ex_soup = Some ex_soup_fmt /\ fmt2 ex_soup = Some ex_soup_fmt /\
  fmt1 ex_soup_fmt = Some ex_soup_fmt /\ parse ex_soup_fmt = Some (collapse ex_soup_tree) /\
  collapse ex_soup_tree <> ex_soup_tree /\ length ex_soup = 15 /\ length ex_soup_fmt = 9.
Proof. repeat split; try (vm_compute; reflexivity). intro H; vm_compute in H; discriminate. Qed.

(* x< -1&&y  with the one necessary blank *)
Definition ex_sep : list (bool * tok) :=
  [(false, TIdent [120%N]); (false, TOp LSS); (true, TOp SUB); (false, TInt [49%N]); (false, TOp LAND); (false, TIdent [121%N])].

Lemma ex_separated :
  Forall tok_wf (map snd ex_sep) /\ separated ex_sep = true /\ scan (render ex_sep) = Some (map snd ex_sep) /\
  sep_ok (sp1 ex_tree 0) = true /\ sep_ok (sp2 MDisp ex_tree) = true /\ Forall tok_wf (print1 ex_tree).
Proof. vm_compute. repeat split; try reflexivity; repeat constructor. Qed.
