(* Syn/Basics.v - induction principle, tree shapes, fuel monotonicity of the parser model. *)
From Coq Require Import List NArith Bool Arith Lia.
From Verif Require Import Syn.Lex Syn.Expr.
Import ListNotations.
Open Scope nat_scope.

(* ---- induction principle for the nested type --------------------------- *)

Section All.
  Context {A : Type} (P : A -> Prop).
  Fixpoint All (l : list A) : Prop :=
    match l with [] => True | a :: l' => P a /\ All l' end.
End All.

Lemma All_Forall : forall A (P : A -> Prop) l, All P l <-> Forall P l.
Proof.
  induction l; simpl; split; intros H; auto.
  - destruct H; constructor; tauto.
  - inversion H; subst; tauto.
Qed.

Lemma All_impl : forall A (P Q : A -> Prop) l, (forall a, P a -> Q a) -> All P l -> All Q l.
Proof. induction l; simpl; intros; tauto || (destruct H0; split; auto). Qed.

Section expr_ind2.
  Variable P : expr -> Prop.
  Hypothesis Hatom : forall t, P (EAtom t).
  Hypothesis Hbin : forall o x y, P x -> P y -> P (EBin o x y).
  Hypothesis Hun : forall o x, P x -> P (EUn o x).
  Hypothesis Hsel : forall x l, P x -> P (ESel x l).
  Hypothesis Hidx : forall x i, P x -> P i -> P (EIdx x i).
  Hypothesis Hcall : forall f a, P f -> All P a -> P (ECall f a).
  Hypothesis Hparen : forall x, P x -> P (EParen x).

  Fixpoint expr_ind2 (e : expr) : P e :=
    match e with
    | EAtom t => Hatom t
    | EBin o x y => Hbin o x y (expr_ind2 x) (expr_ind2 y)
    | EUn o x => Hun o x (expr_ind2 x)
    | ESel x l => Hsel x l (expr_ind2 x)
    | EIdx x i => Hidx x i (expr_ind2 x) (expr_ind2 i)
    | ECall f a =>
      Hcall f a (expr_ind2 f)
            ((fix go (l : list expr) : All P l :=
                match l with
                | [] => I
                | x :: l' => conj (expr_ind2 x) (go l')
                end) a)
    | EParen x => Hparen x (expr_ind2 x)
    end.
End expr_ind2.

(* ---- shapes ------------------------------------------------------------ *)

(* [shape true]  : exactly the trees the parser produces for printer output
   [shape false] : the trees the parser produces (nested parentheses allowed) *)
Fixpoint shape (strict : bool) (e : expr) : Prop :=
  match e with
  | EAtom t => is_atom t = true
  | EBin o x y =>
    1 <= binprec o /\ binprec o <= level x /\ S (binprec o) <= level y /\
    shape strict x /\ shape strict y
  | EUn o x => is_unop o = true /\ unary_prec <= level x /\ shape strict x
  | ESel x l => is_sel l = true /\ level x = highest_prec /\ shape strict x
  | EIdx x i => level x = highest_prec /\ shape strict x /\ shape strict i
  | ECall f a => level f = highest_prec /\ shape strict f /\ All (shape strict) a
  | EParen x => (strict = true -> is_paren x = false) /\ shape strict x
  end.

Definition wf := shape true.
Definition pwf := shape false.

(* operators and atoms are of the right class; no constraint on the tree shape *)
Fixpoint valid (e : expr) : Prop :=
  match e with
  | EAtom t => is_atom t = true
  | EBin o x y => 1 <= binprec o /\ valid x /\ valid y
  | EUn o x => is_unop o = true /\ valid x
  | ESel x l => is_sel l = true /\ valid x
  | EIdx x i => valid x /\ valid i
  | ECall f a => valid f /\ All valid a
  | EParen x => valid x
  end.

Fixpoint noparen (e : expr) : Prop :=
  match e with
  | EAtom _ => True
  | EBin _ x y => noparen x /\ noparen y
  | EUn _ x => noparen x
  | ESel x _ => noparen x
  | EIdx x i => noparen x /\ noparen i
  | ECall f a => noparen f /\ All noparen a
  | EParen _ => False
  end.

Lemma binprec_le7 : forall o, binprec o <= 7.
Proof. destruct o; simpl; lia. Qed.

Lemma level_le9 : forall e, level e <= 9.
Proof. destruct e; simpl; unfold unary_prec, highest_prec; try lia. pose proof (binprec_le7 o). lia. Qed.

Lemma shape_level_ge1 : forall s e, shape s e -> 1 <= level e.
Proof. destruct e; simpl; unfold unary_prec, highest_prec; intros; try lia; tauto. Qed.

Lemma shape_weaken : forall e, wf e -> pwf e.
Proof.
  unfold wf, pwf. induction e using expr_ind2; simpl; intros; try tauto.
  destruct H0 as (? & ? & A). repeat split; auto.
  clear -H A. induction a; simpl in *; [exact I|]. destruct H, A. split; auto.
Qed.

Lemma shape_valid : forall s e, shape s e -> valid e.
Proof.
  induction e using expr_ind2; simpl; intros; try tauto.
  destruct H0 as (? & ? & A). split; auto.
  clear -H A. induction a; simpl in *; [exact I|]. destruct H, A. split; auto.
Qed.

(* ---- printing: elementary facts ---------------------------------------- *)

Fixpoint sepcat (l : list (list tok)) : list tok :=
  match l with
  | [] => []
  | x :: l' => match l' with [] => x | _ => x ++ TP COMMA :: sepcat l' end
  end.

Lemma pr1_call : forall f a q,
  pr1 (ECall f a) q = pr1 f highest_prec ++ TP LPAREN :: sepcat (map (fun x => pr1 x 0) a) ++ [TP RPAREN].
Proof.
  intros f a q. simpl. f_equal. f_equal. f_equal.
  induction a as [|x l IH]; [reflexivity|]. simpl. destruct l; [reflexivity|].
  rewrite IH. reflexivity.
Qed.

Lemma pr1_level : forall e q q', q <= level e -> q' <= level e -> pr1 e q = pr1 e q'.
Proof.
  intros [t|o x y|o x|x l|x i|f a|x] q q' H H'; try reflexivity; simpl in *.
  - replace (binprec o <? q) with false by (symmetry; apply Nat.ltb_ge; lia).
    replace (binprec o <? q') with false by (symmetry; apply Nat.ltb_ge; lia). reflexivity.
  - replace (unary_prec <? q) with false by (symmetry; apply Nat.ltb_ge; lia).
    replace (unary_prec <? q') with false by (symmetry; apply Nat.ltb_ge; lia). reflexivity.
Qed.

Lemma pr1_nonempty : forall e q, 1 <= length (pr1 e q).
Proof.
  induction e using expr_ind2; intros q; simpl.
  - lia.
  - destruct (binprec o <? q); unfold paren; simpl; rewrite ?app_length; simpl;
      rewrite ?app_length; simpl; specialize (IHe1 (binprec o)); lia.
  - destruct (unary_prec <? q); unfold paren; simpl; rewrite ?app_length; simpl; lia.
  - rewrite app_length. simpl. lia.
  - rewrite app_length. simpl. lia.
  - rewrite app_length. simpl. lia.
  - destruct (is_paren e); [apply IHe|]. unfold paren. simpl. lia.
Qed.

(* the first token of a printed well-shaped expression is no closing parenthesis *)
Lemma pr1_head : forall e q, valid e -> exists t ts, pr1 e q = t :: ts /\ t <> TP RPAREN.
Proof.
  induction e using expr_ind2; intros q V; simpl in V.
  - exists t, []. split; [reflexivity|]. destruct t; simpl in V; discriminate.
  - destruct V as (_ & V1 & _). destruct (IHe1 (binprec o) V1) as (t & ts & E & N).
    simpl. rewrite E. destruct (binprec o <? q).
    + eexists _, _. split; [reflexivity | discriminate].
    + eexists _, _. split; [reflexivity | exact N].
  - simpl. destruct (unary_prec <? q); eexists _, _; (split; [reflexivity | discriminate]).
  - destruct V as (_ & V1). destruct (IHe highest_prec V1) as (t & ts & E & N).
    simpl. rewrite E. eexists _, _. split; [reflexivity | exact N].
  - destruct V as (V1 & _). destruct (IHe1 highest_prec V1) as (t & ts & E & N).
    simpl. rewrite E. eexists _, _. split; [reflexivity | exact N].
  - destruct V as (V1 & _). destruct (IHe highest_prec V1) as (t & ts & E & N).
    rewrite pr1_call, E. eexists _, _. split; [reflexivity | exact N].
  - simpl. destruct (is_paren e).
    + apply IHe; exact V.
    + eexists _, _. split; [reflexivity | discriminate].
Qed.

(* ---- the parser is monotone in its fuel -------------------------------- *)

Definition mono_stmt (n : nat) : Prop :=
  (forall ts res, p_unary n ts = Some res -> forall m, n <= m -> p_unary m ts = Some res) /\
  (forall ts res, p_operand n ts = Some res -> forall m, n <= m -> p_operand m ts = Some res) /\
  (forall x ts res, p_ptail n x ts = Some res -> forall m, n <= m -> p_ptail m x ts = Some res) /\
  (forall ts res, p_args n ts = Some res -> forall m, n <= m -> p_args m ts = Some res) /\
  (forall q ts res, p_binary n q ts = Some res -> forall m, n <= m -> p_binary m q ts = Some res) /\
  (forall q x ts res, p_btail n q x ts = Some res -> forall m, n <= m -> p_btail m q x ts = Some res).

Ltac mono_loop Iu Io Ip Ia Ib It m Hle :=
  repeat match goal with
  | H : (match ?x with _ => _ end) = Some _ |- _ =>
    lazymatch x with
    | p_unary _ _ => let E := fresh "E" in destruct x as [[? ?]|] eqn:E; [rewrite (Iu _ _ E m Hle) | discriminate H]
    | p_operand _ _ => let E := fresh "E" in destruct x as [[? ?]|] eqn:E; [rewrite (Io _ _ E m Hle) | discriminate H]
    | p_ptail _ _ _ => let E := fresh "E" in destruct x as [[? ?]|] eqn:E; [rewrite (Ip _ _ _ E m Hle) | discriminate H]
    | p_args _ _ => let E := fresh "E" in destruct x as [[? ?]|] eqn:E; [rewrite (Ia _ _ E m Hle) | discriminate H]
    | p_binary _ _ _ => let E := fresh "E" in destruct x as [[? ?]|] eqn:E; [rewrite (Ib _ _ _ E m Hle) | discriminate H]
    | p_btail _ _ _ _ => let E := fresh "E" in destruct x as [[? ?]|] eqn:E; [rewrite (It _ _ _ _ E m Hle) | discriminate H]
    | _ => destruct x eqn:?; try discriminate H
    end
  end.

Lemma p_mono : forall n, mono_stmt n.
Proof.
  induction n as [|n IH]; unfold mono_stmt.
  - repeat split; intros; discriminate.
  - destruct IH as (Iu & Io & Ip & Ia & Ib & It).
    repeat split; intros until m; intros Hm; (destruct m as [|m]; [lia|]);
      assert (Hle : n <= m) by lia; simpl in *;
      mono_loop Iu Io Ip Ia Ib It m Hle; eauto.
Qed.

Lemma mono_u : forall n m ts res, p_unary n ts = Some res -> n <= m -> p_unary m ts = Some res.
Proof. intros n m ts res H L. exact (proj1 (p_mono n) ts res H m L). Qed.
Lemma mono_p : forall n m x ts res, p_ptail n x ts = Some res -> n <= m -> p_ptail m x ts = Some res.
Proof. intros n m x ts res H L. exact (proj1 (proj2 (proj2 (p_mono n))) x ts res H m L). Qed.
Lemma mono_a : forall n m ts res, p_args n ts = Some res -> n <= m -> p_args m ts = Some res.
Proof. intros n m ts res H L. exact (proj1 (proj2 (proj2 (proj2 (p_mono n)))) ts res H m L). Qed.
Lemma mono_b : forall n m q ts res, p_binary n q ts = Some res -> n <= m -> p_binary m q ts = Some res.
Proof. intros n m q ts res H L. exact (proj1 (proj2 (proj2 (proj2 (proj2 (p_mono n))))) q ts res H m L). Qed.
Lemma mono_t : forall n m q x ts res, p_btail n q x ts = Some res -> n <= m -> p_btail m q x ts = Some res.
Proof. intros n m q x ts res H L. exact (proj2 (proj2 (proj2 (proj2 (proj2 (p_mono n))))) q x ts res H m L). Qed.

(* one-step unfoldings *)
Lemma p_unary_S : forall n ts, p_unary (S n) ts =
  match ts with
  | TOp o :: r =>
    if is_unop o then
      match p_unary n r with Some (x, r') => Some (EUn o x, r') | None => None end
    else None
  | _ => match p_operand n ts with Some (x, r) => p_ptail n x r | None => None end
  end.
Proof. reflexivity. Qed.

Lemma p_operand_S : forall n ts, p_operand (S n) ts =
  match ts with
  | TP LPAREN :: r =>
    match p_binary n 1 r with
    | Some (x, TP RPAREN :: r') => Some (EParen x, r')
    | _ => None
    end
  | t :: r => if is_atom t then Some (EAtom t, r) else None
  | [] => None
  end.
Proof. reflexivity. Qed.

Lemma p_ptail_S : forall n x ts, p_ptail (S n) x ts =
  match ts with
  | TP PERIOD :: r =>
    match r with
    | l :: r' => if is_sel l then p_ptail n (ESel x l) r' else None
    | [] => None
    end
  | TP LBRACK :: r =>
    match p_binary n 1 r with
    | Some (i, TP RBRACK :: r') => p_ptail n (EIdx x i) r'
    | Some (i, TP COMMA :: TP RBRACK :: r') => p_ptail n (EIdx x i) r'
    | _ => None
    end
  | TP LPAREN :: r =>
    match p_args n r with
    | Some (a, r') => p_ptail n (ECall x a) r'
    | None => None
    end
  | _ => Some (x, ts)
  end.
Proof. reflexivity. Qed.

Lemma p_args_S : forall n ts, p_args (S n) ts =
  match ts with
  | TP RPAREN :: r => Some ([], r)
  | _ =>
    match p_binary n 1 ts with
    | Some (a, TP COMMA :: r) =>
      match p_args n r with Some (l, r') => Some (a :: l, r') | None => None end
    | Some (a, TP RPAREN :: r) => Some ([a], r)
    | _ => None
    end
  end.
Proof. reflexivity. Qed.

Lemma p_binary_S : forall n q ts, p_binary (S n) q ts =
  match p_unary n ts with Some (x, r) => p_btail n q x r | None => None end.
Proof. reflexivity. Qed.

Lemma p_btail_S : forall n q x ts, p_btail (S n) q x ts =
  match ts with
  | TOp o :: r =>
    if q <=? binprec o then
      match p_binary n (S (binprec o)) r with
      | Some (y, r') => p_btail n q (EBin o x y) r'
      | None => None
      end
    else Some (x, ts)
  | _ => Some (x, ts)
  end.
Proof. reflexivity. Qed.

