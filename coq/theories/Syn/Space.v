(* Syn/Space.v - blanks: when does the printed text scan back to the printed tokens *)
From Coq Require Import List NArith Bool Arith Lia.
From Verif Require Import Syn.Lex Syn.LexProofs Syn.Expr Syn.Basics Syn.Proofs.
Import ListNotations.
Open Scope nat_scope.

Lemma map_snd_set_first : forall s l, map snd (set_first s l) = map (@snd sp tok) l.
Proof. intros s [|[s' t] r]; reflexivity. Qed.

Lemma map_snd_sparen : forall l, map snd (sparen l) = paren (map (@snd sp tok) l).
Proof.
  intros l. unfold sparen, paren. simpl. rewrite map_app, map_snd_set_first. reflexivity.
Qed.

(* the spacing printers print the same tokens as the plain printers *)
Lemma sp1_toks : forall e q, map snd (sp1 e q) = pr1 e q.
Proof.
  induction e using expr_ind2; intros q; simpl.
  - reflexivity.
  - destruct (binprec o <? q); rewrite ?map_snd_sparen; rewrite map_app; simpl;
      rewrite map_snd_set_first, IHe1, IHe2; reflexivity.
  - destruct (unary_prec <? q); rewrite ?map_snd_sparen; simpl; rewrite map_snd_set_first, IHe; reflexivity.
  - rewrite map_app, IHe. reflexivity.
  - rewrite map_app. simpl. rewrite map_app, map_snd_set_first, IHe1, IHe2. reflexivity.
  - rewrite map_app. simpl. rewrite map_app, IHe. simpl. f_equal. f_equal. f_equal.
    generalize true. clear -H. induction a as [|x l IH]; intros b; [reflexivity|].
    simpl in H. destruct H as [Hx Hl]. simpl.
    destruct l as [|y l'].
    + rewrite map_snd_set_first. apply Hx.
    + rewrite map_app. simpl. rewrite map_snd_set_first, Hx. rewrite (IH Hl false). reflexivity.
  - destruct (is_paren e); [apply IHe|]. rewrite map_snd_sparen, IHe. reflexivity.
Qed.

Lemma sp2_toks : forall e m, map snd (sp2 m e) = pr2 m e.
Proof.
  induction e using expr_ind2; intros m.
  - reflexivity.
  - cbn [sp2 pr2].
    assert (PB : map snd (sp2 (MOperand (binprec o)) e1 ++
                          (bin_sp o, TOp o) :: set_first (bin_sp o) (sp2 (MOperand (S (binprec o))) e2))
                 = pr2 (MOperand (binprec o)) e1 ++ TOp o :: pr2 (MOperand (S (binprec o))) e2).
    { rewrite map_app. simpl. rewrite map_snd_set_first, IHe1, IHe2. reflexivity. }
    assert (CB : map snd (sp2 (MChain o) e1 ++ (Blank, TOp o) :: set_first Blank (sp2 (MChain o) e2))
                 = pr2 (MChain o) e1 ++ TOp o :: pr2 (MChain o) e2).
    { rewrite map_app. simpl. rewrite map_snd_set_first, IHe1, IHe2. reflexivity. }
    destruct m as [|o'|q].
    + destruct (chain_case o (EBin o e1 e2)); assumption.
    + destruct (op_eqb o o'); [exact CB|].
      destruct (binprec o <? binprec o'); rewrite ?map_snd_sparen;
        destruct (chain_case o (EBin o e1 e2)); rewrite ?PB, ?CB; reflexivity.
    + destruct (q <=? binprec o); [exact PB|]. rewrite map_snd_sparen.
      destruct (chain_case o (EBin o e1 e2)); rewrite ?PB, ?CB; reflexivity.
  - assert (B : forall s, map snd ((Glue, TOp o) :: set_first s (sp2 (MOperand unary_prec) e))
                      = TOp o :: pr2 (MOperand unary_prec) e).
    { intros s. simpl. rewrite map_snd_set_first, IHe. reflexivity. }
    cbn [sp2 pr2]. destruct m as [|o'|q]; try apply B.
    destruct (unary_prec <? q); [rewrite map_snd_sparen|]; rewrite B; reflexivity.
  - simpl. rewrite map_app, IHe. reflexivity.
  - simpl. rewrite map_app. simpl. rewrite map_app, map_snd_set_first, IHe1, IHe2. reflexivity.
  - simpl. rewrite map_app. simpl. rewrite map_app, IHe. simpl. f_equal. f_equal. f_equal.
    generalize true. clear -H. induction a as [|x l IH]; intros b; [reflexivity|].
    simpl in H. destruct H as [Hx Hl]. simpl.
    destruct l as [|y l'].
    + rewrite map_snd_set_first. apply Hx.
    + rewrite map_app. simpl. rewrite map_snd_set_first, Hx. rewrite (IH Hl false). reflexivity.
  - simpl. destruct (is_paren e); [apply IHe|]. rewrite map_snd_sparen, IHe. reflexivity.
Qed.

(* every pair that is not separated by a modelled blank is safe without one
   (layout-dependent pairs are treated as if they were printed without a blank) *)
Fixpoint sep_ok_from (prev : tok) (l : list (sp * tok)) : bool :=
  match l with
  | [] => true
  | (s, t) :: r =>
    (match s with Blank => true | _ => negb (needs_sep prev t) end) && sep_ok_from t r
  end.

Definition sep_ok (l : list (sp * tok)) : bool :=
  match l with [] => true | (_, t) :: r => sep_ok_from t r end.

Lemma resolve_toks : forall ch l i, map snd (resolve ch i l) = map snd l.
Proof. induction l as [|[s t] r IH]; intros i; simpl; [reflexivity | rewrite IH; reflexivity]. Qed.

Lemma sep_ok_separated_from : forall ch l prev i, sep_ok_from prev l = true ->
  separated_from prev (resolve ch i l) = true.
Proof.
  induction l as [|[s t] r IH]; intros prev i H; [reflexivity|].
  simpl in *. apply andb_prop in H. destruct H as [H1 H2]. rewrite (IH t (S i) H2), andb_true_r.
  destruct s; simpl in *; try reflexivity; rewrite H1; try reflexivity; apply orb_true_r.
Qed.

Lemma sep_ok_separated : forall ch l, sep_ok l = true -> separated (resolve ch 0 l) = true.
Proof.
  intros ch [|[s t] r] H; [reflexivity|]. simpl in *. apply sep_ok_separated_from. exact H.
Qed.

(* whatever the layout engine decides for the open positions, the text scans
   back to exactly the printed tokens *)
Theorem sp_scan : forall l, Forall tok_wf (map snd l) -> sep_ok l = true ->
  forall ch, scan (render (resolve ch 0 l)) = Some (map snd l).
Proof.
  intros l W S ch. rewrite <- (resolve_toks ch l 0). apply scan_render.
  - rewrite resolve_toks. exact W.
  - apply sep_ok_separated. exact S.
Qed.

Theorem v1_text_reads_back : forall e, valid e -> Forall tok_wf (print1 e) ->
  sep_ok (sp1 e 0) = true -> forall ch,
  scan (render (resolve ch 0 (sp1 e 0))) = Some (print1 e) /\ parse (print1 e) = Some (canon e 0).
Proof.
  intros e V W S ch. split; [|apply parse_print1; exact V].
  unfold print1 in *. rewrite <- (sp1_toks e 0) in *. apply sp_scan; assumption.
Qed.

Theorem v2_text_reads_back : forall e, valid e -> v2_safe e = true -> Forall tok_wf (print2 e) ->
  sep_ok (sp2 MDisp e) = true -> forall ch,
  scan (render (resolve ch 0 (sp2 MDisp e))) = Some (print2 e) /\ parse (print2 e) = Some (canon e 0).
Proof.
  intros e V SF W S ch. split.
  - unfold print2 in *. rewrite <- (sp2_toks e MDisp) in *. apply sp_scan; assumption.
  - rewrite (print2_eq_print1_when e SF). apply parse_print1. exact V.
Qed.

(* the former witnesses of the hazardous pairs: both formatters separate them now *)
Definition one := EAtom (TInt [49%N]).

(* K1 (fixed): `< -1` keeps its blank under the old formatter as well *)
Theorem v1_separates_lss_sub :
  let e := EUn LSS (EUn SUB one) in
  valid e /\ Forall tok_wf (print1 e) /\
  hazards (sp1 e 0) = [] /\ sep_ok (sp1 e 0) = true /\
  scan (render (resolve (fun _ => false) 0 (sp1 e 0))) = Some (print1 e) /\
  parse (print1 e) = Some e /\
  hazards (sp2 MDisp e) = [] /\
  scan (render (resolve (fun _ => true) 0 (sp2 MDisp e))) = Some (print2 e).
Proof. vm_compute. repeat split; try reflexivity; repeat constructor. Qed.

(* since the fix of internal/pretty (intLitMergesWithPeriod) V2 separates the pair too *)
Theorem v2_separates_int_period :
  let e := ESel one (TIdent [97%N]) in
  valid e /\ Forall tok_wf (print2 e) /\
  hazards (sp2 MDisp e) = [] /\ sep_ok (sp2 MDisp e) = true /\
  scan (render (resolve (fun _ => false) 0 (sp2 MDisp e))) = Some (print2 e) /\
  parse (print2 e) = Some e /\
  hazards (sp1 e 0) = [] /\
  scan (render (resolve (fun _ => true) 0 (sp1 e 0))) = Some (print1 e).
Proof. vm_compute. repeat split; try reflexivity; repeat constructor. Qed.
