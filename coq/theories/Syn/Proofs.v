(* Syn/Proofs.v - the parser model inverts the printer models. *)
From Coq Require Import List NArith Bool Arith Lia.
From Verif Require Import Syn.Lex Syn.Expr Syn.Basics.
Import ListNotations.
Open Scope nat_scope.

(* ---- the parser reads printed well-shaped trees back -------------------- *)

Definition nopost (r : list tok) : Prop :=
  match r with
  | TP PERIOD :: _ | TP LBRACK :: _ | TP LPAREN :: _ => False
  | _ => True
  end.

Definition lowop (p : nat) (r : list tok) : Prop :=
  match r with TOp o :: _ => binprec o <= p | _ => True end.

Definition stop (q : nat) (r : list tok) : Prop :=
  match r with TOp o :: _ => binprec o < q | _ => True end.

Lemma ptail_stop : forall n x r, nopost r -> p_ptail (S n) x r = Some (x, r).
Proof.
  intros n x r H. rewrite p_ptail_S. destruct r as [|[| | | | |o|[]] r]; simpl in H; try reflexivity; contradiction.
Qed.

Lemma btail_stop : forall n q x r, stop q r -> p_btail (S n) q x r = Some (x, r).
Proof.
  intros n q x r H. rewrite p_btail_S. destruct r as [|[| | | | |o|p] r]; try reflexivity.
  simpl in H. replace (q <=? binprec o) with false by (symmetry; apply Nat.leb_gt; exact H). reflexivity.
Qed.

Fixpoint cost (e : expr) : nat :=
  match e with
  | EAtom _ => 1
  | EBin _ x y => cost x + cost y + 4
  | EUn _ x => cost x + 1
  | ESel x _ => cost x + 1
  | EIdx x i => cost x + cost i + 4
  | ECall f a => cost f + list_sum (map (fun x => cost x + 4) a) + 2
  | EParen x => cost x + 5
  end.

Definition GP (e : expr) : Prop :=
  level e = highest_prec -> forall r m res, p_ptail m e r = Some res ->
  p_unary (m + cost e) (pr1 e highest_prec ++ r) = Some res.

Definition GU (e : expr) : Prop :=
  unary_prec <= level e -> forall r, nopost r ->
  p_unary (cost e + 1) (pr1 e unary_prec ++ r) = Some (e, r).

Definition GB (e : expr) : Prop :=
  forall q, 1 <= q -> q <= level e -> forall r, nopost r -> lowop (level e) r ->
  forall m res, p_btail m q e r = Some res ->
  p_binary (m + cost e + 2) q (pr1 e q ++ r) = Some res.

Lemma GU_of_GP : forall e, level e = highest_prec -> GP e -> GU e.
Proof.
  intros e L G _ r N.
  rewrite (pr1_level e unary_prec highest_prec) by (rewrite L; unfold unary_prec, highest_prec; lia).
  replace (cost e + 1) with (1 + cost e) by lia.
  apply G; [exact L|]. apply ptail_stop; exact N.
Qed.

Lemma GB_of_GU : forall e, unary_prec <= level e -> GU e -> GB e.
Proof.
  intros e L G q Q1 Q2 r N _ m res H.
  replace (m + cost e + 2) with (S (m + cost e + 1)) by lia. rewrite p_binary_S.
  rewrite (pr1_level e q unary_prec) by lia.
  rewrite (mono_u _ (m + cost e + 1) _ _ (G L r N)) by lia.
  apply (mono_t m); [exact H | lia].
Qed.

Lemma nopost_op : forall o r, nopost (TOp o :: r).
Proof. intros; exact I. Qed.

(* argument lists *)
Definition costargs (a : list expr) : nat := list_sum (map (fun x => cost x + 4) a) + 1.

Lemma p_args_step : forall n t ts, t <> TP RPAREN -> p_args (S n) (t :: ts) =
  match p_binary n 1 (t :: ts) with
  | Some (a, TP COMMA :: r) =>
    match p_args n r with Some (l, r') => Some (a :: l, r') | None => None end
  | Some (a, TP RPAREN :: r) => Some ([a], r)
  | _ => None
  end.
Proof.
  intros n t ts H. rewrite p_args_S. destruct t as [| | | | |o|[]]; try reflexivity. congruence.
Qed.

Lemma args_ok : forall a, All (fun x => wf x /\ GB x) a -> forall r,
  p_args (costargs a) (sepcat (map (fun x => pr1 x 0) a) ++ TP RPAREN :: r) = Some (a, r).
Proof.
  induction a as [|x l IH]; intros A r.
  - reflexivity.
  - destruct A as [[W G] A]. specialize (IH A).
    assert (V : valid x) by (eapply shape_valid; exact W).
    assert (L1 : 1 <= level x) by (eapply shape_level_ge1; exact W).
    replace (costargs (x :: l)) with (S (cost x + 3 + costargs l)) by (unfold costargs; simpl; lia).
    assert (PB : forall sep rest, (sep = TP COMMA \/ sep = TP RPAREN) ->
               p_binary (cost x + 3 + costargs l) 1 (pr1 x 0 ++ sep :: rest) = Some (x, sep :: rest)).
    { intros sep rest S. rewrite (pr1_level x 0 1) by lia.
      apply (mono_b (1 + cost x + 2)); [|lia].
      apply G; try lia.
      - destruct S; subst; exact I.
      - destruct S; subst; exact I.
      - apply btail_stop. destruct S; subst; exact I. }
    destruct (pr1_head x 0 V) as (t & ts & E & NT).
    destruct l as [|y l'].
    + assert (HE : sepcat (map (fun x0 => pr1 x0 0) [x]) ++ TP RPAREN :: r = t :: (ts ++ TP RPAREN :: r))
        by (cbn [sepcat map]; rewrite E; reflexivity).
      rewrite HE. rewrite p_args_step by exact NT.
      replace (t :: ts ++ TP RPAREN :: r) with (pr1 x 0 ++ TP RPAREN :: r) by (rewrite E; reflexivity).
      rewrite PB by auto. reflexivity.
    + set (rest := sepcat (map (fun x0 => pr1 x0 0) (y :: l')) ++ TP RPAREN :: r) in *.
      assert (HE : sepcat (map (fun x0 => pr1 x0 0) (x :: y :: l')) ++ TP RPAREN :: r
                   = t :: (ts ++ TP COMMA :: rest)).
      { change (sepcat (map (fun x0 => pr1 x0 0) (x :: y :: l')))
          with (pr1 x 0 ++ TP COMMA :: sepcat (map (fun x0 => pr1 x0 0) (y :: l'))).
        rewrite <- app_assoc. rewrite E. reflexivity. }
      rewrite HE. rewrite p_args_step by exact NT.
      replace (t :: ts ++ TP COMMA :: rest) with (pr1 x 0 ++ TP COMMA :: rest) by (rewrite E; reflexivity).
      rewrite PB by auto. unfold rest.
      rewrite (mono_a _ (cost x + 3 + costargs (y :: l')) _ _ (IH r)) by lia. reflexivity.
Qed.

Lemma G_all : forall e, wf e -> GP e /\ GU e /\ GB e.
Proof.
  unfold wf. induction e using expr_ind2; intros W; simpl in W.
  - (* atom *)
    assert (P : GP (EAtom t)).
    { intros _ r m res H. destruct m as [|m]; [discriminate|].
      simpl pr1. simpl app. simpl cost. replace (S m + 1) with (S (S m)) by lia.
      rewrite p_unary_S.
      assert (O : p_operand (S m) (t :: r) = Some (EAtom t, r)).
      { rewrite p_operand_S. destruct t as [| | | | |o|p]; try discriminate W; reflexivity. }
      destruct t as [| | | | |o|p]; try discriminate W; rewrite O; exact H. }
    split; [exact P|]. split; [apply GU_of_GP; [reflexivity | exact P]|].
    apply GB_of_GU; [simpl; unfold unary_prec, highest_prec; lia|]. apply GU_of_GP; [reflexivity | exact P].
  - (* binary *)
    destruct W as (P1 & Lx & Ly & Wx & Wy).
    destruct (IHe1 Wx) as (_ & _ & Bx). destruct (IHe2 Wy) as (_ & _ & By).
    pose proof (binprec_le7 o) as P7.
    split; [intros L; simpl in L; unfold highest_prec in L; lia|].
    split; [intros L; simpl in L; unfold unary_prec in L; lia|].
    intros q Q1 Q2 r N Lo m res H. simpl in Q2, Lo.
    simpl pr1. replace (binprec o <? q) with false by (symmetry; apply Nat.ltb_ge; lia).
    rewrite <- app_assoc. simpl app.
    rewrite (pr1_level e1 (binprec o) q) by lia.
    simpl cost.
    (* the right operand is read by the recursive call and stops at r *)
    assert (Y : p_binary (1 + cost e2 + 2) (S (binprec o)) (pr1 e2 (S (binprec o)) ++ r) = Some (e2, r)).
    { apply By; try lia; try assumption.
      - destruct r as [|[| | | | |o'|p'] r']; simpl; auto. simpl in Lo. lia.
      - apply btail_stop. destruct r as [|[| | | | |o'|p'] r']; simpl; auto. simpl in Lo. lia. }
    assert (T : p_btail (S (m + cost e2 + 3)) q e1 (TOp o :: pr1 e2 (S (binprec o)) ++ r) = Some res).
    { rewrite p_btail_S. replace (q <=? binprec o) with true by (symmetry; apply Nat.leb_le; lia).
      rewrite (mono_b _ (m + cost e2 + 3) _ _ _ Y) by lia.
      apply (mono_t m); [exact H | lia]. }
    replace (m + (cost e1 + cost e2 + 4) + 2) with (S (m + cost e2 + 3) + cost e1 + 2) by lia.
    apply Bx; try lia; try exact I.
    + simpl. lia.
    + exact T.
  - (* unary *)
    destruct W as (U & Lx & Wx). destruct (IHe Wx) as (_ & Ux & _).
    assert (GUe : GU (EUn o e)).
    { intros _ r N.
      assert (EQ : pr1 (EUn o e) unary_prec = TOp o :: pr1 e unary_prec) by reflexivity.
      rewrite EQ. simpl cost.
      replace (cost e + 1 + 1) with (S (cost e + 1)) by lia.
      simpl app. rewrite p_unary_S. rewrite U. rewrite (Ux Lx r N). reflexivity. }
    split; [intros L; simpl in L; unfold unary_prec, highest_prec in L; lia|].
    split; [exact GUe|]. apply GB_of_GU; [simpl; lia | exact GUe].
  - (* selector *)
    destruct W as (Sl & Lx & Wx). destruct (IHe Wx) as (Px & _ & _).
    assert (P : GP (ESel e l)).
    { intros _ r m res H. simpl pr1. rewrite <- app_assoc. simpl app. simpl cost.
      replace (m + (cost e + 1)) with (S m + cost e) by lia.
      apply Px; [exact Lx|]. rewrite p_ptail_S. rewrite Sl. exact H. }
    split; [exact P|]. split; [apply GU_of_GP; [reflexivity | exact P]|].
    apply GB_of_GU; [simpl; unfold unary_prec, highest_prec; lia|]. apply GU_of_GP; [reflexivity | exact P].
  - (* index *)
    destruct W as (Lx & Wx & Wi). destruct (IHe1 Wx) as (Px & _ & _). destruct (IHe2 Wi) as (_ & _ & Bi).
    assert (L1 : 1 <= level e2) by (eapply shape_level_ge1; exact Wi).
    assert (P : GP (EIdx e1 e2)).
    { intros _ r m res H. simpl pr1. rewrite <- app_assoc. simpl app. rewrite <- app_assoc. simpl app.
      simpl cost.
      replace (m + (cost e1 + cost e2 + 4)) with (S (m + cost e2 + 3) + cost e1) by lia.
      apply Px; [exact Lx|]. rewrite p_ptail_S.
      assert (Y : p_binary (1 + cost e2 + 2) 1 (pr1 e2 0 ++ TP RBRACK :: r) = Some (e2, TP RBRACK :: r)).
      { rewrite (pr1_level e2 0 1) by lia. apply Bi; try lia; try exact I. apply btail_stop. exact I. }
      rewrite (mono_b _ (m + cost e2 + 3) _ _ _ Y) by lia.
      apply (mono_p m); [exact H | lia]. }
    split; [exact P|]. split; [apply GU_of_GP; [reflexivity | exact P]|].
    apply GB_of_GU; [simpl; unfold unary_prec, highest_prec; lia|]. apply GU_of_GP; [reflexivity | exact P].
  - (* call *)
    destruct W as (Lf & Wf & Wa). destruct (IHe Wf) as (Pf & _ & _).
    assert (A : All (fun x => wf x /\ GB x) a).
    { clear -H Wa. induction a as [|x l IH]; [exact I|]. simpl in *. destruct H as [Hx Hl], Wa as [Wx Wl].
      split; [split; [exact Wx | apply (Hx Wx)] | apply IH; assumption]. }
    assert (P : GP (ECall e a)).
    { intros _ r m res H0. rewrite pr1_call. rewrite <- app_assoc. simpl app. rewrite <- app_assoc. simpl app.
      simpl cost.
      replace (m + (cost e + list_sum (map (fun x => cost x + 4) a) + 2)) with (S (m + costargs a) + cost e)
        by (unfold costargs; lia).
      apply Pf; [exact Lf|]. rewrite p_ptail_S.
      rewrite (mono_a _ (m + costargs a) _ _ (args_ok a A r)) by lia.
      apply (mono_p m); [exact H0 | lia]. }
    split; [exact P|]. split; [apply GU_of_GP; [reflexivity | exact P]|].
    apply GB_of_GU; [simpl; unfold unary_prec, highest_prec; lia|]. apply GU_of_GP; [reflexivity | exact P].
  - (* parentheses *)
    destruct W as (NP & Wx). destruct (IHe Wx) as (_ & _ & Bx).
    assert (L1 : 1 <= level e) by (eapply shape_level_ge1; exact Wx).
    assert (P : GP (EParen e)).
    { intros _ r m res H. simpl pr1. rewrite (NP eq_refl). unfold paren. simpl app.
      rewrite <- app_assoc. simpl app. simpl cost.
      replace (m + (cost e + 5)) with (S (S (m + cost e + 3))) by lia.
      rewrite p_unary_S. rewrite p_operand_S.
      assert (Y : p_binary (1 + cost e + 2) 1 (pr1 e 0 ++ TP RPAREN :: r) = Some (e, TP RPAREN :: r)).
      { rewrite (pr1_level e 0 1) by lia. apply Bx; try lia; try exact I. apply btail_stop. exact I. }
      rewrite (mono_b _ (m + cost e + 3) _ _ _ Y) by lia.
      apply (mono_p m); [exact H | lia]. }
    split; [exact P|]. split; [apply GU_of_GP; [reflexivity | exact P]|].
    apply GB_of_GU; [simpl; unfold unary_prec, highest_prec; lia|]. apply GU_of_GP; [reflexivity | exact P].
Qed.

(* the fuel the parser is given suffices *)
Lemma sepcat_length : forall l, (forall x, In x l -> 1 <= length x) ->
  list_sum (map (@length tok) l) + (length l - 1) = length (sepcat l).
Proof.
  induction l as [|x l IH]; intros H; [reflexivity|].
  destruct l as [|y l'].
  - simpl. lia.
  - assert (IH' := IH (fun z Hz => H z (or_intror Hz))).
    change (sepcat (x :: y :: l')) with (x ++ TP COMMA :: sepcat (y :: l')).
    rewrite app_length. cbn [length]. rewrite <- IH'. simpl. lia.
Qed.

Lemma cost_le : forall e, wf e -> forall q, cost e <= 5 * length (pr1 e q).
Proof.
  unfold wf. induction e using expr_ind2; intros W q; simpl in W.
  - simpl. lia.
  - destruct W as (_ & _ & _ & Wx & Wy).
    specialize (IHe1 Wx (binprec o)). specialize (IHe2 Wy (S (binprec o))).
    simpl. destruct (binprec o <? q); unfold paren; simpl; rewrite ?app_length; simpl;
      rewrite ?app_length; simpl; lia.
  - destruct W as (_ & _ & Wx). specialize (IHe Wx unary_prec).
    simpl. destruct (unary_prec <? q); unfold paren; simpl; rewrite ?app_length; simpl; lia.
  - destruct W as (_ & _ & Wx). specialize (IHe Wx highest_prec). simpl. rewrite app_length. simpl. lia.
  - destruct W as (_ & Wx & Wi). specialize (IHe1 Wx highest_prec). specialize (IHe2 Wi 0).
    simpl. rewrite app_length. simpl. rewrite app_length. simpl. lia.
  - destruct W as (_ & Wf & Wa). specialize (IHe Wf highest_prec).
    rewrite pr1_call. simpl cost. rewrite app_length. simpl length. rewrite app_length. simpl length.
    assert (S : list_sum (map (fun x => cost x + 4) a) <= 5 * length (sepcat (map (fun x => pr1 x 0) a)) + 4).
    { rewrite <- sepcat_length.
      2:{ intros x Hx. apply in_map_iff in Hx. destruct Hx as (y & <- & _). apply pr1_nonempty. }
      rewrite map_length. clear -H Wa.
      induction a as [|x l IH]; [simpl; lia|].
      simpl in H, Wa. destruct H as [Hx Hl], Wa as [Wx Wl]. specialize (IH Hl Wl).
      specialize (Hx Wx 0). simpl. pose proof (pr1_nonempty x 0). destruct l; simpl in *; lia. }
    lia.
  - destruct W as (NP & Wx). specialize (IHe Wx 0). simpl. rewrite (NP eq_refl).
    unfold paren. simpl. rewrite app_length. simpl. lia.
Qed.

(* parse (print e) = e for every tree the parser can produce from printer output *)
Theorem parse_print_wf : forall e, wf e -> parse (print1 e) = Some e.
Proof.
  intros e W. unfold parse, print1.
  destruct (G_all e W) as (_ & _ & B).
  assert (L1 : 1 <= level e) by (eapply shape_level_ge1; exact W).
  assert (H : p_binary (1 + cost e + 2) 1 (pr1 e 1 ++ []) = Some (e, [])).
  { apply B; try lia; try exact I. reflexivity. }
  rewrite app_nil_r in H. rewrite <- (pr1_level e 0 1) in H by lia.
  rewrite (mono_b _ (fuel_of (pr1 e 0)) _ _ _ H).
  - reflexivity.
  - unfold fuel_of. pose proof (cost_le e W 0). lia.
Qed.

(* ---- what the parser returns is parser-shaped --------------------------- *)

Definition out_stmt (n : nat) : Prop :=
  (forall ts x r, p_unary n ts = Some (x, r) -> pwf x /\ unary_prec <= level x) /\
  (forall ts x r, p_operand n ts = Some (x, r) -> pwf x /\ level x = highest_prec) /\
  (forall x ts y r, p_ptail n x ts = Some (y, r) -> pwf x -> level x = highest_prec ->
                    pwf y /\ level y = highest_prec) /\
  (forall ts l r, p_args n ts = Some (l, r) -> All pwf l) /\
  (forall q ts x r, p_binary n q ts = Some (x, r) -> 1 <= q -> q <= 8 ->
                    pwf x /\ q <= level x /\ stop q r) /\
  (forall q x ts y r, p_btail n q x ts = Some (y, r) -> 1 <= q -> pwf x -> q <= level x ->
                      lowop (level x) ts -> pwf y /\ q <= level y /\ stop q r).

Lemma stop_lowop : forall p r, stop (S p) r -> lowop p r.
Proof. intros p [|[| | | | |o|pp] r] H; simpl in *; auto. lia. Qed.

Lemma p_out : forall n, out_stmt n.
Proof.
  induction n as [|n IH]; unfold out_stmt.
  - repeat split; intros; discriminate.
  - destruct IH as (Iu & Io & Ip & Ia & Ib & It). unfold pwf in *.
    split; [|split; [|split; [|split; [|split]]]].
    + (* unary *)
      intros ts x r H. rewrite p_unary_S in H.
      assert (PRIM : match p_operand n ts with Some (x0, r0) => p_ptail n x0 r0 | None => None end = Some (x, r) ->
                     pwf x /\ unary_prec <= level x).
      { intros H'. destruct (p_operand n ts) as [[x0 r0]|] eqn:E; [|discriminate].
        destruct (Io _ _ _ E) as [W0 L0]. destruct (Ip _ _ _ _ H' W0 L0) as [W L].
        split; [exact W|]. rewrite L. unfold unary_prec, highest_prec. lia. }
      destruct ts as [|[| | | | |o|p] ts']; try (apply PRIM; exact H).
      destruct (is_unop o) eqn:U; [|discriminate].
      destruct (p_unary n ts') as [[x0 r0]|] eqn:E; [|discriminate]. inversion H; subst.
      destruct (Iu _ _ _ E) as [W0 L0]. split; [|simpl; lia]. simpl. auto.
    + (* operand *)
      intros ts x r H. rewrite p_operand_S in H.
      destruct ts as [|[| | | | |o|[]] ts']; simpl in H; try discriminate;
        try (inversion H; subst; split; reflexivity).
      destruct (p_binary n 1 ts') as [[x0 [|[| | | | |o|[]] r0]]|] eqn:E; simpl in H; try discriminate.
      inversion H; subst. destruct (Ib _ _ _ _ E) as (W0 & _ & _); try lia.
      split; [|reflexivity]. split; [discriminate | exact W0].
    + (* postfix tail *)
      intros x ts y r H W L. rewrite p_ptail_S in H.
      destruct ts as [|[| | | | |o|[]] ts']; try (inversion H; subst; auto; fail).
      * (* call *)
        destruct (p_args n ts') as [[a r0]|] eqn:E; [|discriminate].
        apply (Ip _ _ _ _ H); [|reflexivity]. simpl. repeat split; auto. apply (Ia _ _ _ E).
      * (* index *)
        destruct (p_binary n 1 ts') as [[i r0]|] eqn:E; [|discriminate].
        destruct (Ib _ _ _ _ E) as (Wi & _ & _); try lia.
        assert (WI : shape false (EIdx x i)) by (simpl; auto).
        destruct r0 as [|[| | | | |o|[]] r0]; try discriminate.
        -- apply (Ip _ _ _ _ H WI eq_refl).
        -- destruct r0 as [|[| | | | |o|[]] r0]; try discriminate. apply (Ip _ _ _ _ H WI eq_refl).
      * (* selector *)
        destruct ts' as [|l r0]; [discriminate|]. destruct (is_sel l) eqn:S; [|discriminate].
        apply (Ip _ _ _ _ H); [|reflexivity]. simpl. auto.
    + (* arguments *)
      intros ts l r H. rewrite p_args_S in H.
      assert (REST : match p_binary n 1 ts with
                     | Some (a, TP COMMA :: r0) =>
                       match p_args n r0 with Some (l0, r') => Some (a :: l0, r') | None => None end
                     | Some (a, TP RPAREN :: r0) => Some ([a], r0)
                     | _ => None
                     end = Some (l, r) -> All pwf l).
      { intros H'. destruct (p_binary n 1 ts) as [[a r0]|] eqn:E; [|discriminate].
        destruct (Ib _ _ _ _ E) as (Wa & _ & _); try lia.
        destruct r0 as [|[| | | | |o|[]] r0]; try discriminate.
        - inversion H'; subst. simpl. auto.
        - destruct (p_args n r0) as [[l0 r']|] eqn:E2; [|discriminate]. inversion H'; subst.
          simpl. split; [exact Wa | apply (Ia _ _ _ E2)]. }
      destruct ts as [|[| | | | |o|[]] ts']; try (apply REST; exact H).
      inversion H; subst. exact I.
    + (* binary *)
      intros q ts x r H Q1 Q8. rewrite p_binary_S in H.
      destruct (p_unary n ts) as [[x0 r0]|] eqn:E; [|discriminate].
      destruct (Iu _ _ _ E) as [W0 L0].
      apply (It _ _ _ _ _ H Q1 W0); [unfold unary_prec in L0; lia|].
      destruct r0 as [|[| | | | |o|p] r0]; simpl; auto.
      pose proof (binprec_le7 o). unfold unary_prec in L0. lia.
    + (* binary tail *)
      intros q x ts y r H Q1 W Lq Lo. rewrite p_btail_S in H.
      destruct ts as [|[| | | | |o|p] ts']; try (inversion H; subst; simpl; auto; fail).
      destruct (q <=? binprec o) eqn:C.
      * apply Nat.leb_le in C.
        destruct (p_binary n (S (binprec o)) ts') as [[y0 r0]|] eqn:E; [|discriminate].
        pose proof (binprec_le7 o) as P7.
        destruct (Ib _ _ _ _ E) as (Wy & Ly & St); try lia.
        apply (It _ _ _ _ _ H Q1).
        -- simpl. simpl in Lo. repeat split; auto; lia.
        -- simpl. exact C.
        -- simpl. apply stop_lowop. exact St.
      * apply Nat.leb_gt in C. inversion H; subst. simpl. auto.
Qed.

Theorem parse_pwf : forall ts e, parse ts = Some e -> pwf e.
Proof.
  intros ts e H. unfold parse in H.
  destruct (p_binary (fuel_of ts) 1 ts) as [[x [|? ?]]|] eqn:E; try discriminate.
  inversion H; subst.
  destruct (proj1 (proj2 (proj2 (proj2 (proj2 (p_out (fuel_of ts)))))) _ _ _ _ E) as (W & _ & _); try lia.
  exact W.
Qed.

(* ---- canon: the tree that the printed text denotes ---------------------- *)

Lemma canon_not_paren : forall e q, is_paren e = false -> q <= level e -> is_paren (canon e q) = false.
Proof.
  intros [t|o x y|o x|x l|x i|f a|x] q H L; simpl in *; try reflexivity; try discriminate.
  - replace (binprec o <? q) with false by (symmetry; apply Nat.ltb_ge; lia). reflexivity.
  - replace (unary_prec <? q) with false by (symmetry; apply Nat.ltb_ge; lia). reflexivity.
Qed.

Lemma canon_paren_level : forall e q, is_paren e = true -> level (canon e q) = highest_prec.
Proof.
  induction e using expr_ind2; intros q P; try discriminate.
  simpl. destruct (is_paren e) eqn:P2; [apply IHe; reflexivity | reflexivity].
Qed.

Lemma canon_level : forall e q, q <= 9 -> q <= level (canon e q).
Proof.
  intros [t|o x y|o x|x l|x i|f a|x] q Q; simpl; unfold highest_prec; try lia.
  - destruct (binprec o <? q) eqn:C; simpl; [unfold highest_prec; lia | apply Nat.ltb_ge in C; exact C].
  - destruct (unary_prec <? q) eqn:C; simpl; [unfold highest_prec; lia | apply Nat.ltb_ge in C; exact C].
  - destruct (is_paren x) eqn:P.
    + rewrite (canon_paren_level x 0 P). unfold highest_prec. lia.
    + simpl. unfold highest_prec. lia.
Qed.

Lemma canon_wf : forall e, valid e -> forall q, wf (canon e q).
Proof.
  unfold wf. induction e using expr_ind2; intros V q; simpl in V.
  - exact V.
  - destruct V as (P1 & Vx & Vy). pose proof (binprec_le7 o) as P7.
    assert (B : shape true (EBin o (canon e1 (binprec o)) (canon e2 (S (binprec o))))).
    { simpl. repeat split; auto; apply canon_level; lia. }
    simpl. destruct (binprec o <? q); [|exact B]. split; [reflexivity | exact B].
  - destruct V as (U & Vx).
    assert (B : shape true (EUn o (canon e unary_prec))).
    { simpl. repeat split; auto. apply canon_level. unfold unary_prec. lia. }
    simpl. destruct (unary_prec <? q); [|exact B]. split; [reflexivity | exact B].
  - destruct V as (S & Vx). simpl. repeat split; auto.
    pose proof (canon_level e highest_prec). pose proof (level_le9 (canon e highest_prec)).
    unfold highest_prec in *. lia.
  - destruct V as (Vx & Vi). simpl. repeat split; auto.
    pose proof (canon_level e1 highest_prec). pose proof (level_le9 (canon e1 highest_prec)).
    unfold highest_prec in *. lia.
  - destruct V as (Vf & Va). simpl. repeat split; auto.
    + pose proof (canon_level e highest_prec). pose proof (level_le9 (canon e highest_prec)).
      unfold highest_prec in *. lia.
    + clear -H Va. induction a as [|x l IH]; [exact I|]. simpl in *.
      destruct H as [Hx Hl], Va as [Vx Vl]. split; [apply (Hx Vx 0) | apply IH; assumption].
  - simpl. destruct (is_paren e) eqn:P; [apply IHe; exact V|].
    simpl. split; [|apply IHe; exact V]. intros _. apply canon_not_paren; [exact P | lia].
Qed.

Lemma pr1_paren_nopar : forall x q, is_paren x = false -> pr1 (EParen x) q = paren (pr1 x 0).
Proof. intros x q H. simpl. rewrite H. reflexivity. Qed.

Lemma pr1_canon : forall e q q', q' <= level (canon e q) -> pr1 (canon e q) q' = pr1 e q.
Proof.
  induction e using expr_ind2; intros q q' L.
  - reflexivity.
  - pose proof (binprec_le7 o) as P7.
    assert (B : forall k, k <= binprec o ->
                pr1 (EBin o (canon e1 (binprec o)) (canon e2 (S (binprec o)))) k
                = pr1 e1 (binprec o) ++ TOp o :: pr1 e2 (S (binprec o))).
    { intros k K. simpl. replace (binprec o <? k) with false by (symmetry; apply Nat.ltb_ge; lia).
      rewrite IHe1 by (apply canon_level; lia). rewrite IHe2 by (apply canon_level; lia). reflexivity. }
    assert (R : pr1 (EBin o e1 e2) q = if binprec o <? q
                  then paren (pr1 e1 (binprec o) ++ TOp o :: pr1 e2 (S (binprec o)))
                  else pr1 e1 (binprec o) ++ TOp o :: pr1 e2 (S (binprec o))) by reflexivity.
    rewrite R. cbn [canon] in *. destruct (binprec o <? q) eqn:C.
    + rewrite pr1_paren_nopar by reflexivity. rewrite B by lia. reflexivity.
    + apply B. exact L.
  - assert (B : forall k, k <= unary_prec ->
                pr1 (EUn o (canon e unary_prec)) k = TOp o :: pr1 e unary_prec).
    { intros k K. simpl. replace (unary_prec <? k) with false by (symmetry; apply Nat.ltb_ge; lia).
      rewrite IHe by (apply canon_level; unfold unary_prec; lia). reflexivity. }
    assert (R : pr1 (EUn o e) q = if unary_prec <? q
                  then paren (TOp o :: pr1 e unary_prec) else TOp o :: pr1 e unary_prec) by reflexivity.
    rewrite R. cbn [canon] in *. destruct (unary_prec <? q) eqn:C.
    + rewrite pr1_paren_nopar by reflexivity. rewrite B by lia. reflexivity.
    + apply B. exact L.
  - simpl. rewrite IHe by (apply canon_level; unfold highest_prec; lia). reflexivity.
  - simpl. rewrite IHe1 by (apply canon_level; unfold highest_prec; lia). rewrite IHe2 by lia. reflexivity.
  - simpl canon. rewrite !pr1_call. rewrite IHe by (apply canon_level; unfold highest_prec; lia).
    f_equal. f_equal. f_equal. f_equal. rewrite map_map.
    clear -H. induction a as [|x l IH]; [reflexivity|]. simpl in *. destruct H as [Hx Hl].
    rewrite Hx by lia. rewrite IH by assumption. reflexivity.
  - simpl canon in *. destruct (is_paren e) eqn:P.
    + simpl pr1. rewrite P. apply IHe. exact L.
    + rewrite pr1_paren_nopar by (apply canon_not_paren; [exact P | lia]).
      rewrite pr1_paren_nopar by exact P. rewrite IHe by lia. reflexivity.
Qed.

Lemma unparen_canon : forall e q, unparen (canon e q) = unparen e.
Proof.
  induction e using expr_ind2; intros q; simpl.
  - reflexivity.
  - destruct (binprec o <? q); simpl; rewrite IHe1, IHe2; reflexivity.
  - destruct (unary_prec <? q); simpl; rewrite IHe; reflexivity.
  - rewrite IHe. reflexivity.
  - rewrite IHe1, IHe2. reflexivity.
  - rewrite IHe. f_equal. rewrite map_map.
    clear -H. induction a as [|x l IH]; [reflexivity|]. simpl in *. destruct H as [Hx Hl].
    rewrite Hx, IH by assumption. reflexivity.
  - destruct (is_paren e); simpl; apply IHe.
Qed.

Lemma canon_pwf : forall e, pwf e -> forall q, q <= level e -> canon e q = collapse e.
Proof.
  unfold pwf. induction e using expr_ind2; intros W q L; simpl in W.
  - reflexivity.
  - destruct W as (P1 & Lx & Ly & Wx & Wy). simpl in *.
    replace (binprec o <? q) with false by (symmetry; apply Nat.ltb_ge; lia).
    rewrite IHe1, IHe2 by auto. reflexivity.
  - destruct W as (U & Lx & Wx). simpl in *.
    replace (unary_prec <? q) with false by (symmetry; apply Nat.ltb_ge; lia).
    rewrite IHe by auto. reflexivity.
  - destruct W as (S & Lx & Wx). simpl. rewrite IHe by (auto; lia). reflexivity.
  - destruct W as (Lx & Wx & Wi). simpl. rewrite IHe1 by (auto; lia). rewrite IHe2 by (auto; lia). reflexivity.
  - destruct W as (Lf & Wf & Wa). simpl. rewrite IHe by (auto; lia). f_equal.
    clear -H Wa. induction a as [|x l IH]; [reflexivity|]. simpl in *.
    destruct H as [Hx Hl], Wa as [Wx Wl]. rewrite Hx by (auto; lia). rewrite IH by assumption. reflexivity.
  - destruct W as (_ & Wx). simpl. rewrite IHe by (auto; lia). reflexivity.
Qed.

Lemma unparen_collapse : forall e, unparen (collapse e) = unparen e.
Proof.
  induction e using expr_ind2; simpl; try congruence.
  - rewrite IHe. f_equal. rewrite map_map.
    clear -H. induction a as [|x l IH]; [reflexivity|]. simpl in *. destruct H as [Hx Hl].
    rewrite Hx, IH by assumption. reflexivity.
  - destruct (is_paren e); simpl; exact IHe.
Qed.

Lemma collapse_wf_id : forall e, wf e -> collapse e = e.
Proof.
  unfold wf. induction e using expr_ind2; intros W; simpl in W; simpl.
  - reflexivity.
  - destruct W as (_ & _ & _ & Wx & Wy). rewrite IHe1, IHe2 by assumption. reflexivity.
  - destruct W as (_ & _ & Wx). rewrite IHe by assumption. reflexivity.
  - destruct W as (_ & _ & Wx). rewrite IHe by assumption. reflexivity.
  - destruct W as (_ & Wx & Wi). rewrite IHe1, IHe2 by assumption. reflexivity.
  - destruct W as (_ & Wf & Wa). rewrite IHe by assumption. f_equal.
    clear -H Wa. induction a as [|x l IH]; [reflexivity|]. simpl in *.
    destruct H as [Hx Hl], Wa as [Wx Wl]. rewrite Hx, IH by assumption. reflexivity.
  - destruct W as (NP & Wx). rewrite (NP eq_refl). rewrite IHe by assumption. reflexivity.
Qed.

Lemma collapse_wf : forall e, pwf e -> wf (collapse e).
Proof.
  intros e W. rewrite <- (canon_pwf e W 0) by lia. apply canon_wf. eapply shape_valid. exact W.
Qed.

Lemma noparen_unparen : forall e, noparen e -> unparen e = e.
Proof.
  induction e using expr_ind2; simpl; intros N; try tauto.
  - destruct N. rewrite IHe1, IHe2 by assumption. reflexivity.
  - rewrite IHe by assumption. reflexivity.
  - rewrite IHe by assumption. reflexivity.
  - destruct N. rewrite IHe1, IHe2 by assumption. reflexivity.
  - destruct N as [Nf Na]. rewrite IHe by assumption. f_equal.
    clear -H Na. induction a as [|x l IH]; [reflexivity|]. simpl in *.
    destruct H as [Hx Hl], Na as [Nx Nl]. rewrite Hx, IH by assumption. reflexivity.
Qed.

(* ---- the theorems about printer V1 -------------------------------------- *)

(* reading printed text back gives the tree with exactly the printed parentheses *)
Theorem parse_print1 : forall e, valid e -> parse (print1 e) = Some (canon e 0).
Proof.
  intros e V. unfold print1. rewrite <- (pr1_canon e 0 0) by lia.
  apply (parse_print_wf (canon e 0)). apply canon_wf. exact V.
Qed.

(* for trees without ParenExpr nodes: modulo the inserted parentheses, the same tree *)
Theorem parse_print_expr : forall e, valid e -> noparen e ->
  exists e', parse (print1 e) = Some e' /\ unparen e' = e.
Proof.
  intros e V N. exists (canon e 0). split; [apply parse_print1; exact V|].
  rewrite unparen_canon. apply noparen_unparen. exact N.
Qed.

Theorem print1_canon : forall e, print1 (canon e 0) = print1 e.
Proof. intros e. unfold print1. apply pr1_canon. lia. Qed.

(* formatting printed text again changes nothing *)
Theorem fmt1_print : forall e, valid e -> fmt1 (print1 e) = Some (print1 e).
Proof. intros e V. unfold fmt1. rewrite (parse_print1 e V). rewrite print1_canon. reflexivity. Qed.

(* idempotence on arbitrary token lists: the normal form is reached in one step *)
Theorem fmt1_idempotent : forall ts ts', fmt1 ts = Some ts' -> fmt1 ts' = Some ts'.
Proof.
  intros ts ts' H. unfold fmt1 in H. destruct (parse ts) as [e|] eqn:P; [|discriminate].
  inversion H; subst. apply fmt1_print. eapply shape_valid. eapply parse_pwf. exact P.
Qed.

(* formatting preserves the tree up to the collapse of directly nested parentheses *)
Theorem fmt1_preserves_tree : forall ts e, parse ts = Some e ->
  exists ts', fmt1 ts = Some ts' /\ parse ts' = Some (collapse e).
Proof.
  intros ts e P. exists (print1 e). unfold fmt1. rewrite P. split; [reflexivity|].
  pose proof (parse_pwf _ _ P) as W.
  rewrite (parse_print1 e (shape_valid _ _ W)). rewrite (canon_pwf e W 0) by lia. reflexivity.
Qed.

(* ---- printer V2 agrees with V1 where it is safe -------------------------- *)

Lemma op_eqb_eq : forall a b, op_eqb a b = true <-> a = b.
Proof. intros a b. split; [destruct a, b; simpl; intros; congruence || reflexivity | intros ->; destruct b; reflexivity]. Qed.

Lemma chain_prec_inj : forall o o', is_chain_op o' = true -> binprec o = binprec o' -> op_eqb o o' = true.
Proof. intros o o' C E. destruct o'; try discriminate; destruct o; simpl in *; try discriminate; reflexivity. Qed.

Definition v2_claim (e : expr) : Prop :=
  pr2 MDisp e = pr1 e 0 /\
  (forall q, pr2 (MOperand q) e = pr1 e q) /\
  (forall o, is_chain_op o = true -> pr2 (MChain o) e = pr1 e (binprec o)) /\
  (forall o, is_chain_op o = true -> same_chain_op o e = false -> pr2 (MChain o) e = pr1 e (S (binprec o))).

Lemma chain_prec_le2 : forall o, is_chain_op o = true -> binprec o <= 2.
Proof. destruct o; simpl; intros; try discriminate; lia. Qed.

(* primary expressions: neither printer looks at the context *)
Lemma v2_primary : forall e X, (forall m, pr2 m e = X) -> (forall q, pr1 e q = X) -> v2_claim e.
Proof.
  intros e X H2 H1. unfold v2_claim. repeat split; intros; rewrite H2; symmetry; apply H1.
Qed.

Lemma v2_eq : forall e, right_nested_chain e = false -> v2_claim e.
Proof.
  induction e using expr_ind2; intros R; simpl in R.
  - apply (v2_primary _ [t]); auto.
  - apply orb_false_elim in R. destruct R as [R Ry]. apply orb_false_elim in R. destruct R as [RC Rx].
    destruct (IHe1 Rx) as (_ & Bx & Cx & _). destruct (IHe2 Ry) as (_ & By & _ & Dy).
    pose proof (binprec_le7 o) as P7.
    set (p := binprec o) in *.
    set (body := pr1 e1 p ++ TOp o :: pr1 e2 (S p)).
    assert (PB : pr2 (MOperand p) e1 ++ TOp o :: pr2 (MOperand (S p)) e2 = body).
    { unfold body. rewrite Bx, By. reflexivity. }
    assert (CB : is_chain_op o = true -> pr2 (MChain o) e1 ++ TOp o :: pr2 (MChain o) e2 = body).
    { intros C. unfold body. rewrite Cx by exact C. rewrite C in RC. simpl in RC. rewrite Dy by assumption. reflexivity. }
    assert (DB : (if chain_case o (EBin o e1 e2)
                  then pr2 (MChain o) e1 ++ TOp o :: pr2 (MChain o) e2
                  else pr2 (MOperand p) e1 ++ TOp o :: pr2 (MOperand (S p)) e2) = body).
    { destruct (chain_case o (EBin o e1 e2)) eqn:CC; [|exact PB].
      apply CB. unfold chain_case in CC. apply andb_prop in CC. tauto. }
    unfold v2_claim. repeat split.
    + cbn [pr2]. fold p. rewrite DB. reflexivity.
    + intros q. cbn [pr2 pr1]. fold p. rewrite DB, PB. fold body.
      destruct (q <=? p) eqn:C.
      * apply Nat.leb_le in C. replace (p <? q) with false by (symmetry; apply Nat.ltb_ge; lia). reflexivity.
      * apply Nat.leb_gt in C. replace (p <? q) with true by (symmetry; apply Nat.ltb_lt; lia). reflexivity.
    + intros o' C'. cbn [pr2 pr1]. fold p. rewrite DB. fold body.
      destruct (op_eqb o o') eqn:E.
      * apply op_eqb_eq in E. subst o'. fold p. rewrite CB by exact C'.
        replace (p <? p) with false by (symmetry; apply Nat.ltb_irrefl). reflexivity.
      * reflexivity.
    + intros o' C' SC. simpl in SC. cbn [pr2 pr1]. fold p. rewrite DB. fold body. rewrite SC.
      assert (NE : p <> binprec o').
      { intros EQ. rewrite (chain_prec_inj o o' C' EQ) in SC. discriminate. }
      destruct (p <? binprec o') eqn:C.
      * apply Nat.ltb_lt in C. replace (p <? S (binprec o')) with true by (symmetry; apply Nat.ltb_lt; lia). reflexivity.
      * apply Nat.ltb_ge in C. replace (p <? S (binprec o')) with false by (symmetry; apply Nat.ltb_ge; lia). reflexivity.
  - (* unary: parenthesised exactly when the context binds tighter, in both printers *)
    destruct (IHe R) as (_ & Bx & _ & _).
    unfold v2_claim. repeat split.
    + cbn [pr2 pr1]. rewrite Bx. reflexivity.
    + intros q. cbn [pr2 pr1]. rewrite Bx. reflexivity.
    + intros o' C'. pose proof (chain_prec_le2 _ C'). cbn [pr2 pr1]. rewrite Bx.
      replace (unary_prec <? binprec o') with false by (symmetry; apply Nat.ltb_ge; unfold unary_prec; lia). reflexivity.
    + intros o' C' _. pose proof (chain_prec_le2 _ C'). cbn [pr2 pr1]. rewrite Bx.
      replace (unary_prec <? S (binprec o')) with false by (symmetry; apply Nat.ltb_ge; unfold unary_prec; lia). reflexivity.
  - destruct (IHe R) as (_ & Bx & _ & _).
    apply (v2_primary _ (pr1 e highest_prec ++ [TP PERIOD; l])); auto.
    intros m. simpl. rewrite Bx. reflexivity.
  - apply orb_false_elim in R. destruct R as [Rx Ri].
    destruct (IHe1 Rx) as (_ & Bx & _ & _). destruct (IHe2 Ri) as (Ai & _ & _ & _).
    apply (v2_primary _ (pr1 e1 highest_prec ++ TP LBRACK :: pr1 e2 0 ++ [TP RBRACK])); auto.
    intros m. simpl. rewrite Bx, Ai. reflexivity.
  - apply orb_false_elim in R. destruct R as [Rf Ra].
    destruct (IHe Rf) as (_ & Bf & _ & _).
    apply (v2_primary _ (pr1 (ECall e a) 0)); auto.
    intros m. simpl. rewrite Bf. f_equal. f_equal. f_equal.
    clear -H Ra. induction a as [|x l IH]; [reflexivity|]. simpl in *.
    destruct H as [Hx Hl]. apply orb_false_elim in Ra. destruct Ra as [Rx Rl].
    destruct (Hx Rx) as (Ax & _). rewrite Ax. rewrite (IH Hl Rl). reflexivity.
  - destruct (IHe R) as (Ax & _ & _ & _).
    apply (v2_primary _ (pr1 (EParen e) 0)); auto.
    intros m. simpl. rewrite Ax. reflexivity.
Qed.

Theorem print2_eq_print1_when : forall e, v2_safe e = true -> print2 e = print1 e.
Proof.
  intros e S. unfold v2_safe in S. apply negb_true_iff in S.
  exact (proj1 (v2_eq e S)).
Qed.

(* parser-produced trees are always safe: explicit ParenExpr nodes carry the grouping *)
Lemma pwf_v2_safe : forall e, pwf e -> v2_safe e = true.
Proof.
  intros e W. unfold v2_safe. apply negb_true_iff.
  revert W. unfold pwf. induction e using expr_ind2; simpl; intros W; auto.
  - destruct W as (_ & _ & Ly & Wx & Wy). rewrite IHe1, IHe2 by assumption.
    replace (same_chain_op o e2) with false; [rewrite andb_false_r; reflexivity|].
    destruct e2; try reflexivity. simpl in *. destruct (op_eqb o0 o) eqn:E; [|reflexivity].
    apply op_eqb_eq in E. subst. lia.
  - destruct W as (_ & _ & Wx). auto.
  - destruct W as (_ & _ & Wx). auto.
  - destruct W as (_ & Wx & Wi). rewrite IHe1, IHe2 by assumption. reflexivity.
  - destruct W as (_ & Wf & Wa). rewrite IHe by assumption. simpl.
    clear -H Wa. induction a as [|x l IH]; [reflexivity|]. simpl in *.
    destruct H as [Hx Hl], Wa as [Wx Wl]. rewrite Hx, IH by assumption. reflexivity.
  - destruct W as (_ & Wx). auto.
Qed.

(* on every token list the two formatters produce the same tokens *)
Theorem fmt2_eq_fmt1 : forall ts, fmt2 ts = fmt1 ts.
Proof.
  intros ts. unfold fmt2, fmt1. destruct (parse ts) as [e|] eqn:P; [|reflexivity].
  rewrite (print2_eq_print1_when e); [reflexivity|]. apply pwf_v2_safe. eapply parse_pwf. exact P.
Qed.

Theorem fmt2_idempotent : forall ts ts', fmt2 ts = Some ts' -> fmt2 ts' = Some ts'.
Proof. intros ts ts'. rewrite !fmt2_eq_fmt1. apply fmt1_idempotent. Qed.

Theorem fmt2_preserves_tree : forall ts e, parse ts = Some e ->
  exists ts', fmt2 ts = Some ts' /\ parse ts' = Some (collapse e).
Proof. intros ts e P. rewrite fmt2_eq_fmt1. apply fmt1_preserves_tree. exact P. Qed.

(* ... but on trees without ParenExpr nodes V2 is refuted *)
Definition ex_a := EAtom (TIdent [97%N]).
Definition ex_b := EAtom (TIdent [98%N]).
Definition ex_c := EAtom (TIdent [99%N]).

(* since the fix of wrapForPrecedence: a unary operand of a postfix operator keeps
   its grouping (formerly the refutation witness K25) *)
Theorem print2_unary_postfix_parenthesised :
  let e := ESel (EUn SUB ex_a) (TIdent [98%N]) in
  valid e /\ noparen e /\ print2 e = print1 e /\
  parse (print2 e) = Some (ESel (EParen (EUn SUB ex_a)) (TIdent [98%N])).
Proof. vm_compute. repeat split; reflexivity. Qed.

Theorem print2_chain_refuted :
  let e := EBin OR ex_a (EBin OR (EUn MUL ex_b) ex_c) in
  valid e /\ noparen e /\ parse (print2 e) = Some (EBin OR (EBin OR ex_a (EUn MUL ex_b)) ex_c) /\ parse (print1 e) = Some (EBin OR ex_a (EParen (EBin OR (EUn MUL ex_b) ex_c))).
Proof. vm_compute. repeat split; reflexivity. Qed.
