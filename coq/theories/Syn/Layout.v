(* Syn/Layout.v - the blanks that the model leaves to the layout engine (around
   + - * /) are never needed by the scanner. *)
From Coq Require Import List NArith Bool Arith Lia.
From Verif Require Import Syn.Lex Syn.LexProofs Syn.Expr Syn.Basics Syn.Proofs Syn.Space.
Import ListNotations.
Open Scope nat_scope.

(* every adjacent pair (previous token, (flag, token)) satisfies P *)
Fixpoint adj_from (P : tok -> sp * tok -> Prop) (prev : tok) (l : list (sp * tok)) : Prop :=
  match l with
  | [] => True
  | (s, t) :: r => P prev (s, t) /\ adj_from P t r
  end.

Definition adj (P : tok -> sp * tok -> Prop) (l : list (sp * tok)) : Prop :=
  match l with [] => True | (_, t) :: r => adj_from P t r end.

Definition lastt (d : tok) (l : list (sp * tok)) : tok := snd (last l (Glue, d)).

Lemma last_nonempty_default : forall (A : Type) (l : list A) x d d', last (x :: l) d = last (x :: l) d'.
Proof.
  induction l as [|y r IH]; intros x d d'; [reflexivity|].
  change (last (x :: y :: r) d) with (last (y :: r) d). change (last (x :: y :: r) d') with (last (y :: r) d').
  apply IH.
Qed.

Lemma lastt_cons : forall prev s t r, lastt prev ((s, t) :: r) = lastt t r.
Proof.
  intros prev s t [|x r]; [reflexivity|]. unfold lastt.
  change (last ((s, t) :: x :: r) (Glue, prev)) with (last (x :: r) (Glue, prev)).
  rewrite (last_nonempty_default _ r x (Glue, prev) (Glue, t)). reflexivity.
Qed.

Lemma adj_from_app : forall P l1 l2 prev,
  adj_from P prev (l1 ++ l2) <-> adj_from P prev l1 /\ adj_from P (lastt prev l1) l2.
Proof.
  induction l1 as [|[s t] r IH]; intros l2 prev.
  - simpl. unfold lastt. simpl. tauto.
  - rewrite lastt_cons. simpl. rewrite IH. tauto.
Qed.

Lemma adj_app : forall P l1 l2 d, l1 <> [] ->
  (adj P (l1 ++ l2) <-> adj P l1 /\ adj_from P (lastt d l1) l2).
Proof.
  intros P [|[s t] r] l2 d H; [congruence|]. rewrite lastt_cons. simpl. apply adj_from_app.
Qed.

Lemma adj_set_first : forall P s l, adj P (set_first s l) <-> adj P l.
Proof. intros P s [|[s' t] r]; simpl; tauto. Qed.

Lemma lastt_set_first : forall d s l, lastt d (set_first s l) = lastt d l.
Proof.
  intros d s [|[s' t] r]; [reflexivity|]. simpl set_first. rewrite !lastt_cons. reflexivity.
Qed.

Lemma adj_from_cons_free : forall (P : tok -> sp * tok -> Prop) prev s t r,
  P prev (s, t) -> adj P ((s, t) :: r) -> adj_from P prev ((s, t) :: r).
Proof. intros. simpl in *. tauto. Qed.

(* the property: a layout-dependent position never needs a blank *)
Definition layP (prev : tok) (x : sp * tok) : Prop :=
  fst x = Layout -> needs_sep prev (snd x) = false.

Definition lay_ok (l : list (sp * tok)) : Prop := adj layP l.

(* classes of first and last tokens of printed expressions *)
Definition firstF (t : tok) : bool :=
  is_atom t || match t with TP LPAREN => true | TOp o => is_unop o | _ => false end.

Definition lastL (t : tok) : bool :=
  is_atom t || is_sel t || match t with TP RPAREN | TP RBRACK => true | _ => false end.

Lemma layout_op : forall o, 1 <= binprec o -> bin_sp o = Layout -> o = ADD \/ o = SUB \/ o = MUL \/ o = QUO.
Proof. destruct o; simpl; intros; try discriminate; try lia; auto. Qed.

Lemma sep_last_op : forall t o, lastL t = true -> 1 <= binprec o -> bin_sp o = Layout ->
  needs_sep t (TOp o) = false.
Proof.
  intros t o L P B. destruct (layout_op o P B) as [-> | [-> | [-> | ->]]];
    destruct t as [s|s|s|id| |o'|[]]; try discriminate L; unfold needs_sep; simpl;
      rewrite ?andb_false_r; reflexivity.
Qed.

(* first character of a well-formed atom is not '/' *)
Lemma atom_first_char : forall t, is_atom t = true -> tok_wf t ->
  exists c r, spell t = c :: r /\ (c =? 47)%N = false.
Proof.
  intros t A W. destruct (wf_spell t W) as (c & r & E & _). exists c, r. split; [exact E|].
  destruct (c =? 47)%N eqn:C; [|reflexivity]. exfalso. apply N.eqb_eq in C. subst c.
  unfold tok_wf in W. rewrite E in W. cbn in W.
  destruct (next_is 47 r); [discriminate|]. inversion W. subst. discriminate A.
Qed.

Lemma sep_op_first : forall o t, firstF t = true -> (is_atom t = true -> tok_wf t) ->
  1 <= binprec o -> bin_sp o = Layout -> needs_sep (TOp o) t = false.
Proof.
  intros o t F W P B. unfold firstF in F. apply orb_prop in F. destruct F as [A | F].
  - destruct (atom_first_char t A (W A)) as (c & r & E & C). unfold needs_sep. rewrite E.
    destruct (layout_op o P B) as [-> | [-> | [-> | ->]]]; simpl; try reflexivity. rewrite C. reflexivity.
  - destruct t as [s|s|s|id| |o'|[]]; try discriminate F.
    + destruct (layout_op o P B) as [-> | [-> | [-> | ->]]]; destruct o'; try discriminate F; reflexivity.
    + destruct (layout_op o P B) as [-> | [-> | [-> | ->]]]; reflexivity.
Qed.

(* atoms of a tree are well-formed tokens *)
Fixpoint atoms_wf (e : expr) : Prop :=
  match e with
  | EAtom t => tok_wf t
  | EBin _ x y => atoms_wf x /\ atoms_wf y
  | EUn _ x => atoms_wf x
  | ESel x l => atoms_wf x /\ tok_wf l
  | EIdx x i => atoms_wf x /\ atoms_wf i
  | ECall f a => atoms_wf f /\ All atoms_wf a
  | EParen x => atoms_wf x
  end.

Definition hd_ok (l : list (sp * tok)) : Prop :=
  match l with
  | (_, t) :: _ => firstF t = true /\ (is_atom t = true -> tok_wf t)
  | [] => False
  end.

Definition last_ok (l : list (sp * tok)) : Prop :=
  l <> [] /\ forall d, lastL (lastt d l) = true.

Lemma hd_ok_set_first : forall s l, hd_ok l -> hd_ok (set_first s l).
Proof. intros s [|[s' t] r]; simpl; tauto. Qed.

Lemma hd_ok_app : forall l1 l2, hd_ok l1 -> hd_ok (l1 ++ l2).
Proof. intros [|[s t] r] l2; simpl; tauto. Qed.

Lemma lastt_app : forall d l1 l2, l2 <> [] -> lastt d (l1 ++ l2) = lastt d l2.
Proof.
  intros d l1 l2 H. unfold lastt. f_equal. induction l1 as [|x r IH]; [reflexivity|].
  simpl. destruct (r ++ l2) eqn:E; [|exact IH].
  apply app_eq_nil in E. destruct E. contradiction.
Qed.

Lemma last_ok_app : forall l1 l2, last_ok l2 -> last_ok (l1 ++ l2).
Proof.
  intros l1 l2 [N L]. split.
  - intros E. apply app_eq_nil in E. tauto.
  - intros d. rewrite lastt_app by exact N. apply L.
Qed.

Lemma last_ok_single : forall s t, lastL t = true -> last_ok [(s, t)].
Proof. intros s t L. split; [discriminate | intros d; exact L]. Qed.

Lemma last_ok_set_first : forall s l, last_ok l -> last_ok (set_first s l).
Proof.
  intros s l [N L]. split.
  - destruct l as [|[]]; [congruence | discriminate].
  - intros d. rewrite lastt_set_first. apply L.
Qed.

Lemma sparen_ok : forall l, l <> [] -> lay_ok l -> lay_ok (sparen l) /\ hd_ok (sparen l) /\ last_ok (sparen l).
Proof.
  intros l N A. unfold sparen. split; [|split].
  - unfold lay_ok. change ((Glue, TP LPAREN) :: set_first Glue l ++ [(Glue, TP RPAREN)])
      with (((Glue, TP LPAREN) :: set_first Glue l) ++ [(Glue, TP RPAREN)]).
    rewrite (adj_app layP _ _ (TP LPAREN)) by discriminate. split.
    + destruct l as [|[s t] r]; [congruence|]. simpl. split; [intros H; discriminate H|]. exact A.
    + simpl. split; [intros H; discriminate H | exact I].
  - simpl. split; [reflexivity | discriminate].
  - change ((Glue, TP LPAREN) :: set_first Glue l ++ [(Glue, TP RPAREN)])
      with (((Glue, TP LPAREN) :: set_first Glue l) ++ [(Glue, TP RPAREN)]).
    apply last_ok_app. apply last_ok_single. reflexivity.
Qed.

(* junctions whose flag is not Layout are trivially fine *)
Lemma adj_from_nolayout : forall prev s t r, s <> Layout -> lay_ok ((s, t) :: r) ->
  adj_from layP prev ((s, t) :: r).
Proof. intros prev s t r N A. simpl. split; [intros H; simpl in H; congruence | exact A]. Qed.

Definition ok3 (l : list (sp * tok)) : Prop := lay_ok l /\ hd_ok l /\ last_ok l.

Lemma ok3_nonempty : forall l, ok3 l -> l <> [].
Proof. intros l (_ & _ & [N _]). exact N. Qed.

(* binary node: X op Y with the operator's spacing flag on both sides *)
Lemma bin_ok : forall o X Y, 1 <= binprec o -> ok3 X -> ok3 Y ->
  ok3 (X ++ (bin_sp o, TOp o) :: set_first (bin_sp o) Y).
Proof.
  intros o X Y P (AX & HX & LX) (AY & HY & LY). split; [|split].
  - unfold lay_ok. rewrite (adj_app layP X _ (TOp o)) by (apply LX). split; [exact AX|].
    simpl. split.
    + intros B. simpl in B. simpl. apply sep_last_op; [apply LX | exact P | exact B].
    + destruct Y as [|[s t] r]; [exact I|]. simpl. split; [|exact AY].
      intros B. simpl in B. simpl. destruct HY as [F W]. apply sep_op_first; assumption.
  - apply hd_ok_app. exact HX.
  - apply last_ok_app. destruct LY as [NY LY]. split; [discriminate|].
    intros d. change ((bin_sp o, TOp o) :: set_first (bin_sp o) Y) with ([(bin_sp o, TOp o)] ++ set_first (bin_sp o) Y).
    rewrite lastt_app by (destruct Y as [|[]]; [congruence | discriminate]).
    rewrite lastt_set_first. apply LY.
Qed.

(* gluing pieces with flags that are never Layout *)
Lemma app_ok_nolayout : forall X s t Y, ok3 X -> s <> Layout -> lay_ok ((s, t) :: Y) -> last_ok ((s, t) :: Y) ->
  ok3 (X ++ (s, t) :: Y).
Proof.
  intros X s t Y (AX & HX & LX) N AY LY. split; [|split].
  - unfold lay_ok. rewrite (adj_app layP X _ t) by (apply LX). split; [exact AX|].
    apply adj_from_nolayout; assumption.
  - apply hd_ok_app. exact HX.
  - apply last_ok_app. exact LY.
Qed.

Lemma lay_ok_cons_nolayout : forall s t s' t' r, s' <> Layout -> lay_ok ((s', t') :: r) -> lay_ok ((s, t) :: (s', t') :: r).
Proof. intros. unfold lay_ok in *. simpl in *. split; [intros E; simpl in E; congruence | assumption]. Qed.

Lemma lay_ok_set_first_nl : forall s t s' l, s' <> Layout -> lay_ok l -> lay_ok ((s, t) :: set_first s' l).
Proof.
  intros s t s' [|[s0 t0] r] N A; [exact I|]. simpl set_first. apply lay_ok_cons_nolayout; [exact N|exact A].
Qed.

Lemma last_ok_cons : forall x l, last_ok l -> last_ok (x :: l).
Proof. intros x l L. change (x :: l) with ([x] ++ l). apply last_ok_app. exact L. Qed.

(* argument lists *)
Definition spargs (f : expr -> list (sp * tok)) : bool -> list expr -> list (sp * tok) :=
  fix go (first : bool) (l : list expr) : list (sp * tok) :=
    match l with
    | [] => []
    | x :: l' =>
      let xs := set_first (if first then Glue else Blank) (f x) in
      match l' with
      | [] => xs
      | _ => xs ++ (Glue, TP COMMA) :: go false l'
      end
    end.

Lemma spargs_cons2 : forall f b x y r,
  spargs f b (x :: y :: r) = set_first (if b then Glue else Blank) (f x) ++ (Glue, TP COMMA) :: spargs f false (y :: r).
Proof. reflexivity. Qed.

Lemma spargs_one : forall f b x, spargs f b [x] = set_first (if b then Glue else Blank) (f x).
Proof. reflexivity. Qed.

Definition first_nolayout (l : list (sp * tok)) : Prop :=
  match l with (s, _) :: _ => s <> Layout | [] => True end.

Lemma first_nolayout_set_first : forall (b : bool) l, first_nolayout (set_first (if b then Glue else Blank) l).
Proof. intros b [|[s t] r]; simpl; [exact I | destruct b; discriminate]. Qed.

Lemma args_ok3 : forall (f : expr -> list (sp * tok)) (a : list expr) (b : bool),
  All (fun x => ok3 (f x)) a ->
  lay_ok (spargs f b a) /\ (a <> [] -> last_ok (spargs f b a)) /\ first_nolayout (spargs f b a).
Proof.
  induction a as [|x r IH]; intros b A.
  - simpl. repeat split; auto.
  - simpl in A. destruct A as [Ax Ar]. specialize (IH false Ar).
    assert (OX : ok3 (set_first (if b then Glue else Blank) (f x))).
    { destruct Ax as (AX & HX & LX).
      split; [unfold lay_ok; rewrite adj_set_first; exact AX|].
      split; [apply hd_ok_set_first; exact HX | apply last_ok_set_first; exact LX]. }
    destruct r as [|y r'].
    + rewrite spargs_one. split; [apply OX|]. split; [intros _; apply OX | apply first_nolayout_set_first].
    + rewrite spargs_cons2. destruct IH as (AR & LR & FR).
      assert (LRR : last_ok (spargs f false (y :: r'))) by (apply LR; discriminate).
      assert (AC : lay_ok ((Glue, TP COMMA) :: spargs f false (y :: r'))).
      { destruct (spargs f false (y :: r')) as [|[s0 t0] r0]; [exact I|].
        apply lay_ok_cons_nolayout; [exact FR | exact AR]. }
      destruct (app_ok_nolayout _ Glue (TP COMMA) (spargs f false (y :: r')) OX) as (A1 & H1 & L1);
        try assumption; try discriminate.
      { apply last_ok_cons. exact LRR. }
      split; [exact A1|]. split; [intros _; exact L1|].
      destruct OX as (_ & HX & _).
      destruct (set_first (if b then Glue else Blank) (f x)) as [|[s t] r0] eqn:E; [destruct HX|].
      simpl. pose proof (first_nolayout_set_first b (f x)) as F. rewrite E in F. exact F.
Qed.

Lemma ok3_set_first_nl : forall s l, ok3 l -> ok3 (set_first s l).
Proof.
  intros s l (A & H & L). split; [unfold lay_ok; rewrite adj_set_first; exact A|].
  split; [apply hd_ok_set_first; exact H | apply last_ok_set_first; exact L].
Qed.

Lemma ok3_sparen : forall l, ok3 l -> ok3 (sparen l).
Proof. intros l O. apply sparen_ok; [apply (ok3_nonempty _ O) | apply O]. Qed.

(* bracketed tail: X open inner close, all flags Glue *)
Lemma bracket_ok : forall X open inner close, ok3 X -> lay_ok inner ->
  first_nolayout inner ->
  lastL close = true ->
  ok3 (X ++ (Glue, open) :: inner ++ [(Glue, close)]).
Proof.
  intros X open inner close OX AI FI LC.
  apply app_ok_nolayout; try assumption; try discriminate.
  - change ((Glue, open) :: inner ++ [(Glue, close)]) with (((Glue, open) :: inner) ++ [(Glue, close)]).
    unfold lay_ok. rewrite (adj_app layP _ _ open) by discriminate. split.
    + destruct inner as [|[s t] r]; [exact I|]. apply lay_ok_cons_nolayout; assumption.
    + simpl. split; [intros E; discriminate E | exact I].
  - change ((Glue, open) :: inner ++ [(Glue, close)]) with (((Glue, open) :: inner) ++ [(Glue, close)]).
    apply last_ok_app. apply last_ok_single. exact LC.
Qed.

Theorem sp1_layout_ok : forall e, valid e -> atoms_wf e -> forall q, ok3 (sp1 e q).
Proof.
  induction e using expr_ind2; intros V W q; simpl in V, W.
  - simpl. split; [exact I|]. split.
    + simpl. unfold firstF. rewrite V. split; [reflexivity | intros _; exact W].
    + apply last_ok_single. unfold lastL. rewrite V. reflexivity.
  - destruct V as (P & Vx & Vy). destruct W as [Wx Wy].
    pose proof (bin_ok o _ _ P (IHe1 Vx Wx (binprec o)) (IHe2 Vy Wy (S (binprec o)))) as B.
    simpl. destruct (binprec o <? q); [apply ok3_sparen|]; exact B.
  - destruct V as (U & Vx). specialize (IHe Vx W unary_prec).
    assert (B : ok3 ((Glue, TOp o) :: set_first (if opt_combine (Some (TOp o)) (first_tok (sp1 e unary_prec)) then Blank else Glue) (sp1 e unary_prec))).
    { split; [|split].
      - apply lay_ok_set_first_nl; [destruct (opt_combine _ _); discriminate | apply IHe].
      - simpl. unfold firstF. simpl. rewrite U. split; [reflexivity | discriminate].
      - apply last_ok_cons. apply last_ok_set_first. apply IHe. }
    simpl. destruct (unary_prec <? q); [apply ok3_sparen|]; exact B.
  - destruct V as (S & Vx). destruct W as [Wx Wl]. specialize (IHe Vx Wx highest_prec).
    simpl. apply app_ok_nolayout; try exact IHe.
    + destruct (opt_combine _ _); discriminate.
    + unfold lay_ok. simpl. split; [intros E; discriminate E | exact I].
    + change [(if opt_combine (last_tok (sp1 e highest_prec)) (Some (TP PERIOD)) then Blank else Glue, TP PERIOD); (Glue, l)]
        with ([(if opt_combine (last_tok (sp1 e highest_prec)) (Some (TP PERIOD)) then Blank else Glue, TP PERIOD)] ++ [(Glue, l)]).
      apply last_ok_app. apply last_ok_single. unfold lastL. rewrite S. rewrite orb_true_r. reflexivity.
  - destruct V as (Vx & Vi). destruct W as [Wx Wi].
    specialize (IHe1 Vx Wx highest_prec). specialize (IHe2 Vi Wi 0).
    simpl. apply bracket_ok; try assumption; try reflexivity.
    + unfold lay_ok. rewrite adj_set_first. apply IHe2.
    + destruct (sp1 e2 0) as [|[s t] r]; [exact I | discriminate].
  - destruct V as (Vf & Va). destruct W as [Wf Wa]. specialize (IHe Vf Wf highest_prec).
    assert (AA : All (fun x => ok3 (sp1 x 0)) a).
    { clear -H Va Wa. induction a as [|x r IH]; [exact I|]. simpl in *.
      destruct H as [Hx Hr], Va as [Vx Vr], Wa as [Wx Wr]. split; [apply Hx; assumption | apply IH; assumption]. }
    destruct (args_ok3 (fun x => sp1 x 0) a true AA) as (A1 & _ & F1).
    change (sp1 (ECall e a) q) with (sp1 e highest_prec ++ (Glue, TP LPAREN) :: spargs (fun x => sp1 x 0) true a ++ [(Glue, TP RPAREN)]).
    apply bracket_ok; try assumption; reflexivity.
  - specialize (IHe V W 0). simpl. destruct (is_paren e); [exact IHe | apply ok3_sparen; exact IHe].
Qed.

Theorem sp2_layout_ok : forall e, valid e -> atoms_wf e -> forall m, ok3 (sp2 m e).
Proof.
  induction e using expr_ind2; intros V W m; simpl in V, W.
  - simpl. split; [exact I|]. split.
    + simpl. unfold firstF. rewrite V. split; [reflexivity | intros _; exact W].
    + apply last_ok_single. unfold lastL. rewrite V. reflexivity.
  - destruct V as (P & Vx & Vy). destruct W as [Wx Wy].
    pose proof (bin_ok o _ _ P (IHe1 Vx Wx (MOperand (binprec o))) (IHe2 Vy Wy (MOperand (S (binprec o))))) as PB.
    assert (CB : ok3 (sp2 (MChain o) e1 ++ (Blank, TOp o) :: set_first Blank (sp2 (MChain o) e2))).
    { apply app_ok_nolayout; try apply (IHe1 Vx Wx); try discriminate.
      - apply lay_ok_set_first_nl; [discriminate | apply (IHe2 Vy Wy)].
      - apply last_ok_cons. apply last_ok_set_first. apply (IHe2 Vy Wy). }
    assert (DB : ok3 (if chain_case o (EBin o e1 e2)
                      then sp2 (MChain o) e1 ++ (Blank, TOp o) :: set_first Blank (sp2 (MChain o) e2)
                      else sp2 (MOperand (binprec o)) e1 ++ (bin_sp o, TOp o) :: set_first (bin_sp o) (sp2 (MOperand (S (binprec o))) e2))).
    { destruct (chain_case o (EBin o e1 e2)); assumption. }
    cbn [sp2]. destruct m as [|o'|q'].
    + exact DB.
    + destruct (op_eqb o o'); [exact CB|]. destruct (binprec o <? binprec o'); [apply ok3_sparen|]; exact DB.
    + destruct (q' <=? binprec o); [exact PB | apply ok3_sparen; exact DB].
  - destruct V as (U & Vx). specialize (IHe Vx W (MOperand unary_prec)).
    assert (B : ok3 ((Glue, TOp o) :: set_first (match un_inner e with
                                                 | Some o' => if v2_unary_merges o o' then Blank else Glue
                                                 | None => Glue
                                                 end) (sp2 (MOperand unary_prec) e))).
    { split; [|split].
      + apply lay_ok_set_first_nl; [|apply IHe]. destruct (un_inner e); [destruct (v2_unary_merges o o0)|]; discriminate.
      + simpl. unfold firstF. simpl. rewrite U. split; [reflexivity | discriminate].
      + apply last_ok_cons. apply last_ok_set_first. apply IHe. }
    cbn [sp2]. destruct m as [|o'|q]; try exact B.
    destruct (unary_prec <? q); [apply ok3_sparen|]; exact B.
  - destruct V as (S & Vx). destruct W as [Wx Wl]. specialize (IHe Vx Wx (MOperand highest_prec)).
    simpl. apply app_ok_nolayout; try exact IHe.
    + destruct (is_int_atom e); discriminate.
    + unfold lay_ok. simpl. split; [intros E; discriminate E | exact I].
    + change [(if is_int_atom e then Blank else Glue, TP PERIOD); (Glue, l)]
        with ([(if is_int_atom e then Blank else Glue, TP PERIOD)] ++ [(Glue, l)]).
      apply last_ok_app. apply last_ok_single. unfold lastL. rewrite S. rewrite orb_true_r. reflexivity.
  - destruct V as (Vx & Vi). destruct W as [Wx Wi].
    specialize (IHe1 Vx Wx (MOperand highest_prec)). specialize (IHe2 Vi Wi MDisp).
    simpl. apply bracket_ok; try assumption; try reflexivity.
    + unfold lay_ok. rewrite adj_set_first. apply IHe2.
    + destruct (sp2 MDisp e2) as [|[s t] r]; [exact I | discriminate].
  - destruct V as (Vf & Va). destruct W as [Wf Wa]. specialize (IHe Vf Wf (MOperand highest_prec)).
    assert (AA : All (fun x => ok3 (sp2 MDisp x)) a).
    { clear -H Va Wa. induction a as [|x r IH]; [exact I|]. simpl in *.
      destruct H as [Hx Hr], Va as [Vx Vr], Wa as [Wx Wr]. split; [apply Hx; assumption | apply IH; assumption]. }
    destruct (args_ok3 (fun x => sp2 MDisp x) a true AA) as (A1 & _ & F1).
    change (sp2 m (ECall e a)) with (sp2 (MOperand highest_prec) e ++ (Glue, TP LPAREN) :: spargs (fun x => sp2 MDisp x) true a ++ [(Glue, TP RPAREN)]).
    apply bracket_ok; try assumption; reflexivity.
  - specialize (IHe V W MDisp). simpl. destruct (is_paren e); [exact IHe | apply ok3_sparen; exact IHe].
Qed.

(* no hazards (Glue pairs) + layout pairs are safe  ==>  sep_ok *)
Lemma hazards_lay_sep_from : forall l prev, hazards_from prev l = [] -> adj_from layP prev l ->
  sep_ok_from prev l = true.
Proof.
  induction l as [|[s t] r IH]; intros prev H A; [reflexivity|].
  simpl in *. destruct A as [A1 A2].
  apply app_eq_nil in H. destruct H as [H1 H2]. rewrite (IH t H2 A2), andb_true_r.
  destruct s.
  - destruct (needs_sep prev t); [discriminate | reflexivity].
  - reflexivity.
  - pose proof (A1 eq_refl) as A3. simpl in A3. rewrite A3. reflexivity.
Qed.

Lemma hazards_lay_sep : forall l, hazards l = [] -> lay_ok l -> sep_ok l = true.
Proof. intros [|[s t] r] H A; [reflexivity|]. simpl in *. apply hazards_lay_sep_from; assumption. Qed.

(* the model's own criterion: when it predicts no hazardous pair, the printed text
   reads back, for every choice of the layout engine *)
Theorem v1_reads_back_when_no_hazard : forall e, valid e -> atoms_wf e -> Forall tok_wf (print1 e) ->
  hazards (sp1 e 0) = [] -> forall ch,
  scan (render (resolve ch 0 (sp1 e 0))) = Some (print1 e) /\ parse (print1 e) = Some (canon e 0).
Proof.
  intros e V W T H ch. apply v1_text_reads_back; try assumption.
  apply hazards_lay_sep; [exact H | apply (sp1_layout_ok e V W 0)].
Qed.

Theorem v2_reads_back_when_no_hazard : forall e, valid e -> atoms_wf e -> v2_safe e = true ->
  Forall tok_wf (print2 e) -> hazards (sp2 MDisp e) = [] -> forall ch,
  scan (render (resolve ch 0 (sp2 MDisp e))) = Some (print2 e) /\ parse (print2 e) = Some (canon e 0).
Proof.
  intros e V W S T H ch. apply v2_text_reads_back; try assumption.
  apply hazards_lay_sep; [exact H | apply (sp2_layout_ok e V W MDisp)].
Qed.
