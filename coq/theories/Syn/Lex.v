(* Syn/Lex.v - token classes of CUE, their spelling, and a model of
   cue/scanner/scanner.go Scanner.Scan restricted to the single-line,
   comment-free, ASCII fragment in which expressions are printed.

   Characters are N: ASCII codes below 128; a code >= 256 stands for one
   complete, self-delimiting literal (string / bytes literal) that is opaque
   here (cue/literal is modelled under C09).  [scan] returns None when it meets
   anything outside the modelled fragment (quotes, braces, newlines, '@',
   non-decimal numbers, exponents, multipliers, '_' inside numbers, non-ASCII).

   No proofs in this file. *)
From Coq Require Import List NArith Bool.
Import ListNotations.
Open Scope N_scope.

(* token.Token operators (cue/token/token.go) *)
Inductive op :=
| ADD | SUB | MUL | QUO | AND | OR | LAND | LOR
| EQL | NEQ | LSS | LEQ | GTR | GEQ | MAT | NMAT | NOT
| ARROW | BIND | TILDE.

Inductive punct :=
| LPAREN | RPAREN | LBRACK | RBRACK | COMMA | PERIOD | COLON | OPTION | ELLIPSIS.

Inductive tok :=
| TIdent (s : list N)      (* IDENT and keywords: the spelling *)
| TInt (s : list N)        (* INT: decimal digits *)
| TFloat (s : list N)      (* FLOAT: digits '.' digits, or '.' digits *)
| TLit (id : N)            (* opaque self-delimiting literal (STRING) *)
| TBottom                  (* _|_ *)
| TOp (o : op)
| TP (p : punct).

Definition op_eqb (a b : op) : bool :=
  match a, b with
  | ADD, ADD | SUB, SUB | MUL, MUL | QUO, QUO | AND, AND | OR, OR | LAND, LAND | LOR, LOR
  | EQL, EQL | NEQ, NEQ | LSS, LSS | LEQ, LEQ | GTR, GTR | GEQ, GEQ | MAT, MAT | NMAT, NMAT
  | NOT, NOT | ARROW, ARROW | BIND, BIND | TILDE, TILDE => true
  | _, _ => false
  end.

(* ---- spelling ---------------------------------------------------------- *)

Definition spell_op (o : op) : list N :=
  match o with
  | ADD => [43] | SUB => [45] | MUL => [42] | QUO => [47]
  | AND => [38] | OR => [124] | LAND => [38; 38] | LOR => [124; 124]
  | EQL => [61; 61] | NEQ => [33; 61] | LSS => [60] | LEQ => [60; 61]
  | GTR => [62] | GEQ => [62; 61] | MAT => [61; 126] | NMAT => [33; 126]
  | NOT => [33] | ARROW => [60; 45] | BIND => [61] | TILDE => [126]
  end.

Definition spell_punct (p : punct) : list N :=
  match p with
  | LPAREN => [40] | RPAREN => [41] | LBRACK => [91] | RBRACK => [93]
  | COMMA => [44] | PERIOD => [46] | COLON => [58] | OPTION => [63]
  | ELLIPSIS => [46; 46; 46]
  end.

Definition lit_base : N := 256.

Definition spell (t : tok) : list N :=
  match t with
  | TIdent s => s
  | TInt s => s
  | TFloat s => s
  | TLit id => [lit_base + id]
  | TBottom => [95; 124; 95]
  | TOp o => spell_op o
  | TP p => spell_punct p
  end.

(* render: each token optionally preceded by one blank *)
Fixpoint render (ts : list (bool * tok)) : list N :=
  match ts with
  | [] => []
  | (b, t) :: r => (if b then [32] else []) ++ spell t ++ render r
  end.

(* ---- scanner ----------------------------------------------------------- *)

Definition is_digit (c : N) : bool := (48 <=? c) && (c <=? 57).
Definition is_letter (c : N) : bool :=
  ((97 <=? c) && (c <=? 122)) || ((65 <=? c) && (c <=? 90)).
(* the loop class of scanFieldIdentifier / scanIdentifier *)
Definition is_idc (c : N) : bool :=
  is_letter c || is_digit c || (c =? 95) || (c =? 36).

Fixpoint span (p : N -> bool) (cs : list N) : list N * list N :=
  match cs with
  | c :: r => if p c then let (a, b) := span p r in (c :: a, b) else ([], cs)
  | [] => ([], [])
  end.

(* scanner.go scanFieldIdentifier *)
Definition scan_field_ident (cs : list N) : list N * list N :=
  match cs with
  | c :: r =>
    if c =? 35 then
      match r with
      | d :: _ => if is_digit d then ([35], r)
                  else let (a, b) := span is_idc r in (35 :: a, b)
      | [] => ([35], [])
      end
    else span is_idc cs
  | [] => ([], [])
  end.

Definition hd_is (p : N -> bool) (cs : list N) : bool :=
  match cs with c :: _ => p c | [] => false end.

Definition next_is (c : N) (cs : list N) : bool := hd_is (fun d => d =? c) cs.

(* after a number: '_' continues the mantissa, e/E start an exponent, K M G T P
   a multiplier, x X b o (after "0") another base - all outside the model; any
   other letter simply ends the number *)
Definition is_num_suffix (c : N) : bool :=
  (c =? 95) || (c =? 101) || (c =? 69) || (c =? 75) || (c =? 77) || (c =? 71) ||
  (c =? 84) || (c =? 80) || (c =? 120) || (c =? 88) || (c =? 98) || (c =? 111).
Definition bad_after_num (cs : list N) : bool := hd_is is_num_suffix cs.

Definition lead_zero (ds : list N) : bool :=
  match ds with d :: _ :: _ => d =? 48 | _ => false end.

(* scanner.go scanNumber(false); cs starts with a digit *)
Definition scan_number (cs : list N) : option (tok * list N) :=
  let (ds, r) := span is_digit cs in
  if lead_zero ds then None                     (* leading zero: octal / illegal *)
  else if next_is 46 r then
    if next_is 46 (tl r) then Some (TInt ds, r) (* "1.." : the dot starts a range *)
    else let (fs, r3) := span is_digit (tl r) in
         if bad_after_num r3 then None else Some (TFloat (ds ++ 46 :: fs), r3)
  else if bad_after_num r then None else Some (TInt ds, r).

Definition is_single (l : list N) : bool := match l with [_] => true | _ => false end.

(* one token; cs does not start with a blank *)
Definition scan1 (cs : list N) : option (tok * list N) :=
  match cs with
  | [] => None
  | c :: r =>
    if is_digit c then scan_number cs
    else if is_letter c || (c =? 36) || (c =? 35) then
      let (lit, r') := scan_field_ident cs in
      if is_single lit && (c =? 35) && hd_is (fun d => (d =? 39) || (d =? 34) || (d =? 35) || (lit_base <=? d)) r'
      then None else Some (TIdent lit, r')
    else if lit_base <=? c then Some (TLit (c - lit_base), r)
    else if c =? 95 then                                     (* '_' *)
      if next_is 124 r && next_is 95 (tl r) then Some (TBottom, tl (tl r))
      else let (lit, r') := scan_field_ident r in
           if is_single lit && next_is 95 lit && next_is 35 r' then None  (* "__#" is illegal *)
           else Some (TIdent (95 :: lit), r')
    else if c =? 58 then Some (TP COLON, r)
    else if c =? 63 then Some (TP OPTION, r)
    else if c =? 126 then Some (TOp TILDE, r)
    else if c =? 46 then                                     (* '.' *)
      if hd_is is_digit r then
        let (fs, r3) := span is_digit r in
        if bad_after_num r3 then None else Some (TFloat (46 :: fs), r3)
      else if next_is 46 r then
        if next_is 46 (tl r) then Some (TP ELLIPSIS, tl (tl r)) else None
      else Some (TP PERIOD, r)
    else if c =? 44 then Some (TP COMMA, r)
    else if c =? 40 then Some (TP LPAREN, r)
    else if c =? 41 then Some (TP RPAREN, r)
    else if c =? 91 then Some (TP LBRACK, r)
    else if c =? 93 then Some (TP RBRACK, r)
    else if c =? 43 then Some (TOp ADD, r)
    else if c =? 45 then Some (TOp SUB, r)
    else if c =? 42 then Some (TOp MUL, r)
    else if c =? 47 then                                     (* '/' *)
      if next_is 47 r then None                              (* comment *)
      else Some (TOp QUO, r)
    else if c =? 60 then                                     (* '<' *)
      if next_is 45 r then Some (TOp ARROW, tl r)
      else if next_is 61 r then Some (TOp LEQ, tl r)
      else Some (TOp LSS, r)
    else if c =? 62 then
      if next_is 61 r then Some (TOp GEQ, tl r) else Some (TOp GTR, r)
    else if c =? 61 then                                     (* '=' *)
      if next_is 126 r then Some (TOp MAT, tl r)
      else if next_is 61 r then Some (TOp EQL, tl r)
      else Some (TOp BIND, r)
    else if c =? 33 then                                     (* '!' *)
      if next_is 126 r then Some (TOp NMAT, tl r)
      else if next_is 61 r then Some (TOp NEQ, tl r)
      else Some (TOp NOT, r)
    else if c =? 38 then
      if next_is 38 r then Some (TOp LAND, tl r) else Some (TOp AND, r)
    else if c =? 124 then
      if next_is 124 r then Some (TOp LOR, tl r) else Some (TOp OR, r)
    else None
  end.

Definition is_blank (c : N) : bool := c =? 32.

Fixpoint skip_blanks (cs : list N) : list N :=
  match cs with
  | c :: r => if is_blank c then skip_blanks r else cs
  | [] => []
  end.

Fixpoint scan_fuel (fuel : nat) (cs : list N) : option (list tok) :=
  match fuel with
  | O => None
  | S n =>
    match skip_blanks cs with
    | [] => Some []
    | cs' =>
      match scan1 cs' with
      | Some (t, r) => match scan_fuel n r with Some l => Some (t :: l) | None => None end
      | None => None
      end
    end
  end.

Definition scan (cs : list N) : option (list tok) := scan_fuel (S (length cs)) cs.

(* ---- separation -------------------------------------------------------- *)

(* A token is well formed when its spelling scans back to exactly itself. *)
Definition tok_wf (t : tok) : Prop := scan1 (spell t) = Some (t, []).

Definition tok_eqb_spell (t u : tok) : bool :=
  match t, u with
  | TIdent _, TIdent _ | TInt _, TInt _ | TFloat _, TFloat _ | TLit _, TLit _
  | TBottom, TBottom | TOp _, TOp _ | TP _, TP _ => true
  | _, _ => false
  end.

(* [follow1 t c]: may character c directly follow token t without changing how
   t is scanned (conservative: false in some harmless cases). *)
Definition follow1 (t : tok) (c : N) : bool :=
  match t with
  | TIdent s =>
    negb (is_idc c || (c =? 35)) &&
    negb (is_single s && next_is 95 s && (c =? 124)) &&
    negb (is_single s && next_is 35 s && ((lit_base <=? c) || (c =? 34) || (c =? 39)))
  | TInt _ => negb (is_digit c || is_letter c || (c =? 95) || (c =? 46))
  | TFloat s =>
    negb (is_digit c || is_letter c || (c =? 95)) &&
    negb (next_is 46 (rev s) && (c =? 46))
  | TLit _ => true
  | TBottom => true
  | TOp LSS => negb ((c =? 45) || (c =? 61))
  | TOp GTR => negb (c =? 61)
  | TOp BIND => negb ((c =? 126) || (c =? 61))
  | TOp NOT => negb ((c =? 126) || (c =? 61))
  | TOp AND => negb (c =? 38)
  | TOp OR => negb (c =? 124)
  | TOp QUO => negb (c =? 47)
  | TOp _ => true
  | TP PERIOD => negb (is_digit c || (c =? 46))
  | TP _ => true
  end.

(* the separation table: two adjacent tokens must be separated by a blank *)
Definition needs_sep (t u : tok) : bool :=
  match spell u with
  | c :: _ => negb (follow1 t c)
  | [] => true
  end.

(* a sequence is separated when every pair printed without a blank is safe *)
Fixpoint separated_from (prev : tok) (ts : list (bool * tok)) : bool :=
  match ts with
  | [] => true
  | (b, t) :: r => (b || negb (needs_sep prev t)) && separated_from t r
  end.

Definition separated (ts : list (bool * tok)) : bool :=
  match ts with
  | [] => true
  | (_, t) :: r => separated_from t r
  end.

(* ---- the implementation's own tables ----------------------------------- *)

(* cue/format/printer.go opCombinesWith(prev, lead): a unary < > or ! written
   directly before text starting with lead would lex as another token *)
Definition v1_op_combines (prev : tok) (c : N) : bool :=
  match prev with
  | TOp LSS => (c =? 45) || (c =? 61)      (* <-  <= *)
  | TOp GTR | TOp NOT => c =? 61           (* >=  != *)
  | _ => false
  end.

(* cue/format/printer.go mayCombine(prev, next).before for operator tokens:
   prev is the class of the last printed token, the decision looks at the first
   byte of the next token; every other prev goes to opCombinesWith.
   (Keywords are not modelled.) *)
Definition v1_may_combine (prev u : tok) : bool :=
  match prev, spell u with
  | TInt _, _ => match u with TP PERIOD => true | _ => false end
  | TOp ADD, c :: _ => c =? 43
  | TOp SUB, c :: _ => c =? 45
  | TOp QUO, c :: _ => c =? 42
  | _, c :: _ => v1_op_combines prev c
  | _, [] => false
  end.

(* internal/pretty/ast.go unaryOpMergesWithOperand(op, operand) where the
   operand is a unary expression with operator [inner] *)
Definition v2_unary_merges (o inner : op) : bool :=
  match spell_op inner with
  | c :: _ =>
    match o with
    | LSS => (c =? 45) || (c =? 61)
    | GTR | NOT => c =? 61
    | _ => false
    end
  | [] => false
  end.
