(* Syn/Expr.v - CUE expression trees, the two expression printers of cue/format
   and the expression parser of cue/parser, at the token level.

     pr1   cue/format/node.go  exprRaw / binaryExpr / UnaryExpr / ParenExpr ...
           (the printer used when CUE_EXPERIMENT=formatv2=0)
     pr2   internal/pretty/ast.go  exprCore / binaryExpr / chainGroupArms /
           binaryExprPrec / binaryOperand / wrapForPrecedence / unaryExpr ...
           (the default printer of the pinned tree: cueexperiment FormatV2)
     parse cue/parser/parser.go  parseBinaryExpr / parseBinaryExprTail /
           parseUnaryExpr / parsePrimaryExprTail / parseOperand /
           parseCallOrConversion / parseIndexOrSlice

   Literals and identifiers are atoms (tokens of Syn/Lex.v); string quoting is
   not modelled here (C09).  Struct and list literals, slices, the postfix
   operators `?` and `...`, interpolations, comprehensions and aliases are
   outside the model (file-level exploration covers them).

   sp1 / sp2 additionally give, for every printed token, what the printer puts
   before it when the AST carries no positions: nothing (Glue), a blank (Blank)
   or a layout-dependent choice that the model leaves open (Layout).

   No proofs in this file. *)
From Coq Require Import List NArith Bool Arith.
From Verif Require Import Syn.Lex.
Import ListNotations.
Open Scope nat_scope.

(* token.Token.Precedence *)
Definition binprec (o : op) : nat :=
  match o with
  | OR => 1 | AND => 2 | LOR => 3 | LAND => 4
  | EQL | NEQ | LSS | LEQ | GTR | GEQ | MAT | NMAT => 5
  | ADD | SUB => 6
  | MUL | QUO => 7
  | _ => 0
  end.

(* the operators accepted by parseUnaryExpr (EQL: the structcmp experiment,
   stable since language version v0.15.0) *)
Definition is_unop (o : op) : bool :=
  match o with
  | EQL | ADD | SUB | NOT | MUL | LSS | LEQ | GEQ | GTR | NEQ | MAT | NMAT => true
  | _ => false
  end.

Definition is_atom (t : tok) : bool :=
  match t with TIdent _ | TInt _ | TFloat _ | TLit _ | TBottom => true | _ => false end.

(* what parsePrimaryExprTail accepts after a period *)
Definition is_sel (t : tok) : bool :=
  match t with TIdent _ | TLit _ => true | _ => false end.

Inductive expr :=
| EAtom (t : tok)
| EBin (o : op) (x y : expr)
| EUn (o : op) (x : expr)
| ESel (x : expr) (l : tok)
| EIdx (x i : expr)
| ECall (f : expr) (args : list expr)
| EParen (x : expr).

Definition unary_prec := 8.
Definition highest_prec := 9.

Definition level (e : expr) : nat :=
  match e with
  | EBin o _ _ => binprec o
  | EUn _ _ => unary_prec
  | _ => highest_prec
  end.

Definition paren (l : list tok) : list tok := TP LPAREN :: l ++ [TP RPAREN].

Definition is_paren (e : expr) : bool := match e with EParen _ => true | _ => false end.

(* ---- V1: cue/format/node.go ------------------------------------------- *)

Fixpoint pr1 (e : expr) (q : nat) {struct e} : list tok :=
  match e with
  | EAtom t => [t]
  | EBin o x y =>
    let p := binprec o in
    let body := pr1 x p ++ TOp o :: pr1 y (S p) in
    if p <? q then paren body else body
  | EUn o x =>
    let body := TOp o :: pr1 x unary_prec in
    if unary_prec <? q then paren body else body
  | ESel x l => pr1 x highest_prec ++ [TP PERIOD; l]
  | EIdx x i => pr1 x highest_prec ++ TP LBRACK :: pr1 i 0 ++ [TP RBRACK]
  | ECall f args =>
    pr1 f highest_prec ++ TP LPAREN ::
      (fix go (l : list expr) : list tok :=
         match l with
         | [] => []
         | a :: l' => match l' with
                      | [] => pr1 a 0
                      | _ => pr1 a 0 ++ TP COMMA :: go l'
                      end
         end) args ++ [TP RPAREN]
  | EParen x =>
    if is_paren x then pr1 x 0 else paren (pr1 x 0)
  end.

Definition print1 (e : expr) : list tok := pr1 e 0.

(* ---- V2: internal/pretty/ast.go --------------------------------------- *)

(* flattenBinaryChain: the arms of a same-operator chain *)
Fixpoint arms (o : op) (e : expr) : list expr :=
  match e with
  | EBin o' x y => if op_eqb o' o then arms o x ++ arms o y else [e]
  | _ => [e]
  end.

(* isContiguousOpener on the modelled node kinds *)
Definition is_opener (e : expr) : bool :=
  match e with EParen _ | ECall _ _ | EIdx _ _ => true | _ => false end.

Definition is_chain_op (o : op) : bool :=
  match o with OR | AND => true | _ => false end.

(* binaryExpr: does this node go to chainGroupArms (true) or binaryExprPrec? *)
Definition chain_case (o : op) (e : expr) : bool :=
  is_chain_op o &&
  match arms o e with
  | _ :: (_ :: _) as tl => negb (forallb is_opener tl)
  | _ => true
  end.

Inductive mode :=
| MDisp                (* converter.expr *)
| MChain (o : op)      (* inside flattenBinaryChain / armExpr of a chain of o *)
| MOperand (q : nat).  (* binaryOperand(e, q); also the wrapForPrecedence(., e, q) contexts *)

Definition is_bin (e : expr) : bool := match e with EBin _ _ _ => true | _ => false end.

Fixpoint pr2 (m : mode) (e : expr) {struct e} : list tok :=
  match e with
  | EAtom t => [t]
  | EBin o x y =>
    let p := binprec o in
    let precbody := pr2 (MOperand p) x ++ TOp o :: pr2 (MOperand (S p)) y in
    let chainbody := pr2 (MChain o) x ++ TOp o :: pr2 (MChain o) y in
    let disp := if chain_case o e then chainbody else precbody in
    match m with
    | MDisp => disp
    | MChain o' =>
      if op_eqb o o' then chainbody
      else if p <? binprec o' then paren disp else disp
    | MOperand q => if q <=? p then precbody else paren disp
    end
  | EUn o x =>
    (* wrapForPrecedence: a unary expression is parenthesised in the postfix
       contexts (selector, index, call), which bind tighter *)
    let body := TOp o :: pr2 (MOperand unary_prec) x in
    match m with
    | MOperand q => if unary_prec <? q then paren body else body
    | _ => body
    end
  | ESel x l => pr2 (MOperand highest_prec) x ++ [TP PERIOD; l]
  | EIdx x i => pr2 (MOperand highest_prec) x ++ TP LBRACK :: pr2 MDisp i ++ [TP RBRACK]
  | ECall f args =>
    pr2 (MOperand highest_prec) f ++ TP LPAREN ::
      (fix go (l : list expr) : list tok :=
         match l with
         | [] => []
         | a :: l' => match l' with
                      | [] => pr2 MDisp a
                      | _ => pr2 MDisp a ++ TP COMMA :: go l'
                      end
         end) args ++ [TP RPAREN]
  | EParen x =>
    if is_paren x then pr2 MDisp x else paren (pr2 MDisp x)
  end.

Definition print2 (e : expr) : list tok := pr2 MDisp e.

(* ---- parser ----------------------------------------------------------- *)

Fixpoint p_unary (n : nat) (ts : list tok) {struct n} : option (expr * list tok) :=
  match n with
  | O => None
  | S n' =>
    match ts with
    | TOp o :: r =>
      if is_unop o then
        match p_unary n' r with
        | Some (x, r') => Some (EUn o x, r')
        | None => None
        end
      else None
    | _ =>
      match p_operand n' ts with
      | Some (x, r) => p_ptail n' x r
      | None => None
      end
    end
  end
with p_operand (n : nat) (ts : list tok) {struct n} : option (expr * list tok) :=
  match n with
  | O => None
  | S n' =>
    match ts with
    | TP LPAREN :: r =>
      match p_binary n' 1 r with
      | Some (x, TP RPAREN :: r') => Some (EParen x, r')
      | _ => None
      end
    | t :: r => if is_atom t then Some (EAtom t, r) else None
    | [] => None
    end
  end
with p_ptail (n : nat) (x : expr) (ts : list tok) {struct n} : option (expr * list tok) :=
  match n with
  | O => None
  | S n' =>
    match ts with
    | TP PERIOD :: r =>
      match r with
      | l :: r' => if is_sel l then p_ptail n' (ESel x l) r' else None
      | [] => None
      end
    | TP LBRACK :: r =>
      match p_binary n' 1 r with
      | Some (i, TP RBRACK :: r') => p_ptail n' (EIdx x i) r'
      | Some (i, TP COMMA :: TP RBRACK :: r') => p_ptail n' (EIdx x i) r'
      | _ => None
      end
    | TP LPAREN :: r =>
      match p_args n' r with
      | Some (a, r') => p_ptail n' (ECall x a) r'
      | None => None
      end
    | _ => Some (x, ts)
    end
  end
with p_args (n : nat) (ts : list tok) {struct n} : option (list expr * list tok) :=
  match n with
  | O => None
  | S n' =>
    match ts with
    | TP RPAREN :: r => Some ([], r)
    | _ =>
      match p_binary n' 1 ts with
      | Some (a, TP COMMA :: r) =>
        match p_args n' r with
        | Some (l, r') => Some (a :: l, r')
        | None => None
        end
      | Some (a, TP RPAREN :: r) => Some ([a], r)
      | _ => None
      end
    end
  end
with p_binary (n : nat) (q : nat) (ts : list tok) {struct n} : option (expr * list tok) :=
  match n with
  | O => None
  | S n' =>
    match p_unary n' ts with
    | Some (x, r) => p_btail n' q x r
    | None => None
    end
  end
with p_btail (n : nat) (q : nat) (x : expr) (ts : list tok) {struct n} : option (expr * list tok) :=
  match n with
  | O => None
  | S n' =>
    match ts with
    | TOp o :: r =>
      if q <=? binprec o then
        match p_binary n' (S (binprec o)) r with
        | Some (y, r') => p_btail n' q (EBin o x y) r'
        | None => None
        end
      else Some (x, ts)
    | _ => Some (x, ts)
    end
  end.

Definition fuel_of (ts : list tok) : nat := 5 * length ts + 5.

(* parseExpr on a complete token list *)
Definition parse (ts : list tok) : option expr :=
  match p_binary (fuel_of ts) 1 ts with
  | Some (e, []) => Some e
  | _ => None
  end.

(* cue fmt restricted to one expression, for either printer *)
Definition fmt1 (ts : list tok) : option (list tok) :=
  match parse ts with Some e => Some (print1 e) | None => None end.
Definition fmt2 (ts : list tok) : option (list tok) :=
  match parse ts with Some e => Some (print2 e) | None => None end.

(* ---- tree normalisations ---------------------------------------------- *)

(* remove every ParenExpr node *)
Fixpoint unparen (e : expr) : expr :=
  match e with
  | EAtom t => EAtom t
  | EBin o x y => EBin o (unparen x) (unparen y)
  | EUn o x => EUn o (unparen x)
  | ESel x l => ESel (unparen x) l
  | EIdx x i => EIdx (unparen x) (unparen i)
  | ECall f a => ECall (unparen f) (map unparen a)
  | EParen x => unparen x
  end.

(* the one documented normalisation: ((x)) -> (x) *)
Fixpoint collapse (e : expr) : expr :=
  match e with
  | EAtom t => EAtom t
  | EBin o x y => EBin o (collapse x) (collapse y)
  | EUn o x => EUn o (collapse x)
  | ESel x l => ESel (collapse x) l
  | EIdx x i => EIdx (collapse x) (collapse i)
  | ECall f a => ECall (collapse f) (map collapse a)
  | EParen x => if is_paren x then collapse x else EParen (collapse x)
  end.

(* the tree that printing with pr1 at context precedence q denotes: explicit
   ParenExpr nodes exactly where pr1 emits parentheses *)
Fixpoint canon (e : expr) (q : nat) {struct e} : expr :=
  match e with
  | EAtom t => EAtom t
  | EBin o x y =>
    let p := binprec o in
    let b := EBin o (canon x p) (canon y (S p)) in
    if p <? q then EParen b else b
  | EUn o x =>
    let b := EUn o (canon x unary_prec) in
    if unary_prec <? q then EParen b else b
  | ESel x l => ESel (canon x highest_prec) l
  | EIdx x i => EIdx (canon x highest_prec) (canon i 0)
  | ECall f a => ECall (canon f highest_prec) (map (fun x => canon x 0) a)
  | EParen x => if is_paren x then canon x 0 else EParen (canon x 0)
  end.

(* ---- where print2 deviates on trees without ParenExpr nodes ------------ *)
(* (a unary operand of a postfix operator is parenthesised since the fix of
   wrapForPrecedence; the remaining deviation is the flattening of chains) *)

Definition same_chain_op (o : op) (e : expr) : bool :=
  match e with EBin o' _ _ => op_eqb o' o | _ => false end.

(* a | or & node whose right operand is a node of the same operator:
   flattenBinaryChain loses the grouping *)
Fixpoint right_nested_chain (e : expr) : bool :=
  match e with
  | EAtom _ => false
  | EBin o x y => (is_chain_op o && same_chain_op o y) || right_nested_chain x || right_nested_chain y
  | EUn _ x => right_nested_chain x
  | ESel x _ => right_nested_chain x
  | EIdx x i => right_nested_chain x || right_nested_chain i
  | ECall f a => right_nested_chain f || existsb right_nested_chain a
  | EParen x => right_nested_chain x
  end.

Definition v2_safe (e : expr) : bool := negb (right_nested_chain e).

(* ---- spacing (position-free ASTs) ------------------------------------- *)

Inductive sp := Glue | Blank | Layout.

Definition set_first (s : sp) (l : list (sp * tok)) : list (sp * tok) :=
  match l with
  | (_, t) :: r => (s, t) :: r
  | [] => []
  end.

Definition sparen (l : list (sp * tok)) : list (sp * tok) :=
  (Glue, TP LPAREN) :: set_first Glue l ++ [(Glue, TP RPAREN)].

Definition first_tok (l : list (sp * tok)) : option tok :=
  match l with (_, t) :: _ => Some t | [] => None end.

Definition last_tok (l : list (sp * tok)) : option tok :=
  match rev l with (_, t) :: _ => Some t | [] => None end.

(* blanks around a binary operator: binaryExpr printBlank := prec < cutoff with
   cutoff >= 6 always; for precedence 6 and 7 the choice depends on cutoff and
   depth (and mayCombine), which is layout *)
Definition bin_sp (o : op) : sp := if binprec o <=? 5 then Blank else Layout.

Definition opt_combine (prev : option tok) (u : option tok) : bool :=
  match prev, u with
  | Some a, Some b => v1_may_combine a b
  | _, _ => false
  end.

Fixpoint sp1 (e : expr) (q : nat) {struct e} : list (sp * tok) :=
  match e with
  | EAtom t => [(Glue, t)]
  | EBin o x y =>
    let p := binprec o in
    let body := sp1 x p ++ (bin_sp o, TOp o) :: set_first (bin_sp o) (sp1 y (S p)) in
    if p <? q then sparen body else body
  | EUn o x =>
    let xs := sp1 x unary_prec in
    let s := if opt_combine (Some (TOp o)) (first_tok xs) then Blank else Glue in
    let body := (Glue, TOp o) :: set_first s xs in
    if unary_prec <? q then sparen body else body
  | ESel x l =>
    let xs := sp1 x highest_prec in
    let s := if opt_combine (last_tok xs) (Some (TP PERIOD)) then Blank else Glue in
    xs ++ [(s, TP PERIOD); (Glue, l)]
  | EIdx x i =>
    sp1 x highest_prec ++ (Glue, TP LBRACK) :: set_first Glue (sp1 i 0) ++ [(Glue, TP RBRACK)]
  | ECall f args =>
    sp1 f highest_prec ++ (Glue, TP LPAREN) ::
      (fix go (first : bool) (l : list expr) : list (sp * tok) :=
         match l with
         | [] => []
         | a :: l' =>
           let xs := set_first (if first then Glue else Blank) (sp1 a 0) in
           match l' with
           | [] => xs
           | _ => xs ++ (Glue, TP COMMA) :: go false l'
           end
         end) true args ++ [(Glue, TP RPAREN)]
  | EParen x =>
    if is_paren x then sp1 x 0 else sparen (sp1 x 0)
  end.

(* internal/pretty/ast.go intLitMergesWithPeriod: the head of a selector chain is
   a decimal integer literal (the only INT spelling of this model) *)
Definition is_int_atom (e : expr) : bool :=
  match e with EAtom (TInt _) => true | _ => false end.

Definition un_inner (e : expr) : option op :=
  match e with EUn o _ => Some o | _ => None end.

Fixpoint sp2 (m : mode) (e : expr) {struct e} : list (sp * tok) :=
  match e with
  | EAtom t => [(Glue, t)]
  | EBin o x y =>
    let p := binprec o in
    let s := bin_sp o in
    let precbody := sp2 (MOperand p) x ++ (s, TOp o) :: set_first s (sp2 (MOperand (S p)) y) in
    let chainbody := sp2 (MChain o) x ++ (Blank, TOp o) :: set_first Blank (sp2 (MChain o) y) in
    let disp := if chain_case o e then chainbody else precbody in
    match m with
    | MDisp => disp
    | MChain o' =>
      if op_eqb o o' then chainbody
      else if p <? binprec o' then sparen disp else disp
    | MOperand q => if q <=? p then precbody else sparen disp
    end
  | EUn o x =>
    let s := match un_inner x with
             | Some o' => if v2_unary_merges o o' then Blank else Glue
             | None => Glue
             end in
    let body := (Glue, TOp o) :: set_first s (sp2 (MOperand unary_prec) x) in
    match m with
    | MOperand q => if unary_prec <? q then sparen body else body
    | _ => body
    end
  | ESel x l =>
    sp2 (MOperand highest_prec) x ++ [(if is_int_atom x then Blank else Glue, TP PERIOD); (Glue, l)]
  | EIdx x i =>
    sp2 (MOperand highest_prec) x ++ (Glue, TP LBRACK) :: set_first Glue (sp2 MDisp i) ++ [(Glue, TP RBRACK)]
  | ECall f args =>
    sp2 (MOperand highest_prec) f ++ (Glue, TP LPAREN) ::
      (fix go (first : bool) (l : list expr) : list (sp * tok) :=
         match l with
         | [] => []
         | a :: l' =>
           let xs := set_first (if first then Glue else Blank) (sp2 MDisp a) in
           match l' with
           | [] => xs
           | _ => xs ++ (Glue, TP COMMA) :: go false l'
           end
         end) true args ++ [(Glue, TP RPAREN)]
  | EParen x =>
    if is_paren x then sp2 MDisp x else sparen (sp2 MDisp x)
  end.

(* pairs printed with nothing between them although the scanner needs a blank *)
Fixpoint hazards_from (prev : tok) (l : list (sp * tok)) : list (tok * tok) :=
  match l with
  | [] => []
  | (s, t) :: r =>
    (match s with
     | Glue => if needs_sep prev t then [(prev, t)] else []
     | _ => []
     end) ++ hazards_from t r
  end.

Definition hazards (l : list (sp * tok)) : list (tok * tok) :=
  match l with
  | [] => []
  | (_, t) :: r => hazards_from t r
  end.

(* resolve the open layout choices with a choice function *)
Fixpoint resolve (ch : nat -> bool) (i : nat) (l : list (sp * tok)) : list (bool * tok) :=
  match l with
  | [] => []
  | (s, t) :: r =>
    (match s with Glue => false | Blank => true | Layout => ch i end, t) :: resolve ch (S i) r
  end.
