(* requiredHashCount is sufficient: the closing delimiter of a multi-line
   literal (three quotes followed by hashCount hashes) occurs nowhere in the
   text that is quoted. *)
From Verif Require Import Utf8.Model Lit.Quote Lit.Unquote Lit.Basics Lit.Loops.
From Coq Require Import Lia.

Lemma after_triple_some : forall q t t1, after_triple q t = Some t1 ->
  exists p0, t = p0 ++ triple q ++ t1 /\
    forall pre u, t = pre ++ triple q ++ u -> (length p0 <= length pre)%nat.
Proof.
  intros q t. induction t as [|a t IH]; intros t1 H; [discriminate|].
  cbn [after_triple] in H.
  destruct t as [|b [|c r]]; try discriminate.
  destruct ((a =? q) && (b =? q) && (c =? q)) eqn:E.
  - inversion H; subst.
    apply andb_prop in E. destruct E as [E Ec]. apply andb_prop in E. destruct E as [Ea Eb].
    apply N.eqb_eq in Ea, Eb, Ec. subst. exists []. split; [reflexivity|]. intros. cbn. lia.
  - destruct (IH _ H) as [p0 [Hp Hmin]]. exists (a :: p0). split.
    + cbn [app]. now rewrite <- Hp.
    + intros pre u Eu. destruct pre as [|x pre].
      * cbn in Eu. inversion Eu; subst. rewrite !N.eqb_refl in E. discriminate.
      * cbn [app] in Eu. inversion Eu; subst. cbn [length]. apply le_n_S. apply (Hmin pre u). assumption.
Qed.

Lemma app_eq_prefix : forall (p0 pre x y : str), p0 ++ x = pre ++ y ->
  (length p0 <= length pre)%nat -> exists d, pre = p0 ++ d.
Proof.
  induction p0 as [|a p0 IH]; intros pre x y E L; [exists pre; reflexivity|].
  destruct pre as [|b pre]; [cbn in L; lia|].
  cbn [app] in E. inversion E; subst. cbn [length] in L.
  destruct (IH pre x y H1 ltac:(lia)) as [d ->]. exists d. reflexivity.
Qed.

Lemma after_triple_occ : forall q pre post, after_triple q (pre ++ triple q ++ post) <> None.
Proof.
  intros q pre post. induction pre as [|x pre IH].
  - cbn. rewrite !N.eqb_refl. discriminate.
  - cbn [app after_triple].
    destruct (pre ++ triple q ++ post) as [|b [|c r]] eqn:Er.
    + destruct pre; discriminate.
    + destruct pre as [|? [|? ?]]; discriminate.
    + destruct ((x =? q) && (b =? q) && (c =? q)); [discriminate|exact IH].
Qed.

Lemma after_triple_none : forall q t pre post, after_triple q t = None -> t <> pre ++ triple q ++ post.
Proof. intros q t pre post H E. subst t. eapply after_triple_occ; eauto. Qed.

(* a run of q's followed by something that does not start with q: where a
   triple can start *)
Lemma triple_in_run : forall q k t2 d y,
  match t2 with x :: _ => x <> q | [] => True end ->
  repeat q k ++ t2 = d ++ triple q ++ y ->
  (exists j, y = repeat q j ++ t2) \/ (exists d2, t2 = d2 ++ triple q ++ y).
Proof.
  intros q k t2 d. revert k. induction d as [|x d IH]; intros k y Ht2 E.
  - cbn [app] in E.
    destruct k as [|[|[|k]]]; cbn [repeat app] in E.
    + right. exists []. exact E.
    + destruct t2 as [|a [|b t2]]; try discriminate. inversion E; subst. contradiction.
    + destruct t2 as [|a t2]; try discriminate. inversion E; subst. contradiction.
    + left. exists k. unfold triple in E. now inversion E.
  - destruct k as [|k].
    + right. exists (x :: d). exact E.
    + cbn [repeat app] in E. inversion E; subst. eapply IH; eauto.
Qed.

Lemma triple_after_hashes : forall q n t3 d y, q <> ch_hash ->
  hashes n ++ t3 = d ++ triple q ++ y -> exists d3, t3 = d3 ++ triple q ++ y.
Proof.
  intros q n t3 d y Hq. revert d. induction n as [|n IH]; intros d E.
  - exists d. exact E.
  - destruct d as [|x d].
    + cbn in E. inversion E. congruence.
    + change (hashes (S n)) with (ch_hash :: hashes n) in E. cbn [app] in E. inversion E; subst.
      eapply IH; eauto.
Qed.

Lemma rhc_loop_mono : forall fuel q t a, (a <= rhc_loop fuel q t a)%nat.
Proof.
  induction fuel as [|k IH]; intros q t a; cbn [rhc_loop]; [lia|].
  destruct (after_triple q t); [|lia].
  etransitivity; [|apply IH]. lia.
Qed.

(* every occurrence of three quotes followed by h hashes is exceeded *)
Lemma rhc_loop_spec : forall q, q <> ch_hash -> forall fuel t a h pre post,
  (length t <= fuel)%nat -> t = pre ++ triple q ++ hashes h ++ post ->
  (h < rhc_loop fuel q t a)%nat.
Proof.
  intros q Hq. induction fuel as [|k IH]; intros t a h pre post Hl E.
  { destruct t; [destruct pre; discriminate|cbn in Hl; lia]. }
  cbn [rhc_loop].
  destruct (after_triple q t) as [t1|] eqn:Ea.
  2:{ exfalso. eapply after_triple_none; eauto. }
  destruct (after_triple_some _ _ _ Ea) as [p0 [Hp0 Hmin]].
  destruct (drop_prefix_split q t1) as [Hd1 Hd2].
  set (m := count_prefix q t1) in *. set (t2 := drop_prefix q t1) in *.
  destruct (count_prefix_split ch_hash t2) as [Hc1 Hc2].
  set (n := count_prefix ch_hash t2) in *. set (t3 := skipn n t2) in *.
  (* t = p0 ++ q^(3+m) ++ #^n ++ t3 *)
  assert (Ht : t = p0 ++ repeat q (3 + m) ++ t2).
  { rewrite Hp0. f_equal. rewrite Hd1 at 1. cbn [repeat plus app triple]. reflexivity. }
  assert (Hlen3 : (length t3 <= k)%nat).
  { rewrite Ht, Hc1 in Hl. rewrite !app_length, !repeat_length in Hl. cbn [plus] in Hl. lia. }
  (* the given occurrence does not start before the first one *)
  destruct (app_eq_prefix p0 pre (repeat q (3 + m) ++ t2) (triple q ++ hashes h ++ post)) as [d ->].
  { rewrite <- Ht. exact E. }
  { eapply Hmin. exact E. }
  rewrite Ht in E. rewrite <- app_assoc in E. apply app_inv_head in E.
  destruct (triple_in_run q (3 + m) t2 d (hashes h ++ post) Hd2 E) as [[j Hj]|[d2 Hd2']].
  - (* the occurrence lies in the run of quotes: its hashes are the counted ones *)
    eapply Nat.lt_le_trans; [|apply rhc_loop_mono].
    destruct h as [|h]; [lia|].
    destruct j as [|j].
    + cbn [repeat app] in Hj.
      assert (S h <= n)%nat; [|lia].
      unfold n. rewrite <- Hj. clear. induction h; cbn; [lia|].
      change (ch_hash =? ch_hash) with true in *. cbn in *. lia.
    + cbn in Hj. inversion Hj. congruence.
  - (* the occurrence lies after the run: after the counted hashes *)
    rewrite Hc1 in Hd2'. fold (hashes n) in Hd2'. fold t3 in Hd2'.
    destruct (triple_after_hashes q n t3 d2 _ Hq Hd2') as [d3 Hd3].
    eapply IH; eauto.
Qed.

Theorem required_hash_count_sufficient : forall q s, q <> ch_hash ->
  no_delim q (required_hash_count q s) s.
Proof.
  intros q s Hq pre post E.
  pose proof (rhc_loop_spec q Hq (length s) s 0 (required_hash_count q s) pre post (le_n _) E) as H.
  unfold required_hash_count in H. lia.
Qed.
