(* Text that Unquote reads back unchanged: the fast path of QuoteInfo.Unquote
   (isSimple) and the hash-delimited single-line form produced by
   WithOptionalHashes (singleLineHashCount), where Quote emits the text raw. *)
From Verif Require Import Utf8.Model Utf8.Proofs Lit.Quote Lit.Unquote Lit.Basics Lit.Steps Lit.Loops.
From Coq Require Import ZArith Lia ZifyN ZifyNat ZifyBool.
Ltac Zify.zify_post_hook ::= Z.div_mod_to_equations.

(* [plain qc nh rest s]: s is a sequence of valid runes, none of them NUL, CR or
   LF, and every quote or backslash is followed (in s ++ rest) by fewer than nh
   hashes -- so it is neither a closing delimiter nor an escape introducer *)
Inductive plain (qc : N) (nh : nat) (rest : str) : str -> Prop :=
| plain_nil : plain qc nh rest []
| plain_cons : forall r tl, scalar r -> r <> 0 -> r <> ch_nl -> r <> ch_cr ->
    ((r = qc \/ r = ch_bs) -> (count_prefix ch_hash (tl ++ rest) < nh)%nat) ->
    plain qc nh rest tl -> plain qc nh rest (utf8_encode r ++ tl).

Section Raw.
  Variable wrap : bool.
  Variable pr_tbl gr_tbl : N -> bool.
  Notation unq_loop := (unq_loop wrap).

  Lemma raw_loop : forall qc nh ws rest s, plain qc nh rest s ->
    qc = ch_dq \/ qc = ch_sq ->
    forall fuel rbuf st we, (length (s ++ rest) < fuel)%nat ->
    exists fuel' st' we', (length rest < fuel')%nat /\
      unq_loop fuel (mkQ nh false qc 1 ws) (s ++ rest) rbuf st we =
      unq_loop fuel' (mkQ nh false qc 1 ws) rest (rev s ++ rbuf) st' we' /\
      (st = false -> we = false -> st' = false /\ we' = false).
  Proof.
    intros qc nh ws rest s Hp Hq. set (Q := mkQ nh false qc 1 ws).
    induction Hp as [|r tl Hsc H0 Hnl Hcr Hrun Hp IH]; intros fuel rbuf st we Hfuel.
    { exists fuel, st, we. cbn [app rev] in *. auto. }
    destruct fuel as [|k]; [lia|].
    rewrite <- app_assoc in *.
    assert (Hk : (length (tl ++ rest) < k)%nat).
    { rewrite app_length in Hfuel. pose proof (encode_length_bounds r). lia. }
    destruct (N.ltb_spec r 0x80) as [Hlt|Hge].
    - rewrite encode_ascii in * by assumption. cbn [app rev] in *.
      assert (Hstep : unq_loop (S k) Q (r :: tl ++ rest) rbuf st we =
                      unq_loop k Q (tl ++ rest) (r :: rbuf) false false).
      { replace (r :: rbuf) with (if false then rev (utf8_encode r) ++ rbuf else (r mod 256) :: rbuf)
          by (rewrite N.mod_small; [reflexivity|lia]).
        apply (unq_step wrap k Q r (tl ++ rest) rbuf st we r false (tl ++ rest));
          try assumption; try lia.
        destruct (N.eqb_spec r qc) as [->|Hne].
        - apply (uc_quote_short_run wrap Q); try reflexivity.
          + cbn. unfold ch_dq, ch_sq in *; lia.
          + apply Hrun. now left.
        - destruct (N.eqb_spec r ch_bs) as [->|Hnb].
          + apply (uc_backslash_short_run wrap Q).
            * cbn. unfold ch_bs, ch_dq, ch_sq in *; lia.
            * apply Hrun. now right.
          + apply uc_ascii; assumption. }
      rewrite Hstep.
      destruct (IH k (r :: rbuf) false false Hk) as [fuel' [st' [we' [H1 [H2 H3]]]]].
      exists fuel', st', we'. split; [assumption|]. split.
      + rewrite H2. now rewrite <- app_assoc.
      + intros. apply H3; reflexivity.
    - destruct (encode_high r Hge) as [_ [b [t [E Hb]]]].
      assert (Hstep : unq_loop (S k) Q (utf8_encode r ++ tl ++ rest) rbuf st we =
                      unq_loop k Q (tl ++ rest) (rev (utf8_encode r) ++ rbuf) false false).
      { assert (US := unq_step wrap k Q b (t ++ tl ++ rest) rbuf st we r true (tl ++ rest)).
        cbv iota in US. change (b :: t ++ tl ++ rest) with ((b :: t) ++ tl ++ rest) in US.
        rewrite <- E in US.
        apply US; try (unfold ch_cr, ch_nl; lia).
        - apply uc_multibyte; auto. cbn. unfold ch_dq, ch_sq in *; lia.
        - destruct Hsc as [Hs1 Hs2]. lia. }
      rewrite Hstep.
      destruct (IH k (rev (utf8_encode r) ++ rbuf) false false Hk) as [fuel' [st' [we' [H1 [H2 H3]]]]].
      exists fuel', st', we'. split; [assumption|]. split.
      + rewrite H2. rewrite rev_app_distr. now rewrite <- app_assoc.
      + intros. apply H3; reflexivity.
  Qed.

  (* ---- isSimple implies plain (no hashes: quotes and backslashes excluded) ---- *)
  Lemma is_simple_plain : forall qc rest fuel s, (length s <= fuel)%nat ->
    is_simple fuel s qc = true ->
    Forall (fun x => x <> ch_nl /\ x <> ch_cr) s ->
    plain qc 0 rest s.
  Proof.
    intros qc rest. induction fuel as [|k IH]; intros s Hl Hs Hf.
    { destruct s; [constructor|cbn in Hl; lia]. }
    destruct s as [|b t]; [constructor|].
    cbn [is_simple] in Hs.
    pose proof (decode_spec b t) as DS. pose proof (decode_width b t) as W.
    destruct (utf8_decode (b :: t)) as [r w] eqn:D.
    destruct ((r =? qc) || (r =? ch_bs) || (r =? 0) || (r =? rune_error)) eqn:E1; [discriminate|].
    destruct ((55296 <=? r) && (r <? 57344)) eqn:E2; [discriminate|].
    assert (Hr : r <> qc /\ r <> ch_bs /\ r <> 0 /\ r <> rune_error) by lia.
    destruct DS as [[Hre _]|[Hsc [Hfirst [Hlen [Hwl [Hiff Heq]]]]]]; [lia|].
    rewrite <- (firstn_skipn w (b :: t)). rewrite Hfirst.
    assert (Hfs : Forall (fun x => x <> ch_nl /\ x <> ch_cr) (skipn w (b :: t))).
    { apply Forall_forall. intros x Hx. apply (proj1 (Forall_forall _ _) Hf).
      rewrite <- (firstn_skipn w (b :: t)). apply in_or_app. now right. }
    inversion Hf as [|? ? [Hb1 Hb2] _]; subst.
    assert (Hrn : r <> ch_nl /\ r <> ch_cr).
    { destruct (N.ltb_spec r 0x80) as [Hlt|Hge]; [rewrite (Heq Hlt); auto|].
      unfold ch_nl, ch_cr. lia. }
    constructor; try tauto.
    apply IH; try assumption. rewrite skipn_length. cbn [length] in *. lia.
  Qed.

  (* ---- singleLineHashCount: every rune printable and valid, and the count
     exceeds every run of hashes after a quote or backslash ---- *)
  Lemma slhc_loop_mono : forall f fuel t a h,
    slhc_loop pr_tbl gr_tbl f fuel t a = Some h -> (a <= h)%nat.
  Proof.
    intros f. induction fuel as [|k IH]; intros t a h H; cbn [slhc_loop] in H.
    { inversion H; lia. }
    destruct t as [|b t]; [inversion H; lia|].
    destruct (utf8_decode (b :: t)) as [r w].
    destruct ((128 <=? b) && Nat.eqb w 1); [discriminate|].
    destruct (negb (form_is_print pr_tbl gr_tbl f r)); [discriminate|].
    destruct ((r =? f_quote f) || (r =? ch_bs)); apply IH in H; lia.
  Qed.

  Lemma slhc_plain : forall f rest, match rest with x :: _ => x <> ch_hash | [] => True end ->
    forall fuel t a h, (length t <= fuel)%nat ->
    slhc_loop pr_tbl gr_tbl f fuel t a = Some h ->
    plain (f_quote f) h rest t.
  Proof.
    intros f rest Hrest. induction fuel as [|k IH]; intros t a h Hl H.
    { destruct t; [constructor|cbn in Hl; lia]. }
    destruct t as [|b t]; [constructor|].
    cbn [slhc_loop] in H.
    pose proof (decode_spec b t) as DS. pose proof (decode_width b t) as W.
    destruct (utf8_decode (b :: t)) as [r w] eqn:D.
    destruct ((128 <=? b) && Nat.eqb w 1) eqn:Einv; [discriminate|].
    destruct (form_is_print pr_tbl gr_tbl f r) eqn:Epr; [|discriminate]. cbn [negb] in H.
    destruct DS as [[Hre Hw1]|[Hsc [Hfirst [Hlen [Hwl [Hiff Heq]]]]]].
    { (* (RuneError, 1): either an invalid byte (excluded) or ... an ASCII byte cannot be U+FFFD *)
      subst. exfalso. destruct (N.ltb_spec b 0x80) as [Hlt|Hge].
      - rewrite (decode_ascii b t Hlt) in D. inversion D. unfold rune_error in *. lia.
      - cbn in Einv. lia. }
    assert (Hl' : (length (skipn w (b :: t)) <= k)%nat) by (rewrite skipn_length; cbn [length] in *; lia).
    rewrite <- (firstn_skipn w (b :: t)). rewrite Hfirst.
    assert (Hr0 : r <> 0 /\ r <> ch_nl /\ r <> ch_cr).
    { destruct (N.ltb_spec r 0x80) as [Hlt|Hge].
      - pose proof (print_ascii _ _ _ _ Epr Hlt). unfold ch_nl, ch_cr. lia.
      - unfold ch_nl, ch_cr. lia. }
    destruct ((r =? f_quote f) || (r =? ch_bs)) eqn:Eq.
    - constructor; try tauto.
      + intros _. pose proof (slhc_loop_mono _ _ _ _ _ H) as Hm.
        (* the run after the rune, within t, is counted; rest does not start with a hash *)
        assert (count_prefix ch_hash (skipn w (b :: t) ++ rest) = count_prefix ch_hash (skipn w (b :: t))).
        { destruct rest as [|x rest']; [now rewrite app_nil_r|]. now apply count_prefix_app_stop. }
        lia.
      + eapply IH; eauto.
    - constructor; try tauto.
      + intros [Hx|Hx]; subst r; [rewrite N.eqb_refl in Eq|rewrite N.eqb_refl, orb_true_r in Eq]; discriminate.
      + eapply IH; eauto.
  Qed.
End Raw.
