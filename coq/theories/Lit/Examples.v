(* Body-level statements of the sufficiency of the hash count, refutation witnesses
   for the classes on which the tree under test deviates, and non-vacuity
   examples for the round-trip theorems. *)
From Verif Require Import Utf8.Model Utf8.Proofs Lit.Quote Lit.Unquote Lit.Basics Lit.Steps
  Lit.Loops Lit.HashCount Lit.Raw Lit.RoundTrip.
From Coq Require Import ZArith Lia.

(* [plain] unfolded for one occurrence: a quote or backslash inside the text *)
Theorem plain_occurrence : forall qc nh rest a c b,
  plain qc nh rest (a ++ c :: b) -> c = qc \/ c = ch_bs -> c < 0x80 ->
  valid_utf8 a ->
  (count_prefix ch_hash (b ++ rest) < nh)%nat.
Proof.
  intros qc nh rest a c b Hp Hc Hc80 Ha. revert Hp.
  induction Ha as [|r a' Hsc Ha' IH]; intro Hp.
  - cbn [app] in Hp. inversion Hp as [|r tl Hsc H0 Hnl Hcr Hrun Hp' E]; subst.
    destruct (N.ltb_spec r 0x80) as [Hlt|Hge].
    + rewrite encode_ascii in E by assumption. cbn [app] in E. inversion E; subst. auto.
    + destruct (encode_high r Hge) as [_ [b0 [t0 [E0 Hb0]]]]. rewrite E0 in E. cbn [app] in E.
      inversion E; subst. lia.
  - rewrite <- app_assoc in Hp.
    inversion Hp as [|r0 tl Hsc0 H0 Hnl Hcr Hrun Hp' E]; subst.
    { destruct (utf8_encode r) eqn:Er; [exfalso; eapply encode_nonempty; eauto|discriminate]. }
    (* the first rune of both decompositions is the same *)
    assert (Hd1 := decode_encode r (a' ++ c :: b) Hsc).
    assert (Hd2 := decode_encode r0 tl Hsc0).
    rewrite <- E in Hd1. rewrite Hd2 in Hd1. inversion Hd1; subst r0.
    apply app_inv_head in E. subst tl. apply IH. exact Hp'.
Qed.

Section Sufficient.
  Variable pr_tbl gr_tbl : N -> bool.

  (* multi-line forms: at no rune boundary of the escaped text does the closing
     delimiter (three quotes and hashCount hashes) start -- in particular at no
     line start, which is where QuoteInfo.Unquote and the scanner look for it *)
  Theorem multi_body_no_closing : forall f s x t rest, public_form f -> is_bytes s ->
    s = x ++ t ->
    let q := f_quote f in
    let hc := required_hash_count q s in
    prefixb (triple q ++ hashes hc) (esc pr_tbl gr_tbl f true hc t ++ ch_nl :: rest) = false.
  Proof.
    intros f s x t rest Hpub Hb E q hc.
    pose proof (public_quote f Hpub) as Hq. fold q in Hq.
    assert (Hqh : q <> ch_hash) by (unfold ch_hash, ch_dq, ch_sq in *; lia).
    destruct (prefixb (triple q ++ hashes hc) (esc pr_tbl gr_tbl f true hc t ++ ch_nl :: rest)) eqn:Ep;
      [|reflexivity].
    exfalso.
    apply (proj_prefix pr_tbl gr_tbl f true hc Hpub _ t) in Ep; auto.
    - apply prefixb_spec in Ep. destruct Ep as [post Ep].
      pose proof (required_hash_count_sufficient q s Hqh) as Hnd. fold hc in Hnd.
      apply (Hnd x post). rewrite E, Ep. now rewrite <- app_assoc.
    - apply Forall_app. split; [repeat constructor; auto|].
      unfold hashes. apply Forall_forall. intros y Hy. apply repeat_spec in Hy. auto.
    - subst s. unfold is_bytes in *. apply Forall_app in Hb. tauto.
  Qed.

  (* single-line hash forms: the text is emitted raw, and in text ++ closing
     delimiter every quote and every backslash is followed by fewer than hashCount
     hashes -- no accidental closing delimiter, no accidental escape introducer;
     all runes are valid, printable and not line terminators *)
  Theorem single_line_hash_count_sufficient : forall f s, public_form f ->
    eff_multiline f s = false -> eff_hash pr_tbl gr_tbl f s <> 0%nat ->
    plain (f_quote f) (eff_hash pr_tbl gr_tbl f s)
          (f_quote f :: hashes (eff_hash pr_tbl gr_tbl f s)) s.
  Proof.
    intros f s Hpub Hml Hne.
    pose proof (public_quote f Hpub) as Hq.
    assert (Hqh : f_quote f <> ch_hash) by (unfold ch_hash, ch_dq, ch_sq in *; lia).
    pose proof (eff_hash_autohash pr_tbl gr_tbl f s Hpub Hml Hne) as Hsl.
    exact (slhc_plain pr_tbl gr_tbl f (f_quote f :: hashes (eff_hash pr_tbl gr_tbl f s)) Hqh
             (length s) s 1 _ (le_n _) Hsl).
  Qed.

End Sufficient.

(* bytes forms: EVERY byte sequence comes back unchanged; string forms: every valid
   UTF-8 text comes back unchanged *)
Theorem unquote_quote_bytes_forms : forall wrap pr_tbl gr_tbl f s,
  public_form f -> f_exact f = true -> is_bytes s ->
  unquote wrap (quote pr_tbl gr_tbl f s) = Ok s.
Proof.
  intros wrap pr gr f s Hp He Hb. rewrite unquote_quote_all by assumption.
  unfold expected. now rewrite He.
Qed.

Theorem unquote_quote_string_forms : forall wrap pr_tbl gr_tbl f s,
  public_form f -> is_bytes s -> valid_utf8 s ->
  unquote wrap (quote pr_tbl gr_tbl f s) = Ok s.
Proof.
  intros wrap pr gr f s Hp Hb Hv. rewrite unquote_quote_all by assumption.
  unfold expected. destruct (f_exact f); [reflexivity|]. now rewrite sanitize_valid.
Qed.

(* ---------------------------------------------------------------- witnesses ---- *)

Definition s_of (l : list N) : str := l.

(* regression witnesses of fix autohash: WithOptionalHashes on a text starting with two
   quotes uses regular quoting (the raw hash form  # q q q x q #  would be read as
   the opening of a multi-line string); a text starting with ONE quote keeps the hash form *)
Example autohash_lead_quotes : forall pr gr,
  quote pr gr (with_optional_hashes string_form) [34; 34; 120] = [34; 92; 34; 92; 34; 120; 34] /\
  unquote_impl (quote pr gr (with_optional_hashes string_form) [34; 34; 120]) = Ok [34; 34; 120] /\
  quote pr gr (with_optional_hashes string_form) [34; 34; 35] = [34; 92; 34; 92; 34; 35; 34] /\
  quote pr gr (with_optional_hashes string_form) [34; 120] = [35; 34; 34; 120; 34; 35] /\
  unquote_impl [35; 34; 34; 34; 120; 34; 35] = Err EMissingOpeningNewline.
Proof. intros. repeat split; vm_compute; reflexivity. Qed.

(* what fix unquote-U removed: with \U escapes accumulated in an int32, values
   >= 2^31 became negative runes *)
Example unquote_int32_panics :
  (* the string literal with the single escape \UFFFFFFFC *)
  unquote_int32 [34; 92; 85; 70; 70; 70; 70; 70; 70; 70; 67; 34] = Panic /\
  unquote_impl [34; 92; 85; 70; 70; 70; 70; 70; 70; 70; 67; 34] = Err ESyntax.
Proof. split; vm_compute; reflexivity. Qed.

Example unquote_big_U_rejected :
  (* abc\UFFFFFFFFdef (quoted) is an invalid escape; the int32 layer accepted it as abc *)
  unquote_impl [34; 97; 98; 99; 92; 85; 70; 70; 70; 70; 70; 70; 70; 70; 100; 101; 102; 34] = Err ESyntax /\
  unquote_int32 [34; 97; 98; 99; 92; 85; 70; 70; 70; 70; 70; 70; 70; 70; 100; 101; 102; 34] = Ok [97; 98; 99].
Proof. split; vm_compute; reflexivity. Qed.

Theorem unquote_int32_no_panic_refuted : exists s, unquote_int32 s = Panic.
Proof. eexists. exact (proj1 unquote_int32_panics). Qed.

(* ------------------------------------------------------------ non-vacuity ---- *)

(* the text  a q # b  with WithOptionalHashes gets two hashes *)
Example ex_hash_form : forall pr gr,
  let f := with_optional_hashes string_form in
  let s := [97; 34; 35; 98] in
  eff_multiline f s = false /\ eff_hash pr gr f s = 2%nat /\
  quote pr gr f s = [35; 35; 34; 97; 34; 35; 98; 34; 35; 35] /\
  unquote_impl (quote pr gr f s) = Ok s.
Proof. intros. repeat split; vm_compute; reflexivity. Qed.

(* multi-line bytes form, two tabs, text  a LF ''' # LF \xff  : two hashes needed *)
Example ex_multi_form : forall pr gr,
  let f := with_tab_indent bytes_form 2 in
  let s := [97; 10; 39; 39; 39; 35; 10; 255] in
  eff_multiline f s = true /\ eff_hash pr gr f s = 2%nat /\
  unquote_impl (quote pr gr f s) = Ok s /\ ~ valid_utf8 s.
Proof.
  intros. repeat split; try (vm_compute; reflexivity).
  intro H. apply sanitize_valid in H. vm_compute in H. discriminate.
Qed.

(* string form on invalid UTF-8: the invalid byte becomes U+FFFD, nothing else changes *)
Example ex_string_lossy : forall pr gr,
  let s := [97; 255; 98] in
  unquote_impl (quote pr gr string_form s) = Ok [97; 0xEF; 0xBF; 0xBD; 98] /\
  expected string_form s = [97; 0xEF; 0xBF; 0xBD; 98] /\
  expected bytes_form s = s.
Proof.
  intros pr gr s. subst s. split; [|split; vm_compute; reflexivity].
  (* pr 0xFFFD is unknown: both spellings (raw U+FFFD or the u-escape) read back the same *)
  unfold unquote_impl. rewrite (unquote_quote_all false pr gr string_form [97; 255; 98]).
  - vm_compute. reflexivity.
  - split; [reflexivity|left; split; reflexivity].
  - repeat constructor.
Qed.

Example ex_plain_hypotheses : plain 34 2 [34; 35; 35] [97; 34; 35; 98].
Proof.
  change [97; 34; 35; 98] with (utf8_encode 97 ++ utf8_encode 34 ++ utf8_encode 35 ++ utf8_encode 98 ++ []).
  repeat (constructor; try (unfold scalar, max_rune, ch_nl, ch_cr, ch_bs; lia);
          try (intros [H|H]; try discriminate; vm_compute; lia)).
Qed.
