(* unquote (quote f s) = Ok (expected f s): ParseQuotes on the literals that
   Quote produces, and the top-level round-trip theorems. *)
From Verif Require Import Utf8.Model Utf8.Proofs Lit.Quote Lit.Unquote Lit.Basics Lit.Steps
  Lit.Loops Lit.HashCount Lit.Raw.
From Coq Require Import ZArith Lia ZifyN ZifyNat ZifyBool.
Ltac Zify.zify_post_hook ::= Z.div_mod_to_equations.

(* the single-line literal looks like a multi-line opening: the text after the
   opening quote starts with two more quotes that are not followed by a hash *)
Definition look3 (q : N) (s1 : str) : bool :=
  match s1 with
  | c1 :: c2 :: c3 :: _ => (c1 =? q) && (c2 =? q) && negb (c3 =? ch_hash)
  | _ => false
  end.

Lemma pq_kind_single : forall q nh s1, look3 q s1 = false -> pq_kind q nh s1 = Ok None.
Proof.
  intros q nh s1 H. unfold pq_kind. destruct s1 as [|c1 [|c2 [|c3 s4]]]; try reflexivity.
  cbn [look3] in H. now rewrite H.
Qed.

Lemma rev_hashes : forall n, rev (hashes n) = hashes n.
Proof. intro n. apply rev_repeat. Qed.

Lemma rev_tabs : forall n, rev (tabs n) = tabs n.
Proof. intro n. apply rev_repeat. Qed.

Lemma rev_triple : forall q, rev (triple q) = triple q.
Proof. reflexivity. Qed.

Lemma firstn_hashes_app : forall n r, firstn n (hashes n ++ r) = hashes n.
Proof. intros. rewrite <- (hashes_length n) at 1. apply firstn_app_exact. Qed.

Lemma firstn_tabs_app : forall n r, firstn n (tabs n ++ r) = tabs n.
Proof. intros. rewrite <- (tabs_length n) at 1. apply firstn_app_exact. Qed.

(* ---- ParseQuotes on a single-line literal ---- *)
Lemma parse_quotes_single : forall q nh body, q = ch_dq \/ q = ch_sq ->
  look3 q (body ++ q :: hashes nh) = false ->
  let lit := hashes nh ++ q :: body ++ q :: hashes nh in
  parse_quotes lit lit = Ok (mkQ nh false q 1 [], (1 + nh)%nat, (1 + nh)%nat).
Proof.
  intros q nh body Hq Hl lit. unfold parse_quotes. cbv zeta.
  assert (Hqh : q <> ch_hash) by (unfold ch_hash, ch_dq, ch_sq in *; lia).
  assert (Hcp : count_prefix ch_hash lit = nh) by (unfold lit; apply count_prefix_hashes; exact Hqh).
  rewrite !Hcp.
  assert (Hsk0 : skipn nh lit = q :: body ++ q :: hashes nh) by (unfold lit; apply skipn_hashes).
  rewrite Hsk0.
  replace ((q =? ch_dq) || (q =? ch_sq)) with true by lia.
  rewrite (pq_kind_single q nh _ Hl).
  unfold pq_finish. cbv zeta.
  assert (Hf : firstn (1 + nh) lit = hashes nh ++ [q]).
  { unfold lit. replace (hashes nh ++ q :: body ++ q :: hashes nh)
      with ((hashes nh ++ [q]) ++ body ++ q :: hashes nh) by (now rewrite <- app_assoc).
    replace (1 + nh)%nat with (length (hashes nh ++ [q])) by (rewrite app_length, hashes_length; cbn; lia).
    apply firstn_app_exact. }
  assert (Hr : rev lit = (hashes nh ++ [q]) ++ rev body ++ q :: hashes nh).
  { unfold lit. rewrite rev_app_distr. cbn [rev]. rewrite rev_app_distr. cbn [rev].
    rewrite rev_hashes. rewrite <- !app_assoc. cbn [app]. reflexivity. }
  rewrite Hf, Hr, prefixb_app.
  replace (Nat.leb (1 + nh) (length lit)) with true.
  2:{ symmetry. apply Nat.leb_le. unfold lit. rewrite app_length, hashes_length. cbn [length]. lia. }
  reflexivity.
Qed.

(* ---- the backwards scan over the closing line's indentation ---- *)
Lemma ws_scan_tabs : forall n R fuel, (n < fuel)%nat ->
  ws_scan fuel (tabs n ++ ch_nl :: R) = (true, S (length R)).
Proof.
  induction n as [|n IH]; intros R fuel H; (destruct fuel as [|k]; [lia|]).
  - reflexivity.
  - change (tabs (S n)) with (ch_tab :: tabs n). cbn [app ws_scan].
    change (utf8_decode_last_rev (ch_tab :: tabs n ++ ch_nl :: R)) with (ch_tab, 1%nat).
    change ((ch_tab =? ch_nl) || negb (is_space ch_tab)) with false. cbv iota.
    cbn [skipn]. apply IH. lia.
Qed.

(* ---- ParseQuotes on a multi-line literal ----
   lit = #^hc qqq W \n \t^ind qqq #^hc  where W \n closing = \n Z *)
Lemma parse_quotes_multi : forall q hc ind W Z, q = ch_dq \/ q = ch_sq ->
  let cl := tabs ind ++ triple q ++ hashes hc in
  W ++ ch_nl :: cl = ch_nl :: Z ->
  let lit := hashes hc ++ triple q ++ W ++ ch_nl :: cl in
  let Q := mkQ hc true q 3 (tabs ind) in
  parse_quotes lit lit =
  match Z with
  | c :: _ =>
    if negb (c =? ch_nl) then
      if negb (prefixb (tabs ind) Z) then Err EInvalidWhitespace
      else Ok (Q, (4 + hc + ind)%nat, (3 + hc)%nat)
    else Ok (Q, (4 + hc)%nat, (3 + hc)%nat)
  | [] => Ok (Q, (4 + hc)%nat, (3 + hc)%nat)
  end.
Proof.
  intros q hc ind W Z Hq cl HZ lit Q. unfold parse_quotes. cbv zeta.
  assert (Hqh : q <> ch_hash) by (unfold ch_hash, ch_dq, ch_sq in *; lia).
  assert (Hlit : lit = hashes hc ++ q :: q :: q :: ch_nl :: Z).
  { unfold lit. rewrite HZ. reflexivity. }
  assert (Hcp : count_prefix ch_hash lit = hc) by (rewrite Hlit; apply count_prefix_hashes; exact Hqh).
  rewrite !Hcp.
  assert (Hsk0 : skipn hc lit = q :: q :: q :: ch_nl :: Z) by (rewrite Hlit; apply skipn_hashes).
  rewrite Hsk0.
  replace ((q =? ch_dq) || (q =? ch_sq)) with true by lia.
  unfold pq_kind. rewrite !N.eqb_refl.
  change (ch_nl =? ch_hash) with false. change (ch_nl =? ch_nl) with true. cbv iota. cbn [andb negb].
  cbv iota.
  unfold pq_finish. cbv zeta. cbv iota.
  assert (Hf : firstn (3 + hc) lit = hashes hc ++ triple q).
  { unfold lit. rewrite app_assoc.
    replace (3 + hc)%nat with (length (hashes hc ++ triple q)) by (rewrite app_length, hashes_length; cbn; lia).
    apply firstn_app_exact. }
  assert (Hr : rev lit = (hashes hc ++ triple q) ++ tabs ind ++ ch_nl :: rev W ++ triple q ++ hashes hc).
  { unfold lit, cl. rewrite !rev_app_distr. cbn [rev]. rewrite !rev_app_distr.
    rewrite rev_hashes, rev_tabs. cbn [rev app triple]. rewrite <- !app_assoc. cbn [app]. reflexivity. }
  assert (Hlen : length lit = (hc + 3 + length W + 1 + ind + 3 + hc)%nat).
  { unfold lit, cl. rewrite !app_length. cbn [length]. rewrite !app_length, !hashes_length, tabs_length.
    cbn [length triple]. lia. }
  rewrite Hf, Hr, prefixb_app.
  replace (Nat.leb (3 + hc) (length lit)) with true by (symmetry; apply Nat.leb_le; lia).
  cbn [andb negb].
  replace (3 + hc)%nat with (length (hashes hc ++ triple q)) at 1 2
    by (rewrite app_length, hashes_length; cbn; lia).
  rewrite skipn_app_exact.
  rewrite ws_scan_tabs by (rewrite app_length, tabs_length; cbn [length]; lia).
  cbn [negb].
  (* the whitespace of the closing line *)
  set (i := S (length (rev W ++ triple q ++ hashes hc))).
  assert (Hi : i = length (hashes hc ++ triple q ++ W ++ [ch_nl])).
  { unfold i. rewrite !app_length, rev_length, hashes_length. cbn [length triple]. lia. }
  assert (Hsk : skipn i lit = tabs ind ++ triple q ++ hashes hc).
  { rewrite Hi. unfold lit, cl.
    replace (hashes hc ++ triple q ++ W ++ ch_nl :: tabs ind ++ triple q ++ hashes hc)
      with ((hashes hc ++ triple q ++ W ++ [ch_nl]) ++ tabs ind ++ triple q ++ hashes hc)
      by (rewrite <- !app_assoc; cbn [app]; reflexivity).
    apply skipn_app_exact. }
  rewrite Hsk.
  replace (length lit - (3 + hc) - i)%nat with ind.
  2:{ rewrite Hi, Hlen, !app_length, hashes_length. cbn [length triple]. lia. }
  rewrite firstn_tabs_app.
  (* the first line *)
  replace (skipn (S (3 + hc)) lit) with Z.
  2:{ rewrite Hlit.
      replace (hashes hc ++ q :: q :: q :: ch_nl :: Z) with ((hashes hc ++ [q; q; q; ch_nl]) ++ Z)
        by (rewrite <- app_assoc; reflexivity).
      replace (S (3 + hc)) with (length (hashes hc ++ [q; q; q; ch_nl]))
        by (rewrite app_length, hashes_length; cbn; lia).
      now rewrite skipn_app_exact. }
  rewrite tabs_length.
  destruct Z as [|c Z']; [reflexivity|].
  destruct (negb (c =? ch_nl)); [|reflexivity].
  destruct (negb (prefixb (tabs ind) (c :: Z'))); [reflexivity|].
  replace (S (3 + hc) + ind)%nat with (4 + hc + ind)%nat by lia. reflexivity.
Qed.

Section RoundTrip.
  Variable wrap : bool.
  Variable pr_tbl gr_tbl : N -> bool.

  Notation quote := (quote pr_tbl gr_tbl).
  Notation esc := (esc pr_tbl gr_tbl).
  Notation unquote := (unquote wrap).
  Notation unq_loop := (unq_loop wrap).
  Notation eff_hash := (eff_hash pr_tbl gr_tbl).
  Notation single_line_hash_count := (single_line_hash_count pr_tbl gr_tbl).

  (* ---- first byte of the escaped text ---- *)
  Lemma esc_head : forall f ml hc b t, public_form f ->
    match esc f ml hc (b :: t) with
    | [] => False
    | x :: _ => (ml = false -> x <> f_quote f) /\ (b <> ch_nl -> x <> ch_nl) /\
                (ml = true -> b = ch_nl -> x = ch_nl)
    end.
  Proof.
    intros f ml hc b t Hpub. rewrite esc_cons.
    pose proof (public_quote f Hpub) as Hq.
    pose proof (decode_spec b t) as DS.
    destruct (utf8_decode (b :: t)) as [r w] eqn:D.
    destruct (f_exact f && Nat.eqb w 1 && (r =? rune_error)) eqn:Ebad.
    { unfold esc_intro. cbn [app].
      apply andb_prop in Ebad. destruct Ebad as [Ebad Hr]. apply andb_prop in Ebad.
      destruct Ebad as [_ Hw]. apply Nat.eqb_eq in Hw. apply N.eqb_eq in Hr. subst.
      repeat split; intros; try (unfold ch_bs, ch_nl, ch_dq, ch_sq in *; lia).
      subst b. rewrite (decode_ascii ch_nl t) in D by (unfold ch_nl; lia). inversion D. }
    assert (Hsc : scalar r).
    { destruct DS as [[-> _]|[Hs _]]; [apply scalar_rune_error|exact Hs]. }
    assert (Hb10 : b = ch_nl -> r = ch_nl).
    { intros ->. rewrite (decode_ascii ch_nl t) in D by (unfold ch_nl; lia). now inversion D. }
    assert (Hr10 : r = ch_nl -> b = ch_nl).
    { intros ->. destruct DS as [[Hre _]|[_ [_ [_ [_ [_ Heq]]]]]]; [discriminate|].
      symmetry. apply Heq. unfold ch_nl. lia. }
    destruct (ml && (r =? ch_nl)) eqn:Enl.
    { apply andb_prop in Enl. destruct Enl as [Hml Hr]. apply N.eqb_eq in Hr.
      repeat split; intros; try congruence. tauto. }
    destruct (escaped_rune_head pr_tbl gr_tbl f ml hc r Hsc)
      as [[tl E]|[[Hlt [Hlo [E [Hbs Hnq]]]]|[Hge [b' [tl [E Hb']]]]]]; rewrite E; cbn [app].
    - repeat split; intros; try (unfold ch_bs, ch_nl, ch_dq, ch_sq in *; lia).
      exfalso. subst ml. rewrite (Hb10 H0) in Enl. cbn in Enl. discriminate.
    - repeat split; intros; auto; try (unfold ch_nl in *; lia).
    - repeat split; intros; try (unfold ch_nl, ch_dq, ch_sq in *; lia).
  Qed.

  (* ---- single-line text contains no raw line terminator ---- *)
  Lemma esc_no_crnl : forall f hc, public_form f -> forall n s, (length s <= n)%nat -> is_bytes s ->
    Forall (fun x => x <> ch_nl /\ x <> ch_cr) (esc f false hc s).
  Proof.
    intros f hc Hpub. induction n as [|n IH]; intros s Hl Hb.
    { destruct s; [constructor|cbn in Hl; lia]. }
    destruct s as [|b t]; [constructor|].
    destruct (is_bytes_tail _ _ Hb) as [Hb1 Hb2]. unfold is_byte in Hb1.
    rewrite esc_cons. pose proof (decode_width b t) as W.
    destruct (utf8_decode (b :: t)) as [r w]. cbn [length] in *.
    destruct (f_exact f && Nat.eqb w 1 && (r =? rune_error)).
    { unfold esc_intro. cbn [app]. constructor; [unfold ch_bs, ch_nl, ch_cr; lia|].
      apply Forall_app. split.
      - unfold hashes. apply Forall_forall. intros x Hx. apply repeat_spec in Hx. subst.
        unfold ch_hash, ch_nl, ch_cr; lia.
      - constructor; [unfold ch_nl, ch_cr; lia|]. apply Forall_app. split.
        + eapply Forall_impl; [|apply hex2_no_ctl]. cbn. unfold ch_nl, ch_cr. lia.
        + apply IH; [lia|assumption]. }
    cbn [andb]. apply Forall_app. split.
    - apply escaped_rune_no_crnl. exact Hpub.
    - apply IH; [rewrite skipn_length; cbn [length]; lia|]. apply is_bytes_skipn. exact Hb.
  Qed.

  (* ---- the iteration that meets the closing delimiter ---- *)
  Lemma final_step : forall k Q rbuf st n, q_char Q = ch_dq \/ q_char Q = ch_sq ->
    q_numchar Q = S n ->
    unq_loop (S k) Q (repeat (q_char Q) (q_numchar Q) ++ hashes (q_numhash Q)) rbuf st false =
    if st then match rbuf with [] => Panic | _ :: rb => Ok (rev rb) end else Ok (rev rbuf).
  Proof.
    intros k Q rbuf st n Hq Hn.
    pose proof (uc_closing wrap Q) as UC. rewrite Hn in *. cbn [repeat app] in *.
    cbn [Unquote.unq_loop].
    replace (q_char Q =? ch_cr) with false by (unfold ch_cr, ch_dq, ch_sq in *; lia).
    replace (q_char Q =? ch_nl) with false by (unfold ch_nl, ch_dq, ch_sq in *; lia).
    unfold unq_first. rewrite UC by (unfold ch_dq, ch_sq in *; lia).
    destruct st; reflexivity.
  Qed.

  (* ================= single line, no hashes ================= *)
  Theorem unquote_quote_single : forall f s, public_form f -> is_bytes s ->
    eff_multiline f s = false -> eff_hash f s = 0%nat ->
    unquote (quote f s) = Ok (expected f s).
  Proof.
    intros f s Hpub Hb Hml Hhc. unfold Quote.quote. rewrite Hml, Hhc.
    unfold append_escaped. cbn [negb andb Nat.eqb hashes repeat app].
    fold (esc f false 0 s).
    set (q := f_quote f). pose proof (public_quote f Hpub) as Hq. fold q in Hq.
    set (body := esc f false 0 s).
    (* ParseQuotes *)
    assert (Hlook : look3 q (body ++ q :: hashes 0) = false).
    { unfold body. destruct s as [|b t].
      - rewrite esc_nil. reflexivity.
      - pose proof (esc_head f false 0 b t Hpub) as H.
        destruct (esc f false 0 (b :: t)) as [|x [|y l]]; [contradiction| |].
        + reflexivity.
        + destruct H as [H _]. specialize (H eq_refl). cbn [app look3].
          destruct (l ++ q :: hashes 0); destruct (N.eqb_spec x q); try contradiction; reflexivity. }
    pose proof (parse_quotes_single q 0 body Hq Hlook) as PQ. cbn [hashes repeat app plus] in PQ.
    unfold Unquote.unquote. rewrite PQ. cbn [skipn].
    (* QuoteInfo.Unquote *)
    set (Q := mkQ 0 false q 1 []).
    assert (HQ : Q = qi_for f false 0) by reflexivity.
    assert (Hnl : Forall (fun x => x <> ch_nl /\ x <> ch_cr) body).
    { apply (esc_no_crnl f 0 Hpub (length s)); auto. }
    assert (Hex : existsb (fun c => c =? ch_nl) (body ++ [q]) = false).
    { rewrite existsb_app. cbn [existsb]. replace (q =? ch_nl) with false
        by (unfold ch_nl, ch_dq, ch_sq in *; lia). cbn [orb]. rewrite orb_false_r.
      clear - Hnl. induction Hnl as [|x l [H1 _] _ IH]; [reflexivity|]. cbn [existsb].
      rewrite IH. destruct (N.eqb_spec x ch_nl); [contradiction|reflexivity]. }
    (* the slow path gives the expected text *)
    assert (Hslow : forall fuel, (length (body ++ [q]) < fuel)%nat ->
              unq_loop fuel Q (body ++ [q]) [] false false = Ok (expected f s)).
    { intros fuel Hfuel.
      destruct (loop_rt wrap pr_tbl gr_tbl f false 0 Hpub (length s) s [q] (le_n _) Hb
                  ltac:(discriminate) fuel [] false false Hfuel)
        as [fuel' [st' [we' [H1 [H2 H3]]]]].
      destruct (H3 eq_refl eq_refl eq_refl) as [-> ->].
      rewrite HQ. fold body in H2. rewrite H2. rewrite app_nil_r.
      destruct fuel' as [|k]; [cbn in H1; lia|].
      cbn [Unquote.unq_loop].
      replace (q =? ch_cr) with false by (unfold ch_cr, ch_dq, ch_sq in *; lia).
      replace (q =? ch_nl) with false by (unfold ch_nl, ch_dq, ch_sq in *; lia).
      pose proof (uc_closing wrap (qi_for f false 0)) as UC. cbn [qi_for q_char q_numchar q_numhash repeat hashes app] in UC.
      fold q in UC. unfold unq_first. rewrite UC by (unfold ch_dq, ch_sq in *; lia).
      cbn. now rewrite rev_involutive. }
    unfold qi_unquote.
    destruct (body ++ [q]) as [|x l] eqn:Ebq; [destruct body; discriminate|].
    rewrite <- Ebq in *. clear Ebq x l.
    unfold Q at 1 2 3 4 5 6. cbn [q_multi negb andb q_numhash Nat.eqb q_char].
    rewrite Hex. cbn [andb].
    replace (last (body ++ [q]) 256 =? q) with true by (rewrite last_last; symmetry; apply N.eqb_refl).
    cbn [andb]. rewrite removelast_last.
    destruct (is_simple (length body) body q) eqn:Esimple.
    - (* fast path: the text had no escapes; the slow path returns the same *)
      pose proof (is_simple_plain pr_tbl gr_tbl q [q] (length body) body (le_n _) Esimple Hnl) as Hplain.
      destruct (raw_loop wrap pr_tbl gr_tbl q 0 [] [q] body Hplain Hq (S (length (body ++ [q]))) [] false false (Nat.lt_succ_diag_r _))
        as [fuel' [st' [we' [H1 [H2 H3]]]]].
      destruct (H3 eq_refl eq_refl) as [-> ->].
      pose proof (Hslow (S (length (body ++ [q]))) (Nat.lt_succ_diag_r _)) as HS.
      fold Q in H2. rewrite H2 in HS. rewrite app_nil_r in HS.
      destruct fuel' as [|k]; [cbn in H1; lia|].
      cbn [Unquote.unq_loop] in HS.
      replace (q =? ch_cr) with false in HS by (unfold ch_cr, ch_dq, ch_sq in *; lia).
      replace (q =? ch_nl) with false in HS by (unfold ch_nl, ch_dq, ch_sq in *; lia).
      pose proof (uc_closing wrap Q) as UC. cbn [Q q_char q_numchar q_numhash repeat hashes app] in UC.
      unfold unq_first in HS. rewrite UC in HS by (unfold ch_dq, ch_sq in *; lia).
      cbn in HS. rewrite rev_involutive in HS. exact HS.
    - cbn [q_multi andb]. apply Hslow. lia.
  Qed.

  (* ================= multi-line ================= *)
  Lemma closing_loop : forall f hc fuel rbuf st we, public_form f -> (2 <= fuel)%nat ->
    unq_loop fuel (qi_for f true hc)
      (ch_nl :: tabs (f_indent f) ++ triple (f_quote f) ++ hashes hc) rbuf st we = Ok (rev rbuf).
  Proof.
    intros f hc fuel rbuf st we Hpub Hfuel.
    pose proof (public_quote f Hpub) as Hq.
    destruct fuel as [|k1]; [lia|].
    cbn [Unquote.unq_loop]. change (ch_nl =? ch_cr) with false. change (ch_nl =? ch_nl) with true. cbv iota.
    rewrite (skip_ws_tabs f true hc _ eq_refl).
    unfold has_closing_delim_prefix. cbn [qi_for q_multi q_char q_numchar q_numhash andb].
    change (repeat (f_quote f) 3) with (triple (f_quote f)).
    replace (prefixb (triple (f_quote f) ++ hashes hc) (triple (f_quote f) ++ hashes hc)) with true
      by (symmetry; rewrite <- (app_nil_r (triple (f_quote f) ++ hashes hc)) at 2; apply prefixb_app).
    assert (Hlt : Nat.ltb (delim_len (qi_for f true hc)) (length (triple (f_quote f) ++ hashes hc)) = false).
    { apply Nat.ltb_ge. unfold delim_len. rewrite app_length, hashes_length. cbn. lia. }
    rewrite Hlt.
    cbn [andb]. cbv iota.
    destruct k1 as [|k]; [lia|].
    change (triple (f_quote f)) with (f_quote f :: [f_quote f; f_quote f]). cbn [app].
    cbn [Unquote.unq_loop].
    replace (f_quote f =? ch_cr) with false by (unfold ch_cr, ch_dq, ch_sq in *; lia).
    replace (f_quote f =? ch_nl) with false by (unfold ch_nl, ch_dq, ch_sq in *; lia).
    pose proof (uc_closing wrap (qi_for f true hc)) as UC.
    cbn [qi_for q_char q_numchar q_numhash repeat app] in UC.
    unfold unq_first. rewrite UC by (unfold ch_dq, ch_sq in *; lia).
    reflexivity.
  Qed.

  Theorem unquote_quote_multi : forall f s, public_form f -> is_bytes s ->
    eff_multiline f s = true ->
    unquote (quote f s) = Ok (expected f s).
  Proof.
    intros f s Hpub Hb Hml. unfold Quote.quote.
    assert (Hhc : eff_hash f s = required_hash_count (f_quote f) s) by (unfold Quote.eff_hash; now rewrite Hml).
    rewrite Hml, Hhc.
    set (q := f_quote f). set (hc := required_hash_count q s). set (ind := f_indent f).
    pose proof (public_quote f Hpub) as Hq. fold q in Hq.
    assert (Hqh : q <> ch_hash) by (unfold ch_hash, ch_dq, ch_sq in *; lia).
    set (cl := tabs ind ++ triple q ++ hashes hc).
    destruct s as [|c t].
    { (* the empty text: early return, no hashes *)
      assert (Hhc0 : hc = 0%nat) by reflexivity. rewrite Hhc0. cbn [hashes repeat app].
      pose proof (parse_quotes_multi q 0 ind [] (tabs ind ++ triple q ++ hashes 0) Hq eq_refl) as PQ.
      cbv zeta in PQ. cbn [hashes repeat app] in PQ. rewrite app_nil_r in PQ.
      unfold Unquote.unquote.
      replace (triple q ++ ch_nl :: tabs ind ++ triple q) with
        (triple q ++ ch_nl :: tabs ind ++ triple q) by reflexivity.
      change (triple q ++ [ch_nl] ++ tabs ind ++ triple q) with (triple q ++ ch_nl :: tabs ind ++ triple q).
      rewrite PQ.
      assert (Hsk : skipn (4 + 0 + ind) (triple q ++ ch_nl :: tabs ind ++ triple q) = triple q).
      { change (triple q ++ ch_nl :: tabs ind ++ triple q) with (q :: q :: q :: ch_nl :: tabs ind ++ triple q).
        cbn [plus skipn]. apply skipn_tabs. }
      assert (Hres : qi_unquote wrap (mkQ 0 true q 3 (tabs ind)) (triple q) = Ok []).
      { unfold qi_unquote. cbn [q_multi negb andb triple].
        replace (Nat.ltb (delim_len (mkQ 0 true q 3 (tabs ind))) (length [q; q; q])) with false by reflexivity.
        rewrite andb_false_r.
        exact (final_step (length (triple q)) (mkQ 0 true q 3 (tabs ind)) [] false 2 Hq eq_refl). }
      destruct (tabs ind ++ triple q) as [|c0 Z'] eqn:EZ.
      { destruct ind; discriminate. }
      assert (Hc0 : c0 <> ch_nl).
      { destruct ind; cbn in EZ; inversion EZ; unfold ch_tab, ch_nl, ch_dq, ch_sq in *; lia. }
      destruct (N.eqb_spec c0 ch_nl); [contradiction|]. cbn [negb].
      rewrite <- EZ. rewrite prefixb_app. cbn [negb].
      rewrite <- EZ in Hsk. rewrite Hsk. rewrite Hres. unfold expected. destruct (f_exact f); reflexivity. }
    (* non-empty text *)
    unfold append_escaped. cbn [negb andb]. fold (esc f true hc (c :: t)).
    set (body := esc f true hc (c :: t)).
    pose proof (esc_head f true hc c t Hpub) as Hhead. fold body in Hhead.
    set (Q := mkQ hc true q 3 (tabs ind)).
    assert (HQ : Q = qi_for f true hc) by reflexivity.
    assert (Hnd : no_delim q hc (c :: t)) by (apply required_hash_count_sufficient; exact Hqh).
    (* after ParseQuotes the remaining text is body ++ closing line *)
    assert (Hmain : qi_unquote wrap Q (body ++ ch_nl :: cl) = Ok (expected f (c :: t))).
    { unfold qi_unquote.
      destruct (body ++ ch_nl :: cl) as [|x l] eqn:Eb; [destruct body; discriminate|].
      rewrite <- Eb in *. clear Eb x l.
      unfold Q at 1 2 3 4. cbn [q_multi negb andb].
      (* no closing delimiter at the very start *)
      assert (Hnc : has_closing_delim_prefix (body ++ ch_nl :: cl) Q = false).
      { unfold has_closing_delim_prefix. cbn [Q q_char q_numchar q_numhash].
        change (repeat q 3) with (triple q).
        destruct (prefixb (triple q ++ hashes hc) (body ++ ch_nl :: cl)) eqn:Ep; [|reflexivity].
        exfalso. unfold body in Ep.
        apply (proj_prefix pr_tbl gr_tbl f true hc Hpub _ (c :: t)) in Ep; auto.
        - apply prefixb_spec in Ep. destruct Ep as [post Ep].
          apply (Hnd [] post). cbn [app]. rewrite Ep. now rewrite <- app_assoc.
        - apply Forall_app. split; [repeat constructor; auto|].
          unfold hashes. apply Forall_forall. intros y Hy. apply repeat_spec in Hy. auto. }
      rewrite Hnc. cbn [andb].
      destruct (loop_rt wrap pr_tbl gr_tbl f true hc Hpub (length (c :: t)) (c :: t) (ch_nl :: cl) (le_n _) Hb
                  ltac:(intros _; split; [reflexivity|exact Hnd])
                  (S (length (body ++ ch_nl :: cl))) [] false false (Nat.lt_succ_diag_r _))
        as [fuel' [st' [we' [H1 [H2 H3]]]]].
      rewrite HQ. fold body in H2. rewrite H2.
      unfold cl. rewrite (closing_loop f hc fuel' _ st' we' Hpub).
      - rewrite app_nil_r. now rewrite rev_involutive.
      - cbn [length] in H1. lia. }
    unfold Unquote.unquote.
    destruct (N.eqb_spec c ch_nl) as [Hc|Hc]; cbn [negb].
    - (* the text starts with a newline: no indentation on the first line *)
      replace (hashes hc ++ triple q ++ [ch_nl] ++ [] ++ body ++ [ch_nl] ++ cl)
        with (hashes hc ++ triple q ++ (ch_nl :: body) ++ ch_nl :: cl) by reflexivity.
      pose proof (parse_quotes_multi q hc ind (ch_nl :: body) (body ++ ch_nl :: cl) Hq eq_refl) as PQ.
      cbv zeta in PQ. fold cl in PQ. rewrite PQ.
      destruct body as [|x l] eqn:Ebody; [contradiction|].
      destruct Hhead as [_ [_ Hx]]. specialize (Hx eq_refl Hc). subst x. cbn [app].
      change (ch_nl =? ch_nl) with true. cbn [negb].
      replace (skipn (4 + hc) (hashes hc ++ triple q ++ ch_nl :: ch_nl :: l ++ ch_nl :: cl))
        with ((ch_nl :: l) ++ ch_nl :: cl); [exact Hmain|].
      replace (hashes hc ++ triple q ++ ch_nl :: ch_nl :: l ++ ch_nl :: cl)
        with ((hashes hc ++ [q; q; q; ch_nl]) ++ (ch_nl :: l) ++ ch_nl :: cl)
        by (rewrite <- !app_assoc; reflexivity).
      replace (4 + hc)%nat with (length (hashes hc ++ [q; q; q; ch_nl]))
        by (rewrite app_length, hashes_length; cbn; lia).
      now rewrite skipn_app_exact.
    - (* the first line carries the indentation *)
      replace (hashes hc ++ triple q ++ [ch_nl] ++ tabs ind ++ body ++ [ch_nl] ++ cl)
        with (hashes hc ++ triple q ++ (ch_nl :: tabs ind ++ body) ++ ch_nl :: cl)
        by (cbn [app]; rewrite <- !app_assoc; reflexivity).
      pose proof (parse_quotes_multi q hc ind (ch_nl :: tabs ind ++ body) (tabs ind ++ body ++ ch_nl :: cl) Hq) as PQ.
      cbv zeta in PQ. fold cl in PQ.
      specialize (PQ ltac:(cbn [app]; rewrite <- !app_assoc; reflexivity)).
      rewrite PQ.
      destruct (tabs ind ++ body ++ ch_nl :: cl) as [|c0 Z'] eqn:EZ.
      { destruct ind; [destruct body; [contradiction|discriminate]|discriminate]. }
      assert (Hc0 : c0 <> ch_nl).
      { destruct ind as [|ind'].
        - cbn [tabs repeat app] in EZ. destruct body as [|x l]; [contradiction|].
          destruct Hhead as [_ [Hx _]]. inversion EZ; subst. apply Hx. exact Hc.
        - cbn in EZ. inversion EZ. unfold ch_tab, ch_nl. lia. }
      destruct (N.eqb_spec c0 ch_nl); [contradiction|]. cbn [negb].
      rewrite <- EZ. rewrite prefixb_app. cbn [negb].
      replace (skipn (4 + hc + ind) (hashes hc ++ triple q ++ (ch_nl :: tabs ind ++ body) ++ ch_nl :: cl))
        with (body ++ ch_nl :: cl); [exact Hmain|].
      replace (hashes hc ++ triple q ++ (ch_nl :: tabs ind ++ body) ++ ch_nl :: cl)
        with ((hashes hc ++ [q; q; q; ch_nl] ++ tabs ind) ++ body ++ ch_nl :: cl)
        by (rewrite <- !app_assoc; cbn [app]; rewrite <- !app_assoc; reflexivity).
      replace (4 + hc + ind)%nat with (length (hashes hc ++ [q; q; q; ch_nl] ++ tabs ind))
        by (rewrite !app_length, hashes_length, tabs_length; cbn; lia).
      now rewrite skipn_app_exact.
  Qed.

  (* ================= single line with hashes (WithOptionalHashes) ================= *)

  Lemma plain_valid : forall qc nh rest s, plain qc nh rest s -> valid_utf8 s.
  Proof. induction 1; constructor; assumption. Qed.

  Lemma plain_no_crnl : forall qc nh rest s, plain qc nh rest s ->
    Forall (fun x => x <> ch_nl /\ x <> ch_cr) s.
  Proof.
    induction 1 as [|r tl Hsc H0 Hnl Hcr _ _ IH]; [constructor|].
    apply Forall_app. split; [|exact IH].
    destruct (N.ltb_spec r 0x80) as [Hlt|Hge].
    - rewrite encode_ascii by assumption. constructor; [split; assumption|constructor].
    - destruct (encode_high r Hge) as [Hall _]. eapply Forall_impl; [|exact Hall].
      cbn. unfold ch_nl, ch_cr. lia.
  Qed.

  (* the text starts with two quote characters that are not followed by a hash *)
  Definition lead2 (q : N) (s : str) : bool :=
    match s with
    | a :: b :: r => (a =? q) && (b =? q) && match r with c :: _ => negb (c =? ch_hash) | [] => true end
    | _ => false
    end.

  Lemma look3_lead2 : forall q hc s, q <> ch_hash -> hc <> 0%nat ->
    look3 q (s ++ q :: hashes hc) = lead2 q s.
  Proof.
    intros q hc s Hq Hhc. destruct hc as [|hc]; [contradiction|].
    change (hashes (S hc)) with (ch_hash :: hashes hc).
    destruct s as [|a [|b [|c r]]]; cbn [app look3 lead2].
    - rewrite N.eqb_refl. destruct (N.eqb_spec ch_hash q); [congruence|]. destruct (hashes hc); reflexivity.
    - rewrite !N.eqb_refl. cbn [negb]. now rewrite andb_false_r.
    - destruct (N.eqb_spec q ch_hash); [contradiction|]. cbn [negb]. now rewrite andb_true_r.
    - reflexivity.
  Qed.

  Lemma eff_hash_autohash : forall f s, public_form f -> eff_multiline f s = false ->
    eff_hash f s <> 0%nat ->
    slhc_loop pr_tbl gr_tbl f (length s) s 1 = Some (eff_hash f s).
  Proof.
    intros f s [Hh _] Hml Hne. unfold Quote.eff_hash in *. rewrite Hml in *.
    destruct (f_autohash f); [|congruence].
    unfold Quote.single_line_hash_count in *.
    destruct (negb (existsb _ s)); [congruence|].
    destruct (lead_qq (f_quote f) s); [congruence|].
    destruct (slhc_loop pr_tbl gr_tbl f (length s) s 1); congruence.
  Qed.

  (* a hash count is only chosen for texts that do not start with two quotes *)
  Lemma eff_hash_no_lead : forall f s, public_form f -> eff_multiline f s = false ->
    eff_hash f s <> 0%nat -> lead_qq (f_quote f) s = false.
  Proof.
    intros f s [Hh _] Hml Hne. unfold Quote.eff_hash in *. rewrite Hml in *.
    destruct (f_autohash f); [|congruence].
    unfold Quote.single_line_hash_count in *.
    destruct (negb (existsb _ s)); [congruence|].
    destruct (lead_qq (f_quote f) s); [congruence|reflexivity].
  Qed.

  Lemma lead2_lead_qq : forall q s, lead_qq q s = false -> lead2 q s = false.
  Proof.
    intros q s H. destruct s as [|a [|b r]]; try reflexivity. cbn [lead2 lead_qq] in *.
    rewrite H. reflexivity.
  Qed.

  Lemma quote_hash_shape : forall f s, eff_multiline f s = false -> eff_hash f s <> 0%nat ->
    quote f s = hashes (eff_hash f s) ++ f_quote f :: s ++ f_quote f :: hashes (eff_hash f s).
  Proof.
    intros f s Hml Hne. unfold Quote.quote. rewrite Hml. unfold append_escaped.
    destruct (Nat.eqb_spec (eff_hash f s) 0); [contradiction|]. cbn [negb andb app]. reflexivity.
  Qed.

  Theorem unquote_quote_hash : forall f s, public_form f -> is_bytes s ->
    eff_multiline f s = false -> eff_hash f s <> 0%nat ->
    unquote (quote f s) = Ok (expected f s).
  Proof.
    intros f s Hpub Hb Hml Hne.
    pose proof (lead2_lead_qq _ _ (eff_hash_no_lead f s Hpub Hml Hne)) as Hlead.
    rewrite (quote_hash_shape f s Hml Hne).
    set (q := f_quote f) in *. set (hc := eff_hash f s) in *.
    pose proof (public_quote f Hpub) as Hq. fold q in Hq.
    assert (Hqh : q <> ch_hash) by (unfold ch_hash, ch_dq, ch_sq in *; lia).
    pose proof (eff_hash_autohash f s Hpub Hml Hne) as Hsl. fold hc in Hsl.
    assert (Hplain : plain q hc (q :: hashes hc) s).
    { apply (slhc_plain pr_tbl gr_tbl f (q :: hashes hc) Hqh (length s) s 1 hc (le_n _) Hsl). }
    assert (Hlook : look3 q (s ++ q :: hashes hc) = false) by (rewrite look3_lead2; assumption).
    unfold Unquote.unquote. rewrite (parse_quotes_single q hc s Hq Hlook).
    replace (skipn (1 + hc) (hashes hc ++ q :: s ++ q :: hashes hc)) with (s ++ q :: hashes hc).
    2:{ replace (hashes hc ++ q :: s ++ q :: hashes hc) with ((hashes hc ++ [q]) ++ s ++ q :: hashes hc)
          by (rewrite <- app_assoc; reflexivity).
        replace (1 + hc)%nat with (length (hashes hc ++ [q])) by (rewrite app_length, hashes_length; cbn; lia).
        now rewrite skipn_app_exact. }
    set (Q := mkQ hc false q 1 []).
    unfold qi_unquote.
    destruct (s ++ q :: hashes hc) as [|x l] eqn:E; [destruct s; discriminate|].
    rewrite <- E in *. clear E x l.
    unfold Q at 1 2 3 4 5 6. cbn [q_multi negb andb q_numhash q_char].
    assert (Hex : existsb (fun c => c =? ch_nl) (s ++ q :: hashes hc) = false).
    { rewrite existsb_app. cbn [existsb].
      replace (q =? ch_nl) with false by (unfold ch_nl, ch_dq, ch_sq in *; lia).
      assert (H1 : existsb (fun c => c =? ch_nl) s = false).
      { pose proof (plain_no_crnl _ _ _ _ Hplain) as Hn. clear - Hn.
        induction Hn as [|x l [H1 _] _ IH]; [reflexivity|]. cbn [existsb]. rewrite IH.
        destruct (N.eqb_spec x ch_nl); [contradiction|reflexivity]. }
      assert (H2 : existsb (fun c => c =? ch_nl) (hashes hc) = false).
      { clear. induction hc; [reflexivity|]. cbn. exact IHhc. }
      rewrite H1, H2. reflexivity. }
    rewrite Hex.
    replace (Nat.eqb hc 0) with false by (symmetry; apply Nat.eqb_neq; exact Hne).
    rewrite andb_false_r.
    destruct (raw_loop wrap pr_tbl gr_tbl q hc [] (q :: hashes hc) s Hplain Hq
                (S (length (s ++ q :: hashes hc))) [] false false (Nat.lt_succ_diag_r _))
      as [fuel' [st' [we' [H1 [H2 H3]]]]].
    destruct (H3 eq_refl eq_refl) as [-> ->].
    fold Q in H2. rewrite H2. rewrite app_nil_r.
    destruct fuel' as [|k]; [cbn in H1; lia|].
    pose proof (final_step k Q (rev s) false 0) as FS.
    cbn [Q q_char q_numchar q_numhash repeat app] in FS. fold Q in FS.
    rewrite FS by (auto). rewrite rev_involutive.
    unfold expected. destruct (f_exact f); [reflexivity|].
    f_equal. symmetry. apply sanitize_valid. eapply plain_valid. exact Hplain.
  Qed.

  (* the raw hash form never looks like a multiline opening: what follows the
     opening quote does not start with two quote characters *)
  Theorem hash_form_not_multiline_opening : forall f s, public_form f ->
    eff_multiline f s = false -> eff_hash f s <> 0%nat ->
    look3 (f_quote f) (s ++ f_quote f :: hashes (eff_hash f s)) = false /\ lead_qq (f_quote f) s = false.
  Proof.
    intros f s Hpub Hml Hne.
    pose proof (eff_hash_no_lead f s Hpub Hml Hne) as Hl. split; [|exact Hl].
    pose proof (public_quote f Hpub) as Hq.
    rewrite look3_lead2; [now apply lead2_lead_qq| |exact Hne].
    unfold ch_hash, ch_dq, ch_sq in *. lia.
  Qed.

  (* ================= all public forms, every byte sequence ================= *)
  Theorem unquote_quote_all : forall f s, public_form f -> is_bytes s ->
    unquote (quote f s) = Ok (expected f s).
  Proof.
    intros f s Hpub Hb.
    destruct (eff_multiline f s) eqn:Hml; [now apply unquote_quote_multi|].
    destruct (Nat.eq_dec (eff_hash f s) 0) as [H0|H0]; [now apply unquote_quote_single|].
    now apply unquote_quote_hash.
  Qed.
End RoundTrip.
