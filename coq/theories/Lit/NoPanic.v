(* Totality of the modelled Unquote: fuel is always sufficient (each iteration
   consumes at least one byte), and literal.Unquote (uint32 accumulator for
   \U escapes) never reaches one of Go's panics:
     - unquoteChar(ss, q) on an empty ss in the surrogate-pair path,
     - buf[:len(buf)-1] on an empty buffer,
     - panic(unreachable).
   The int32 regression layer (the code before fix unquote-U) does reach
   panic(unreachable) (Examples.v). *)
From Verif Require Import Utf8.Model Utf8.Proofs Lit.Quote Lit.Unquote Lit.Basics.
From Coq Require Import ZArith Lia ZifyN ZifyNat ZifyBool.
Ltac Zify.zify_post_hook ::= Z.div_mod_to_equations.

Definition hexdigit (d : N) : Prop := unhex d <> None.

(* s is empty or ends with the last byte of the closing delimiter *)
Definition ends_ok (q : qinfo) (s : str) : Prop :=
  s = [] \/ exists pre e, s = pre ++ [e] /\ (e = q_char q \/ e = ch_hash).

Lemma ends_ok_suffix : forall q pre t, ends_ok q (pre ++ t) -> ends_ok q t.
Proof.
  intros q pre t [H|[p [e [H He]]]].
  - left. now destruct pre, t.
  - destruct t as [|x t'] using rev_ind; [now left|]. right.
    exists t', x. split; [reflexivity|].
    rewrite app_assoc in H. apply app_inj_tail in H. destruct H as [_ ->]. exact He.
Qed.

Lemma hex_value_digits : forall ds acc v, hex_value ds acc = Some v -> Forall hexdigit ds.
Proof.
  induction ds as [|d ds IH]; intros acc v H; [constructor|].
  cbn [hex_value] in H. destruct (unhex d) eqn:E; [|discriminate].
  constructor; [unfold hexdigit; congruence|]. eapply IH; eauto.
Qed.

Lemma unhex_lt16 : forall d x, unhex d = Some x -> x < 16.
Proof.
  intros d x H. unfold unhex, in_range in H.
  repeat match type of H with (if ?c then _ else _) = _ => destruct c eqn:? end;
    inversion H; subst; lia.
Qed.

Lemma hex_value_bound : forall ds acc v, hex_value ds acc = Some v ->
  v < (acc + 1) * 16 ^ N.of_nat (length ds).
Proof.
  induction ds as [|d ds IH]; intros acc v H.
  - cbn in H. inversion H; subst. cbn. lia.
  - cbn [hex_value] in H. destruct (unhex d) eqn:E; [|discriminate].
    apply unhex_lt16 in E. apply IH in H.
    cbn [length]. rewrite Nat2N.inj_succ, N.pow_succ_r'.
    eapply N.lt_le_trans; [exact H|].
    rewrite N.mul_assoc. apply N.mul_le_mono_r. lia.
Qed.

Lemma skipn_suffix : forall n (s : str), exists pre, s = pre ++ skipn n s.
Proof. intros n s. exists (firstn n s). symmetry. apply firstn_skipn. Qed.

Section NoPanic.
  Variable wrap : bool.
  Notation unquote_char := (unquote_char wrap).
  Notation unquote_escape := (unquote_escape wrap).
  Notation unq_first := (unq_first wrap).
  Notation unq_loop := (unq_loop wrap).

  Definition special_or_nonneg (c : Z) : Prop :=
    (0 <= c)%Z \/ c = terminated_by_quote \/ c = terminated_by_expr \/ c = escaped_newline.

  (* ---- the switch on the escape character ---- *)
  Lemma ue_facts : forall q e s2 c mb ss,
    unquote_escape q e s2 = Ok (c, mb, ss) ->
    (exists pre, s2 = pre ++ ss) /\
    ((sur_high <= c < sur_end)%Z -> exists pre d, s2 = pre ++ d :: ss /\ hexdigit d) /\
    (wrap = false -> special_or_nonneg c).
  Proof.
    intros q e s2 c mb ss H. unfold Unquote.unquote_escape in H.
    unfold special_or_nonneg, terminated_by_quote, terminated_by_expr, escaped_newline, sur_high, sur_end.
    (* the simple escapes *)
    assert (Hsimple : forall v, v < 0xD800 -> Ok (Z.of_N v, false, s2) = Ok (c, mb, ss) ->
      (exists pre, s2 = pre ++ ss) /\
      ((0xD800 <= c < 0xE000)%Z -> exists pre d, s2 = pre ++ d :: ss /\ hexdigit d) /\
      (wrap = false -> (0 <= c)%Z \/ c = (-1)%Z \/ c = (-2)%Z \/ c = (-3)%Z)).
    { intros v Hv E. inversion E; subst. split; [exists []; reflexivity|]. split; [lia|]. intros _. left. lia. }
    destruct (e =? 97); [apply (Hsimple 7); [lia|exact H]|].
    destruct (e =? 98); [apply (Hsimple 8); [lia|exact H]|].
    destruct (e =? 102); [apply (Hsimple 12); [lia|exact H]|].
    destruct (e =? 110); [apply (Hsimple 10); [lia|exact H]|].
    destruct (e =? 114); [apply (Hsimple 13); [lia|exact H]|].
    destruct (e =? 116); [apply (Hsimple 9); [lia|exact H]|].
    destruct (e =? 118); [apply (Hsimple 11); [lia|exact H]|].
    destruct (e =? 47); [apply (Hsimple 47); [lia|exact H]|].
    destruct ((e =? 120) || (e =? 117) || (e =? 85)) eqn:Ehex.
    { set (n := if e =? 120 then 2%nat else if e =? 117 then 4%nat else 8%nat) in *.
      destruct (Nat.ltb (length s2) n) eqn:Elen; [discriminate|].
      apply Nat.ltb_ge in Elen.
      destruct (hex_value (firstn n s2) 0) as [v|] eqn:Ev; [|discriminate].
      assert (Hn : (2 <= n)%nat) by (unfold n; destruct (e =? 120), (e =? 117); lia).
      assert (Hfl : length (firstn n s2) = n) by (rewrite firstn_length; lia).
      (* the consumed digits end with a hex digit *)
      assert (Hlast : exists pre d, s2 = pre ++ d :: skipn n s2 /\ hexdigit d).
      { pose proof (hex_value_digits _ _ _ Ev) as Hd.
        destruct (firstn n s2) as [|x l] eqn:Ef using rev_ind; [cbn in Hfl; lia|].
        exists l, x. split.
        - rewrite <- (firstn_skipn n s2) at 1. rewrite Ef. rewrite <- app_assoc. reflexivity.
        - apply Forall_app in Hd. destruct Hd as [_ Hd]. now inversion Hd. }
      destruct (e =? 120) eqn:E120.
      - destruct (q_char q =? ch_dq); [discriminate|]. inversion H; subst.
        split; [exact (skipn_suffix n s2)|]. split.
        + intros _. exact Hlast.
        + intros _. left. lia.
      - destruct (Z.of_N max_rune <? to_rune wrap v)%Z eqn:Emax; [discriminate|]. inversion H; subst.
        split; [exact (skipn_suffix n s2)|]. split.
        + intros _. exact Hlast.
        + intros Hw. subst wrap. unfold to_rune. cbn [andb]. left. lia. }
    destruct (in_range 48 55 e).
    { destruct (q_char q =? ch_dq); [discriminate|].
      destruct s2 as [|d1 [|d2 s3]]; try discriminate.
      destruct (in_range 48 55 d1 && in_range 48 55 d2); [|discriminate].
      destruct (255 <? _) eqn:E255; [discriminate|]. inversion H; subst.
      split; [exists [d1; d2]; reflexivity|]. split; [lia|]. intros _. left. lia. }
    destruct (e =? ch_bs); [apply (Hsimple ch_bs); [unfold ch_bs; lia|exact H]|].
    destruct ((e =? ch_sq) || (e =? ch_dq)) eqn:Eq.
    { destruct (negb (e =? q_char q)); [discriminate|].
      apply (Hsimple e); [unfold ch_sq, ch_dq in *; lia|exact H]. }
    destruct (e =? 40).
    { destruct s2; [|discriminate]. inversion H; subst. split; [exists []; reflexivity|].
      split; [unfold terminated_by_expr; lia|]. intros _. right. right. left. reflexivity. }
    destruct (e =? ch_cr).
    { destruct s2 as [|c2 s3]; [discriminate|]. destruct (c2 =? ch_nl); [|discriminate].
      inversion H; subst. split; [exists [c2]; reflexivity|]. split; [unfold escaped_newline; lia|]. intros _. right. right. right. reflexivity. }
    destruct (e =? ch_nl); [|discriminate].
    inversion H; subst. split; [exists []; reflexivity|]. split; [unfold escaped_newline; lia|]. intros _. right. right. right. reflexivity.
  Qed.

  Lemma ue_total : forall q e s2, unquote_escape q e s2 <> Panic /\ unquote_escape q e s2 <> OutOfFuel.
  Proof.
    intros q e s2. unfold Unquote.unquote_escape.
    repeat match goal with
    | |- context [if ?c then _ else _] => destruct c
    | |- context [match ?x with Some _ => _ | None => _ end] => destruct x
    | |- context [match ?l with [] => _ | _ :: _ => _ end] => destruct l
    end; split; discriminate.
  Qed.

  (* ---- unquoteChar ---- *)
  Lemma uc_facts : forall q s c mb ss, q_char q = ch_dq \/ q_char q = ch_sq ->
    unquote_char s q = Ok (c, mb, ss) ->
    (exists pre, pre <> [] /\ s = pre ++ ss) /\
    ((sur_high <= c < sur_end)%Z -> exists pre d, s = pre ++ d :: ss /\ hexdigit d) /\
    (wrap = false -> special_or_nonneg c).
  Proof.
    intros q s c mb ss Hq H. unfold Unquote.unquote_char in H.
    destruct s as [|b t]; [discriminate|].
    unfold special_or_nonneg, sur_high, sur_end.
    assert (Hlit : forall v, v < 0xD800 -> Ok (Z.of_N v, false, t) = Ok (c, mb, ss) ->
      (exists pre, pre <> [] /\ b :: t = pre ++ ss) /\
      ((0xD800 <= c < 0xE000)%Z -> exists pre d, b :: t = pre ++ d :: ss /\ hexdigit d) /\
      (wrap = false -> (0 <= c)%Z \/ c = terminated_by_quote \/ c = terminated_by_expr \/ c = escaped_newline)).
    { intros v Hv E. inversion E; subst. split; [exists [b]; split; [discriminate|reflexivity]|].
      split; [lia|]. intros _. left. lia. }
    assert (Hqv : q_char q < 0xD800) by (unfold ch_dq, ch_sq in *; lia).
    destruct ((b =? q_char q) && negb (q_char q =? 0)).
    { destruct (negb (prefixb _ t)); [now apply (Hlit (q_char q))|].
      destruct (negb (prefixb _ _)); [now apply (Hlit (q_char q))|].
      destruct (negb (Nat.eqb _ _)).
      - destruct (Nat.eqb (q_numchar q) 3); [now apply (Hlit (q_char q))|discriminate].
      - inversion H; subst. split; [exists (b :: t); split; [discriminate|now rewrite app_nil_r]|].
        split; [unfold terminated_by_quote; lia|]. intros _. right. left. reflexivity. }
    destruct (rune_self <=? b) eqn:Eself.
    { pose proof (decode_spec b t) as DS. pose proof (decode_width b t) as W.
      destruct (utf8_decode (b :: t)) as [r size].
      destruct ((r =? rune_error) && Nat.eqb size 1) eqn:Ebad; [discriminate|]. inversion H; subst.
      split.
      - exists (firstn size (b :: t)). split; [|symmetry; apply firstn_skipn].
        destruct size; [lia|]. discriminate.
      - split.
        + intros Hs. exfalso.
          destruct DS as [[-> ->]|[[Hs1 Hs2] _]]; [cbn in Ebad; discriminate|]. lia.
        + intros _. left. lia. }
    destruct (negb (b =? ch_bs)).
    { destruct (b =? 0); [discriminate|]. apply (Hlit b); [unfold rune_self in Eself; lia|exact H]. }
    destruct (skipn (q_numhash q) t) as [|e s2] eqn:Esk; [apply (Hlit ch_bs); [unfold ch_bs; lia|exact H]|].
    destruct (negb (prefixb _ t)); [apply (Hlit ch_bs); [unfold ch_bs; lia|exact H]|].
    destruct (ue_facts q e s2 c mb ss H) as [[pre Hpre] [Hsur Hval]].
    assert (Ht : t = firstn (q_numhash q) t ++ e :: s2) by (rewrite <- Esk; symmetry; apply firstn_skipn).
    split; [|split; [|exact Hval]].
    - exists (b :: firstn (q_numhash q) t ++ e :: pre). split; [discriminate|].
      cbn [app]. f_equal. rewrite Ht at 1. rewrite Hpre. rewrite <- app_assoc. reflexivity.
    - intros Hs. destruct (Hsur Hs) as [p [d [Hp Hd]]].
      exists (b :: firstn (q_numhash q) t ++ e :: p), d. split; [|exact Hd].
      cbn [app]. f_equal. rewrite Ht at 1. rewrite Hp. rewrite <- app_assoc. reflexivity.
  Qed.

  Lemma uc_total : forall q s, s <> [] ->
    unquote_char s q <> Panic /\ unquote_char s q <> OutOfFuel.
  Proof.
    intros q s Hs. destruct s as [|b t]; [contradiction|]. unfold Unquote.unquote_char.
    repeat match goal with
    | |- context [if ?c then _ else _] => destruct c
    | |- context [let '(_, _) := ?x in _] => destruct x
    | |- context [match skipn ?n ?l with [] => _ | _ :: _ => _ end] => destruct (skipn n l)
    end; try (split; discriminate).
    apply ue_total.
  Qed.

  Lemma not_hexdigit_delim : forall q e, q_char q = ch_dq \/ q_char q = ch_sq ->
    e = q_char q \/ e = ch_hash -> ~ hexdigit e.
  Proof.
    intros q e Hq He Hh. apply Hh.
    destruct He as [->| ->]; [destruct Hq as [-> | ->]|]; reflexivity.
  Qed.

  (* ---- unquoteChar plus the surrogate logic ---- *)
  Lemma first_facts : forall q s, q_char q = ch_dq \/ q_char q = ch_sq -> s <> [] -> ends_ok q s ->
    unq_first s q <> Panic /\ unq_first s q <> OutOfFuel /\
    forall c mb ss, unq_first s q = Ok (c, mb, ss) ->
      (exists pre, pre <> [] /\ s = pre ++ ss) /\ (wrap = false -> special_or_nonneg c).
  Proof.
    intros q s Hq Hs He. unfold Unquote.unq_first.
    destruct (uc_total q s Hs) as [Hp Hf].
    destruct (unquote_char s q) as [[[c1 mb] ss]|e| |] eqn:E1; try contradiction.
    2:{ repeat split; try discriminate. }
    destruct (uc_facts q s c1 mb ss Hq E1) as [[pre [Hpre Hsplit]] [Hsur Hval]].
    destruct ((sur_high <=? c1)%Z && (c1 <? sur_end)%Z) eqn:Esur.
    2:{ repeat split; try discriminate; inversion H; subst; eauto. }
    destruct (sur_low <=? c1)%Z; [repeat split; discriminate|].
    (* the second call: ss is not empty because s ends with a delimiter byte *)
    assert (Hss : ss <> []).
    { intros ->. destruct (Hsur ltac:(lia)) as [p [d [Hp' Hd]]].
      destruct He as [He|[p2 [e [He1 He2]]]]; [contradiction|].
      rewrite He1 in Hp'. change (p ++ [d]) with (p ++ [d]) in Hp'.
      apply app_inj_tail in Hp'. destruct Hp' as [_ ->].
      exact (not_hexdigit_delim q d Hq He2 Hd). }
    destruct (uc_total q ss Hss) as [Hp2 Hf2].
    destruct (unquote_char ss q) as [[[cl mb2] ss2]|e2| |] eqn:E2; try contradiction.
    2:{ repeat split; discriminate. }
    destruct ((cl <? sur_low)%Z || (sur_end <=? cl)%Z) eqn:Ecl; [repeat split; discriminate|].
    destruct (uc_facts q ss cl mb2 ss2 Hq E2) as [[pre2 [Hpre2 Hsplit2]] _].
    set (cc := (0x10000 + (c1 - sur_high) * 0x400 + (cl - sur_low))%Z).
    assert (Hcc : (0 <= cc)%Z) by (unfold cc, sur_high, sur_low, sur_end in *; lia).
    clearbody cc.
    split; [discriminate|]. split; [discriminate|].
    intros c mb0 ss0 H. injection H as <- <- <-. split.
    - exists (pre ++ pre2). split; [destruct pre; [contradiction|discriminate]|].
      rewrite Hsplit, Hsplit2. now rewrite <- app_assoc.
    - intros _. left. exact Hcc.
  Qed.

  Lemma skip_ws_facts : forall s q s1, skip_ws_after_newline s q = Ok s1 -> exists pre, s = pre ++ s1.
  Proof.
    intros s q s1 H. unfold skip_ws_after_newline in H.
    destruct (negb (q_multi q)); [discriminate|].
    destruct (prefixb (q_ws q) s); [inversion H; apply skipn_suffix|].
    destruct (prefixb [ch_nl] s); [inversion H; exists []; reflexivity|].
    destruct (prefixb [ch_cr; ch_nl] s); [inversion H; exists []; reflexivity|discriminate].
  Qed.

  Lemma skip_ws_total : forall s q, skip_ws_after_newline s q <> Panic /\ skip_ws_after_newline s q <> OutOfFuel.
  Proof.
    intros s q. unfold skip_ws_after_newline.
    repeat match goal with |- context [if ?c then _ else _] => destruct c end; split; discriminate.
  Qed.

  (* ---- the loop ---- *)
  Lemma unq_loop_safe : forall fuel q s rbuf st we, q_char q = ch_dq \/ q_char q = ch_sq ->
    (length s < fuel)%nat -> ends_ok q s -> (st = true -> rbuf <> []) ->
    unq_loop fuel q s rbuf st we <> OutOfFuel /\
    (wrap = false -> unq_loop fuel q s rbuf st we <> Panic).
  Proof.
    induction fuel as [|k IH]; intros q s rbuf st we Hq Hl He Hst; [lia|].
    destruct s as [|c t]; [split; [|intros _]; discriminate|].
    cbn [Unquote.unq_loop]. cbn [length] in Hl.
    assert (Het : ends_ok q t) by (apply (ends_ok_suffix q [c] t); exact He).
    destruct (c =? ch_cr).
    { apply IH; auto. lia. }
    destruct (c =? ch_nl).
    { destruct (skip_ws_total t q) as [Hp Hf].
      destruct (skip_ws_after_newline t q) as [s1|e| |] eqn:Es; try contradiction.
      2:{ split; [|intros _]; discriminate. }
      destruct (skip_ws_facts _ _ _ Es) as [pre Hpre].
      destruct (q_multi q && has_closing_delim_prefix s1 q && Nat.ltb (delim_len q) (length s1));
        [split; [|intros _]; discriminate|].
      apply IH; auto.
      - rewrite Hpre in Hl. rewrite app_length in Hl. lia.
      - rewrite Hpre in Het. eapply ends_ok_suffix; eauto.
      - intros _. discriminate. }
    destruct (first_facts q (c :: t) Hq ltac:(discriminate) He) as [Hp [Hf Hok]].
    destruct (unq_first (c :: t) q) as [[[c1 mb] ss]|e| |] eqn:E1; try contradiction.
    2:{ split; [|intros _]; discriminate. }
    destruct (Hok c1 mb ss eq_refl) as [[pre [Hpre Hsplit]] Hval].
    assert (Hlss : (length ss < k)%nat).
    { apply (f_equal (@length N)) in Hsplit. rewrite app_length in Hsplit. cbn [length] in Hsplit.
      destruct pre; [contradiction|]. cbn [length] in Hsplit. lia. }
    assert (Hess : ends_ok q ss) by (rewrite Hsplit in He; eapply ends_ok_suffix; eauto).
    destruct (c1 <? 0)%Z eqn:Eneg.
    - destruct (c1 =? escaped_newline)%Z eqn:Een.
      { destruct (skip_ws_total ss q) as [Hp2 Hf2].
        destruct (skip_ws_after_newline ss q) as [s1|e| |] eqn:Es; try contradiction.
        2:{ split; [|intros _]; discriminate. }
        destruct (skip_ws_facts _ _ _ Es) as [pre2 Hpre2].
        apply IH; auto.
        - rewrite Hpre2 in Hlss. rewrite app_length in Hlss. lia.
        - rewrite Hpre2 in Hess. eapply ends_ok_suffix; eauto. }
      destruct (c1 =? terminated_by_quote)%Z eqn:Etq.
      { destruct we; [split; [|intros _]; discriminate|].
        destruct st; [|split; [|intros _]; discriminate].
        destruct rbuf; [exfalso; now apply Hst|split; [|intros _]; discriminate]. }
      destruct (c1 =? terminated_by_expr)%Z eqn:Ete; [split; [|intros _]; discriminate|].
      split; [discriminate|]. intros Hw. exfalso.
      destruct (Hval Hw) as [H|[H|[H|H]]]; unfold terminated_by_quote, terminated_by_expr, escaped_newline in *; lia.
    - destruct (negb mb); apply IH; auto; intros; discriminate.
  Qed.

  (* ---- ParseQuotes ---- *)
  Lemma pq_kind_total : forall c0 nh s1, pq_kind c0 nh s1 <> Panic /\ pq_kind c0 nh s1 <> OutOfFuel.
  Proof.
    intros. unfold pq_kind.
    repeat match goal with
    | |- context [if ?c then _ else _] => destruct c
    | |- context [match ?l with [] => _ | _ :: _ => _ end] => destruct l
    end; split; discriminate.
  Qed.

  Lemma pq_finish_facts : forall start end_ nh c0 m q ns ne,
    pq_finish start end_ nh c0 m = Ok (q, ns, ne) ->
    q_char q = c0 /\
    prefixb (firstn ((match m with Some _ => 3 | None => 1 end) + nh) start) (rev end_) = true.
  Proof.
    intros start end_ nh c0 m q ns ne H. unfold pq_finish in H.
    match type of H with (if negb (?a && ?b) then _ else _) = _ => destruct a; destruct b eqn:Eb end;
      try discriminate.
    cbn [andb negb] in H. split; [|reflexivity].
    destruct m as [ql|]; [|inversion H; reflexivity].
    destruct (ws_scan _ _) as [has_nl i]. destruct (negb has_nl); [discriminate|].
    destruct (skipn (S ql) start) as [|c rest]; [inversion H; reflexivity|].
    destruct (negb (c =? ch_nl)); [|inversion H; reflexivity].
    destruct (negb (prefixb _ _)); [discriminate|inversion H; reflexivity].
  Qed.

  Lemma pq_finish_total : forall start end_ nh c0 m,
    pq_finish start end_ nh c0 m <> Panic /\ pq_finish start end_ nh c0 m <> OutOfFuel.
  Proof.
    intros. unfold pq_finish.
    repeat match goal with
    | |- context [if ?c then _ else _] => destruct c
    | |- context [let '(_, _) := ?x in _] => destruct x
    | |- context [match ?l with [] => _ | _ :: _ => _ end] => destruct l
    | |- context [match ?o with Some _ => _ | None => _ end] => destruct o
    end; split; discriminate.
  Qed.

  Lemma parse_quotes_total : forall a b, parse_quotes a b <> Panic /\ parse_quotes a b <> OutOfFuel.
  Proof.
    intros. unfold parse_quotes. cbv zeta.
    destruct (skipn _ a) as [|c0 s1]; [split; discriminate|].
    destruct ((c0 =? ch_dq) || (c0 =? ch_sq)); [|split; discriminate].
    destruct (pq_kind_total c0 (count_prefix ch_hash a) s1) as [H1 H2].
    destruct (pq_kind c0 (count_prefix ch_hash a) s1); try contradiction; try (split; discriminate).
    apply pq_finish_total.
  Qed.

  Lemma parse_quotes_ends_ok : forall s q ns ne, parse_quotes s s = Ok (q, ns, ne) ->
    (q_char q = ch_dq \/ q_char q = ch_sq) /\ ends_ok q s.
  Proof.
    intros s q ns ne H. unfold parse_quotes in H. cbv zeta in H.
    destruct (count_prefix_split ch_hash s) as [Hs _].
    set (nh := count_prefix ch_hash s) in *.
    destruct (skipn nh s) as [|c0 s1] eqn:Esk; [discriminate|].
    destruct ((c0 =? ch_dq) || (c0 =? ch_sq)) eqn:Eq; [|discriminate].
    destruct (pq_kind c0 nh s1) as [m|e| |]; try discriminate.
    destruct (pq_finish_facts _ _ _ _ _ _ _ _ H) as [Hc Hp].
    split; [rewrite Hc; lia|].
    (* the first byte of the literal is the last byte of the closing delimiter *)
    right.
    set (ln := ((match m with Some _ => 3 | None => 1 end) + nh)%nat) in *.
    assert (Hln : (1 <= ln)%nat) by (unfold ln; destruct m; lia).
    destruct s as [|b0 s']; [destruct nh; discriminate|].
    destruct ln as [|ln']; [lia|]. cbn [firstn] in Hp.
    apply prefixb_spec in Hp. destruct Hp as [r Hr]. cbn [app] in Hr.
    exists (rev (firstn ln' s' ++ r)), b0. split.
    - rewrite <- (rev_involutive (b0 :: s')). rewrite Hr. reflexivity.
    - rewrite Hc. destruct nh as [|nh']; cbn [repeat app] in Hs; inversion Hs; auto.
  Qed.

  (* ================= the top level ================= *)
  Theorem unquote_total : forall s,
    unquote wrap s <> OutOfFuel /\ (wrap = false -> unquote wrap s <> Panic).
  Proof.
    intros s. unfold Unquote.unquote.
    destruct (parse_quotes_total s s) as [Hp Hf].
    destruct (parse_quotes s s) as [[[q ns] ne]|e| |] eqn:E; try contradiction.
    2:{ split; [|intros _]; discriminate. }
    destruct (parse_quotes_ends_ok _ _ _ _ E) as [Hq He].
    assert (He' : ends_ok q (skipn ns s)).
    { destruct (skipn_suffix ns s) as [pre Hpre]. rewrite Hpre in He. eapply ends_ok_suffix; eauto. }
    unfold qi_unquote.
    destruct (negb (q_multi q) && negb match skipn ns s with [] => true | _ :: _ => false end &&
              existsb (fun c => c =? ch_nl) (skipn ns s)); [split; [|intros _]; discriminate|].
    match goal with |- context [match ?o with Some r => Ok r | None => _ end] => destruct o end;
      [split; [|intros _]; discriminate|].
    destruct (q_multi q && has_closing_delim_prefix (skipn ns s) q && Nat.ltb (delim_len q) (length (skipn ns s)));
      [split; [|intros _]; discriminate|].
    apply unq_loop_safe; auto. intros; discriminate.
  Qed.
End NoPanic.

(* the specification layer of Unquote never panics and never runs out of fuel *)
Theorem unquote_spec_no_panic : forall s, unquote_spec s <> Panic /\ unquote_spec s <> OutOfFuel.
Proof.
  intro s. destruct (unquote_total false s) as [H1 H2]. split; [now apply H2|exact H1].
Qed.

(* literal.Unquote never panics and never runs out of fuel, on every input *)
Theorem unquote_impl_no_panic : forall s, unquote_impl s <> Panic /\ unquote_impl s <> OutOfFuel.
Proof. exact unquote_spec_no_panic. Qed.

Theorem unquote_impl_eq_spec : forall s, unquote_impl s = unquote_spec s.
Proof. reflexivity. Qed.

(* the int32 regression layer never runs out of fuel either: its only deviation is the Panic *)
Theorem unquote_int32_fuel_sufficient : forall s, unquote_int32 s <> OutOfFuel.
Proof. intro s. exact (proj1 (unquote_total true s)). Qed.

(* ================= int32 regression layer = implementation layer, when ================= *)

(* no byte 'U' is directly followed by a hex digit >= 8: then no \U escape can
   denote a value >= 2^31, the only situation in which Go's int32 wraps *)
Fixpoint no_big_U (s : str) : bool :=
  match s with
  | a :: t =>
    match t with
    | b :: _ =>
      negb ((a =? 85) && match unhex b with Some x => 8 <=? x | None => false end) && no_big_U t
    | [] => true
    end
  | [] => true
  end.

Lemma no_big_U_tail : forall a t, no_big_U (a :: t) = true -> no_big_U t = true.
Proof. intros a t H. cbn [no_big_U] in H. destruct t; [reflexivity|]. apply andb_prop in H. tauto. Qed.

Lemma no_big_U_suffix : forall pre t, no_big_U (pre ++ t) = true -> no_big_U t = true.
Proof. induction pre; intros t H; [exact H|]. apply IHpre. eapply no_big_U_tail. exact H. Qed.

Lemma ue_wrap_irrelevant : forall q e s2, no_big_U (e :: s2) = true ->
  unquote_escape true q e s2 = unquote_escape false q e s2.
Proof.
  intros q e s2 H. unfold unquote_escape.
  repeat match goal with |- (if ?c then _ else _) = (if ?c then _ else _) => destruct c eqn:?; [reflexivity|] end.
  destruct ((e =? 120) || (e =? 117) || (e =? 85)) eqn:Ehex; [|reflexivity].
  set (n := if e =? 120 then 2%nat else if e =? 117 then 4%nat else 8%nat).
  destruct (Nat.ltb (length s2) n) eqn:Elen; [reflexivity|].
  destruct (hex_value (firstn n s2) 0) as [v|] eqn:Ev; [|reflexivity].
  destruct (e =? 120) eqn:E120; [reflexivity|].
  assert (Hv : v < 0x80000000).
  { apply Nat.ltb_ge in Elen. unfold n in *. clear n. cbv iota in Elen, Ev.
    destruct (e =? 117) eqn:E117.
    - pose proof (hex_value_bound _ _ _ Ev) as Hb. rewrite firstn_length in Hb.
      assert (Hm : Init.Nat.min 4 (length s2) = 4%nat) by (apply Nat.min_l; clear - Elen; lia).
      rewrite Hm in Hb. change (N.of_nat 4) with 4 in Hb. change (16 ^ 4) with 65536 in Hb. clear - Hb. lia.
    - assert (He : e = 85) by lia. subst e.
      destruct s2 as [|d1 s3]; [cbn in Elen; lia|].
      change (firstn 8 (d1 :: s3)) with (d1 :: firstn 7 s3) in Ev. cbn [hex_value] in Ev. cbn [no_big_U] in H.
      destruct (unhex d1) as [x1|] eqn:Ex; [|discriminate].
      pose proof (hex_value_bound _ _ _ Ev) as Hb. rewrite firstn_length in Hb.
      cbn [length] in Elen.
      assert (Hm : Init.Nat.min 7 (length s3) = 7%nat) by (apply Nat.min_l; clear - Elen; lia).
      rewrite Hm in Hb. change (N.of_nat 7) with 7 in Hb. change (16 ^ 7) with 268435456 in Hb.
      change (0 * 16 + x1) with x1 in Hb.
      assert (Hx : x1 < 8).
      { apply andb_prop in H. destruct H as [H _]. apply negb_true_iff in H.
        rewrite N.eqb_refl in H. cbn [andb] in H. apply N.leb_gt in H. exact H. }
      clear - Hb Hx. lia. }
  unfold to_rune. replace (0x80000000 <=? v) with false by lia. rewrite andb_false_r. reflexivity.
Qed.

Lemma uc_wrap_irrelevant : forall q s, no_big_U s = true ->
  unquote_char true s q = unquote_char false s q.
Proof.
  intros q s H. unfold unquote_char. destruct s as [|b t]; [reflexivity|].
  destruct ((b =? q_char q) && negb (q_char q =? 0)); [reflexivity|].
  destruct (rune_self <=? b); [reflexivity|].
  destruct (negb (b =? ch_bs)); [reflexivity|].
  destruct (skipn (q_numhash q) t) as [|e s2] eqn:Esk; [reflexivity|].
  destruct (negb (prefixb _ t)); [reflexivity|].
  apply ue_wrap_irrelevant.
  apply no_big_U_tail in H. destruct (skipn_suffix (q_numhash q) t) as [pre Hpre].
  rewrite Hpre, Esk in H. eapply no_big_U_suffix. exact H.
Qed.

Lemma first_wrap_irrelevant : forall q s, q_char q = ch_dq \/ q_char q = ch_sq ->
  no_big_U s = true -> unq_first true s q = unq_first false s q.
Proof.
  intros q s Hq H. unfold unq_first. rewrite (uc_wrap_irrelevant q s H).
  destruct (unquote_char false s q) as [[[c1 mb] ss]|e| |] eqn:E1; [|reflexivity|reflexivity|reflexivity].
  destruct (uc_facts false q s c1 mb ss Hq E1) as [[pre [_ Hsplit]] _].
  assert (Hss : no_big_U ss = true) by (rewrite Hsplit in H; eapply no_big_U_suffix; eauto).
  rewrite (uc_wrap_irrelevant q ss Hss). reflexivity.
Qed.

Lemma unq_loop_wrap_irrelevant : forall fuel q s rbuf st we, q_char q = ch_dq \/ q_char q = ch_sq ->
  no_big_U s = true -> unq_loop true fuel q s rbuf st we = unq_loop false fuel q s rbuf st we.
Proof.
  induction fuel as [|k IH]; intros q s rbuf st we Hq H; [reflexivity|].
  destruct s as [|c t]; [reflexivity|]. cbn [unq_loop].
  pose proof (no_big_U_tail _ _ H) as Ht.
  destruct (c =? ch_cr); [apply IH; auto|].
  destruct (c =? ch_nl).
  { destruct (skip_ws_after_newline t q) as [s1|e| |] eqn:Es; [|reflexivity|reflexivity|reflexivity].
    destruct (skip_ws_facts _ _ _ Es) as [pre Hpre].
    destruct (q_multi q && has_closing_delim_prefix s1 q && Nat.ltb (delim_len q) (length s1)); [reflexivity|].
    apply IH; auto. rewrite Hpre in Ht. eapply no_big_U_suffix; eauto. }
  rewrite (first_wrap_irrelevant q (c :: t) Hq H).
  destruct (unq_first false (c :: t) q) as [[[c1 mb] ss]|e| |] eqn:E1; [|reflexivity|reflexivity|reflexivity].
  assert (Hss : no_big_U ss = true).
  { unfold unq_first in E1.
    destruct (unquote_char false (c :: t) q) as [[[c0 mb0] ss0]|e| |] eqn:E0; try discriminate.
    destruct (uc_facts false q (c :: t) c0 mb0 ss0 Hq E0) as [[pre [_ Hsplit]] _].
    assert (Hss0 : no_big_U ss0 = true) by (rewrite Hsplit in H; eapply no_big_U_suffix; eauto).
    destruct ((sur_high <=? c0)%Z && (c0 <? sur_end)%Z).
    - destruct (sur_low <=? c0)%Z; [discriminate|].
      destruct (unquote_char false ss0 q) as [[[cl mb2] ss2]|e| |] eqn:E2; try discriminate.
      destruct ((cl <? sur_low)%Z || (sur_end <=? cl)%Z); [discriminate|].
      injection E1 as _ _ <-.
      destruct (uc_facts false q ss0 cl mb2 ss2 Hq E2) as [[pre2 [_ Hsplit2]] _].
      rewrite Hsplit2 in Hss0. eapply no_big_U_suffix; eauto.
    - injection E1 as _ _ <-. exact Hss0. }
  destruct (c1 <? 0)%Z.
  - destruct (c1 =? escaped_newline)%Z; [|reflexivity].
    destruct (skip_ws_after_newline ss q) as [s1|e| |] eqn:Es; [|reflexivity|reflexivity|reflexivity].
    destruct (skip_ws_facts _ _ _ Es) as [pre Hpre].
    apply IH; auto. rewrite Hpre in Hss. eapply no_big_U_suffix; eauto.
  - destruct (negb mb); apply IH; auto.
Qed.

Theorem unquote_int32_eq_impl_when : forall s, no_big_U s = true -> unquote_int32 s = unquote_impl s.
Proof.
  intros s H. unfold unquote_int32, unquote_impl, unquote.
  destruct (parse_quotes s s) as [[[q ns] ne]|e| |] eqn:E; [|reflexivity|reflexivity|reflexivity].
  destruct (parse_quotes_ends_ok _ _ _ _ E) as [Hq _].
  unfold qi_unquote.
  destruct (negb (q_multi q) && _ && _); [reflexivity|].
  match goal with |- context [match ?o with Some r => Ok r | None => _ end] => destruct o end; [reflexivity|].
  destruct (q_multi q && _ && _); [reflexivity|].
  apply unq_loop_wrap_irrelevant; auto.
  destruct (skipn_suffix ns s) as [pre Hpre]. rewrite Hpre in H. eapply no_big_U_suffix; eauto.
Qed.

(* the witness of the deviation violates the side condition, as it must *)
Example no_big_U_witness :
  no_big_U [34; 92; 85; 70; 70; 70; 70; 70; 70; 70; 67; 34] = false /\
  no_big_U [34; 92; 85; 48; 48; 49; 48; 70; 70; 70; 70; 34] = true.
Proof. split; vm_compute; reflexivity. Qed.
