(* One iteration of the Unquote loop on each kind of chunk that Quote emits. *)
From Verif Require Import Utf8.Model Utf8.Proofs Lit.Quote Lit.Unquote Lit.Basics.
From Coq Require Import ZArith Lia ZifyN ZifyNat ZifyBool.
Ltac Zify.zify_post_hook ::= Z.div_mod_to_equations.

(* the QuoteInfo that ParseQuotes computes for a literal produced by Quote *)
Definition qi_for (f : form) (ml : bool) (hc : nat) : qinfo :=
  mkQ hc ml (f_quote f) (if ml then 3%nat else 1%nat) (if ml then tabs (f_indent f) else []).

Lemma public_quote : forall f, public_form f -> f_quote f = ch_dq \/ f_quote f = ch_sq.
Proof. intros f [_ [[H _]|[H _]]]; auto. Qed.

Lemma encode_length_high : forall r, 0x80 <= r -> (2 <= length (utf8_encode r))%nat.
Proof.
  intros r H. unfold utf8_encode.
  repeat match goal with |- context [if ?c then _ else _] => destruct c eqn:? end; cbn; lia.
Qed.

Section StepsU.
  Variable wrap : bool.

  Notation unq_loop := (unq_loop wrap).
  Notation unquote_char := (unquote_char wrap).
  Notation unquote_escape := (unquote_escape wrap).

  (* ---- one iteration of the loop on an ordinary character ---- *)
  Lemma unq_step : forall k q c t rbuf st we v mb ss,
    c <> ch_cr -> c <> ch_nl ->
    unquote_char (c :: t) q = Ok (Z.of_N v, mb, ss) ->
    (v < 0xD800 \/ 0xE000 <= v) ->
    unq_loop (S k) q (c :: t) rbuf st we =
    unq_loop k q ss (if mb then rev (utf8_encode v) ++ rbuf else (v mod 256) :: rbuf) false false.
  Proof.
    intros k q c t rbuf st we v mb ss Hcr Hnl Huc Hv.
    cbn [Unquote.unq_loop].
    destruct (N.eqb_spec c ch_cr); [contradiction|].
    destruct (N.eqb_spec c ch_nl); [contradiction|].
    unfold unq_first. rewrite Huc.
    replace ((sur_high <=? Z.of_N v)%Z && (Z.of_N v <? sur_end)%Z) with false
      by (unfold sur_high, sur_end; lia).
    replace (Z.of_N v <? 0)%Z with false by lia.
    rewrite N2Z.id. destruct mb; reflexivity.
  Qed.

  (* ---- unquoteChar on an escape introducer ---- *)
  Lemma uc_escape : forall q e s2, q_char q <> ch_bs ->
    unquote_char (ch_bs :: hashes (q_numhash q) ++ e :: s2) q = unquote_escape q e s2.
  Proof.
    intros q e s2 Hq. unfold Unquote.unquote_char.
    destruct (N.eqb_spec ch_bs (q_char q)); [congruence|]. cbn [andb].
    change (rune_self <=? ch_bs) with false. cbv iota.
    change (negb (ch_bs =? ch_bs)) with false. cbv iota.
    rewrite skipn_hashes, prefixb_app. reflexivity.
  Qed.

  Lemma ue_hex2 : forall q b s2, q_char q <> ch_dq -> b < 256 ->
    unquote_escape q 120 (hex2 b ++ s2) = Ok (Z.of_N b, false, s2).
  Proof.
    intros q b s2 Hq Hb. unfold Unquote.unquote_escape.
    change (120 =? 97) with false. change (120 =? 98) with false. change (120 =? 102) with false.
    change (120 =? 110) with false. change (120 =? 114) with false. change (120 =? 116) with false.
    change (120 =? 118) with false. change (120 =? 47) with false. change (120 =? 120) with true.
    cbv iota. cbn [orb]. cbv iota.
    change (hex2 b ++ s2) with (lowerhex (b / 16) :: lowerhex (b mod 16) :: s2).
    cbn [length Nat.ltb Nat.leb firstn skipn].
    change [lowerhex (b / 16); lowerhex (b mod 16)] with (hex2 b).
    rewrite hex_value_hex2 by assumption.
    destruct (N.eqb_spec (q_char q) ch_dq); [contradiction|reflexivity].
  Qed.

  Lemma ue_hex4 : forall q r s2, r < 65536 ->
    unquote_escape q 117 (hex4 r ++ s2) = Ok (Z.of_N r, true, s2).
  Proof.
    intros q r s2 Hr. unfold Unquote.unquote_escape.
    change (117 =? 97) with false. change (117 =? 98) with false. change (117 =? 102) with false.
    change (117 =? 110) with false. change (117 =? 114) with false. change (117 =? 116) with false.
    change (117 =? 118) with false. change (117 =? 47) with false. change (117 =? 120) with false.
    change (117 =? 117) with true.
    cbv iota. cbn [orb]. cbv iota.
    replace (Nat.ltb (length (hex4 r ++ s2)) 4) with false
      by (rewrite app_length, hex4_length; symmetry; apply Nat.ltb_ge; lia).
    change (firstn 4 (hex4 r ++ s2)) with (hex4 r). change (skipn 4 (hex4 r ++ s2)) with s2.
    rewrite hex_value_hex4 by assumption.
    unfold to_rune, max_rune. replace (wrap && (0x80000000 <=? r)) with false by lia.
    replace (Z.of_N 1114111 <? Z.of_N r)%Z with false by lia. reflexivity.
  Qed.

  Lemma ue_hex8 : forall q r s2, r <= max_rune ->
    unquote_escape q 85 (hex8 r ++ s2) = Ok (Z.of_N r, true, s2).
  Proof.
    intros q r s2 Hr. unfold max_rune in Hr. unfold Unquote.unquote_escape.
    change (85 =? 97) with false. change (85 =? 98) with false. change (85 =? 102) with false.
    change (85 =? 110) with false. change (85 =? 114) with false. change (85 =? 116) with false.
    change (85 =? 118) with false. change (85 =? 47) with false. change (85 =? 120) with false.
    change (85 =? 117) with false. change (85 =? 85) with true.
    cbv iota. cbn [orb]. cbv iota.
    replace (Nat.ltb (length (hex8 r ++ s2)) 8) with false
      by (rewrite app_length, hex8_length; symmetry; apply Nat.ltb_ge; lia).
    change (firstn 8 (hex8 r ++ s2)) with (hex8 r). change (skipn 8 (hex8 r ++ s2)) with s2.
    rewrite hex_value_hex8 by lia.
    unfold to_rune, max_rune. replace (wrap && (0x80000000 <=? r)) with false by lia.
    replace (Z.of_N 1114111 <? Z.of_N r)%Z with false by lia. reflexivity.
  Qed.

  Lemma ue_quote : forall q s2, q_char q = ch_dq \/ q_char q = ch_sq ->
    unquote_escape q (q_char q) s2 = Ok (Z.of_N (q_char q), false, s2).
  Proof. intros q s2 [H|H]; unfold Unquote.unquote_escape; rewrite H; reflexivity. Qed.

  (* ---- unquoteChar on a raw ASCII byte ---- *)
  Lemma uc_ascii : forall q c t, c < 0x80 -> c <> q_char q -> c <> ch_bs -> c <> 0 ->
    unquote_char (c :: t) q = Ok (Z.of_N c, false, t).
  Proof.
    intros q c t H1 H2 H3 H4. unfold Unquote.unquote_char.
    destruct (N.eqb_spec c (q_char q)); [contradiction|]. cbn [andb].
    replace (rune_self <=? c) with false by (unfold rune_self; lia).
    destruct (N.eqb_spec c ch_bs); [contradiction|]. cbn [negb].
    destruct (N.eqb_spec c 0); [contradiction|]. reflexivity.
  Qed.

  (* ---- unquoteChar on the UTF-8 encoding of a non-ASCII scalar ---- *)
  Lemma uc_multibyte : forall q r rest, scalar r -> 0x80 <= r -> q_char q < 0x80 ->
    unquote_char (utf8_encode r ++ rest) q = Ok (Z.of_N r, true, rest).
  Proof.
    intros q r rest Hs Hr Hq.
    pose proof (decode_encode r rest Hs) as D.
    pose proof (encode_length_high r Hr) as L.
    destruct (encode_high r Hr) as [_ [b [t [E Hb]]]].
    rewrite E in *. cbn [app] in *. unfold Unquote.unquote_char.
    destruct (N.eqb_spec b (q_char q)); [lia|]. cbn [andb].
    replace (rune_self <=? b) with true by (unfold rune_self; lia).
    rewrite D.
    replace (Nat.eqb (length (b :: t)) 1) with false by (symmetry; apply Nat.eqb_neq; lia).
    rewrite andb_false_r.
    change (b :: t ++ rest) with ((b :: t) ++ rest). now rewrite skipn_app_exact.
  Qed.

  (* ---- unquoteChar on a quote character that does not terminate ---- *)
  Lemma uc_quote_multi : forall q t, q_numchar q = 3%nat -> q_char q <> 0 ->
    S (length t) <> delim_len q ->
    unquote_char (q_char q :: t) q = Ok (Z.of_N (q_char q), false, t).
  Proof.
    intros q t H3 H0 Hl. unfold Unquote.unquote_char.
    rewrite N.eqb_refl. destruct (N.eqb_spec (q_char q) 0); [contradiction|]. cbn [andb negb].
    destruct (prefixb _ t); cbn [negb]; [|reflexivity].
    destruct (prefixb _ _); cbn [negb]; [|reflexivity].
    cbn [length]. destruct (Nat.eqb_spec (S (length t)) (delim_len q)); [contradiction|].
    cbn [negb]. rewrite H3. reflexivity.
  Qed.

  Lemma uc_quote_short_run : forall q t, q_numchar q = 1%nat -> q_char q <> 0 ->
    (count_prefix ch_hash t < q_numhash q)%nat ->
    unquote_char (q_char q :: t) q = Ok (Z.of_N (q_char q), false, t).
  Proof.
    intros q t H1 H0 Hc. unfold Unquote.unquote_char.
    rewrite N.eqb_refl. destruct (N.eqb_spec (q_char q) 0); [contradiction|]. cbn [andb negb].
    rewrite H1. cbn [Nat.sub repeat prefixb negb skipn].
    rewrite prefixb_hashes_short by assumption. reflexivity.
  Qed.

  Lemma uc_backslash_short_run : forall q t, q_char q <> ch_bs ->
    (count_prefix ch_hash t < q_numhash q)%nat ->
    unquote_char (ch_bs :: t) q = Ok (Z.of_N ch_bs, false, t).
  Proof.
    intros q t Hq Hc. unfold Unquote.unquote_char.
    destruct (N.eqb_spec ch_bs (q_char q)); [congruence|]. cbn [andb].
    change (rune_self <=? ch_bs) with false. cbv iota.
    change (negb (ch_bs =? ch_bs)) with false. cbv iota.
    rewrite prefixb_hashes_short by assumption. cbn [negb].
    destruct (skipn (q_numhash q) t); reflexivity.
  Qed.

  (* ---- the closing delimiter ---- *)
  Lemma uc_closing : forall q, q_char q <> 0 ->
    unquote_char (repeat (q_char q) (q_numchar q) ++ hashes (q_numhash q)) q =
    match q_numchar q with
    | O => unquote_char (hashes (q_numhash q)) q
    | S _ => Ok (terminated_by_quote, false, [])
    end.
  Proof.
    intros q H0. destruct (q_numchar q) as [|n] eqn:En; [reflexivity|].
    cbn [repeat app]. unfold Unquote.unquote_char.
    rewrite N.eqb_refl. destruct (N.eqb_spec (q_char q) 0); [contradiction|]. cbn [andb negb].
    rewrite En. cbn [Nat.sub]. rewrite Nat.sub_0_r.
    rewrite prefixb_app. cbn [negb].
    replace (skipn n (repeat (q_char q) n ++ hashes (q_numhash q))) with (hashes (q_numhash q))
      by (rewrite <- (repeat_length (q_char q) n) at 1; now rewrite skipn_app_exact).
    rewrite <- (app_nil_r (hashes (q_numhash q))) at 2. rewrite prefixb_app. cbn [negb].
    unfold delim_len. rewrite En. cbn [length]. rewrite app_length, repeat_length, hashes_length.
    rewrite Nat.eqb_refl. reflexivity.
  Qed.

  (* ---- an invalid byte in an exact (bytes) form: \xHH ---- *)
  Lemma step_bad_byte : forall f ml hc b rest k rbuf st we,
    public_form f -> f_exact f = true -> b < 256 ->
    unq_loop (S k) (qi_for f ml hc) (esc_intro hc ++ 120 :: hex2 b ++ rest) rbuf st we =
    unq_loop k (qi_for f ml hc) rest (b :: rbuf) false false.
  Proof.
    intros f ml hc b rest k rbuf st we Hpub Hex Hb.
    set (q := qi_for f ml hc).
    pose proof (public_quote f Hpub) as Hq.
    assert (Hq92 : q_char q <> ch_bs) by (cbn; unfold ch_bs, ch_dq, ch_sq in *; lia).
    unfold esc_intro. cbn [app].
    replace (b :: rbuf) with (if false then rev (utf8_encode b) ++ rbuf else (b mod 256) :: rbuf)
      by (rewrite N.mod_small; [reflexivity|lia]).
    apply (unq_step k q ch_bs (hashes hc ++ 120 :: hex2 b ++ rest) rbuf st we b false rest); try (unfold ch_bs, ch_cr, ch_nl; lia).
    change hc with (q_numhash q). rewrite uc_escape by assumption.
      apply ue_hex2; [|assumption]. cbn.
      destruct Hpub as [_ [[_ Hp]|[Hp _]]]; [congruence|]. rewrite Hp. discriminate.
  Qed.
End StepsU.

Section Steps.
  Variable wrap : bool.
  Variable pr_tbl gr_tbl : N -> bool.

  Notation unq_loop := (unq_loop wrap).
  Notation unquote_char := (unquote_char wrap).
  Notation unquote_escape := (unquote_escape wrap).
  Notation escaped_rune := (escaped_rune pr_tbl gr_tbl).
  Notation form_is_print := (form_is_print pr_tbl gr_tbl).

  (* ---- a rune escaped by appendEscapedRune, read back in one iteration ---- *)
  Lemma step_rune : forall f ml hc r rest k rbuf st we,
    public_form f -> scalar r ->
    (ml = true -> (3 + hc < S (length rest))%nat) ->
    unq_loop (S k) (qi_for f ml hc) (escaped_rune f ml hc r ++ rest) rbuf st we =
    unq_loop k (qi_for f ml hc) rest (rev (utf8_encode r) ++ rbuf) false false.
  Proof.
    intros f ml hc r rest k rbuf st we Hpub Hsc Hml.
    set (q := qi_for f ml hc).
    assert (Hqc : q_char q = f_quote f) by reflexivity.
    assert (Hqh : q_numhash q = hc) by reflexivity.
    pose proof (public_quote f Hpub) as Hq.
    assert (Hq92 : q_char q <> ch_bs) by (rewrite Hqc; unfold ch_bs, ch_dq, ch_sq in *; lia).
    assert (Hlow : forall v, v < 0x80 -> rev (utf8_encode v) ++ rbuf = (v mod 256) :: rbuf).
    { intros v Hv. rewrite encode_ascii by assumption. cbn. f_equal. rewrite N.mod_small; lia. }
    assert (Hnsur : forall v, v < 0x80 -> v < 0xD800 \/ 0xE000 <= v) by (intros; lia).
    (* an escape sequence: backslash, hashes, then [e :: tail] *)
    assert (Hesc : forall e tail v mb,
      unquote_escape q e tail = Ok (Z.of_N v, mb, rest) -> (v < 0xD800 \/ 0xE000 <= v) ->
      unq_loop (S k) q ((esc_intro hc ++ e :: tail)) rbuf st we =
      unq_loop k q rest (if mb then rev (utf8_encode v) ++ rbuf else (v mod 256) :: rbuf) false false).
    { intros e tail v mb Hue Hv. unfold esc_intro. cbn [app].
      apply unq_step; try (unfold ch_bs, ch_cr, ch_nl; lia); try assumption.
      rewrite <- Hqh. rewrite uc_escape by assumption. exact Hue. }
    unfold Quote.escaped_rune.
    destruct ((negb ml && (r =? f_quote f)) || (r =? ch_bs)) eqn:E1.
    { (* always backslashed: quote or backslash *)
      rewrite <- app_assoc. cbn [app].
      assert (Hr : r = f_quote f \/ r = ch_bs) by lia.
      assert (Hr80 : r < 0x80) by (unfold ch_bs, ch_dq, ch_sq in *; lia).
      rewrite (Hesc r rest r false).
      - now rewrite Hlow.
      - destruct Hr as [Hr|Hr].
        + rewrite Hr, <- Hqc. apply ue_quote. rewrite Hqc. exact Hq.
        + rewrite Hr. reflexivity.
      - auto. }
    destruct (form_is_print f r) eqn:Epr.
    { (* printed raw *)
      destruct (N.ltb_spec r 0x80) as [Hlt|Hge].
      - pose proof (print_ascii _ _ _ _ Epr Hlt) as [Hlo Hhi].
        rewrite encode_ascii by assumption. cbn [rev app].
        replace (r :: rbuf) with (if false then rev (utf8_encode r) ++ rbuf else (r mod 256) :: rbuf)
          by (rewrite N.mod_small; [reflexivity|lia]).
        apply (unq_step wrap k q r rest rbuf st we r false rest); try (unfold ch_cr, ch_nl; lia); auto.
        destruct (N.eqb_spec r (f_quote f)) as [Heq|Hne].
        + (* a raw quote: only in multi-line mode *)
          destruct ml; [|cbn in E1; lia].
          rewrite Heq, <- Hqc. apply uc_quote_multi; try reflexivity.
          * rewrite Hqc. unfold ch_dq, ch_sq in *; lia.
          * unfold delim_len. cbn. specialize (Hml eq_refl). lia.
        + apply uc_ascii; try assumption; unfold ch_bs in *; lia.
      - destruct (encode_high r Hge) as [_ [b [t [E Hb]]]].
        assert (US := unq_step wrap k q b (t ++ rest) rbuf st we r true rest).
        cbv iota in US. change (b :: t ++ rest) with ((b :: t) ++ rest) in US. rewrite <- E in US.
        apply US; try (unfold ch_cr, ch_nl; lia).
        + apply uc_multibyte; auto. rewrite Hqc. unfold ch_dq, ch_sq in *; lia.
        + destruct Hsc as [Hs1 Hs2]. lia. }
    (* escaped *)
    destruct Hsc as [Hs1 Hs2]. unfold max_rune in Hs1.
    rewrite <- app_assoc.
    destruct (N.eqb_spec r 7) as [->|N7]. { cbn [app]. rewrite (Hesc 97 rest 7 false); try reflexivity; left; lia. }
    destruct (N.eqb_spec r 8) as [->|N8]. { cbn [app]. rewrite (Hesc 98 rest 8 false); try reflexivity; left; lia. }
    destruct (N.eqb_spec r 12) as [->|N12]. { cbn [app]. rewrite (Hesc 102 rest 12 false); try reflexivity; left; lia. }
    destruct (N.eqb_spec r 10) as [->|N10]. { cbn [app]. rewrite (Hesc 110 rest 10 false); try reflexivity; left; lia. }
    destruct (N.eqb_spec r 13) as [->|N13]. { cbn [app]. rewrite (Hesc 114 rest 13 false); try reflexivity; left; lia. }
    destruct (N.eqb_spec r 9) as [->|N9]. { cbn [app]. rewrite (Hesc 116 rest 9 false); try reflexivity; left; lia. }
    destruct (N.eqb_spec r 11) as [->|N11]. { cbn [app]. rewrite (Hesc 118 rest 11 false); try reflexivity; left; lia. }
    destruct ((r <? 32) && f_exact f) eqn:Ex.
    { apply andb_prop in Ex. destruct Ex as [Hr32 Hex]. apply N.ltb_lt in Hr32.
      cbn [app].
      rewrite (Hesc 120 (hex2 r ++ rest) r false).
      - rewrite Hlow by lia. reflexivity.
      - apply ue_hex2; [|lia]. rewrite Hqc.
        destruct Hpub as [_ [[_ Hp]|[Hp _]]]; [congruence|]. rewrite Hp. discriminate.
      - left; lia. }
    replace (max_rune <? r) with false by (unfold max_rune; lia).
    destruct (N.ltb_spec r 0x10000).
    - cbn [app].
      rewrite (Hesc 117 (hex4 r ++ rest) r true); [reflexivity| |lia].
      apply ue_hex4. lia.
    - cbn [app].
      rewrite (Hesc 85 (hex8 r ++ rest) r true); [reflexivity| |lia].
      apply ue_hex8. unfold max_rune. lia.
  Qed.

End Steps.
