(* IndentTabs (cue/literal/indent.go) on the literals that Form.Quote writes:
   re-indenting the multi-line literal written with k > 0 tabs gives, byte for
   byte, the literal that Quote writes with n tabs; hence it unquotes to the
   same text. *)
From Verif Require Import Utf8.Model Utf8.Proofs Lit.Quote Lit.Unquote Lit.Basics Lit.Steps Lit.Loops
  Lit.HashCount Lit.RoundTrip Lit.Indent.
From Coq Require Import List NArith ZArith Lia ZifyN ZifyNat ZifyBool.
Import ListNotations.
Open Scope N_scope.

Lemma beq_str_spec : forall a b, beq_str a b = true <-> a = b.
Proof.
  induction a as [|x a IH]; intros [|y b]; cbn [beq_str]; split; intro H; try discriminate; try reflexivity.
  - apply andb_prop in H. destruct H as [H1 H2]. apply N.eqb_eq in H1. apply IH in H2. congruence.
  - inversion H; subst. rewrite N.eqb_refl. cbn [andb]. now apply IH.
Qed.

Lemma tabs_inj : forall a b, tabs a = tabs b -> a = b.
Proof. intros a b H. apply (f_equal (@length N)) in H. now rewrite !tabs_length in H. Qed.

(* ---- strings.ReplaceAll ---- *)
Section Repl.
  Variables (o : N) (os nw : str).
  Notation RA := (replace_all o os nw).

  Lemma replace_skip : forall p X, RA (length p) (p ++ X) = RA 0 X.
  Proof. induction p as [|a p IH]; intro X; [reflexivity|]. cbn [length app replace_all]. apply IH. Qed.

  Lemma replace_pass : forall p X, Forall (fun x => x <> o) p -> RA 0 (p ++ X) = p ++ RA 0 X.
  Proof.
    intros p X H. induction H as [|x p Hx Hp IH]; [reflexivity|].
    cbn [app replace_all]. destruct (N.eqb_spec x o); [contradiction|]. cbn [andb]. now rewrite IH.
  Qed.

  Lemma replace_pass_nil : forall p, Forall (fun x => x <> o) p -> RA 0 p = p.
  Proof. intros p H. rewrite <- (app_nil_r p) at 1. rewrite replace_pass by exact H. cbn. apply app_nil_r. Qed.

  Lemma replace_hit : forall X, RA 0 (o :: os ++ X) = nw ++ RA 0 X.
  Proof. intro X. cbn [replace_all]. rewrite N.eqb_refl, prefixb_app. cbn [andb]. now rewrite replace_skip. Qed.

  Lemma replace_miss : forall t, prefixb os t = false -> RA 0 (o :: t) = o :: RA 0 t.
  Proof. intros t H. cbn [replace_all]. rewrite H, andb_false_r. reflexivity. Qed.
End Repl.

Lemma hashes_no_nl : forall n, Forall (fun x => x <> ch_nl) (hashes n).
Proof.
  intro n. unfold hashes. apply Forall_forall. intros x Hx. apply repeat_spec in Hx. subst.
  unfold ch_hash, ch_nl. lia.
Qed.

Lemma set_indent_same : forall f, set_indent f (f_indent f) = f.
Proof. destruct f; reflexivity. Qed.

Lemma set_indent_twice : forall f n m, set_indent (set_indent f n) m = set_indent f m.
Proof. reflexivity. Qed.

Lemma public_set_indent : forall f n, public_form f -> public_form (set_indent f n).
Proof. intros f n H. exact H. Qed.

Section IndentQuote.
  Variable pr_tbl gr_tbl : N -> bool.

  Notation quote := (quote pr_tbl gr_tbl).
  Notation esc := (esc pr_tbl gr_tbl).
  Notation eff_hash := (eff_hash pr_tbl gr_tbl).

  (* the escaped text of a text that starts with a newline starts with a newline *)
  Lemma esc_nl_head : forall f hc t, exists X, esc f true hc (ch_nl :: t) = ch_nl :: X.
  Proof.
    intros f hc t. rewrite esc_cons. rewrite (decode_ascii ch_nl t) by (unfold ch_nl; lia).
    change (ch_nl =? rune_error) with false. rewrite andb_false_r.
    change (true && (ch_nl =? ch_nl)) with true. cbv iota. eexists. reflexivity.
  Qed.

  (* ReplaceAll over the escaped body: every line start "\n" + k tabs becomes
     "\n" + n tabs; empty lines and escape sequences are left alone *)
  Lemma esc_reind : forall f hc k n, public_form f -> f_indent f = S k ->
    forall m s R, (length s <= m)%nat ->
    replace_all ch_nl (tabs (S k)) (ch_nl :: tabs n) 0 (esc f true hc s ++ ch_nl :: R) =
    esc (set_indent f n) true hc s ++ replace_all ch_nl (tabs (S k)) (ch_nl :: tabs n) 0 (ch_nl :: R).
  Proof.
    intros f hc k n Hpub Hk. induction m as [|m IH]; intros s R Hl.
    { destruct s; [reflexivity|cbn in Hl; lia]. }
    destruct s as [|b t]; [reflexivity|].
    rewrite !esc_cons. pose proof (decode_width b t) as W.
    destruct (utf8_decode (b :: t)) as [r w]. cbn [length] in *.
    change (f_exact (set_indent f n)) with (f_exact f).
    destruct (f_exact f && Nat.eqb w 1 && (r =? rune_error)).
    { replace ((esc_intro hc ++ 120 :: hex2 b ++ esc f true hc t) ++ ch_nl :: R)
        with ((esc_intro hc ++ 120 :: hex2 b) ++ (esc f true hc t ++ ch_nl :: R))
        by (rewrite <- !app_assoc; cbn [app]; rewrite <- !app_assoc; reflexivity).
      rewrite replace_pass.
      - rewrite IH by lia. rewrite <- !app_assoc. cbn [app]. rewrite <- !app_assoc. reflexivity.
      - unfold esc_intro. cbn [app]. constructor; [unfold ch_bs, ch_nl; lia|].
        apply Forall_app. split; [apply hashes_no_nl|].
        constructor; [unfold ch_nl; lia|].
        eapply Forall_impl; [|apply hex2_no_ctl]. cbn. unfold ch_nl. lia. }
    cbn [andb].
    destruct (r =? ch_nl).
    - (* a newline of the text *)
      destruct t as [|c t'].
      + rewrite !esc_nil. cbn [app].
        rewrite replace_miss by reflexivity. reflexivity.
      + destruct (N.eqb_spec c ch_nl) as [Hc|Hc]; cbn [negb].
        * subst c. cbn [app].
          destruct (esc_nl_head f hc t') as [X HX].
          rewrite replace_miss by (rewrite HX; reflexivity).
          rewrite IH by lia. reflexivity.
        * rewrite Hk. change (f_indent (set_indent f n)) with n.
          replace ((ch_nl :: tabs (S k) ++ esc f true hc (c :: t')) ++ ch_nl :: R)
            with (ch_nl :: tabs (S k) ++ (esc f true hc (c :: t') ++ ch_nl :: R))
            by (cbn [app]; rewrite <- !app_assoc; reflexivity).
          rewrite replace_hit. rewrite IH by lia.
          cbn [app]. rewrite <- !app_assoc. reflexivity.
    - (* an ordinary rune *)
      change (escaped_rune pr_tbl gr_tbl (set_indent f n) true hc r) with (escaped_rune pr_tbl gr_tbl f true hc r).
      rewrite <- app_assoc. rewrite replace_pass.
      + rewrite IH by (rewrite skipn_length; cbn [length]; lia). now rewrite <- app_assoc.
      + eapply Forall_impl; [|apply (escaped_rune_no_crnl pr_tbl gr_tbl f true hc r Hpub)].
        cbn. tauto.
  Qed.

  (* ParseQuotes on a multi-line literal written by Quote: the whitespace prefix
     is the form's indentation *)
  Lemma pq_ws_quote_multi : forall f s, public_form f -> eff_multiline f s = true ->
    pq_ws (quote f s) = Some (tabs (f_indent f)).
  Proof.
    intros f s Hpub Hml. unfold pq_ws, Quote.quote.
    assert (Hhc : eff_hash f s = required_hash_count (f_quote f) s) by (unfold Quote.eff_hash; now rewrite Hml).
    rewrite Hml, Hhc.
    set (q := f_quote f). set (hc := required_hash_count q s). set (ind := f_indent f).
    pose proof (public_quote f Hpub) as Hq. fold q in Hq.
    set (cl := tabs ind ++ triple q ++ hashes hc).
    destruct s as [|c t].
    { assert (Hhc0 : hc = 0%nat) by reflexivity. rewrite Hhc0. cbn [hashes repeat app].
      pose proof (parse_quotes_multi q 0 ind [] (tabs ind ++ triple q ++ hashes 0) Hq eq_refl) as PQ.
      cbv zeta in PQ. cbn [hashes repeat app] in PQ. rewrite app_nil_r in PQ.
      change (triple q ++ [ch_nl] ++ tabs ind ++ triple q) with (triple q ++ ch_nl :: tabs ind ++ triple q).
      rewrite PQ.
      destruct (tabs ind ++ triple q) as [|c0 Z'] eqn:EZ.
      { destruct ind; discriminate. }
      assert (Hc0 : c0 <> ch_nl).
      { destruct ind; cbn in EZ; inversion EZ; unfold ch_tab, ch_nl, ch_dq, ch_sq in *; lia. }
      destruct (N.eqb_spec c0 ch_nl); [contradiction|]. cbn [negb].
      rewrite <- EZ. rewrite prefixb_app. reflexivity. }
    unfold append_escaped. cbn [negb andb]. fold (esc f true hc (c :: t)).
    set (body := esc f true hc (c :: t)).
    pose proof (esc_head pr_tbl gr_tbl f true hc c t Hpub) as Hhead. fold body in Hhead.
    destruct (N.eqb_spec c ch_nl) as [Hc|Hc]; cbn [negb].
    - replace (hashes hc ++ triple q ++ [ch_nl] ++ [] ++ body ++ [ch_nl] ++ cl)
        with (hashes hc ++ triple q ++ (ch_nl :: body) ++ ch_nl :: cl) by reflexivity.
      pose proof (parse_quotes_multi q hc ind (ch_nl :: body) (body ++ ch_nl :: cl) Hq eq_refl) as PQ.
      cbv zeta in PQ. fold cl in PQ. rewrite PQ.
      destruct body as [|x l] eqn:Ebody; [contradiction|].
      destruct Hhead as [_ [_ Hx]]. specialize (Hx eq_refl Hc). subst x. cbn [app].
      change (ch_nl =? ch_nl) with true. reflexivity.
    - replace (hashes hc ++ triple q ++ [ch_nl] ++ tabs ind ++ body ++ [ch_nl] ++ cl)
        with (hashes hc ++ triple q ++ (ch_nl :: tabs ind ++ body) ++ ch_nl :: cl)
        by (cbn [app]; rewrite <- !app_assoc; reflexivity).
      pose proof (parse_quotes_multi q hc ind (ch_nl :: tabs ind ++ body) (tabs ind ++ body ++ ch_nl :: cl) Hq) as PQ.
      cbv zeta in PQ. fold cl in PQ.
      specialize (PQ ltac:(cbn [app]; rewrite <- !app_assoc; reflexivity)).
      rewrite PQ.
      destruct (tabs ind ++ body ++ ch_nl :: cl) as [|c0 Z'] eqn:EZ.
      { destruct ind; [destruct body; [contradiction|discriminate]|discriminate]. }
      assert (Hc0 : c0 <> ch_nl).
      { destruct ind as [|ind'].
        - cbn [tabs repeat app] in EZ. destruct body as [|x l]; [contradiction|].
          destruct Hhead as [_ [Hx _]]. inversion EZ; subst. apply Hx. exact Hc.
        - cbn in EZ. inversion EZ. unfold ch_tab, ch_nl. lia. }
      destruct (N.eqb_spec c0 ch_nl); [contradiction|]. cbn [negb].
      rewrite <- EZ. rewrite prefixb_app. reflexivity.
  Qed.

  (* IndentTabs(f.Quote(s), n) == f.WithTabIndent(n).Quote(s), bytewise, for every
     text, whenever Quote wrote a multi-line literal with at least one tab *)
  Theorem indent_tabs_quote : forall f s n, public_form f -> eff_multiline f s = true ->
    (0 < f_indent f)%nat ->
    indent_tabs (quote f s) n = quote (set_indent f n) s.
  Proof.
    intros f s n Hpub Hml Hind. unfold indent_tabs. rewrite (pq_ws_quote_multi f s Hpub Hml).
    destruct (beq_str (tabs (f_indent f)) (tabs n)) eqn:Eb.
    { apply beq_str_spec in Eb. apply tabs_inj in Eb. subst n. now rewrite set_indent_same. }
    destruct (f_indent f) as [|k] eqn:Hk; [lia|].
    assert (Hml' : eff_multiline (set_indent f n) s = true) by exact Hml.
    assert (Hhc : eff_hash f s = required_hash_count (f_quote f) s) by (unfold Quote.eff_hash; now rewrite Hml).
    assert (Hhc' : eff_hash (set_indent f n) s = required_hash_count (f_quote f) s)
      by (unfold Quote.eff_hash; now rewrite Hml').
    unfold Quote.quote. rewrite Hml, Hml', Hhc, Hhc'.
    change (f_quote (set_indent f n)) with (f_quote f). change (f_indent (set_indent f n)) with n.
    rewrite Hk.
    set (q := f_quote f). set (hc := required_hash_count q s).
    pose proof (public_quote f Hpub) as Hq. fold q in Hq.
    set (RA := replace_all ch_nl (tabs (S k)) (ch_nl :: tabs n) 0).
    assert (Ht : Forall (fun x => x <> ch_nl) (triple q)).
    { repeat constructor; unfold ch_nl, ch_dq, ch_sq in *; lia. }
    assert (Hth : Forall (fun x => x <> ch_nl) (triple q ++ hashes hc)).
    { apply Forall_app. split; [exact Ht|apply hashes_no_nl]. }
    assert (Hcl : forall Y, RA (ch_nl :: tabs (S k) ++ Y) = ch_nl :: tabs n ++ RA Y).
    { intro Y. unfold RA. rewrite replace_hit. reflexivity. }
    rewrite (app_assoc (hashes hc) (triple q)).
    unfold RA at 1. rewrite replace_pass by (apply Forall_app; split; [apply hashes_no_nl|exact Ht]).
    fold RA. rewrite <- app_assoc. do 2 f_equal.
    destruct s as [|c t].
    { cbn [app]. rewrite Hcl. unfold RA. rewrite replace_pass_nil by exact Ht. reflexivity. }
    unfold append_escaped. cbn [negb andb].
    fold (Loops.esc pr_tbl gr_tbl f true hc (c :: t)).
    fold (Loops.esc pr_tbl gr_tbl (set_indent f n) true hc (c :: t)).
    assert (Hbody : RA (esc f true hc (c :: t) ++ [ch_nl] ++ tabs (S k) ++ triple q ++ hashes hc) =
                    esc (set_indent f n) true hc (c :: t) ++ [ch_nl] ++ tabs n ++ triple q ++ hashes hc).
    { cbn [app]. unfold RA.
      rewrite (esc_reind f hc k n Hpub Hk (length (c :: t)) (c :: t) _ (le_n _)).
      fold RA. rewrite Hcl. unfold RA. rewrite replace_pass_nil by exact Hth. reflexivity. }
    destruct (N.eqb_spec c ch_nl) as [Hc|Hc]; cbn [negb].
    - subst c. cbn [app]. destruct (esc_nl_head f hc t) as [X HX].
      unfold RA. rewrite replace_miss by (rewrite HX; reflexivity). fold RA.
      cbn [app] in Hbody. rewrite Hbody. reflexivity.
    - cbn [app]. rewrite Hcl. cbn [app] in Hbody. rewrite Hbody. reflexivity.
  Qed.

  (* ... and therefore unquotes to the same text as before *)
  Theorem unquote_indent_tabs_quote : forall wrap f s n, public_form f -> is_bytes s ->
    eff_multiline f s = true -> (0 < f_indent f)%nat ->
    unquote wrap (indent_tabs (quote f s) n) = Ok (expected f s).
  Proof.
    intros wrap f s n Hpub Hb Hml Hind. rewrite indent_tabs_quote by assumption.
    exact (unquote_quote_all wrap pr_tbl gr_tbl (set_indent f n) s (public_set_indent f n Hpub) Hb).
  Qed.

  (* re-indenting twice is re-indenting once (to the last indentation) *)
  Theorem indent_tabs_quote_compose : forall f s n m, public_form f -> eff_multiline f s = true ->
    (0 < f_indent f)%nat -> (0 < n)%nat ->
    indent_tabs (indent_tabs (quote f s) n) m = indent_tabs (quote f s) m.
  Proof.
    intros f s n m Hpub Hml Hind Hn.
    rewrite (indent_tabs_quote f s n Hpub Hml Hind).
    rewrite (indent_tabs_quote (set_indent f n) s m (public_set_indent f n Hpub) Hml Hn).
    rewrite (indent_tabs_quote f s m Hpub Hml Hind). reflexivity.
  Qed.
End IndentQuote.

(* ---- all inputs ---- *)

(* not a multi-line literal (ParseQuotes fails or is single line): returned as is *)
Theorem indent_tabs_not_multiline : forall s n, pq_ws s = None -> indent_tabs s n = s.
Proof. intros s n H. unfold indent_tabs. now rewrite H. Qed.

(* already indented with n tabs: returned as is *)
Theorem indent_tabs_same : forall s n, pq_ws s = Some (tabs n) -> indent_tabs s n = s.
Proof.
  intros s n H. unfold indent_tabs. rewrite H.
  replace (beq_str (tabs n) (tabs n)) with true by (symmetry; now apply beq_str_spec). reflexivity.
Qed.

(* the only partial operation: strings.Repeat with a negative count *)
Theorem indent_tabs_go_panics_iff : forall s n, indent_tabs_go s n = Panic <-> (n < 0)%Z.
Proof.
  intros s n. unfold indent_tabs_go. destruct (Z.ltb_spec n 0); split; intro H'; try reflexivity; try lia; try discriminate.
Qed.

Theorem indent_tabs_go_total : forall s n, (0 <= n)%Z -> indent_tabs_go s n = Ok (indent_tabs s (Z.to_nat n)).
Proof. intros s n H. unfold indent_tabs_go. destruct (Z.ltb_spec n 0); [lia|reflexivity]. Qed.

(* ---- non-vacuity, and the boundary of [indent_tabs_quote] ---- *)
Definition no_tbl : N -> bool := fun _ => false.

(* "a\n\n\tb" written with 1 tab, re-indented to 3 tabs: the empty line stays empty,
   the escaped tab stays *)
Example ex_indent_tabs_quote :
  let f := with_tab_indent string_form 1 in
  let s := [97; 10; 10; 9; 98] in
  quote no_tbl no_tbl f s = [34;34;34;10; 9;97;10; 10; 9;92;116;98;10; 9;34;34;34] /\
  indent_tabs (quote no_tbl no_tbl f s) 3 = [34;34;34;10; 9;9;9;97;10; 10; 9;9;9;92;116;98;10; 9;9;9;34;34;34] /\
  indent_tabs (quote no_tbl no_tbl f s) 3 = quote no_tbl no_tbl (set_indent f 3) s /\
  unquote_impl (indent_tabs (quote no_tbl no_tbl f s) 3) = Ok s.
Proof. vm_compute. repeat split; reflexivity. Qed.

(* with NO indentation (k = 0) the search string is a bare newline: ReplaceAll also
   indents the empty lines, which Quote never does -- the bytes differ from
   WithTabIndent(n).Quote(s), the value read back is still the text *)
Theorem indent_tabs_quote_indent0_refuted : exists f s n,
  public_form f /\ eff_multiline f s = true /\ f_indent f = 0%nat /\
  indent_tabs (quote no_tbl no_tbl f s) n <> quote no_tbl no_tbl (set_indent f n) s /\
  unquote_impl (indent_tabs (quote no_tbl no_tbl f s) n) = Ok s.
Proof.
  exists (with_tab_indent string_form 0), [97; 10; 10; 98], 1%nat.
  split; [split; [reflexivity|left; split; reflexivity]|].
  split; [reflexivity|]. split; [reflexivity|].
  split; [vm_compute; discriminate|vm_compute; reflexivity].
Qed.

(* a literal that is not multi-line, an invalid one, and a negative count *)
Example ex_indent_tabs_other :
  indent_tabs [34; 97; 34] 2 = [34; 97; 34] /\
  indent_tabs [34; 34; 34; 120] 2 = [34; 34; 34; 120] /\
  indent_tabs_go [34; 97; 34] (-1) = Panic /\
  (* two blanks of indentation, a line with three: one blank stays after the tab *)
  indent_tabs [34;34;34;10; 32;32;32;97;10; 32;32;34;34;34] 1 = [34;34;34;10; 9;32;97;10; 9;34;34;34].
Proof. vm_compute. repeat split; reflexivity. Qed.
