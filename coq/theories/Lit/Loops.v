(* The escape loop of Quote read back by the Unquote loop: the loop invariant
   shared by the single-line and the multi-line forms. *)
From Verif Require Import Utf8.Model Utf8.Proofs Lit.Quote Lit.Unquote Lit.Basics Lit.Steps.
From Coq Require Import ZArith Lia ZifyN ZifyNat ZifyBool Wf_nat.
Ltac Zify.zify_post_hook ::= Z.div_mod_to_equations.

(* what a form preserves of a byte sequence: bytes forms everything, string
   forms everything except that each byte at which UTF-8 decoding fails becomes U+FFFD *)
Definition expected (f : form) (s : str) : str := if f_exact f then s else sanitize s.

(* the closing delimiter does not occur in t *)
Definition no_delim (q : N) (hc : nat) (t : str) : Prop :=
  forall pre post, t <> pre ++ triple q ++ hashes hc ++ post.

Lemma no_delim_suffix : forall q hc x t, no_delim q hc (x ++ t) -> no_delim q hc t.
Proof. intros q hc x t H pre post E. apply (H (x ++ pre) post). rewrite E. now rewrite app_assoc. Qed.

Lemma is_bytes_skipn : forall n s, is_bytes s -> is_bytes (skipn n s).
Proof.
  intros n s H. unfold is_bytes in *. apply Forall_forall. intros x Hx.
  eapply Forall_forall; [exact H|]. rewrite <- (firstn_skipn n s). apply in_or_app. now right.
Qed.

Lemma is_bytes_tail : forall b t, is_bytes (b :: t) -> is_byte b /\ is_bytes t.
Proof. intros b t H. inversion H; subst. now split. Qed.

Section Loops.
  Variable wrap : bool.
  Variable pr_tbl gr_tbl : N -> bool.

  Notation unq_loop := (unq_loop wrap).
  Notation escaped_rune := (escaped_rune pr_tbl gr_tbl).
  Notation esc_loop := (esc_loop pr_tbl gr_tbl).

  Definition esc (f : form) (ml : bool) (hc : nat) (s : str) : str :=
    esc_loop f ml hc (length s) s.

  Lemma esc_loop_fuel2 : forall f ml hc fuel1 fuel2 s,
    (length s <= fuel1)%nat -> (length s <= fuel2)%nat ->
    esc_loop f ml hc fuel1 s = esc_loop f ml hc fuel2 s.
  Proof.
    intros f ml hc. induction fuel1 as [|k1 IH]; intros fuel2 s H1 H2.
    - destruct s; [|cbn in H1; lia]. destruct fuel2; reflexivity.
    - destruct s as [|b t]; [destruct fuel2; reflexivity|].
      destruct fuel2 as [|k2]; [cbn in H2; lia|].
      cbn [Quote.esc_loop].
      pose proof (decode_width b t) as W.
      destruct (utf8_decode (b :: t)) as [r w].
      cbn [length] in *.
      assert (L : (length (skipn w (b :: t)) <= length t)%nat) by (rewrite skipn_length; cbn [length]; lia).
      rewrite (IH k2 t) by lia.
      rewrite (IH k2 (skipn w (b :: t))) by lia.
      reflexivity.
  Qed.

  Lemma esc_loop_fuel : forall f ml hc fuel s, (length s <= fuel)%nat ->
    esc_loop f ml hc fuel s = esc f ml hc s.
  Proof. intros. unfold esc. apply esc_loop_fuel2; lia. Qed.

  Lemma esc_nil : forall f ml hc, esc f ml hc [] = [].
  Proof. reflexivity. Qed.

  (* one unfolding of appendEscaped's loop *)
  Lemma esc_cons : forall f ml hc b t,
    esc f ml hc (b :: t) =
    let '(r, w) := utf8_decode (b :: t) in
    if f_exact f && Nat.eqb w 1 && (r =? rune_error) then
      esc_intro hc ++ 120 :: hex2 b ++ esc f ml hc t
    else if ml && (r =? ch_nl) then
      ch_nl ::
      (match t with
       | c :: _ => if negb (c =? ch_nl) then tabs (f_indent f) else []
       | [] => []
       end) ++ esc f ml hc t
    else escaped_rune f ml hc r ++ esc f ml hc (skipn w (b :: t)).
  Proof.
    intros. unfold esc at 1. cbn [length Quote.esc_loop].
    pose proof (decode_width b t) as W.
    destruct (utf8_decode (b :: t)) as [r w]. cbn [length] in W.
    rewrite (esc_loop_fuel f ml hc (length t) t) by lia.
    rewrite (esc_loop_fuel f ml hc (length t) (skipn w (b :: t)))
      by (rewrite skipn_length; cbn [length]; lia).
    reflexivity.
  Qed.

  (* what is expected back, chunk by chunk *)
  Lemma expected_invalid : forall f b t,
    utf8_decode (b :: t) = (rune_error, 1%nat) ->
    expected f (b :: t) = (if f_exact f then [b] else utf8_encode rune_error) ++ expected f t.
  Proof.
    intros f b t D. unfold expected. destruct (f_exact f); [reflexivity|].
    now rewrite (sanitize_invalid_byte _ _ D).
  Qed.

  Lemma expected_valid : forall f b t r w,
    utf8_decode (b :: t) = (r, w) -> ~ (r = rune_error /\ w = 1%nat) ->
    expected f (b :: t) = firstn w (b :: t) ++ expected f (skipn w (b :: t)).
  Proof.
    intros f b t r w D NE. unfold expected. destruct (f_exact f).
    - now rewrite firstn_skipn.
    - now rewrite (sanitize_valid_prefix _ _ _ _ D NE).
  Qed.

  Lemma scalar_rune_error : scalar rune_error.
  Proof. unfold scalar, rune_error, max_rune. lia. Qed.

  (* ---- first byte of an escaped chunk (multi-line mode): never a quote or a
     hash unless the rune itself is one ---- *)
  Lemma escaped_rune_head : forall f ml hc r, scalar r ->
    (exists tl, escaped_rune f ml hc r = ch_bs :: tl) \/
    (r < 0x80 /\ 0x20 <= r /\ escaped_rune f ml hc r = [r] /\ r <> ch_bs /\ (ml = false -> r <> f_quote f)) \/
    (0x80 <= r /\ exists b tl, escaped_rune f ml hc r = b :: tl /\ 0xC2 <= b).
  Proof.
    intros f ml hc r Hsc. unfold Quote.escaped_rune.
    destruct ((negb ml && (r =? f_quote f)) || (r =? ch_bs)) eqn:E1; [left; eexists; reflexivity|].
    destruct (form_is_print pr_tbl gr_tbl f r) eqn:Epr; [|left; eexists; reflexivity].
    right. destruct (N.ltb_spec r 0x80) as [Hlt|Hge].
    - left. pose proof (print_ascii _ _ _ _ Epr Hlt). rewrite encode_ascii by assumption.
      apply orb_false_elim in E1. destruct E1 as [E1 E2]. apply N.eqb_neq in E2.
      repeat split; try lia; try assumption.
      intros ->. cbn in E1. now apply N.eqb_neq in E1.
    - right. split; [assumption|]. destruct (encode_high r Hge) as [_ [b [tl [E Hb]]]]. eauto.
  Qed.

  (* no raw line terminator is ever emitted by appendEscapedRune *)
  Lemma escaped_rune_no_crnl : forall f ml hc r, public_form f ->
    Forall (fun x => x <> ch_nl /\ x <> ch_cr) (escaped_rune f ml hc r).
  Proof.
    intros f ml hc r Hpub. unfold Quote.escaped_rune.
    pose proof (public_quote f Hpub) as Hq.
    assert (Hh : forall n, Forall (fun x => x <> ch_nl /\ x <> ch_cr) (esc_intro n)).
    { intro n. unfold esc_intro. constructor; [unfold ch_bs, ch_nl, ch_cr; lia|].
      unfold hashes. apply Forall_forall. intros x Hx. apply repeat_spec in Hx. subst.
      unfold ch_hash, ch_nl, ch_cr; lia. }
    assert (Hd : forall l, Forall (fun x => 48 <= x) l -> Forall (fun x => x <> ch_nl /\ x <> ch_cr) l).
    { intros l H. eapply Forall_impl; [|exact H]. cbn. unfold ch_nl, ch_cr. lia. }
    assert (H1 : forall c, 48 <= c -> Forall (fun x => x <> ch_nl /\ x <> ch_cr) [c]).
    { intros c Hc. constructor; [unfold ch_nl, ch_cr; lia|constructor]. }
    destruct ((negb ml && (r =? f_quote f)) || (r =? ch_bs)) eqn:E1.
    { apply Forall_app. split; [apply Hh|]. constructor; [|constructor].
      assert (r = f_quote f \/ r = ch_bs) by lia.
      unfold ch_bs, ch_nl, ch_cr, ch_dq, ch_sq in *. lia. }
    destruct (form_is_print pr_tbl gr_tbl f r) eqn:Epr.
    { destruct (N.ltb_spec r 0x80) as [Hlt|Hge].
      - pose proof (print_ascii _ _ _ _ Epr Hlt). rewrite encode_ascii by assumption.
        constructor; [unfold ch_nl, ch_cr; lia|constructor].
      - destruct (encode_high r Hge) as [Hall _]. eapply Forall_impl; [|exact Hall].
        cbn. unfold ch_nl, ch_cr. lia. }
    apply Forall_app. split; [apply Hh|].
    repeat match goal with |- context [if ?c then _ else _] => destruct c end;
      try (apply H1; lia);
      try (constructor; [unfold ch_nl, ch_cr; lia|]; apply Hd;
           first [apply hex2_no_ctl|apply hex4_no_ctl|apply hex8_no_ctl]).
  Qed.

  Section Fixed.
    Variable f : form.
    Variable ml : bool.
    Variable hc : nat.
    Hypothesis Hpub : public_form f.

    Let q := f_quote f.
    Let Q := qi_for f ml hc.
    Let closing : str := ch_nl :: tabs (f_indent f) ++ triple q ++ hashes hc.

    Lemma q_cases : q = ch_dq \/ q = ch_sq.
    Proof. apply public_quote. exact Hpub. Qed.

    (* multi-line: a pattern of quotes and hashes that prefixes the escaped
       text prefixes the source text *)
    Lemma proj_prefix : forall pat t rest, ml = true ->
      Forall (fun c => c = q \/ c = ch_hash) pat -> is_bytes t ->
      prefixb pat (esc f ml hc t ++ ch_nl :: rest) = true -> prefixb pat t = true.
    Proof.
      intros pat t rest Hml. subst ml. revert t.
      induction pat as [|c pat IH]; intros t Hpat Hb Hp; [reflexivity|].
      inversion Hpat as [|? ? Hc Hpat']; subst.
      assert (Hc10 : c <> ch_nl /\ c <> ch_bs /\ c < 0xC2 /\ c <> 0).
      { pose proof q_cases. unfold ch_nl, ch_bs, ch_hash, ch_dq, ch_sq in *. lia. }
      destruct t as [|b t].
      { rewrite esc_nil in Hp. cbn in Hp. lia. }
      destruct (is_bytes_tail _ _ Hb) as [Hb1 Hb2].
      rewrite esc_cons in Hp.
      pose proof (decode_spec b t) as DS.
      destruct (utf8_decode (b :: t)) as [r w] eqn:D.
      destruct (f_exact f && Nat.eqb w 1 && (r =? rune_error)).
      { unfold esc_intro in Hp. cbn in Hp. lia. }
      cbn [andb] in Hp.
      destruct (N.eqb_spec r ch_nl).
      { cbn in Hp. lia. }
      assert (Hsc : scalar r).
      { destruct DS as [[-> _]|[Hs _]]; [apply scalar_rune_error|exact Hs]. }
      destruct (escaped_rune_head f true hc r Hsc) as [[tl E]|[[Hlt [Hlo [E _]]]|[Hge [b' [tl [E Hb']]]]]].
      - rewrite E in Hp. cbn in Hp. lia.
      - rewrite E in Hp. cbn [app prefixb] in Hp.
        apply andb_prop in Hp. destruct Hp as [Hp1 Hp2]. apply N.eqb_eq in Hp1. subst c.
        (* an ASCII rune is its own single byte *)
        destruct DS as [[-> _]|[_ [_ [_ [_ [Hiff Heq]]]]]]; [unfold rune_error in Hlt; lia|].
        specialize (Heq Hlt). subst b.
        rewrite (decode_ascii r t Hlt) in D. inversion D; subst w.
        cbn [skipn] in Hp2. cbn [prefixb]. rewrite N.eqb_refl. cbn [andb].
        apply IH; assumption.
      - rewrite E in Hp. cbn in Hp. lia.
    Qed.

    Lemma skip_ws_nl : forall y, ml = true ->
      skip_ws_after_newline (ch_nl :: y) Q = Ok (ch_nl :: y).
    Proof.
      intros y Hml. unfold skip_ws_after_newline, Q, qi_for. subst ml. cbn [q_multi q_ws negb].
      destruct (f_indent f) as [|n]; [reflexivity|]. reflexivity.
    Qed.

    Lemma skip_ws_tabs : forall y, ml = true ->
      skip_ws_after_newline (tabs (f_indent f) ++ y) Q = Ok y.
    Proof.
      intros y Hml. unfold skip_ws_after_newline, Q, qi_for. subst ml. cbn [q_multi q_ws negb].
      rewrite prefixb_app. rewrite tabs_length, skipn_tabs. reflexivity.
    Qed.

    (* ---- THE LOOP INVARIANT ---- *)
    Lemma loop_rt : forall n t rest, (length t <= n)%nat -> is_bytes t ->
      (ml = true -> rest = closing /\ no_delim q hc t) ->
      forall fuel rbuf st we, (length (esc f ml hc t ++ rest) < fuel)%nat ->
      exists fuel' st' we', (length rest < fuel')%nat /\
        unq_loop fuel Q (esc f ml hc t ++ rest) rbuf st we =
        unq_loop fuel' Q rest (rev (expected f t) ++ rbuf) st' we' /\
        (ml = false -> st = false -> we = false -> st' = false /\ we' = false).
    Proof.
      induction n as [|n IH]; intros t rest Hn Hb Hml fuel rbuf st we Hfuel.
      { destruct t; [|cbn in Hn; lia]. rewrite esc_nil in *. cbn [app] in *.
        exists fuel, st, we. unfold expected. destruct (f_exact f); cbn; auto. }
      destruct t as [|b t].
      { rewrite esc_nil in *. cbn [app] in *.
        exists fuel, st, we. unfold expected. destruct (f_exact f); cbn; auto. }
      destruct (is_bytes_tail _ _ Hb) as [Hb1 Hb2]. unfold is_byte in Hb1.
      cbn [length] in Hn.
      pose proof (decode_spec b t) as DS.
      pose proof (decode_width b t) as W.
      rewrite esc_cons in *.
      destruct (utf8_decode (b :: t)) as [r w] eqn:D.
      assert (Hrestlen : ml = true -> (3 + hc < length rest)%nat).
      { intro H. destruct (Hml H) as [-> _]. unfold closing. cbn [length].
        rewrite !app_length, hashes_length. cbn [length triple]. lia. }
      assert (Hnd : forall x y, b :: t = x ++ y -> ml = true -> rest = closing /\ no_delim q hc y).
      { intros x y E H. destruct (Hml H) as [H1 H2]. split; [assumption|].
        rewrite E in H2. eapply no_delim_suffix; eassumption. }
      destruct (f_exact f && Nat.eqb w 1 && (r =? rune_error)) eqn:Ebad.
      { (* invalid byte, bytes form: \xHH *)
        apply andb_prop in Ebad. destruct Ebad as [Ebad Hr]. apply andb_prop in Ebad.
        destruct Ebad as [Hex Hw]. apply Nat.eqb_eq in Hw. apply N.eqb_eq in Hr. subst w r.
        destruct fuel as [|k]; [lia|].
        rewrite <- !app_assoc in *. cbn [app] in *. rewrite <- !app_assoc in *.
        unfold Q. rewrite (step_bad_byte wrap f ml hc b _ k rbuf st we Hpub Hex Hb1).
        fold Q.
        assert (Hk : (length (esc f ml hc t ++ rest) < k)%nat).
        { unfold esc_intro in Hfuel. cbn [length app] in Hfuel. rewrite !app_length in Hfuel.
          cbn [length] in Hfuel. rewrite !app_length in Hfuel. rewrite app_length. clear - Hfuel. lia. }
        destruct (IH t rest ltac:(lia) Hb2 (Hnd [b] t eq_refl) k (b :: rbuf) false false Hk)
          as [fuel' [st' [we' [H1 [H2 H3]]]]].
        exists fuel', st', we'. split; [assumption|]. split.
        - rewrite H2. rewrite (expected_invalid f b t D). rewrite Hex. cbn [app rev].
          now rewrite <- app_assoc.
        - intros. apply H3; auto. }
      destruct (ml && (r =? ch_nl)) eqn:Enl.
      { (* multi-line: a newline followed by the indentation of the next line *)
        apply andb_prop in Enl. destruct Enl as [Hmlt Hr]. apply N.eqb_eq in Hr. subst r.
        destruct DS as [[Hre _]|[_ [Hfirst [Hlen [_ [Hiff Heq]]]]]]; [discriminate|].
        assert (Hb10 : b = ch_nl) by (symmetry; apply Heq; unfold ch_nl; lia). subst b.
        rewrite (decode_ascii ch_nl t ltac:(unfold ch_nl; lia)) in D. inversion D; subst w.
        destruct (Hml Hmlt) as [Hrest Hno].
        destruct fuel as [|k]; [lia|].
        assert (Hexp : expected f (ch_nl :: t) = ch_nl :: expected f t).
        { rewrite (expected_valid f ch_nl t ch_nl 1%nat); [reflexivity|apply decode_ascii; unfold ch_nl; lia|].
          intros [H _]. discriminate. }
        (* what follows the newline: the next line (indented), or a newline *)
        assert (Hstep : unq_loop (S k) Q
                   (ch_nl :: (match t with
                              | c :: _ => if negb (c =? ch_nl) then tabs (f_indent f) else []
                              | [] => [] end) ++ esc f ml hc t ++ rest) rbuf st we =
                 unq_loop k Q (esc f ml hc t ++ rest) (ch_nl :: rbuf) true false).
        { cbn [Unquote.unq_loop]. change (ch_nl =? ch_cr) with false. change (ch_nl =? ch_nl) with true.
          cbv iota.
          assert (Hnl_next : forall y, esc f ml hc t ++ rest = ch_nl :: y ->
            unq_loop (S k) Q (ch_nl :: esc f ml hc t ++ rest) rbuf st we =
            unq_loop k Q (esc f ml hc t ++ rest) (ch_nl :: rbuf) true false).
          { intros y Ey. cbn [Unquote.unq_loop]. change (ch_nl =? ch_cr) with false.
            change (ch_nl =? ch_nl) with true. cbv iota.
            rewrite Ey. rewrite (skip_ws_nl y Hmlt).
            unfold has_closing_delim_prefix, Q, qi_for. subst ml. cbn [q_multi q_char q_numchar q_numhash andb].
            cbn [repeat app prefixb].
            replace (f_quote f =? ch_nl) with false
              by (pose proof q_cases; unfold q, ch_nl, ch_dq, ch_sq in *; lia).
            reflexivity. }
          destruct t as [|c t'].
          - (* end of the text: the closing line follows *)
            rewrite esc_nil. cbn [app]. rewrite esc_nil in Hnl_next. cbn [app] in Hnl_next.
            specialize (Hnl_next (tabs (f_indent f) ++ triple q ++ hashes hc)).
            cbn [Unquote.unq_loop] in Hnl_next. change (ch_nl =? ch_cr) with false in Hnl_next.
            change (ch_nl =? ch_nl) with true in Hnl_next. cbv iota in Hnl_next.
            apply Hnl_next. rewrite Hrest. reflexivity.
          - destruct (N.eqb_spec c ch_nl) as [->|Hc].
            + (* an empty line *)
              cbn [negb app].
              assert (E : exists y, esc f ml hc (ch_nl :: t') ++ rest = ch_nl :: y).
              { rewrite esc_cons. rewrite (decode_ascii ch_nl t') by (unfold ch_nl; lia).
                replace (f_exact f && Nat.eqb 1 1 && (ch_nl =? rune_error)) with false
                  by (rewrite andb_false_r; reflexivity).
                rewrite Hmlt. change (true && (ch_nl =? ch_nl)) with true. cbv iota.
                eexists. reflexivity. }
              destruct E as [y Ey]. specialize (Hnl_next y Ey).
              cbn [Unquote.unq_loop] in Hnl_next. change (ch_nl =? ch_cr) with false in Hnl_next.
              change (ch_nl =? ch_nl) with true in Hnl_next. cbv iota in Hnl_next.
              exact Hnl_next.
            + (* the next line starts with its indentation *)
              cbn [negb]. rewrite (skip_ws_tabs _ Hmlt).
              assert (Hnc : prefixb (triple q ++ hashes hc) (esc f ml hc (c :: t') ++ rest) = false).
              { destruct (prefixb (triple q ++ hashes hc) (esc f ml hc (c :: t') ++ rest)) eqn:Ep; [|reflexivity].
                exfalso. rewrite Hrest in Ep. unfold closing in Ep.
                apply (proj_prefix _ (c :: t')) in Ep; auto.
                - apply prefixb_spec in Ep. destruct Ep as [post Ep].
                  apply (no_delim_suffix q hc [ch_nl]) in Hno.
                  apply (Hno [] post). cbn [app]. rewrite Ep. now rewrite <- app_assoc.
                - apply Forall_app. split; [repeat constructor; auto|].
                  unfold hashes. apply Forall_forall. intros x Hx. apply repeat_spec in Hx. auto. }
              unfold has_closing_delim_prefix. unfold Q at 2 3 4 5, qi_for. rewrite Hmlt in Hnc |- *.
              cbn [q_multi q_char q_numchar q_numhash andb].
              change (repeat (f_quote f) 3) with (triple q). rewrite Hnc.
              rewrite andb_false_r. reflexivity. }
        rewrite app_comm_cons in Hfuel. cbn [app] in *. rewrite <- !app_assoc in *.
        rewrite Hstep.
        assert (Hk : (length (esc f ml hc t ++ rest) < k)%nat).
        { cbn [length] in Hfuel. rewrite !app_length in Hfuel. rewrite app_length. lia. }
        destruct (IH t rest ltac:(lia) Hb2 (Hnd [ch_nl] t eq_refl) k (ch_nl :: rbuf) true false Hk)
          as [fuel' [st' [we' [H1 [H2 H3]]]]].
        exists fuel', st', we'. split; [assumption|]. split.
        - rewrite H2, Hexp. cbn [rev]. now rewrite <- app_assoc.
        - intros Hf. rewrite Hf in Hmlt. discriminate. }
      (* an escaped or raw rune *)
      assert (Hsc : scalar r).
      { destruct DS as [[-> _]|[Hs _]]; [apply scalar_rune_error|exact Hs]. }
      destruct fuel as [|k]; [lia|].
      rewrite <- app_assoc in *.
      assert (Hstep := step_rune wrap pr_tbl gr_tbl f ml hc r
                         (esc f ml hc (skipn w (b :: t)) ++ rest) k rbuf st we Hpub Hsc).
      fold Q in Hstep. rewrite Hstep.
      2:{ intro H. specialize (Hrestlen H). rewrite app_length. lia. }
      assert (Hl : (length (skipn w (b :: t)) <= n)%nat) by (rewrite skipn_length; cbn [length] in *; lia).
      assert (Hne : escaped_rune f ml hc r <> []).
      { destruct (escaped_rune_head f ml hc r Hsc) as [[tl E]|[[_ [_ [E _]]]|[_ [b' [tl [E _]]]]]]; rewrite E; discriminate. }
      assert (Hk : (length (esc f ml hc (skipn w (b :: t)) ++ rest) < k)%nat).
      { rewrite app_length in Hfuel. destruct (escaped_rune f ml hc r); [contradiction|]. cbn [length] in Hfuel. lia. }
      assert (Hsplit : b :: t = firstn w (b :: t) ++ skipn w (b :: t)) by (symmetry; apply firstn_skipn).
      destruct (IH (skipn w (b :: t)) rest Hl (is_bytes_skipn w _ Hb) (Hnd _ _ Hsplit)
                  k (rev (utf8_encode r) ++ rbuf) false false Hk)
        as [fuel' [st' [we' [H1 [H2 H3]]]]].
      exists fuel', st', we'. split; [assumption|]. split; [|intros; apply H3; auto].
      rewrite H2. f_equal.
      destruct DS as [[Hr Hw]|[_ [Hfirst [Hlen _]]]].
      - (* invalid byte in a string form: U+FFFD *)
        subst r w. rewrite (expected_invalid f b t D).
        assert (Hex : f_exact f = false).
        { destruct (f_exact f); [|reflexivity]. cbn in Ebad. discriminate. }
        rewrite Hex. cbn [skipn]. rewrite rev_app_distr. now rewrite <- app_assoc.
      - rewrite (expected_valid f b t r w D).
        + rewrite Hfirst. rewrite rev_app_distr. now rewrite <- app_assoc.
        + intros [-> ->]. vm_compute in Hlen. discriminate.
    Qed.
  End Fixed.
End Loops.
