(* Byte-level transcription of /repo/cue/literal/quote.go:
     Form, Form.Append/Quote, appendEscaped, appendEscapedRune, appendEscape,
     isPrint, singleLineHashCount, requiredHashCount.
   Strings are byte lists.  strconv.IsPrint / IsGraphic: the Latin-1 fast path
   of strconv.IsPrint (r <= 0xFF) is transcribed; for r > 0xFF the verdicts are
   Section variables WITHOUT hypotheses (Go's Unicode tables; the harness supplies
   the verdicts of the runes of each case). *)
From Verif Require Export Utf8.Model.

Definition ch_dq : N := 34.   (* double quote *)
Definition ch_sq : N := 39.   (* '\'' *)
Definition ch_hash : N := 35. (* '#'  *)
Definition ch_bs : N := 92.   (* '\\' *)
Definition ch_nl : N := 10.
Definition ch_cr : N := 13.
Definition ch_tab : N := 9.

(* literal.Form; [f_indent] is the number of tabs (WithTabIndent /
   WithOptionalTabIndent only build tab repetitions); tripleQuote is
   three times [f_quote]. *)
Record form := mkForm {
  f_hash : nat;        (* hashCount: 0 in every Form the exported API can build *)
  f_quote : N;
  f_multiline : bool;
  f_auto : bool;
  f_autohash : bool;
  f_exact : bool;
  f_ascii : bool;
  f_graphic : bool;
  f_indent : nat }.

Definition string_form : form := mkForm 0 ch_dq false false false false false false 0.
Definition bytes_form : form := mkForm 0 ch_sq false false false true false false 0.

Definition with_tab_indent (f : form) (n : nat) : form :=
  mkForm (f_hash f) (f_quote f) true (f_auto f) (f_autohash f) (f_exact f) (f_ascii f) (f_graphic f) n.
Definition with_optional_tab_indent (f : form) (n : nat) : form :=
  mkForm (f_hash f) (f_quote f) (f_multiline f) true (f_autohash f) (f_exact f) (f_ascii f) (f_graphic f) n.
Definition with_optional_hashes (f : form) : form :=
  mkForm (f_hash f) (f_quote f) (f_multiline f) (f_auto f) true (f_exact f) (f_ascii f) (f_graphic f) (f_indent f).
Definition with_ascii_only (f : form) : form :=
  mkForm (f_hash f) (f_quote f) (f_multiline f) (f_auto f) (f_autohash f) (f_exact f) true (f_graphic f) (f_indent f).
Definition with_graphic_only (f : form) : form :=
  mkForm (f_hash f) (f_quote f) (f_multiline f) (f_auto f) (f_autohash f) (f_exact f) (f_ascii f) true (f_indent f).

(* the Forms reachable through the exported API: String/Label/Bytes and any
   sequence of With* calls *)
Definition public_form (f : form) : Prop :=
  f_hash f = 0%nat /\
  ((f_quote f = ch_dq /\ f_exact f = false) \/ (f_quote f = ch_sq /\ f_exact f = true)).

Definition hashes (n : nat) : str := repeat ch_hash n.
Definition tabs (n : nat) : str := repeat ch_tab n.
Definition triple (q : N) : str := [q; q; q].

(* lowerhex[n] *)
Definition lowerhex (n : N) : N := if n <? 10 then 48 + n else 87 + n.

Definition hex2 (b : N) : str := [lowerhex (b / 16); lowerhex (b mod 16)].
Definition hex4 (r : N) : str :=
  [lowerhex ((r / 4096) mod 16); lowerhex ((r / 256) mod 16); lowerhex ((r / 16) mod 16); lowerhex (r mod 16)].
(* for s := 28; s >= 0; s -= 4 { lowerhex[r>>s & 0xF] }: the high four digits are
   the four digits of r >> 16, the low four those of r & 0xFFFF *)
Definition hex8 (r : N) : str := hex4 (r / 65536) ++ hex4 (r mod 65536).

(* strconv.IsPrint, Latin-1 fast path *)
Definition latin1_print (r : N) : bool :=
  ((0x20 <=? r) && (r <=? 0x7E)) || ((0xA1 <=? r) && (r <=? 0xFF) && negb (r =? 0xAD)).

(* number of leading bytes equal to c *)
Fixpoint count_prefix (c : N) (s : str) : nat :=
  match s with
  | x :: t => if x =? c then S (count_prefix c t) else 0%nat
  | [] => 0%nat
  end.

Fixpoint drop_prefix (c : N) (s : str) : str :=
  match s with
  | x :: t => if x =? c then drop_prefix c t else s
  | [] => []
  end.

(* strings.Index(t, qqq): the suffix after the first occurrence *)
Fixpoint after_triple (q : N) (t : str) : option str :=
  match t with
  | a :: t' =>
    match t' with
    | b :: c :: r => if (a =? q) && (b =? q) && (c =? q) then Some r else after_triple q t'
    | _ => None
    end
  | [] => None
  end.

(* requiredHashCount: loop over the occurrences of the triple quote; [t] is s[i:] *)
Fixpoint rhc_loop (fuel : nat) (q : N) (t : str) (hc : nat) : nat :=
  match fuel with
  | O => hc
  | S k =>
    match after_triple q t with
    | None => hc
    | Some t1 =>
      let t2 := drop_prefix q t1 in          (* absorb all extra quotes *)
      let n := count_prefix ch_hash t2 in    (* count succeeding # characters *)
      let t3 := skipn n t2 in
      rhc_loop k q t3 (Nat.max hc (S n))     (* nhash := i - e *)
    end
  end.
Definition required_hash_count (q : N) (s : str) : nat := rhc_loop (length s) q s 0.

Section Quote.
  (* strconv.IsPrint(r), strconv.IsGraphic(r) for r > 0xFF *)
  Variable pr_tbl : N -> bool.
  Variable gr_tbl : N -> bool.

  Definition go_is_print (r : N) : bool := if r <=? 0xFF then latin1_print r else pr_tbl r.
  (* IsGraphic = IsPrint || isInGraphicList; the only listed rune <= 0xFF is U+00A0 *)
  Definition go_is_graphic (r : N) : bool :=
    go_is_print r || (if r <=? 0xFF then r =? 0xA0 else gr_tbl r).

  (* Form.isPrint *)
  Definition form_is_print (f : form) (r : N) : bool :=
    if f_ascii f then (r <? rune_self) && go_is_print r
    else go_is_print r || (f_graphic f && go_is_graphic r).

  (* Form.appendEscape *)
  Definition esc_intro (hc : nat) : str := ch_bs :: hashes hc.

  (* Form.appendEscapedRune; [ml] is the effective f.multiline, [hc] the effective hashCount *)
  Definition escaped_rune (f : form) (ml : bool) (hc : nat) (r : N) : str :=
    if (negb ml && (r =? f_quote f)) || (r =? ch_bs) then esc_intro hc ++ [r]
    else if form_is_print f r then utf8_encode r
    else esc_intro hc ++
      (if r =? 7 then [97]          (* \a *)
       else if r =? 8 then [98]     (* \b *)
       else if r =? 12 then [102]   (* \f *)
       else if r =? 10 then [110]   (* \n *)
       else if r =? 13 then [114]   (* \r *)
       else if r =? 9 then [116]    (* \t *)
       else if r =? 11 then [118]   (* \v *)
       else if (r <? 32) && f_exact f then 120 :: hex2 r
       else if max_rune <? r then 117 :: hex4 rune_error
       else if r <? 0x10000 then 117 :: hex4 r
       else 85 :: hex8 r).

  (* Form.appendEscaped, the rune loop.  fuel = len(s); each iteration consumes
     width >= 1 bytes. *)
  Fixpoint esc_loop (f : form) (ml : bool) (hc : nat) (fuel : nat) (s : str) : str :=
    match fuel with
    | O => []
    | S k =>
      match s with
      | [] => []
      | b :: t =>
        let '(r, w) := utf8_decode s in   (* r := rune(s[0]) when s[0] < RuneSelf *)
        if f_exact f && Nat.eqb w 1 && (r =? rune_error) then
          esc_intro hc ++ 120 :: hex2 b ++ esc_loop f ml hc k t
        else if ml && (r =? ch_nl) then
          ch_nl ::
          (match t with
           | c :: _ => if negb (c =? ch_nl) then tabs (f_indent f) else []
           | [] => []
           end) ++ esc_loop f ml hc k t
        else escaped_rune f ml hc r ++ esc_loop f ml hc k (skipn w s)
      end
    end.

  Definition append_escaped (f : form) (ml : bool) (hc : nat) (s : str) : str :=
    if negb ml && negb (Nat.eqb hc 0) then s   (* the hash count guarantees that no escaping is needed *)
    else esc_loop f ml hc (length s) s.

  (* singleLineHashCount: the text starts with two quote characters (after the
     opening quote they would read as the opening of a multiline string) *)
  Definition lead_qq (q : N) (s : str) : bool :=
    match s with
    | a :: b :: _ => (a =? q) && (b =? q)
    | _ => false
    end.

  (* singleLineHashCount: None models the early `return 0` *)
  Fixpoint slhc_loop (f : form) (fuel : nat) (t : str) (hc : nat) : option nat :=
    match fuel with
    | O => Some hc
    | S k =>
      match t with
      | [] => Some hc
      | b :: _ =>
        let '(r, w) := utf8_decode t in
        if (0x80 <=? b) && Nat.eqb w 1 then None          (* invalid UTF-8 *)
        else if negb (form_is_print f r) then None
        else
          let t' := skipn w t in
          if (r =? f_quote f) || (r =? ch_bs)
          then slhc_loop f k t' (Nat.max hc (S (count_prefix ch_hash t')))
          else slhc_loop f k t' hc
      end
    end.

  Definition single_line_hash_count (f : form) (s : str) : nat :=
    if negb (existsb (fun c => (c =? ch_bs) || (c =? f_quote f)) s) then 0%nat
    else if lead_qq (f_quote f) s then 0%nat
    else match slhc_loop f (length s) s 1 with Some n => n | None => 0%nat end.

  Definition eff_multiline (f : form) (s : str) : bool :=
    f_multiline f || (f_auto f && existsb (fun c => c =? ch_nl) s).

  Definition eff_hash (f : form) (s : str) : nat :=
    if eff_multiline f s then required_hash_count (f_quote f) s
    else if f_autohash f then single_line_hash_count f s
    else f_hash f.

  (* Form.Append(nil, s) = Form.Quote(s) *)
  Definition quote (f : form) (s : str) : str :=
    let ml := eff_multiline f s in
    let hc := eff_hash f s in
    let q := f_quote f in
    let ind := tabs (f_indent f) in
    hashes hc ++
    (if ml then
       triple q ++ [ch_nl] ++
       match s with
       | [] => ind ++ triple q                                (* early return *)
       | c :: _ =>
         (if negb (c =? ch_nl) then ind else []) ++
         append_escaped f ml hc s ++ [ch_nl] ++ ind ++ triple q ++ hashes hc
       end
     else [q] ++ append_escaped f ml hc s ++ [q] ++ hashes hc).
End Quote.
