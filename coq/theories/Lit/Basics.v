(* Basic facts shared by the literal round-trip proofs: byte-list prefixes,
   hash runs, hex digits, printable runes. *)
From Verif Require Import Utf8.Model Utf8.Proofs Lit.Quote Lit.Unquote.
From Coq Require Import ZArith Lia ZifyN ZifyNat ZifyBool.
Ltac Zify.zify_post_hook ::= Z.div_mod_to_equations.

(* ------------------------------------------------------------ prefixb ---- *)

Lemma prefixb_app : forall p r, prefixb p (p ++ r) = true.
Proof. induction p; intro r; cbn; [reflexivity|]. now rewrite N.eqb_refl, IHp. Qed.

Lemma prefixb_spec : forall p s, prefixb p s = true <-> exists r, s = p ++ r.
Proof.
  induction p as [|a p IH]; intro s; cbn.
  - split; [intros _; now exists s|reflexivity].
  - destruct s as [|b s].
    + split; [discriminate|intros [r H]; discriminate].
    + split.
      * intro H. apply andb_prop in H. destruct H as [H1 H2]. apply N.eqb_eq in H1. subst b.
        apply IH in H2. destruct H2 as [r ->]. now exists r.
      * intros [r H]. inversion H; subst. rewrite N.eqb_refl. cbn. apply IH. now exists r.
Qed.

Lemma prefixb_false_head : forall a p b s, a <> b -> prefixb (a :: p) (b :: s) = false.
Proof. intros. cbn. destruct (N.eqb_spec a b); [contradiction|reflexivity]. Qed.

Lemma prefixb_nil_r : forall p, prefixb p [] = match p with [] => true | _ => false end.
Proof. destruct p; reflexivity. Qed.

(* -------------------------------------------------------- repeat / runs ---- *)

Lemma skipn_app_exact : forall (a b : str), skipn (length a) (a ++ b) = b.
Proof. induction a; intros; cbn; [reflexivity|apply IHa]. Qed.

Lemma firstn_app_exact : forall (a b : str), firstn (length a) (a ++ b) = a.
Proof. induction a; intros; cbn; [reflexivity|now rewrite IHa]. Qed.

Lemma hashes_length : forall n, length (hashes n) = n.
Proof. intro n. unfold hashes. apply repeat_length. Qed.

Lemma tabs_length : forall n, length (tabs n) = n.
Proof. intro n. unfold tabs. apply repeat_length. Qed.

Lemma skipn_hashes : forall n r, skipn n (hashes n ++ r) = r.
Proof. intros. rewrite <- (hashes_length n) at 1. apply skipn_app_exact. Qed.

Lemma skipn_tabs : forall n r, skipn n (tabs n ++ r) = r.
Proof. intros. rewrite <- (tabs_length n) at 1. apply skipn_app_exact. Qed.

Lemma rev_repeat : forall (c : N) n, rev (repeat c n) = repeat c n.
Proof.
  induction n; cbn; [reflexivity|]. rewrite IHn.
  clear IHn. induction n; cbn; [reflexivity|]. now rewrite IHn.
Qed.

Lemma repeat_snoc : forall (c : N) n, repeat c n ++ [c] = c :: repeat c n.
Proof. induction n; cbn; [reflexivity|]. now rewrite IHn. Qed.

Lemma count_prefix_hashes : forall n r,
  match r with x :: _ => x <> ch_hash | [] => True end ->
  count_prefix ch_hash (hashes n ++ r) = n.
Proof.
  induction n; intros r H; cbn.
  - destruct r as [|x r]; [reflexivity|]. cbn. destruct (N.eqb_spec x ch_hash); [contradiction|reflexivity].
  - now rewrite IHn.
Qed.

Lemma count_prefix_app_stop : forall c a x b, x <> c ->
  count_prefix c (a ++ x :: b) = count_prefix c a.
Proof.
  induction a as [|y a IH]; intros x b H; cbn.
  - destruct (N.eqb_spec x c); [contradiction|reflexivity].
  - destruct (N.eqb_spec y c); [now rewrite IH|reflexivity].
Qed.

Lemma count_prefix_split : forall c s,
  s = repeat c (count_prefix c s) ++ skipn (count_prefix c s) s /\
  match skipn (count_prefix c s) s with x :: _ => x <> c | [] => True end.
Proof.
  induction s as [|x s [IH1 IH2]]; cbn; [split; [reflexivity|exact I]|].
  destruct (N.eqb_spec x c).
  - subst x. cbn. split; [now rewrite <- IH1|exact IH2].
  - cbn. split; [reflexivity|assumption].
Qed.

Lemma prefixb_hashes_short : forall n t, (count_prefix ch_hash t < n)%nat ->
  prefixb (hashes n) t = false.
Proof.
  induction n; intros t H; [lia|]. destruct t as [|x t]; [reflexivity|].
  change (hashes (S n)) with (ch_hash :: hashes n).
  cbn [count_prefix] in H. cbn [prefixb].
  destruct (N.eqb_spec x ch_hash) as [->|Hne].
  - rewrite N.eqb_refl. cbn [andb]. apply IHn. lia.
  - destruct (N.eqb_spec ch_hash x); [congruence|reflexivity].
Qed.

Lemma drop_prefix_split : forall c s,
  s = repeat c (count_prefix c s) ++ drop_prefix c s /\
  match drop_prefix c s with x :: _ => x <> c | [] => True end.
Proof.
  induction s as [|x s [IH1 IH2]]; cbn; [split; [reflexivity|exact I]|].
  destruct (N.eqb_spec x c).
  - subst x. cbn. split; [now rewrite <- IH1|exact IH2].
  - cbn. split; [reflexivity|assumption].
Qed.

(* ------------------------------------------------------------ hex digits ---- *)

Lemma unhex_lowerhex : forall n, n < 16 -> unhex (lowerhex n) = Some n.
Proof.
  intros n H. unfold lowerhex, unhex, in_range.
  destruct (N.ltb_spec n 10).
  - replace ((48 <=? 48 + n) && (48 + n <=? 57)) with true by lia. f_equal. lia.
  - replace ((48 <=? 87 + n) && (87 + n <=? 57)) with false by lia.
    replace ((97 <=? 87 + n) && (87 + n <=? 102)) with true by lia. f_equal. lia.
Qed.

Lemma lowerhex_range : forall n, (48 <= lowerhex n /\ lowerhex n <= 57) \/ 97 <= lowerhex n.
Proof. intro n. unfold lowerhex. destruct (N.ltb_spec n 10); lia. Qed.

Lemma hex_value_digit : forall d t acc, d < 16 ->
  hex_value (lowerhex d :: t) acc = hex_value t (acc * 16 + d).
Proof. intros. cbn [hex_value]. now rewrite unhex_lowerhex. Qed.

Lemma hex_value_hex2 : forall b, b < 256 -> hex_value (hex2 b) 0 = Some b.
Proof.
  intros b H. unfold hex2. rewrite !hex_value_digit by lia. cbn [hex_value]. f_equal. lia.
Qed.

Lemma hex_value_hex4_gen : forall r t acc, r < 65536 ->
  hex_value (hex4 r ++ t) acc = hex_value t (acc * 65536 + r).
Proof.
  intros r t acc H. unfold hex4. cbn [app]. rewrite !hex_value_digit by lia. f_equal. lia.
Qed.

Lemma hex_value_hex4 : forall r, r < 65536 -> hex_value (hex4 r) 0 = Some r.
Proof.
  intros r H. rewrite <- (app_nil_r (hex4 r)). rewrite hex_value_hex4_gen by assumption. reflexivity.
Qed.

Lemma hex_value_hex8 : forall r, r < 4294967296 -> hex_value (hex8 r) 0 = Some r.
Proof.
  intros r H. unfold hex8. rewrite hex_value_hex4_gen by lia.
  rewrite <- (app_nil_r (hex4 (r mod 65536))). rewrite hex_value_hex4_gen by lia.
  cbn [hex_value]. f_equal. lia.
Qed.

Lemma hex2_length : forall b, length (hex2 b) = 2%nat. Proof. reflexivity. Qed.
Lemma hex4_length : forall b, length (hex4 b) = 4%nat. Proof. reflexivity. Qed.
Lemma hex8_length : forall b, length (hex8 b) = 8%nat. Proof. reflexivity. Qed.

Lemma hex4_no_ctl : forall r, Forall (fun x => 48 <= x) (hex4 r).
Proof. intro r. unfold hex4. repeat constructor; pose proof (lowerhex_range ((r / 4096) mod 16));
  pose proof (lowerhex_range ((r / 256) mod 16)); pose proof (lowerhex_range ((r / 16) mod 16));
  pose proof (lowerhex_range (r mod 16)); lia. Qed.

Lemma hex2_no_ctl : forall r, Forall (fun x => 48 <= x) (hex2 r).
Proof. intro r. unfold hex2. repeat constructor;
  pose proof (lowerhex_range (r / 16)); pose proof (lowerhex_range (r mod 16)); lia. Qed.

Lemma hex8_no_ctl : forall r, Forall (fun x => 48 <= x) (hex8 r).
Proof. intro r. unfold hex8. apply Forall_app. split; apply hex4_no_ctl. Qed.

(* ------------------------------------------------------ printable runes ---- *)

Section Print.
  Variable pr_tbl gr_tbl : N -> bool.

  Lemma print_ascii : forall f r, form_is_print pr_tbl gr_tbl f r = true -> r < 0x80 ->
    0x20 <= r /\ r <= 0x7E.
  Proof.
    intros f r H Hr. unfold form_is_print, go_is_graphic, go_is_print, latin1_print, rune_self in H.
    replace (r <=? 0xFF) with true in H by lia.
    destruct (f_ascii f), (f_graphic f); cbn [andb] in H; lia.
  Qed.

  Lemma ascii_print : forall f r, 0x20 <= r -> r <= 0x7E -> form_is_print pr_tbl gr_tbl f r = true.
  Proof.
    intros f r H1 H2. unfold form_is_print, go_is_graphic, go_is_print, latin1_print, rune_self.
    replace (r <=? 0xFF) with true by lia.
    destruct (f_ascii f), (f_graphic f); cbn [andb]; lia.
  Qed.
End Print.
