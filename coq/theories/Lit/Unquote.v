(* Byte-level transcription of /repo/cue/literal/string.go:
     ParseQuotes, Unquote, QuoteInfo.Unquote, hasClosingDelimPrefix,
     skipWhitespaceAfterNewline, isSimple, unquoteChar, unhex.
   Go's partial operations that are not guarded by a length test right next to
   them are explicit: [Panic] is returned where the Go code would index an empty
   string (the second unquoteChar call of the surrogate-pair path), slice an
   empty buffer (buf[:len(buf)-1]) or reach panic(unreachable).  All other
   indexing in string.go sits directly under a length guard and is modelled by
   total list pattern matching.
   Runes returned by unquoteChar are [Z]: the special values are negative.  The
   hex digits of \x \u \U escapes are accumulated in a uint32 (eight digits fit)
   and compared with utf8.MaxRune before the conversion to rune: [to_rune] with
   [wrap] = false, the mathematical value.  [wrap] = true is the accumulator of
   the code before fix unquote-U (an int32 rune that wraps at 2^31, so that
   values >= 2^31 were taken for the negative sentinels); it is kept only as a
   regression layer: the round-trip theorems are independent of it and the check
   uses it to name that regression. *)
From Verif Require Export Utf8.Model Lit.Quote.
From Coq Require Export ZArith.

Inductive err :=
| ESyntax | EMissingOpeningNewline | EMissingClosingNewline | EUnmatchedQuote
| ESurrogate | EInvalidUTF8 | EEscapedLastNewline | EInvalidWhitespace.

Inductive outcome (A : Type) :=
| Ok (a : A) | Err (e : err) | Panic | OutOfFuel.
Arguments Ok {A} a. Arguments Err {A} e. Arguments Panic {A}. Arguments OutOfFuel {A}.

(* literal.QuoteInfo (q.quote is only used through its length) *)
Record qinfo := mkQ {
  q_numhash : nat;
  q_multi : bool;
  q_char : N;
  q_numchar : nat;     (* 1 or 3 *)
  q_ws : str }.

Definition delim_len (q : qinfo) : nat := (q_numchar q + q_numhash q)%nat.

Fixpoint prefixb (p s : str) : bool :=
  match p, s with
  | [], _ => true
  | a :: p', b :: s' => (a =? b) && prefixb p' s'
  | _ :: _, [] => false
  end.

(* unicode.IsSpace *)
Definition is_space (r : N) : bool :=
  if r <=? 0xFF then in_range 9 13 r || (r =? 0x20) || (r =? 0x85) || (r =? 0xA0)
  else (r =? 0x1680) || in_range 0x2000 0x200a r || (r =? 0x2028) || (r =? 0x2029)
       || (r =? 0x202f) || (r =? 0x205f) || (r =? 0x3000).

(* ParseQuotes, the backwards scan for the closing line's whitespace.
   [rs] = rev (end[:i]); returns (hasNewline, i). *)
Fixpoint ws_scan (fuel : nat) (rs : str) : bool * nat :=
  match fuel with
  | O => (false, length rs)
  | S k =>
    match rs with
    | [] => (false, 0%nat)
    | _ =>
      let '(r, size) := utf8_decode_last_rev rs in
      if (r =? ch_nl) || negb (is_space r) then (r =? ch_nl, length rs)
      else ws_scan k (skipn size rs)
    end
  end.

(* strings.TrimLeft(actual, blank+tab) is only used for the error text *)

(* ParseQuotes, the test for a multi-line opening.  [s1] is what follows the
   first quote character c0.  Ok (Some qlen): multi-line with len(q.quote) = qlen;
   Ok None: single line *)
Definition pq_kind (c0 : N) (nh : nat) (s1 : str) : outcome (option nat) :=
  match s1 with
  | c1 :: c2 :: c3 :: s4 =>
    if (c1 =? c0) && (c2 =? c0) && negb (c3 =? ch_hash) then
      if c3 =? ch_nl then Ok (Some (3 + nh)%nat)
      else if c3 =? ch_cr then
        match s4 with
        | c4 :: _ => if c4 =? ch_nl then Ok (Some (4 + nh)%nat) else Err EMissingOpeningNewline
        | [] => Err EMissingOpeningNewline
        end
      else Err EMissingOpeningNewline
    else Ok None
  | _ => Ok None
  end.

(* ParseQuotes after the opening has been classified: matching closing quote,
   closing-line whitespace, first-line whitespace *)
Definition pq_finish (start end_ : str) (nh : nat) (c0 : N) (m : option nat)
  : outcome (qinfo * nat * nat) :=
  let numchar := match m with Some _ => 3%nat | None => 1%nat end in
  let nstart0 := match m with Some ql => S ql | None => (1 + nh)%nat end in
  let ln := (numchar + nh)%nat in
  let qt := firstn ln start in
  (* for i := 0; i < len(quote); i++ { j := len(end)-i-1; j < 0 || quote[i] != end[j] } *)
  if negb (Nat.leb ln (length end_) && prefixb qt (rev end_)) then Err EUnmatchedQuote
  else
    match m with
    | None => Ok (mkQ nh false c0 1 [], nstart0, ln)
    | Some _ =>
      let body_rev := skipn ln (rev end_) in      (* rev (end[:len(end)-len(quote)]) *)
      let '(has_nl, i) := ws_scan (S (length body_rev)) body_rev in
      if negb has_nl then Err EMissingClosingNewline
      else
        let ws := firstn (length end_ - ln - i) (skipn i end_) in
        let q := mkQ nh true c0 3 ws in
        match skipn nstart0 start with
        | (c :: _) as rest =>
          if negb (c =? ch_nl) then
            if negb (prefixb ws rest) then Err EInvalidWhitespace
            else Ok (q, (nstart0 + length ws)%nat, ln)
          else Ok (q, nstart0, ln)
        | [] => Ok (q, nstart0, ln)
        end
    end.

(* ParseQuotes(start, end) : (q, nStart, nEnd) *)
Definition parse_quotes (start end_ : str) : outcome (qinfo * nat * nat) :=
  let nh := count_prefix ch_hash start in
  match skipn nh start with
  | [] => Err ESyntax
  | c0 :: s1 =>
    if (c0 =? ch_dq) || (c0 =? ch_sq) then
      match pq_kind c0 nh s1 with
      | Err e => Err e
      | Panic => Panic
      | OutOfFuel => OutOfFuel
      | Ok m => pq_finish start end_ nh c0 m
      end
    else Err ESyntax
  end.

(* hasClosingDelimPrefix *)
Definition has_closing_delim_prefix (s : str) (q : qinfo) : bool :=
  prefixb (repeat (q_char q) (q_numchar q) ++ hashes (q_numhash q)) s.

(* skipWhitespaceAfterNewline *)
Definition skip_ws_after_newline (s : str) (q : qinfo) : outcome str :=
  if negb (q_multi q) then Err EInvalidWhitespace
  else if prefixb (q_ws q) s then Ok (skipn (length (q_ws q)) s)
  else if prefixb [ch_nl] s then Ok s
  else if prefixb [ch_cr; ch_nl] s then Ok s
  else Err EInvalidWhitespace.

Definition sur_high : Z := 0xD800.
Definition sur_low : Z := 0xDC00.
Definition sur_end : Z := 0xE000.

(* isSimple: ranges over the runes of s *)
Fixpoint is_simple (fuel : nat) (s : str) (quote : N) : bool :=
  match fuel with
  | O => true
  | S k =>
    match s with
    | [] => true
    | _ =>
      let '(r, w) := utf8_decode s in
      if (r =? quote) || (r =? ch_bs) || (r =? 0) || (r =? rune_error) then false
      else if (0xD800 <=? r) && (r <? 0xE000) then false
      else is_simple k (skipn w s) quote
    end
  end.

Definition terminated_by_quote : Z := -1.
Definition terminated_by_expr : Z := -2.
Definition escaped_newline : Z := -3.

(* unhex *)
Definition unhex (b : N) : option N :=
  if in_range 48 57 b then Some (b - 48)
  else if in_range 97 102 b then Some (b - 97 + 10)
  else if in_range 65 70 b then Some (b - 65 + 10)
  else None.

Fixpoint hex_value (ds : str) (acc : N) : option N :=
  match ds with
  | [] => Some acc
  | d :: t => match unhex d with Some x => hex_value t (acc * 16 + x) | None => None end
  end.

Section Unquote.
  (* false: the mathematical value (uint32 accumulator: the implementation and
     the specification); true: an int32 accumulator that wraps (regression layer) *)
  Variable wrap : bool.

  Definition to_rune (v : N) : Z :=
    if wrap && (0x80000000 <=? v) then Z.of_N v - 0x100000000 else Z.of_N v.

  (* unquoteChar, the switch on the character [e] after the escape introducer;
     [s2] is what follows it *)
  Definition unquote_escape (q : qinfo) (e : N) (s2 : str) : outcome (Z * bool * str) :=
    let simple (v : N) := Ok (Z.of_N v, false, s2) in
    if e =? 97 then simple 7
    else if e =? 98 then simple 8
    else if e =? 102 then simple 12
    else if e =? 110 then simple 10
    else if e =? 114 then simple 13
    else if e =? 116 then simple 9
    else if e =? 118 then simple 11
    else if e =? 47 then simple 47
    else if (e =? 120) || (e =? 117) || (e =? 85) then
      let n := if e =? 120 then 2%nat else if e =? 117 then 4%nat else 8%nat in
      if Nat.ltb (length s2) n then Err ESyntax
      else match hex_value (firstn n s2) 0 with
           | None => Err ESyntax
           | Some v =>
             let s3 := skipn n s2 in
             if e =? 120 then
               if q_char q =? ch_dq then Err ESyntax
               else Ok (Z.of_N v, false, s3)
             else
               let vr := to_rune v in
               if (Z.of_N max_rune <? vr)%Z then Err ESyntax
               else Ok (vr, true, s3)
           end
    else if in_range 48 55 e then
      if q_char q =? ch_dq then Err ESyntax
      else match s2 with
           | d1 :: d2 :: s3 =>
             if in_range 48 55 d1 && in_range 48 55 d2 then
               let v := ((e - 48) * 8 + (d1 - 48)) * 8 + (d2 - 48) in
               if 255 <? v then Err ESyntax else Ok (Z.of_N v, false, s3)
             else Err ESyntax
           | _ => Err ESyntax
           end
    else if e =? ch_bs then simple ch_bs
    else if (e =? ch_sq) || (e =? ch_dq) then
      if negb (e =? q_char q) then Err ESyntax else simple e
    else if e =? 40 then
      match s2 with [] => Ok (terminated_by_expr, false, []) | _ => Err ESyntax end
    else if e =? ch_cr then
      match s2 with
      | c2 :: s3 => if c2 =? ch_nl then Ok (escaped_newline, false, s3) else Err ESyntax
      | [] => Err ESyntax
      end
    else if e =? ch_nl then Ok (escaped_newline, false, s2)
    else Err ESyntax.

  (* unquoteChar: Ok (value, multibyte, tail); Panic when s is empty (s[0]) *)
  Definition unquote_char (s : str) (q : qinfo) : outcome (Z * bool * str) :=
    match s with
    | [] => Panic
    | c :: t =>
      if (c =? q_char q) && negb (q_char q =? 0) then
        let lit := Ok (Z.of_N (q_char q), false, t) in
        (* for i := 1; byte(i) < numChar; i++ { i >= len(s) || s[i] != char } *)
        if negb (prefixb (repeat (q_char q) (q_numchar q - 1)) t) then lit
        (* for i := 0; i < numHash; i++ { i+numChar >= len(s) || s[i+numChar] != '#' } *)
        else if negb (prefixb (hashes (q_numhash q)) (skipn (q_numchar q - 1) t)) then lit
        else if negb (Nat.eqb (length s) (delim_len q)) then
          if Nat.eqb (q_numchar q) 3 then lit else Err ESyntax
        else Ok (terminated_by_quote, false, [])
      else if rune_self <=? c then
        let '(r, size) := utf8_decode s in
        if (r =? rune_error) && Nat.eqb size 1 then Err EInvalidUTF8
        else Ok (Z.of_N r, true, skipn size s)
      else if negb (c =? ch_bs) then
        if c =? 0 then Err ESyntax else Ok (Z.of_N c, false, t)
      else
        (* len(s) <= 1+numHash, or the backslash is not followed by numHash hashes *)
        match skipn (q_numhash q) t with
        | [] => Ok (Z.of_N ch_bs, false, t)
        | e :: s2 =>
          if negb (prefixb (hashes (q_numhash q)) t) then Ok (Z.of_N ch_bs, false, t)
          else unquote_escape q e s2
        end
    end.

  (* c, multibyte, ss, err := unquoteChar(s, q) followed by the surrogate-pair
     logic; the surrogate test comes before the error test (value is 0 whenever
     err != nil).  The second unquoteChar call indexes ss[0]: Panic when ss is empty *)
  Definition unq_first (s : str) (q : qinfo) : outcome (Z * bool * str) :=
    match unquote_char s q with
    | Err e => Err e
    | Panic => Panic
    | OutOfFuel => OutOfFuel
    | Ok (c1, mb, ss) =>
      if (sur_high <=? c1)%Z && (c1 <? sur_end)%Z then
        if (sur_low <=? c1)%Z then Err ESurrogate
        else match unquote_char ss q with
             | Panic => Panic
             | OutOfFuel => OutOfFuel
             | Err _ => Err ESurrogate      (* cl = 0 < surLow *)
             | Ok (cl, _, ss2) =>
               if (cl <? sur_low)%Z || (sur_end <=? cl)%Z then Err ESurrogate
               else Ok ((0x10000 + (c1 - sur_high) * 0x400 + (cl - sur_low))%Z, mb, ss2)
             end
      else Ok (c1, mb, ss)
    end.

  (* the main loop of QuoteInfo.Unquote; [rbuf] is buf reversed *)
  Fixpoint unq_loop (fuel : nat) (q : qinfo) (s : str) (rbuf : str) (stripNL wasEsc : bool)
    : outcome str :=
    match fuel with
    | O => OutOfFuel
    | S k =>
      match s with
      | [] => Err EUnmatchedQuote
      | c :: t =>
        if c =? ch_cr then unq_loop k q t rbuf stripNL false
        else if c =? ch_nl then
          match skip_ws_after_newline t q with
          | Err e => Err e
          | Panic => Panic
          | OutOfFuel => OutOfFuel
          | Ok s1 =>
            if q_multi q && has_closing_delim_prefix s1 q && Nat.ltb (delim_len q) (length s1)
            then Err ESyntax
            else unq_loop k q s1 (ch_nl :: rbuf) true false
          end
        else
          match unq_first s q with
          | Err e => Err e
          | Panic => Panic
          | OutOfFuel => OutOfFuel
          | Ok (c1, mb, ss) =>
            if (c1 <? 0)%Z then
              if (c1 =? escaped_newline)%Z then
                match skip_ws_after_newline ss q with
                | Err e => Err e
                | Panic => Panic
                | OutOfFuel => OutOfFuel
                | Ok s1 => unq_loop k q s1 rbuf stripNL true
                end
              else if (c1 =? terminated_by_quote)%Z then
                if wasEsc then Err EEscapedLastNewline
                else if stripNL then
                  match rbuf with
                  | [] => Panic                      (* buf[:len(buf)-1] *)
                  | _ :: rb => Ok (rev rb)
                  end
                else Ok (rev rbuf)
              else if (c1 =? terminated_by_expr)%Z then Ok (rev rbuf)
              else Panic                              (* panic(unreachable) *)
            else
              let cn := Z.to_N c1 in
              if negb mb then unq_loop k q ss ((cn mod 256) :: rbuf) false false
              else unq_loop k q ss (rev (utf8_encode cn) ++ rbuf) false false
          end
      end
    end.

  (* QuoteInfo.Unquote *)
  Definition qi_unquote (q : qinfo) (s : str) : outcome str :=
    let fast : option str :=
      match s with
      | [] => None
      | _ =>
        if q_multi q then None
        else if (last s 256 =? q_char q) && Nat.eqb (q_numhash q) 0 then
          let s' := removelast s in
          if is_simple (length s') s' (q_char q) then Some s' else None
        else None
      end in
    if negb (q_multi q) && negb (match s with [] => true | _ => false end)
       && existsb (fun c => c =? ch_nl) s then Err ESyntax
    else match fast with
    | Some r => Ok r
    | None =>
      if q_multi q && has_closing_delim_prefix s q && Nat.ltb (delim_len q) (length s) then Err ESyntax
      else unq_loop (S (length s)) q s [] false false
    end.

  (* literal.Unquote *)
  Definition unquote (s : str) : outcome str :=
    match parse_quotes s s with
    | Err e => Err e
    | Panic => Panic
    | OutOfFuel => OutOfFuel
    | Ok (q, nstart, _) => qi_unquote q (skipn nstart s)
    end.
End Unquote.

Definition unquote_impl := unquote false.
Definition unquote_spec := unquote false.
(* the behaviour before fix unquote-U: \U digits accumulated in an int32 *)
Definition unquote_int32 := unquote true.
