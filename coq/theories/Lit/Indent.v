(* Byte-level transcription of /repo/cue/literal/indent.go: IndentTabs, with
   the two library functions it is made of:
     strings.Repeat("\t", n)     -- panics for n < 0 ([indent_tabs_go]: Panic)
     strings.ReplaceAll(s, old, new) for a NON-EMPTY old (here old = "\n" +
       whitespace): leftmost, non-overlapping occurrences, left to right
       ([replace_all]: [skip] counts the bytes of a match still to be dropped,
       so that the recursion is structural).
   ParseQuotes is the model of Lit/Unquote.v. *)
From Verif Require Export Utf8.Model Lit.Quote Lit.Unquote.
From Coq Require Import List NArith ZArith.
Import ListNotations.
Open Scope N_scope.

(* a == b on strings *)
Fixpoint beq_str (a b : str) : bool :=
  match a, b with
  | [], [] => true
  | x :: a', y :: b' => (x =? y) && beq_str a' b'
  | _, _ => false
  end.

(* strings.ReplaceAll(s, o :: os, nw) *)
Fixpoint replace_all (o : N) (os nw : str) (skip : nat) (s : str) : str :=
  match s with
  | [] => []
  | c :: t =>
    match skip with
    | S k => replace_all o os nw k t
    | O =>
      if (c =? o) && prefixb os t then nw ++ replace_all o os nw (length os) t
      else c :: replace_all o os nw 0 t
    end
  end.

(* qi, _, _, err := ParseQuotes(s, s); err != nil || !qi.multiline -> None *)
Definition pq_ws (s : str) : option str :=
  match parse_quotes s s with
  | Ok (q, _, _) => if q_multi q then Some (q_ws q) else None
  | _ => None
  end.

(* IndentTabs(s, n) for n >= 0 *)
Definition indent_tabs (s : str) (n : nat) : str :=
  match pq_ws s with
  | None => s
  | Some ws =>
    if beq_str ws (tabs n) then s
    else replace_all ch_nl ws (ch_nl :: tabs n) 0 s
  end.

(* IndentTabs(s, n) for any Go int: strings.Repeat panics on a negative count
   (before ParseQuotes is called) *)
Definition indent_tabs_go (s : str) (n : Z) : outcome str :=
  if (n <? 0)%Z then Panic else Ok (indent_tabs s (Z.to_nat n)).

(* Form with another indentation: f.indent = strings.Repeat("\t", n) *)
Definition set_indent (f : form) (n : nat) : form :=
  mkForm (f_hash f) (f_quote f) (f_multiline f) (f_auto f) (f_autohash f) (f_exact f) (f_ascii f) (f_graphic f) n.
