(* C20: non-vacuity.  Concrete packages on which the hypotheses of the theorems of
   Trim/Proofs.v hold (and fail) and on which the reference trimmer removes something. *)
From Verif Require Import Core.Syntax Core.Eval Trim.Model Trim.Proofs.
From Coq Require Import List Bool ZArith NArith Permutation.
Import ListNotations.

Definition la := LReg 0.
Definition lb := LReg 1.
Definition reg (l : label) : label * fkind := (l, FRegular).
Definition int1 := EScalar (SAtom (AInt 1)).
Definition tint := EScalar (SKind KInt).

(* #D: {a: int, b?: string}      x: #D      x: a: 1      x: a: int      x: a: >0 *)
Definition defD : expr :=
  ERefDef (EStruct [(HField la FRegular, tint); (HField lb FOptional, EScalar (SKind KStr))]).

Definition P0 : pkg :=
  [ mkDecl 0 [] defD;
    mkDecl 0 [reg la] int1;
    mkDecl 1 [reg la] tint;
    mkDecl 1 [reg la] (EScalar (SGt 0));
    mkDecl 1 [] (EStruct []) ].

(* the schema-implied repetitions are absorbed ... *)
Example ex_absorbed_kind : absorbed (mkDecl 1 [reg la] tint) [mkDecl 0 [] defD; mkDecl 0 [reg la] int1] = true.
Proof. reflexivity. Qed.

Example ex_absorbed_bound : absorbed (mkDecl 1 [reg la] (EScalar (SGt 0))) [mkDecl 0 [reg la] int1] = true.
Proof. reflexivity. Qed.

(* ... the data is not absorbed by the schema, a new field is not absorbed, a reference never is *)
Example ex_not_absorbed_data : absorbed (mkDecl 0 [reg la] int1) [mkDecl 0 [] defD] = false.
Proof. reflexivity. Qed.

Example ex_not_absorbed_field : absorbed (mkDecl 0 [reg lb] ETop) [mkDecl 0 [] defD; mkDecl 0 [reg la] int1] = false.
Proof. reflexivity. Qed.

Example ex_not_absorbed_ref : absorbed (mkDecl 0 [] defD) [mkDecl 0 [] defD] = false.
Proof. reflexivity. Qed.

(* the reference trimmer removes the three implied declarations and keeps schema and data *)
Example ex_trim_model : trim_model P0 = [mkDecl 0 [] defD; mkDecl 0 [reg la] int1].
Proof. reflexivity. Qed.

Example ex_accepts : accepts_mask [false; false; true; true; true] P0 = true.
Proof. reflexivity. Qed.

(* removing the data instead is rejected - and indeed changes the value *)
Example ex_rejects : accepts_mask [false; true; false; false; false] P0 = false.
Proof. reflexivity. Qed.

Example ex_rejected_changes :
  final_value [la; lb] [AInt 1; AInt 2] 5 (keepm [false; true; false; false; false] P0) <>
  final_value [la; lb] [AInt 1; AInt 2] 5 P0.
Proof. vm_compute. discriminate. Qed.

(* the hypothesis of remove_implied_preserves is met by a non-trivial removal *)
Example ex_removes : removes P0 (keepm [false; false; true; true; true] P0).
Proof.
  apply (removes_perm_l (keepm [false; false; true; true; true] P0 ++ takem [false; false; true; true; true] P0)).
  - apply Permutation_sym, keep_take_perm.
  - apply accepts_sound. reflexivity.
Qed.

(* two copies: either one may go, the acceptor refuses to let both go *)
Definition Pdup : pkg := [mkDecl 0 [reg la] int1; mkDecl 1 [reg la] int1].
Example ex_dup_one : accepts_mask [true; false] Pdup = true.
Proof. reflexivity. Qed.
Example ex_dup_both : accepts_mask [true; true] Pdup = false.
Proof. reflexivity. Qed.
Example ex_dup_trim : trim_model Pdup = [mkDecl 1 [reg la] int1].
Proof. reflexivity. Qed.

(* the evaluated configuration at a path *)
Example ex_final_at :
  final_value_at [la; lb] [AInt 1; AInt 2] 5 P0 [la] = Some (RVal [true; false; false; false; false; false] [true; false] [true; false]).
Proof. reflexivity. Qed.
