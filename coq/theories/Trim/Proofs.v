(* C20: removing declarations that the rest of the package absorbs preserves the
   evaluated configuration - for every label universe, every set of probe atoms and
   every depth (fuel).  Built on the order/grouping laws of Core/Laws.v. *)
From Verif Require Import Core.Syntax Core.Eval Core.Laws Trim.Model.
From Coq Require Import List Bool ZArith NArith Lia Permutation PeanoNat.
Import ListNotations.

(* ---- scalar entailment ---------------------------------------------------------- *)
Lemma atom_eqb_refl a : atom_eqb a a = true.
Proof. apply atom_eqb_eq. reflexivity. Qed.

Lemma sc_entails_sat c' c a : sc_entails c' c = true -> ssat a c' = true -> ssat a c = true.
Proof.
  destruct c as [b|k|z|z|z|z|z]; destruct c' as [b'|k'|z'|z'|z'|z'|z']; simpl; try discriminate;
    try (destruct b' as [x| | |]; try discriminate); intros H S.
  all: try (apply atom_eqb_eq in S; subst a).
  all: try (apply atom_eqb_eq in H; subst; apply atom_eqb_refl).
  all: try (simpl; exact H).
  all: try (destruct a as [y| | |]; try discriminate; simpl in *; lia).
  all: try (destruct a as [y| | |]; destruct k, k'; simpl in *; congruence).
Qed.

Lemma sc_entails_kind c' c k : sc_entails c' c = true -> sc_kind_ok k c' = true -> sc_kind_ok k c = true.
Proof.
  destruct c as [b|k0|z|z|z|z|z]; destruct c' as [b'|k'|z'|z'|z'|z'|z']; simpl; try discriminate;
    intros H S; auto.
  all: try (apply atom_eqb_eq in H; subst; exact S).
  all: try (destruct b' as [x| | |]; try discriminate; simpl in *).
  all: try (destruct k; simpl in *; try discriminate; reflexivity).
  all: try (destruct k, k0; simpl in *; congruence).
  all: try (destruct k, k0, k'; simpl in *; congruence).
Qed.

Lemma sc_entails_atom c' c a : sc_entails c' c = true -> is_atom_c a c = true -> is_atom_c a c' = true.
Proof.
  destruct c as [b|k0|z|z|z|z|z]; simpl; try discriminate.
  destruct c' as [b'|k'|z'|z'|z'|z'|z']; try discriminate. simpl.
  intros H S. apply atom_eqb_eq in H. subst. exact S.
Qed.

Lemma null_false_in {A} (x : A) l : In x l -> null l = false.
Proof. destruct l; [intros [] | reflexivity]. Qed.

(* ---- adding entailed constraints to a scalar node -------------------------------- *)
Section ScalarAbsorb.
  Variables add scs : list sconstr.
  Hypothesis Himp : forall c, In c add -> sc_implied scs c = true.

  Lemma implied_witness c : In c add -> exists c', In c' scs /\ sc_entails c' c = true.
  Proof. intros H. apply Himp in H. apply existsb_exists in H. exact H. Qed.

  Lemma add_forall_sat a : forallb (ssat a) (add ++ scs) = forallb (ssat a) scs.
  Proof.
    rewrite forallb_app. destruct (forallb (ssat a) scs) eqn:E; [|apply andb_false_r].
    rewrite andb_true_r. apply forallb_forall. intros c Hc.
    destruct (implied_witness c Hc) as (c' & Hc' & He).
    apply (sc_entails_sat c' c a He). rewrite forallb_forall in E. auto.
  Qed.

  Lemma add_forall_kind k : forallb (sc_kind_ok k) (add ++ scs) = forallb (sc_kind_ok k) scs.
  Proof.
    rewrite forallb_app. destruct (forallb (sc_kind_ok k) scs) eqn:E; [|apply andb_false_r].
    rewrite andb_true_r. apply forallb_forall. intros c Hc.
    destruct (implied_witness c Hc) as (c' & Hc' & He).
    apply (sc_entails_kind c' c k He). rewrite forallb_forall in E. auto.
  Qed.

  Lemma add_exists_atom a : existsb (is_atom_c a) (add ++ scs) = existsb (is_atom_c a) scs.
  Proof.
    rewrite existsb_app. destruct (existsb (is_atom_c a) add) eqn:E; [|reflexivity].
    simpl. symmetry. apply existsb_exists in E as (c & Hc & Ha).
    destruct (implied_witness c Hc) as (c' & Hc' & He).
    apply existsb_exists. exists c'. split; auto. apply (sc_entails_atom c' c a He Ha).
  Qed.

  Lemma add_null : null (add ++ scs) = null scs.
  Proof.
    assert (G : forall l, (forall c, In c l -> exists c', In c' scs /\ sc_entails c' c = true) ->
                          null (l ++ scs) = null scs).
    { intros l Hl. destruct l as [|c r]; [reflexivity|]. simpl.
      destruct (Hl c (or_introl eq_refl)) as (c' & Hc' & _). symmetry. apply (null_false_in c' scs Hc'). }
    apply G. exact implied_witness.
  Qed.

  Lemma add_scalar_bottom : scalar_bottom (add ++ scs) = scalar_bottom scs.
  Proof.
    unfold scalar_bottom. f_equal.
    - f_equal. apply existsb_ext. intros k. apply add_forall_kind.
    - rewrite (existsb_ext
                 (fun c => match c with SAtom a => negb (forallb (ssat a) (add ++ scs)) | _ => false end)
                 (fun c => match c with SAtom a => negb (forallb (ssat a) scs) | _ => false end)).
      2:{ intros [a| | | | | |]; auto. rewrite add_forall_sat. reflexivity. }
      rewrite existsb_app.
      destruct (existsb _ add) eqn:E; [|reflexivity]. simpl. symmetry.
      apply existsb_exists in E as (c & Hc & Hf). destruct c as [a| | | | | |]; try discriminate.
      destruct (implied_witness _ Hc) as (c' & Hc' & He).
      destruct c' as [b| | | | | |]; try discriminate. simpl in He. apply atom_eqb_eq in He. subst b.
      apply existsb_exists. exists (SAtom a). split; auto.
  Qed.
End ScalarAbsorb.

(* ---- what an absorbed expression contributes to a node ---------------------------- *)
Definition abs_fields (cs : list conj) (ds : list (dhead * expr)) : bool :=
  forallb (fun d => match fst d with
                    | HField l k => has_field (flat_all cs) l k && absorbs (snd d) (children (flat_all cs) l)
                    | HEllipsis => true
                    | _ => false
                    end) ds.

Lemma absorbs_struct ds cs :
  absorbs (EStruct ds) cs = n_struct (flat_all cs) && abs_fields cs ds.
Proof.
  cbn [absorbs]. f_equal. unfold abs_fields.
  induction ds as [|[h e] ds IH]; [reflexivity|].
  destruct h; cbn [forallb fst snd]; try reflexivity.
  - rewrite IH. reflexivity.
  - rewrite IH. reflexivity.
Qed.

Lemma abs_fields_spec cs ds :
  abs_fields cs ds = true ->
  embed_free ds = true /\ pats_of ds = [] /\
  forall l k e, In (l, k, e) (fields_of ds) ->
                has_field (flat_all cs) l k = true /\ absorbs e (children (flat_all cs) l) = true.
Proof.
  unfold abs_fields, embed_free, pats_of, fields_of.
  induction ds as [|[h e] ds IH]; cbn [forallb flat_map fst snd].
  - intros _. split; [reflexivity | split; [reflexivity | intros l k e []]].
  - intros H. apply andb_true_iff in H as [Hh Hr]. destruct (IH Hr) as (I1 & I2 & I3).
    destruct h; try discriminate; cbn [is_embed negb andb app].
    + apply andb_true_iff in Hh as [Hf Ha]. split; [exact I1 | split; [exact I2|]].
      intros l0 k0 e0 [E|Hin]; [inversion E; subst; split; assumption | apply (I3 _ _ _ Hin)].
    + split; [exact I1 | split; [exact I2 | exact I3]].
Qed.

(* the shape of the flattened form of an absorbed expression, in any scope *)
Record absorbed_flat (cs : list conj) (F : flat) : Prop := {
  af_bot : f_bot F = false;
  af_ownp : f_ownp F = [];
  af_subs : f_subs F = [];
  af_closers : f_closers F = [];
  af_scal : forall c, In c (f_scal F) -> sc_implied (n_scal (flat_all cs)) c = true;
  af_struct : f_struct F = true -> n_struct (flat_all cs) = true;
  af_own : forall l k e, In (l, k, e) (f_own F) ->
                         has_field (flat_all cs) l k = true /\ absorbs e (children (flat_all cs) l) = true }.

Lemma absorbed_flat_empty cs : absorbed_flat cs flat_empty.
Proof. constructor; simpl; auto; try discriminate; intros; contradiction. Qed.

Lemma absorbed_flat_app cs A B : absorbed_flat cs A -> absorbed_flat cs B -> absorbed_flat cs (flat_app A B).
Proof.
  intros [a1 a2 a3 a4 a5 a6 a7] [b1 b2 b3 b4 b5 b6 b7]. constructor; simpl.
  - rewrite a1, b1. reflexivity.
  - rewrite a2, b2. reflexivity.
  - rewrite a3, b3. reflexivity.
  - rewrite a4, b4. reflexivity.
  - intros c H. apply in_app_or in H as [H|H]; auto.
  - intros H. apply orb_true_iff in H as [H|H]; auto.
  - intros l k e H. apply in_app_or in H as [H|H]; auto.
Qed.

Lemma absorbs_flatten v : forall cs r x, absorbs v cs = true -> absorbed_flat cs (flatten r x v).
Proof.
  induction v as [| |c|a IHa b IHb|ds|e _|e _]; intros cs r x H; try discriminate.
  - apply absorbed_flat_empty.
  - cbn [absorbs] in H. constructor; simpl; auto; try discriminate; try (intros; contradiction).
    intros c0 [<-|[]]. exact H.
  - cbn [absorbs] in H. apply andb_true_iff in H as [Ha Hb]. cbn [flatten].
    apply absorbed_flat_app; auto.
  - rewrite absorbs_struct in H. apply andb_true_iff in H as [Hs Hf].
    destruct (abs_fields_spec cs ds Hf) as (E1 & E2 & E3).
    rewrite (flatten_embed_free r x ds E1), E2.
    constructor; simpl; auto; intros; contradiction.
Qed.

Lemma absorbs_flat_exprs cs vs :
  (forall v, In v vs -> absorbs v cs = true) -> absorbed_flat cs (flat_exprs false vs).
Proof.
  induction vs as [|v vs IH]; intros H.
  - apply absorbed_flat_empty.
  - rewrite flat_exprs_cons. apply absorbed_flat_app.
    + apply absorbs_flatten. apply H. left; reflexivity.
    + apply IH. intros w Hw. apply H. right; exact Hw.
Qed.

(* ---- the absorption theorem ---------------------------------------------------- *)
Lemma has_field_app A B l k :
  has_field (nflat_app A B) l k = has_field A l k || has_field B l k.
Proof. unfold has_field; simpl. apply existsb_app. Qed.

Lemma open_values_app A B l : open_values (nflat_app A B) l = open_values A l ++ open_values B l.
Proof. unfold open_values; simpl. apply flat_map_app. Qed.

Lemma rec_children_app A B l : rec_children (nflat_app A B) l = rec_children A l ++ rec_children B l.
Proof. unfold rec_children; simpl. apply flat_map_app. Qed.

Section Absorb.
  Variable labs : list label.
  Variable atoms : list atom.

  Theorem absorb_sound fuel : forall cs vs,
    (forall v, In v vs -> absorbs v cs = true) ->
    evalNode labs atoms fuel (mkConj false vs :: cs) = evalNode labs atoms fuel cs.
  Proof.
    induction fuel as [|f IH]; intros cs vs H; [reflexivity|].
    unfold evalNode. rewrite flat_all_cons.
    set (fl := flat_all cs).
    pose proof (absorbs_flat_exprs cs vs H) as [a1 a2 a3 a4 a5 a6 a7]. fold fl in a5, a6, a7.
    set (F := flat_exprs false vs) in *.
    assert (EA : flat_conj (mkConj false vs) =
                 mkNFlat false (f_scal F) (f_struct F) [mkPart false (f_own F) []] []).
    { unfold flat_conj. cbn [c_rec c_exprs andb]. fold F. rewrite a1, a2, a3, a4. reflexivity. }
    rewrite EA. set (A := mkNFlat false (f_scal F) (f_struct F) [mkPart false (f_own F) []] []).
    cbn [evalFlat].
    assert (Eb : n_bot (nflat_app A fl) = n_bot fl) by reflexivity.
    assert (Es : n_struct (nflat_app A fl) = n_struct fl).
    { simpl. destruct (f_struct F) eqn:E; [rewrite (a6 eq_refl)|]; reflexivity. }
    assert (En : null (n_scal (nflat_app A fl)) = null (n_scal fl)).
    { simpl. apply add_null. exact a5. }
    rewrite Eb, Es, En.
    destruct (n_bot fl); [reflexivity|].
    destruct (n_struct fl && negb (null (n_scal fl))); [reflexivity|].
    destruct (n_struct fl) eqn:Estruct.
    - (* struct node *)
      assert (HF : forall l k, has_field (nflat_app A fl) l k = has_field fl l k).
      { intros l k. rewrite has_field_app.
        destruct (has_field A l k) eqn:E; [|reflexivity]. simpl. symmetry.
        unfold has_field in E. simpl in E. rewrite orb_false_r in E.
        apply existsb_exists in E as ([[l' k'] e] & Hin & Hm). simpl in Hm.
        apply andb_true_iff in Hm as [Hl Hk]. apply label_eqb_eq in Hl. subst l'.
        assert (k' = k) by (destruct k', k; simpl in Hk; congruence). subst k'.
        apply (a7 _ _ _ Hin). }
      assert (HP : forall l, presence (nflat_app A fl) l = presence fl l).
      { intros l. unfold presence. rewrite !HF. reflexivity. }
      assert (HC : forall l, evalFlat labs atoms f (flat_all (children (nflat_app A fl) l)) =
                             evalFlat labs atoms f (flat_all (children fl l))).
      { intros l. unfold children. rewrite open_values_app, rec_children_app.
        assert (ER : rec_children A l = []) by reflexivity. rewrite ER. cbn [app].
        set (vs' := open_values A l).
        assert (Hvs : forall e, In e vs' -> absorbs e (children fl l) = true).
        { intros e He. unfold vs', open_values in He. simpl in He. rewrite app_nil_r in He.
          apply part_values_in in He as [(fd & Hfd & Hl & <-)|(q & [] & _)].
          destruct fd as [[l' k'] e']. simpl in *. apply label_eqb_eq in Hl. subst l'.
          apply (a7 _ _ _ Hfd). }
        destruct vs' as [|e0 vs0] eqn:Ev; [reflexivity|].
        cbn [app null].
        destruct (open_values fl l) as [|o os] eqn:Eo.
        + cbn [null app]. rewrite app_nil_r.
          apply (IH (rec_children fl l) (e0 :: vs0)).
          intros e He. specialize (Hvs e He). unfold children in Hvs. rewrite Eo in Hvs. exact Hvs.
        + cbn [null app].
          change (e0 :: vs0 ++ o :: os) with ((e0 :: vs0) ++ (o :: os)).
          pose proof (eval_split_decl labs atoms f (e0 :: vs0) (o :: os) (rec_children fl l)) as SP.
          unfold evalNode in SP. rewrite SP.
          apply (IH (mkConj false (o :: os) :: rec_children fl l) (e0 :: vs0)).
          intros e He. specialize (Hvs e He). unfold children in Hvs. rewrite Eo in Hvs. exact Hvs. }
      f_equal.
      + apply map_ext. intros l. rewrite HP, HC. reflexivity.
      + apply map_ext. intros l. rewrite HC. reflexivity.
    - (* scalar node *)
      assert (ESC : n_scal (nflat_app A fl) = f_scal F ++ n_scal fl) by reflexivity.
      rewrite ESC, (add_scalar_bottom _ _ a5).
      destruct (scalar_bottom (n_scal fl)); [reflexivity|].
      f_equal.
      + apply map_ext. intros k. apply add_forall_kind. exact a5.
      + apply map_ext. intros a. apply add_forall_sat. exact a5.
      + apply map_ext. intros a. apply add_exists_atom. exact a5.
  Qed.
End Absorb.

(* ---- packages ---------------------------------------------------------------------- *)
(* r is implied by the package K: unifying it back changes nothing, whatever is observed *)
Definition implied1 (K : pkg) (r : decl) : Prop :=
  forall labs atoms fuel, final_value labs atoms fuel (r :: K) = final_value labs atoms fuel K.

(* K is obtained from P by removing declarations one after the other, each one implied
   by what REMAINS at that moment *)
Inductive removes : pkg -> pkg -> Prop :=
| rm_done P K : Permutation P K -> removes P K
| rm_step P r P' K : Permutation P (r :: P') -> implied1 P' r -> removes P' K -> removes P K.

Lemma final_perm labs atoms fuel P Q :
  Permutation P Q -> final_value labs atoms fuel P = final_value labs atoms fuel Q.
Proof. intros H. unfold final_value, conjs. apply eval_perm. apply Permutation_map. exact H. Qed.

Theorem absorbed_implied d K : absorbed d K = true -> implied1 K d.
Proof.
  intros H labs atoms fuel. unfold final_value, conjs. cbn [map]. unfold conj_of at 1.
  apply absorb_sound. intros v [<-|[]]. exact H.
Qed.

Theorem removes_preserves P K :
  removes P K -> forall labs atoms fuel, final_value labs atoms fuel K = final_value labs atoms fuel P.
Proof.
  induction 1 as [P K HP|P r P' K HP Hr _ IH]; intros labs atoms fuel.
  - symmetry. apply final_perm. exact HP.
  - rewrite (final_perm labs atoms fuel P (r :: P') HP), (Hr labs atoms fuel). apply IH.
Qed.

Lemma keep_take_perm m : forall P, Permutation P (keepm m P ++ takem m P).
Proof.
  induction m as [|b m IH]; intros P.
  - simpl. destruct P; rewrite app_nil_r; apply Permutation_refl.
  - destruct P as [|d P]; [destruct b; apply Permutation_refl|].
    destruct b; cbn [keepm takem].
    + apply Permutation_cons_app. apply IH.
    + simpl. constructor. apply IH.
Qed.

(* the property, for a removed set given as a mask *)
Theorem remove_implied_preserves P m :
  removes P (keepm m P) ->
  forall labs atoms fuel, final_value labs atoms fuel (keepm m P) = final_value labs atoms fuel P.
Proof. apply removes_preserves. Qed.

Corollary remove_implied_preserves_at P m :
  removes P (keepm m P) ->
  forall labs atoms fuel path,
    final_value_at labs atoms fuel (keepm m P) path = final_value_at labs atoms fuel P path.
Proof. intros H labs atoms fuel path. unfold final_value_at. rewrite (removes_preserves _ _ H). reflexivity. Qed.

Lemma removes_perm_l P Q K : Permutation P Q -> removes P K -> removes Q K.
Proof.
  intros HPQ H. destruct H as [P K HP|P r P' K HP Hr Hrest].
  - apply rm_done. apply (Permutation_trans (Permutation_sym HPQ) HP).
  - apply (rm_step Q r P' K); auto. apply (Permutation_trans (Permutation_sym HPQ) HP).
Qed.

Lemma removes_trans A B C : removes A B -> removes B C -> removes A C.
Proof.
  induction 1 as [A B HP|A r A' B HP Hr _ IH]; intros HBC.
  - apply (removes_perm_l B A C); auto using Permutation_sym.
  - apply (rm_step A r A' C); auto.
Qed.

(* ---- the acceptor ------------------------------------------------------------------ *)
Lemma pick_spec K : forall R seen r R',
  pick K seen R = Some (r, R') -> absorbed r K = true /\ Permutation (seen ++ R) (r :: R').
Proof.
  induction R as [|x R IH]; intros seen r R' H; [discriminate|]. cbn [pick] in H.
  destruct (absorbed x K) eqn:E.
  - inversion H; subst. split; auto. rewrite rev_append_rev.
    apply Permutation_sym. apply Permutation_cons_app.
    apply Permutation_app_tail. apply Permutation_sym, Permutation_rev.
  - destruct (IH _ _ _ H) as [Ha Hp]. split; auto.
    apply (Permutation_trans (l' := (x :: seen) ++ R)); auto.
    simpl. apply Permutation_sym. apply Permutation_middle.
Qed.

Lemma accepts_go_sound n : forall K R, accepts_go n K R = true -> removes (K ++ R) K.
Proof.
  induction n as [|n IH]; intros K R H.
  - destruct R; [|discriminate]. rewrite app_nil_r. apply rm_done, Permutation_refl.
  - destruct R as [|x R]; [rewrite app_nil_r; apply rm_done, Permutation_refl|].
    cbn [accepts_go] in H. destruct (pick K [] (x :: R)) as [[r R']|] eqn:Ep; [|discriminate].
    destruct (pick_spec K _ _ _ _ Ep) as [Ha Hp]. simpl in Hp.
    apply (removes_trans _ (r :: K)).
    + apply (removes_perm_l ((r :: K) ++ R')); [|apply IH; exact H].
      simpl. apply Permutation_sym.
      apply (Permutation_trans (l' := K ++ r :: R')); [apply Permutation_app_head; exact Hp|].
      apply Permutation_sym, Permutation_middle.
    + apply (rm_step (r :: K) r K K); [apply Permutation_refl | apply absorbed_implied; exact Ha |].
      apply rm_done, Permutation_refl.
Qed.

Theorem accepts_sound K R : accepts K R = true -> removes (K ++ R) K.
Proof. apply accepts_go_sound. Qed.

(* what the check uses: a removed set the model accepts leaves the configuration unchanged *)
Theorem accepts_mask_preserves P m :
  accepts_mask m P = true ->
  forall labs atoms fuel, final_value labs atoms fuel (keepm m P) = final_value labs atoms fuel P.
Proof.
  intros H. apply removes_preserves.
  apply (removes_perm_l (keepm m P ++ takem m P)); [apply Permutation_sym, keep_take_perm|].
  apply accepts_sound. exact H.
Qed.

(* ---- the reference trimmer ------------------------------------------------------------ *)
Lemma trim_pass_removes : forall todo kept, removes (kept ++ todo) (trim_pass kept todo).
Proof.
  induction todo as [|d r IH]; intros kept; cbn [trim_pass].
  - rewrite app_nil_r. apply rm_done, Permutation_refl.
  - destruct (absorbed d (kept ++ r)) eqn:E.
    + apply (rm_step _ d (kept ++ r)); [apply Permutation_sym, Permutation_middle | apply absorbed_implied, E | apply IH].
    + specialize (IH (kept ++ [d])). rewrite <- app_assoc in IH. exact IH.
Qed.

Lemma trim_iter_removes n : forall P, removes P (trim_iter n P).
Proof.
  induction n as [|n IH]; intros P; cbn [trim_iter]; [apply rm_done, Permutation_refl|].
  destruct (Nat.eqb _ _); [apply rm_done, Permutation_refl|].
  apply (removes_trans _ (trim_pass [] P)); [apply (trim_pass_removes P []) | apply IH].
Qed.

Theorem trim_model_removes P : removes P (trim_model P).
Proof. apply trim_iter_removes. Qed.

Theorem trim_model_sound P :
  forall labs atoms fuel, final_value labs atoms fuel (trim_model P) = final_value labs atoms fuel P.
Proof. apply removes_preserves, trim_model_removes. Qed.

Lemma trim_pass_length : forall todo kept,
  length (trim_pass kept todo) <= length kept + length todo /\
  (length (trim_pass kept todo) = length kept + length todo -> trim_pass kept todo = kept ++ todo).
Proof.
  induction todo as [|d r IH]; intros kept; cbn [trim_pass].
  - rewrite app_nil_r. simpl. split; [lia | reflexivity].
  - destruct (absorbed d (kept ++ r)).
    + destruct (IH kept) as [L _]. simpl. split; [lia | intros; lia].
    + destruct (IH (kept ++ [d])) as [L E]. rewrite app_length in L, E. simpl in *.
      split; [lia|]. intros H. rewrite E by lia. rewrite <- app_assoc. reflexivity.
Qed.

Definition stable (Q : pkg) : Prop := trim_pass [] Q = Q.

Lemma trim_iter_stable n : forall P, length P < n -> stable (trim_iter n P).
Proof.
  induction n as [|n IH]; intros P H; [lia|]. cbn [trim_iter].
  destruct (trim_pass_length P []) as [L E]. simpl in L, E.
  destruct (Nat.eqb (length (trim_pass [] P)) (length P)) eqn:Q.
  - apply Nat.eqb_eq in Q. unfold stable. apply E. exact Q.
  - apply Nat.eqb_neq in Q. apply IH. lia.
Qed.

Lemma trim_iter_of_stable n Q : stable Q -> trim_iter n Q = Q.
Proof.
  intros H. destruct n; [reflexivity|]. cbn [trim_iter]. rewrite H, Nat.eqb_refl. reflexivity.
Qed.

Theorem trim_model_stable P : stable (trim_model P).
Proof. apply trim_iter_stable. lia. Qed.

Theorem trim_model_idempotent P : trim_model (trim_model P) = trim_model P.
Proof. apply trim_iter_of_stable, trim_model_stable. Qed.

(* nothing more can be removed: no remaining declaration is absorbed by the others *)
Lemma stable_none : forall todo kept,
  trim_pass kept todo = kept ++ todo ->
  forall Q1 d Q2, todo = Q1 ++ d :: Q2 -> absorbed d (kept ++ Q1 ++ Q2) = false.
Proof.
  induction todo as [|x r IH]; intros kept H Q1 d Q2 E.
  - destruct Q1; discriminate.
  - cbn [trim_pass] in H. destruct (absorbed x (kept ++ r)) eqn:A.
    + exfalso. destruct (trim_pass_length r kept) as [L _]. rewrite H, app_length in L. simpl in L. lia.
    + destruct Q1 as [|y Q1]; simpl in E; injection E as E1 E2; subst x r.
      * exact A.
      * replace (kept ++ y :: Q1 ++ d :: Q2) with ((kept ++ [y]) ++ Q1 ++ d :: Q2) in H
          by (rewrite <- app_assoc; reflexivity).
        specialize (IH (kept ++ [y]) H Q1 d Q2 eq_refl). rewrite <- app_assoc in IH. exact IH.
Qed.

Theorem trim_model_complete P Q1 d Q2 :
  trim_model P = Q1 ++ d :: Q2 -> absorbed d (Q1 ++ Q2) = false.
Proof.
  intros E. pose proof (trim_model_stable P) as S. unfold stable in S. rewrite E in S.
  apply (stable_none (Q1 ++ d :: Q2) [] S Q1 d Q2 eq_refl).
Qed.

(* ---- refuted variants --------------------------------------------------------------- *)
(* two copies of the same declaration imply each other; removing BOTH changes the value:
   implication by "the package without this one declaration" is not enough for a set *)
Theorem mutual_redundancy_unsafe :
  exists d : decl,
    implied1 [d] d /\
    exists labs atoms fuel, final_value labs atoms fuel [] <> final_value labs atoms fuel [d; d].
Proof.
  exists (mkDecl 0 [(LReg 0, FRegular)] (EScalar (SAtom (AInt 1)))). split.
  - intros labs atoms fuel. unfold final_value, conjs. cbn [map]. apply eval_dup.
  - exists [LReg 0], [AInt 1], 3. vm_compute. discriminate.
Qed.

(* absorption without the check that the field already exists: what would follow from
   letting a pattern root "win" ([string]: 5 gives o the value 5, o: int is no more specific
   than that - but removing o: int removes the field) *)
Fixpoint absorbs_loose (v : expr) (cs : list conj) {struct v} : bool :=
  let fl := flat_all cs in
  match v with
  | ETop => true
  | EScalar c => sc_implied (n_scal fl) c
  | EAnd a b => absorbs_loose a cs && absorbs_loose b cs
  | EStruct ds =>
    n_struct fl &&
    (fix go (ds : list (dhead * expr)) : bool :=
       match ds with
       | [] => true
       | (HField l k, e) :: r => absorbs_loose e (children fl l) && go r
       | (HEllipsis, _) :: r => go r
       | _ => false
       end) ds
  | _ => false
  end.

Theorem pattern_root_must_not_win :
  exists (K : pkg) (d : decl),
    absorbs_loose (d_expr d) (conjs K) = true /\
    exists labs atoms fuel, final_value labs atoms fuel (d :: K) <> final_value labs atoms fuel K.
Proof.
  exists [mkDecl 0 [] (EStruct [(HPattern [0%N], EScalar (SAtom (AInt 5)))])],
         (mkDecl 0 [(LReg 0, FRegular)] (EScalar (SKind KInt))).
  split; [reflexivity|].
  exists [LReg 0], [AInt 5], 3. vm_compute. discriminate.
Qed.

(* a struct may only be demanded where the rest already has one: x: a: {} is not implied by x: a: _ *)
Theorem struct_marker_not_implied_by_top :
  exists (K : pkg) (d : decl),
    absorbed d K = false /\
    exists labs atoms fuel, final_value labs atoms fuel (d :: K) <> final_value labs atoms fuel K.
Proof.
  exists [mkDecl 0 [(LReg 0, FRegular)] ETop], (mkDecl 0 [(LReg 0, FRegular)] (EStruct [])).
  split; [reflexivity|].
  exists [LReg 0], [AInt 5], 3. vm_compute. discriminate.
Qed.

(* ---- defaults (Core/Disj.v): a default is not an implication ---------------------------- *)
(* trimv3.go tests specificity "with defaults applied on both sides" (subsumeProfile): the concrete
   value 2 counts as implied by the conjunct [*2 | int].  That is a sound reason to drop [2] only
   if no other conjunct carries a different default: with [*1 | int] present as well, the package
   resolves to 2 with the data and is ambiguous without it (known finding F11, reproduced on the
   implementation by corpus/C20/explore/f11_conflicting_defaults.txt). *)
From Verif Require Import Core.Disj.

Theorem default_is_not_implication :
  exists labs atoms fuel (c : expr) (d1 d2 : disj),
    resolve (pair_of labs atoms fuel [c] [d2]) = resolve (pair_of labs atoms fuel [] [d2]) /\
    resolve (pair_of labs atoms fuel [c] [d1; d2]) <> resolve (pair_of labs atoms fuel [] [d1; d2]).
Proof.
  exists [LReg 0], [AInt 1; AInt 2; AInt 3], 3, (EScalar (SAtom (AInt 2))),
         [(true, EScalar (SAtom (AInt 1))); (false, EScalar (SKind KInt))],
         [(true, EScalar (SAtom (AInt 2))); (false, EScalar (SKind KInt))].
  split; vm_compute; [reflexivity | discriminate].
Qed.
