(* C20 - cue trim removes only what is implied.

   A package is a list of declarations at paths.  A declaration [a.b: v] is the
   conjunct [{a: {b: v}}] of the package root; the configuration is the CoreCUE
   evaluation (Core/Eval.v) of all these conjuncts.  (CoreCUE is default free:
   "defaults resolved" is the identity on this fragment; references to definitions
   are inlined as [ERefDef body] by the harness, so definition bodies are not
   declarations of the package and can never be removed.)

   tools/trim/trimv3.go decides per vertex which conjuncts are "as specific as the
   whole vertex" by subsumption (findRedundancies / equallySpecific) and removes
   the declarations none of whose conjuncts is needed.  The model states the
   condition that makes a removal safe, from the point of view of what REMAINS:

     [absorbs v cs]  the expression v is, at every path it mentions, no more
                     specific than what the conjuncts cs already evaluate to there:
                     every field on the way exists with the same kind of field, a
                     struct is only demanded where cs already has a struct, and every
                     scalar constraint of v is entailed by one scalar constraint of cs
                     ([sc_entails], the scalar part of internal/core/subsume).
                     Patterns, embeddings, close() and definition references are
                     never absorbed (pattern roots / references must stay).

   [accepts K R] checks that the declarations R can be removed one after the other
   from K ++ R, each being absorbed by what remains at that moment; [trim_model]
   is the greedy reference trimmer built on [absorbs]. *)
From Verif Require Import Core.Syntax Core.Eval.
From Coq Require Import List Bool ZArith NArith.
Import ListNotations.

(* ---- packages -------------------------------------------------------------- *)
Record decl := mkDecl {
  d_file : N;                         (* file of the package the declaration is in *)
  d_path : list (label * fkind);      (* a.b?.c! ... *)
  d_val : expr }.

Definition pkg := list decl.

Fixpoint wrap (p : list (label * fkind)) (v : expr) : expr :=
  match p with
  | [] => v
  | (l, k) :: p' => EStruct [(HField l k, wrap p' v)]
  end.

Definition d_expr (d : decl) : expr := wrap (d_path d) (d_val d).

(* every declaration is a conjunct of its own of the root (an open group) *)
Definition conj_of (d : decl) : conj := mkConj false [d_expr d].
Definition conjs (P : pkg) : list conj := map conj_of P.

(* removing a set of declarations, given as a mask over the package (true = removed) *)
Fixpoint keepm (m : list bool) (P : pkg) : pkg :=
  match m, P with
  | true :: m', _ :: P' => keepm m' P'
  | false :: m', d :: P' => d :: keepm m' P'
  | [], _ => P
  | _, [] => []
  end.

Fixpoint takem (m : list bool) (P : pkg) : pkg :=
  match m, P with
  | true :: m', d :: P' => d :: takem m' P'
  | false :: m', _ :: P' => takem m' P'
  | _, _ => []
  end.

(* ---- the evaluated configuration ----------------------------------------------- *)
Section Final.
  Variable labs : list label.
  Variable atoms : list atom.

  Definition final_value (fuel : nat) (P : pkg) : res := evalNode labs atoms fuel (conjs P).

  (* the sub-result at a label / at a path of labels (None: no such label in the universe
     or not a struct) *)
  Fixpoint res_child (ls : list label) (fs : list (fpres * res)) (l : label) : option (fpres * res) :=
    match ls, fs with
    | l' :: ls', f :: fs' => if label_eqb l' l then Some f else res_child ls' fs' l
    | _, _ => None
    end.

  Fixpoint res_at (r : res) (p : list label) : option res :=
    match p with
    | [] => Some r
    | l :: p' =>
      match r with
      | RStruct fs _ => match res_child labs fs l with Some (_, r') => res_at r' p' | None => None end
      | _ => None
      end
    end.

  Definition final_value_at (fuel : nat) (P : pkg) (p : list label) : option res :=
    res_at (final_value fuel P) p.
End Final.

(* ---- scalar entailment (internal/core/subsume: values, basic types, bounds) -------- *)
(* [sc_entails c' c]: whatever satisfies c' satisfies c, c' admits no more kinds than c,
   and c pins an atom only if c' is that atom.  Bounds are compared as over the reals
   (a bound admits floats as a kind). *)
Definition sc_entails (c' c : sconstr) : bool :=
  match c with
  | SAtom a => match c' with SAtom b => atom_eqb b a | _ => false end
  | SKind k =>
    match c' with
    | SAtom b => skind_eqb (atom_kind b) k
    | SKind k' => skind_eqb k' k
    | _ => false
    end
  | SGt z =>
    match c' with
    | SAtom (AInt x) => Z.ltb z x
    | SGt z' => Z.leb z z'
    | SGe z' => Z.ltb z z'
    | _ => false
    end
  | SGe z =>
    match c' with
    | SAtom (AInt x) => Z.leb z x
    | SGt z' => Z.leb z z'
    | SGe z' => Z.leb z z'
    | _ => false
    end
  | SLt z =>
    match c' with
    | SAtom (AInt x) => Z.ltb x z
    | SLt z' => Z.leb z' z
    | SLe z' => Z.ltb z' z
    | _ => false
    end
  | SLe z =>
    match c' with
    | SAtom (AInt x) => Z.leb x z
    | SLt z' => Z.leb z' z
    | SLe z' => Z.leb z' z
    | _ => false
    end
  | SNe z =>
    match c' with
    | SAtom (AInt x) => negb (Z.eqb x z)
    | SNe z' => Z.eqb z' z
    | SGt z' => Z.leb z z'
    | SGe z' => Z.ltb z z'
    | SLt z' => Z.leb z' z
    | SLe z' => Z.ltb z' z
    | _ => false
    end
  end.

Definition sc_implied (scs : list sconstr) (c : sconstr) : bool := existsb (fun c' => sc_entails c' c) scs.

(* ---- absorption ---------------------------------------------------------------- *)
(* [absorbs v cs]: unifying v into a node that has the conjuncts cs changes nothing.
   Structural recursion on v; the node's children are those of cs. *)
Fixpoint absorbs (v : expr) (cs : list conj) {struct v} : bool :=
  let fl := flat_all cs in
  match v with
  | ETop => true
  | EScalar c => sc_implied (n_scal fl) c
  | EAnd a b => absorbs a cs && absorbs b cs
  | EStruct ds =>
    n_struct fl &&
    (fix go (ds : list (dhead * expr)) : bool :=
       match ds with
       | [] => true
       | (HField l k, e) :: r => has_field fl l k && absorbs e (children fl l) && go r
       | (HEllipsis, _) :: r => go r      (* "..." in an open literal only says: a struct *)
       | _ => false
       end) ds
  | _ => false
  end.

Definition absorbed (d : decl) (K : pkg) : bool := absorbs (d_expr d) (conjs K).

(* ---- acceptance of a removed set ------------------------------------------------- *)
(* R can be removed from K ++ R in some order in which every removed declaration is
   absorbed by what remains.  Computed backwards: starting from K, put back any
   declaration of R that the current package absorbs. *)
Fixpoint pick (K : pkg) (seen R : pkg) : option (decl * pkg) :=
  match R with
  | [] => None
  | r :: R' => if absorbed r K then Some (r, rev_append seen R') else pick K (r :: seen) R'
  end.

Fixpoint accepts_go (n : nat) (K R : pkg) : bool :=
  match R with
  | [] => true
  | _ =>
    match n with
    | O => false
    | S n' =>
      match pick K [] R with
      | None => false
      | Some (r, R') => accepts_go n' (r :: K) R'
      end
    end
  end.

Definition accepts (K R : pkg) : bool := accepts_go (length R) K R.

Definition accepts_mask (m : list bool) (P : pkg) : bool := accepts (keepm m P) (takem m P).

(* ---- the reference trimmer -------------------------------------------------------- *)
(* one greedy pass: drop a declaration when the others (the ones kept so far and the
   ones still to be looked at) absorb it *)
Fixpoint trim_pass (kept todo : pkg) : pkg :=
  match todo with
  | [] => kept
  | d :: r => if absorbed d (kept ++ r) then trim_pass kept r else trim_pass (kept ++ [d]) r
  end.

Fixpoint trim_iter (n : nat) (P : pkg) : pkg :=
  match n with
  | O => P
  | S n' =>
    let P' := trim_pass [] P in
    if Nat.eqb (length P') (length P) then P else trim_iter n' P'
  end.

Definition trim_model (P : pkg) : pkg := trim_iter (S (length P)) P.

(* the same pass, reporting the mask of removed declarations (for the harness) *)
Fixpoint trim_pass_mask (kept todo : pkg) : list bool :=
  match todo with
  | [] => []
  | d :: r => if absorbed d (kept ++ r) then true :: trim_pass_mask kept r
              else false :: trim_pass_mask (kept ++ [d]) r
  end.
