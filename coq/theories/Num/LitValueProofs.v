(* C06 - the value of every literal of the grammar (lit_parse o render). *)
From Coq Require Import NArith ZArith QArith Qabs List Bool Lia ZifyN ZifyBool.
From Verif Require Import Num.Decimal Num.NumLit Num.NumLitGrammar Num.ScanProofs
     Num.LitStageProofs Num.LitStartProofs Num.LitProofs Num.DigitsProofs Num.DVal
     Num.RoundProofs Num.ArithProofs Num.IntDivProofs.
Import ListNotations.
Local Open Scope N_scope.

Lemma lit_parse_of_info : forall src i,
  parse_num src = Some i ->
  lit_parse src = match decimal_of i with
                  | None => LErr
                  | Some DNaN => LNaN (kind_of_float (i_float i))
                  | Some (DFin d) => LNum (mkNum (kind_of_float (i_float i)) d)
                  end.
Proof. intros src i H. unfold lit_parse. rewrite H. reflexivity. Qed.

(* without exponent and fraction the exponent is 0, unless the number has more than 100001 digits *)
Lemma set_exponent_nil : forall c, (Z.of_N (digits c) <= 100001)%Z -> set_exponent c [] = Some 0%Z.
Proof.
  intros c H. unfold set_exponent, max_exponent. cbn [forallb fold_left].
  pose proof (digits_pos c).
  repeat match goal with
         | |- context [(?a <? ?b)%Z] => destruct (Z.ltb_spec a b); try lia
         end; reflexivity.
Qed.

(* decimal_lit *)
Theorem lit_dec_value : forall d,
  lit_ok (GDec d) = true -> (Z.of_N (digits (chars_value 10 (ds_chars d))) <= 100001)%Z ->
  lit_parse (render (GDec d)) = LNum (mkNum KInt (mkDec false (chars_value 10 (ds_chars d)) 0)).
Proof.
  intros d Hok Hlen. rewrite (lit_parse_of_info _ _ (dec_scan true d Hok)).
  cbn [lit_ok] in Hok. apply andb_prop in Hok. destruct Hok as [Hd _].
  unfold decimal_of. cbn [i_base i_buf i_mul i_float]. change (negb (10 =? 10)) with false. cbv iota.
  assert (match ds_chars d with [] => [c_0] | b => b end = ds_chars d) as -> by reflexivity.
  pose proof (set_string_decimal (ds_chars d) [] false None) as S.
  cbn [dot_part exp_part app] in S. rewrite !app_nil_r in S.
  rewrite S; try reflexivity.
  - cbv zeta. change (int32_ok (expo_value None)) with true. cbv iota. cbn [app].
    rewrite set_exponent_nil by exact Hlen. reflexivity.
  - unfold ds_chars. discriminate.
  - apply ds_chars_digits. exact Hd.
Qed.

Lemma base_digit_not_minus : forall base c, base <= 16 -> is_base_digit base c = true -> c <> c_minus.
Proof.
  intros base c Hb H E. subst. unfold is_base_digit in H. apply andb_prop in H. destruct H as [A _].
  apply N.ltb_lt in A. change (digit_val c_minus) with 16 in A. lia.
Qed.

(* hex_lit, octal_lit, binary_lit *)
Theorem lit_based_value : forall p d,
  lit_ok (GBased p d) = true ->
  lit_parse (render (GBased p d)) =
    LNum (mkNum KInt (mkDec false (chars_value (prefix_base p) (ds_chars d)) 0)).
Proof.
  intros p d Hok. rewrite (lit_parse_of_info _ _ (based_scan true p d Hok)).
  cbn [lit_ok] in Hok. unfold ds_ok in Hok. apply andb_prop in Hok. destruct Hok as [Hh _].
  assert (prefix_base p <= 16) as PB by (destruct p; simpl; lia).
  pose proof (base_digit_not_minus _ _ PB Hh) as NM.
  unfold decimal_of. cbn [i_base i_buf i_mul i_float].
  assert (negb (prefix_base p =? 10) = true) as -> by (destruct p; reflexivity).
  unfold ds_chars at 1.
  replace (ds_head d =? c_minus) with false by (symmetry; apply N.eqb_neq; exact NM).
  reflexivity.
Qed.

(* the exponent range in which apd keeps the exponent (Decimal.setExponent) *)
Definition exp_in_range (c : N) (E : Z) (nF : nat) : Prop :=
  (- 100000 <= E <= 100000)%Z /\ (Z.of_nat nF <= 100000)%Z /\
  (- 100000 <= E - Z.of_nat nF + Z.of_N (digits c) - 1 <= 100000)%Z.

Lemma set_exponent_in_range : forall c E nF (he hd : bool),
  exp_in_range c E nF -> (he = false -> E = 0%Z) -> (hd = false -> nF = O) ->
  set_exponent c ((if he then [E] else []) ++ (if hd then [(- Z.of_nat nF)%Z] else [])) = Some (E - Z.of_nat nF)%Z.
Proof.
  intros c E nF he hd (R1 & R2 & R3) HE HD. unfold set_exponent, max_exponent.
  destruct he, hd; cbn [app forallb fold_left];
    try (rewrite (HE eq_refl) in * ); try (rewrite (HD eq_refl) in * );
    repeat match goal with
           | |- context [(?a <=? ?b)%Z] => destruct (Z.leb_spec a b); try lia
           | |- context [(?a <? ?b)%Z] => destruct (Z.ltb_spec a b); try lia
           end; cbn [andb orb]; f_equal; lia.
Qed.

Lemma set_exponent_out_of_range : forall c E nF (he hd : bool),
  ~ exp_in_range c E nF -> (he = false -> E = 0%Z) -> (hd = false -> nF = O) ->
  set_exponent c ((if he then [E] else []) ++ (if hd then [(- Z.of_nat nF)%Z] else [])) = None.
Proof.
  intros c E nF he hd NR HE HD. unfold exp_in_range in NR. unfold set_exponent, max_exponent.
  destruct he, hd; cbn [app forallb fold_left];
    try (rewrite (HE eq_refl) in * ); try (rewrite (HD eq_refl) in * );
    repeat match goal with
           | |- context [(?a <=? ?b)%Z] => destruct (Z.leb_spec a b)
           | |- context [(?a <? ?b)%Z] => destruct (Z.ltb_spec a b)
           end; cbn [andb orb]; try reflexivity; exfalso; apply NR; lia.
Qed.

Lemma int32_of_range : forall E, (- 100000 <= E <= 100000)%Z -> int32_ok E = true.
Proof. intros E H. unfold int32_ok. lia. Qed.

(* float_lit : digits * 10^(exponent - number of fraction digits), of kind float *)
Theorem lit_float_value : forall ip fp e,
  lit_ok (GFloat ip fp e) = true ->
  exp_in_range (chars_value 10 (opt_chars ip ++ fp_chars fp)) (expo_value e) (length (fp_chars fp)) ->
  lit_parse (render (GFloat ip fp e)) =
    LNum (mkNum KFloat (mantissa ip (fp_flat fp) (expo_value e))).
Proof.
  intros ip fp e Hok HR. rewrite (lit_parse_of_info _ _ (float_scan true ip fp e Hok)).
  cbn [lit_ok] in Hok.
  apply andb_prop in Hok. destruct Hok as [Hok H3]. apply andb_prop in Hok. destruct Hok as [Hip He].
  destruct (eff_int_facts ip Hip) as (DI & NI & VI).
  assert (forallb is_digit (fp_chars fp) = true) as DF.
  { unfold fp_chars, fp_flat. destruct fp as [[f|]|]; try reflexivity.
    apply ds_chars_digits. destruct ip; simpl in H3; exact H3. }
  assert (has_dot fp = false -> fp_chars fp = []) as HF by (destruct fp; [discriminate|reflexivity]).
  unfold decimal_of. cbn [i_base i_buf i_mul i_float]. change (negb (10 =? 10)) with false. cbv iota.
  assert (match eff_int ip ++ dot_part (has_dot fp) (fp_chars fp) ++ exp_part e with [] => [c_0] | b => b end
          = eff_int ip ++ dot_part (has_dot fp) (fp_chars fp) ++ exp_part e) as ->.
  { destruct (eff_int ip); [contradiction|reflexivity]. }
  rewrite set_string_decimal; auto. cbv zeta. rewrite VI.
  rewrite int32_of_range by (destruct HR as (R1 & _); exact R1).
  assert ((match e with Some _ => [expo_value e] | None => [] end) =
          (if (match e with Some _ => true | None => false end) then [expo_value e] else [])) as ->
    by (destruct e; reflexivity).
  rewrite (set_exponent_in_range _ (expo_value e) (length (fp_chars fp))).
  - unfold kind_of_float, mantissa, fp_chars. reflexivity.
  - unfold exp_in_range, chars_value in *. exact HR.
  - destruct e; [discriminate|reflexivity].
  - intros H. rewrite (HF H). reflexivity.
Qed.

(* ... and outside that range the literal is rejected (since the fix of finding F9; before,
   the exponent was silently dropped) *)
Theorem lit_float_out_of_range_rejected : forall ip fp e,
  lit_ok (GFloat ip fp e) = true ->
  ~ exp_in_range (chars_value 10 (opt_chars ip ++ fp_chars fp)) (expo_value e) (length (fp_chars fp)) ->
  lit_parse (render (GFloat ip fp e)) = LErr.
Proof.
  intros ip fp e Hok HR. rewrite (lit_parse_of_info _ _ (float_scan true ip fp e Hok)).
  cbn [lit_ok] in Hok.
  apply andb_prop in Hok. destruct Hok as [Hok H3]. apply andb_prop in Hok. destruct Hok as [Hip He].
  destruct (eff_int_facts ip Hip) as (DI & NI & VI).
  assert (forallb is_digit (fp_chars fp) = true) as DF.
  { unfold fp_chars, fp_flat. destruct fp as [[f|]|]; try reflexivity.
    apply ds_chars_digits. destruct ip; simpl in H3; exact H3. }
  assert (has_dot fp = false -> fp_chars fp = []) as HF by (destruct fp; [discriminate|reflexivity]).
  unfold decimal_of. cbn [i_base i_buf i_mul i_float]. change (negb (10 =? 10)) with false. cbv iota.
  assert (match eff_int ip ++ dot_part (has_dot fp) (fp_chars fp) ++ exp_part e with [] => [c_0] | b => b end
          = eff_int ip ++ dot_part (has_dot fp) (fp_chars fp) ++ exp_part e) as ->.
  { destruct (eff_int ip); [contradiction|reflexivity]. }
  rewrite set_string_decimal; auto. cbv zeta. rewrite VI.
  destruct (int32_ok (expo_value e)); [|reflexivity].
  assert ((match e with Some _ => [expo_value e] | None => [] end) =
          (if (match e with Some _ => true | None => false end) then [expo_value e] else [])) as ->
    by (destruct e; reflexivity).
  rewrite (set_exponent_out_of_range _ (expo_value e) (length (fp_chars fp))).
  - reflexivity.
  - unfold exp_in_range, chars_value in *. exact HR.
  - destruct e; [discriminate|reflexivity].
  - intros H. rewrite (HF H). reflexivity.
Qed.

(* si_lit: the mantissa times the multiplier at precision 34, then RoundToIntegralExact *)
Theorem lit_si_value : forall ip fp m,
  lit_ok (GSi ip fp m) = true -> si_no_leading_zero ip fp = true ->
  exp_in_range (chars_value 10 (opt_chars ip ++ opt_chars fp)) 0 (length (opt_chars fp)) ->
  lit_parse (render (GSi ip fp m)) =
    match to_integral_flag (dmul (mantissa ip fp 0) (mkDec false (mult_value m) 0)) with
    | (r, false) => LNum (mkNum KInt r)
    | (_, true) => LErr
    end.
Proof.
  intros ip fp m Hok Hnz HR.
  pose proof (si_scan true ip fp m Hok Hnz) as S. cbv iota in S.
  cbn [lit_ok] in Hok.
  apply andb_prop in Hok. destruct Hok as [Hok H3]. apply andb_prop in Hok. destruct Hok as [Hok Hm].
  apply andb_prop in Hok. destruct Hok as [Hip Hfp].
  destruct (eff_int_facts ip Hip) as (DI & NI & VI).
  pose proof (opt_chars_digits fp Hfp) as DF.
  assert (decimal_of (si_info ip fp m) =
          match to_integral_flag (dmul (mantissa ip fp 0) (mkDec false (mult_value m) 0)) with
          | (r, false) => Some (DFin r)
          | (_, true) => None
          end) as DE.
  { unfold decimal_of, si_info. cbn [i_base i_buf i_mul i_float]. change (negb (10 =? 10)) with false. cbv iota.
    assert (match eff_int ip ++ dot_part (match fp with Some _ => true | None => false end) (opt_chars fp)
            with [] => [c_0] | b => b end
            = eff_int ip ++ dot_part (match fp with Some _ => true | None => false end) (opt_chars fp)) as ->.
    { destruct (eff_int ip); [contradiction|reflexivity]. }
    pose proof (set_string_decimal (eff_int ip) (opt_chars fp)
                  (match fp with Some _ => true | None => false end) None NI DI DF eq_refl) as SS.
    cbn [exp_part] in SS. rewrite app_nil_r in SS. rewrite SS; clear SS.
    - cbv zeta. change (int32_ok (expo_value None)) with true. cbv iota. rewrite VI. cbn [app].
      pose proof (set_exponent_in_range (chars_value 10 (opt_chars ip ++ opt_chars fp)) 0
                    (length (opt_chars fp)) false (match fp with Some _ => true | None => false end) HR) as SE.
      cbn [app] in SE. unfold chars_value in SE. rewrite SE.
      + unfold mantissa, chars_value.
        destruct (to_integral_flag _) as [r [|]]; reflexivity.
      + reflexivity.
      + destruct fp; [discriminate|reflexivity].
    - destruct fp; [discriminate|reflexivity]. }
  unfold lit_parse. unfold parse_num. rewrite S, DE.
  destruct (to_integral_flag _) as [r [|]]; [reflexivity|].
  rewrite DE. reflexivity.
Qed.

(* ---- consequences at the level of values ---- *)
Local Open Scope Q_scope.

Lemma not_integer_when_remainder : forall c k z,
  (c mod pow10 k <> 0)%N -> ~ mkv (Z.of_N c) (- Z.of_N k) == inject_Z z.
Proof.
  intros c k z H E.
  assert (inject_Z z == mkv (z * 10 ^ Z.of_N k) (- Z.of_N k)) as E2.
  { transitivity (mkv z 0); [unfold mkv; rewrite p10_0; ring|].
    symmetry. replace (- Z.of_N k)%Z with (0 - Z.of_N k)%Z by lia. apply mkv_shift. lia. }
  rewrite E2 in E.
  apply mkv_eq in E. apply H.
  assert (Z.of_N c = z * Z.of_N (pow10 k))%Z as E4.
  { rewrite E. unfold pow10. rewrite N2Z.inj_pow. reflexivity. }
  assert (0 <= z)%Z by (pose proof (pow10_pos k); nia).
  assert (c = Z.to_N z * pow10 k)%N as -> by lia.
  apply N.mod_mul. pose proof (pow10_pos k). lia.
Qed.

(* multiplier literals are exact - or rejected exactly when not integral - as long as the
   exact product has at most 34 digits *)
Theorem mult_literal_exact_when : forall ip fp m,
  lit_ok (GSi ip fp m) = true -> si_no_leading_zero ip fp = true ->
  exp_in_range (chars_value 10 (opt_chars ip ++ opt_chars fp)) 0 (length (opt_chars fp)) ->
  let P := mul_exact (mantissa ip fp 0) (mkDec false (mult_value m) 0) in
  (digits (coeff P) <= 34)%N ->
  match lit_parse (render (GSi ip fp m)) with
  | LNum n => nk n = KInt /\ exp (nd n) = 0%Z /\ dval (nd n) == dval P
  | LErr => ~ exists z : Z, dval P == inject_Z z
  | LNaN _ => False
  end.
Proof.
  intros ip fp m Hok Hnz HR P HD. rewrite (lit_si_value ip fp m Hok Hnz HR).
  unfold dmul, round34. rewrite round_small by exact HD. fold P.
  destruct (Z.leb_spec 0 (exp P)) as [NN|NG].
  - rewrite to_integral_nonneg_exp by exact NN. split; [reflexivity|]. split; [reflexivity|].
    cbn [nd]. rewrite !dval_sg. cbn [neg coeff exp].
    rewrite <- (mkv_shift (sg (neg P) (Z.of_N (coeff P))) (exp P) (exp P)) by exact NN.
    replace (exp P - exp P)%Z with 0%Z by lia. rewrite sg_mul. apply mkv_eq. f_equal.
    rewrite N2Z.inj_mul. unfold pow10. rewrite N2Z.inj_pow, Z2N.id by lia. reflexivity.
  - rewrite to_integral_neg_exp by exact NG. cbv zeta.
    set (k := Z.to_N (- exp P)). set (c := coeff P).
    assert (neg P = false) as NP by reflexivity.
    destruct (N.eqb_spec (c mod pow10 k) 0) as [M0|MN]; cbn [negb].
    + split; [reflexivity|]. split; [reflexivity|]. cbn [nd].
      rewrite !dval_sg. cbn [neg coeff exp]. rewrite NP. cbn [sg].
      rewrite M0. destruct (N.ltb_spec (2 * 0) (pow10 k)) as [_|B]; [|pose proof (pow10_pos k); lia].
      replace (exp P) with (0 - Z.of_N k)%Z by (unfold k; lia).
      rewrite <- (mkv_shift (Z.of_N (c / pow10 k)) 0 (Z.of_N k)) by lia. apply mkv_eq.
      pose proof (N.div_mod c (pow10 k) ltac:(pose proof (pow10_pos k); lia)) as DM. rewrite M0 in DM.
      fold c. assert (10 ^ Z.of_N k = Z.of_N (pow10 k))%Z as -> by (unfold pow10; rewrite N2Z.inj_pow; reflexivity). lia.
    + intros [z E]. rewrite dval_sg in E. rewrite NP in E. cbn [sg] in E.
      replace (exp P) with (- Z.of_N k)%Z in E by (unfold k; lia).
      exact (not_integer_when_remainder c k z MN E).
Qed.

(* a literal is of kind float exactly when it is a float_lit; every spelling is accepted by
   the scanner (multiplier literals up to the integrality check) *)
Theorem literal_kind : forall l,
  lit_ok l = true ->
  match l with GSi ip fp _ => si_no_leading_zero ip fp = true | _ => True end ->
  exists i, parse_num_noerr (render l) = Some i /\
            i_float i = (match l with GFloat _ _ _ => true | _ => false end) /\
            i_base i = (match l with GBased p _ => prefix_base p | _ => 10%N end).
Proof.
  intros l Hok Hs. unfold parse_num_noerr. destruct l as [d|p d|ip fp e|ip fp m].
  - rewrite (dec_scan false d Hok). eexists. repeat split.
  - rewrite (based_scan false p d Hok). eexists. repeat split.
  - rewrite (float_scan false ip fp e Hok). eexists. repeat split.
  - rewrite (si_scan false ip fp m Hok Hs). eexists. repeat split.
Qed.
