(* C06 - the rational number a decimal denotes, and the algebra of
   "integer times power of ten" that the proofs reduce to. *)
From Coq Require Import NArith ZArith QArith Qpower Qabs Bool Lia.
From Verif Require Import Num.Decimal.
Local Open Scope Q_scope.

(* signed coefficient *)
Definition sc (d : dec) : Z := if neg d then (- Z.of_N (coeff d))%Z else Z.of_N (coeff d).

(* 10^e for any integer e *)
Definition p10 (e : Z) : Q := Qpower (inject_Z 10) e.

(* z * 10^e *)
Definition mkv (z e : Z) : Q := inject_Z z * p10 e.

(* the denotation of a finite decimal *)
Definition dval (d : dec) : Q := mkv (sc d) (exp d).

Lemma ten_nz : ~ inject_Z 10 == 0.
Proof. intro H. discriminate H. Qed.

Lemma p10_add : forall a b, p10 (a + b) == p10 a * p10 b.
Proof. intros. unfold p10. apply Qpower_plus. apply ten_nz. Qed.

Lemma p10_pos : forall e, 0 < p10 e.
Proof. intros. unfold p10. apply Qpower_0_lt. reflexivity. Qed.

Lemma p10_nonneg_Z : forall e, (0 <= e)%Z -> p10 e == inject_Z (10 ^ e).
Proof. intros. unfold p10. symmetry. apply Zpower_Qpower. assumption. Qed.

Lemma p10_0 : p10 0 == 1.
Proof. reflexivity. Qed.

Lemma p10_of_N : forall n, p10 (Z.of_N n) == inject_Z (Z.of_N (pow10 n)).
Proof.
  intros. rewrite p10_nonneg_Z by lia. unfold pow10. rewrite N2Z.inj_pow. reflexivity.
Qed.

Lemma mkv_shift : forall z e k, (0 <= k)%Z -> mkv (z * 10 ^ k) (e - k) == mkv z e.
Proof.
  intros z e k Hk. unfold mkv.
  rewrite inject_Z_mult, <- (p10_nonneg_Z k Hk).
  replace e with ((e - k) + k)%Z at 2 by lia. rewrite p10_add. ring.
Qed.

Lemma mkv_shift' : forall z e k, (0 <= k)%Z -> mkv z (e + k) == mkv (z * 10 ^ k) e.
Proof.
  intros. rewrite <- (mkv_shift z (e + k) k) by assumption.
  replace (e + k - k)%Z with e by lia. reflexivity.
Qed.

Lemma mkv_add : forall a b e, mkv a e + mkv b e == mkv (a + b) e.
Proof. intros. unfold mkv. rewrite inject_Z_plus. ring. Qed.

Lemma mkv_sub : forall a b e, mkv a e - mkv b e == mkv (a - b) e.
Proof. intros. unfold mkv. unfold Z.sub. rewrite inject_Z_plus, inject_Z_opp. ring. Qed.

Lemma mkv_opp : forall a e, - mkv a e == mkv (- a) e.
Proof. intros. unfold mkv. rewrite inject_Z_opp. ring. Qed.

Lemma mkv_mul : forall a b e f, mkv a e * mkv b f == mkv (a * b) (e + f).
Proof. intros. unfold mkv. rewrite inject_Z_mult, p10_add. ring. Qed.

Lemma mkv_0 : forall e, mkv 0 e == 0.
Proof. intros. unfold mkv. ring. Qed.

Lemma mkv_scale : forall a k e, inject_Z k * mkv a e == mkv (k * a) e.
Proof. intros. unfold mkv. rewrite inject_Z_mult. ring. Qed.

Lemma mkv_le : forall a b e, (a <= b)%Z <-> mkv a e <= mkv b e.
Proof.
  intros. unfold mkv. pose proof (p10_pos e) as P. split; intros H.
  - apply Qmult_le_compat_r. rewrite <- Zle_Qle. assumption. apply Qlt_le_weak; assumption.
  - apply Qmult_lt_0_le_reg_r in H; auto. rewrite <- Zle_Qle in H. assumption.
Qed.

Lemma mkv_lt : forall a b e, (a < b)%Z <-> mkv a e < mkv b e.
Proof.
  intros. unfold mkv. pose proof (p10_pos e) as P. split; intros H.
  - apply Qmult_lt_compat_r; auto. rewrite <- Zlt_Qlt. assumption.
  - apply Qmult_lt_r in H; auto. rewrite <- Zlt_Qlt in H. assumption.
Qed.

Lemma mkv_eq : forall a b e, a = b <-> mkv a e == mkv b e.
Proof.
  intros. split; intros H. subst; reflexivity.
  apply Z.le_antisymm; apply (mkv_le _ _ e); rewrite H; apply Qle_refl.
Qed.

Lemma mkv_compare : forall a b e, (mkv a e ?= mkv b e) = (a ?= b)%Z.
Proof.
  intros. destruct (Z.compare_spec a b) as [E|L|G].
  - subst. apply Qeq_alt. reflexivity.
  - apply Qlt_alt. apply mkv_lt. assumption.
  - apply Qgt_alt. apply mkv_lt. assumption.
Qed.

Lemma mkv_abs : forall a e, Qabs (mkv a e) == mkv (Z.abs a) e.
Proof.
  intros. unfold mkv. rewrite Qabs_Qmult.
  rewrite (Qabs_pos (p10 e)) by (apply Qlt_le_weak, p10_pos).
  assert (Qabs (inject_Z a) == inject_Z (Z.abs a)) as ->; [|reflexivity].
  unfold Qabs, inject_Z. simpl. reflexivity.
Qed.

Lemma sc_abs : forall d, Z.abs (sc d) = Z.of_N (coeff d).
Proof. intros. unfold sc. destruct (neg d); lia. Qed.

Lemma dval_abs : forall d, Qabs (dval d) == mkv (Z.of_N (coeff d)) (exp d).
Proof. intros. unfold dval. rewrite mkv_abs, sc_abs. reflexivity. Qed.

Lemma dval_zero : forall d, coeff d = 0%N -> dval d == 0.
Proof. intros d H. unfold dval, sc. rewrite H. destruct (neg d); simpl; apply mkv_0. Qed.

Lemma dval_zero_iff : forall d, dval d == 0 <-> coeff d = 0%N.
Proof.
  intros d. split; [|apply dval_zero].
  intros H. unfold dval in H. rewrite <- (mkv_0 (exp d)) in H. apply mkv_eq in H.
  unfold sc in H. destruct (neg d); lia.
Qed.
