(* C06 - the comparison operators (cmpTonode) and bytewise comparison. *)
From Coq Require Import NArith ZArith Bool List Lia.
From Verif Require Import Base.Order Num.Decimal.
Import ListNotations.

Lemma bytes_cmp_is_list_cmp : forall x y, bytes_cmp x y = list_cmp N.compare x y.
Proof. induction x as [|a x IH]; destruct y as [|b y]; simpl; auto. rewrite IH. reflexivity. Qed.

Lemma bytes_cmp_total : total_cmp bytes_cmp.
Proof.
  pose proof (list_cmp_total N.compare N_compare_total) as H.
  constructor.
  - intros x y. rewrite bytes_cmp_is_list_cmp. apply (tc_eq _ H).
  - intros x y. rewrite !bytes_cmp_is_list_cmp. apply (tc_opp _ H).
  - intros x y z. rewrite !bytes_cmp_is_list_cmp. apply (tc_trans _ H).
Qed.

(* the six operators are the six relations of one three-way comparison *)
Lemma cmp_ops_consistent : forall r,
  cmp_to_bool CNe r = negb (cmp_to_bool CEq r) /\
  cmp_to_bool CGe r = negb (cmp_to_bool CLt r) /\
  cmp_to_bool CLe r = negb (cmp_to_bool CGt r) /\
  cmp_to_bool CLe r = (cmp_to_bool CLt r || cmp_to_bool CEq r) /\
  (cmp_to_bool CLt r = true <-> r = Lt) /\
  (cmp_to_bool CEq r = true <-> r = Eq) /\
  (cmp_to_bool CGt r = true <-> r = Gt).
Proof. destruct r; simpl; repeat split; intros; congruence. Qed.
