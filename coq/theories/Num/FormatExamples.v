(* C06 - number output: computed examples of the model of apd Append 'G' / exporter.num. *)
From Coq Require Import NArith ZArith Bool List.
From Verif Require Import Num.Decimal Num.NumLit Num.Format.
Import ListNotations.
Local Open Scope N_scope.

(* "-1E+40", "0.000", "12.345", "1.2345E-7", "0.0000012345", "1.23E+4" *)
Lemma format_g_examples :
  format_g (mkDec true 1 40) = [45; 49; 69; 43; 52; 48] /\
  format_g (mkDec false 0 (-3)) = [48; 46; 48; 48; 48] /\
  format_g (mkDec false 12345 (-3)) = [49; 50; 46; 51; 52; 53] /\
  format_g (mkDec false 12345 (-11)) = [49; 46; 50; 51; 52; 53; 69; 45; 55] /\
  format_g (mkDec false 12345 (-10)) = [48; 46; 48; 48; 48; 48; 48; 49; 50; 51; 52; 53] /\
  format_g (mkDec false 123 2) = [49; 46; 50; 51; 69; 43; 52].
Proof. vm_compute. repeat split. Qed.

(* a float without fraction or exponent gets a "." ("5."), an int does not *)
Lemma export_num_examples :
  export_num (mkNum KFloat (mkDec false 5 0)) = [53; 46] /\
  export_num (mkNum KInt (mkDec false 5 0)) = [53] /\
  reread_same (mkNum KFloat (mkDec false 5 0)) = true /\
  reread_same (mkNum KInt (mkDec false 5 0)) = true /\
  reread_same (mkNum KFloat (mkDec true 1 40)) = true /\
  reread_same (mkNum KFloat (mkDec false 12345 (-11))) = true /\
  reread_same (mkNum KFloat (mkDec false 0 (-3))) = true.
Proof. vm_compute. repeat split. Qed.

(* An int whose decimal carries a positive exponent (10^36 * 10 evaluates to the int
   1000000000000000000000000000000000 * 10^4, value exact) is printed in E notation, which
   is read back as a FLOAT: printing and reading does not give the same number. *)
Lemma reread_int_refuted :
  dmul (mkDec false (10 ^ 36) 0) (mkDec false 10 0) = mkDec false (10 ^ 33) 4 /\
  reread_same (mkNum KInt (mkDec false (10 ^ 33) 4)) = false /\
  lit_parse (export_num (mkNum KInt (mkDec false (10 ^ 33) 4))) = LNum (mkNum KFloat (mkDec false (10 ^ 33) 4)).
Proof. vm_compute. repeat split. Qed.
