(* C06 - executable model of the numeric builtins of pkg/math that return integers or
   decide divisibility, as the builtin call reaches them with a number argument
   (apd.Decimal, Finite form):

     /repo/pkg/math/manual.go   Floor, Ceil, Trunc, Round, MultipleOf, toInt
     /repo/pkg/math/math.go     Abs
     /repo/internal/core/convert/go.go  fromGoValue, case apdDecimal (kind of a decimal
                                 result: int iff RoundToIntegralExact is exact) and *big.Int
     apd/decimal.go   Modf
     apd/context.go   Floor, Ceil (Modf, then Sub/Add of 1 AT THE CONTEXT PRECISION 34),
                      Quantize(d, d, 0) (more than 34 digits => d = NaN, whose coefficient is 0),
                      RoundToIntegralExact (quantize to exponent 0 with the rounding mode
                      of the context: RoundDown for Trunc, RoundHalfUp for Round), Abs

   The conditions these calls return are not trapped (Inexact, Rounded) and the error
   of Quantize is discarded by manual.go, so the only error is the zero divisor of
   MultipleOf.  No proofs in this file. *)
From Coq Require Import NArith ZArith Bool List.
From Verif Require Import Num.Decimal.
Import ListNotations.
Local Open Scope N_scope.

(* Decimal.Modf: (integ, frac) *)
Definition modf (d : dec) : dec * dec :=
  if (0 <? exp d)%Z then (d, mkDec (neg d) 0 0)
  else
    let n := digits (coeff d) in
    let e := Z.to_N (- exp d) in
    if n <? e then (mkDec (neg d) 0 0, d)
    else
      let p := pow10 e in
      (mkDec (neg d) (coeff d / p) 0, mkDec (neg d) (coeff d mod p) (exp d)).

Definition dec_one : dec := mkDec false 1 0.

(* Context.Floor / Context.Ceil on internal.BaseContext *)
Definition ctx_floor (d : dec) : dec :=
  let '(i, f) := modf d in
  if (sign f <? 0)%Z then dsub i dec_one else i.

Definition ctx_ceil (d : dec) : dec :=
  let '(i, f) := modf d in
  if (0 <? sign f)%Z then dadd i dec_one else i.

(* internal.BaseContext.Quantize(&d, &d, 0), error discarded: quantize, then
   NumDigits > Precision => d.Set(decimalNaN) (coefficient 0, not negative) *)
Definition quantize0 (d : dec) : dec :=
  let r := to_integral d in
  if prec <? digits (coeff r) then mkDec false 0 0 else r.

(* manual.go toInt: the coefficient with the sign; the exponent is discarded *)
Definition to_int (d : dec) : Z :=
  if neg d then (- Z.of_N (coeff d))%Z else Z.of_N (coeff d).

Definition math_floor (d : dec) : Z := to_int (quantize0 (ctx_floor d)).
Definition math_ceil (d : dec) : Z := to_int (quantize0 (ctx_ceil d)).

(* quantize(d, x, 0) with Rounding = RoundDown: the discarded digits are dropped *)
Definition to_integral_down (x : dec) : dec :=
  if (0 <=? exp x)%Z then mkDec (neg x) (coeff x * pow10 (Z.to_N (exp x))) 0
  else mkDec (neg x) (coeff x / pow10 (Z.to_N (- exp x))) 0.

Definition math_trunc (d : dec) : Z := to_int (to_integral_down d).
(* roundUpContext = RoundHalfUp, the rounding of Decimal.to_integral *)
Definition math_round (d : dec) : Z := to_int (to_integral d).

(* math.Abs + convert: the result is rounded to 34 digits; it is an int, rewritten at
   exponent 0, iff it is integral *)
Definition math_abs (d : dec) : num :=
  let r := round34 (mkDec false (coeff d) (exp d)) in
  let '(t, inexact) := to_integral_flag r in
  if inexact then mkNum KFloat r else mkNum KInt t.

(* MultipleOf: Quo at precision 34, then "the fractional part is zero" *)
Definition math_multiple_of (x y : dec) : result bool :=
  if is_zero y then Err
  else Ok (is_zero (snd (modf (dquo x y)))).

(* ------------------------------------------------------------------ *)
(* Specification layer: the mathematical functions on sc d * 10^exp d. *)

Definition zsc (d : dec) : Z := if neg d then (- Z.of_N (coeff d))%Z else Z.of_N (coeff d).

(* numerator and (positive) denominator of the value *)
Definition vnum (d : dec) : Z := if (0 <=? exp d)%Z then (zsc d * 10 ^ exp d)%Z else zsc d.
Definition vden (d : dec) : Z := if (0 <=? exp d)%Z then 1%Z else (10 ^ (- exp d))%Z.

Definition spec_floor (d : dec) : Z := (vnum d / vden d)%Z.
Definition spec_ceil (d : dec) : Z := (- ((- vnum d) / vden d))%Z.
Definition spec_trunc (d : dec) : Z := Z.quot (vnum d) (vden d).
(* nearest integer, ties away from zero: sgn * floor((2|n| + den) / (2 den)) *)
Definition spec_round (d : dec) : Z :=
  (Z.sgn (vnum d) * ((2 * Z.abs (vnum d) + vden d) / (2 * vden d)))%Z.
(* y divides x: x*10^ex = k * y*10^ey for an integer k *)
Definition spec_multiple_of (x y : dec) : bool :=
  let '(a, b, _) := upscale x y in
  (b =? 0) && (a =? 0) || negb (b =? 0) && (a mod b =? 0).

Inductive math_fn := MFloor | MCeil | MTrunc | MRound.

Definition math_int (f : math_fn) (d : dec) : Z :=
  match f with
  | MFloor => math_floor d | MCeil => math_ceil d
  | MTrunc => math_trunc d | MRound => math_round d
  end.

Definition spec_int (f : math_fn) (d : dec) : Z :=
  match f with
  | MFloor => spec_floor d | MCeil => spec_ceil d
  | MTrunc => spec_trunc d | MRound => spec_round d
  end.
