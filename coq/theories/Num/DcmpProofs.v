(* C06 - Decimal.Cmp computes the order of the denoted rationals. *)
From Coq Require Import NArith ZArith QArith Qabs Bool Lia ZifyN ZifyBool.
From Verif Require Import Base.Order Num.Decimal Num.DigitsProofs Num.DVal Num.RoundProofs Num.ArithProofs.
Local Open Scope Q_scope.

Lemma p10_le_mono : forall a b, (a <= b)%Z -> p10 a <= p10 b.
Proof.
  intros a b H. replace b with (a + (b - a))%Z by lia. rewrite p10_add.
  rewrite <- (Qmult_1_r (p10 a)) at 1. apply Qmult_le_l. apply p10_pos.
  rewrite p10_nonneg_Z by lia. change 1 with (inject_Z 1). rewrite <- Zle_Qle.
  pose proof (Z.pow_pos_nonneg 10 (b - a)). lia.
Qed.

Lemma Qcompare_opp : forall a b, (- a ?= - b) = CompOpp (a ?= b).
Proof.
  intros a b. destruct (Qcompare_spec a b) as [E|L|G]; simpl.
  - apply Qeq_alt. rewrite E. reflexivity.
  - apply Qgt_alt. apply Qopp_lt_compat. exact L.
  - apply Qlt_alt. apply Qopp_lt_compat. exact G.
Qed.

(* comparison of magnitudes as Decimal.Cmp does it once the signs agree *)
Definition abs_cmp (d x : dec) : comparison :=
  if (exp d =? exp x)%Z then (coeff d ?= coeff x)%N
  else
    let dn := (Z.of_N (digits (coeff d)) + exp d)%Z in
    let xn := (Z.of_N (digits (coeff x)) + exp x)%Z in
    match (dn ?= xn)%Z with
    | Lt => Lt
    | Gt => Gt
    | Eq =>
      if (exp d <? exp x)%Z
      then (coeff d ?= coeff x * pow10 (Z.to_N (exp x - exp d)))%N
      else (coeff d * pow10 (Z.to_N (exp d - exp x)) ?= coeff x)%N
    end.

Definition mag (d : dec) : Q := mkv (Z.of_N (coeff d)) (exp d).

Lemma mag_upper : forall d, mag d < p10 (Z.of_N (digits (coeff d)) + exp d).
Proof.
  intros d. unfold mag. rewrite Z.add_comm, <- mkv_pow. apply mkv_lt.
  pose proof (digits_upper (coeff d)). lia.
Qed.

Lemma mag_lower : forall d, coeff d <> 0%N -> p10 (Z.of_N (digits (coeff d)) + exp d - 1) <= mag d.
Proof.
  intros d H. unfold mag.
  replace (Z.of_N (digits (coeff d)) + exp d - 1)%Z with (exp d + Z.of_N (digits (coeff d) - 1))%Z
    by (pose proof (digits_pos (coeff d)); lia).
  rewrite <- mkv_pow. apply mkv_le.
  pose proof (digits_lower (coeff d) ltac:(lia)). lia.
Qed.

Lemma abs_cmp_spec : forall d x, coeff d <> 0%N -> coeff x <> 0%N ->
  abs_cmp d x = (mag d ?= mag x).
Proof.
  intros d x Hd Hx. unfold abs_cmp.
  destruct (Z.eqb_spec (exp d) (exp x)) as [E|NE].
  - unfold mag. rewrite E, mkv_compare, N2Z.inj_compare. reflexivity.
  - cbv zeta.
    destruct (Z.compare_spec (Z.of_N (digits (coeff d)) + exp d) (Z.of_N (digits (coeff x)) + exp x)) as [E|L|G].
    + destruct (Z.ltb_spec (exp d) (exp x)) as [L|L]; unfold mag.
      * rewrite <- (mkv_shift (Z.of_N (coeff x)) (exp x) (exp x - exp d)) by lia.
        replace (exp x - (exp x - exp d))%Z with (exp d) by lia. rewrite mkv_compare.
        rewrite <- N2Z.inj_compare, N2Z.inj_mul. unfold pow10. rewrite N2Z.inj_pow, Z2N.id by lia. reflexivity.
      * rewrite <- (mkv_shift (Z.of_N (coeff d)) (exp d) (exp d - exp x)) by lia.
        replace (exp d - (exp d - exp x))%Z with (exp x) by lia. rewrite mkv_compare.
        rewrite <- N2Z.inj_compare, N2Z.inj_mul. unfold pow10. rewrite N2Z.inj_pow, Z2N.id by lia. reflexivity.
    + symmetry. apply Qlt_alt.
      apply Qlt_le_trans with (p10 (Z.of_N (digits (coeff d)) + exp d)). apply mag_upper.
      apply Qle_trans with (p10 (Z.of_N (digits (coeff x)) + exp x - 1)). apply p10_le_mono; lia.
      apply mag_lower; assumption.
    + symmetry. apply Qgt_alt.
      apply Qlt_le_trans with (p10 (Z.of_N (digits (coeff x)) + exp x)). apply mag_upper.
      apply Qle_trans with (p10 (Z.of_N (digits (coeff d)) + exp d - 1)). apply p10_le_mono; lia.
      apply mag_lower; assumption.
Qed.

Lemma dval_mag : forall d, dval d == if neg d then - mag d else mag d.
Proof.
  intros d. rewrite dval_sg. unfold mag. destruct (neg d); simpl.
  - rewrite mkv_opp. reflexivity.
  - reflexivity.
Qed.

Lemma mag_pos : forall d, coeff d <> 0%N -> 0 < mag d.
Proof. intros d H. unfold mag. rewrite <- (mkv_0 (exp d)). apply mkv_lt. lia. Qed.

Lemma dcmp_abs : forall d x,
  coeff d <> 0%N -> coeff x <> 0%N -> neg d = neg x ->
  dcmp d x = flip (neg d) (abs_cmp d x).
Proof.
  intros d x Hd Hx N. unfold dcmp, sign, abs_cmp.
  destruct (N.eqb_spec (coeff d) 0); [contradiction|].
  destruct (N.eqb_spec (coeff x) 0); [contradiction|].
  rewrite <- N. destruct (neg d); simpl.
  - destruct (exp d =? exp x)%Z; [reflexivity|].
    destruct ((Z.of_N (digits (coeff d)) + exp d ?= Z.of_N (digits (coeff x)) + exp x)%Z); try reflexivity;
      destruct (exp d <? exp x)%Z; reflexivity.
  - destruct (exp d =? exp x)%Z; [reflexivity|].
    destruct ((Z.of_N (digits (coeff d)) + exp d ?= Z.of_N (digits (coeff x)) + exp x)%Z); try reflexivity;
      destruct (exp d <? exp x)%Z; reflexivity.
Qed.

Theorem dcmp_spec : forall d x, dcmp d x = (dval d ?= dval x).
Proof.
  intros d x.
  destruct (N.eq_dec (coeff d) 0) as [Zd|Nd]; destruct (N.eq_dec (coeff x) 0) as [Zx|Nx].
  - (* both zero *)
    unfold dcmp, sign. rewrite Zd, Zx. simpl. symmetry. apply Qeq_alt.
    rewrite (dval_zero d Zd), (dval_zero x Zx). reflexivity.
  - unfold dcmp, sign. rewrite Zd. destruct (N.eqb_spec (coeff x) 0); [contradiction|].
    rewrite (dval_zero d Zd), (dval_mag x). pose proof (mag_pos x Nx) as P. simpl.
    destruct (neg x); simpl; symmetry.
    + apply Qgt_alt. apply Qopp_lt_compat in P. exact P.
    + apply Qlt_alt. exact P.
  - unfold dcmp, sign. rewrite Zx. destruct (N.eqb_spec (coeff d) 0); [contradiction|].
    rewrite (dval_zero x Zx), (dval_mag d). pose proof (mag_pos d Nd) as P. simpl.
    destruct (neg d); simpl; symmetry.
    + apply Qlt_alt. apply Qopp_lt_compat in P. exact P.
    + apply Qgt_alt. exact P.
  - destruct (Bool.bool_dec (neg d) (neg x)) as [SN|DN].
    + rewrite (dcmp_abs d x Nd Nx SN), (abs_cmp_spec d x Nd Nx).
      rewrite (dval_mag d), (dval_mag x), <- SN. destruct (neg d); simpl.
      * rewrite Qcompare_opp. reflexivity.
      * reflexivity.
    + unfold dcmp, sign.
      destruct (N.eqb_spec (coeff d) 0); [contradiction|].
      destruct (N.eqb_spec (coeff x) 0); [contradiction|].
      rewrite (dval_mag d), (dval_mag x).
      pose proof (mag_pos d Nd) as Pd. pose proof (mag_pos x Nx) as Px.
      destruct (neg d), (neg x); try congruence; simpl; symmetry.
      * apply Qlt_alt. apply Qlt_trans with 0; [|exact Px]. apply Qopp_lt_compat in Pd. exact Pd.
      * apply Qgt_alt. apply Qlt_trans with 0; [|exact Pd]. apply Qopp_lt_compat in Px. exact Px.
Qed.

(* consequences: a total preorder on representations, a total order on values *)

Theorem dcmp_refl : forall d, dcmp d d = Eq.
Proof. intros. rewrite dcmp_spec. apply Qeq_alt. reflexivity. Qed.

Theorem dcmp_eq_iff : forall d x, dcmp d x = Eq <-> dval d == dval x.
Proof. intros. rewrite dcmp_spec. symmetry. apply Qeq_alt. Qed.

Theorem dcmp_lt_iff : forall d x, dcmp d x = Lt <-> dval d < dval x.
Proof. intros. rewrite dcmp_spec. symmetry. apply Qlt_alt. Qed.

Theorem dcmp_gt_iff : forall d x, dcmp d x = Gt <-> dval x < dval d.
Proof. intros. rewrite dcmp_spec. symmetry. apply Qgt_alt. Qed.

Theorem dcmp_opp : forall d x, dcmp d x = CompOpp (dcmp x d).
Proof. intros. rewrite !dcmp_spec. symmetry. apply Qcompare_antisym. Qed.

Theorem dcmp_trans : forall a b c, dcmp a b = Lt -> dcmp b c = Lt -> dcmp a c = Lt.
Proof. intros a b c. rewrite !dcmp_lt_iff. apply Qlt_trans. Qed.

Theorem dcmp_eq_l : forall a b c, dcmp a b = Eq -> dcmp a c = dcmp b c.
Proof. intros a b c H. apply dcmp_eq_iff in H. rewrite !dcmp_spec. rewrite H. reflexivity. Qed.

Theorem dcmp_total_pre : total_pre dcmp.
Proof.
  constructor.
  - apply dcmp_refl.
  - apply dcmp_opp.
  - apply dcmp_trans.
  - apply dcmp_eq_l.
Qed.

(* the six operators on numbers decide the six relations between the values,
   whatever the kinds (int/float) of the operands *)
Theorem num_cmp_spec : forall x y,
  (num_cmp CLt x y = true <-> dval (nd x) < dval (nd y)) /\
  (num_cmp CLe x y = true <-> dval (nd x) <= dval (nd y)) /\
  (num_cmp CEq x y = true <-> dval (nd x) == dval (nd y)) /\
  (num_cmp CNe x y = true <-> ~ dval (nd x) == dval (nd y)) /\
  (num_cmp CGe x y = true <-> dval (nd y) <= dval (nd x)) /\
  (num_cmp CGt x y = true <-> dval (nd y) < dval (nd x)).
Proof.
  intros x y. unfold num_cmp. rewrite dcmp_spec.
  destruct (Qcompare_spec (dval (nd x)) (dval (nd y))) as [E|L|G]; simpl.
  - repeat split; intros; try discriminate; try reflexivity; try (rewrite E; apply Qle_refl);
      try (rewrite E in *; exfalso; eapply Qlt_irrefl; eassumption); try assumption.
    exfalso; apply H; assumption.
  - pose proof (Qlt_not_eq _ _ L) as NE. pose proof (Qlt_le_weak _ _ L) as LE.
    repeat split; intros; try discriminate; try reflexivity; try assumption.
    + exfalso. apply NE. assumption.
    + exfalso. apply (Qlt_irrefl (dval (nd x))). eapply Qlt_le_trans; eassumption.
    + exfalso. apply (Qlt_irrefl (dval (nd x))). eapply Qlt_trans; eassumption.
  - pose proof (Qlt_le_weak _ _ G) as LE.
    assert (~ dval (nd x) == dval (nd y)) as NE by (intro E; rewrite E in G; apply (Qlt_irrefl _ G)).
    repeat split; intros; try discriminate; try reflexivity; try assumption.
    + exfalso. apply (Qlt_irrefl (dval (nd x))). eapply Qlt_trans; eassumption.
    + exfalso. apply (Qlt_irrefl (dval (nd y))). eapply Qlt_le_trans; eassumption.
    + exfalso. apply NE. assumption.
Qed.
