(* C06 - Add, Sub, Mul at precision 34: exact value of the unrounded result, error
   bounds of the rounded one, exactness when the result fits, and the refutation of
   unconditional exactness. *)
From Coq Require Import NArith ZArith QArith Qabs Bool Lia ZifyN ZifyBool.
From Verif Require Import Num.Decimal Num.DigitsProofs Num.DVal Num.RoundProofs.
Local Open Scope Q_scope.

Lemma dval_sg : forall d, dval d = mkv (sg (neg d) (Z.of_N (coeff d))) (exp d).
Proof. reflexivity. Qed.

Lemma upscale_val : forall a b x y s,
  upscale a b = (x, y, s) ->
  dval a == mkv (sg (neg a) (Z.of_N x)) s /\ dval b == mkv (sg (neg b) (Z.of_N y)) s.
Proof.
  intros a b x y s H. unfold upscale in H.
  destruct (Z.compare_spec (exp a) (exp b)) as [E|L|G]; inversion H; subst; clear H.
  - rewrite !dval_sg, E. split; reflexivity.
  - rewrite !dval_sg. split; [reflexivity|].
    replace (exp b) with (exp a + (exp b - exp a))%Z at 1 by lia.
    rewrite mkv_shift' by lia. rewrite sg_mul. apply mkv_eq. f_equal.
    rewrite N2Z.inj_mul. unfold pow10. rewrite N2Z.inj_pow, Z2N.id by lia. reflexivity.
  - rewrite !dval_sg. split; [|reflexivity].
    replace (exp a) with (exp b + (exp a - exp b))%Z at 1 by lia.
    rewrite mkv_shift' by lia. rewrite sg_mul. apply mkv_eq. f_equal.
    rewrite N2Z.inj_mul. unfold pow10. rewrite N2Z.inj_pow, Z2N.id by lia. reflexivity.
Qed.

Lemma add_exact_gen_val : forall sub x y,
  dval (add_exact_gen sub x y) == dval x + (if sub then - dval y else dval y).
Proof.
  intros sub x y. unfold add_exact_gen.
  destruct (upscale x y) as [[a b] s] eqn:U.
  destruct (upscale_val _ _ _ _ _ U) as [Hx Hy].
  assert (dval x + (if sub then - dval y else dval y)
          == mkv (sg (neg x) (Z.of_N a)) s + mkv (sg (xorb (neg y) sub) (Z.of_N b)) s) as ->.
  { destruct sub.
    - rewrite Hx, Hy, mkv_opp. apply Qplus_comp; [reflexivity|]. apply mkv_eq.
      destruct (neg y); simpl; lia.
    - rewrite Hx, Hy, xorb_false_r. reflexivity. }
  rewrite mkv_add.
  destruct (Bool.eqb (neg x) (xorb (neg y) sub)) eqn:EQ.
  - apply eqb_prop in EQ. rewrite <- EQ. rewrite dval_sg. simpl. apply mkv_eq.
    destruct (neg x); simpl; lia.
  - apply eqb_false_iff in EQ.
    assert (xorb (neg y) sub = negb (neg x)) as -> by (destruct (neg x), (xorb (neg y) sub); simpl; congruence).
    destruct (N.compare_spec a b) as [E|L|G]; rewrite dval_sg; simpl; apply mkv_eq;
      destruct (neg x); simpl; lia.
Qed.

Theorem add_exact_val : forall x y, dval (add_exact x y) == dval x + dval y.
Proof. intros. unfold add_exact. rewrite add_exact_gen_val. reflexivity. Qed.

Theorem sub_exact_val : forall x y, dval (sub_exact x y) == dval x - dval y.
Proof. intros. unfold sub_exact. rewrite add_exact_gen_val. reflexivity. Qed.

Theorem mul_exact_val : forall x y, dval (mul_exact x y) == dval x * dval y.
Proof.
  intros. unfold mul_exact. rewrite !dval_sg. simpl. rewrite mkv_mul. apply mkv_eq.
  rewrite N2Z.inj_mul. destruct (neg x), (neg y); simpl; lia.
Qed.

Theorem dneg_val : forall x, dval (dneg x) == - dval x.
Proof.
  intros. unfold dneg, is_zero. rewrite !dval_sg, mkv_opp.
  destruct (N.eqb_spec (coeff x) 0) as [E|NE]; simpl; apply mkv_eq.
  - rewrite E. destruct (neg x); reflexivity.
  - destruct (neg x); simpl; lia.
Qed.

(* ---- the rounded operations, generically ---- *)

Section Rounded.
  Variable exact : dec -> dec -> dec.
  Variable op : Q -> Q -> Q.
  Hypothesis exact_val : forall x y, dval (exact x y) == op (dval x) (dval y).
  Let rop x y := round34 (exact x y).

  Lemma rop_digits : forall x y, (digits (coeff (rop x y)) <= 34)%N.
  Proof. intros. apply round_digits. unfold prec. lia. Qed.

  Lemma rop_exact_when_fits : forall x y,
    (digits (coeff (exact x y)) <= 34)%N -> dval (rop x y) == op (dval x) (dval y).
  Proof. intros x y H. unfold rop, round34. rewrite round_small by exact H. apply exact_val. Qed.

  (* correctly rounded: within half a unit of the 34th digit of the exact result,
     a multiple of that unit, ties away from zero *)
  Lemma rop_correctly_rounded : forall x y,
    (34 < digits (coeff (exact x y)))%N ->
    let u := ulp 34 (exact x y) in
    2 * Qabs (dval (rop x y) - op (dval x) (dval y)) <= u /\
    (exists k : Z, dval (rop x y) == inject_Z k * u) /\
    (2 * Qabs (dval (rop x y) - op (dval x) (dval y)) == u ->
       Qabs (op (dval x) (dval y)) < Qabs (dval (rop x y))).
  Proof.
    intros x y G u. unfold rop, round34, prec. rewrite <- exact_val. split; [|split].
    - apply round_error. exact G.
    - apply round_multiple. exact G.
    - apply round_tie_away. exact G.
  Qed.

  (* relative error bound, independent of the representation *)
  Lemma rop_relative_error : forall x y,
    2 * Qabs (dval (rop x y) - op (dval x) (dval y)) * p10 33 <= Qabs (op (dval x) (dval y)).
  Proof.
    intros. unfold rop, round34, prec. rewrite <- exact_val.
    apply (round_relative 34). lia.
  Qed.

  Lemma rop_exact_iff : forall x y,
    snd (round_flag 34 (exact x y)) = false <-> dval (rop x y) == op (dval x) (dval y).
  Proof. intros. unfold rop, round34, prec. rewrite <- exact_val. apply round_exact_iff. Qed.
End Rounded.

(* ---- refutation of unconditional exactness: 10^36 + 1 ---- *)

Definition int_lit (n : N) : num := mkNum KInt (mkDec false n 0).

Lemma num_op_add_refuted :
  exists a b r, num_op OpAdd (int_lit a) (int_lit b) = Ok r /\ nk r = KInt /\
                ~ dval (nd r) == dval (nd (int_lit a)) + dval (nd (int_lit b)).
Proof.
  exists (10 ^ 36)%N, 1%N. eexists. split; [reflexivity|]. split; [reflexivity|].
  rewrite <- add_exact_val. intro H.
  apply Qeq_alt in H. vm_compute in H. discriminate H.
Qed.

Lemma num_op_mul_refuted :
  exists a b r, num_op OpMul (int_lit a) (int_lit b) = Ok r /\ nk r = KInt /\
                ~ dval (nd r) == dval (nd (int_lit a)) * dval (nd (int_lit b)).
Proof.
  exists (10 ^ 18 + 1)%N, (10 ^ 18 + 1)%N. eexists. split; [reflexivity|]. split; [reflexivity|].
  rewrite <- mul_exact_val. intro H.
  apply Qeq_alt in H. vm_compute in H. discriminate H.
Qed.

(* ---- integers: exact, and still an integer representation, below 10^34 ---- *)

Lemma add_exact_gen_exp : forall sub x y, exp (add_exact_gen sub x y) = Z.min (exp x) (exp y).
Proof.
  intros. unfold add_exact_gen. destruct (upscale x y) as [[a b] s] eqn:U.
  assert (s = Z.min (exp x) (exp y)) as ->.
  { unfold upscale in U. destruct (Z.compare_spec (exp x) (exp y)); inversion U; lia. }
  destruct (Bool.eqb (neg x) (xorb (neg y) sub)); [reflexivity|].
  destruct (a ?= b)%N; reflexivity.
Qed.

Lemma sc_of_int_dval : forall d, exp d = 0%Z -> dval d == inject_Z (sc d).
Proof. intros d H. unfold dval, mkv. rewrite H. unfold p10. simpl. ring. Qed.

Lemma int_addsub_exact_when : forall (sub : bool) (x y : dec),
  exp x = 0%Z -> exp y = 0%Z ->
  (Z.abs (sc x + (if sub then - sc y else sc y)) < 10 ^ 34)%Z ->
  round34 (add_exact_gen sub x y) = add_exact_gen sub x y /\
  exp (round34 (add_exact_gen sub x y)) = 0%Z /\
  sc (round34 (add_exact_gen sub x y)) = (sc x + (if sub then - sc y else sc y))%Z.
Proof.
  intros sub x y Ex Ey B.
  assert (exp (add_exact_gen sub x y) = 0%Z) as E0 by (rewrite add_exact_gen_exp; lia).
  assert (sc (add_exact_gen sub x y) = (sc x + (if sub then - sc y else sc y))%Z) as SC.
  { apply (mkv_eq _ _ 0). pose proof (add_exact_gen_val sub x y) as V.
    unfold dval in V. rewrite E0, Ex, Ey in V. rewrite V.
    destruct sub; [rewrite mkv_opp|]; rewrite mkv_add; reflexivity. }
  assert (round34 (add_exact_gen sub x y) = add_exact_gen sub x y) as R.
  { apply round_small. apply digits_le_iff; [unfold prec; lia|].
    pose proof (sc_abs (add_exact_gen sub x y)) as A. rewrite SC in A.
    unfold prec, pow10. lia. }
  rewrite R. auto.
Qed.

Theorem int_add_exact_when : forall x y,
  exp x = 0%Z -> exp y = 0%Z -> (Z.abs (sc x + sc y) < 10 ^ 34)%Z ->
  exp (dadd x y) = 0%Z /\ sc (dadd x y) = (sc x + sc y)%Z.
Proof. intros x y Ex Ey B. apply (int_addsub_exact_when false x y Ex Ey B). Qed.

Theorem int_sub_exact_when : forall x y,
  exp x = 0%Z -> exp y = 0%Z -> (Z.abs (sc x - sc y) < 10 ^ 34)%Z ->
  exp (dsub x y) = 0%Z /\ sc (dsub x y) = (sc x - sc y)%Z.
Proof. intros x y Ex Ey B. apply (int_addsub_exact_when true x y Ex Ey B). Qed.

Theorem int_mul_exact_when : forall x y,
  exp x = 0%Z -> exp y = 0%Z -> (Z.abs (sc x * sc y) < 10 ^ 34)%Z ->
  exp (dmul x y) = 0%Z /\ sc (dmul x y) = (sc x * sc y)%Z.
Proof.
  intros x y Ex Ey B.
  assert (sc (mul_exact x y) = (sc x * sc y)%Z) as SC.
  { unfold mul_exact, sc. simpl. rewrite N2Z.inj_mul. destruct (neg x), (neg y); simpl; lia. }
  assert (round34 (mul_exact x y) = mul_exact x y) as R.
  { apply round_small. apply digits_le_iff; [unfold prec; lia|].
    pose proof (sc_abs (mul_exact x y)) as A. rewrite SC in A. unfold prec, pow10. lia. }
  unfold dmul. rewrite R. split; [simpl; lia | exact SC].
Qed.

(* kind of the result (numOp): int exactly when both operands are int, never for Quo *)
Theorem num_op_kind : forall op x y r,
  num_op op x y = Ok r ->
  nk r = match op with
         | OpQuo => KFloat
         | _ => match nk x, nk y with KInt, KInt => KInt | _, _ => KFloat end
         end.
Proof.
  intros op x y r H. destruct op; simpl in H.
  1-3: inversion H; subst; reflexivity.
  destruct (is_zero (nd y)); inversion H; reflexivity.
Qed.

Theorem num_quo_zero_divisor : forall x y, coeff (nd y) = 0%N -> num_op OpQuo x y = Err.
Proof. intros x y H. simpl. unfold is_zero. rewrite H. reflexivity. Qed.

Theorem num_op_total : forall op x y,
  num_op op x y = Err <-> (op = OpQuo /\ coeff (nd y) = 0%N).
Proof.
  intros op x y. destruct op; simpl; unfold is_zero.
  1-3: split; [discriminate | intros [H _]; discriminate].
  destruct (N.eqb_spec (coeff (nd y)) 0); split; auto; try discriminate.
  intros [_ H]. contradiction.
Qed.
