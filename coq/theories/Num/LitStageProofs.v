(* C06 - literal.ParseNum on the grammar: the labels of scanNumber (exit, exponent, fraction)
   and the three ways a literal can start. *)
From Coq Require Import NArith ZArith List Bool Lia ZifyN ZifyBool.
From Verif Require Import Num.Decimal Num.NumLit Num.NumLitGrammar Num.ScanProofs.
Import ListNotations.
Local Open Scope N_scope.

Lemma after_nil : forall rb e, after [] rb e = mkSt [] 0 rb e.
Proof. reflexivity. Qed.

Lemma after_cons : forall c r rb, c <> 0 -> after (c :: r) rb false = mkSt r c (on_read c rb) false.
Proof.
  intros c r rb H. unfold after, next. cbn [s_src s_rbuf s_err].
  replace (c =? 0) with false by (symmetry; apply N.eqb_neq; exact H). reflexivity.
Qed.

Lemma after_ch_stops : forall base rest rb e, base <= 16 -> stops base rest ->
  base <= digit_val (s_ch (after rest rb e)).
Proof.
  intros base rest rb e Hb H. destruct rest as [|c r]; unfold after, next; cbn [s_src s_ch].
  - change (digit_val 0) with 16. exact Hb.
  - exact H.
Qed.

(* decimal digits *)
Lemma dec_digit_range : forall c, is_base_digit 10 c = true -> 48 <= c <= 57.
Proof.
  intros c H. unfold is_base_digit in H. apply andb_prop in H. destruct H as [A B].
  apply N.ltb_lt in A. apply negb_true_iff in B. apply N.eqb_neq in B.
  unfold digit_val, c_us in *.
  destruct (N.leb_spec 48 c); destruct (N.leb_spec c 57); simpl in A; try lia;
  destruct (N.eqb_spec c 95); try lia;
  destruct (N.leb_spec 97 c); destruct (N.leb_spec c 102); simpl in A; try lia;
  destruct (N.leb_spec 65 c); destruct (N.leb_spec c 70); simpl in A; lia.
Qed.

Lemma dec_digit_is_digit : forall c, is_base_digit 10 c = true -> is_digit c = true.
Proof. intros c H. apply dec_digit_range in H. unfold is_digit. lia. Qed.

Lemma ds_head_range : forall d, ds_ok 10 d = true -> 48 <= ds_head d <= 57.
Proof. intros d H. unfold ds_ok in H. apply andb_prop in H. apply dec_digit_range. apply H. Qed.

Lemma next_mk : forall c r ch rb e,
  next (mkSt (c :: r) ch rb e) = mkSt r c (on_read c rb) (e || (c =? 0)).
Proof. reflexivity. Qed.

Lemma push_mk : forall c src ch rb e, push c (mkSt src ch rb e) = mkSt src ch (c :: rb) e.
Proof. reflexivity. Qed.

(* ---- label exit / exponent ---- *)

Lemma sn_exit_end : forall rb base fl,
  sn_exit (after [] rb false) base fl = Some (after [] rb false, base, None, fl).
Proof. reflexivity. Qed.

Lemma sn_exponent_end : forall chk rb fl,
  sn_exponent chk (after [] rb false) fl = Some (after [] rb false, 10, None, fl).
Proof. reflexivity. Qed.

Lemma sn_exponent_expo : forall chk u s ds rb fl,
  ds_ok 10 ds = true ->
  sn_exponent chk (after (expo_render (Some (mkExpo u s ds))) rb false) fl =
    Some (after [] (rev (ds_chars ds) ++ rev (sign_chars s) ++ c_e :: rb) false, 10, None, true).
Proof.
  intros chk u s ds rb fl Hok. pose proof (ds_head_range ds Hok) as HR.
  unfold expo_render.
  assert (exists ec, (if u then c_E else c_e) = ec /\ (ec = c_e \/ ec = c_E)) as (ec & -> & Hec)
    by (destruct u; eexists; split; eauto).
  rewrite after_cons by (destruct Hec; subst; discriminate).
  rewrite on_read_plain by (destruct Hec; subst; discriminate).
  unfold sn_exponent. cbn [s_ch].
  assert (mul_index ec = None) as -> by (destruct Hec; subst; reflexivity).
  assert ((ec =? c_e) || (ec =? c_E) = true) as -> by (destruct Hec; subst; reflexivity).
  destruct s as [[|]|]; cbn [sign_chars app].
  - (* '-' *)
    rewrite !next_mk. rewrite on_read_plain by discriminate. rewrite !push_mk. cbn [s_ch].
    change (c_minus =? 0) with false. change (c_minus =? c_minus) with true. cbn [orb].
    rewrite ?push_mk.
    change (next {| s_src := ds_render ds; s_ch := c_minus; s_rbuf := c_minus :: c_e :: rb; s_err := false |})
      with (after (ds_render ds) (c_minus :: c_e :: rb) false).
    rewrite <- (app_nil_r (ds_render ds)). rewrite (scan_dseq 10) by (auto; simpl; lia).
    cbn [rev app]. rewrite <- ?app_assoc. reflexivity.
  - (* '+' *)
    rewrite !next_mk. rewrite on_read_plain by discriminate. rewrite !push_mk. cbn [s_ch].
    change (c_plus =? 0) with false. change (c_plus =? c_minus) with false. change (c_plus =? c_plus) with true.
    cbn [orb]. rewrite ?push_mk.
    change (next {| s_src := ds_render ds; s_ch := c_plus; s_rbuf := c_plus :: c_e :: rb; s_err := false |})
      with (after (ds_render ds) (c_plus :: c_e :: rb) false).
    rewrite <- (app_nil_r (ds_render ds)). rewrite (scan_dseq 10) by (auto; simpl; lia).
    cbn [rev app]. rewrite <- ?app_assoc. reflexivity.
  - (* no sign *)
    unfold ds_render. rewrite !next_mk. rewrite on_read_plain by (unfold c_dot; lia).
    replace (ds_head ds =? 0) with false by (symmetry; apply N.eqb_neq; lia). cbn [orb].
    rewrite !push_mk. cbn [s_ch].
    assert ((ds_head ds =? c_minus) || (ds_head ds =? c_plus) = false) as ->.
    { unfold c_minus, c_plus. destruct (N.eqb_spec (ds_head ds) 45); destruct (N.eqb_spec (ds_head ds) 43); try lia; reflexivity. }
    assert ({| s_src := tail_render (ds_tail ds); s_ch := ds_head ds; s_rbuf := c_e :: rb; s_err := false |}
            = after (ds_render ds ++ []) (c_e :: rb) false) as ->.
    { rewrite app_nil_r. unfold ds_render. rewrite after_cons by lia.
      rewrite on_read_plain by (unfold c_dot; lia). reflexivity. }
    rewrite (scan_dseq 10) by (auto; simpl; lia). cbn [rev app]. reflexivity.
Qed.

Lemma mul_index_char : forall m, mult_ok m = true -> mul_index (mult_char m) = Some (m_idx m).
Proof.
  intros [idx bin] H. unfold mult_ok in H. simpl in H. unfold mult_char. simpl.
  assert (idx = 1 \/ idx = 2 \/ idx = 3 \/ idx = 4 \/ idx = 5) as C by lia.
  destruct C as [->|[->|[->|[->| ->]]]]; reflexivity.
Qed.

Lemma mult_char_facts : forall m, mult_ok m = true ->
  mult_char m <> 0 /\ mult_char m <> c_dot /\ mult_char m <> c_e /\ mult_char m <> c_E /\
  10 <= digit_val (mult_char m).
Proof.
  intros [idx bin] H. unfold mult_ok in H. simpl in H. unfold mult_char. simpl.
  assert (idx = 1 \/ idx = 2 \/ idx = 3 \/ idx = 4 \/ idx = 5) as C by lia.
  destruct C as [->|[->|[->|[->| ->]]]]; repeat split; try discriminate; vm_compute; discriminate.
Qed.

Lemma sn_exponent_mult : forall chk m rb fl,
  mult_ok m = true ->
  sn_exponent chk (after (mult_render m) rb false) fl =
    if chk then
      match decimal_of (mkInfo (rev rb) 10 (Some m) false) with
      | None => None
      | Some _ => Some (after [] rb false, 10, Some m, false)
      end
    else Some (after [] rb false, 10, Some m, false).
Proof.
  intros chk m rb fl Hok. destruct (mult_char_facts m Hok) as (NZ & ND & _ & _ & _).
  unfold mult_render. rewrite after_cons by exact NZ. rewrite on_read_plain by exact ND.
  unfold sn_exponent. cbn [s_ch]. rewrite (mul_index_char m Hok).
  destruct m as [idx bin]. cbn [m_bin m_idx]. destruct bin; cbn -[decimal_of]; reflexivity.
Qed.

(* ---- label fraction ---- *)

Lemma sn_fraction_dot : forall chk f rest rb fl,
  opt_ok f = true -> stops 10 rest ->
  sn_fraction chk (after (c_dot :: opt_render f ++ rest) rb false) fl =
    sn_exponent chk (after rest (rev (opt_chars f) ++ on_read c_dot rb) false) true.
Proof.
  intros chk f rest rb fl Hok Hstop. rewrite after_cons by discriminate.
  unfold sn_fraction. cbn [s_ch]. change (c_dot =? c_dot) with true.
  change (next {| s_src := opt_render f ++ rest; s_ch := c_dot; s_rbuf := on_read c_dot rb; s_err := false |})
    with (after (opt_render f ++ rest) (on_read c_dot rb) false).
  destruct f as [d|]; cbn [opt_render opt_chars opt_ok] in *.
  - rewrite (scan_dseq 10) by (auto; lia). reflexivity.
  - cbn [app rev]. rewrite scan_mantissa_stop by (apply after_ch_stops; [lia|exact Hstop]). reflexivity.
Qed.

Lemma sn_fraction_skip : forall chk s fl, s_ch s <> c_dot -> sn_fraction chk s fl = sn_exponent chk s fl.
Proof.
  intros chk s fl H. unfold sn_fraction. destruct (N.eqb_spec (s_ch s) c_dot); [contradiction|reflexivity].
Qed.
