(* C06 - literal.ParseNum on the grammar: how a literal starts (".", non-zero digit, "0"),
   and the final assembly of NumInfo. *)
From Coq Require Import NArith ZArith List Bool Lia ZifyN ZifyBool.
From Verif Require Import Num.Decimal Num.NumLit Num.NumLitGrammar Num.ScanProofs Num.LitStageProofs.
Import ListNotations.
Local Open Scope N_scope.

(* the end of ParseNum *)
Definition finish (o : option (st * N * option mult * bool)) : option numinfo :=
  match o with
  | None => None
  | Some (s4, base, m, fl) =>
    if s_err s4 then None
    else if negb (match s_src s4 with [] => true | _ => false end) then None
    else Some (mkInfo (match s_rbuf s4 with [] => [c_0] | r => rev r end) base m fl)
  end.

Lemma finish_end : forall rb base m fl,
  finish (Some (after [] rb false, base, m, fl)) =
  Some (mkInfo (match rb with [] => [c_0] | _ => rev rb end) base m fl).
Proof. intros. destruct rb; reflexivity. Qed.

Lemma parse_start_digit : forall chk h r, 48 <= h <= 57 ->
  parse_num_gen chk (h :: r) = finish (scan_number chk (after (h :: r) [] false) false).
Proof.
  intros chk h r H. unfold parse_num_gen.
  change (next {| s_src := h :: r; s_ch := 0; s_rbuf := []; s_err := false |}) with (after (h :: r) [] false).
  rewrite after_cons by lia. rewrite on_read_plain by (unfold c_dot; lia). cbn [s_ch].
  assert (h =? c_minus = false) as -> by (apply N.eqb_neq; unfold c_minus; lia).
  assert (h =? c_plus = false) as -> by (apply N.eqb_neq; unfold c_plus; lia).
  cbn [s_ch].
  assert (h =? c_dot = false) as -> by (apply N.eqb_neq; unfold c_dot; lia).
  unfold finish. reflexivity.
Qed.

Lemma parse_start_point : forall chk r,
  parse_num_gen chk (c_dot :: r) = finish (scan_number chk (after r [c_dot; c_0] false) true).
Proof. intros. unfold parse_num_gen, finish. reflexivity. Qed.

(* the bytes of the integer part that reach buf *)
Definition pre_int (d : dseq) : list N :=
  if ds_head d =? c_0 then map snd (ds_tail d) else ds_chars d.

Definition eff_int (ip : option dseq) : list N :=
  match ip with
  | None => [c_0]
  | Some d => match pre_int d with [] => [c_0] | l => l end
  end.

Lemma on_read_dot_pre : forall d,
  on_read c_dot (rev (pre_int d)) = rev (eff_int (Some d) ++ [c_dot]).
Proof.
  intros d. unfold eff_int, on_read. change (c_dot =? c_dot) with true. cbv iota.
  destruct (pre_int d) as [|a l] eqn:E.
  - reflexivity.
  - rewrite rev_unit. destruct (rev (a :: l)) eqn:R; [|reflexivity].
    apply (f_equal (@length N)) in R. rewrite rev_length in R. discriminate R.
Qed.

(* what may follow the integer part of a float or si literal *)
Inductive cont : list N -> Prop :=
| cont_dot : forall r, cont (c_dot :: r)
| cont_e : forall r, cont (c_e :: r)
| cont_E : forall r, cont (c_E :: r).

Lemma cont_stops : forall R, cont R -> stops 10 R.
Proof. intros R H. destruct H; simpl; vm_compute; discriminate. Qed.

Lemma dec_or_us : forall c, digit_val c < 10 -> 48 <= c <= 57 \/ c = 95.
Proof.
  intros c D. unfold digit_val, c_us in D.
  destruct (N.leb_spec 48 c); destruct (N.leb_spec c 57); simpl in D; try lia;
  destruct (N.eqb_spec c 95); try lia;
  destruct (N.leb_spec 97 c); destruct (N.leb_spec c 102); simpl in D; try lia;
  destruct (N.leb_spec 65 c); destruct (N.leb_spec c 70); simpl in D; lia.
Qed.

Lemma digit_not_prefix : forall c, digit_val c < 10 ->
  (c =? 120) || (c =? 88) = false /\ (c =? 98) = false /\ (c =? 111) = false.
Proof.
  intros c D. apply dec_or_us in D.
  repeat split; try apply orb_false_intro; apply N.eqb_neq; lia.
Qed.

(* a literal starting with a non-zero digit *)
Lemma scan_number_nonzero : forall chk d R,
  ds_ok 10 d = true -> ds_head d <> c_0 -> stops 10 R ->
  scan_number chk (after (ds_render d ++ R) [] false) false =
    sn_fraction chk (after R (rev (ds_chars d)) false) false.
Proof.
  intros chk d R Hok Hnz Hstop. pose proof (ds_head_range d Hok) as HR.
  unfold scan_number.
  assert (s_ch (after (ds_render d ++ R) [] false) = ds_head d) as Hch.
  { unfold ds_render. cbn [app]. rewrite after_cons by lia. reflexivity. }
  rewrite Hch. replace (ds_head d =? c_0) with false by (symmetry; apply N.eqb_neq; exact Hnz).
  rewrite (scan_dseq 10) by (auto; lia). rewrite app_nil_r. reflexivity.
Qed.

(* a literal starting with "0" followed by '.', 'e' or 'E' (possibly after more digits) *)
Lemma scan_number_zero_cont : forall chk d R,
  ds_ok 10 d = true -> ds_head d = c_0 -> cont R ->
  scan_number chk (after (ds_render d ++ R) [] false) false =
    sn_fraction chk (after R (match R with
                              | c :: _ => if c =? c_dot then rev (pre_int d) else rev (eff_int (Some d))
                              | [] => []
                              end) false) false.
Proof.
  intros chk d R Hok Hz HC. pose proof (cont_stops R HC) as Hstop.
  unfold ds_ok in Hok. apply andb_prop in Hok. destruct Hok as [_ Ht].
  unfold scan_number, ds_render. rewrite Hz. cbn [app].
  rewrite after_cons by discriminate. rewrite on_read_plain by discriminate. cbn [s_ch].
  change (c_0 =? c_0) with true. cbv iota.
  change (next {| s_src := tail_render (ds_tail d) ++ R; s_ch := c_0; s_rbuf := []; s_err := false |})
    with (after (tail_render (ds_tail d) ++ R) [] false).
  assert (pre_int d = map snd (ds_tail d)) as HP by (unfold pre_int; rewrite Hz; reflexivity).
  destruct (ds_tail d) as [|p t] eqn:ET.
  - (* just "0" *)
    cbn [tail_render flat_map app]. simpl in HP.
    assert (eff_int (Some d) = [c_0]) as HE by (unfold eff_int; rewrite HP; reflexivity).
    rewrite HE, HP.
    destruct HC as [r|r|r].
    + rewrite after_cons by discriminate. cbn [s_ch].
      rewrite scan_mantissa_stop by (cbn [s_ch]; vm_compute; discriminate). cbn [s_ch].
      reflexivity.
    + rewrite after_cons by discriminate. cbn [s_ch].
      rewrite scan_mantissa_stop by (cbn [s_ch]; vm_compute; discriminate). cbn [s_ch s_rbuf].
      reflexivity.
    + rewrite after_cons by discriminate. cbn [s_ch].
      rewrite scan_mantissa_stop by (cbn [s_ch]; vm_compute; discriminate). cbn [s_ch s_rbuf].
      reflexivity.
  - (* "0" and more digits *)
    assert (exists c0 cs, tail_render (p :: t) = c0 :: cs /\ digit_val c0 < 10) as (c0 & cs & E0 & D0).
    { pose proof (tail_render_forall 10 (p :: t) Ht ltac:(lia)) as F.
      destruct (tail_render (p :: t)) as [|c0 cs] eqn:E.
      - destruct p as [[|] c]; discriminate E.
      - inversion F; subst. eauto. }
    assert (s_ch (after (tail_render (p :: t) ++ R) [] false) = c0) as Hch.
    { rewrite E0. cbn [app]. destruct (digit_val_special c0 ltac:(lia)) as [NZ _].
      rewrite after_cons by exact NZ. reflexivity. }
    rewrite Hch.
    destruct (digit_not_prefix c0 D0) as (X1 & X2 & X3).
    rewrite X1, X2, X3.
    rewrite scan_tail by (auto; discriminate). rewrite app_nil_r.
    assert (eff_int (Some d) = map snd (p :: t)) as HE.
    { unfold eff_int. rewrite HP. reflexivity. }
    rewrite HE, HP.
    destruct HC as [r|r|r]; rewrite after_cons by discriminate; cbn [s_ch s_rbuf].
    + reflexivity.
    + rewrite on_read_plain by discriminate.
      destruct (rev (map snd (p :: t))) eqn:RV; [|reflexivity].
      apply (f_equal (@length N)) in RV. rewrite rev_length in RV. discriminate RV.
    + rewrite on_read_plain by discriminate.
      destruct (rev (map snd (p :: t))) eqn:RV; [|reflexivity].
      apply (f_equal (@length N)) in RV. rewrite rev_length in RV. discriminate RV.
Qed.
