(* C06 - non-vacuity examples and concrete witnesses (all by computation). *)
From Coq Require Import NArith ZArith QArith List Bool.
From Verif Require Import Num.Decimal Num.IntDiv Num.Eval Num.NumLit Num.NumLitSpec Num.DVal.
Import ListNotations.
Local Open Scope N_scope.

Definition i_ (n : N) : num := mkNum KInt (mkDec false n 0).
Definition ni_ (n : N) : num := mkNum KInt (mkDec true n 0).
Definition f_ (c : N) (e : Z) : num := mkNum KFloat (mkDec false c e).

(* F1: 10^36 + 1 evaluates to 1.000...e+36, of kind int *)
Example ex_f1 : num_op OpAdd (i_ (10 ^ 36)) (i_ 1) = Ok (mkNum KInt (mkDec false (10 ^ 33) 3)).
Proof. vm_compute. reflexivity. Qed.

(* ... and the two layers of the evaluator disagree on it *)
Example ex_f1_layers :
  same_result (eval true (EArith OpAdd (ELit (i_ (10 ^ 36))) (ELit (i_ 1))))
              (eval false (EArith OpAdd (ELit (i_ (10 ^ 36))) (ELit (i_ 1)))) = false.
Proof. vm_compute. reflexivity. Qed.

(* a sum that fits: exact, still an int with exponent 0 *)
Example ex_add_fits : num_op OpAdd (i_ (10 ^ 33)) (i_ 1) = Ok (i_ (10 ^ 33 + 1)).
Proof. vm_compute. reflexivity. Qed.

(* rounding tie at digit 35 goes away from zero; 99..9|5 rolls over *)
Example ex_tie : dadd (mkDec false (10 ^ 34 + 5) 0) (mkDec false 0 0) = mkDec false (10 ^ 33 + 1) 1.
Proof. vm_compute. reflexivity. Qed.
Example ex_rollover : dmul (mkDec false (10 ^ 35 - 5) 0) (mkDec false 1 0) = mkDec false (10 ^ 33) 2.
Proof. vm_compute. reflexivity. Qed.

(* 1/3 and 2/3 at 34 digits; 6/2 = 3.0 is a float *)
Example ex_third : num_op OpQuo (i_ 1) (i_ 3) = Ok (f_ 3333333333333333333333333333333333 (-34)).
Proof. vm_compute. reflexivity. Qed.
Example ex_two_thirds : num_op OpQuo (i_ 2) (i_ 3) = Ok (f_ 6666666666666666666666666666666667 (-34)).
Proof. vm_compute. reflexivity. Qed.
Example ex_six_two : num_op OpQuo (i_ 6) (i_ 2) = Ok (f_ 30 (-1)).
Proof. vm_compute. reflexivity. Qed.
Example ex_div_zero : num_op OpQuo (i_ 1) (i_ 0) = Err.
Proof. reflexivity. Qed.

(* the tables of doc/ref/spec.md for div/mod/quo/rem *)
Example ex_divmod :
  map (fun '(x, y) => (int_div_op FDiv x y, int_div_op FMod x y))
      [(i_ 5, i_ 3); (ni_ 5, i_ 3); (i_ 5, ni_ 3); (ni_ 5, ni_ 3)]
  = [(Ok (i_ 1), Ok (i_ 2)); (Ok (ni_ 2), Ok (i_ 1)); (Ok (ni_ 1), Ok (i_ 2)); (Ok (i_ 2), Ok (i_ 1))].
Proof. vm_compute. reflexivity. Qed.
Example ex_quorem :
  map (fun '(x, y) => (int_div_op FQuo x y, int_div_op FRem x y))
      [(i_ 5, i_ 3); (ni_ 5, i_ 3); (i_ 5, ni_ 3); (ni_ 5, ni_ 3)]
  = [(Ok (i_ 1), Ok (i_ 2)); (Ok (ni_ 1), Ok (ni_ 2)); (Ok (ni_ 1), Ok (i_ 2)); (Ok (i_ 1), Ok (ni_ 2))].
Proof. vm_compute. reflexivity. Qed.
(* no precision involved: 10^40 div 7 *)
Example ex_div_big : int_div_op FDiv (i_ (10 ^ 40)) (i_ 7) = Ok (i_ (10 ^ 40 / 7)).
Proof. vm_compute. reflexivity. Qed.
(* an int whose representation has a positive exponent (result of F1) still divides by value *)
Example ex_div_rounded : int_div_op FDiv (mkNum KInt (mkDec false (10 ^ 33) 3)) (i_ 7) = Ok (i_ (10 ^ 36 / 7)).
Proof. vm_compute. reflexivity. Qed.

(* comparison by value across kinds and representations *)
Example ex_cmp : num_cmp CEq (i_ 1) (f_ 1000 (-3)) = true /\ num_cmp CLt (f_ 999 (-3)) (i_ 1) = true /\
                 num_cmp CGt (i_ (10 ^ 40)) (f_ 9 39) = true /\ num_cmp CLe (ni_ 1) (f_ 0 5) = true.
Proof. vm_compute. repeat split; reflexivity. Qed.

(* int against float above 2^53 and below the smallest float64: exact (seeded change c06-2 compared
   them through float64), also when a bound validates a value *)
Example ex_mixed_order :
  num_cmp CGt (i_ 9007199254740993) (f_ 90071992547409920 (-1)) = true /\
  num_cmp CLe (i_ 9007199254740993) (f_ 90071992547409920 (-1)) = false /\
  num_cmp CGt (i_ (2 ^ 63)) (f_ (2 ^ 63 * 10 - 5) (-1)) = true /\
  num_cmp CGt (i_ (10 ^ 34 + 1)) (f_ 10 33) = true /\
  num_cmp CLt (i_ 0) (f_ 1 (-400)) = true /\
  eval true (EBound CGt (ELit (i_ 9007199254740993)) (ELit (f_ 90071992547409920 (-1)))) = Ok (VNum (i_ 9007199254740993)) /\
  eval true (EBound CLt (ELit (i_ 9007199254740993)) (ELit (f_ 90071992547409920 (-1)))) = Err.
Proof. vm_compute. repeat split; reflexivity. Qed.

(* literals *)
Definition str (s : list N) := s.
(* "1.5G" *)
Example ex_lit_si : lit_parse [49; 46; 53; 71] = LNum (i_ 1500000000).
Proof. vm_compute. reflexivity. Qed.
(* "0xBad_Face" *)
Example ex_lit_hex : lit_parse [48; 120; 66; 97; 100; 95; 70; 97; 99; 101] = LNum (i_ 195951310).
Proof. vm_compute. reflexivity. Qed.
(* "072.40" *)
Example ex_lit_float : lit_parse [48; 55; 50; 46; 52; 48] = LNum (f_ 7240 (-2)).
Proof. vm_compute. reflexivity. Qed.
(* ".12345E+5" *)
Example ex_lit_exp : lit_parse [46; 49; 50; 51; 52; 53; 69; 43; 53] = LNum (f_ 12345 0).
Proof. vm_compute. reflexivity. Qed.
(* "1.3Ki" is rejected although the specification says trunc(1331.2) = 1331 *)
Example ex_lit_frac_mult : lit_parse [49; 46; 51; 75; 105] = LErr /\ classify [49; 46; 51; 75; 105] = LcRejected.
Proof. vm_compute. split; reflexivity. Qed.
(* "1__0", "0x", "1e", "01", "1A" are errors *)
Example ex_lit_errors :
  map lit_parse [[49; 95; 95; 48]; [48; 120]; [49; 101]; [48; 49]; [49; 65]; []; [49; 0]] =
  [LErr; LErr; LErr; LErr; LErr; LErr; LErr].
Proof. vm_compute. reflexivity. Qed.

(* ---- the grammar of literals: the hypotheses of the value theorems are satisfiable ---- *)
From Verif Require Import Num.NumLitGrammar.

Definition ds_ (l : list N) : dseq := mkDs (hd 0 l) (map (fun c => (false, c)) (tl l)).

(* "072.40" *)
Definition g_float := GFloat (Some (ds_ [48; 55; 50])) (Some (Some (ds_ [52; 48]))) None.
Example ex_g_float : render g_float = [48; 55; 50; 46; 52; 48] /\ lit_ok g_float = true.
Proof. split; reflexivity. Qed.
(* "1_0.5e-3" *)
Definition g_float2 :=
  GFloat (Some (mkDs 49 [(true, 48)])) (Some (Some (ds_ [53]))) (Some (mkExpo false (Some true) (ds_ [51]))).
Example ex_g_float2 : render g_float2 = [49; 95; 48; 46; 53; 101; 45; 51] /\ lit_ok g_float2 = true /\
  lit_parse (render g_float2) = LNum (f_ 105 (-4)).
Proof. repeat split; vm_compute; reflexivity. Qed.
(* "1.5G" and "0Ki" *)
Definition g_si := GSi (Some (ds_ [49])) (Some (ds_ [53])) (mkMult 3 false).
Example ex_g_si : render g_si = [49; 46; 53; 71] /\ lit_ok g_si = true.
Proof. split; reflexivity. Qed.
Definition g_si0 := GSi (Some (ds_ [48])) None (mkMult 1 true).
Example ex_g_si0 : render g_si0 = [48; 75; 105] /\ lit_ok g_si0 = true /\ lit_parse (render g_si0) = LNum (i_ 0).
Proof. repeat split; vm_compute; reflexivity. Qed.
(* "0xBad_Face" *)
Definition g_hex := GBased PxLower (mkDs 66 [(false, 97); (false, 100); (true, 70); (false, 97); (false, 99); (false, 101)]).
Example ex_g_hex : render g_hex = [48; 120; 66; 97; 100; 95; 70; 97; 99; 101] /\ lit_ok g_hex = true.
Proof. split; reflexivity. Qed.
(* "170_141" *)
Definition g_dec := GDec (mkDs 49 [(false, 55); (false, 48); (true, 49); (false, 52); (false, 49)]).
Example ex_g_dec : render g_dec = [49; 55; 48; 95; 49; 52; 49] /\ lit_ok g_dec = true /\
  lit_parse (render g_dec) = LNum (i_ 170141).
Proof. repeat split; vm_compute; reflexivity. Qed.
(* grammar-valid but rejected by ParseNum: "01K" (decimals with a leading zero before a multiplier) *)
Example ex_g_01K : lit_ok (GSi (Some (ds_ [48; 49])) None (mkMult 1 false)) = true /\
  lit_parse [48; 49; 75] = LErr.
Proof. split; vm_compute; reflexivity. Qed.
