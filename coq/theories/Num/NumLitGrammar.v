(* C06 - the numeric literals of doc/ref/spec.md as a generative grammar:
     decimal_lit = "0" | ( "1" ... "9" ) { [ "_" ] decimal_digit } .
     decimals    = decimal_digit { [ "_" ] decimal_digit } .
     si_lit      = decimals [ "." decimals ] multiplier | "." decimals multiplier .
     binary_lit / octal_lit / hex_lit = "0b" | "0o" | "0x" | "0X"  digit { [ "_" ] digit } .
     float_lit   = decimals "." [ decimals ] [ exponent ] | decimals exponent | "." decimals [ exponent ] .
     exponent    = ( "e" | "E" ) [ "+" | "-" ] decimals .
   A literal is a value of type [lit]; [render] spells it, [denote] is the number it denotes.
   No proofs in this file. *)
From Coq Require Import NArith ZArith Bool List.
From Verif Require Import Num.Decimal Num.NumLit.
Import ListNotations.
Local Open Scope N_scope.

(* digit { ["_"] digit } : first digit, then digits each optionally preceded by '_' *)
Record dseq : Type := mkDs { ds_head : N; ds_tail : list (bool * N) }.

Definition tail_render (t : list (bool * N)) : list N :=
  flat_map (fun p : bool * N => if fst p then [c_us; snd p] else [snd p]) t.

Definition ds_render (d : dseq) : list N := ds_head d :: tail_render (ds_tail d).
Definition ds_chars (d : dseq) : list N := ds_head d :: map snd (ds_tail d).

(* c is a digit of the base (and not the separator) *)
Definition is_base_digit (base c : N) : bool := (digit_val c <? base) && negb (c =? c_us).

Definition ds_ok (base : N) (d : dseq) : bool :=
  is_base_digit base (ds_head d) && forallb (fun p => is_base_digit base (snd p)) (ds_tail d).

(* value of a digit string *)
Definition chars_value (base : N) (l : list N) : N := digits_value base l 0.

Inductive expo : Type := mkExpo (upper : bool) (sign : option bool) (ds : dseq).  (* Some true = '-' *)

Inductive prefix := PxLower | PxUpper | PbLower | PoLower.     (* 0x 0X 0b 0o *)

Definition prefix_char (p : prefix) : N :=
  match p with PxLower => 120 | PxUpper => 88 | PbLower => 98 | PoLower => 111 end.
Definition prefix_base (p : prefix) : N :=
  match p with PxLower | PxUpper => 16 | PbLower => 2 | PoLower => 8 end.

Inductive lit : Type :=
| GDec (ds : dseq)                                              (* decimal_lit *)
| GBased (p : prefix) (ds : dseq)                               (* hex / binary / octal *)
| GFloat (ip : option dseq) (fp : option (option dseq)) (e : option expo)
| GSi (ip : option dseq) (fp : option dseq) (m : mult).

Definition opt_render (o : option dseq) : list N := match o with Some d => ds_render d | None => [] end.
Definition opt_chars (o : option dseq) : list N := match o with Some d => ds_chars d | None => [] end.

Definition sign_chars (s : option bool) : list N :=
  match s with None => [] | Some true => [c_minus] | Some false => [c_plus] end.

Definition expo_render (e : option expo) : list N :=
  match e with
  | None => []
  | Some (mkExpo u s ds) => (if u then c_E else c_e) :: sign_chars s ++ ds_render ds
  end.

Definition mult_char (m : mult) : N :=
  match m_idx m with 1 => 75 | 2 => 77 | 3 => 71 | 4 => 84 | _ => 80 end.

Definition mult_render (m : mult) : list N := mult_char m :: (if m_bin m then [c_i] else []).

Definition render (l : lit) : list N :=
  match l with
  | GDec ds => ds_render ds
  | GBased p ds => c_0 :: prefix_char p :: ds_render ds
  | GFloat ip fp e =>
    opt_render ip ++ (match fp with None => [] | Some f => c_dot :: opt_render f end) ++ expo_render e
  | GSi ip fp m =>
    opt_render ip ++ (match fp with None => [] | Some f => c_dot :: ds_render f end) ++ mult_render m
  end.

(* well-formedness: the productions of the grammar *)
Definition expo_ok (e : option expo) : bool :=
  match e with None => true | Some (mkExpo _ _ ds) => ds_ok 10 ds end.

Definition opt_ok (o : option dseq) : bool := match o with Some d => ds_ok 10 d | None => true end.

Definition mult_ok (m : mult) : bool := (1 <=? m_idx m) && (m_idx m <=? 5).

Definition no_leading_zero (d : dseq) : bool :=
  negb (ds_head d =? c_0) || match ds_tail d with [] => true | _ => false end.

Definition lit_ok (l : lit) : bool :=
  match l with
  | GDec ds => ds_ok 10 ds && no_leading_zero ds
  | GBased p ds => ds_ok (prefix_base p) ds
  | GFloat ip fp e =>
    opt_ok ip && expo_ok e &&
    match ip, fp, e with
    | Some _, Some f, _ => opt_ok f           (* decimals "." [decimals] [exponent] *)
    | Some _, None, Some _ => true            (* decimals exponent *)
    | None, Some (Some f), _ => ds_ok 10 f    (* "." decimals [exponent] *)
    | _, _, _ => false
    end
  | GSi ip fp m =>
    opt_ok ip && opt_ok fp && mult_ok m &&
    match ip, fp with
    | Some _, _ => true
    | None, Some _ => true
    | None, None => false
    end
  end.

(* the exponent an exponent part denotes *)
Definition expo_value (e : option expo) : Z :=
  match e with
  | None => 0%Z
  | Some (mkExpo _ s ds) =>
    let v := Z.of_N (chars_value 10 (ds_chars ds)) in
    match s with Some true => (- v)%Z | _ => v end
  end.

(* the decimal a float_lit or the mantissa of an si_lit denotes: digits * 10^(exponent - #fraction digits) *)
Definition mantissa (ip fp : option dseq) (e : Z) : dec :=
  mkDec false (chars_value 10 (opt_chars ip ++ opt_chars fp))
        (e - Z.of_nat (length (opt_chars fp))).

Definition fp_flat (fp : option (option dseq)) : option dseq :=
  match fp with Some (Some f) => Some f | _ => None end.
