(* C06 - a small expression language over number literals, evaluated twice:
     eval true   the implementation-faithful layer (precision 34 on add, sub, mul)
     eval false  the specification layer (add, sub, mul exact)
   It mirrors how adt.BinaryExpr / UnaryExpr / CallExpr evaluate scalar operands:
   an error in an operand is the result (CombineErrors), kinds are checked by BinOp.
   No proofs in this file. *)
From Coq Require Import NArith ZArith Bool List.
From Verif Require Import Num.Decimal Num.IntDiv.
Import ListNotations.

Inductive value := VNum (n : num) | VBool (b : bool).

Inductive expr :=
| ELit (n : num)                       (* a non-negative literal *)
| ENeg (e : expr)                      (* -e *)
| EArith (op : arith_op) (a b : expr)  (* a + b, a - b, a * b, a / b *)
| ECmp (op : cmp_op) (a b : expr)      (* a == b ... *)
| ECall (f : idiv_fn) (a b : expr)     (* div(a, b) ... *)
| EBound (op : cmp_op) (a b : expr).   (* a & <b, a & <=b, a & >b, a & >=b, a & !=b : BoundValue.validate
                                          calls BinOp(op, a, b); the value a, or bottom *)

Definition arith (impl : bool) (op : arith_op) (x y : num) : result num :=
  if impl then num_op op x y else num_op_exact op x y.

Fixpoint eval (impl : bool) (e : expr) : result value :=
  match e with
  | ELit n => Ok (VNum n)
  | ENeg a =>
    match eval impl a with
    | Ok (VNum x) => Ok (VNum (num_neg x))
    | _ => Err
    end
  | EArith op a b =>
    match eval impl a, eval impl b with
    | Ok (VNum x), Ok (VNum y) =>
      match arith impl op x y with Ok r => Ok (VNum r) | Err => Err end
    | _, _ => Err
    end
  | ECmp op a b =>
    match eval impl a, eval impl b with
    | Ok (VNum x), Ok (VNum y) => Ok (VBool (num_cmp op x y))
    | _, _ => Err
    end
  | ECall f a b =>
    match eval impl a, eval impl b with
    | Ok (VNum x), Ok (VNum y) =>
      match int_div_op f x y with Ok r => Ok (VNum r) | Err => Err end
    | _, _ => Err
    end
  | EBound op a b =>
    match eval impl a, eval impl b with
    | Ok (VNum x), Ok (VNum y) => if num_cmp op x y then Ok (VNum x) else Err
    | _, _ => Err
    end
  end.

(* do the two layers denote the same result (numbers by value and kind)? *)
Definition same_result (a b : result value) : bool :=
  match a, b with
  | Err, Err => true
  | Ok (VBool x), Ok (VBool y) => Bool.eqb x y
  | Ok (VNum x), Ok (VNum y) =>
    kind_eqb (nk x) (nk y) && match dcmp (nd x) (nd y) with Eq => true | _ => false end
  | _, _ => false
  end.
