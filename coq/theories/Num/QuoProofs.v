(* C06 - Decimal.Reduce / reduceKeepingFloats preserve the value; Quo at precision p is
   correctly rounded (half-up) to p significant digits. *)
From Coq Require Import NArith ZArith QArith Qabs Bool Lia ZifyN ZifyBool.
From Verif Require Import Num.Decimal Num.DigitsProofs Num.DVal Num.RoundProofs Num.ArithProofs.
Local Open Scope N_scope.

Lemma strip_zeros_spec : forall fuel c k c' k',
  strip_zeros fuel c k = (c', k') -> k <= k' /\ c = c' * pow10 (k' - k).
Proof.
  induction fuel as [|f IH]; intros c k c' k' H; cbn [strip_zeros] in H.
  - inversion H; subst. replace (k' - k') with 0 by lia. rewrite pow10_0. lia.
  - destruct (N.eqb_spec (c mod 10) 0) as [M|M].
    + apply IH in H. destruct H as [L E]. split; [lia|].
      pose proof (N.div_mod c 10 ltac:(lia)) as DM. rewrite M in DM.
      replace (k' - k) with ((k' - (k + 1)) + 1) by lia. rewrite pow10_succ. nia.
    + inversion H; subst. replace (k' - k') with 0 by lia. rewrite pow10_0. lia.
Qed.

Local Open Scope Q_scope.

Theorem reduce_val : forall x, dval (reduce x) == dval x.
Proof.
  intros x. unfold reduce. destruct (N.eqb_spec (coeff x) 0) as [Z|NZ].
  - rewrite (dval_zero x Z). apply dval_zero. reflexivity.
  - destruct (strip_zeros _ _ _) as [c k] eqn:S. apply strip_zeros_spec in S. destruct S as [_ E].
    rewrite !dval_sg. simpl. rewrite mkv_shift' by lia. rewrite sg_mul. apply mkv_eq. f_equal.
    rewrite E. rewrite N2Z.inj_mul. unfold pow10. rewrite N2Z.inj_pow. f_equal. f_equal. lia.
Qed.

Theorem reduce_keeping_floats_val : forall x, dval (reduce_keeping_floats x) == dval x.
Proof.
  intros x. unfold reduce_keeping_floats. transitivity (dval (reduce x)); [|apply reduce_val].
  destruct ((exp x <? 0)%Z && (0 <=? exp (reduce x))%Z); [|reflexivity].
  rewrite !dval_sg. simpl.
  replace (exp (reduce x)) with (exp (reduce x) - 1 + 1)%Z at 2 by lia.
  rewrite mkv_shift' by lia. rewrite sg_mul. apply mkv_eq. f_equal. lia.
Qed.

Lemma reduce_neg : forall x, coeff x <> 0%N -> neg (reduce_keeping_floats x) = neg x.
Proof.
  intros x H. unfold reduce_keeping_floats, reduce.
  destruct (N.eqb_spec (coeff x) 0); [contradiction|].
  destruct (strip_zeros _ _ _) as [c k]. simpl.
  destruct ((exp x <? 0)%Z && (0 <=? exp x + Z.of_N k)%Z); reflexivity.
Qed.

(* ---- Quo ---- *)
Local Open Scope N_scope.

Lemma digits_mul_pow10 : forall c k, 0 < c -> digits (c * pow10 k) = digits c + k.
Proof.
  intros c k H. apply digits_unique.
  - pose proof (digits_pos c). lia.
  - replace (digits c + k - 1) with ((digits c - 1) + k) by (pose proof (digits_pos c); lia).
    rewrite pow10_add. apply N.mul_le_mono_r. apply digits_lower. exact H.
  - rewrite pow10_add. apply N.mul_lt_mono_pos_r. apply pow10_pos. apply digits_upper.
Qed.

(* rounding a quotient half-up *)
Lemma half_up_quotient : forall D V,
  0 < V ->
  let q := match (2 * (D mod V)) ?= V with Lt => D / V | _ => D / V + 1 end in
  (q * V <= D -> 2 * (D - q * V) < V) /\ (D <= q * V -> 2 * (q * V - D) <= V) /\ D / V <= q.
Proof.
  intros D V HV q.
  pose proof (N.div_mod D V ltac:(lia)) as DM. pose proof (N.mod_lt D V ltac:(lia)) as ML.
  subst q. destruct (N.compare_spec (2 * (D mod V)) V); repeat split; intros; nia.
Qed.

(* the pieces of quo_raw, named *)
Record quo_parts := mkQP { qp_a : N; qp_b : N; qp_q : N }.

Lemma quo_raw_parts : forall p x y,
  coeff x <> 0 -> coeff y <> 0 -> 1 <= p ->
  exists a b q,
    quo_raw p x y = mkDec (xorb (neg x) (neg y)) q (exp x - exp y - Z.of_N a + Z.of_N b) /\
    let D := coeff x * pow10 a in
    let V := coeff y * pow10 b in
    (q * V <= D -> 2 * (D - q * V) < V) /\ (D <= q * V -> 2 * (q * V - D) <= V) /\
    pow10 (p - 1) <= q.
Proof.
  intros p x y Hx Hy Hp. unfold quo_raw.
  destruct (N.eqb_spec (coeff x) 0) as [|_]; [contradiction|].
  set (ndx := digits (coeff x)). set (ndy := digits (coeff y)).
  set (dividend := if ndx <? ndy then coeff x * pow10 (ndy - ndx) else coeff x).
  set (divisor := if ndy <? ndx then coeff y * pow10 (ndx - ndy) else coeff y).
  set (a0 := if ndx <? ndy then ndy - ndx else 0).
  set (b := if ndy <? ndx then ndx - ndy else 0).
  assert (dividend = coeff x * pow10 a0) as Hdd.
  { unfold dividend, a0. destruct (ndx <? ndy); [reflexivity|]. rewrite pow10_0. lia. }
  assert (divisor = coeff y * pow10 b) as Hdv.
  { unfold divisor, b. destruct (ndy <? ndx); [reflexivity|]. rewrite pow10_0. lia. }
  assert (digits dividend = N.max ndx ndy) as Dd.
  { rewrite Hdd, digits_mul_pow10 by lia. fold ndx. unfold a0. destruct (N.ltb_spec ndx ndy); lia. }
  assert (digits divisor = N.max ndx ndy) as Dv.
  { rewrite Hdv, digits_mul_pow10 by lia. fold ndy. unfold b. destruct (N.ltb_spec ndy ndx); lia. }
  assert (0 < dividend) as Pdd by (rewrite Hdd; pose proof (pow10_pos a0); nia).
  assert (0 < divisor) as Pdv by (rewrite Hdv; pose proof (pow10_pos b); nia).
  set (bump := dividend <? divisor).
  set (a := a0 + (if bump then 1 else 0) + (p - 1)).
  exists a, b.
  destruct (if bump then (dividend * 10, (Z.of_N ndy - Z.of_N ndx + 1)%Z)
            else (dividend, (Z.of_N ndy - Z.of_N ndx)%Z)) as [dividend1 adj] eqn:B.
  assert (dividend1 = dividend * (if bump then 10 else 1) /\
          adj = (Z.of_N ndy - Z.of_N ndx + (if bump then 1 else 0))%Z) as [Hd1 Hadj].
  { destruct bump; inversion B; subst; split; lia. }
  assert (divisor <= dividend1) as GE.
  { rewrite Hd1. unfold bump. destruct (N.ltb_spec dividend divisor) as [L|L]; [|lia].
    pose proof (digits_lower dividend Pdd) as Lo. pose proof (digits_upper divisor) as Up.
    rewrite Dd in Lo. rewrite Dv in Up.
    assert (pow10 (N.max ndx ndy) = 10 * pow10 (N.max ndx ndy - 1)) as E.
    { rewrite <- pow10_succ. f_equal. pose proof (digits_pos (coeff x)). fold ndx in H. lia. }
    lia. }
  set (D := dividend1 * pow10 (p - 1)).
  assert (D = coeff x * pow10 a) as HD.
  { unfold D, a. rewrite Hd1, Hdd, !pow10_add. destruct bump; rewrite ?pow10_0; change (pow10 1) with 10; lia. }
  eexists. split.
  - f_equal. unfold a. rewrite Hadj. unfold a0, b.
    destruct (N.ltb_spec ndx ndy), (N.ltb_spec ndy ndx), bump; lia.
  - cbv zeta. rewrite <- HD, <- Hdv.
    pose proof (half_up_quotient D divisor Pdv) as HQ. cbv zeta in HQ.
    destruct HQ as (H1 & H2 & H3). split; [exact H1|]. split; [exact H2|].
    apply N.le_trans with (D / divisor); [|exact H3].
    apply N.div_le_lower_bound; [lia|]. unfold D. apply N.mul_le_mono_r. exact GE.
Qed.

Local Open Scope Q_scope.

Lemma sg_xor_mul : forall a b x y, (sg (xorb a b) x * sg b y)%Z = sg a (x * y).
Proof. intros. destruct a, b; simpl; lia. Qed.

Lemma quo_raw_zero : forall p x y, coeff x = 0%N -> dval (quo_raw p x y) == 0.
Proof.
  intros p x y H. unfold quo_raw. rewrite H. simpl. apply dval_zero. reflexivity.
Qed.

Theorem quo_raw_correct : forall p x y,
  coeff x <> 0%N -> coeff y <> 0%N -> (1 <= p)%N ->
  let q := quo_raw p x y in
  2 * Qabs (dval q * dval y - dval x) <= p10 (exp q) * Qabs (dval y) /\
  p10 (exp q + Z.of_N (p - 1)) <= Qabs (dval q) /\
  neg q = xorb (neg x) (neg y) /\ coeff q <> 0%N.
Proof.
  intros p x y Hx Hy Hp q.
  destruct (quo_raw_parts p x y Hx Hy Hp) as (a & b & q' & E & H1 & H2 & H3).
  subst q. rewrite E. clear E. simpl exp. simpl neg. simpl coeff.
  set (EE := (exp x - exp y - Z.of_N a + Z.of_N b)%Z).
  set (t := (exp x - Z.of_N a)%Z).
  set (V := (coeff y * pow10 b)%N) in *. set (D := (coeff x * pow10 a)%N) in *.
  assert (dval (mkDec (xorb (neg x) (neg y)) q' EE) * dval y ==
          mkv (sg (neg x) (Z.of_N (q' * V))) t) as L1.
  { rewrite !dval_sg. simpl. rewrite mkv_mul, sg_xor_mul.
    replace (EE + exp y)%Z with (t + Z.of_N b)%Z by (unfold EE, t; lia).
    rewrite mkv_shift' by lia. rewrite sg_mul. apply mkv_eq. f_equal.
    unfold V. rewrite !N2Z.inj_mul. unfold pow10. rewrite N2Z.inj_pow. change (Z.of_N 10) with 10%Z. ring. }
  assert (dval x == mkv (sg (neg x) (Z.of_N D)) t) as L2.
  { rewrite dval_sg. replace (exp x) with (t + Z.of_N a)%Z at 1 by (unfold t; lia).
    rewrite mkv_shift' by lia. rewrite sg_mul. apply mkv_eq. f_equal.
    unfold D. rewrite N2Z.inj_mul. unfold pow10. rewrite N2Z.inj_pow. reflexivity. }
  assert (p10 EE * Qabs (dval y) == mkv (Z.of_N V) t) as L3.
  { rewrite dval_abs, <- mkv_one, mkv_mul, Z.mul_1_l.
    replace (EE + exp y)%Z with (t + Z.of_N b)%Z by (unfold EE, t; lia).
    rewrite mkv_shift' by lia. apply mkv_eq.
    unfold V. rewrite N2Z.inj_mul. unfold pow10. rewrite N2Z.inj_pow. reflexivity. }
  split; [|split; [|split]].
  - rewrite L1, L2, L3, mkv_sub, sg_sub, mkv_abs, sg_abs.
    change 2 with (inject_Z 2). rewrite mkv_scale. apply mkv_le.
    destruct (N.le_ge_cases (q' * V) D) as [C|C].
    + specialize (H1 C). lia.
    + specialize (H2 C). lia.
  - rewrite dval_abs. cbn [coeff exp]. rewrite <- mkv_pow. apply mkv_le. lia.
  - reflexivity.
  - pose proof (pow10_pos (p - 1)). lia.
Qed.

(* internal.Context.Quo at precision 34 *)
Theorem dquo_correctly_rounded : forall x y,
  coeff y <> 0%N ->
  exists E : Z,
    2 * Qabs (dval (dquo x y) * dval y - dval x) <= p10 E * Qabs (dval y) /\
    (coeff x <> 0%N -> p10 (E + 33) <= Qabs (dval (dquo x y))) /\
    (coeff x = 0%N -> dval (dquo x y) == 0).
Proof.
  intros x y Hy. unfold dquo. exists (exp (quo_raw prec x y)).
  rewrite reduce_keeping_floats_val.
  destruct (N.eq_dec (coeff x) 0) as [Z|NZ].
  - pose proof (quo_raw_zero prec x y Z) as Q0. split; [|split].
    + rewrite Q0, (dval_zero x Z).
      assert (2 * Qabs (0 * dval y - 0) == 0) as ->.
      { setoid_replace (0 * dval y - 0) with 0 by ring. reflexivity. }
      apply Qmult_le_0_compat. apply Qlt_le_weak, p10_pos. apply Qabs_nonneg.
    + intros; contradiction.
    + intros; exact Q0.
  - destruct (quo_raw_correct prec x y NZ Hy ltac:(unfold prec; lia)) as (A & B & _ & _).
    split; [exact A|]. split; [intros _; exact B|]. intros; contradiction.
Qed.

Theorem dquo_sign : forall x y, coeff x <> 0%N -> coeff y <> 0%N ->
  neg (dquo x y) = xorb (neg x) (neg y).
Proof.
  intros x y Hx Hy. unfold dquo.
  destruct (quo_raw_correct prec x y Hx Hy ltac:(unfold prec; lia)) as (_ & _ & N & C).
  rewrite reduce_neg by exact C. exact N.
Qed.
