(* C06 - powers of ten and the digit count. *)
From Coq Require Import NArith ZArith Bool List Lia ZifyN ZifyBool.
From Verif Require Import Num.Decimal.
Local Open Scope N_scope.

Lemma pow10_pos : forall n, 0 < pow10 n.
Proof. intros. unfold pow10. apply N.neq_0_lt_0. apply N.pow_nonzero. lia. Qed.

Lemma pow10_0 : pow10 0 = 1.
Proof. reflexivity. Qed.

Lemma pow10_succ : forall n, pow10 (n + 1) = 10 * pow10 n.
Proof. intros. unfold pow10. rewrite N.add_1_r, N.pow_succ_r'. reflexivity. Qed.

Lemma pow10_add : forall a b, pow10 (a + b) = pow10 a * pow10 b.
Proof. intros. unfold pow10. apply N.pow_add_r. Qed.

Lemma pow10_le_mono : forall a b, a <= b -> pow10 a <= pow10 b.
Proof. intros. unfold pow10. apply N.pow_le_mono_r; lia. Qed.

Lemma pow10_lt_mono : forall a b, a < b -> pow10 a < pow10 b.
Proof. intros. unfold pow10. apply N.pow_lt_mono_r; lia. Qed.

Lemma pow10_lt_inv : forall a b, pow10 a < pow10 b -> a < b.
Proof.
  intros a b H. destruct (N.lt_ge_cases a b) as [|L]; auto.
  apply pow10_le_mono in L. lia.
Qed.

Lemma pow10_ge_1 : forall n, 1 <= pow10 n.
Proof. intros. pose proof (pow10_pos n). lia. Qed.

Lemma pow10_sub : forall a b, b <= a -> pow10 a = pow10 (a - b) * pow10 b.
Proof. intros. rewrite <- pow10_add. f_equal. lia. Qed.

Lemma digits_loop_spec : forall fuel n k,
  1 <= k -> (k = 1 \/ pow10 (k - 1) <= n) -> n < pow10 (k + N.of_nat fuel) ->
  let r := digits_loop fuel n (pow10 k) k in
  n < pow10 r /\ (r = 1 \/ pow10 (r - 1) <= n) /\ 1 <= r.
Proof.
  induction fuel as [|f IH]; intros n k Hk Hlo Hhi; cbn [digits_loop].
  - replace (k + N.of_nat 0) with k in Hhi by lia. auto.
  - destruct (N.ltb_spec n (pow10 k)) as [L|L].
    + auto.
    + replace (pow10 k * 10) with (pow10 (k + 1)) by (rewrite pow10_succ; lia).
      apply IH.
      * lia.
      * right. replace (k + 1 - 1) with k by lia. exact L.
      * replace (k + 1 + N.of_nat f) with (k + N.of_nat (S f)) by lia. exact Hhi.
Qed.

Lemma lt_pow10_size : forall n, n < pow10 (N.size n).
Proof.
  intros n. apply N.lt_le_trans with (2 ^ N.size n).
  - apply N.size_gt.
  - unfold pow10. apply N.pow_le_mono_l. lia.
Qed.

Lemma digits_spec : forall n,
  n < pow10 (digits n) /\ (digits n = 1 \/ pow10 (digits n - 1) <= n) /\ 1 <= digits n.
Proof.
  intros n. unfold digits.
  change 10 with (pow10 1) at 1.
  apply digits_loop_spec.
  - lia.
  - left; reflexivity.
  - rewrite N2Nat.id. apply N.lt_le_trans with (pow10 (N.size n)).
    + apply lt_pow10_size.
    + apply pow10_le_mono. lia.
Qed.

Lemma digits_upper : forall n, n < pow10 (digits n).
Proof. intros. apply digits_spec. Qed.

Lemma digits_pos : forall n, 1 <= digits n.
Proof. intros. apply digits_spec. Qed.

Lemma digits_lower : forall n, 0 < n -> pow10 (digits n - 1) <= n.
Proof.
  intros n H. destruct (digits_spec n) as (_ & [E|L] & _); auto.
  rewrite E. simpl. change (pow10 0) with 1. lia.
Qed.

Lemma digits_unique : forall n k, 1 <= k -> pow10 (k - 1) <= n -> n < pow10 k -> digits n = k.
Proof.
  intros n k Hk Hlo Hhi.
  assert (0 < n) by (pose proof (pow10_pos (k - 1)); lia).
  pose proof (digits_upper n) as U. pose proof (digits_lower n H) as L. pose proof (digits_pos n) as P.
  assert (k - 1 < digits n) by (apply pow10_lt_inv; lia).
  assert (digits n - 1 < k) by (apply pow10_lt_inv; lia).
  lia.
Qed.

Lemma digits_0 : digits 0 = 1.
Proof. reflexivity. Qed.

Lemma digits_le_iff : forall n p, 1 <= p -> (digits n <= p <-> n < pow10 p).
Proof.
  intros n p Hp. split; intros H.
  - apply N.lt_le_trans with (pow10 (digits n)). apply digits_upper. apply pow10_le_mono; auto.
  - destruct (N.eq_dec n 0) as [->|Hn]. rewrite digits_0; auto.
    assert (0 < n) by lia.
    pose proof (digits_lower n H0).
    assert (digits n - 1 < p) by (apply pow10_lt_inv; lia).
    pose proof (digits_pos n). lia.
Qed.

Lemma digits_pow10 : forall k, digits (pow10 k) = k + 1.
Proof.
  intros k. apply digits_unique.
  - lia.
  - replace (k + 1 - 1) with k by lia. lia.
  - apply pow10_lt_mono. lia.
Qed.

Lemma digits_mono : forall a b, a <= b -> digits a <= digits b.
Proof.
  intros a b H. apply digits_le_iff. apply digits_pos.
  pose proof (digits_upper b). lia.
Qed.
