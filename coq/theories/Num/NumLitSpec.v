(* C06 - specification layer for number literals (doc/ref/spec.md, "Numeric literals"):
   the value a spelling denotes, computed exactly from what the scanner collected:
     digits . fraction  e  exponent     denotes  digits.fraction * 10^exponent   (an implementation may
                                          reject exponents it cannot represent, never change the value)
     digits . fraction  multiplier      denotes  trunc (digits.fraction * multiplier)   (an int)
   and the classification of a literal by comparing the implementation-faithful
   result (NumLit.lit_parse) with it.  No proofs in this file. *)
From Coq Require Import NArith ZArith Bool List.
From Verif Require Import Num.Decimal Num.NumLit.
Import ListNotations.
Local Open Scope N_scope.

(* strconv-free reading of the exponent digits: optional sign, then decimal digits *)
Definition parse_exp_exact (s : list N) : option Z :=
  let '(ng, ds) :=
    match s with
    | c :: r => if c =? c_minus then (true, r) else if c =? c_plus then (false, r) else (false, s)
    | [] => (false, s)
    end in
  match ds with
  | [] => None
  | _ => if forallb is_digit ds
         then let v := Z.of_N (digits_value 10 ds 0) in Some (if ng then (- v)%Z else v)
         else None
  end.

(* buf = [-] digits [. digits] [e [+-] digits]  read exactly *)
Definition buf_exact (b : list N) : option dec :=
  let '(ng, s0) :=
    match b with
    | c :: r => if c =? c_minus then (true, r) else (false, b)
    | [] => (false, b)
    end in
  let '(mant, e1) :=
    match split_at c_e s0 with
    | Some (m, e) => (m, parse_exp_exact e)
    | None => (s0, Some 0%Z)
    end in
  match e1 with
  | None => None
  | Some ez =>
    let '(ds, e2) :=
      match split_at c_dot mant with
      | Some (a, f) => (a ++ f, (- Z.of_nat (length f))%Z)
      | None => (mant, 0%Z)
      end in
    match ds with
    | [] => None
    | _ => if forallb is_digit ds then Some (mkDec ng (digits_value 10 ds 0) (ez + e2)) else None
    end
  end.

(* truncation towards zero to an integer with exponent 0 *)
Definition trunc_dec (d : dec) : dec :=
  if (0 <=? exp d)%Z then mkDec (neg d) (coeff d * pow10 (Z.to_N (exp d))) 0
  else mkDec (neg d) (coeff d / pow10 (Z.to_N (- exp d))) 0.

(* the number a scanned literal denotes according to the specification *)
Definition lit_exact (i : numinfo) : option num :=
  if negb (i_base i =? 10) then
    match decimal_of i with
    | Some (DFin d) => Some (mkNum KInt d)
    | _ => None
    end
  else
    match buf_exact (i_buf i), i_mul i with
    | None, _ => None
    | Some d, None => Some (mkNum (kind_of_float (i_float i)) d)
    | Some d, Some m => Some (mkNum KInt (trunc_dec (mul_exact d (mkDec false (mult_value m) 0))))
    end.

Inductive lit_class :=
| LcSame      (* implementation-faithful result = specified value (or both reject) *)
| LcNoSpec    (* not a spelling the specification talks about *)
| LcRounded   (* F5: multiplier product rounded to 34 digits *)
| LcRejected. (* fractional multiplier result rejected, the specification truncates *)

Definition same_num (a b : num) : bool :=
  kind_eqb (nk a) (nk b) && match dcmp (nd a) (nd b) with Eq => true | _ => false end.

Definition classify (src : list N) : lit_class :=
  match parse_num_noerr src with
  | None => LcNoSpec
  | Some i =>
    match lit_exact i with
    | None => LcNoSpec
    | Some s =>
      match decimal_of i with
      | None =>
        (* without a multiplier the only error is an exponent apd cannot represent: the
           implementation restriction of the specification asks for an error there too *)
        match i_mul i with Some _ => LcRejected | None => LcSame end
      | Some DNaN => LcNoSpec
      | Some (DFin d) =>
        if same_num (mkNum (kind_of_float (i_float i)) d) s then LcSame
        else match i_mul i with Some _ => LcRounded | None => LcNoSpec end
      end
    end
  end.
