(* C06 - the scanner of literal.ParseNum on the spellings of the grammar: scanMantissa. *)
From Coq Require Import NArith ZArith List Bool Lia ZifyN ZifyBool.
From Verif Require Import Num.Decimal Num.NumLit Num.NumLitGrammar.
Import ListNotations.
Local Open Scope N_scope.

(* state right after next() has been called with [rest] unread *)
Definition after (rest rbuf : list N) (err : bool) : st := next (mkSt rest 0 rbuf err).

Definition nonus (cs : list N) : list N := filter (fun c => negb (c =? c_us)) cs.
Definition has_digit (cs : list N) : bool := existsb (fun c => negb (c =? c_us)) cs.

(* the '_' errors accumulated while scanning cs when the previous byte was [last] *)
Fixpoint us_err (last : N) (cs : list N) : bool :=
  match cs with
  | [] => last =? c_us
  | c :: r => ((last =? c_us) && (c =? c_us)) || us_err c r
  end.

Definition stops (base : N) (rest : list N) : Prop :=
  match rest with [] => True | c :: _ => base <= digit_val c end.

Lemma digit_val_special : forall c, digit_val c < 16 -> c <> 0 /\ c <> c_dot.
Proof.
  intros c. unfold digit_val, c_us, c_dot.
  destruct (N.leb_spec 48 c); destruct (N.leb_spec c 57); simpl; try lia;
  destruct (N.eqb_spec c 95); try lia;
  destruct (N.leb_spec 97 c); destruct (N.leb_spec c 102); simpl; try lia;
  destruct (N.leb_spec 65 c); destruct (N.leb_spec c 70); simpl; lia.
Qed.

Lemma on_read_plain : forall c rb, c <> c_dot -> on_read c rb = rb.
Proof. intros c rb H. unfold on_read. destruct (N.eqb_spec c c_dot); [contradiction|reflexivity]. Qed.

Lemma scan_mant_exit : forall base src ch last rbuf err has,
  base <= digit_val ch ->
  scan_mant base src ch last rbuf err has = (mkSt src ch rbuf (err || (last =? c_us)), has).
Proof.
  intros. destruct src; cbn [scan_mant]; destruct (N.ltb_spec (digit_val ch) base); try lia; reflexivity.
Qed.

Lemma scan_mant_run : forall base cs c0 last rbuf err has rest,
  base <= 16 -> Forall (fun c => digit_val c < base) (c0 :: cs) -> stops base rest ->
  scan_mant base (cs ++ rest) c0 last rbuf err has =
    (after rest (rev (nonus (c0 :: cs)) ++ rbuf) (err || us_err last (c0 :: cs)),
     has || has_digit (c0 :: cs)).
Proof.
  intros base cs. induction cs as [|c1 cs IH]; intros c0 last rbuf err has rest Hb Hall Hstop.
  - inversion Hall as [|? ? H0 _]; subst. simpl app.
    destruct rest as [|c r]; cbn [scan_mant].
    + destruct (N.ltb_spec (digit_val c0) base); [|lia].
      unfold after, next. cbn [s_src s_rbuf s_err us_err nonus filter has_digit existsb].
      destruct (c0 =? c_us); cbn [negb rev app]; f_equal; try f_equal;
        destruct err, (last =? c_us), has; reflexivity.
    + destruct (N.ltb_spec (digit_val c0) base); [|lia].
      simpl in Hstop. rewrite scan_mant_exit by exact Hstop.
      unfold after, next. cbn [s_src s_rbuf s_err us_err nonus filter has_digit existsb].
      destruct (c0 =? c_us); cbn [negb rev app]; f_equal; try f_equal;
        destruct err, (last =? c_us), has, (c =? 0); reflexivity.
  - inversion Hall as [|? ? H0 Hall']; subst.
    assert (digit_val c1 < base) as H1 by (inversion Hall'; assumption).
    assert (nonus (c0 :: c1 :: cs) = if c0 =? c_us then nonus (c1 :: cs) else c0 :: nonus (c1 :: cs)) as EN.
    { unfold nonus. cbn [filter]. destruct (c0 =? c_us); reflexivity. }
    assert (us_err last (c0 :: c1 :: cs) = ((last =? c_us) && (c0 =? c_us)) || us_err c0 (c1 :: cs)) as EU
      by reflexivity.
    assert (has_digit (c0 :: c1 :: cs) = negb (c0 =? c_us) || has_digit (c1 :: cs)) as EH by reflexivity.
    rewrite EN, EU, EH. clear EN EU EH.
    destruct (digit_val_special c1 ltac:(lia)) as [NZ ND].
    change ((c1 :: cs) ++ rest) with (c1 :: (cs ++ rest)). cbn [scan_mant].
    destruct (N.ltb_spec (digit_val c0) base); [|lia].
    rewrite on_read_plain by exact ND.
    replace (c1 =? 0) with false by (symmetry; apply N.eqb_neq; exact NZ).
    rewrite orb_false_r.
    rewrite IH by assumption.
    generalize (nonus (c1 :: cs)) (us_err c0 (c1 :: cs)) (has_digit (c1 :: cs)). intros NN UU HH.
    destruct (c0 =? c_us); cbn [negb rev]; rewrite <- ?app_assoc; cbn [app].
    + rewrite orb_assoc. reflexivity.
    + rewrite orb_assoc. destruct has; reflexivity.
Qed.

(* scanMantissa when the current byte is not a digit: nothing happens *)
Lemma scan_mantissa_stop : forall base s,
  base <= digit_val (s_ch s) -> scan_mantissa base s = (s, false).
Proof.
  intros base s H. unfold scan_mantissa. destruct (s_src s) as [|c r] eqn:E; cbn [scan_mant];
  destruct (N.ltb_spec (digit_val (s_ch s)) base); try lia;
  change (0 =? c_us) with false; rewrite orb_false_r; destruct s; simpl in *; subst; reflexivity.
Qed.

(* well-formed digit sequences *)
Lemma base_digit_facts : forall base c, is_base_digit base c = true ->
  digit_val c < base /\ c <> c_us.
Proof.
  intros base c H. unfold is_base_digit in H. apply andb_prop in H. destruct H as [A B].
  apply N.ltb_lt in A. apply negb_true_iff in B. apply N.eqb_neq in B. auto.
Qed.

Lemma tail_render_forall : forall base t,
  forallb (fun p => is_base_digit base (snd p)) t = true -> 0 < base ->
  Forall (fun c => digit_val c < base) (tail_render t).
Proof.
  induction t as [|[u c] t IH]; intros H Hb; simpl in *.
  - constructor.
  - apply andb_prop in H. destruct H as [A B]. destruct (base_digit_facts _ _ A) as [A1 _].
    destruct u; simpl; repeat constructor; auto.
Qed.

Lemma tail_render_nonus : forall base t,
  forallb (fun p => is_base_digit base (snd p)) t = true -> nonus (tail_render t) = map snd t.
Proof.
  induction t as [|[u c] t IH]; intros H; simpl in *; [reflexivity|].
  apply andb_prop in H. destruct H as [A B]. destruct (base_digit_facts _ _ A) as [_ A2].
  unfold nonus in *. destruct u; simpl.
  - change (c_us =? c_us) with true. simpl.
    destruct (N.eqb_spec c c_us); [contradiction|]. simpl. f_equal. apply IH. exact B.
  - destruct (N.eqb_spec c c_us); [contradiction|]. simpl. f_equal. apply IH. exact B.
Qed.

Lemma tail_render_us_err : forall base t last,
  forallb (fun p => is_base_digit base (snd p)) t = true -> last <> c_us ->
  us_err last (tail_render t) = false.
Proof.
  induction t as [|[u c] t IH]; intros last H L; simpl in *.
  - apply N.eqb_neq. exact L.
  - apply andb_prop in H. destruct H as [A B]. destruct (base_digit_facts _ _ A) as [_ A2].
    pose proof (proj2 (N.eqb_neq _ _) L) as EL. pose proof (proj2 (N.eqb_neq _ _) A2) as EC.
    destruct u; simpl; rewrite EL; simpl.
    + change (c_us =? c_us) with true. rewrite EC. simpl. apply IH; assumption.
    + apply IH; assumption.
Qed.

Lemma zero_not_us : 0 <> c_us. Proof. discriminate. Qed.

(* scanning a whole digit sequence *)
Lemma scan_dseq : forall base d rbuf rest,
  0 < base <= 16 -> ds_ok base d = true -> stops base rest ->
  scan_mantissa base (after (ds_render d ++ rest) rbuf false) =
    (after rest (rev (ds_chars d) ++ rbuf) false, true).
Proof.
  intros base d rbuf rest Hb Hok Hstop. unfold ds_ok in Hok. apply andb_prop in Hok. destruct Hok as [Hh Ht].
  destruct (base_digit_facts _ _ Hh) as [H1 H2].
  destruct (digit_val_special (ds_head d) ltac:(lia)) as [NZ ND].
  unfold scan_mantissa, after, next, ds_render. cbn [app s_src s_ch s_rbuf s_err].
  rewrite on_read_plain by exact ND.
  replace (ds_head d =? 0) with false by (symmetry; apply N.eqb_neq; exact NZ). cbn [orb].
  rewrite scan_mant_run; try lia.
  - assert (nonus (ds_head d :: tail_render (ds_tail d)) = ds_chars d) as ->.
    { unfold nonus. cbn [filter]. destruct (N.eqb_spec (ds_head d) c_us); [contradiction|]. cbn [negb].
      unfold ds_chars. f_equal. apply (tail_render_nonus base). exact Ht. }
    assert (us_err 0 (ds_head d :: tail_render (ds_tail d)) = false) as ->.
    { cbn [us_err]. change (0 =? c_us) with false. cbn [andb orb].
      apply (tail_render_us_err base); assumption. }
    assert (has_digit (ds_head d :: tail_render (ds_tail d)) = true) as ->.
    { cbn [has_digit existsb]. destruct (N.eqb_spec (ds_head d) c_us); [contradiction|]. reflexivity. }
    reflexivity.
  - constructor; [exact H1|]. apply tail_render_forall; [exact Ht|lia].
  - exact Hstop.
Qed.

(* scanning what follows a consumed leading "0": the tail of a digit sequence *)
Lemma scan_tail : forall t rbuf rest,
  forallb (fun p => is_base_digit 10 (snd p)) t = true -> t <> [] -> stops 10 rest ->
  scan_mantissa 10 (after (tail_render t ++ rest) rbuf false) =
    (after rest (rev (map snd t) ++ rbuf) false, true).
Proof.
  intros t rbuf rest Ht NE Hstop.
  pose proof (tail_render_forall 10 t Ht ltac:(lia)) as Hall.
  destruct (tail_render t) as [|c0 cs] eqn:E.
  { destruct t as [|[[|] c] t]; [contradiction| |]; discriminate E. }
  inversion Hall as [|? ? H0 Hall']; subst.
  destruct (digit_val_special c0 ltac:(lia)) as [NZ ND].
  unfold scan_mantissa, after, next. cbn [app s_src s_ch s_rbuf s_err].
  rewrite on_read_plain by exact ND.
  replace (c0 =? 0) with false by (symmetry; apply N.eqb_neq; exact NZ). cbn [orb].
  rewrite scan_mant_run; try lia; auto.
  rewrite <- E.
  assert (nonus (tail_render t) = map snd t) as -> by (apply (tail_render_nonus 10); exact Ht).
  assert (us_err 0 (tail_render t) = false) as ->
    by (apply (tail_render_us_err 10); [exact Ht|discriminate]).
  assert (has_digit (tail_render t) = true) as ->.
  { destruct t as [|[u c] t]; [contradiction|]. simpl in Ht. apply andb_prop in Ht. destruct Ht as [A _].
    destruct (base_digit_facts _ _ A) as [_ A2]. pose proof (proj2 (N.eqb_neq _ _) A2) as EC.
    destruct u; simpl; rewrite EC; simpl; [|reflexivity].
    change (c_us =? c_us) with true. reflexivity. }
  reflexivity.
Qed.
